package main

// world.go — one scenario's world: a chainkit chain wired to the real client/txpool exactly as client/init.go
// and client/main.go do (BlockMinedCB/BlockUndoneCB, BlockCommitInProgress around CommitBlock, common.Last),
// the Lean oracle fed with the same operations, and the comparison + independent property predicates.

import (
	"bytes"
	"encoding/hex"
	"fmt"
	"os"
	"sort"
	"strconv"
	"strings"
	"time"

	"github.com/piotrnar/gocoin/client/common"
	"github.com/piotrnar/gocoin/client/network"
	"github.com/piotrnar/gocoin/client/txpool"
	"github.com/piotrnar/gocoin/client/usif"
	"github.com/piotrnar/gocoin/lib/btc"
	"github.com/piotrnar/gocoin/lib/chain"
	"github.com/piotrnar/gocoin/lib/script"
	"verif/chainkit"
	"verif/vlib"
)

const ringCap = 24 // CFG.TXPool.RejectRecCnt used by the harness (small, so that the ring wraps)

type txInfo struct {
	tx       *btc.Tx
	raw      []byte
	scriptOK bool
	outs     []*chainkit.Coin // coins created (Height 0 while unconfirmed)
	sent     bool             // registered with the oracle
}

type blockRec struct {
	txs   []*txInfo
	spent []*chainkit.Coin // confirmed coins this block consumed (harness ledger undo data)
}

type World struct {
	r    *vlib.Run
	g    *vlib.Rng
	k    *chainkit.Kit
	o    *vlib.Oracle
	key  *chainkit.Key
	keys map[string]*chainkit.Key
	dir  string

	txs        map[[32]byte]*txInfo
	ledger     map[btc.TxPrevOut]*chainkit.Coin // harness view of the confirmed unspent outputs it can spend
	mir        *mirror                          // realclient.go: the replica node (gocoin's client as a child process) of this world, if any
	blocks     []*blockRec                      // blocks connected by the harness on top of the setup chain
	log        []string                         // oracle lines = the op history (replay)
	name       string
	steps      int
	failed     bool
	propFailed bool // the property predicate itself has failed (not only the comparison with the model)
	notFullRBF bool
	ring       int  // CFG.TXPool.RejectRecCnt of this world
	noMem      bool // CFG.TXPool.AllowMemInputs = false: untrusted peers may only spend confirmed outputs (NOT_MINED otherwise)
	dead       bool // a real operation did not return: nothing more can be done in this process
	immature   *chainkit.Coin
	envAbort   bool
	order      []*txInfo              // creation order (deterministic iteration)
	setupCb    []*btc.Tx              // setupCb[i] = coinbase of the setup block at height i+1 (outputs to OP_TRUE)
	skipList   int                    // verify(): probability (percent) of NOT calling GetSortedMempoolRBF, so a dirty list survives
	gv         *vlib.Rng              // verify()'s own stream (does not disturb the operation generator)
	dirtyRun   int                    // number of consecutive verified operations over which the sorted list stayed dirty
	twins      map[[32]byte][]*txInfo // other serializations (witness) of a known txid: outside Univ2.id_fun, judged on the real code
	cbTold     map[[32]byte]bool      // setup coinbases already described to the oracle

	// a block commit in progress (BlockCommitInProgress(true) … (false)): the chain calls BlockUndone / BlockMined once per
	// block and releases TxMutex in between and afterwards — the window in which another thread of the node (RPC
	// getblocktemplate, web / text UI, …) lists the pool while SortingDisabled is set
	inCommit bool
	pendOps  []func() string // oracle lines (built when the event comes: the fee floor in force is part of them) of the chain events of this commit, one per BlockUndone / BlockMined callback, in order
	midProb  int             // probability (percent) that "another thread" lists and inspects the pool right after such a callback
	gm       *vlib.Rng       // the stream deciding that (does not disturb the operation generator)
	gx       *vlib.Rng       // the stream of the boundary / deep-orphan / re-submission extras of random histories (boundaries.go)
	prevR    string          // the real reject ring (dump section R) at the previous verified state
	note     string          // context put in front of every report (e.g. "after MempoolLoad refused …")
	mid      string          // "" | "mined" | "undone": verify() runs inside a commit, after that kind of callback

	// wall-clock time: the harness's own ledger of the Lastseen it has given to pooled records (Unix seconds, as the pool
	// file stores them). A record not in here was last seen "now" (entered the pool or was announced again during this run).
	old map[[32]byte]int64
}

var hungOp = make(chan string, 1)

func (w *World) ask(line string) string {
	defer prof("oracle")()
	w.log = append(w.log, line)
	return w.o.MustAsk(line)
}

func (w *World) mustOK(line string) {
	if rep := w.ask(line); rep != "ok" {
		fmt.Fprintln(os.Stderr, "HARNESS-ERROR: oracle replied", rep, "to", line)
		os.Exit(3)
	}
}

func hid(h [32]byte) string { return hex.EncodeToString(h[:]) }

// newWorld builds the chain (nblocks of coinbases to OP_TRUE + funding outputs to the harness key), wires the
// client globals and starts a fresh oracle.
func newWorld(r *vlib.Run, g *vlib.Rng, name string, notFullRBF bool, opt worldOpt) *World {
	noMem := opt.noMem
	defer prof("newWorld")()
	w := &World{r: r, g: g, name: name, txs: map[[32]byte]*txInfo{}, ledger: map[btc.TxPrevOut]*chainkit.Coin{}, keys: map[string]*chainkit.Key{}, notFullRBF: notFullRBF, noMem: noMem,
		twins: map[[32]byte][]*txInfo{}, cbTold: map[[32]byte]bool{}, old: map[[32]byte]int64{}}
	w.gv = g.Fork()
	w.gm = w.gv.Fork()
	w.gx = w.gm.Fork()
	w.midProb = 100
	if strings.HasPrefix(name, "random") {
		w.skipList = 40
		w.midProb = 35
	}
	opts := &chain.NewChanOpts{
		BlockMinedCB:  func(bl *btc.Block) { w.chainEvent("mined", func() { txpool.BlockMined(bl) }) },   // client/main.go blockMined (fee statistics left out)
		BlockUndoneCB: func(bl *btc.Block) { w.chainEvent("undone", func() { txpool.BlockUndone(bl) }) }, // client/main.go blockUndone
	}
	k, err := chainkit.New(chainkit.Opts{ChainOpts: opts}, g.Fork())
	if err != nil {
		fmt.Fprintln(os.Stderr, "HARNESS-ERROR:", err)
		os.Exit(3)
	}
	w.k = k
	w.dir = k.Dir
	w.key = k.NewKey()
	w.keys[string(w.key.P2PKH())] = w.key
	w.keys[string(w.key.P2WPKH())] = w.key
	w.keys[string(w.key.P2SH_P2WPKH())] = w.key

	// client globals (client/init.go host_init, common.Reset) — the minimum txpool reads
	common.BlockChain = k.Ch
	common.GocoinHomeDir = k.Dir
	common.CFG.TXPool.Enabled = true
	common.CFG.TXPool.AllowMemInputs = !noMem
	common.CFG.TXPool.NotFullRBF = notFullRBF
	common.CFG.TXPool.MaxTxWeight = 400e3
	w.ring = ringCap
	if opt.ring != 0 {
		w.ring = opt.ring
		r.Hit(fmt.Sprintf("world:reject-ring-%d", w.ring))
	}
	common.CFG.TXPool.RejectRecCnt = uint16(w.ring)
	common.CFG.TXPool.SaveOnDisk = true
	common.TxExpireAfter = expireAfter
	common.MaxRejectedSizeBytes = 1 << 40
	common.MaxNoUtxoSizeBytes = 1 << 40
	common.VerifSetTxPoolLimits(1<<40, 1000)
	txpool.InitMempool()
	for b := range txpool.TransactionsPending {
		delete(txpool.TransactionsPending, b)
	}
	txpool.CurrentFeeAdjustedSPKB = 0
	txpool.SortingDisabled = false
	script.DBG_ERR = false

	o, err := vlib.StartOracle("c12")
	if err != nil {
		fmt.Fprintln(os.Stderr, "HARNESS-ERROR:", err)
		os.Exit(3)
	}
	w.o = o
	w.mustOK(fmt.Sprintf("cfg %s %s 400000 %d", b01(!noMem), b01(notFullRBF), w.ring))
	if noMem {
		r.Hit("world:allow-mem-inputs-off")
	}
	w.checkConsts()

	// setup chain: 8 coinbases, then 100 more so that they mature, then fan the 8 out into funding coins
	var cbs []*btc.Tx
	for i := 0; i < 108; i++ {
		cb, _ := k.MustExtend(nil, 0)
		w.setupCb = append(w.setupCb, cb)
		if i < 8 {
			cbs = append(cbs, cb)
		}
	}
	var fan []*btc.Tx
	for i, cb := range cbs {
		c := chainkit.OutCoins(cb, w.keys, uint32(i+1), true)[0]
		var outs []chainkit.OutSpec
		per := (c.Value - 100000) / 12
		for j := 0; j < 12; j++ {
			outs = append(outs, chainkit.OutSpec{Value: per, Script: w.scriptKind(j)})
		}
		fan = append(fan, chainkit.BuildTx(2, []*chainkit.Coin{c}, nil, outs, 0))
	}
	k.MustExtend(fan, 8*100000)
	h := k.Ch.LastBlock().Height
	for _, t := range fan {
		for _, c := range chainkit.OutCoins(t, w.keys, h, false) {
			w.ledger[c.Out] = c
			w.mustOK(fmt.Sprintf("coin %s %d %d %d 0", hid(c.Out.Hash), c.Out.Vout, c.Value, h))
		}
	}
	// one immature coinbase the generator may try to spend
	lcb, _ := k.MustExtend(nil, 0)
	ic := chainkit.OutCoins(lcb, w.keys, k.Ch.LastBlock().Height, true)[0]
	w.mustOK(fmt.Sprintf("coin %s %d %d %d 1", hid(ic.Out.Hash), ic.Out.Vout, ic.Value, ic.Height))
	w.immature = ic
	w.syncTip()
	return w
}

func (w *World) scriptKind(j int) []byte {
	switch j % 4 {
	case 0:
		return w.key.P2WPKH()
	case 1:
		return chainkit.AnyoneScript
	case 2:
		return w.key.P2PKH()
	}
	return w.key.P2SH_P2WPKH()
}

// syncTip is what client/main.go does after CommitBlock returned.
func (w *World) syncTip() {
	common.Last.Mutex.Lock()
	common.Last.Block = w.k.Ch.LastBlock()
	common.Last.Mutex.Unlock()
	common.UpdateScriptFlags(0)
	w.syncReceived()
	w.mustOK(fmt.Sprintf("tip %d", common.Last.Block.Height))
}

// syncReceived: every block of the index has its network.ReceivedBlocks record, as in the client (client/main.go fills
// the map from BlockChain.BlockIndex at start-up, and every block that arrives later gets its record before it is
// committed). usif.LoadRawTx → DecodeTx → GetAverageFee reads the record of the tip block.
func (w *World) syncReceived() {
	network.MutexRcv.Lock()
	for k, v := range w.k.Ch.BlockIndex {
		if network.ReceivedBlocks[k] == nil {
			network.ReceivedBlocks[k] = &network.OneReceivedBlock{TmStart: time.Unix(int64(v.Timestamp()), 0)}
		}
	}
	network.MutexRcv.Unlock()
}

func (w *World) close() {
	if w.o != nil {
		w.o.Close()
	}
	if w.k != nil && (!w.dead || w.envAbort) {
		// Chain.Close() is not this property's subject: do not let it wedge the run
		done := make(chan bool, 1)
		go func() { w.k.Close(); done <- true }()
		select {
		case <-done:
		case <-time.After(15 * time.Second):
			w.r.Hit("chain-close-timeout")
			os.RemoveAll(w.dir)
		}
	}
}

func b01(b bool) string {
	if b {
		return "1"
	}
	return "0"
}

// register sends the tx description to the oracle once.
func (w *World) register(ti *txInfo) {
	if ti.sent && len(w.twins[ti.tx.Hash.Hash]) == 0 {
		return // (a txid with several serializations is described again before every use: the latest description counts)
	}
	ti.sent = true
	t := ti.fresh() // sizes as the pool will see them (parsed from the segwit serialization)
	var sb strings.Builder
	fmt.Fprintf(&sb, "tx %s %d %d %s %d", hid(t.Hash.Hash), t.NoWitSize, t.Size, b01(ti.scriptOK), len(t.TxIn))
	for _, in := range t.TxIn {
		fmt.Fprintf(&sb, " %s %d %d", hid(in.Input.Hash), in.Input.Vout, in.Sequence)
	}
	fmt.Fprintf(&sb, " %d", len(t.TxOut))
	for _, o := range t.TxOut {
		fmt.Fprintf(&sb, " %d", o.Value)
	}
	w.mustOK(sb.String())
}

// mkTx builds (and signs) a transaction and records it. corrupt breaks one signature.
func (w *World) mkTx(ins []*chainkit.Coin, seqs []uint32, outs []chainkit.OutSpec, corrupt bool) *txInfo {
	tx := chainkit.BuildTx(2, ins, seqs, outs, 0)
	ok := true
	if corrupt {
		for i, c := range ins {
			if c.Kind == "p2pkh" && len(tx.TxIn[i].ScriptSig) > 10 {
				tx.TxIn[i].ScriptSig[6] ^= 0x55
				ok = false
				break
			}
			if (c.Kind == "p2wpkh" || c.Kind == "p2sh-p2wpkh") && tx.SegWit != nil && len(tx.SegWit[i]) > 0 && len(tx.SegWit[i][0]) > 10 {
				tx.SegWit[i][0][6] ^= 0x55
				ok = false
				break
			}
		}
		chainkit.Finish(tx)
	}
	return w.adopt(tx, ok)
}

func (w *World) adopt(tx *btc.Tx, ok bool) *txInfo {
	if old := w.txs[tx.Hash.Hash]; old != nil {
		return old // the same txid built again (signatures are not deterministic: keep the first witness)
	}
	raw := tx.SerializeNew()
	ti := &txInfo{tx: tx, raw: raw, scriptOK: ok}
	ti.outs = chainkit.OutCoins(tx, w.keys, 0, false)
	w.txs[tx.Hash.Hash] = ti
	w.order = append(w.order, ti)
	return ti
}

// fresh returns a newly parsed copy (the pool keeps and mutates what it is given, as with a network message).
func (ti *txInfo) fresh() *btc.Tx {
	tx, n := btc.NewTx(ti.raw)
	if tx == nil || n != len(ti.raw) {
		panic("harness: cannot re-parse own tx")
	}
	tx.SetHash(ti.raw)
	return tx
}

// guarded runs one call into gocoin with panic capture and a watchdog (a hang is an observation).
func (w *World) guarded(what string, f func()) (panicked string, hung bool) {
	done := make(chan string, 1)
	go func() {
		defer func() {
			if x := recover(); x != nil {
				done <- fmt.Sprint("panic: ", x)
				return
			}
			done <- ""
		}()
		f()
	}()
	select {
	case p := <-done:
		return p, false
	case <-time.After(20 * time.Second):
		w.dead = true
		return "", true
	}
}

func (w *World) replay() map[string]interface{} {
	n := len(w.log)
	from := 0
	if n > 400 {
		from = n - 400
	}
	return map[string]interface{}{"scenario": w.name, "seed": w.r.Seed, "steps": w.steps, "oracle_ops_tail": w.log[from:]}
}

func (w *World) propFail(key, what string) {
	w.failed = true
	w.propFailed = true
	w.r.PropFail(key, "["+w.name+" step "+strconv.Itoa(w.steps)+"] "+w.note+what, w.replay())
}

func (w *World) tieFail(key, what string) {
	w.failed = true
	w.r.TieFail(key, "["+w.name+" step "+strconv.Itoa(w.steps)+"] "+w.note+what, w.replay())
}

// ------------------------------------------------------------------------------------------ operations

// submit drives the real pool the way client/network ParseTxNet + main loop (mode net / trusted) or
// client/usif LoadRawTx (mode local) do, and the oracle with the same operation.
func (w *World) submit(ti *txInfo, mode string) (code int) {
	if w.dead {
		return -1
	}
	if !ti.scriptOK {
		mode = "net" // trusted sources are trusted with script validity (see Assume)
	}
	w.register(ti)
	w.steps++
	minfee := common.MinFeePerKB()
	tx := ti.fresh()
	bidx := tx.Hash.BIdx()
	delete(w.old, tx.Hash.Hash) // (needThisTxExt: a pooled tx that is announced again has been seen now)
	var want string
	real := -1
	var pan string
	var hung bool
	switch mode {
	case "net", "trusted":
		want = w.ask(fmt.Sprintf("net %s %s %d", hid(tx.Hash.Hash), b01(mode == "trusted"), minfee))
		pan, hung = w.guarded("HandleNetTx", func() {
			why := txpool.NeedThisTxExt(&tx.Hash, func() { txpool.TransactionsPending[bidx] = true })
			if why != 0 {
				real = 1000 + why
				return
			}
			ntx := &txpool.TxRcvd{Tx: tx, Trusted: mode == "trusted"}
			ntx.FeedbackCB = func(n *txpool.TxRcvd, t2s *txpool.OneTxToSend) { real = int(n.Result) }
			txpool.HandleNetTx(ntx)
		})
	case "local":
		want = w.ask(fmt.Sprintf("local %s %d", hid(tx.Hash.Hash), minfee))
		var text string
		var wasPooled bool
		pan, hung = w.guarded("usif.LoadRawTx", func() {
			txpool.TxMutex.Lock()
			_, wasPooled = txpool.TransactionsToSend[bidx]
			txpool.TxMutex.Unlock()
			quiet(func() { text = usif.LoadRawTx(ti.raw) }) // the web / text UI's "load transaction": the real function, raw bytes in
		})
		if !hung && pan == "" {
			real = w.loadRawResult(text, bidx, wasPooled)
		}
	}
	w.r.Hit("op:submit-" + mode)
	if hung {
		w.propFail("hang:submit", "submitting "+tx.Hash.String()+" ("+mode+") does not return (TxMutex held)")
		return -1
	}
	if pan != "" {
		w.propFail("panic:submit", "submitting "+tx.Hash.String()+" ("+mode+"): "+pan)
		if !txpool.TxMutex.TryLock() {
			w.dead = true // the panic left TxMutex locked: nothing more can be done in this process
		} else {
			txpool.TxMutex.Unlock()
		}
		return -1
	}
	wc, _ := strconv.Atoi(want)
	w.r.Hit(fmt.Sprintf("result:%s", codeName(real, wc)))
	if real == -2 {
		if wc == 0 || wc >= 1000 {
			w.tieFail("model-mismatch:result", fmt.Sprintf("SubmitLocalTx refused %s, model says %d", tx.Hash.String(), wc))
		}
	} else if real != wc {
		w.tieFail("model-mismatch:result", fmt.Sprintf("%s submit of %s: gocoin %d, model %d", mode, tx.Hash.String(), real, wc))
	} else {
		w.r.TieOK()
	}
	w.verify()
	w.mir.op([]string{"tx " + mode + " " + hex.EncodeToString(ti.raw)}, "submit-"+mode, "")
	return real
}

// loadRawResult turns what usif.LoadRawTx did into the model's reply code: 0 pooled now, 1000+why not wanted, the reject
// reason when the pool has refused it with a record, -2 when it has refused it without one (the reason is then not
// visible). The code is taken from the message LoadRawTx returns and cross-checked against the pool.
func (w *World) loadRawResult(text string, bidx btc.BIDX, wasPooled bool) (real int) {
	txpool.TxMutex.Lock()
	_, pooled := txpool.TransactionsToSend[bidx]
	rec := txpool.TransactionsRejected[bidx]
	txpool.TxMutex.Unlock()
	num := func(after string) int {
		i := strings.LastIndex(text, after)
		if i < 0 {
			return -1
		}
		f := strings.Fields(text[i+len(after):])
		if len(f) == 0 {
			return -1
		}
		n, err := strconv.Atoi(f[0])
		if err != nil {
			return -1
		}
		return n
	}
	real = -2
	switch {
	case strings.Contains(text, "not needed or not wanted"):
		if why := num("not needed or not wanted"); why > 0 {
			real = 1000 + why
		} else if wasPooled {
			real = 1001
		}
		w.r.Hit("loadrawtx:not-wanted")
		if pooled {
			w.r.Hit("loadrawtx:pooled-tx-made-own")
		}
	case strings.Contains(text, "added to the memory pool"):
		real = 0
		w.r.Hit("loadrawtx:added")
	case strings.Contains(text, "Transaction rejected"):
		if n := num("Transaction rejected"); n > 0 {
			real = n
		} else if rec != nil {
			real = int(rec.Reason)
		}
		w.r.Hit("loadrawtx:rejected")
	case strings.Contains(text, "Could not decode"):
		w.tieFail("loadrawtx-decode", "usif.LoadRawTx cannot decode a transaction the harness built: "+strings.TrimSpace(text))
	default: // a message this harness does not know: judge by the pool alone
		w.r.Hit("loadrawtx:unknown-message")
		switch {
		case wasPooled:
			real = 1001
		case pooled:
			real = 0
		case rec != nil:
			real = int(rec.Reason)
		}
	}
	// LoadRawTx's own report against the pool it has just changed
	if real == 0 && !pooled {
		w.propFail("loadrawtx-report", "usif.LoadRawTx reports a transaction as added to the memory pool that is not there")
	}
	if real != 0 && real < 1000 && pooled {
		w.propFail("loadrawtx-report", "usif.LoadRawTx reports a transaction as rejected that is in the memory pool")
	}
	return
}

func codeName(real, model int) string {
	c := real
	if c == -2 {
		c = model
	}
	if c >= 1000 {
		return fmt.Sprintf("not-wanted-%d", c-1000)
	}
	if c == 0 {
		return "accepted"
	}
	return txpool.ReasonToString(byte(c))
}

// ledgerAt returns a copy of the harness ledger rolled back by `depth` harness blocks.
func (w *World) ledgerAt(depth int) map[btc.TxPrevOut]*chainkit.Coin {
	v := make(map[btc.TxPrevOut]*chainkit.Coin, len(w.ledger))
	for k, c := range w.ledger {
		v[k] = c
	}
	for i := 0; i < depth; i++ {
		b := w.blocks[len(w.blocks)-1-i]
		for _, ti := range b.txs {
			for _, c := range ti.outs {
				delete(v, c.Out)
			}
		}
		for _, c := range b.spent {
			v[c.Out] = c
		}
	}
	return v
}

// selectValid keeps, in order, the candidates whose inputs are all available in view (updating it).
func selectValid(view map[btc.TxPrevOut]*chainkit.Coin, cands []*txInfo, height uint32) (txs []*txInfo, fees uint64) {
	seen := map[[32]byte]bool{}
	for _, ti := range cands {
		if seen[ti.tx.Hash.Hash] || !ti.scriptOK {
			continue
		}
		ok := true
		var in uint64
		used := map[btc.TxPrevOut]bool{}
		for _, i := range ti.tx.TxIn {
			c := view[i.Input]
			if c == nil || used[i.Input] || c.Coinbase && height-c.Height < chain.COINBASE_MATURITY {
				ok = false
				break
			}
			used[i.Input] = true
			in += c.Value
		}
		var out uint64
		for _, o := range ti.tx.TxOut {
			out += o.Value
		}
		if !ok || out > in {
			continue
		}
		seen[ti.tx.Hash.Hash] = true
		for _, i := range ti.tx.TxIn {
			delete(view, i.Input)
		}
		for _, c := range ti.outs {
			cc := *c
			view[c.Out] = &cc
		}
		txs = append(txs, ti)
		fees += in - out
	}
	return
}

func (w *World) txsOf(tis []*txInfo) []*btc.Tx {
	var r []*btc.Tx
	for _, ti := range tis {
		r = append(r, ti.fresh())
	}
	return r
}

// connect applies a harness block to the harness ledger.
func (w *World) ledgerConnect(txs []*txInfo, height uint32) {
	b := &blockRec{txs: txs}
	for _, ti := range txs {
		for _, i := range ti.tx.TxIn {
			if c := w.ledger[i.Input]; c != nil {
				if !w.createdIn(txs, i.Input.Hash) {
					b.spent = append(b.spent, c)
				}
				delete(w.ledger, i.Input)
			}
		}
		for _, c := range ti.outs {
			cc := *c
			cc.Height = height
			w.ledger[c.Out] = &cc
		}
	}
	w.blocks = append(w.blocks, b)
}

func (w *World) createdIn(txs []*txInfo, h [32]byte) bool {
	for _, ti := range txs {
		if ti.tx.Hash.Hash == h {
			return true
		}
	}
	return false
}

func (w *World) ledgerDisconnect() {
	b := w.blocks[len(w.blocks)-1]
	w.blocks = w.blocks[:len(w.blocks)-1]
	for _, ti := range b.txs {
		for _, c := range ti.outs {
			delete(w.ledger, c.Out)
		}
	}
	for _, c := range b.spent {
		w.ledger[c.Out] = c
	}
}

func (w *World) blockLine(height uint32, txs []*txInfo) string {
	var sb strings.Builder
	fmt.Fprintf(&sb, "block %d %d %d", height, common.MinFeePerKB(), len(txs))
	for _, ti := range txs {
		fmt.Fprintf(&sb, " %s", hid(ti.tx.Hash.Hash))
	}
	return sb.String()
}

// chainEvent is the BlockMinedCB / BlockUndoneCB of the chain. Inside a commit driven by the harness the model gets
// the corresponding operation now (so that its history has the chain's own order of undone and connected blocks), the
// real pool function runs, and then - TxMutex is free again, SortingDisabled still set - "another thread" may take the
// mutex: the listing the node would hand out at this moment is taken and the whole state is verified.
func (w *World) chainEvent(kind string, f func()) {
	if !w.inCommit {
		f() // building the setup chain
		return
	}
	if len(w.pendOps) > 0 {
		line := w.pendOps[0]()
		w.pendOps = w.pendOps[1:]
		if rep := w.ask(line); rep != "ok" {
			fmt.Fprintln(os.Stderr, "HARNESS-ERROR: oracle replied", rep, "to", line)
			os.Exit(3)
		}
	} else {
		w.tieFail("chain-event-unexpected", "the chain reports a block "+kind+" that the harness did not expect in this commit")
	}
	f()
	if w.midProb > 0 && !w.propFailed && w.gm.Intn(100) < w.midProb {
		w.r.Hit("mid-commit:listing-after-block-" + kind)
		w.mid = kind
		w.verify()
		w.mid = ""
	}
}

// flushPend hands the model the chain events of a commit whose callback did not come (reported as a mismatch).
func (w *World) flushPend() {
	for _, mk := range w.pendOps {
		line := mk()
		w.tieFail("chain-event-missing", "the chain did not report to the pool: "+line[:strings.IndexByte(line+" ", ' ')])
		w.ask(line)
	}
	w.pendOps = nil
}

// submitBlock = client/main.go LocalAcceptBlock: BlockCommitInProgress around the commit, then common.Last.
func (w *World) submitBlock(raw []byte) (res *chainkit.Result, pan string, hung bool) {
	pan, hung = w.guarded("CommitBlock", func() {
		txpool.BlockCommitInProgress(true)
		w.inCommit = true
		res = w.k.Submit(raw)
		w.inCommit = false
		txpool.BlockCommitInProgress(false)
	})
	w.inCommit = false
	return
}

// mine extends the tip with a block holding the valid ones among cands.
func (w *World) mine(cands []*txInfo) bool {
	if w.dead {
		return false
	}
	w.steps++
	view := w.ledgerAt(0)
	txs, fees := selectValid(view, cands, w.k.Ch.LastBlock().Height+1)
	for _, ti := range txs {
		w.register(ti)
	}
	raw := w.k.Build(chainkit.BlockSpec{Txs: w.txsOf(txs), Fees: fees})
	height := w.k.Ch.LastBlock().Height + 1
	w.mustOK("flag 1")
	w.pendOps = []func() string{func() string { return w.blockLine(height, txs) }}
	res, pan, hung := w.submitBlock(raw)
	if !hung && pan == "" {
		w.flushPend()
		w.mustOK("flag 0")
	}
	w.r.Hit("op:block")
	w.r.Hit(fmt.Sprintf("block-txs:%s", bucket(len(txs))))
	if hung {
		w.propFail("hang:block", "connecting a block does not return (BlockMined holds TxMutex)")
		return false
	}
	if pan != "" {
		w.propFail("panic:block", "connecting a block: "+pan)
		return false
	}
	if !res.OK() {
		fmt.Fprintln(os.Stderr, "HARNESS-ERROR: harness-built block refused:", res.String())
		os.Exit(3)
	}
	w.ledgerConnect(txs, height)
	w.syncTip()
	w.verify()
	w.mir.op([]string{"blk " + hex.EncodeToString(raw)}, "block", hex.EncodeToString(raw[:80]))
	return true
}

// undoBare disconnects the last harness block exactly as the text-UI command `undo` does (client/usif/textui
// undo_block): BlockCommitInProgress(true), Chain.UndoLastBlock (→ BlockUndone), BlockCommitInProgress(false),
// common.Last. The state after it is a state of the property's quantifier ("undone blocks"): it is verified.
func (w *World) undoBare() bool { return w.undoLast(false) }

// undoSlow is the text-UI command `undo slow`: the same WITHOUT BlockCommitInProgress(true) in front - BlockUndone runs
// with sorting enabled, so every transaction it puts back is inserted into the BestT2S…WorstT2S list by AddToSort at once
// (by its own fee rate) and unmined() re-flags its pooled children while that list is live. Any direct caller of
// txpool.BlockUndone is in the same position.
func (w *World) undoSlow() bool { return w.undoLast(true) }

func (w *World) undoLast(slow bool) bool {
	if w.dead || len(w.blocks) == 0 {
		return false
	}
	w.steps++
	if !slow {
		w.mustOK("flag 1")
	}
	uh := w.k.Ch.LastBlock().Height
	w.pendOps = []func() string{func() string { return fmt.Sprintf("undo %d %d", uh, common.MinFeePerKB()) }}
	pan, hung := w.guarded("UndoLastBlock", func() {
		if !slow {
			txpool.BlockCommitInProgress(true)
		}
		w.inCommit = true
		quiet(func() { w.k.Ch.UndoLastBlock() })
		w.inCommit = false
		txpool.BlockCommitInProgress(false)
	})
	w.inCommit = false
	if !hung && pan == "" {
		w.flushPend()
		w.mustOK("flag 0")
	}
	if slow {
		w.r.Hit("op:undo-slow")
	} else {
		w.r.Hit("op:undo-bare")
	}
	if hung {
		w.propFail("hang:undo", "undoing a block does not return (BlockUndone holds TxMutex)")
		return false
	}
	if pan != "" {
		w.propFail("panic:undo", "undoing a block: "+pan)
		return false
	}
	w.ledgerDisconnect()
	w.syncTip()
	w.verify()
	w.mir.op([]string{"undo " + b01(slow)}, "undo", "")
	return true
}

// reorg replaces the last `depth` harness blocks by depth+1 blocks built from cands.
func (w *World) reorg(depth int, cands []*txInfo) bool {
	if w.dead {
		return false
	}
	if depth > len(w.blocks) {
		depth = len(w.blocks)
	}
	if depth == 0 {
		return w.mine(cands)
	}
	w.steps++
	node := w.k.Ch.LastBlock()
	for i := 0; i < depth; i++ {
		node = node.Parent
	}
	view := w.ledgerAt(depth)
	// split the candidates over the new blocks
	var perBlock [][]*txInfo
	var feesPer []uint64
	rest := cands
	for i := 0; i <= depth; i++ {
		var take []*txInfo
		if i == depth {
			take = rest
		} else {
			n := len(rest) / 2
			take, rest = rest[:n], rest[n:]
		}
		txs, f := selectValid(view, take, node.Height+uint32(i)+1)
		perBlock = append(perBlock, txs)
		feesPer = append(feesPer, f)
	}
	// oracle: what the chain will do when the last block arrives
	// (the chain stores the first side blocks and does everything - the undos, then the connects - when the last one
	// arrives: the model is handed each of these operations when the chain reports it to the pool)
	w.mustOK("flag 1")
	w.pendOps = nil
	for i := 0; i < depth; i++ {
		uh := w.k.Ch.LastBlock().Height - uint32(i)
		w.pendOps = append(w.pendOps, func() string { return fmt.Sprintf("undo %d %d", uh, common.MinFeePerKB()) })
	}
	parent := node
	h := node.Height
	// build and submit the side blocks one by one (each needs its parent in the index)
	for i, txs := range perBlock {
		for _, ti := range txs {
			w.register(ti)
		}
		fees := feesPer[i]
		raw := w.k.Build(chainkit.BlockSpec{Parent: parent, Txs: w.txsOf(txs), Fees: fees})
		bh, btxs := h+uint32(i)+1, txs
		w.pendOps = append(w.pendOps, func() string { return w.blockLine(bh, btxs) })
		res, pan, hung := w.submitBlock(raw)
		if hung {
			w.propFail("hang:reorg", "a reorganisation does not return")
			return false
		}
		if pan != "" {
			w.propFail("panic:reorg", "reorganisation: "+pan)
			return false
		}
		if !res.OK() {
			fmt.Fprintln(os.Stderr, "HARNESS-ERROR: harness-built side block refused:", res.String())
			os.Exit(3)
		}
		parent = w.k.Ch.BlockIndex[res.Block.Hash.BIdx()]
	}
	w.flushPend()
	w.mustOK("flag 0")
	if w.k.Ch.LastBlock() != parent {
		fmt.Fprintln(os.Stderr, "HARNESS-ERROR: reorg did not move the tip")
		os.Exit(3)
	}
	for i := 0; i < depth; i++ {
		w.ledgerDisconnect()
	}
	for i, txs := range perBlock {
		w.ledgerConnect(txs, h+uint32(i)+1)
	}
	w.r.Hit("op:reorg")
	w.r.Hit(fmt.Sprintf("reorg-depth:%d", depth))
	w.syncTip()
	w.verify()
	return true
}

func bucket(n int) string {
	switch {
	case n == 0:
		return "0"
	case n <= 2:
		return "1-2"
	case n <= 8:
		return "3-8"
	case n <= 32:
		return "9-32"
	}
	return ">32"
}

// poolKeys returns the BIDX strings of the real pool.
func poolKeys() map[string]bool {
	m := map[string]bool{}
	for b := range txpool.TransactionsToSend {
		m[btc.BIdxString(b)] = true
	}
	return m
}

// expireAfter is the harness's TXPool.ExpireInDays (common.TxExpireAfter).
const expireAfter = 14 * 24 * time.Hour

// age moves the Lastseen of the given pooled records back by d (nobody has announced them for that long; all of the
// pool = the node was switched off for d). No operation of the model: time only shows in which records the next expiry
// tick picks, and the pool must carry every record - whatever its age - through all other operations (save and reload
// included) until then.
func (w *World) age(sel []*txInfo, d time.Duration) {
	if w.dead {
		return
	}
	now := time.Now().Unix()
	txpool.TxMutex.Lock()
	for _, ti := range sel {
		t2s := txpool.TransactionsToSend[ti.tx.Hash.BIdx()]
		if t2s == nil {
			continue
		}
		base, ok := w.old[ti.tx.Hash.Hash]
		if !ok || base > now {
			base = now
		}
		ls := base - int64(d/time.Second)
		if a := now - ls - int64(expireAfter/time.Second); a > -600 && a < 600 {
			ls -= 3600 // stay clear of the limit itself: the code reads the clock a little later than the harness does
		}
		t2s.Lastseen = time.Unix(ls, 0)
		w.old[ti.tx.Hash.Hash] = ls
		if now-ls > int64(expireAfter/time.Second) {
			w.r.Hit("aged:past-expiry")
		} else {
			w.r.Hit("aged:not-yet-expired")
		}
	}
	txpool.TxMutex.Unlock()
	w.r.Hit("op:age")
}

// ageRandom: a random part of the pool (or all of it) has not been seen for a random time around the expiry limit.
func (w *World) ageRandom() {
	pool := w.pooled()
	if len(pool) == 0 {
		return
	}
	spans := []time.Duration{7 * time.Hour, 6 * 24 * time.Hour, 13*24*time.Hour + 22*time.Hour, 14*24*time.Hour + 3*time.Hour, 15 * 24 * time.Hour, 40 * 24 * time.Hour, 400 * 24 * time.Hour}
	d := spans[w.g.Intn(len(spans))]
	if w.g.Chance(1, 4) {
		w.age(pool, d) // offline for d
		w.r.Hit("gen:aged-whole-pool")
		return
	}
	var sel []*txInfo
	for _, ti := range pool {
		if w.g.Chance(1, 3) {
			sel = append(sel, ti)
		}
	}
	w.age(sel, d)
}

// expiredKeys: the pooled records that the harness's time ledger puts past the expiry limit (call with TxMutex locked).
func (w *World) expiredKeys() (keys []string) {
	now := time.Now().Unix()
	for h, ls := range w.old {
		if now-ls <= int64(expireAfter/time.Second) {
			continue
		}
		if ti := w.txs[h]; ti != nil {
			if _, ok := txpool.TransactionsToSend[ti.tx.Hash.BIdx()]; ok {
				keys = append(keys, btc.BIdxString(ti.tx.Hash.BIdx()))
			}
		}
	}
	sort.Strings(keys)
	return
}

// tickExpire ages the given pooled txs (not seen for 15 days) and runs Tick() with the expiry timer due: these and
// every record aged past the limit before must go, each with its descendants.
func (w *World) tickExpire(old []*txInfo) {
	if w.dead {
		return
	}
	w.steps++
	for _, ti := range old {
		delete(w.old, ti.tx.Hash.Hash)
	}
	w.age(old, 15*24*time.Hour)
	txpool.TxMutex.Lock()
	keys := w.expiredKeys()
	txpool.VerifExpireOnNextTick()
	txpool.TxMutex.Unlock()
	w.mustOK(fmt.Sprintf("expire %d %s", len(keys), strings.Join(keys, " ")))
	pan, hung := w.guarded("Tick", txpool.Tick)
	w.r.Hit("op:tick-expire")
	w.r.Hit("expired:" + bucket(len(keys)))
	if hung || pan != "" {
		w.propFail("panic:tick", "Tick (expiry): "+pan)
		return
	}
	w.verify()
}

// tickEvict lowers the size limit so that the pool is more than 1 MB above it and runs Tick().
func (w *World) tickEvict(limit uint64) {
	if w.dead {
		return
	}
	w.steps++
	txpool.TxMutex.Lock()
	pre := txpool.GetSortedMempoolRBF()
	var order []string
	for _, t := range pre {
		order = append(order, btc.BIdxString(t.Hash.BIdx()))
	}
	before := poolKeys()
	size := txpool.TransactionsToSendSize
	txpool.TxMutex.Unlock()
	w.mustOK("resort")
	common.VerifSetMaxMempoolSize(limit)
	pan, hung := w.guarded("Tick", txpool.Tick)
	common.VerifSetMaxMempoolSize(1 << 40)
	w.r.Hit("op:tick-evict")
	if hung || pan != "" {
		w.propFail("panic:tick", "Tick (eviction): "+pan)
		return
	}
	txpool.TxMutex.Lock()
	after := poolKeys()
	sizeAfter := txpool.TransactionsToSendSize
	txpool.TxMutex.Unlock()
	// the victims must be a suffix of the listing
	n := len(before) - len(after)
	var victims []string
	for i := len(order) - 1; i >= len(order)-n && i >= 0; i-- {
		victims = append(victims, order[i])
		if after[order[i]] {
			w.propFail("evict-not-suffix", "removeExcessiveTxs kept "+order[i]+" but removed a better-ranked transaction")
			return
		}
	}
	w.r.Hit("evicted:" + bucket(n))
	if size >= limit+1e6 && sizeAfter > limit && len(after) > 0 {
		w.propFail("evict-incomplete", fmt.Sprintf("pool of %d bytes stays above the limit %d after Tick (%d)", size, limit, sizeAfter))
	}
	if size < limit+1e6 && n != 0 {
		w.propFail("evict-early", fmt.Sprintf("pool of %d bytes is not 1 MB above the limit %d but %d txs were removed", size, limit, n))
	}
	if rep := w.ask(fmt.Sprintf("evict %d %s", len(victims), strings.Join(victims, " "))); rep != "ok" {
		w.propFail("evict-parent-before-child", "removeExcessiveTxs deleted a transaction that still had children in the pool: "+rep)
		return
	}
	w.verify()
}

// reload = MempoolSave(true) + MempoolLoad() (client exit + start)
func (w *World) reload() {
	if w.dead {
		return
	}
	w.steps++
	w.mustOK("reload")
	ok := false
	envFail := false
	pan, hung := w.guarded("MempoolSave+Load", func() {
		txpool.MempoolSave(true)
		// MempoolSave ignores write errors: a full /tmp (many harnesses share it) must not look like a defect
		if b, err := os.ReadFile(common.GocoinHomeDir + txpool.MEMPOOL_FILE_NAME); err != nil || !bytes.HasSuffix(b, txpool.END_MARKER) {
			envFail = true
			return
		} else if !w.refusedLoads(b) { // damaged variants of this file first: each must be refused and leave nothing behind
			if back, err := os.ReadFile(common.GocoinHomeDir + txpool.MEMPOOL_FILE_NAME); err != nil || !bytes.Equal(back, b) {
				envFail = true
				return
			}
		}
		ok = txpool.MempoolLoad()
	})
	if envFail {
		w.r.Hit("env:mempool-file-not-written")
		w.dead, w.envAbort = true, true // the model has already reloaded: stop this scenario
		return
	}
	w.r.Hit("op:save-reload")
	if hung || pan != "" {
		w.propFail("panic:reload", "MempoolSave/MempoolLoad: "+pan)
		return
	}
	if !ok {
		w.propFail("reload-refused", "MempoolLoad refuses the file MempoolSave has just written")
		return
	}
	w.verify()
	w.mir.op([]string{"save", "load"}, "save+reload", "")
}

// ------------------------------------------------------------------------------------------ observation

func memStr(m []bool) string {
	if m == nil {
		return "-"
	}
	var sb strings.Builder
	for _, b := range m {
		if b {
			sb.WriteByte('1')
		} else {
			sb.WriteByte('0')
		}
	}
	return sb.String()
}

// realDump is the canonical dump of the real pool, in the oracle's format. Call with TxMutex locked.
func realDump(pan bool) map[string]string {
	d := map[string]string{}
	var p []string
	for b, t := range txpool.TransactionsToSend {
		p = append(p, fmt.Sprintf("%s:%d:%d:%s:%d:%s:%s", btc.BIdxString(b), t.Fee, t.Volume, memStr(t.MemInputs), t.MemInputCnt, b01(t.Final), b01(t.Local)))
	}
	sort.Strings(p)
	d["P"] = strings.Join(p, " ")
	var s []string
	for u, b := range txpool.SpentOutputs {
		s = append(s, fmt.Sprintf("%016x>%s", u, btc.BIdxString(b)))
	}
	sort.Strings(s)
	d["S"] = strings.Join(s, " ")
	var r []string
	if len(txpool.TRIdxArray) > 0 {
		for idx := txpool.TRIdxTail; idx != txpool.TRIdxHead; idx = txpool.TRIdxNext(idx) {
			if txpool.TRIdIsZeroArrayRec(idx) {
				continue
			}
			b := txpool.TRIdxArray[idx]
			rec := txpool.TransactionsRejected[b]
			if rec == nil {
				r = append(r, btc.BIdxString(b)+":?")
				continue
			}
			w4 := "-"
			if rec.Waiting4 != nil {
				w4 = btc.BIdxString(rec.Waiting4.BIdx())
			}
			r = append(r, fmt.Sprintf("%s:%d:%s:%s", btc.BIdxString(b), rec.Reason, b01(rec.Tx != nil), w4))
		}
	}
	d["R"] = strings.Join(r, " ")
	var wl []string
	for k, rec := range txpool.WaitingForInputs {
		var ids []string
		for _, i := range rec.Ids {
			ids = append(ids, btc.BIdxString(i))
		}
		wl = append(wl, btc.BIdxString(k)+"="+strings.Join(ids, ","))
	}
	sort.Strings(wl)
	d["W"] = strings.Join(wl, " ")
	var x []string
	for k, lst := range txpool.RejectedSpentOutputs {
		var ids []string
		for _, i := range lst {
			ids = append(ids, btc.BIdxString(i))
		}
		x = append(x, fmt.Sprintf("%016x=%s", k, strings.Join(ids, ",")))
	}
	sort.Strings(x)
	d["X"] = strings.Join(x, " ")
	if txpool.SortListDirty {
		d["L"] = "dirty"
		d["K"] = "dirty"
	} else {
		var l, k []string
		for _, t := range txpool.GetSortedMempool() {
			l = append(l, btc.BIdxString(t.Hash.BIdx()))
			k = append(k, fmt.Sprintf("%s:%d", btc.BIdxString(t.Hash.BIdx()), t.SortRank))
		}
		d["L"] = strings.Join(l, " ")
		d["K"] = strings.Join(k, " ")
	}
	d["T"] = fmt.Sprintf("%d %d", txpool.TransactionsToSendWeight, len(txpool.TransactionsRejected))
	d["E"] = b01(pan)
	return d
}

// ringOverrun: the dumped reject ring is full (ringCap-1 records) of REPLACED records none of which was in the ring at
// the previous verified state.
func (w *World) ringOverrun(r string) bool {
	f := strings.Fields(r)
	if len(f) < w.ring-1 {
		return false
	}
	prev := map[string]bool{}
	for _, e := range strings.Fields(w.prevR) {
		prev[e[:16]] = true
	}
	for _, e := range f {
		if !strings.Contains(e, fmt.Sprintf(":%d:", txpool.TX_REJECTED_REPLACED)) || prev[e[:16]] {
			return false
		}
	}
	return true
}

func parseDump(line string) map[string]string {
	d := map[string]string{}
	for _, sec := range strings.Split(line, " | ") {
		sec = strings.TrimSpace(sec)
		if sec == "" {
			continue
		}
		d[sec[:1]] = strings.TrimSpace(sec[1:])
	}
	return d
}

func sameSet(a, b string) bool {
	x, y := strings.Fields(a), strings.Fields(b)
	sort.Strings(x)
	sort.Strings(y)
	return strings.Join(x, " ") == strings.Join(y, " ")
}

func firstDiff(a, b string) string {
	x, y := strings.Fields(a), strings.Fields(b)
	for i := 0; i < len(x) || i < len(y); i++ {
		var p, q string
		if i < len(x) {
			p = x[i]
		}
		if i < len(y) {
			q = y[i]
		}
		if p != q {
			return fmt.Sprintf("at #%d gocoin=%q model=%q (of %d/%d)", i, p, q, len(x), len(y))
		}
	}
	return ""
}

// feeTies reports whether two pooled transactions have the same fee rate (the order of ties is unspecified
// in GetSortedMempoolSlow: sort.Slice over a map iteration).
func feeTies() bool {
	type fr struct{ f, w uint64 }
	var l []fr
	for _, t := range txpool.TransactionsToSend {
		l = append(l, fr{t.Fee, uint64(t.Weight())})
	}
	for i := range l {
		for j := i + 1; j < len(l); j++ {
			if l[i].f*l[j].w == l[j].f*l[i].w {
				return true
			}
		}
	}
	return false
}

// verify: after each operation compare the whole observable state with the model and evaluate the property's
// own predicate on the real pool, independently of the model.
func (w *World) verify() {
	if w.dead {
		return
	}
	defer prof("verify")()
	txpool.TxMutex.Lock()
	defer txpool.TxMutex.Unlock()
	for h := range w.old { // a record that has left the pool takes its age with it (coming back it is a new record)
		if ti := w.txs[h]; ti == nil || txpool.TransactionsToSend[ti.tx.Hash.BIdx()] == nil {
			delete(w.old, h)
		}
	}

	// the listing the node would mine / relay from (this also rebuilds the sorted list when it is dirty)
	dirtyBefore := txpool.SortListDirty
	// with some probability nobody asks for the listing after this operation: a dirty list then stays dirty over the
	// next operation(s) (AddToSort / DelFromSort / BlockCommitInProgress on a dirty list), as in a node nobody polls
	skip := dirtyBefore && w.skipList > 0 && w.gv.Intn(100) < w.skipList
	var listing []*txpool.OneTxToSend
	var pan string
	func() {
		defer func() {
			if x := recover(); x != nil {
				pan = fmt.Sprint(x)
			}
		}()
		if skip {
			listing = txpool.GetSortedMempool() // GetSortedMempoolSlow: does not rebuild the list
		} else {
			listing = txpool.GetSortedMempoolRBF()
		}
	}()
	if pan != "" {
		w.propFail("panic:listing", "GetSortedMempoolRBF / GetSortedMempool panics: "+pan)
		return
	}
	md0 := parseDump(w.ask("dump"))
	if (md0["L"] == "dirty") != dirtyBefore {
		w.tieFail("model-mismatch:dirty", fmt.Sprintf("SortListDirty: gocoin %v, model dirty=%v", dirtyBefore, md0["L"] == "dirty"))
	}
	if skip {
		w.dirtyRun++
		w.r.Hit("verify:list-left-dirty")
		if w.dirtyRun >= 2 {
			w.r.Hit("verify:list-dirty-over-2+-ops")
		}
		if !txpool.SortListDirty {
			w.propFail("dirty-cleared", "GetSortedMempool() on a dirty list cleared SortListDirty without rebuilding")
		}
	} else {
		w.dirtyRun = 0
		w.mustOK("resort")
	}
	rd := realDump(false)
	md := parseDump(w.ask("dump"))

	// ---- model vs implementation
	agree := true
	// One operation replaced so many pooled transactions (a root with >= ringCap-1 descendants, enumerated by gocoin in
	// map order) that the batch of REPLACED records alone overran the reject ring: WHICH of them survive depends on
	// Go's map order and cannot be adopted by a re-ordering. Classifier: the ring is full of REPLACED records none of
	// which was there before, on both sides, and the two sides differ. The pool side is still compared and the
	// property predicate evaluated; then this scenario ends.
	overrun := rd["R"] != md["R"] && !sameSet(rd["R"], md["R"]) && w.ringOverrun(rd["R"]) && w.ringOverrun(md["R"])
	secs := []string{"P", "S", "W", "X", "T", "E"}
	if overrun {
		secs = []string{"P", "S", "T", "E"}
		agree = false
		w.r.Hit("gen:replaced-batch-overruns-reject-ring")
		defer func() { w.dead, w.envAbort = true, true }()
	}
	defer func(r string) { w.prevR = r }(rd["R"])
	for _, sec := range secs {
		if rd[sec] != md[sec] {
			agree = false
			w.tieFail("model-mismatch:"+sec, "state section "+sec+" differs "+firstDiff(rd[sec], md[sec]))
		}
	}
	if rd["R"] != md["R"] && !overrun {
		if sameSet(rd["R"], md["R"]) {
			// batch of REPLACED records: the Go code walks a map, the order inside the batch is unspecified
			var ks []string
			for _, e := range strings.Fields(rd["R"]) {
				ks = append(ks, e[:16])
			}
			if rep := w.ask(fmt.Sprintf("ringorder %d %s", len(ks), strings.Join(ks, " "))); rep != "ok" {
				agree = false
				w.tieFail("model-mismatch:R", "reject ring cannot be re-ordered: "+rep)
			}
			w.r.Hit("resync:ring-order")
		} else {
			agree = false
			if os.Getenv("VERIF_C12_DEBUG") != "" {
				fmt.Fprintln(realErr, "R gocoin:", rd["R"], "\nR model :", md["R"], "\nlog tail:", strings.Join(w.log[len(w.log)-8:], "\n"))
			}
			w.tieFail("model-mismatch:R", "rejected list differs "+firstDiff(rd["R"], md["R"]))
		}
	}
	if rd["L"] != md["L"] && !overrun {
		if sameSet(rd["L"], md["L"]) && feeTies() {
			ks := strings.Fields(rd["L"])
			if rep := w.ask(fmt.Sprintf("setorder %d %s", len(ks), strings.Join(ks, " "))); rep != "ok" {
				agree = false
				w.tieFail("model-mismatch:L", "sorted list of gocoin is not a parents-first permutation the model accepts")
			}
			w.r.Hit("resync:sort-ties")
			md = parseDump(w.ask("dump"))
		} else {
			agree = false
			w.tieFail("model-mismatch:L", "sorted list differs "+firstDiff(rd["L"], md["L"]))
		}
	}
	// the SortRank of every list element (fixIndex / reindexDown / reindexEverything / buildSortedList)
	if agree && rd["K"] != md["K"] {
		agree = false
		w.tieFail("model-mismatch:sortrank", "SortRank values along the sorted list differ "+firstDiff(rd["K"], md["K"]))
	}
	if md["G"] == "1" {
		w.r.Hit("model:rank-wrap-flag")
	}
	if agree {
		w.r.TieOK()
	}

	// ---- GetSortedMempoolRBF: the model merges its sorted list with the observed (validated) FeePackages
	if agree && skip && !feeTies() {
		// dirty list: GetSortedMempool() = GetSortedMempoolSlow() against the model's (rbf 0 = its listing without packages)
		rep := w.ask("rbf 0")
		var ll []string
		for _, t := range listing {
			ll = append(ll, btc.BIdxString(t.Hash.BIdx()))
		}
		if real := strings.Join(ll, " "); rep != real {
			w.tieFail("model-mismatch:slow-listing", "GetSortedMempoolSlow differs from the model's "+firstDiff(real, rep))
		} else {
			w.r.TieOK()
		}
	}
	if agree && !skip && !txpool.FeePackagesDirty {
		var sb strings.Builder
		fmt.Fprintf(&sb, "rbf %d", len(txpool.FeePackages))
		npk := 0
		for _, pk := range txpool.FeePackages {
			fmt.Fprintf(&sb, " %d %d %d", pk.Fee, pk.Weight, len(pk.Txs))
			for _, t := range pk.Txs {
				sb.WriteString(" " + btc.BIdxString(t.Hash.BIdx()))
			}
			npk++
		}
		w.r.Hit("fee-packages:" + bucket(npk))
		rep := w.ask(sb.String())
		var ll []string
		for _, t := range listing {
			ll = append(ll, btc.BIdxString(t.Hash.BIdx()))
		}
		real := strings.Join(ll, " ")
		switch {
		case strings.HasPrefix(rep, "bad-pkg"):
			w.tieFail("model-mismatch:fee-package", "a fee package of gocoin is not what the model's merge relies on (>= 2 members, no duplicates, pooled, closed under in-pool parents with parents first, Fee/Weight = sums): "+rep)
		case rep != real:
			w.tieFail("model-mismatch:rbf-listing", "GetSortedMempoolRBF differs from the model's merge "+firstDiff(real, rep))
		default:
			w.r.TieOK()
			if real != rd["L"] {
				w.r.Hit("rbf-listing:differs-from-sorted-list")
			}
		}
	}

	// ---- the property itself, on the real pool
	w.checkProperty(listing, !skip)
	w.r.Eval("state:"+bucket(len(txpool.TransactionsToSend))+"-txs", rd["P"]+"#"+rd["R"])
}

// checkProperty evaluates C12's predicate on the real pool (TxMutex locked).
func (w *World) checkProperty(listing []*txpool.OneTxToSend, fromRBF bool) {
	defer prof("verify.checkProperty")()
	// the node's confirmed unspent set: the UTXO db itself, asked output by output (a scan of the whole db - 256 maps made
	// for 100000 records each - after every block was 40 % of a run's time)
	db := w.k.Ch.Unspent
	pool := map[[32]byte]*txpool.OneTxToSend{}
	for _, t := range txpool.TransactionsToSend {
		pool[t.Hash.Hash] = t
	}
	spender := map[btc.TxPrevOut][32]byte{}
	var totW, nin uint64
	for b, t := range txpool.TransactionsToSend {
		if b != t.Hash.BIdx() {
			w.propFail("pool-key", "TransactionsToSend key does not match the tx hash")
		}
		var in, out uint64
		inTx := map[btc.TxPrevOut]bool{}
		for i, ti := range t.TxIn {
			nin++
			if inTx[ti.Input] {
				w.propFail("dup-input", fmt.Sprintf("pooled tx %s spends %s twice (Fee recorded %d)", t.Hash.String(), ti.Input.String(), t.Fee))
			}
			inTx[ti.Input] = true
			if other, ok := spender[ti.Input]; ok && other != t.Hash.Hash {
				w.propFail("double-spend", fmt.Sprintf("pooled txs %s and %s both spend %s", btc.NewUint256(other[:]).String(), t.Hash.String(), ti.Input.String()))
			}
			spender[ti.Input] = t.Hash.Hash
			if so, ok := txpool.SpentOutputs[ti.Input.UIdx()]; !ok || so != b {
				w.propFail("spent-index", fmt.Sprintf("SpentOutputs has no/other entry for input %d of %s", i, t.Hash.String()))
			}
			par := pool[ti.Input.Hash]
			var cv uint64
			po := db.UnspentGet(&ti.Input)
			isConf := po != nil
			if isConf {
				cv = po.Value
			}
			mem := t.MemInputs != nil && t.MemInputs[i]
			switch {
			case par != nil && int(ti.Input.Vout) < len(par.TxOut):
				in += par.TxOut[ti.Input.Vout].Value
				if !mem {
					w.propFail("meminput-flag", fmt.Sprintf("input %d of %s is an output of a pooled tx but MemInputs says confirmed", i, t.Hash.String()))
				}
			case isConf:
				in += cv
				if mem {
					w.propFail("meminput-flag", fmt.Sprintf("input %d of %s is confirmed but MemInputs says pooled", i, t.Hash.String()))
				}
			default:
				w.propFail("input-unspendable", fmt.Sprintf("input %d (%s) of pooled tx %s is neither an unspent confirmed output nor an output of a pooled tx", i, ti.Input.String(), t.Hash.String()))
			}
		}
		for _, o := range t.TxOut {
			out += o.Value
		}
		if in-out != t.Fee || in != t.Volume {
			w.propFail("fee-mismatch", fmt.Sprintf("tx %s: recorded Fee %d Volume %d, inputs %d - outputs %d", t.Hash.String(), t.Fee, t.Volume, in, out))
		}
		if db.TxPresent(&t.Hash) {
			w.propFail("pooled-confirmed", "pooled tx "+t.Hash.String()+" is already in the chain")
		}
		// sizes: recompute from the raw bytes
		if ti := w.txs[t.Hash.Hash]; ti != nil {
			ref := ti.fresh()
			for _, tw := range w.twins[t.Hash.Hash] { // several serializations of this txid are around: the pooled one counts
				if bytes.Equal(tw.raw, t.Raw) {
					ref = tw.fresh()
					w.r.Hit("pooled:witness-twin")
				}
			}
			if ref.Weight() != t.Weight() || ref.VSize() != t.VSize() || ref.Size != t.Size || !bytes.Equal(ref.Raw, t.Raw) {
				w.propFail("size-mismatch", fmt.Sprintf("recorded size/weight of %s differs from its serialization: weight %d/%d vsize %d/%d size %d/%d nws %d/%d rawlen %d/%d", t.Hash.String(), t.Weight(), ref.Weight(), t.VSize(), ref.VSize(), t.Size, ref.Size, t.NoWitSize, ref.NoWitSize, len(t.Raw), len(ref.Raw)))
			}
		}
		totW += uint64(t.Weight())
	}
	if int(nin) != len(txpool.SpentOutputs) {
		w.propFail("spent-index", fmt.Sprintf("SpentOutputs has %d entries for %d pooled inputs", len(txpool.SpentOutputs), nin))
	}
	if totW != txpool.TransactionsToSendWeight {
		w.propFail("totals", fmt.Sprintf("TransactionsToSendWeight %d, sum of weights %d", txpool.TransactionsToSendWeight, totW))
	}
	// the package's own checker
	var bad bool
	pm := prof("verify.mempoolcheck")
	quiet(func() { bad = txpool.MempoolCheck() })
	pm()
	if bad {
		w.propFail("mempoolcheck", "txpool.MempoolCheck() reports inconsistencies")
	}
	// both listings: a permutation of the pool with parents first
	if fromRBF {
		w.checkParentsFirst("listing", "GetSortedMempoolRBF", listing, len(pool))
	}
	var sorted []*txpool.OneTxToSend
	var span string
	func() {
		defer func() {
			if x := recover(); x != nil {
				span = fmt.Sprint(x)
			}
		}()
		sorted = txpool.GetSortedMempool()
	}()
	if span != "" {
		w.propFail("panic:sorted", "GetSortedMempool panics: "+span)
	} else {
		w.checkParentsFirst("sorted", "GetSortedMempool", sorted, len(pool))
	}
	if w.mid != "undone" { // (inside UndoLastBlock the UTXO db is already one block back, the chain's tip is not)
		w.checkTemplate(listing)
	}
}

// checkParentsFirst: l lists every pooled transaction exactly once and no transaction before one it spends from.
// Keys: <prefix>-dup, <prefix>-incomplete, <prefix>-order.
func (w *World) checkParentsFirst(prefix, fn string, l []*txpool.OneTxToSend, npool int) {
	pos := map[[32]byte]int{}
	for i, t := range l {
		if _, dup := pos[t.Hash.Hash]; dup {
			w.propFail(prefix+"-dup", fn+" lists "+t.Hash.String()+" twice")
		}
		pos[t.Hash.Hash] = i
		if txpool.TransactionsToSend[t.Hash.BIdx()] != t {
			w.propFail(prefix+"-incomplete", fn+" lists "+t.Hash.String()+" which is not (the record) in the pool")
		}
	}
	if len(pos) != npool {
		w.propFail(prefix+"-incomplete", fmt.Sprintf("%s lists %d of %d pooled txs", fn, len(pos), npool))
	}
	for i, t := range l {
		for _, ti := range t.TxIn {
			if j, ok := pos[ti.Input.Hash]; ok && j >= i {
				w.propFail(prefix+"-order", fmt.Sprintf("%s places %s (#%d) before its parent %s (#%d)", fn, t.Hash.String(), i, btc.NewUint256(ti.Input.Hash[:]).String(), j))
			}
		}
	}
}

// checkTemplate assembles a block from the listing (as rpcapi GetTransactions does: in order, up to the weight
// and sigops limits) and runs the node's own validation on it without committing: CheckBlock +
// ProcessBlockTransactions, scripts verified (TrustedTxChecker off).
func (w *World) checkTemplate(listing []*txpool.OneTxToSend) {
	defer prof("verify.checkTemplate")()
	if len(listing) == 0 {
		return
	}
	var txs []*btc.Tx
	var fees, weight, sigops uint64
	weight = 4000
	for _, t := range listing {
		if weight+uint64(t.Weight()) > 3990000 || sigops+t.SigopsCost > btc.MAX_BLOCK_SIGOPS_COST {
			break
		}
		if w.txs[t.Hash.Hash] == nil {
			w.propFail("template-unknown-tx", "the listing contains "+t.Hash.String()+", a transaction that was never handed to the pool")
			return
		}
		tx, n := btc.NewTx(t.Raw) // the record's own bytes, as the node would put them into a block
		if tx == nil || n != len(t.Raw) {
			w.propFail("pooled-raw", "the raw bytes kept for pooled tx "+t.Hash.String()+" do not parse")
			return
		}
		tx.SetHash(t.Raw)
		txs = append(txs, tx)
		fees += t.Fee
		weight += uint64(t.Weight())
		sigops += t.SigopsCost
	}
	raw := w.k.Build(chainkit.BlockSpec{Txs: txs, Fees: fees})
	var err error
	var pan string
	func() {
		defer func() {
			if x := recover(); x != nil {
				pan = fmt.Sprint(x)
			}
		}()
		saved := chain.TrustedTxChecker
		chain.TrustedTxChecker = nil
		defer func() { chain.TrustedTxChecker = saved }()
		bl, e := btc.NewBlock(raw)
		if e != nil {
			err = e
			return
		}
		w.k.Ch.BlockIndexAccess.Lock()
		_, _, e = w.k.Ch.CheckBlock(bl)
		w.k.Ch.BlockIndexAccess.Unlock()
		if e != nil {
			err = e
			return
		}
		h := w.k.Ch.LastBlock().Height + 1
		quiet(func() { _, _, e = w.k.Ch.ProcessBlockTransactions(bl, h, h) })
		err = e
	}()
	w.r.Hit("template:" + bucket(len(txs)) + "-txs")
	if pan != "" {
		w.propFail("template-panic", "validating the block built from the listing panics: "+pan)
	} else if err != nil {
		w.propFail("template-rejected", fmt.Sprintf("the block assembled from GetSortedMempoolRBF (%d txs) is refused by the node: %v", len(txs), err))
	}
}

// quiet silences gocoin's println/fmt diagnostics for the duration of f.
func quiet(f func()) {
	if os.Getenv("VERIF_VERBOSE") != "" {
		f()
		return
	}
	so, se := os.Stdout, os.Stderr
	null, _ := os.OpenFile(os.DevNull, os.O_WRONLY, 0)
	os.Stdout, os.Stderr = null, null
	defer func() { os.Stdout, os.Stderr = so, se; null.Close() }()
	f()
}
