package main

// squeeze.go — generator mode "many insertions at one position of the fee-ordered list".
//
// sort.go gives every element of the list a SortRank; a new element gets the mid-point of its neighbours' ranks
// (fixIndex) and, when there is no room left, the ranks below are spread again (reindexDown). Consecutive
// arrivals that all land at the SAME position halve the gap each time (2^60/200000 ~ 2^42.4 initially), so that
// after ~43 of them the gap is 3, 2, 1, 0: the only way to reach the no-room branches. Children that span the
// squeezed region (one parent on each side) are then placed relative to the parent with the larger SortRank
// (findWorstParent), which is where equal / unordered ranks would put a child in front of its parent.
//
//   down: a fixed tx A, arrivals X1, X2, … each paying slightly MORE than the previous one but less than A:
//         every Xk lands directly below A and above X(k-1); an optional fixed B below X1.
//   up:   a fixed tx B, arrivals each paying slightly LESS than the previous one but more than B: every Xk lands
//         directly above B and below X(k-1); an optional fixed A above X1.
//
// All transactions of the mode spend OP_TRUE outputs of a "splitter" (no signatures: identical weights, so the
// fee alone orders the arrivals) and have two outputs each, so that children can be built.

import (
	"fmt"
	"os"

	"github.com/piotrnar/gocoin/client/common"
	"github.com/piotrnar/gocoin/client/txpool"
	"verif/chainkit"
)

type squeezeParams struct {
	n          int  // number of arrivals; 0 = adaptive: go on until an arrival has met a rank gap of <= 1 (at most 70)
	up         bool // direction (see above)
	pos        int  // 0 = at the head of the list, 1 = in the middle, 2 = at the tail
	noFar      bool // leave out the fixed tx on the far side (B for down, A for up): the first arrival plays its part
	memSplit   bool // the splitter stays in the pool (arrivals have an in-pool parent); head position only
	interleave int  // down only: from this arrival on, children of (A, Xk) follow every arrival; 0 = only at the end
	kidsFor    int  // children at the end span the last kidsFor arrivals
	randomKids bool // draw input order / fee level of the children from the PRNG (else the fixed pattern)
	mode       func() string
}

type rate struct{ fee, w uint64 }

func better(a, b rate) bool { return a.fee*b.w > b.fee*a.w } // txpool.isFirstTxBetter

func anyOuts(vals ...uint64) []chainkit.OutSpec {
	var o []chainkit.OutSpec
	for _, v := range vals {
		o = append(o, chainkit.OutSpec{Value: v, Script: chainkit.AnyoneScript})
	}
	return o
}

// anyTx spends OP_TRUE coins into nout OP_TRUE outputs of (nearly) equal value, paying exactly fee.
func (w *World) anyTx(ins []*chainkit.Coin, nout int, fee uint64) *txInfo {
	var in uint64
	for _, c := range ins {
		in += c.Value
	}
	rest := in - fee
	var vals []uint64
	for i := 0; i < nout; i++ {
		v := rest / uint64(nout-i)
		rest -= v
		vals = append(vals, v)
	}
	return w.mkTx(ins, nil, anyOuts(vals...), false)
}

// anyWeight is the weight of a tx with nin OP_TRUE inputs and nout OP_TRUE outputs (probe, not recorded).
func anyWeight(nin, nout int) uint64 {
	var ins []*chainkit.Coin
	for i := 0; i < nin; i++ {
		c := &chainkit.Coin{Value: 1e6, Kind: "anyone", Script: chainkit.AnyoneScript}
		c.Out.Vout = uint32(i)
		ins = append(ins, c)
	}
	var vals []uint64
	for i := 0; i < nout; i++ {
		vals = append(vals, 1000)
	}
	tx := chainkit.BuildTx(2, ins, nil, anyOuts(vals...), 0)
	raw := tx.SerializeNew()
	tx.SetHash(raw)
	return uint64(tx.Weight())
}

func (w *World) rankOf(ti *txInfo) (uint64, bool) {
	txpool.TxMutex.Lock()
	defer txpool.TxMutex.Unlock()
	if txpool.SortListDirty {
		return 0, false
	}
	t := txpool.TransactionsToSend[ti.tx.Hash.BIdx()]
	if t == nil {
		return 0, false
	}
	return t.SortRank, true
}

// band: the fees a tx of weight W may pay to land at the chosen position of the CURRENT list: strictly worse than
// everything above the spot and strictly better than the element at the spot. ok=false when the spot has no room
// for `need` different fees.
func (w *World) band(pos int, W, need uint64, exclude *txInfo) (fmin, fmax uint64, ok bool) {
	txpool.TxMutex.Lock()
	var l []rate
	for _, t := range txpool.GetSortedMempool() {
		if exclude != nil && t.Hash.Hash == exclude.tx.Hash.Hash {
			continue
		}
		l = append(l, rate{t.Fee, uint64(t.Weight())})
	}
	txpool.TxMutex.Unlock()
	floor := (W*common.MinFeePerKB()+3999)/4000 + 1
	at := func(spot int) (fmin, fmax uint64, ok bool) {
		fmin = floor
		if spot < len(l) { // better than l[spot]: f*w > fee*W
			if f := l[spot].fee*W/l[spot].w + 1; f > fmin {
				fmin = f
			}
		}
		if spot == 0 {
			return fmin, fmin + need, true
		}
		fmax = ^uint64(0)
		for _, r := range l[:spot] { // worse than r: r.fee*W > f*r.w
			f := r.fee * W / r.w
			if f*r.w >= r.fee*W {
				if f == 0 {
					return 0, 0, false
				}
				f--
			}
			if f < fmax {
				fmax = f
			}
		}
		return fmin, fmax, fmax >= fmin+need
	}
	switch {
	case len(l) == 0 || pos == 0:
		return at(0)
	case pos == 2:
		return at(len(l))
	}
	// in the middle: a spot with room, whose element is worse than everything in front of it (the list is in fee
	// order apart from children that follow their parents); the one nearest to the middle of the list
	best := -1
	for i := 1; i < len(l); i++ {
		if _, _, ok := at(i); ok && (best < 0 || iabs(i-len(l)/2) < iabs(best-len(l)/2)) {
			best = i
		}
	}
	if best < 0 {
		return 0, 0, false
	}
	return at(best)
}

func iabs(x int) int {
	if x < 0 {
		return -x
	}
	return x
}

// squeeze runs the mode; it returns the transactions it pooled (for the caller's later blocks).
func (w *World) squeeze(p squeezeParams) {
	if w.dead || w.propFailed {
		return
	}
	if p.mode == nil {
		p.mode = func() string { return "net" }
	}
	maxN := p.n
	if maxN == 0 {
		maxN = 70
	}
	nKidsA := 2*p.kidsFor + 2
	if p.interleave > 0 {
		nKidsA += 2 * (maxN - p.interleave + 1)
	}
	W := anyWeight(1, 2)
	WA := anyWeight(1, nKidsA)
	WC := anyWeight(2, 1)

	// ---- the splitter
	fc := w.freeCoins(true)
	if len(fc) == 0 {
		return
	}
	src := fc[w.g.Intn(len(fc))]
	nsp := maxN + 6
	per := (src.Value - 2000000) / uint64(nsp)
	if per < 2000000 {
		return
	}
	var vals []uint64
	for i := 0; i < nsp; i++ {
		vals = append(vals, per)
	}
	memSplit := p.memSplit && p.pos == 0
	sp := w.mkTx([]*chainkit.Coin{src}, nil, anyOuts(vals...), false) // pays 2000000 + remainder: the best rate by far
	if memSplit {
		if w.submit(sp, "net") != 0 {
			return
		}
	} else if !w.mine([]*txInfo{sp}) {
		return
	}
	coins := sp.outs
	nextCoin := 0
	coin := func() []*chainkit.Coin { nextCoin++; return coins[nextCoin-1 : nextCoin] }

	// ---- the fee band of the spot, in fees of an arrival (weight W)
	need := uint64(3*maxN + 100)
	pos := p.pos
	var excl *txInfo
	if memSplit {
		excl = sp // the arrivals are its children: they land below it whatever they pay
	}
	fmin, fmax, ok := w.band(pos, W, need, excl)
	if os.Getenv("VERIF_VERBOSE") != "" {
		fmt.Fprintf(realErr, "squeeze[%s] pos %d band %d..%d ok=%v (W=%d need=%d)\n", w.name, pos, fmin, fmax, ok, W, need)
	}
	if !ok || memSplit {
		pos = 0
		fmin, fmax, _ = w.band(0, W, need, excl)
	}
	w.r.Hit(fmt.Sprintf("gen:squeeze:%s:pos%d", map[bool]string{false: "down", true: "up"}[p.up], pos))
	// fee plan inside [fmin, fmax]: B lowest, the arrivals in between (strictly monotone), A highest
	fB := fmin + 1 + uint64(w.g.Intn(20))
	fX := make([]uint64, maxN+1) // 1-based
	f := fB + 1 + uint64(w.g.Intn(40))
	for k := 1; k <= maxN; k++ {
		fX[k] = f
		f += 1 + uint64(w.g.Intn(3))
	}
	fAeq := f + uint64(w.g.Intn(30)) // in fees of weight W
	if fAeq+3 > fmax {
		return
	}
	if p.up { // the k-th arrival pays the k-th highest fee
		for i, j := 1, maxN; i < j; i, j = i+1, j-1 {
			fX[i], fX[j] = fX[j], fX[i]
		}
	}
	fA := (fAeq*WA+W-1)/W + 1                          // rate just above fAeq/W, below (fAeq+3)/W
	eq := func(fw uint64, wt uint64, d int64) uint64 { // the fee of a tx of weight wt paying d fee-steps above/below (fw, W)
		v := int64((fw*wt+W-1)/W) + d
		floor := int64((wt*common.MinFeePerKB()+3999)/4000 + 1)
		if v < floor {
			v = floor
		}
		return uint64(v)
	}

	var a, b *txInfo
	haveA := !(p.up && p.noFar)
	haveB := !(!p.up && p.noFar)
	first, second := func() {
		if haveA {
			a = w.anyTx(coin(), nKidsA, fA)
			w.submit(a, p.mode())
		}
	}, func() {
		if haveB {
			b = w.anyTx(coin(), 2, fB)
			w.submit(b, p.mode())
		}
	}
	if p.up {
		first, second = second, first
	}
	first()
	second()
	if (haveA && !w.inPool(a)) || (haveB && !w.inPool(b)) {
		return
	}
	aOut := 0
	nextA := func() *chainkit.Coin { aOut++; return a.outs[aOut-1] }

	dbg := os.Getenv("VERIF_VERBOSE") != ""
	gapTo := func(x *txInfo) (uint64, bool) { // the rank gap the NEXT arrival will meet at the spot
		rx, ok1 := w.rankOf(x)
		near := a
		if p.up {
			near = b
		}
		if near == nil || !ok1 {
			return 0, false
		}
		rn, ok2 := w.rankOf(near)
		if !ok2 {
			return 0, false
		}
		if p.up {
			return rn - rx, true
		}
		return rx - rn, true
	}

	// kid builds and submits a child spanning the region: parents (hi = the one placed higher, lo = the arrival
	// placed lower), hiFirst = input order, level: +1 above both parents' rates, 0 just above lo's, -1 just below
	// lo's, -2 below everything of the mode.
	kid := func(hi, lo *chainkit.Coin, loFee uint64, hiFirst bool, level int) {
		if hi == nil || lo == nil || w.propFailed || w.dead || w.isSpentInPool(hi.Out) || w.isSpentInPool(lo.Out) {
			return
		}
		ins := []*chainkit.Coin{lo, hi}
		if hiFirst {
			ins = []*chainkit.Coin{hi, lo}
		}
		var fee uint64
		switch level {
		case 1:
			fee = eq(fAeq, WC, 40+int64(w.g.Intn(40)))
		case 0:
			fee = eq(loFee, WC, 1+int64(w.g.Intn(2)))
		case -1:
			fee = eq(loFee, WC, -2-int64(w.g.Intn(3)))
		default:
			fee = eq(fB, WC, -3-int64(w.g.Intn(5)))
		}
		c := w.anyTx(ins, 1, fee)
		w.r.Hit(fmt.Sprintf("gen:squeeze-kid:hiFirst=%v:level=%d", hiFirst, level))
		w.submit(c, p.mode())
	}

	// ---- the arrivals
	var xs []*txInfo
	lastGap, haveGap := uint64(0), false
	for k := 1; k <= maxN && !w.propFailed && !w.dead; k++ {
		x := w.anyTx(coin(), 2, fX[k])
		if w.submit(x, p.mode()) != 0 {
			break
		}
		xs = append(xs, x)
		g, gok := gapTo(x)
		if dbg && gok {
			fmt.Fprintf(realErr, "squeeze[%s] arrival %d fee %d: rank gap at the spot %d\n", w.name, k, fX[k], g)
		}
		if gok && g <= 3 {
			w.r.Hit(fmt.Sprintf("gen:squeeze-gap:%d", g))
		}
		if !p.up && p.interleave > 0 && k >= p.interleave && a != nil && aOut+2 <= len(a.outs) {
			hiFirst, level := true, 0
			if w.g.Chance(1, 4) {
				hiFirst, level = w.g.Bool(), w.g.Intn(4)-2
			}
			kid(nextA(), x.outs[0], fX[k], hiFirst, level)
			if w.g.Bool() {
				kid(nextA(), x.outs[1], fX[k], w.g.Bool(), w.g.Intn(4)-2)
			}
		}
		met := haveGap && lastGap <= 1 // this arrival has met a gap of <= 1
		lastGap, haveGap = g, gok
		if p.n == 0 && met {
			break
		}
	}
	n := len(xs)
	if n < 2 {
		return
	}
	w.r.Hit(fmt.Sprintf("gen:squeeze-arrivals:%d", n))

	// ---- children spanning the squeezed region, the critical shape first: the higher parent as the EARLIER input,
	// paying more than the lower parent
	if p.interleave == 0 || p.up {
		for j := 0; j < p.kidsFor && j < n-1; j++ {
			lo := xs[n-1-j]
			loFee := fX[n-j]
			hiOf := func() *chainkit.Coin {
				if p.up {
					return nil
				}
				if a == nil || aOut >= len(a.outs) {
					return nil
				}
				return nextA()
			}
			// two children per arrival (it has two outputs)
			type shape struct {
				hiFirst bool
				level   int
			}
			shapes := []shape{{true, 0}, {false, -1}}
			switch j % 4 {
			case 1:
				shapes = []shape{{false, 0}, {true, -1}}
			case 2:
				shapes = []shape{{true, 1}, {false, -2}}
			case 3:
				shapes = []shape{{true, -2}, {false, 1}}
			}
			if p.randomKids && j > 0 {
				shapes = []shape{{w.g.Bool(), w.g.Intn(4) - 2}, {w.g.Bool(), w.g.Intn(4) - 2}}
			}
			for i, sh := range shapes {
				var hi *chainkit.Coin
				if p.up { // the neighbour above is the previous arrival: its output 1 is kept for this
					if i == 0 {
						hi = xs[n-2-j].outs[1]
					} else if a != nil && aOut < len(a.outs) {
						hi = nextA()
					}
					if i == 0 {
						kid(hi, lo.outs[0], loFee, sh.hiFirst, sh.level)
					} else if j == 0 { // the last arrival's output 1 is free
						kid(hi, lo.outs[1], loFee, sh.hiFirst, sh.level)
					}
				} else {
					kid(hiOf(), lo.outs[i], loFee, sh.hiFirst, sh.level)
				}
			}
		}
	}
	// ---- one more arrival at the very spot (the ranks are spread again), and a child across it
	if nextCoin < len(coins) && !w.propFailed && !w.dead {
		var fee uint64
		last := fX[n]
		if p.up {
			fee = last - 1
			if n < maxN {
				fee = fX[n+1]
			}
			if fee <= fB {
				fee = last
			}
		} else {
			fee = last + 1
			if n < maxN {
				fee = fX[n+1]
			}
		}
		x := w.anyTx(coin(), 2, fee)
		if w.submit(x, p.mode()) == 0 {
			if !p.up && a != nil && aOut < len(a.outs) {
				kid(nextA(), x.outs[0], fee, true, 0)
			} else if p.up {
				kid(xs[n-1].outs[1], x.outs[0], fee, true, 0)
			}
		}
	}
}

// scSqueeze — corpus scenarios: fixed parameters.
func scSqueeze(p squeezeParams, prelude int) func(w *World) {
	return func(w *World) {
		// some ordinary transactions first, so that "head / middle / tail" mean something
		fc := w.freeCoins(true)
		for i := 0; i < prelude && i < len(fc); i++ {
			t := w.spend(fc[i:i+1], 2, w.randFee(1, 2), nil, false)
			w.submit(t, "net")
			if i%3 == 0 {
				w.submit(w.spend(t.outs[:1], 1, w.randFee(1, 1), nil, false), "net")
			}
		}
		w.squeeze(p)
		// blocks: the head of the listing first, then everything
		lo := w.listingOrder()
		w.mine(lo[:len(lo)/3])
		w.reload()
		w.mine(w.pooled())
	}
}

// scRandomSqueeze — random histories around the mode: a random prelude, the squeeze with parameters from the
// PRNG, a random postlude.
func scRandomSqueeze(steps int) func(w *World) {
	return func(w *World) {
		pre := 5 + w.g.Intn(steps/2)
		scRandomSteps(w, pre, false, false)
		p := squeezeParams{
			n:          40 + w.g.Intn(11),
			up:         w.g.Chance(1, 4),
			pos:        w.g.Intn(3),
			noFar:      w.g.Chance(1, 3),
			memSplit:   w.g.Chance(1, 4),
			kidsFor:    3 + w.g.Intn(3),
			randomKids: w.g.Bool(),
			mode:       w.randMode,
		}
		if w.g.Chance(1, 3) {
			p.n = 0 // adaptive: stop right after the arrival that met the smallest gap
		}
		if !p.up && w.g.Bool() {
			p.interleave = 36 + w.g.Intn(5)
		}
		w.squeeze(p)
		scRandomSteps(w, steps-pre, false, true)
	}
}
