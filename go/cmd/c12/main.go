// c12 — correspondence + property harness for C12 (the mempool stays conflict-free, spendable and
// internally consistent). Drives the REAL client/txpool in-process on a chainkit chain (script checks on, real
// signatures), feeds the same operation history to the Lean model (oracle_c12) and after every operation
//
//	(a) compares the whole observable pool state with the model, and
//	(b) evaluates the property's own predicate on the real pool, independently of the model:
//	    no double spends, inputs spendable, SpentOutputs = inverse of the inputs, nothing pooled confirmed,
//	    Fee/Volume/sizes/totals exact, MempoolCheck() clean, GetSortedMempoolRBF() a parents-first permutation,
//	    and the block assembled from it accepted by CheckBlock + ProcessBlockTransactions (scripts verified).
//
// (a) and (b) are also done inside block commits, at the points where another thread of the node can take TxMutex
// (world.go chainEvent), and after a restart on a damaged mempool.dmp (crashload.go).
// families.go: blocks undone while the sorted list is live (`undo slow`), and pools whose records have aged to both
// sides of the expiry limit before they are saved / reloaded / mined from / finally expired.
// boundaries.go: the guards of processTx from both sides (coinbase maturity 98/99/100/101 confirmations, output index =
// / > number of outputs of a pooled / confirmed / rejected parent), worlds with AllowMemInputs off (NOT_MINED), the real
// usif.LoadRawTx on transactions the pool already has, and orphans over long chains of staged parents (txAccepted's loop).
package main

import (
	"bytes"
	"encoding/json"
	"fmt"
	"os"
	"sort"
	"strings"
	"syscall"

	"github.com/piotrnar/gocoin/client/txpool"
	"github.com/piotrnar/gocoin/lib/btc"
	"github.com/piotrnar/gocoin/lib/chain"
	"verif/chainkit"
	"verif/vlib"
)

var realOut, realErr *os.File

func silence() {
	realOut = os.Stdout
	fd, _ := syscall.Dup(2)
	realErr = os.NewFile(uintptr(fd), "stderr")
	if os.Getenv("VERIF_VERBOSE") != "" {
		return
	}
	null, _ := os.OpenFile(os.DevNull, os.O_WRONLY, 0)
	os.Stdout = null
	os.Stderr = realErr
	syscall.Dup2(int(null.Fd()), 2) // gocoin's println() diagnostics
}

type scenario struct {
	name string
	run  func(w *World)
	rbf  bool // CFG.TXPool.NotFullRBF
	opt  worldOpt
}

// worldOpt: the other settings of a scenario's world.
type worldOpt struct {
	noMem bool // CFG.TXPool.AllowMemInputs = false
	ring  int  // CFG.TXPool.RejectRecCnt (0 = ringCap)
}

var (
	noOpt  = worldOpt{}
	memOff = worldOpt{noMem: true}
)

// ------------------------------------------------------------------------------------------ tx builders

func (w *World) isSpentInPool(o btc.TxPrevOut) bool {
	_, ok := txpool.SpentOutputs[o.UIdx()]
	return ok
}

func (w *World) inPool(ti *txInfo) bool {
	_, ok := txpool.TransactionsToSend[ti.tx.Hash.BIdx()]
	return ok
}

// freeCoins: confirmed coins and outputs of pooled txs that no pooled tx spends, in a deterministic order.
func (w *World) freeCoins(confirmedOnly bool) []*chainkit.Coin {
	var l []*chainkit.Coin
	for _, c := range w.ledger {
		if !w.isSpentInPool(c.Out) && c.Kind != "raw" {
			l = append(l, c)
		}
	}
	sort.Slice(l, func(i, j int) bool {
		if l[i].Out.Hash != l[j].Out.Hash {
			return string(l[i].Out.Hash[:]) < string(l[j].Out.Hash[:])
		}
		return l[i].Out.Vout < l[j].Out.Vout
	})
	if confirmedOnly {
		return l
	}
	for _, ti := range w.order {
		if w.inPool(ti) {
			for _, c := range ti.outs {
				if !w.isSpentInPool(c.Out) && c.Kind != "raw" {
					l = append(l, c)
				}
			}
		}
	}
	return l
}

func (w *World) pooled() []*txInfo {
	var l []*txInfo
	for _, ti := range w.order {
		if w.inPool(ti) {
			l = append(l, ti)
		}
	}
	return l
}

// spend builds a tx spending coins into nOut outputs, paying `fee`.
func (w *World) spend(coins []*chainkit.Coin, nOut int, fee uint64, seqs []uint32, corrupt bool) *txInfo {
	var in uint64
	for _, c := range coins {
		in += c.Value
	}
	if fee+uint64(nOut)*1000 > in {
		fee = in / 2
	}
	rest := in - fee
	var outs []chainkit.OutSpec
	for i := 0; i < nOut; i++ {
		v := rest / uint64(nOut-i)
		if i < nOut-1 && v > 2000 {
			v = v/2 + uint64(w.g.Intn(int(v/2)))
		}
		rest -= v
		outs = append(outs, chainkit.OutSpec{Value: v, Script: w.scriptKind(w.g.Intn(4))})
	}
	return w.mkTx(coins, seqs, outs, corrupt)
}

func (w *World) pickCoins(pool []*chainkit.Coin, n int) []*chainkit.Coin {
	var res []*chainkit.Coin
	used := map[int]bool{}
	for len(res) < n && len(used) < len(pool) {
		i := w.g.Intn(len(pool))
		if !used[i] {
			used[i] = true
			res = append(res, pool[i])
		}
	}
	return res
}

func (w *World) randFee(nin, nout int) uint64 {
	rate := uint64(1 + w.g.Intn(60))
	return rate*uint64(60+110*nin+35*nout) + uint64(w.g.Intn(97))
}

func (w *World) randMode() string {
	switch w.g.Intn(10) {
	case 0:
		return "trusted"
	case 1, 2:
		return "local"
	}
	return "net"
}

// ------------------------------------------------------------------------------------------ corpus scenarios

// chain of unconfirmed txs, a diamond, then blocks taking the middle of it
func scChainsDiamonds(w *World) {
	fc := w.freeCoins(true)
	a := w.spend(fc[:1], 2, 3000, nil, false)
	w.submit(a, "net")
	b := w.spend(a.outs[:1], 2, 5000, nil, false)
	w.submit(b, "net")
	c := w.spend(a.outs[1:2], 1, 800, nil, false)
	w.submit(c, "trusted")
	d := w.spend([]*chainkit.Coin{b.outs[0], c.outs[0]}, 1, 9000, nil, false) // diamond a -> b,c -> d
	w.submit(d, "net")
	e := w.spend([]*chainkit.Coin{d.outs[0], fc[1]}, 3, 2500, nil, false)
	w.submit(e, "local")
	w.submit(a, "net") // already in the pool
	w.mine([]*txInfo{a, c})
	w.mine([]*txInfo{b})
	w.reload()
	w.mine([]*txInfo{d, e})
}

// the same outpoint twice inside one transaction (DESIGN F9)
func scDupInput(w *World) {
	fc := w.freeCoins(true)
	var c *chainkit.Coin
	for _, x := range fc {
		if x.Kind == "anyone" {
			c = x
			break
		}
	}
	t := w.spend([]*chainkit.Coin{c, c}, 1, 4000, nil, false) // outputs 2*value - fee
	w.submit(t, "net")
	t2 := w.spend([]*chainkit.Coin{fc[0], fc[1], fc[0]}, 2, 4000, nil, false)
	w.submit(t2, "trusted")
	t3 := w.spend([]*chainkit.Coin{fc[2], fc[2]}, 1, 0, nil, false)
	w.submit(t3, "local")
	// duplicate of an unconfirmed output
	p := w.spend(fc[3:4], 1, 2000, nil, false)
	w.submit(p, "net")
	if p.outs[0].Kind == "anyone" || p.outs[0].Key != nil {
		t4 := w.spend([]*chainkit.Coin{p.outs[0], p.outs[0]}, 1, 3000, nil, false)
		w.submit(t4, "net")
	}
	w.mine(w.pooled())
}

// double spends with lower / equal / higher fee rate, replacement of a chain, > 100 descendants
func scRBF(w *World) {
	fc := w.freeCoins(true)
	a := w.spend(fc[:1], 1, 5000, nil, false)
	w.submit(a, "net")
	lo := w.spend(fc[:1], 1, 1000, nil, false)
	w.submit(lo, "net")
	eq := w.mkTx(fc[:1], nil, []chainkit.OutSpec{{Value: a.tx.TxOut[0].Value, Script: flipKind(w, a.tx.TxOut[0].Pk_script)}}, false)
	w.submit(eq, "net")
	hi := w.spend(fc[:1], 1, 12000, nil, false)
	w.submit(hi, "net")
	// exactly equal fee rate (same size, same fee): an OP_TRUE coin, only nSequence differs
	for _, c := range fc[2:] {
		if c.Kind == "anyone" {
			e1 := w.mkTx([]*chainkit.Coin{c}, nil, []chainkit.OutSpec{{Value: c.Value - 7000, Script: chainkit.AnyoneScript}}, false)
			e2 := w.mkTx([]*chainkit.Coin{c}, []uint32{0xfffffffd}, []chainkit.OutSpec{{Value: c.Value - 7000, Script: chainkit.AnyoneScript}}, false)
			e3 := w.mkTx([]*chainkit.Coin{c}, []uint32{0xfffffffc}, []chainkit.OutSpec{{Value: c.Value - 7001, Script: chainkit.AnyoneScript}}, false)
			w.submit(e1, "net")
			w.submit(e2, "net") // equal: refused
			w.submit(e3, "net") // one satoshi more: replaces
			break
		}
	}
	w.submit(a, "net") // replaced tx comes again: still on the rejected list
	// a long chain under one root, then replace the root
	root := w.spend(fc[1:2], 1, 3000, nil, false)
	w.submit(root, "net")
	prev := root
	var chainTx []*txInfo
	for i := 0; i < 103; i++ {
		n := w.spend(prev.outs[:1], 1, 600+uint64(i), nil, false)
		w.submit(n, "trusted")
		chainTx = append(chainTx, n)
		prev = n
	}
	big := w.spend(fc[1:2], 1, 400000, nil, false)
	w.submit(big, "net")     // RBF_100
	w.submit(big, "trusted") // still rejected-listed: not wanted
	big2 := w.spend(fc[1:2], 1, 500000, nil, false)
	w.submit(big2, "trusted") // trusted: no limit
	w.mine(w.pooled())
}

// a replacement that spends an output of the very chain it replaces (Core: "replacement-adds-unconfirmed" /
// "bad-txns-spends-conflicting-tx"): a <- b, then c spends a's confirmed input and b's output
func scRBFOwnDescendant(w *World) {
	fc := w.freeCoins(true)
	a := w.spend(fc[:1], 1, 3000, nil, false)
	w.submit(a, "net")
	b := w.spend(a.outs[:1], 1, 2000, nil, false)
	w.submit(b, "net")
	c := w.spend([]*chainkit.Coin{fc[0], b.outs[0]}, 1, 60000, nil, false)
	w.submit(c, "net")
	// the same through the trusted and the local path
	a2 := w.spend(fc[1:2], 2, 3000, nil, false)
	w.submit(a2, "net")
	c2 := w.spend([]*chainkit.Coin{fc[1], a2.outs[1]}, 1, 60000, nil, false)
	w.submit(c2, "trusted")
	a3 := w.spend(fc[2:3], 2, 3000, nil, false)
	w.submit(a3, "net")
	c3 := w.spend([]*chainkit.Coin{a3.outs[0], fc[2]}, 1, 60000, nil, false)
	w.submit(c3, "local")
	w.mine(w.pooled())
}

func flipKind(w *World, scr []byte) []byte {
	if len(scr) == 22 {
		return w.key.P2PKH()
	}
	return w.key.P2WPKH()
}

// orphans before parents, chains of orphans, orphan whose parent arrives in a block, bad parents
func scOrphans(w *World) {
	fc := w.freeCoins(true)
	p := w.spend(fc[:1], 2, 3000, nil, false)
	c1 := w.spend(p.outs[:1], 1, 2000, nil, false)
	c2 := w.spend(c1.outs[:1], 1, 2000, nil, false)
	c3 := w.spend([]*chainkit.Coin{p.outs[1], fc[1]}, 1, 2500, nil, false)
	w.submit(c2, "net")
	w.submit(c1, "net")
	w.submit(c3, "net")
	w.submit(p, "net") // resolves c1, c2, c3
	// parent arrives in a block, never seen by the pool
	q := w.spend(fc[2:3], 2, 3000, nil, false)
	d1 := w.spend(q.outs[:1], 1, 2000, nil, false)
	w.submit(d1, "net")
	w.mine([]*txInfo{q})
	// orphan conflicting with a mined tx
	r := w.spend(fc[3:4], 1, 3000, nil, false)
	o1 := w.spend(r.outs[:1], 1, 1500, nil, false)
	o2 := w.spend(r.outs[:1], 1, 2500, nil, false)
	w.submit(o1, "net")
	w.mine([]*txInfo{r, o2})
	// low-fee orphan: parent accepted, child then refused
	s := w.spend(fc[4:5], 1, 3000, nil, false)
	lf := w.spend(s.outs[:1], 1, 10, nil, false)
	w.submit(lf, "net")
	w.submit(s, "net")
	// child of a softly rejected parent
	x := w.spend(fc[5:6], 1, 3000, nil, false)
	w.submit(x, "net")
	xr := w.spend(fc[5:6], 1, 100, nil, false) // RBF_LOWFEE, kept with data
	w.submit(xr, "net")
	xc := w.spend(xr.outs[:1], 1, 3000, nil, false)
	w.submit(xc, "net") // BAD_PARENT
	w.mine(w.pooled())
}

// an orphan that refers to an output its parent does not have, the parent then arrives in a block
func scOrphanBadVout(w *World) {
	fc := w.freeCoins(true)
	p := w.spend(fc[:1], 1, 3000, nil, false)
	ghost := *p.outs[0]
	ghost.Out.Vout = 5
	ghost.Kind = "anyone"
	o := w.spend([]*chainkit.Coin{&ghost}, 1, 1000, nil, false)
	w.submit(o, "net")
	w.mine([]*txInfo{p})
	// same, the parent arriving through the network
	p2 := w.spend(fc[1:2], 1, 3000, nil, false)
	g2 := *p2.outs[0]
	g2.Out.Vout = 3
	g2.Kind = "anyone"
	o2 := w.spend([]*chainkit.Coin{&g2}, 1, 1000, nil, false)
	w.submit(o2, "net")
	w.submit(p2, "net")
	w.mine(w.pooled())
}

// blocks with pooled, conflicting and unknown txs; reorganisations putting txs back
func scBlocksReorg(w *World) {
	fc := w.freeCoins(true)
	a := w.spend(fc[:1], 2, 3000, nil, false)
	b := w.spend(a.outs[:1], 1, 2000, nil, false)
	c := w.spend(fc[1:2], 1, 2500, nil, false)
	w.submit(a, "net")
	w.submit(b, "net")
	w.submit(c, "net")
	cc := w.spend(c.outs[:1], 1, 1500, nil, false) // child of the tx a block will conflict with
	w.submit(cc, "net")
	cx := w.spend(fc[1:2], 1, 7000, nil, false) // conflicts with c, never submitted
	u := w.spend(fc[2:3], 1, 1000, nil, false)  // unknown to the pool
	w.mine([]*txInfo{a, cx, u})                 // b stays (parent mined), c is thrown out
	d := w.spend(u.outs[:1], 1, 2000, nil, false)
	w.submit(d, "net") // spends an output of the block just mined
	w.reorg(1, []*txInfo{c})
	w.mine([]*txInfo{a})
	e := w.spend(fc[3:4], 1, 2000, nil, false)
	w.submit(e, "net")
	w.mine([]*txInfo{e, b})
	w.reorg(2, []*txInfo{e})
	w.reload()
	w.mine(w.pooled())
}

// expiry with children, eviction at the size limit, reload in between
func scExpireEvict(w *World) {
	fc := w.freeCoins(true)
	var roots []*txInfo
	for i := 0; i < 4; i++ {
		t := w.spend(fc[i:i+1], 2, w.randFee(1, 2), nil, false)
		w.submit(t, "net")
		ch := w.spend(t.outs[:1], 1, w.randFee(1, 1), nil, false)
		w.submit(ch, "net")
		roots = append(roots, t)
	}
	w.tickExpire(roots[:2])
	w.reload()
	w.fillBig(fc[4:], 14)
	w.tickEvict(300000)
	w.tickEvict(300000)
	w.mine(w.pooled())
}

// size-limit eviction with the node's own (Local) transactions in the tail: a local child of a cheap non-local
// parent, a local parent with a non-local child, a local chain
func scEvictLocal(w *World) {
	fc := w.freeCoins(true)
	cheap := func(c []*chainkit.Coin, nout int) *txInfo { // just above the fee floor: lands in the evicted tail
		return w.spend(c, nout, uint64(75+120*len(c)+40*nout), nil, false)
	}
	p1 := cheap(fc[:1], 2)
	w.submit(p1, "net")
	c1 := w.spend(p1.outs[:1], 1, 0, nil, false)
	w.submit(c1, "local") // local child of a non-local parent
	p2 := cheap(fc[1:2], 2)
	w.submit(p2, "local")
	c2 := cheap(p2.outs[:1], 1)
	w.submit(c2, "net") // non-local child of a local parent
	p3 := cheap(fc[2:3], 1)
	w.submit(p3, "trusted")
	c3 := w.spend(p3.outs[:1], 1, 10, nil, false)
	w.submit(c3, "local")
	g3 := w.spend(c3.outs[:1], 1, 5, nil, false)
	w.submit(g3, "local")
	w.fillBig(fc[3:], 14)
	w.tickEvict(300000)
	w.reload()
	w.tickEvict(100000)
	w.mine(w.pooled())
}

// two unconfirmed families joined by a common child (CPFP packages that overlap): a <- b (rich), d (poor),
// c spends b and d; then a second join on top, a replacement of a member and a block taking one root
func scJoinedFamilies(w *World) {
	fc := w.freeCoins(true)
	a := w.spend(fc[:1], 2, 40000, nil, false)
	w.submit(a, "net")
	b := w.spend(a.outs[:1], 2, 30000, nil, false)
	w.submit(b, "net")
	d := w.spend(fc[1:2], 2, 400, nil, false)
	w.submit(d, "net")
	c := w.spend([]*chainkit.Coin{b.outs[0], d.outs[0]}, 2, 9000, nil, false)
	w.submit(c, "net")
	e := w.spend(fc[2:3], 1, 350, nil, false) // a third root, joined through c's and a's outputs
	w.submit(e, "net")
	f := w.spend([]*chainkit.Coin{c.outs[0], e.outs[0], a.outs[1]}, 1, 20000, nil, false)
	w.submit(f, "trusted")
	w.reload() // packages rebuilt from scratch
	g := w.spend([]*chainkit.Coin{d.outs[1], b.outs[1]}, 1, 700, nil, false)
	w.submit(g, "local")
	d2 := w.spend(fc[1:2], 1, 90000, nil, false) // replaces d and everything under it
	w.submit(d2, "net")
	h := w.spend([]*chainkit.Coin{b.outs[0], d2.outs[0]}, 1, 2500, nil, false)
	w.submit(h, "net")
	w.mine([]*txInfo{a})
	w.mine(w.pooled())
}

// fillBig adds n transactions of ~90 KB each (one of them with a child)
func (w *World) fillBig(fc []*chainkit.Coin, n int) {
	big := make([]byte, 9000)
	big[0] = 0x51
	for i := 1; i < len(big); i++ {
		big[i] = 0x61
	}
	for i := 0; i < n && i < len(fc); i++ {
		c := fc[i]
		fee := uint64(90000 * (1 + w.g.Intn(40)))
		outs := []chainkit.OutSpec{{Value: c.Value - fee - 10000, Script: chainkit.AnyoneScript}}
		for j := 0; j < 10; j++ {
			outs = append(outs, chainkit.OutSpec{Value: 1000, Script: big})
		}
		t := w.mkTx([]*chainkit.Coin{c}, nil, outs, false)
		w.submit(t, "net")
		if i%5 == 0 {
			ch := w.spend(t.outs[:1], 1, w.randFee(1, 1), nil, false)
			w.submit(ch, "net")
		}
	}
}

// rejections that keep no data / keep data; the reject ring wrapping around
func scRejects(w *World) {
	fc := w.freeCoins(true)
	over := w.mkTx(fc[:1], nil, []chainkit.OutSpec{{Value: fc[0].Value + 1, Script: chainkit.AnyoneScript}}, false)
	w.submit(over, "net")
	w.submit(over, "net")
	low := w.spend(fc[:1], 1, 5, nil, false)
	w.submit(low, "net")
	w.submit(low, "local") // local: no fee floor
	bad := w.spend(fc[1:2], 1, 3000, nil, true)
	w.submit(bad, "net") // script fails: not accepted, not remembered
	w.submit(bad, "net")
	im := w.spend([]*chainkit.Coin{w.immature}, 1, 3000, nil, false)
	w.submit(im, "net")
	p := w.spend(fc[2:3], 1, 3000, nil, false)
	w.submit(p, "net")
	g := *p.outs[0]
	g.Out.Vout = 9
	g.Kind = "anyone"
	bv := w.spend([]*chainkit.Coin{&g}, 1, 1000, nil, false)
	w.submit(bv, "net") // BAD_INPUT
	for i := 0; i < ringCap+6; i++ {
		t := w.mkTx(fc[3:4], nil, []chainkit.OutSpec{{Value: fc[3].Value + uint64(i) + 1, Script: chainkit.AnyoneScript}}, false)
		w.submit(t, "net")
		if i%7 == 3 {
			gh := *fc[3]
			gh.Out.Hash[5] ^= byte(i + 1)
			gh.Kind = "anyone"
			o := w.spend([]*chainkit.Coin{&gh}, 1, 2000, nil, false)
			w.submit(o, "net") // orphan of an unknown tx
		}
	}
	w.reload()
	w.mine(w.pooled())
}

// a pooled spend of a coinbase that has JUST matured (tip+1 - height = COINBASE_MATURITY), then the tip block is
// undone (text-UI `undo`, or the first half of any reorganisation): the coinbase is immature again for the next block
func scCoinbaseUndo(w *World) {
	w.mine(nil) // one harness block, so that there is something to undo
	cb := w.justMatured()
	if cb == nil {
		w.r.Hit("gen:no-just-matured-coinbase")
		return
	}
	fc := w.freeCoins(true)
	var plain *chainkit.Coin
	for _, c := range fc {
		if !c.Coinbase {
			plain = c
			break
		}
	}
	x := w.spend([]*chainkit.Coin{cb}, 1, 4000, nil, false)
	if w.submit(x, "net") == 0 {
		w.r.Hit("gen:just-matured-coinbase-pooled")
	}
	y := w.spend([]*chainkit.Coin{x.outs[0], plain}, 1, 3000, nil, false) // a child, so that a removal has to cascade
	w.submit(y, "net")
	w.undoBare()
	w.r.Hit("gen:undo-below-maturity")
	// the coinbase has 99 confirmations again: the spend that was pooled a moment ago is refused on every path, and so is its child
	w.expect("cb-undone-spend-again-net", w.submit(x, "net"), txpool.TX_REJECTED_CB_INMATURE)
	w.expect("cb-undone-spend-again-local", w.submit(x, "local"), txpool.TX_REJECTED_CB_INMATURE)
	x2 := w.spend([]*chainkit.Coin{cb}, 2, 5000, nil, false)
	w.expect("cb-undone-other-spend-trusted", w.submit(x2, "trusted"), txpool.TX_REJECTED_CB_INMATURE)
	w.submit(y, "net")
	w.mine(nil) // mature again
	w.expect("cb-mature-again-local", w.submit(x, "local"), 0)
	w.mine(w.pooled())
}

// justMatured returns the setup coinbase output that is spendable in the NEXT block for the first time
// (tip+1 - height = COINBASE_MATURITY), described to the oracle and entered into the harness ledger; nil if none.
func (w *World) justMatured() *chainkit.Coin {
	tip := w.k.Ch.LastBlock().Height
	if tip+1 < chain.COINBASE_MATURITY+9 {
		return nil
	}
	h := tip + 1 - chain.COINBASE_MATURITY
	if h < 9 || int(h) > len(w.setupCb) { // 1..8 were spent by the fan-out
		return nil
	}
	cb := chainkit.OutCoins(w.setupCb[h-1], w.keys, h, true)[0]
	if !w.cbTold[cb.Out.Hash] {
		w.cbTold[cb.Out.Hash] = true
		w.mustOK(fmt.Sprintf("coin %s %d %d %d 1", hid(cb.Out.Hash), cb.Out.Vout, cb.Value, h))
		w.ledger[cb.Out] = cb
	}
	if w.ledger[cb.Out] == nil || w.isSpentInPool(cb.Out) {
		return nil
	}
	return cb
}

// twin builds another serialization of ti's transaction: same txid, other witness. kind "resign" = signed again
// (valid, the signer's nonce differs), "stuffed" = one more witness item on the first segwit input (bigger, invalid),
// "corrupt" = a flipped signature byte in the witness (same size, invalid). nil when the tx has no witness.
func (w *World) twin(ti *txInfo, kind string) *txInfo {
	var ins []*chainkit.Coin
	var seqs []uint32
	for _, in := range ti.tx.TxIn {
		c := w.coinOf(in.Input)
		if c == nil {
			return nil
		}
		ins = append(ins, c)
		seqs = append(seqs, in.Sequence)
	}
	var outs []chainkit.OutSpec
	for _, o := range ti.tx.TxOut {
		outs = append(outs, chainkit.OutSpec{Value: o.Value, Script: o.Pk_script})
	}
	tx := chainkit.BuildTx(ti.tx.Version, ins, seqs, outs, ti.tx.Lock_time)
	if tx.Hash.Hash != ti.tx.Hash.Hash || tx.SegWit == nil {
		return nil
	}
	ok := true
	wi := -1
	for i := range tx.SegWit {
		if len(tx.SegWit[i]) > 0 && len(tx.SegWit[i][0]) > 10 {
			wi = i
			break
		}
	}
	if wi < 0 {
		return nil
	}
	switch kind {
	case "stuffed":
		tx.SegWit[wi] = append(tx.SegWit[wi], []byte{1, 2, 3, 4, 5, 6, 7})
		ok = false
	case "corrupt":
		tx.SegWit[wi][0][6] ^= 0x55
		ok = false
	}
	chainkit.Finish(tx)
	raw := tx.SerializeNew()
	if tx.Hash.Hash != ti.tx.Hash.Hash || bytes.Equal(raw, ti.raw) {
		w.r.Hit("gen:twin-identical")
		return nil
	}
	for _, o := range w.twins[tx.Hash.Hash] {
		if bytes.Equal(o.raw, raw) {
			return o
		}
	}
	t2 := &txInfo{tx: tx, raw: raw, scriptOK: ok && ti.scriptOK, outs: ti.outs}
	w.twins[tx.Hash.Hash] = append(w.twins[tx.Hash.Hash], t2)
	w.r.Hit("gen:witness-twin-" + kind)
	return t2
}

// segwitCoin picks a confirmed free coin paying to the harness key by witness program.
func (w *World) segwitCoin(skip int) *chainkit.Coin {
	for _, c := range w.freeCoins(true) {
		if c.Kind == "p2wpkh" && !c.Coinbase {
			if skip == 0 {
				return c
			}
			skip--
		}
	}
	return nil
}

// witness-malleated twins (same txid, other witness): outside the theorems' `id_fun`; the model is told the
// serialization in use before every operation, the property predicate is judged on the real pool
func scWitnessTwins(w *World) {
	c0, c1 := w.segwitCoin(0), w.segwitCoin(1)
	if c0 == nil || c1 == nil {
		w.r.Hit("gen:no-segwit-coin")
		return
	}
	a := w.spend([]*chainkit.Coin{c0}, 2, 4000, nil, false)
	w.submit(a, "net")
	ch := w.spend(a.outs[:1], 1, 2500, nil, false)
	w.submit(ch, "net")
	for _, kind := range []string{"resign", "stuffed", "corrupt"} { // while the first one is pooled: not wanted
		if t := w.twin(a, kind); t != nil {
			if code := w.submit(t, "net"); code >= 1000 {
				w.r.Hit("twin:while-pooled-not-wanted")
			}
			w.submit(t, "local")
		}
	}
	if t := w.twin(a, "resign"); t != nil { // the mined version carries the other witness
		w.mine([]*txInfo{t})
		w.r.Hit("twin:mined-while-first-pooled")
		w.undoBare() // ... and comes back into the pool as the twin, its child re-flagged
		w.tickExpire([]*txInfo{a})
		w.submit(a, "net") // the first serialization again
		w.mine([]*txInfo{t})
	}
	// refused first (bigger, invalid witness), then the valid serialization of the same txid
	b := w.spend([]*chainkit.Coin{c1}, 1, 3000, nil, false)
	if t := w.twin(b, "stuffed"); t != nil {
		w.submit(t, "net") // SCRIPT_FAIL: not remembered
		w.submit(b, "net")
		w.r.Hit("twin:valid-after-invalid")
	}
	if t := w.twin(b, "resign"); t != nil {
		w.reorg(1, []*txInfo{t}) // the block of a's twin is replaced; b's twin is mined while b is pooled
	}
	w.mine(w.pooled())
}

// the sorted list stays dirty over many operations (nobody asks for a listing), incl. blocks, an undo and a reload
func scDirtyList(w *World) {
	w.skipList = 100
	fc := w.freeCoins(true)
	a := w.spend(fc[:1], 2, 3000, nil, false)
	w.submit(a, "net")
	b := w.spend(a.outs[:1], 2, 9000, nil, false)
	w.submit(b, "net")
	w.mine([]*txInfo{a}) // mined(): flags change, list dirty from here on
	for i := 2; i < 8; i++ {
		t := w.spend(fc[i:i+1], 2, w.randFee(1, 2), nil, false)
		w.submit(t, "net")
		if i%2 == 0 {
			w.submit(w.spend(t.outs[:1], 1, w.randFee(1, 1), nil, false), "net")
		}
	}
	c := w.spend([]*chainkit.Coin{b.outs[0], b.outs[1]}, 1, 500, nil, false)
	w.submit(c, "local")
	w.submit(w.spend(fc[1:2], 1, 7000, nil, false), "net")
	w.tickExpire([]*txInfo{b}) // deletion with a child on a dirty list
	w.mine(nil)
	w.undoBare()
	w.reload()
	w.submit(b, "net")
	w.skipList = 0
	w.mine(w.pooled()[:1]) // the first listing after all that: rebuilt from scratch and compared
	w.mine(w.pooled())
}

// a reorganisation taken apart: every undone block and every new block is a verified state
func (w *World) reorgStepwise(depth int, cands []*txInfo) bool {
	if depth > len(w.blocks) {
		depth = len(w.blocks)
	}
	slow := w.g.Chance(1, 3) // the operator undoes the blocks with `undo slow`
	for i := 0; i < depth; i++ {
		if !w.undoLast(slow) {
			return false
		}
	}
	w.r.Hit(fmt.Sprintf("reorg-stepwise-depth:%d", depth))
	rest := cands
	for i := 0; i <= depth; i++ {
		take := rest
		if i < depth {
			take, rest = rest[:len(rest)/2], rest[len(rest)/2:]
		}
		if !w.mine(take) {
			return false
		}
	}
	return true
}

func scReorgStepwise(w *World) {
	fc := w.freeCoins(true)
	a := w.spend(fc[:1], 2, 3000, nil, false)
	b := w.spend(a.outs[:1], 1, 2000, nil, false)
	c := w.spend(fc[1:2], 1, 2500, nil, false)
	w.submit(a, "net")
	w.submit(b, "net")
	w.submit(c, "net")
	cx := w.spend(fc[1:2], 1, 7000, nil, false) // conflicts with c
	w.mine([]*txInfo{a, cx})
	d := w.spend(cx.outs[:1], 1, 2000, nil, false)
	w.submit(d, "net") // child of a tx that the reorganisation will un-mine and then conflict out
	w.mine([]*txInfo{b})
	if cb := w.justMatured(); cb != nil {
		w.submit(w.spend([]*chainkit.Coin{cb}, 1, 4000, nil, false), "net")
	}
	w.reorgStepwise(2, []*txInfo{c, a})
	w.mine(w.pooled())
}

// ------------------------------------------------------------------------------------------ random histories

func scRandom(steps int, withBig bool) func(w *World) {
	return func(w *World) { scRandomSteps(w, steps, withBig, true) }
}

// scRandomSteps runs `steps` random operations; final = finish with a block taking the whole pool.
func scRandomSteps(w *World, steps int, withBig bool, final bool) {
	{
		var held []*txInfo // built but not (yet) submitted: parents of orphans, conflicts, unknown txs, refused ones
		for i := 0; i < steps && !w.failed && !w.dead; i++ {
			free := w.freeCoins(false)
			conf := w.freeCoins(true)
			pool := w.pooled()
			if len(pool) > 0 && w.g.Chance(1, 14) { // time passes: the records stay, older, until the hourly expiry comes by
				w.ageRandom()
			}
			w.extra(held) // (own stream: boundaries.go)
			if w.failed || w.dead {
				break
			}
			x := w.g.Intn(100)
			switch {
			case x < 38 && len(free) > 0: // ordinary tx (chains and diamonds arise from pooled outputs)
				nin := 1 + w.g.Intn(3)
				nout := 1 + w.g.Intn(3)
				var seqs []uint32
				if w.notFullRBF && w.g.Chance(1, 2) {
					seqs = []uint32{0xfffffffd}
				}
				mode := w.randMode()
				coins := w.pickCoins(free, nin)
				if w.g.Chance(1, 12) {
					if cb := w.justMatured(); cb != nil { // spendable for the first time in the next block
						coins[0] = cb
						w.r.Hit("gen:just-matured-coinbase")
					}
				}
				// trusted peers and the local wallet are trusted with script validity: only the net path gets bad signatures
				t := w.spend(coins, nout, w.randFee(nin, nout), seqs, mode == "net" && w.g.Chance(1, 8))
				if w.submit(t, mode) == 0 && len(pool) > 0 && w.g.Chance(1, 10) {
					kinds := []string{"resign", "stuffed", "corrupt"}
					if tw := w.twin(t, kinds[w.g.Intn(3)]); tw != nil {
						if w.g.Bool() {
							w.submit(tw, "net") // while the first serialization is pooled
						} else {
							held = append(held, tw) // may come in a block, or after the first one has left the pool
						}
					}
				}
			case x < 52 && len(pool) > 0: // double spend, fee lower / equal / higher
				v := pool[w.g.Intn(len(pool))]
				var coins []*chainkit.Coin
				for _, in := range v.tx.TxIn {
					if c := w.coinOf(in.Input); c != nil {
						coins = append(coins, c)
					}
				}
				if len(coins) == 0 {
					continue
				}
				if w.g.Bool() {
					coins = coins[:1]
				}
				if len(conf) > 0 && w.g.Chance(1, 3) {
					coins = append(coins, w.pickCoins(conf, 1)...)
				}
				if w.g.Chance(1, 4) { // ... and an unspent output of a pooled tx: the victim's own, a descendant's, or an unrelated one
					var po []*chainkit.Coin
					for _, c := range free {
						if c.Height == 0 {
							po = append(po, c)
						}
					}
					if len(po) > 0 {
						coins = append(coins, w.pickCoins(po, 1)...)
						w.r.Hit("gen:replacement-spends-pooled-output")
					}
				}
				var fee uint64
				if t2s := txpool.TransactionsToSend[v.tx.Hash.BIdx()]; t2s != nil {
					fee = t2s.Fee
				}
				switch w.g.Intn(4) {
				case 0:
					fee = fee / 2
				case 1: // equal
				case 2:
					fee = fee*2 + 500
				case 3:
					fee = fee*30 + 20000
				}
				var t *txInfo
				if w.g.Chance(1, 7) { // heavier than MaxTxWeight: refused before any conflict handling, consensus-valid
					t = w.heavyTx(coins, fee, 12+w.g.Intn(2))
					w.r.Hit("gen:heavy-conflict")
				} else {
					t = w.spend(coins, 1+w.g.Intn(2), fee, nil, false)
				}
				if w.g.Chance(1, 4) {
					held = append(held, t) // a conflict that may show up in a block
				} else if code := w.submit(t, w.randMode()); code != 0 && code < 1000 && w.g.Chance(2, 3) {
					held = append(held, t) // refused (any reason): it may still show up in a block
					w.r.Hit("gen:refused-conflict-held")
				}
			case x < 62 && len(free) > 0: // orphan: child first, parent held back
				p := w.spend(w.pickCoins(free, 1), 1+w.g.Intn(2), w.randFee(1, 2), nil, false)
				c := w.spend(p.outs[:1], 1, w.randFee(1, 1), nil, false)
				w.submit(c, "net")
				if w.g.Chance(1, 3) {
					c2 := w.spend(c.outs[:1], 1, w.randFee(1, 1), nil, false)
					w.submit(c2, "net")
				}
				held = append(held, p)
			case x < 70 && len(held) > 0: // a held tx arrives through the network
				j := w.g.Intn(len(held))
				w.submit(held[j], w.randMode())
				held = append(held[:j], held[j+1:]...)
			case x < 74 && len(w.order) > 0: // something already seen comes again
				w.submit(w.order[w.g.Intn(len(w.order))], w.randMode())
			case x < 77 && len(free) > 0: // refused kinds
				c := w.pickCoins(free, 1)
				if len(pool) > 0 && w.g.Bool() { // ... of a coin that a pooled tx spends: refused AND conflicting
					v := pool[w.g.Intn(len(pool))]
					if vc := w.coinOf(v.tx.TxIn[w.g.Intn(len(v.tx.TxIn))].Input); vc != nil && vc.Kind != "raw" {
						c = []*chainkit.Coin{vc}
					}
				}
				var t *txInfo
				switch w.g.Intn(5) {
				case 0:
					t = w.mkTx(c, nil, []chainkit.OutSpec{{Value: c[0].Value + 7, Script: chainkit.AnyoneScript}}, false)
				case 1:
					t = w.spend(c, 1, uint64(w.g.Intn(20)), nil, false)
				case 2:
					t = w.spend([]*chainkit.Coin{c[0], w.immature}, 1, 5000, nil, false)
				case 3:
					t = w.heavyTx(c, w.randFee(1, 13)*40, 12)
				case 4:
					t = w.spend([]*chainkit.Coin{c[0], c[0]}, 1, 3000, nil, false)
				}
				if code := w.submit(t, "net"); code != 0 && code < 1000 && w.g.Chance(2, 3) {
					held = append(held, t)
				}
			case x < 87: // block: some pooled txs (listing order), some held ones, an unknown one
				var cands []*txInfo
				for _, ti := range w.listingOrder() {
					if w.g.Chance(2, 3) {
						cands = append(cands, ti)
					}
				}
				for _, h := range held {
					if w.g.Chance(1, 3) {
						cands = append([]*txInfo{h}, cands...)
					}
				}
				if len(conf) > 0 && w.g.Chance(1, 2) {
					cands = append(cands, w.spend(w.pickCoins(conf, 1), 2, w.randFee(1, 2), nil, false))
				}
				if !w.mine(cands) {
					return
				}
			case x < 91 && len(w.blocks) > 0: // reorganisation
				depth := 1 + w.g.Intn(2)
				var cands []*txInfo
				for i := 0; i < depth && i < len(w.blocks); i++ {
					for _, ti := range w.blocks[len(w.blocks)-1-i].txs {
						if w.g.Chance(1, 2) {
							cands = append(cands, ti)
						}
					}
				}
				for _, h := range held {
					if w.g.Chance(1, 3) {
						cands = append(cands, h)
					}
				}
				switch w.g.Intn(4) {
				case 0:
					if !w.undoLast(w.g.Bool()) { // the text-UI `undo` / `undo slow`: the pool must be in order on the lower tip as well
						return
					}
				case 1:
					if !w.reorgStepwise(depth, cands) {
						return
					}
				default:
					if !w.reorg(depth, cands) {
						return
					}
				}
			case x < 95 && len(pool) > 0: // expiry
				var old []*txInfo
				for _, ti := range pool {
					if w.g.Chance(1, 4) {
						old = append(old, ti)
					}
				}
				w.tickExpire(old)
			case x < 98:
				if w.g.Chance(1, 2) { // ... after a while: part of the pool (or all of it) has not been announced for days
					w.ageRandom()
				}
				if w.g.Chance(2, 5) { // the node restarts on a pool file that is not the complete file of its tip
					kinds := []string{"cut", "cut", "cut", "cut", "marker", "stale", "version", "tip", "missing"}
					w.crashLoad(kinds[w.g.Intn(len(kinds))])
				} else {
					w.reload()
				}
			default:
				if withBig {
					if len(conf) > 14 {
						w.fillBig(conf, 13)
					}
					w.tickEvict(uint64(100000 + w.g.Intn(600000)))
				} else {
					w.tickEvict(1 << 30) // a Tick that must not evict
				}
			}
		}
		if final {
			w.mine(w.pooled())
		}
	}
}

// coinOf finds the coin an outpoint refers to (confirmed or output of a known tx).
func (w *World) coinOf(o btc.TxPrevOut) *chainkit.Coin {
	if c := w.ledger[o]; c != nil {
		return c
	}
	if ti := w.txs[o.Hash]; ti != nil && int(o.Vout) < len(ti.outs) {
		return ti.outs[o.Vout]
	}
	return nil
}

// listingOrder: the pooled txs in the node's own listing order (parents first).
func (w *World) listingOrder() []*txInfo {
	txpool.TxMutex.Lock()
	defer txpool.TxMutex.Unlock()
	var l []*txInfo
	for _, t := range txpool.GetSortedMempool() {
		if ti := w.txs[t.Hash.Hash]; ti != nil {
			l = append(l, ti)
		}
	}
	return l
}

// ------------------------------------------------------------------------------------------ main

func scenarios(r *vlib.Run) []scenario {
	l := []scenario{
		{"corpus:chains-diamonds", scChainsDiamonds, false, noOpt},
		{"corpus:dup-input", scDupInput, false, noOpt},
		{"corpus:rbf", scRBF, false, noOpt},
		{"corpus:rbf-own-descendant", scRBFOwnDescendant, false, noOpt},
		{"corpus:rbf-final", scChainsDiamonds, true, noOpt},
		{"corpus:orphans", scOrphans, false, noOpt},
		{"corpus:orphan-bad-vout", scOrphanBadVout, false, noOpt},
		{"corpus:blocks-reorg", scBlocksReorg, false, noOpt},
		{"corpus:expire-evict", scExpireEvict, false, noOpt},
		{"corpus:evict-local", scEvictLocal, false, noOpt},
		{"corpus:joined-families", scJoinedFamilies, false, noOpt},
		{"corpus:rejects", scRejects, false, noOpt},
		{"corpus:reject-nodata-mined", scRejectMined, false, noOpt},
		{"corpus:reject-mined-notfullrbf", scRejectMined, true, noOpt},
		{"corpus:coinbase-undo", scCoinbaseUndo, false, noOpt},
		{"corpus:witness-twins", scWitnessTwins, false, noOpt},
		{"corpus:dirty-list", scDirtyList, false, noOpt},
		{"corpus:reorg-stepwise", scReorgStepwise, false, noOpt},
		{"corpus:crash-load", scCrashLoad, false, noOpt},
		{"corpus:undo-sorting-on", scUndoFamilies, false, noOpt},
		{"corpus:undo-sorting-on-notfullrbf", scUndoFamilies, true, noOpt},
		{"corpus:aged-reload", scAgedReload, false, noOpt},
	}
	l = append(l,
		// 43 arrivals directly below the head of a freshly built list: the rank gap there goes 2^42.4 … 3, 2, 1
		scenario{"corpus:squeeze-head-43", scSqueeze(squeezeParams{n: 43, pos: 0, noFar: true, kidsFor: 4}, 6), false, noOpt},
		// adaptive: as many arrivals as it takes until one has met a gap <= 1, then the children
		scenario{"corpus:squeeze-middle", scSqueeze(squeezeParams{n: 0, pos: 1, kidsFor: 4}, 9), false, noOpt},
		scenario{"corpus:squeeze-tail", scSqueeze(squeezeParams{n: 0, pos: 2, noFar: true, kidsFor: 3}, 6), false, noOpt},
		scenario{"corpus:squeeze-up", scSqueeze(squeezeParams{n: 0, up: true, pos: 1, kidsFor: 4}, 6), false, noOpt},
		scenario{"corpus:squeeze-mem-interleaved", scSqueeze(squeezeParams{n: 46, pos: 0, memSplit: true, interleave: 39, kidsFor: 2}, 4), true, noOpt},
	)
	nr := r.N(10, 60)
	for i := 0; i < nr; i++ {
		l = append(l, scenario{fmt.Sprintf("random:%d", i), scRandom(r.N(60, 100), i%5 == 4), i%4 == 3, worldOpt{noMem: i%6 == 5}}) // (1 world in 6: AllowMemInputs off)
	}
	ns := r.N(3, 24)
	for i := 0; i < ns; i++ {
		l = append(l, scenario{fmt.Sprintf("random-squeeze:%d", i), scRandomSqueeze(r.N(30, 60)), i%4 == 3, noOpt})
	}
	// boundaries.go. Listed last (one PRNG stream per list index: the streams of the scenarios above stay what they
	// were), run with the rest of the corpus (main).
	l = append(l,
		scenario{"corpus:coinbase-boundary", scCoinbaseBoundary, false, noOpt},
		scenario{"corpus:vout-boundary", scVoutBoundary, false, noOpt},
		scenario{"corpus:not-mined", scNotMined, false, memOff},
		scenario{"corpus:not-mined-notfullrbf", scNotMined, true, memOff},
		scenario{"corpus:loadraw-pooled", scLoadRawPooled, false, noOpt},
		scenario{"corpus:deep-orphan-20", scDeepOrphan20, false, noOpt},
		scenario{"corpus:deep-orphan-20-ring128", scDeepOrphan20, false, worldOpt{ring: 128}},
		scenario{"corpus:deep-orphan-k", scDeepOrphanK, false, worldOpt{ring: 128}},
		scenario{"corpus:deep-orphan-k-ring24", scDeepOrphanK, false, noOpt},
		scenario{"corpus:deep-orphan-k-nomem", scDeepOrphanK, false, memOff},
	)
	// realclient.go: the same histories on a replica node made of gocoin's client program (client/main.go's own block entry
	// and chain callbacks), which falls behind and catches up header-first. Listed last (streams above unchanged).
	l = append(l,
		scenario{"corpus:client-node-far-behind", scClientNode(144, 230), false, noOpt},
		scenario{"corpus:client-node-behind", scClientNode(1, 150), false, noOpt},
		scenario{"corpus:client-node-in-sync", scClientNode(1, 3), true, noOpt},
	)
	return l
}

func runScenario(r *vlib.Run, sc scenario, g *vlib.Rng) *World {
	defer prof("scenario " + sc.name)()
	w := newWorld(r, g, sc.name, sc.rbf, sc.opt)
	defer w.close()
	func() {
		defer func() {
			if x := recover(); x != nil {
				w.propFail("harness-panic", fmt.Sprint("panic outside a guarded call: ", x))
			}
		}()
		sc.run(w)
	}()
	r.Hit("scenario:" + sc.name[:6])
	if len(w.log) > 0 && !w.failed {
		r.Sample(map[string]interface{}{"scenario": sc.name, "steps": w.steps, "first_ops": head(w.log, 6)})
	}
	return w
}

func head(l []string, n int) []string {
	var out []string
	for _, s := range l {
		if len(s) > 160 {
			s = s[:160] + "…"
		}
		if len(s) > 3 && s[:3] != "tx " && s[:4] != "coin" && s[:3] != "cfg" && s[:3] != "tip" {
			out = append(out, s)
		}
		if len(out) >= n {
			break
		}
	}
	return out
}

func main() {
	r := vlib.NewRun("C12")
	silence()
	r.Assume = []string{
		"BIDX (8 bytes of the txid) and UIdx (8 other bytes xor vout) are injective on the transactions in play (hypothesis of the theorems; generated txids are random, no collisions are constructed)",
		"script verdicts, serialized sizes, wall-clock time, byte footprints and the fee floor in force are inputs of the model, taken from the run",
		"CPFP fee packages (pkgs.go): their membership is observed from gocoin (FeePackages) and validated by the model (pkgOK); the merge of GetSortedMempoolRBF is modelled and compared element by element",
		"amounts stay far below 2^64 (no uint64 wrap in fee products); size-based limits of the rejected list are kept out of reach",
		"transactions from trusted peers / the local wallet (Trusted: scripts are not run) carry valid scripts; corrupted signatures are only sent on the untrusted path",
		"blocks handed to the chain are valid; the harness applies client/main.go's wiring (callbacks, BlockCommitInProgress, common.Last) itself; a bare undo is driven as client/usif/textui undo_block does",
		"the client program's own wiring (client/main.go blockMined / blockUndone as chain callbacks, LocalAcceptBlock as block entry, LastKnownHeight from the best known header) is driven in the corpus:client-node-* histories on a replica node = gocoin's client built with a driver file through `go build -overlay`, run as a child process; its pool must equal the in-process pool after every operation and satisfy the predicate against its own UTXO db; host_init and the network threads are not driven (the driver hands the callbacks to NewChainExt and learns headers the way init.go / ProcessNewHeader do)",
		"other threads of the node are represented by what they do under TxMutex at the points where the committing thread has released it: a listing (GetSortedMempoolRBF) + inspection right after a BlockMined / BlockUndone callback, SortingDisabled still set; true parallel execution is not driven (TxMutex serialises the pool)",
		"a damaged mempool.dmp is a strict prefix of the file MempoolSave wrote (crash while writing in place), that file with its END marker / version / tip hash changed, a complete file of an earlier tip, or no file; bit flips INSIDE the records are not generated (the file has no checksum: such a file loads other transactions)",
		"Go map-iteration order (batch of REPLACED records in the reject ring; ties of sort.Slice) is an input: the model adopts the observed order through ringorder / setorder, which are proved to preserve the invariants (resync_step_inv)",
		"a single replacement whose batch of REPLACED records alone overruns the reject ring (a root with >= ringCap-1 descendants enumerated in Go map order): which records survive is map-order dependent; the pool side and the property predicate are still judged there, then the scenario ends (hit gen:replaced-batch-overruns-reject-ring)",
		"several serializations of one txid (witness-malleated twins) are outside the theorems' id_fun: the model is told the serialization in use before every operation and every divergence is reported, the property predicate is judged on the real pool",
		"wall-clock time: the model has no clock; the harness sets the Lastseen of pooled records itself (ages to both sides of TXPool.ExpireInDays = 14 days, never within 10 minutes of the limit), keeps its own ledger of them (a re-announcement or a new pool residency makes a record fresh) and hands the model the ledger's expired keys at every expiry tick; records it has not aged were seen during the run (seconds ago)",
		"the local path is the real usif.LoadRawTx (raw bytes in, its message out); network.ReceivedBlocks holds a record for every block of the index, as client/main.go arranges at start-up (GetAverageFee reads the tip's)",
		"CFG.TXPool.AllowMemInputs is on in most worlds and off in the not-mined corpus worlds and one random world in six; CFG.TXPool.RejectRecCnt is 24 (below the 100 the client's configuration allows, so that the ring wraps) except in the deep-orphan worlds with 128",
		"the confirmed side of the predicate (input is an unspent confirmed output / pooled tx already in the chain) asks the node's UTXO db output by output (UnspentGet, TxPresent) instead of scanning it",
		"a block is undone either inside BlockCommitInProgress(true)…(false) (client/main.go, text-UI `undo`) or with sorting enabled (text-UI `undo slow`: UndoLastBlock, then BlockCommitInProgress(false)); blocks are always CONNECTED inside the bracket (no caller does otherwise)",
	}
	base := r.Rng
	only := ""
	if r.Replay != "" {
		var doc struct {
			Seed   uint64 `json:"seed"`
			Tier   string `json:"tier"`
			Replay struct {
				Scenario string `json:"scenario"`
			} `json:"replay"`
		}
		b, err := os.ReadFile(r.Replay)
		if err != nil || json.Unmarshal(b, &doc) != nil || doc.Replay.Scenario == "" {
			fmt.Fprintln(realErr, "cannot read replay file", r.Replay)
			os.Exit(3)
		}
		r.Tier, r.Seed = doc.Tier, doc.Seed
		base = vlib.NewRng(doc.Seed)
		only = doc.Replay.Scenario
	}
	type job struct {
		sc scenario
		g  *vlib.Rng
	}
	var corpus, generated []job
	for _, sc := range scenarios(r) {
		j := job{sc, base.Fork()} // one stream per scenario index, so that a replay re-derives the same one
		if strings.HasPrefix(sc.name, "corpus:") {
			corpus = append(corpus, j)
		} else {
			generated = append(generated, j)
		}
	}
	for _, j := range append(corpus, generated...) { // corpus first
		sc := j.sc
		if only != "" && sc.name != only {
			continue
		}
		if pf := os.Getenv("VERIF_C12_ONLY"); pf != "" && !strings.HasPrefix(sc.name, pf) {
			continue // development aid: run the scenarios with this name prefix only (same PRNG streams)
		}
		w := runScenario(r, sc, j.g)
		if w.dead && !w.envAbort {
			break // a goroutine is stuck inside gocoin holding TxMutex
		}
	}
	finish(r)
}

func finish(r *vlib.Run) {
	cleanDrv()
	profPrint()
	os.Stdout = realOut
	syscall.Dup2(int(realErr.Fd()), 2)
	r.Finish("one case = the real pool state after one operation of a history (submit net/trusted/local, block, reorg, expiry tick, eviction tick, save+reload, restart on a damaged pool file) or inside a block commit right after the chain has reported one block to the pool; distinct = different (pool, rejected) dumps; each compared with the Lean model and checked against the property predicate incl. a block template validated by the node",
		"Real client/txpool driven in-process on a chainkit chain with the client's own wiring; after every operation the full observable state (TransactionsToSend with Fee/Volume/MemInputs/Final/Local, SpentOutputs, reject ring, WaitingForInputs, RejectedSpentOutputs, sorted list, totals) is compared with Model/Mempool.lean, gocoin's FeePackages are validated by the model (pkgOK) and its merge of the sorted list with them is compared element by element with GetSortedMempoolRBF(), and C12's predicate is evaluated directly on the real pool: no double spend, every input confirmed-unspent or pooled, SpentOutputs exact, nothing pooled confirmed, Fee = in - out, sizes from the raw bytes, MempoolCheck(), GetSortedMempoolRBF() and GetSortedMempool() parents-first permutations of the pool, block built from the former accepted by CheckBlock + ProcessBlockTransactions with scripts verified. The same is done INSIDE block commits (after each BlockMined / BlockUndone callback of a connect, an undo and every step of a reorganisation, while SortingDisabled is set: the listing another thread would get there), and MempoolLoad is run on damaged variants of every file MempoolSave writes (cut at any byte, marker / version / tip changed, stale, missing): each must be refused and leave the pool as InitMempool() makes it; the history continues from there (model: loadRefused). Blocks are undone inside the commit bracket and - text-UI `undo slow` - with the sorted list live (put-back transactions inserted at once, children re-flagged by unmined() on the live list). Pooled records are aged by the harness to both sides of the expiry limit (its own time ledger) and must come through every other operation, save+reload and restarts included, until the expiry tick removes exactly the expired ones with their descendants.")
}
