package main

import (
	"fmt"
	"strings"

	"github.com/piotrnar/gocoin/client/txpool"
	"github.com/piotrnar/gocoin/lib/chain"
)

// checkConsts compares the constants the Lean model copies from the Go source (oracle command `consts`) with the
// package's own: the coinbase maturity, the start value of the SortRanks and every reject reason the model uses.
// (sortIndexStep is not exported; it is tied through the SortRank values compared after every operation.)
// A difference is a broken tie: the model would no longer be the code.
func (w *World) checkConsts() {
	got := strings.Fields(w.ask("consts"))
	want := []uint64{
		uint64(chain.COINBASE_MATURITY), txpool.SORT_START_INDEX,
		(1 << 60) / (2 * 100000), (1 << 60) / (2 * 250000), // adjustSortIndexStep for an empty pool / 250000 records
		txpool.TX_REJECTED_NOT_PENDING, txpool.TX_REJECTED_TOO_BIG, txpool.TX_REJECTED_OVERSPEND,
		txpool.TX_REJECTED_BAD_INPUT, txpool.TX_REJECTED_SCRIPT_FAIL, txpool.TX_REJECTED_NO_TXOU,
		txpool.TX_REJECTED_BAD_PARENT, txpool.TX_REJECTED_LOW_FEE, txpool.TX_REJECTED_NOT_MINED,
		txpool.TX_REJECTED_CB_INMATURE, txpool.TX_REJECTED_RBF_LOWFEE, txpool.TX_REJECTED_RBF_FINAL,
		txpool.TX_REJECTED_RBF_100, txpool.TX_REJECTED_REPLACED,
	}
	names := []string{"COINBASE_MATURITY", "SORT_START_INDEX", "step(empty)", "step(250000)", "NOT_PENDING", "TOO_BIG",
		"OVERSPEND", "BAD_INPUT", "SCRIPT_FAIL", "NO_TXOU", "BAD_PARENT", "LOW_FEE", "NOT_MINED", "CB_INMATURE",
		"RBF_LOWFEE", "RBF_FINAL", "RBF_100", "REPLACED"}
	if len(got) != len(want) {
		w.tieFail("model-mismatch:consts", fmt.Sprintf("oracle `consts` replied %d fields, want %d", len(got), len(want)))
		return
	}
	for i := range want {
		if got[i] != fmt.Sprint(want[i]) {
			w.tieFail("model-mismatch:consts", fmt.Sprintf("constant %s: gocoin %d, model %s", names[i], want[i], got[i]))
			return
		}
	}
	w.r.Hit("tie:consts-equal")
}
