// gen_c10 regenerates lean/GocoinV/Gen/UtxoLoaderFacts.lean from /repo/lib/utxo/unspent_db.go (translator part of the
// C10 tie): the geometry of the UTXO.db loader in NewUnspentDb — a ring of BUFFERS_CNT static pack buffers, filled by the
// file reader and handed through a channel of capacity CHANNEL_SIZE to ONE goroutine that inserts the records into the
// maps — as constants (evaluated from the source expressions) plus the structural facts the ring model
// (Model/UtxoUndo.lean, `Ring`) was written for. Props.C10.loader_ring_safe is proved about these constants: an edit of
// the expressions that lets the reader lap the consumer breaks the proof even when no run hits the schedule.
// Second group (`retryShape`): what the function does with the variables that live across `goto redo` (the index inside
// the pack, the buffer number, db.dataSize, the 256 maps) on the way from a failed record loop to the record loop of the
// retry with UTXO.old — the parameters of Model/UtxoLoad.lean; Props.C10.load_fallback_exact needs the clean-up.
// Variables are found by their ROLE in the record loop (what is sent on the channel, what indexes it, what it is
// re-derived from), not by their names.
package main

import (
	"bytes"
	"fmt"
	"go/ast"
	"go/printer"
	"go/token"
	"os"
	"strings"

	"verif/vlib"
	"verif/vtrans"
)

func die(err error) {
	fmt.Fprintln(os.Stderr, "TRANSLATE-ERROR:", err)
	os.Exit(2)
}

// key renders an expression as source text without blanks
func key(x ast.Node) string {
	var b bytes.Buffer
	if err := printer.Fprint(&b, token.NewFileSet(), x); err != nil {
		return ""
	}
	return strings.Join(strings.Fields(b.String()), "")
}

// eval: integer constant expression over literals and constants already known
func eval(e ast.Expr, env map[string]int64) (int64, error) {
	switch x := e.(type) {
	case *ast.ParenExpr:
		return eval(x.X, env)
	case *ast.Ident:
		if v, ok := env[x.Name]; ok {
			return v, nil
		}
		return 0, fmt.Errorf("constant %s is not known here", x.Name)
	case *ast.BinaryExpr:
		a, err := eval(x.X, env)
		if err != nil {
			return 0, err
		}
		b, err := eval(x.Y, env)
		if err != nil {
			return 0, err
		}
		switch x.Op {
		case token.ADD:
			return a + b, nil
		case token.SUB:
			return a - b, nil
		case token.MUL:
			return a * b, nil
		case token.QUO:
			if b == 0 {
				return 0, fmt.Errorf("division by zero")
			}
			return a / b, nil
		case token.SHL:
			return a << uint(b), nil
		case token.SHR:
			return a >> uint(b), nil
		}
		return 0, fmt.Errorf("operator %s not understood", x.Op)
	default:
		v, err := vtrans.IntLit(e)
		return int64(v), err
	}
}

// has reports whether a node satisfying f occurs below n
func has(n ast.Node, f func(ast.Node) bool) bool {
	found := false
	if n == nil {
		return false
	}
	ast.Inspect(n, func(m ast.Node) bool {
		if m != nil && f(m) {
			found = true
		}
		return !found
	})
	return found
}

func ident(e ast.Expr) string {
	if id, ok := e.(*ast.Ident); ok {
		return id.Name
	}
	return ""
}

func unlabel(s ast.Stmt) (ast.Stmt, string) {
	if l, ok := s.(*ast.LabeledStmt); ok {
		return l.Stmt, l.Label.Name
	}
	return s, ""
}

func isZero(e ast.Expr) bool {
	v, err := vtrans.IntLit(e)
	return err == nil && v == 0
}

func main() {
	f, err := vtrans.Parse("lib/utxo/unspent_db.go")
	if err != nil {
		die(err)
	}
	fd, err := f.Func("", "NewUnspentDb")
	if err != nil {
		die(err)
	}
	// ---- the record loop and the roles of the variables in it
	top := fd.Body.List
	iLoop, iRedo, iFatal, iRetry := -1, -1, -1, -1
	redoLabel, fatalLabel := "", ""
	var loop *ast.ForStmt
	for i, st := range top {
		inner, _ := unlabel(st)
		if fs, ok := inner.(*ast.ForStmt); ok && loop == nil && has(fs.Body, func(n ast.Node) bool {
			c, ok := n.(*ast.CallExpr)
			if !ok {
				return false
			}
			s, ok := c.Fun.(*ast.SelectorExpr)
			return ok && s.Sel.Name == "ReadVLen"
		}) {
			loop, iLoop = fs, i
		}
	}
	if loop == nil {
		die(fmt.Errorf("NewUnspentDb: the record loop (a top-level for statement calling ReadVLen) was not found"))
	}
	chName, recsName, recIdxName, poolName, poolIdxName, sizeField := "", "", "", "", "", ""
	ast.Inspect(loop.Body, func(n ast.Node) bool {
		if s, ok := n.(*ast.SendStmt); ok && ident(s.Chan) != "" && ident(s.Value) != "" && recsName == "" {
			chName, recsName = ident(s.Chan), ident(s.Value)
		}
		return true
	})
	ast.Inspect(loop.Body, func(n ast.Node) bool {
		switch x := n.(type) {
		case *ast.IndexExpr:
			if ident(x.X) == recsName && ident(x.Index) != "" && recIdxName == "" {
				recIdxName = ident(x.Index)
			}
		case *ast.AssignStmt:
			if len(x.Lhs) == 1 && len(x.Rhs) == 1 && ident(x.Lhs[0]) == recsName {
				if sl, ok := x.Rhs[0].(*ast.SliceExpr); ok && sl.Low == nil && sl.High == nil {
					if ix, ok := sl.X.(*ast.IndexExpr); ok && ident(ix.X) != "" && ident(ix.Index) != "" {
						poolName, poolIdxName = ident(ix.X), ident(ix.Index)
					}
				}
			}
		case *ast.CallExpr:
			// db.<field>.Add(int64(le))
			if s, ok := x.Fun.(*ast.SelectorExpr); ok && s.Sel.Name == "Add" {
				if s2, ok := s.X.(*ast.SelectorExpr); ok && ident(s2.X) == "db" && sizeField == "" {
					sizeField = s2.Sel.Name
				}
			}
		}
		return true
	})
	if chName == "" || recsName == "" || recIdxName == "" || poolName == "" || poolIdxName == "" || sizeField == "" {
		die(fmt.Errorf("NewUnspentDb: record loop not understood (channel %q, pack %q, index in pack %q, buffers %q, buffer number %q, size counter %q)",
			chName, recsName, recIdxName, poolName, poolIdxName, sizeField))
	}
	env := map[string]int64{}
	exprs := map[string]string{}
	var recpoolDims []string
	chanCap := ""
	rotation := ""
	sendThenRotate := false
	consumers := 0
	consumerWalksPack := false
	ast.Inspect(fd.Body, func(n ast.Node) bool {
		switch x := n.(type) {
		case *ast.GenDecl:
			for _, s := range x.Specs {
				vs, ok := s.(*ast.ValueSpec)
				if !ok {
					continue
				}
				if x.Tok == token.CONST {
					for i, nm := range vs.Names {
						if i < len(vs.Values) {
							if v, e := eval(vs.Values[i], env); e == nil {
								env[nm.Name] = v
								exprs[nm.Name] = key(vs.Values[i])
							}
						}
					}
				}
				if x.Tok == token.VAR && len(vs.Names) == 1 && vs.Names[0].Name == poolName {
					t := vs.Type
					for {
						at, ok := t.(*ast.ArrayType)
						if !ok || at.Len == nil {
							break
						}
						recpoolDims = append(recpoolDims, key(at.Len))
						t = at.Elt
					}
				}
			}
		case *ast.AssignStmt:
			if len(x.Lhs) == 1 && len(x.Rhs) == 1 {
				if key(x.Lhs[0]) == chName {
					if c, ok := x.Rhs[0].(*ast.CallExpr); ok && key(c.Fun) == "make" && len(c.Args) == 2 {
						if _, isChan := c.Args[0].(*ast.ChanType); isChan {
							chanCap = key(c.Args[1])
						}
					}
				}
			}
		case *ast.GoStmt:
			// the consumer: a goroutine whose body receives a pack from the channel and ranges over what it received
			fl, ok := x.Call.Fun.(*ast.FuncLit)
			if !ok {
				return true
			}
			receives, walks := false, false
			got := ""
			ast.Inspect(fl.Body, func(m ast.Node) bool {
				if as, ok := m.(*ast.AssignStmt); ok && len(as.Lhs) == 1 && len(as.Rhs) == 1 {
					if u, ok := as.Rhs[0].(*ast.UnaryExpr); ok && u.Op == token.ARROW && key(u.X) == chName {
						receives = true
						got = ident(as.Lhs[0])
					}
				}
				return true
			})
			// other ways to take a pack from the channel: `for p := range ch`, a bare `<-ch` (also inside a select)
			ast.Inspect(fl.Body, func(m ast.Node) bool {
				if rs, ok := m.(*ast.RangeStmt); ok && key(rs.X) == chName {
					receives = true
					if got == "" {
						got = ident(rs.Key)
					}
				}
				if u, ok := m.(*ast.UnaryExpr); ok && u.Op == token.ARROW && key(u.X) == chName {
					receives = true
				}
				return true
			})
			ast.Inspect(fl.Body, func(m ast.Node) bool {
				if rs, ok := m.(*ast.RangeStmt); ok && got != "" && ident(rs.X) == got {
					walks = true
				}
				return true
			})
			if receives {
				consumers++
				consumerWalksPack = walks
			}
		}
		return true
	})
	// `if rec_idx == len(recs)-1 { ch <- recs; rec_idx = 0; pool_idx = (pool_idx+1) % BUFFERS_CNT; recs = recpool[pool_idx][:] }`
	fullTest := ""
	ast.Inspect(loop.Body, func(n ast.Node) bool {
		x, ok := n.(*ast.IfStmt)
		if !ok {
			return true
		}
		sent, rewound := false, false
		for _, st := range x.Body.List {
			if s, ok := st.(*ast.SendStmt); ok && key(s.Chan) == chName && key(s.Value) == recsName {
				sent = true
			}
			if as, ok := st.(*ast.AssignStmt); ok && len(as.Lhs) == 1 && len(as.Rhs) == 1 {
				if key(as.Lhs[0]) == poolIdxName && sent {
					sendThenRotate = true
					rotation = key(as.Rhs[0])
				}
				if key(as.Lhs[0]) == recIdxName && sent && isZero(as.Rhs[0]) {
					rewound = true
				}
			}
		}
		if sent && rewound {
			fullTest = key(x.Cond)
		}
		return true
	})
	for _, c := range []string{"BUFFERS_CNT", "CHANNEL_SIZE", "RECS_PACK_SIZE"} {
		if _, ok := env[c]; !ok {
			die(fmt.Errorf("NewUnspentDb: constant %s not found (or its expression is not understood)", c))
		}
	}
	if len(recpoolDims) != 2 || recpoolDims[0] != "BUFFERS_CNT" || recpoolDims[1] != "RECS_PACK_SIZE" {
		die(fmt.Errorf("NewUnspentDb: `var %s [BUFFERS_CNT][RECS_PACK_SIZE]one_rec` not found (dims %v)", poolName, recpoolDims))
	}
	if chanCap != "CHANNEL_SIZE" {
		die(fmt.Errorf("NewUnspentDb: `%s = make(chan []one_rec, CHANNEL_SIZE)` not found (capacity %q)", chName, chanCap))
	}
	if rotation != "("+poolIdxName+"+1)%BUFFERS_CNT" {
		die(fmt.Errorf("NewUnspentDb: buffer rotation is %q, not (%s+1)%%BUFFERS_CNT", rotation, poolIdxName))
	}
	if !sendThenRotate {
		die(fmt.Errorf("NewUnspentDb: the reader does not `%s <- %s` before turning to the next buffer", chName, recsName))
	}
	if fullTest != recIdxName+"==len("+recsName+")-1" && fullTest != "len("+recsName+")-1=="+recIdxName {
		die(fmt.Errorf("NewUnspentDb: a pack is sent (and the index in the pack rewound) under the test %q, not %s == len(%s)-1", fullTest, recIdxName, recsName))
	}
	if consumers != 1 || !consumerWalksPack {
		die(fmt.Errorf("NewUnspentDb: expected exactly one goroutine that receives a pack from %s and ranges over it (found %d)", chName, consumers))
	}
	if env["BUFFERS_CNT"] <= 0 || env["CHANNEL_SIZE"] < 0 || env["RECS_PACK_SIZE"] <= 0 {
		die(fmt.Errorf("NewUnspentDb: non-positive loader geometry %v", env))
	}

	// ---- the retry: labels, and what happens to the surviving variables between a failed record loop and the next one
	isGoto := func(n ast.Node, label string) bool {
		b, ok := n.(*ast.BranchStmt)
		return ok && b.Tok == token.GOTO && b.Label != nil && (label == "" || b.Label.Name == label)
	}
	// the label the record loop jumps to on a read error
	ast.Inspect(loop.Body, func(n ast.Node) bool {
		if b, ok := n.(*ast.BranchStmt); ok && b.Tok == token.GOTO && b.Label != nil && fatalLabel == "" {
			fatalLabel = b.Label.Name
		}
		return true
	})
	for i, st := range top {
		_, lb := unlabel(st)
		if lb != "" && lb == fatalLabel {
			iFatal = i
		}
	}
	if iFatal < iLoop || iFatal < 0 {
		die(fmt.Errorf("NewUnspentDb: the error label of the record loop (%q) is not a top-level statement after the loop", fatalLabel))
	}
	// the statement after it that jumps back: `if fname != "UTXO.old" { fname = "UTXO.old"; goto redo }`
	for i := iFatal; i < len(top) && iRetry < 0; i++ {
		inner, _ := unlabel(top[i])
		if is, ok := inner.(*ast.IfStmt); ok && has(is.Body, func(n ast.Node) bool { return isGoto(n, "") }) {
			iRetry = i
			ast.Inspect(is.Body, func(n ast.Node) bool {
				if b, ok := n.(*ast.BranchStmt); ok && b.Tok == token.GOTO && b.Label != nil {
					redoLabel = b.Label.Name
				}
				return true
			})
			// retried once, with the other file name: the guard compares a variable with the string the body stores in it
			guardOK := false
			if be, ok := is.Cond.(*ast.BinaryExpr); ok && be.Op == token.NEQ && ident(be.X) != "" {
				for _, st := range is.Body.List {
					if as, ok := st.(*ast.AssignStmt); ok && len(as.Lhs) == 1 && len(as.Rhs) == 1 && ident(as.Lhs[0]) == ident(be.X) && key(as.Rhs[0]) == key(be.Y) && key(be.Y) == `"UTXO.old"` {
						guardOK = true
					}
				}
			}
			if !guardOK {
				die(fmt.Errorf("NewUnspentDb: the retry is not guarded by `if <name> != \"UTXO.old\" { <name> = \"UTXO.old\"; goto … }` (found `%s`)", key(is.Cond)))
			}
		}
	}
	for i, st := range top {
		_, lb := unlabel(st)
		if lb != "" && lb == redoLabel {
			iRedo = i
		}
	}
	if iRetry < 0 || iRedo < 0 || iRedo > iLoop {
		die(fmt.Errorf("NewUnspentDb: retry shape not understood (error label %q at %d, retry at %d, start label %q at %d, loop at %d)", fatalLabel, iFatal, iRetry, redoLabel, iRedo, iLoop))
	}
	// statements certainly executed on the way: top level of [fatal .. retry] (+ the retry body before its goto) and of
	// [redo .. loop), plus the bodies of `if <ch> != nil { … }` (the channel exists whenever the record loop has run)
	var way []ast.Stmt
	var collect func(list []ast.Stmt)
	collect = func(list []ast.Stmt) {
		for _, st := range list {
			inner, _ := unlabel(st)
			if isGoto(inner, redoLabel) {
				return
			}
			way = append(way, inner)
			if is, ok := inner.(*ast.IfStmt); ok && is.Init == nil && key(is.Cond) == chName+"!=nil" {
				collect(is.Body.List)
			}
		}
	}
	collect(top[iFatal:iRetry])
	if inner, _ := unlabel(top[iRetry]); true {
		collect(inner.(*ast.IfStmt).Body.List)
	}
	nErr := len(way)
	collect(top[iRedo:iLoop])
	// the record counter: the field that gets the header's count, `db.<field>.Store(int64(u64))`, at the start of an attempt
	countField := ""
	for _, st := range way[nErr:] {
		if es, ok := st.(*ast.ExprStmt); ok {
			if c, ok := es.X.(*ast.CallExpr); ok && len(c.Args) == 1 && !isZero(c.Args[0]) {
				if s, ok := c.Fun.(*ast.SelectorExpr); ok && s.Sel.Name == "Store" {
					if s2, ok := s.X.(*ast.SelectorExpr); ok && ident(s2.X) == "db" && s2.Sel.Name != sizeField {
						countField = s2.Sel.Name
					}
				}
			}
		}
	}
	if countField == "" {
		die(fmt.Errorf("NewUnspentDb: no `db.<counter>.Store(<header count>)` at the start of an attempt"))
	}
	rewindRec, rewindPool, resetSize, resetCount, freshMaps, recsDerived, chMade := false, false, false, false, false, false, false
	for i, st := range way {
		switch x := st.(type) {
		case *ast.IncDecStmt:
			if ident(x.X) == recIdxName || ident(x.X) == poolIdxName {
				die(fmt.Errorf("NewUnspentDb: `%s` between a failed attempt and the retry is not understood", key(x)))
			}
		case *ast.AssignStmt:
			if x.Tok != token.ASSIGN || len(x.Lhs) != len(x.Rhs) {
				for _, l := range x.Lhs {
					if ident(l) == recIdxName || ident(l) == poolIdxName {
						die(fmt.Errorf("NewUnspentDb: `%s` between a failed attempt and the retry is not understood", key(x)))
					}
				}
			}
			if len(x.Lhs) == len(x.Rhs) && x.Tok == token.ASSIGN {
				// `a, b = 0, 0` assigns pairwise (the right-hand sides here are constants or do not read a or b)
				for j := range x.Lhs {
					lhs, rhs := x.Lhs[j], x.Rhs[j]
					switch {
					case ident(lhs) == recIdxName && isZero(rhs):
						rewindRec = true
					case ident(lhs) == poolIdxName && isZero(rhs):
						rewindPool = true
						recsDerived = false // the pack variable must be derived again after this
					case ident(lhs) == recIdxName || ident(lhs) == poolIdxName:
						die(fmt.Errorf("NewUnspentDb: `%s` between a failed attempt and the retry is not understood", key(x)))
					case ident(lhs) == recsName && i >= nErr:
						recsDerived = key(rhs) == poolName+"["+poolIdxName+"][:]"
					case ident(lhs) == chName && i >= nErr:
						chMade = true
					}
				}
			}
		case *ast.ExprStmt:
			if c, ok := x.X.(*ast.CallExpr); ok && key(c.Fun) == "db."+sizeField+".Store" && len(c.Args) == 1 && isZero(c.Args[0]) {
				resetSize = true
			}
			if c, ok := x.X.(*ast.CallExpr); ok && key(c.Fun) == "db."+countField+".Store" && len(c.Args) == 1 && isZero(c.Args[0]) {
				resetCount = true
			}
		case *ast.RangeStmt:
			if i >= nErr && key(x.X) == "db.HashMap" && has(x.Body, func(n ast.Node) bool {
				as, ok := n.(*ast.AssignStmt)
				if !ok || len(as.Lhs) != 1 || len(as.Rhs) != 1 {
					return false
				}
				ix, ok := as.Lhs[0].(*ast.IndexExpr)
				c, ok2 := as.Rhs[0].(*ast.CallExpr)
				return ok && ok2 && key(ix.X) == "db.HashMap" && key(c.Fun) == "make"
			}) {
				freshMaps = true
			}
		}
	}
	if !recsDerived || !chMade {
		die(fmt.Errorf("NewUnspentDb: every attempt must make its channel and derive `%s = %s[%s][:]` before the record loop (derived %v, channel %v)", recsName, poolName, poolIdxName, recsDerived, chMade))
	}
	// ---- the bounds on what the file can make the loader ask memory for (fix a45f580a): the header's record count and
	// every record length are compared with the size of the file before maps are pre-sized / Memory_Malloc is called
	mentions := func(n ast.Node, name string) bool {
		return has(n, func(m ast.Node) bool { id, ok := m.(*ast.Ident); return ok && id.Name == name })
	}
	writes := func(n ast.Node, name string) int {
		cnt := 0
		ast.Inspect(n, func(m ast.Node) bool {
			switch x := m.(type) {
			case *ast.AssignStmt:
				for _, l := range x.Lhs {
					if ident(l) == name {
						cnt++
					}
				}
			case *ast.IncDecStmt:
				if ident(x.X) == name {
					cnt++
				}
			case *ast.UnaryExpr:
				if x.Op == token.AND && ident(x.X) == name {
					cnt++
				}
			}
			return true
		})
		return cnt
	}
	endsInGoto := func(b *ast.BlockStmt, label string) bool {
		return b != nil && len(b.List) > 0 && isGoto(b.List[len(b.List)-1], label)
	}
	exceeds := func(cond ast.Expr, a, b string) bool { // a > b  or  b < a
		be, ok := cond.(*ast.BinaryExpr)
		if !ok {
			return false
		}
		return (be.Op == token.GTR && ident(be.X) == a && ident(be.Y) == b) || (be.Op == token.LSS && ident(be.X) == b && ident(be.Y) == a)
	}
	ofVar, statVar, sizeVar := "", "", ""
	for _, st := range top[iRedo:iLoop] {
		ast.Inspect(st, func(n ast.Node) bool {
			as, ok := n.(*ast.AssignStmt)
			if !ok || len(as.Rhs) != 1 || len(as.Lhs) < 1 {
				return true
			}
			c, ok := as.Rhs[0].(*ast.CallExpr)
			if !ok {
				return true
			}
			if key(c.Fun) == "os.Open" {
				ofVar = ident(as.Lhs[0])
			}
			if sel, ok := c.Fun.(*ast.SelectorExpr); ok && sel.Sel.Name == "Stat" && len(c.Args) == 0 && ofVar != "" && ident(sel.X) == ofVar {
				statVar = ident(as.Lhs[0])
			}
			if key(c.Fun) == "uint64" && len(c.Args) == 1 && len(as.Lhs) == 1 {
				if c2, ok := c.Args[0].(*ast.CallExpr); ok && len(c2.Args) == 0 {
					if sel, ok := c2.Fun.(*ast.SelectorExpr); ok && sel.Sel.Name == "Size" && statVar != "" && ident(sel.X) == statVar {
						sizeVar = ident(as.Lhs[0])
					}
				}
			}
			return true
		})
	}
	if sizeVar != "" && writes(fd.Body, sizeVar) != 1 {
		die(fmt.Errorf("NewUnspentDb: the file-size variable %q is written %d times (expected the one `%s = uint64(%s.Size())`)", sizeVar, writes(fd.Body, sizeVar), sizeVar, statVar))
	}
	// record length: `<le>, … = ….ReadVLen(…)` … `Memory_Malloc(int(<le>))`, top-level statements of the loop body
	lenVar, iLen, iMalloc := "", -1, -1
	for i, st := range loop.Body.List {
		if as, ok := st.(*ast.AssignStmt); ok && len(as.Rhs) == 1 && iLen < 0 {
			if c, ok := as.Rhs[0].(*ast.CallExpr); ok {
				if sel, ok := c.Fun.(*ast.SelectorExpr); ok && sel.Sel.Name == "ReadVLen" {
					lenVar, iLen = ident(as.Lhs[0]), i
				}
			}
		}
		if iMalloc < 0 && has(st, func(n ast.Node) bool {
			c, ok := n.(*ast.CallExpr)
			return ok && key(c.Fun) == "Memory_Malloc"
		}) {
			iMalloc = i
		}
	}
	if lenVar == "" || iMalloc <= iLen || !mentions(loop.Body.List[iMalloc], lenVar) {
		die(fmt.Errorf("NewUnspentDb: `<le>, <er> = btc.ReadVLen(…)` followed by `Memory_Malloc(int(<le>))` at the top level of the record loop not found (length %q, statements %d, %d)", lenVar, iLen, iMalloc))
	}
	boundsLen := false
	for _, st := range loop.Body.List[iLen+1 : iMalloc] {
		if writes(st, lenVar) > 0 {
			die(fmt.Errorf("NewUnspentDb: the record length %q is changed between ReadVLen and Memory_Malloc", lenVar))
		}
		is, ok := st.(*ast.IfStmt)
		if !ok || !mentions(is.Cond, lenVar) {
			continue
		}
		if is.Init == nil && is.Else == nil && sizeVar != "" && exceeds(is.Cond, lenVar, sizeVar) && endsInGoto(is.Body, fatalLabel) {
			boundsLen = true
		} else {
			die(fmt.Errorf("NewUnspentDb: the test `%s` on the record length before Memory_Malloc is not understood (expected `if %s > <file size> { …; goto %s }`)", key(is.Cond), lenVar, fatalLabel))
		}
	}
	// record count: the bound of the record loop, read with `&<cnt>` and tested before the maps are made
	cntVar := ""
	if be, ok := loop.Cond.(*ast.BinaryExpr); ok && be.Op == token.LSS {
		cntVar = ident(be.Y)
	}
	if cntVar == "" {
		die(fmt.Errorf("NewUnspentDb: the record loop's condition `%s` is not `<i> < <count>`", key(loop.Cond)))
	}
	iRead, iMaps := -1, -1
	for i := iRedo; i < iLoop; i++ {
		inner, _ := unlabel(top[i])
		if has(inner, func(n ast.Node) bool {
			u, ok := n.(*ast.UnaryExpr)
			return ok && u.Op == token.AND && ident(u.X) == cntVar
		}) {
			iRead, iMaps = i, -1
		}
		if rs, ok := inner.(*ast.RangeStmt); ok && key(rs.X) == "db.HashMap" && iRead >= 0 && iMaps < 0 {
			iMaps = i
		}
	}
	if iRead < 0 || iMaps < 0 {
		die(fmt.Errorf("NewUnspentDb: reading of the record count %q (%d) followed by the making of the maps (%d) not found", cntVar, iRead, iMaps))
	}
	boundsCount := false
	for i := iRead + 1; i < iLoop; i++ {
		inner, _ := unlabel(top[i])
		if as, ok := inner.(*ast.AssignStmt); ok {
			for _, l := range as.Lhs {
				if ident(l) == cntVar {
					die(fmt.Errorf("NewUnspentDb: the record count %q is changed after it was read", cntVar))
				}
			}
		}
		is, ok := inner.(*ast.IfStmt)
		if !ok || i > iMaps || !mentions(is.Cond, cntVar) {
			continue
		}
		if is.Init == nil && is.Else == nil && sizeVar != "" && exceeds(is.Cond, cntVar, sizeVar) && endsInGoto(is.Body, fatalLabel) {
			boundsCount = true
		} else {
			die(fmt.Errorf("NewUnspentDb: the test `%s` on the record count before the maps are made is not understood (expected `if %s > <file size> { …; goto %s }`)", key(is.Cond), cntVar, fatalLabel))
		}
	}
	lb := func(b bool) string {
		if b {
			return "true"
		}
		return "false"
	}
	var sb strings.Builder
	sb.WriteString("/- GENERATED by go/cmd/gen_c10 from lib/utxo/unspent_db.go (NewUnspentDb) — do not edit; not in git. -/\n")
	sb.WriteString("import GocoinV.Model.UtxoLoad\n")
	sb.WriteString("namespace GocoinV.Gen.UtxoLoaderFacts\n\n")
	fmt.Fprintf(&sb, "/-- `const BUFFERS_CNT = %s`: static pack buffers the reader rotates over -/\ndef buffersCnt : Nat := %d\n", exprs["BUFFERS_CNT"], env["BUFFERS_CNT"])
	fmt.Fprintf(&sb, "/-- `const CHANNEL_SIZE = %s`: capacity of the channel between the reader and the map-filling goroutine -/\ndef channelSize : Nat := %d\n", exprs["CHANNEL_SIZE"], env["CHANNEL_SIZE"])
	fmt.Fprintf(&sb, "/-- `const RECS_PACK_SIZE = %s`: records per pack -/\ndef recsPackSize : Nat := %d\n", exprs["RECS_PACK_SIZE"], env["RECS_PACK_SIZE"])
	sb.WriteString("/-- structural facts checked by the translator: recpool is [BUFFERS_CNT][RECS_PACK_SIZE]; the channel is made with\n    capacity CHANNEL_SIZE; the reader sends a full pack (index in the pack == len-1), rewinds the index and only then turns to\n    buffer (pool_idx+1) % BUFFERS_CNT; exactly one goroutine receives packs and walks each of them before receiving the next -/\ndef ringShapeChecked : Bool := true\n")
	fmt.Fprintf(&sb, "\n/-- the retry (`%s:` … `%s:` … `goto %s`, once, with UTXO.old): what is certainly executed between a failed record loop\n    and the record loop of the next attempt. Variables by role: index in the pack `%s`, buffer number `%s`, pack `%s` of\n    `%s`, size counter `db.%s`. Every attempt makes its channel and derives the pack from the buffer number (checked). -/\n",
		redoLabel, fatalLabel, redoLabel, recIdxName, poolIdxName, recsName, poolName, sizeField)
	fmt.Fprintf(&sb, "def retryShape : GocoinV.UtxoRec.RetryShape :=\n  { buffers := buffersCnt, pack := recsPackSize,\n    rewindRecIdx := %s,   -- `%s = 0`\n    rewindPoolIdx := %s,  -- `%s = 0`\n    resetDataSize := %s,  -- `db.%s.Store(0)`\n    resetTotalTxs := %s,  -- `db.%s.Store(0)`\n    freshMaps := %s,     -- `for i := range db.HashMap { db.HashMap[i] = make(…) }` after the header\n    boundsCount := %s,   -- `if %s > %s { …; goto %s }` after the count is read, before the maps are made (%s = uint64(%s.Size()), %s = %s.Stat())\n    boundsLen := %s }    -- `if %s > %s { …; goto %s }` between ReadVLen and Memory_Malloc\n",
		lb(rewindRec), recIdxName, lb(rewindPool), poolIdxName, lb(resetSize), sizeField, lb(resetCount), countField, lb(freshMaps),
		lb(boundsCount), cntVar, sizeVar, fatalLabel, sizeVar, statVar, statVar, ofVar, lb(boundsLen), lenVar, sizeVar, fatalLabel)
	sb.WriteString("\nend GocoinV.Gen.UtxoLoaderFacts\n")
	out := vlib.Root() + "/lean/GocoinV/Gen/UtxoLoaderFacts.lean"
	os.Remove(out)
	if err := os.WriteFile(out, []byte(sb.String()), 0644); err != nil {
		die(err)
	}
	fmt.Printf("FACTS %d\n", 16+genSharedFacts())
}
