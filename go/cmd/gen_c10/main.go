// gen_c10 regenerates lean/GocoinV/Gen/UtxoLoaderFacts.lean from /repo/lib/utxo/unspent_db.go (translator part of the
// C10 tie): the geometry of the UTXO.db loader in NewUnspentDb — a ring of BUFFERS_CNT static pack buffers, filled by the
// file reader and handed through a channel of capacity CHANNEL_SIZE to ONE goroutine that inserts the records into the
// maps — as constants (evaluated from the source expressions) plus the structural facts the ring model
// (Model/UtxoUndo.lean, `Ring`) was written for. Props.C10.loader_ring_safe is proved about these constants: an edit of
// the expressions that lets the reader lap the consumer breaks the proof even when no run hits the schedule.
package main

import (
	"bytes"
	"fmt"
	"go/ast"
	"go/printer"
	"go/token"
	"os"
	"strings"

	"verif/vlib"
	"verif/vtrans"
)

func die(err error) {
	fmt.Fprintln(os.Stderr, "TRANSLATE-ERROR:", err)
	os.Exit(2)
}

// key renders an expression as source text without blanks
func key(x ast.Node) string {
	var b bytes.Buffer
	if err := printer.Fprint(&b, token.NewFileSet(), x); err != nil {
		return ""
	}
	return strings.Join(strings.Fields(b.String()), "")
}

// eval: integer constant expression over literals and constants already known
func eval(e ast.Expr, env map[string]int64) (int64, error) {
	switch x := e.(type) {
	case *ast.ParenExpr:
		return eval(x.X, env)
	case *ast.Ident:
		if v, ok := env[x.Name]; ok {
			return v, nil
		}
		return 0, fmt.Errorf("constant %s is not known here", x.Name)
	case *ast.BinaryExpr:
		a, err := eval(x.X, env)
		if err != nil {
			return 0, err
		}
		b, err := eval(x.Y, env)
		if err != nil {
			return 0, err
		}
		switch x.Op {
		case token.ADD:
			return a + b, nil
		case token.SUB:
			return a - b, nil
		case token.MUL:
			return a * b, nil
		case token.QUO:
			if b == 0 {
				return 0, fmt.Errorf("division by zero")
			}
			return a / b, nil
		case token.SHL:
			return a << uint(b), nil
		case token.SHR:
			return a >> uint(b), nil
		}
		return 0, fmt.Errorf("operator %s not understood", x.Op)
	default:
		v, err := vtrans.IntLit(e)
		return int64(v), err
	}
}

func main() {
	f, err := vtrans.Parse("lib/utxo/unspent_db.go")
	if err != nil {
		die(err)
	}
	fd, err := f.Func("", "NewUnspentDb")
	if err != nil {
		die(err)
	}
	env := map[string]int64{}
	exprs := map[string]string{}
	var recpoolDims []string
	chanCap := ""
	rotation := ""
	sendThenRotate := false
	consumers := 0
	consumerWalksPack := false
	ast.Inspect(fd.Body, func(n ast.Node) bool {
		switch x := n.(type) {
		case *ast.GenDecl:
			for _, s := range x.Specs {
				vs, ok := s.(*ast.ValueSpec)
				if !ok {
					continue
				}
				if x.Tok == token.CONST {
					for i, nm := range vs.Names {
						if i < len(vs.Values) {
							if v, e := eval(vs.Values[i], env); e == nil {
								env[nm.Name] = v
								exprs[nm.Name] = key(vs.Values[i])
							}
						}
					}
				}
				if x.Tok == token.VAR && len(vs.Names) == 1 && vs.Names[0].Name == "recpool" {
					t := vs.Type
					for {
						at, ok := t.(*ast.ArrayType)
						if !ok || at.Len == nil {
							break
						}
						recpoolDims = append(recpoolDims, key(at.Len))
						t = at.Elt
					}
				}
			}
		case *ast.AssignStmt:
			if len(x.Lhs) == 1 && len(x.Rhs) == 1 {
				l := key(x.Lhs[0])
				if l == "ch" {
					if c, ok := x.Rhs[0].(*ast.CallExpr); ok && key(c.Fun) == "make" && len(c.Args) == 2 {
						if _, isChan := c.Args[0].(*ast.ChanType); isChan {
							chanCap = key(c.Args[1])
						}
					}
				}
				if l == "pool_idx" {
					rotation = key(x.Rhs[0])
				}
			}
		case *ast.IfStmt:
			// `if rec_idx == len(recs)-1 { ch <- recs; rec_idx = 0; pool_idx = (pool_idx+1) % BUFFERS_CNT; recs = recpool[pool_idx][:] }`
			sent := false
			for _, st := range x.Body.List {
				if s, ok := st.(*ast.SendStmt); ok && key(s.Chan) == "ch" && key(s.Value) == "recs" {
					sent = true
				}
				if as, ok := st.(*ast.AssignStmt); ok && len(as.Lhs) == 1 && key(as.Lhs[0]) == "pool_idx" && sent {
					sendThenRotate = true
				}
			}
		case *ast.GoStmt:
			// the consumer: a goroutine whose body receives from ch and ranges over what it received
			fl, ok := x.Call.Fun.(*ast.FuncLit)
			if !ok {
				return true
			}
			receives, walks := false, false
			ast.Inspect(fl.Body, func(m ast.Node) bool {
				if u, ok := m.(*ast.UnaryExpr); ok && u.Op == token.ARROW && key(u.X) == "ch" {
					receives = true
				}
				if rs, ok := m.(*ast.RangeStmt); ok && key(rs.X) == "recs" {
					walks = true
				}
				return true
			})
			if receives {
				consumers++
				consumerWalksPack = walks
			}
		}
		return true
	})
	for _, c := range []string{"BUFFERS_CNT", "CHANNEL_SIZE", "RECS_PACK_SIZE"} {
		if _, ok := env[c]; !ok {
			die(fmt.Errorf("NewUnspentDb: constant %s not found (or its expression is not understood)", c))
		}
	}
	if len(recpoolDims) != 2 || recpoolDims[0] != "BUFFERS_CNT" || recpoolDims[1] != "RECS_PACK_SIZE" {
		die(fmt.Errorf("NewUnspentDb: `var recpool [BUFFERS_CNT][RECS_PACK_SIZE]one_rec` not found (dims %v)", recpoolDims))
	}
	if chanCap != "CHANNEL_SIZE" {
		die(fmt.Errorf("NewUnspentDb: `ch = make(chan []one_rec, CHANNEL_SIZE)` not found (capacity %q)", chanCap))
	}
	if strings.ReplaceAll(rotation, " ", "") != "(pool_idx+1)%BUFFERS_CNT" {
		die(fmt.Errorf("NewUnspentDb: buffer rotation is %q, not (pool_idx+1)%%BUFFERS_CNT", rotation))
	}
	if !sendThenRotate {
		die(fmt.Errorf("NewUnspentDb: the reader does not `ch <- recs` before turning to the next buffer"))
	}
	if consumers != 1 || !consumerWalksPack {
		die(fmt.Errorf("NewUnspentDb: expected exactly one goroutine that receives a pack from ch and ranges over it (found %d)", consumers))
	}
	if env["BUFFERS_CNT"] <= 0 || env["CHANNEL_SIZE"] < 0 || env["RECS_PACK_SIZE"] <= 0 {
		die(fmt.Errorf("NewUnspentDb: non-positive loader geometry %v", env))
	}
	var sb strings.Builder
	sb.WriteString("/- GENERATED by go/cmd/gen_c10 from lib/utxo/unspent_db.go (NewUnspentDb) — do not edit; not in git. -/\n")
	sb.WriteString("namespace GocoinV.Gen.UtxoLoaderFacts\n\n")
	fmt.Fprintf(&sb, "/-- `const BUFFERS_CNT = %s`: static pack buffers the reader rotates over -/\ndef buffersCnt : Nat := %d\n", exprs["BUFFERS_CNT"], env["BUFFERS_CNT"])
	fmt.Fprintf(&sb, "/-- `const CHANNEL_SIZE = %s`: capacity of the channel between the reader and the map-filling goroutine -/\ndef channelSize : Nat := %d\n", exprs["CHANNEL_SIZE"], env["CHANNEL_SIZE"])
	fmt.Fprintf(&sb, "/-- `const RECS_PACK_SIZE = %s`: records per pack -/\ndef recsPackSize : Nat := %d\n", exprs["RECS_PACK_SIZE"], env["RECS_PACK_SIZE"])
	sb.WriteString("/-- structural facts checked by the translator: recpool is [BUFFERS_CNT][RECS_PACK_SIZE]; the channel is made with\n    capacity CHANNEL_SIZE; the reader sends a full pack and only then turns to buffer (pool_idx+1) % BUFFERS_CNT; exactly one\n    goroutine receives packs and walks each of them before receiving the next -/\ndef ringShapeChecked : Bool := true\n")
	sb.WriteString("\nend GocoinV.Gen.UtxoLoaderFacts\n")
	out := vlib.Root() + "/lean/GocoinV/Gen/UtxoLoaderFacts.lean"
	os.Remove(out)
	if err := os.WriteFile(out, []byte(sb.String()), 0644); err != nil {
		die(err)
	}
	fmt.Println("FACTS 7")
}
