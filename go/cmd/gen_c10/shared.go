package main

// shared.go — second generated module, lean/GocoinV/Gen/UtxoSharedFacts.lean: the source facts behind Model/UtxoShared.lean
// (state a record shares with something else on its way). Everything is found by ROLE, names are reported only.
//   poolClear      lib/utxo/unspent_rec.go: the callbacks NewUtxoRecStatic passes to the decoder; in their OutsList, which
//                  slots of the shared pointer slice are set to nil before it is handed out (all cnt of the returned slice /
//                  only a prefix bounded by the cursor OneOut advances)
//   readShape      lib/btc/funcs.go ReadVLen: the two reads from its reader, io.ReadFull or a plain Read;
//                  lib/utxo/unspent_db.go NewUnspentDb: how the record loop reads the record
//   undoOwnsScript lib/chain/chain_accept.go commitTxs: the PKScr of the entry stored into UndoData[...].Outs[...] is freshly
//                  allocated and filled (make + copy, append to an empty slice, bytes.Clone / slices.Clone), not the slice
//                  UnspentGet returned

import (
	"fmt"
	"go/ast"
	"go/token"
	"os"
	"strings"

	"verif/vlib"
	"verif/vtrans"
)

func isNil(e ast.Expr) bool { return ident(e) == "nil" }

// sliceTo: e is `X[:hi]` / `X[0:hi]` → (X, hi)
func sliceTo(e ast.Expr) (string, string, bool) {
	sl, ok := e.(*ast.SliceExpr)
	if !ok || sl.High == nil || sl.Slice3 || (sl.Low != nil && !isZero(sl.Low)) {
		return "", "", false
	}
	return key(sl.X), key(sl.High), true
}

// ---------------------------------------------------------------- pool

func poolFacts() (overReturned, overCursor bool, note string) {
	f, err := vtrans.Parse("lib/utxo/unspent_rec.go")
	if err != nil {
		die(err)
	}
	fd, err := f.Func("", "NewUtxoRecStatic")
	if err != nil {
		die(err)
	}
	cbs := ""
	ast.Inspect(fd.Body, func(n ast.Node) bool {
		if c, ok := n.(*ast.CallExpr); ok && len(c.Args) == 3 {
			if u, ok := c.Args[2].(*ast.UnaryExpr); ok && u.Op == token.AND && ident(u.X) != "" {
				cbs = ident(u.X)
			}
		}
		return true
	})
	if cbs == "" {
		die(fmt.Errorf("NewUtxoRecStatic: the call that passes the allocation callbacks (third argument &<var>) was not found"))
	}
	init, err := f.ValueSpec(cbs)
	if err != nil {
		die(err)
	}
	cl, ok := init.(*ast.CompositeLit)
	if !ok {
		die(fmt.Errorf("%s is not initialised with a composite literal", cbs))
	}
	var outsList, oneOut *ast.FuncLit
	for _, el := range cl.Elts {
		kv, ok := el.(*ast.KeyValueExpr)
		if !ok {
			continue
		}
		fl, ok := kv.Value.(*ast.FuncLit)
		if !ok {
			continue
		}
		switch {
		case fl.Type.Params != nil && len(fl.Type.Params.List) == 1:
			outsList = fl
		case fl.Type.Params == nil || len(fl.Type.Params.List) == 0:
			oneOut = fl
		}
	}
	if outsList == nil || oneOut == nil || len(outsList.Type.Params.List[0].Names) != 1 {
		die(fmt.Errorf("%s: the two callbacks (one taking the output count, one without parameters) were not found", cbs))
	}
	cnt := outsList.Type.Params.List[0].Names[0].Name
	// the cursor: the variable OneOut increments
	cursor := ""
	ast.Inspect(oneOut.Body, func(n ast.Node) bool {
		if s, ok := n.(*ast.IncDecStmt); ok && s.Tok == token.INC && ident(s.X) != "" {
			cursor = ident(s.X)
		}
		return true
	})
	// the pool slice and the variable holding what is returned: `res = S[:cnt]` or `return S[:cnt]`
	pool, res := "", ""
	ast.Inspect(outsList.Body, func(n ast.Node) bool {
		switch x := n.(type) {
		case *ast.AssignStmt:
			if len(x.Lhs) == 1 && len(x.Rhs) == 1 && ident(x.Lhs[0]) != "" {
				if s, hi, ok := sliceTo(x.Rhs[0]); ok && hi == cnt {
					pool, res = s, ident(x.Lhs[0])
				}
			}
		case *ast.ReturnStmt:
			if len(x.Results) == 1 {
				if s, hi, ok := sliceTo(x.Results[0]); ok && hi == cnt {
					pool = s
				}
			}
		}
		return true
	})
	if pool == "" {
		die(fmt.Errorf("%s.OutsList: no `<pool>[:%s]` is returned", cbs, cnt))
	}
	// clearing statements, with the place they stand in
	type clr struct {
		over string // "returned" | "cursor" | other text
	}
	var found []clr
	classify := func(rangeOver ast.Expr, bound ast.Expr) string {
		if rangeOver != nil {
			if res != "" && ident(rangeOver) == res {
				return "returned"
			}
			if s, hi, ok := sliceTo(rangeOver); ok && s == pool {
				if hi == cnt {
					return "returned"
				}
				if hi == cursor && cursor != "" {
					return "cursor"
				}
				return "prefix " + hi
			}
			return key(rangeOver)
		}
		if bound != nil {
			b := key(bound)
			if b == cnt || (res != "" && b == "len("+res+")") {
				return "returned"
			}
			if b == cursor && cursor != "" {
				return "cursor"
			}
			return "bound " + b
		}
		return "?"
	}
	setsNil := func(body *ast.BlockStmt) bool {
		return has(body, func(n ast.Node) bool {
			as, ok := n.(*ast.AssignStmt)
			if !ok || len(as.Lhs) != 1 || len(as.Rhs) != 1 || !isNil(as.Rhs[0]) {
				return false
			}
			ix, ok := as.Lhs[0].(*ast.IndexExpr)
			return ok && (key(ix.X) == pool || (res != "" && key(ix.X) == res))
		})
	}
	// the body of a clearing loop must be the one statement `<slice>[<loop index>] = nil` (no break, no condition), the
	// loop must start at 0 and step by one, and a loop over the returned variable must stand after its assignment
	singleNil := func(body *ast.BlockStmt, idx string) bool {
		if len(body.List) != 1 || idx == "" {
			return false
		}
		as, ok := body.List[0].(*ast.AssignStmt)
		if !ok || as.Tok != token.ASSIGN || len(as.Lhs) != 1 || len(as.Rhs) != 1 || !isNil(as.Rhs[0]) {
			return false
		}
		ix, ok := as.Lhs[0].(*ast.IndexExpr)
		return ok && ident(ix.Index) == idx
	}
	usesRes := func(n ast.Node) bool {
		return res != "" && has(n, func(m ast.Node) bool { id, ok := m.(*ast.Ident); return ok && id.Name == res })
	}
	resSet := false
	var scan func(list []ast.Stmt, where string)
	scan = func(list []ast.Stmt, where string) {
		for _, st := range list {
			switch x := st.(type) {
			case *ast.AssignStmt:
				if len(x.Lhs) == 1 && len(x.Rhs) == 1 && res != "" && ident(x.Lhs[0]) == res {
					if s, hi, ok := sliceTo(x.Rhs[0]); ok && s == pool && hi == cnt {
						resSet = true
					}
				}
			case *ast.RangeStmt:
				if setsNil(x.Body) {
					if where != "" {
						die(fmt.Errorf("%s.OutsList: the slots are cleared only %s — not understood", cbs, where))
					}
					if !singleNil(x.Body, ident(x.Key)) {
						die(fmt.Errorf("%s.OutsList: the body of the clearing loop is not the single statement `<slice>[%s] = nil` — not understood", cbs, ident(x.Key)))
					}
					if usesRes(x) && !resSet {
						die(fmt.Errorf("%s.OutsList: the clearing loop over `%s` stands before `%s = %s[:%s]` — not understood", cbs, res, res, pool, cnt))
					}
					found = append(found, clr{classify(x.X, nil)})
				}
			case *ast.ForStmt:
				if setsNil(x.Body) {
					if where != "" {
						die(fmt.Errorf("%s.OutsList: the slots are cleared only %s — not understood", cbs, where))
					}
					idx := ""
					if in, ok := x.Init.(*ast.AssignStmt); ok && len(in.Lhs) == 1 && len(in.Rhs) == 1 && isZeroLit(in.Rhs[0]) {
						idx = ident(in.Lhs[0])
					}
					post, okp := x.Post.(*ast.IncDecStmt)
					be, okc := x.Cond.(*ast.BinaryExpr)
					if idx == "" || !okp || post.Tok != token.INC || ident(post.X) != idx || !okc || be.Op != token.LSS || ident(be.X) != idx || !singleNil(x.Body, idx) {
						die(fmt.Errorf("%s.OutsList: a clearing loop that is not `for i := 0; i < <bound>; i++ { <slice>[i] = nil }` — not understood", cbs))
					}
					if usesRes(x) && !resSet {
						die(fmt.Errorf("%s.OutsList: the clearing loop over `%s` stands before `%s = %s[:%s]` — not understood", cbs, res, res, pool, cnt))
					}
					var bound ast.Expr
					if be, ok := x.Cond.(*ast.BinaryExpr); ok && be.Op == token.LSS {
						bound = be.Y
					}
					found = append(found, clr{classify(nil, bound)})
				}
			case *ast.ExprStmt:
				if c, ok := x.X.(*ast.CallExpr); ok && key(c.Fun) == "clear" && len(c.Args) == 1 {
					if where != "" {
						die(fmt.Errorf("%s.OutsList: the slots are cleared only %s — not understood", cbs, where))
					}
					found = append(found, clr{classify(c.Args[0], nil)})
				}
			case *ast.IfStmt:
				// `if len(pool) < cnt { pool = make(…) }`: the then-branch hands out a new, all-nil slice; what the
				// else-branch clears counts as unconditional
				remake := key(x.Cond) == "len("+pool+")<"+cnt && has(x.Body, func(n ast.Node) bool {
					as, ok := n.(*ast.AssignStmt)
					if !ok || len(as.Lhs) != 1 || len(as.Rhs) != 1 || key(as.Lhs[0]) != pool {
						return false
					}
					c, ok := as.Rhs[0].(*ast.CallExpr)
					return ok && key(c.Fun) == "make"
				})
				if remake {
					if eb, ok := x.Else.(*ast.BlockStmt); ok {
						scan(eb.List, where)
					}
				} else {
					scan(x.Body.List, "under `if "+key(x.Cond)+"`")
					if eb, ok := x.Else.(*ast.BlockStmt); ok {
						scan(eb.List, "under `else` of `if "+key(x.Cond)+"`")
					}
				}
			}
		}
	}
	scan(outsList.Body.List, "")
	for _, c := range found {
		switch c.over {
		case "returned":
			overReturned = true
		case "cursor":
			overCursor = true
		default:
			die(fmt.Errorf("%s.OutsList: a clearing loop over `%s` is not understood (pool %s, count %s, cursor %s)", cbs, c.over, pool, cnt, cursor))
		}
	}
	note = fmt.Sprintf("callbacks `%s`, pool slice `%s`, count parameter `%s`, cursor `%s`, %d clearing statement(s)", cbs, pool, cnt, cursor, len(found))
	return
}

// ---------------------------------------------------------------- reads

// readCalls lists, in source order, the reads from reader `rd` below n: true = io.ReadFull / io.ReadAtLeast(rd, x, len(x)),
// false = rd.Read(x)
func readCalls(n ast.Node, rd string) (kinds []bool, args []string) {
	ast.Inspect(n, func(m ast.Node) bool {
		c, ok := m.(*ast.CallExpr)
		if !ok {
			return true
		}
		switch key(c.Fun) {
		case "io.ReadFull":
			if len(c.Args) == 2 && key(c.Args[0]) == rd {
				kinds, args = append(kinds, true), append(args, key(c.Args[1]))
			}
		case "io.ReadAtLeast":
			if len(c.Args) == 3 && key(c.Args[0]) == rd {
				kinds, args = append(kinds, key(c.Args[2]) == "len("+key(c.Args[1])+")"), append(args, key(c.Args[1]))
			}
		case rd + ".Read":
			if len(c.Args) == 1 {
				kinds, args = append(kinds, false), append(args, key(c.Args[0]))
			}
		}
		return true
	})
	return
}

func readFacts() (marker, length, record bool, note string) {
	f, err := vtrans.Parse("lib/btc/funcs.go")
	if err != nil {
		die(err)
	}
	fd, err := f.Func("", "ReadVLen")
	if err != nil {
		die(err)
	}
	if fd.Type.Params == nil || len(fd.Type.Params.List) != 1 || len(fd.Type.Params.List[0].Names) != 1 {
		die(fmt.Errorf("ReadVLen: expected one parameter (the reader)"))
	}
	rd := fd.Type.Params.List[0].Names[0].Name
	kinds, args := readCalls(fd.Body, rd)
	if len(kinds) != 2 {
		die(fmt.Errorf("ReadVLen: expected two reads from `%s` (marker, length bytes), found %d (%v)", rd, len(kinds), args))
	}
	marker, length = kinds[0], kinds[1]
	// the record loop of NewUnspentDb: the reader ReadVLen gets, and the other read from it inside the loop
	g, err := vtrans.Parse("lib/utxo/unspent_db.go")
	if err != nil {
		die(err)
	}
	gd, err := g.Func("", "NewUnspentDb")
	if err != nil {
		die(err)
	}
	var loop *ast.ForStmt
	lrd := ""
	for _, st := range gd.Body.List {
		inner, _ := unlabel(st)
		fs, ok := inner.(*ast.ForStmt)
		if !ok || loop != nil {
			continue
		}
		ast.Inspect(fs.Body, func(n ast.Node) bool {
			if c, ok := n.(*ast.CallExpr); ok && len(c.Args) == 1 {
				if s, ok := c.Fun.(*ast.SelectorExpr); ok && s.Sel.Name == "ReadVLen" {
					loop, lrd = fs, key(c.Args[0])
				}
			}
			return true
		})
	}
	if loop == nil {
		die(fmt.Errorf("NewUnspentDb: the record loop (calling ReadVLen) was not found"))
	}
	lk, la := readCalls(loop.Body, lrd)
	if len(lk) != 1 {
		die(fmt.Errorf("NewUnspentDb: expected one read of the record from `%s` in the record loop, found %d (%v)", lrd, len(lk), la))
	}
	record = lk[0]
	note = fmt.Sprintf("ReadVLen reads `%s` then `%s` from `%s`; the record loop reads `%s` from `%s`", args[0], args[1], rd, la[0], lrd)
	return
}

// ---------------------------------------------------------------- undo entry

func undoFacts() (owns bool, note string) {
	f, err := vtrans.Parse("lib/chain/chain_accept.go")
	if err != nil {
		die(err)
	}
	fd, err := f.Func("Chain", "commitTxs")
	if err != nil {
		die(err)
	}
	// the block guarded by `<changes>.UndoData != nil` that stores into `<x>.Outs[…]`
	var blk *ast.BlockStmt
	ast.Inspect(fd.Body, func(n ast.Node) bool {
		is, ok := n.(*ast.IfStmt)
		if !ok || blk != nil {
			return true
		}
		be, ok := is.Cond.(*ast.BinaryExpr)
		if ok && be.Op == token.NEQ && isNil(be.Y) && strings.HasSuffix(key(be.X), ".UndoData") {
			blk = is.Body
		}
		return true
	})
	if blk == nil {
		die(fmt.Errorf("commitTxs: the block under `if <changes>.UndoData != nil` was not found"))
	}
	var stored ast.Expr
	ast.Inspect(blk, func(n ast.Node) bool {
		as, ok := n.(*ast.AssignStmt)
		if !ok || len(as.Lhs) != 1 || len(as.Rhs) != 1 {
			return true
		}
		if ix, ok := as.Lhs[0].(*ast.IndexExpr); ok {
			if s, ok := ix.X.(*ast.SelectorExpr); ok && s.Sel.Name == "Outs" {
				stored = as.Rhs[0]
			}
		}
		return true
	})
	if stored == nil {
		die(fmt.Errorf("commitTxs: no `<undo record>.Outs[<vout>] = …` under the UndoData test"))
	}
	// fresh: the expression allocates new memory and fills it from src
	freshExpr := func(e ast.Expr) bool {
		c, ok := e.(*ast.CallExpr)
		if !ok {
			return false
		}
		switch key(c.Fun) {
		case "bytes.Clone", "slices.Clone":
			return len(c.Args) == 1
		case "append":
			if len(c.Args) == 2 && c.Ellipsis != token.NoPos {
				a := key(c.Args[0])
				return a == "[]byte(nil)" || a == "[]byte{}" || a == "make([]byte,0)"
			}
		}
		return false
	}
	isMake := func(e ast.Expr) bool {
		c, ok := e.(*ast.CallExpr)
		return ok && key(c.Fun) == "make"
	}
	judge := func(field ast.Expr, holder string) (bool, string) {
		// field: what PKScr is set to; holder: "<var>.PKScr" text when it was assigned as a statement
		if freshExpr(field) {
			return true, key(field)
		}
		if isMake(field) && holder != "" {
			// needs `copy(<holder>, src)` in the block
			copied := has(blk, func(n ast.Node) bool {
				c, ok := n.(*ast.CallExpr)
				return ok && key(c.Fun) == "copy" && len(c.Args) == 2 && key(c.Args[0]) == holder
			})
			if copied {
				return true, "make + copy"
			}
			die(fmt.Errorf("commitTxs: `%s = make(…)` is never filled with copy(%s, …)", holder, holder))
		}
		switch field.(type) {
		case *ast.SelectorExpr, *ast.Ident, *ast.SliceExpr:
			return false, key(field) // the slice UnspentGet / the block handed out
		}
		die(fmt.Errorf("commitTxs: the script of the undo entry is `%s` — not understood", key(field)))
		return false, ""
	}
	// form 1: `&pkg.UtxoTxOut{…, PKScr: E}` (or without &)
	lit := stored
	if u, ok := lit.(*ast.UnaryExpr); ok && u.Op == token.AND {
		lit = u.X
	}
	if cl, ok := lit.(*ast.CompositeLit); ok {
		for _, el := range cl.Elts {
			if kv, ok := el.(*ast.KeyValueExpr); ok && ident(kv.Key) == "PKScr" {
				owns, how := judge(kv.Value, "")
				return owns, "composite literal, PKScr: " + how
			}
		}
		die(fmt.Errorf("commitTxs: the undo entry `%s` sets no PKScr", key(stored)))
	}
	// form 2: a variable whose .PKScr is assigned in the block
	v := ident(stored)
	if v == "" {
		die(fmt.Errorf("commitTxs: the undo entry `%s` is not understood", key(stored)))
	}
	var field ast.Expr
	ast.Inspect(blk, func(n ast.Node) bool {
		as, ok := n.(*ast.AssignStmt)
		if ok && len(as.Lhs) == 1 && len(as.Rhs) == 1 && key(as.Lhs[0]) == v+".PKScr" {
			field = as.Rhs[0]
		}
		return true
	})
	if field == nil {
		die(fmt.Errorf("commitTxs: `%s.PKScr` is never assigned", v))
	}
	owns, how := judge(field, v+".PKScr")
	return owns, "`" + v + ".PKScr` = " + how
}

func genSharedFacts() int {
	lb := func(b bool) string {
		if b {
			return "true"
		}
		return "false"
	}
	or, oc, pnote := poolFacts()
	mf, lf, rf, rnote := readFacts()
	owns, unote := undoFacts()
	var sb strings.Builder
	sb.WriteString("/- GENERATED by go/cmd/gen_c10 from lib/utxo/unspent_rec.go, lib/btc/funcs.go, lib/utxo/unspent_db.go, lib/chain/chain_accept.go — do not edit; not in git. -/\n")
	sb.WriteString("import GocoinV.Model.UtxoShared\n")
	sb.WriteString("namespace GocoinV.Gen.UtxoSharedFacts\n\n")
	fmt.Fprintf(&sb, "/-- the callbacks of `NewUtxoRecStatic`: which slots `OutsList` sets to nil (%s) -/\n", pnote)
	fmt.Fprintf(&sb, "def poolClear : GocoinV.UtxoRec.PoolClear :=\n  { overReturned := %s,  -- every slot of the slice that is returned\n    overCursor := %s }   -- a prefix bounded by the cursor `OneOut` advances\n\n", lb(or), lb(oc))
	fmt.Fprintf(&sb, "/-- %s -/\n", rnote)
	fmt.Fprintf(&sb, "def readShape : GocoinV.UtxoRec.ReadShape :=\n  { markerFull := %s, lengthFull := %s, recordFull := %s }\n\n", lb(mf), lb(lf), lb(rf))
	fmt.Fprintf(&sb, "/-- `commitTxs`: the script of the entry stored into `UndoData[…].Outs[…]` is memory of its own (%s) -/\n", unote)
	fmt.Fprintf(&sb, "def undoOwnsScript : Bool := %s\n", lb(owns))
	sb.WriteString("\nend GocoinV.Gen.UtxoSharedFacts\n")
	out := vlib.Root() + "/lean/GocoinV/Gen/UtxoSharedFacts.lean"
	os.Remove(out)
	if err := os.WriteFile(out, []byte(sb.String()), 0644); err != nil {
		die(err)
	}
	return 6
}

func isZeroLit(e ast.Expr) bool {
	b, ok := e.(*ast.BasicLit)
	return ok && b.Kind == token.INT && b.Value == "0"
}
