// gen_c13 — translator step of the C13 check. The C13 model imports Model.Addr / Model.Bech32 / Model.Base58 (C15),
// whose constants live in the regenerated files Gen/Bech32Consts.lean and Gen/Base58Consts.lean. Those files are
// rewritten by gen_c15 only when somebody runs the C15 check — possibly against another source tree (VERIF_REPO).
// To make the C13 run self-contained, this step re-runs the C15 translator against the tree that is being
// checked now, so that the address model the wallet model uses is the one of the CURRENT source (an edit to
// lib/others/bech32/bech32.go or the base58 alphabet changes the definitions C13's theorems are checked against).
//
// Since the second audit it ALSO extracts structural facts of the wallet's own spending path (facts.go ->
// Gen/WalletFacts.lean): guards of make_signed_tx / parse_spend / WritePutLen as Lean functions, the per-template
// look-ups of pkscr_to_key_idx / sign_tx, the construction of the SegWit slice. `FACTS n` = C15's address constants
// (re-generated here) + the wallet facts.
package main

import (
	"fmt"
	"os"
	"os/exec"
	"regexp"
	"strconv"
)

func main() {
	cmd := exec.Command("go", "run", "-tags", "verif", "./cmd/gen_c15")
	cmd.Env = append(os.Environ(), "GOFLAGS=-mod=mod", "GOPROXY=off", "GOSUMDB=off", "GOTOOLCHAIN=local")
	out, err := cmd.CombinedOutput()
	re := regexp.MustCompile(`FACTS (\d+)\n?`)
	n15 := 0
	if m := re.FindSubmatch(out); m != nil {
		n15, _ = strconv.Atoi(string(m[1]))
	}
	fmt.Print(string(re.ReplaceAll(out, nil)))
	if err != nil {
		fmt.Println("gen_c13: gen_c15 failed:", err)
		os.Exit(2)
	}
	n := walletFacts()
	fmt.Printf("gen_c13: %d address constants/facts (gen_c15) + %d wallet facts\n", n15, n)
	fmt.Printf("FACTS %d\n", n15+n)
}
