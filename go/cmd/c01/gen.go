package main

// Generated streams: helper functions compared directly, the per-opcode sweep and grammar-generated scripts
// through evalScript (verif hook), grammar-generated spends with real signatures through VerifyTxScript,
// and byte-level mutations of them.

import (
	"bytes"
	"crypto/sha1"
	"crypto/sha256"
	"fmt"
	"strconv"
	"strings"

	"github.com/piotrnar/gocoin/lib/btc"
	"github.com/piotrnar/gocoin/lib/others/ripemd160"
	"github.com/piotrnar/gocoin/lib/script"
	"verif/vlib"
)

var edgeItems = [][]byte{{}, {0}, {1}, {2}, {16}, {17}, {0x7f}, {0x80}, {0x81}, {0xff}, {0, 0x80}, {0x80, 0}, {0xff, 0x7f}, {0xff, 0x80}, {0, 1}, {1, 0},
	{0xff, 0xff, 0xff, 0x7f}, {0xff, 0xff, 0xff, 0xff}, {0, 0, 0, 0x80}, {0, 0, 0, 0}, {1, 0, 0, 0, 0}, {0, 0, 0, 0, 1}, {0, 0, 0, 0x80, 0}, {0xff, 0xff, 0xff, 0xff, 0x7f},
	{0, 0, 0, 0, 0, 1}, {3}, {4}, {5}, {0x14}, {0x15}, {200, 0}, {201, 0}}

func randItem(g *vlib.Rng) []byte {
	switch g.Intn(10) {
	case 0, 1, 2, 3, 4, 5:
		return edgeItems[g.Intn(len(edgeItems))]
	case 6:
		return g.Bytes(g.Intn(7))
	case 7:
		return g.Bytes(g.Pick(20, 32, 33, 64, 65, 71, 72, 73))
	case 8:
		return scriptNum(int64(g.Intn(40)) - 10)
	}
	return g.Bytes(g.Pick(75, 76, 77, 255, 256, 519, 520, 521))
}

func randPush(g *vlib.Rng, it []byte) []byte {
	switch g.Intn(8) {
	case 0:
		if len(it) <= 75 {
			return pushForm(it, 0) // direct, possibly non-minimal for small numbers
		}
	case 1:
		if len(it) <= 255 {
			return pushForm(it, 1)
		}
	case 2:
		return pushForm(it, g.Pick(2, 4))
	}
	return pushData(it)
}

var plainOps = []byte{0x4f, 0x51, 0x52, 0x60, 0x61, 0x69, 0x6a, 0x6b, 0x6c, 0x6d, 0x6e, 0x6f, 0x70, 0x71, 0x72, 0x73, 0x74, 0x75, 0x76, 0x77, 0x78, 0x79, 0x7a,
	0x7b, 0x7c, 0x7d, 0x82, 0x87, 0x88, 0x8b, 0x8c, 0x8f, 0x90, 0x91, 0x92, 0x93, 0x94, 0x9a, 0x9b, 0x9c, 0x9d, 0x9e, 0x9f, 0xa0, 0xa1, 0xa2, 0xa3, 0xa4, 0xa5,
	0xa6, 0xa7, 0xa8, 0xa9, 0xaa, 0xab, 0xb0, 0xb1, 0xb2, 0xb3, 0xb9}

func randScript(g *vlib.Rng, n, depth int) []byte {
	var s []byte
	for i := 0; i < n; i++ {
		switch x := g.Intn(100); {
		case x < 38:
			s = append(s, randPush(g, randItem(g))...)
		case x < 75:
			s = append(s, plainOps[g.Intn(len(plainOps))])
		case x < 80:
			s = append(s, byte(g.Intn(256)))
		case x < 90 && depth < 3:
			s = append(s, randPush(g, edgeItems[g.Intn(6)])...)
			s = append(s, byte(0x63+g.Intn(2)))
			s = append(s, randScript(g, g.Intn(4), depth+1)...)
			if g.Bool() {
				s = append(s, 0x67)
				s = append(s, randScript(g, g.Intn(3), depth+1)...)
			}
			if g.Intn(10) != 0 {
				s = append(s, 0x68)
			}
		case x < 93:
			s = append(s, byte(0x63+g.Intn(6))) // stray IF NOTIF VERIF VERNOTIF ELSE ENDIF
		case x < 97:
			// a signature-checking opcode with plausible operands
			k := g.Bytes(g.Pick(0, 32, 33, 33, 65))
			if len(k) == 33 {
				k[0] = byte(2 + g.Intn(2))
			}
			sg := g.Bytes(g.Pick(0, 1, 2, 9, 64, 65, 71))
			s = append(s, pushData(sg)...)
			if g.Intn(3) == 0 {
				s = append(s, pushNum(int64(g.Intn(3)))...)
			}
			s = append(s, pushData(k)...)
			s = append(s, byte(g.Pick(0xac, 0xad, 0xba, 0xac)))
		case x < 99:
			// CHECKMULTISIG with small counts
			nk := g.Intn(4)
			ns := g.Intn(nk + 1)
			s = append(s, 0)
			for j := 0; j < ns; j++ {
				s = append(s, pushData(g.Bytes(g.Pick(0, 1, 9, 71)))...)
			}
			s = append(s, pushNum(int64(ns))...)
			for j := 0; j < nk; j++ {
				s = append(s, pushData(append([]byte{2}, g.Bytes(32)...))...)
			}
			s = append(s, pushNum(int64(nk))...)
			s = append(s, byte(0xae+g.Intn(2)))
		default:
			// truncated push
			s = append(s, byte(g.Pick(0x05, 0x4c, 0x4d, 0x4e)), byte(g.Intn(4)))
		}
	}
	return s
}

func randFlags(g *vlib.Rng) uint32 {
	var f uint32
	switch g.Intn(6) {
	case 0:
		f = flagSets[g.Intn(len(flagSets))]
	case 1:
		f = uint32(g.U64()) & (1<<21 - 1) & uint32(g.U64())
	default:
		f = uint32(g.U64()) & (1<<21 - 1)
	}
	if g.Intn(12) != 0 { // repair into the FlagsOk lattice (mostly)
		if f&script.VER_CLEANSTACK != 0 {
			f |= script.VER_P2SH | script.VER_WITNESS
		}
		if f&script.VER_TAPROOT != 0 {
			f |= script.VER_WITNESS
		}
		if f&script.VER_WITNESS != 0 {
			f |= script.VER_P2SH
		}
	}
	return f
}

// safeStr evaluates f (calls into real gocoin code); a panic is the observation "panic".
func safeStr(site string, f func() string) (res string) {
	if !guard(site, func() { res = f() }) {
		res = "panic"
	}
	return
}

func helperStreams() {
	g := r.Rng.Fork()
	cmp := func(kind, req, want string, parts ...int) {
		rep := o.MustAsk(req)
		r.Eval("helper:"+kind, req)
		f := strings.Fields(rep)
		got := rep
		if len(parts) > 0 {
			sel := []string{}
			for _, p := range parts {
				if p < len(f) {
					sel = append(sel, f[p])
				}
			}
			got = strings.Join(sel, " ")
		}
		if got == want {
			r.TieOK()
		} else {
			r.TieFail("helper:"+kind, fmt.Sprintf("%s: oracle %q, implementation %q", req, rep, want), map[string]string{"request": req, "oracle": rep, "impl": want})
		}
	}
	// scriptnum helpers
	items := append([][]byte{}, edgeItems...)
	for i := 0; i < r.N(400, 20000); i++ {
		items = append(items, g.Bytes(g.Intn(7)))
	}
	for _, it := range items {
		v, p := script.VerifBts2Int(it)
		vs := fmt.Sprint(v)
		if p {
			vs = "panic"
		}
		want := fmt.Sprintf("%s %s %s", vs, safeStr("is_minimal", func() string { return b01(script.VerifIsMinimal(it)) }),
			safeStr("bts2bool", func() string { return b01(script.VerifBts2Bool(it)) }))
		cmp("num", "num "+vlib.Hex(it), want, 0, 1, 2)
		// the spec's decoder / minimality rule / CastToBool against the implementation
		if !p {
			cmp("num-spec", "num "+vlib.Hex(it), want, 3, 4, 5)
		}
		for _, fm := range []bool{false, true} {
			v5, p5 := script.VerifBts2IntExt(it, 5, fm)
			if !p5 && len(it) <= 5 {
				cmp("num5-spec", "num "+vlib.Hex(it), fmt.Sprint(v5), 3)
			}
		}
	}
	vals := []int64{0, 1, -1, 16, 17, 127, 128, -127, -128, 255, 256, -255, -256, 32767, 32768, -32768, 65535, 65536, 8388607, 8388608, -8388608,
		2147483647, 2147483648, -2147483647, -2147483648, 4294967295, 4294967296, -4294967296, 1 << 39, -(1 << 39), 1<<40 - 1}
	for i := 0; i < r.N(300, 20000); i++ {
		vals = append(vals, int64(g.U64()>>uint(24+g.Intn(40)))*int64(1-2*g.Intn(2)))
	}
	for _, v := range vals {
		h := safeStr("pushInt", func() string { return vlib.Hex(script.VerifPushInt(v)) })
		cmp("pushint", "pushint "+strconv.FormatInt(v, 10), h+" "+h)
	}
	// GetOpcode / parse
	for i := 0; i < r.N(600, 30000); i++ {
		b := g.Bytes(1 + g.Intn(8))
		if g.Bool() {
			b[0] = byte(g.Pick(0, 1, 2, 0x4b, 0x4c, 0x4d, 0x4e, 0x4f, 0x50, 0x51))
		}
		if g.Intn(4) == 0 && len(b) > 1 {
			b[1] = byte(g.Intn(5))
		}
		if b[0] == 0x4e && len(b) >= 5 {
			b[3], b[4] = 0, 0
		}
		want := safeStr("GetOpcode", func() string {
			op, ret, n, e := btc.GetOpcode(b)
			if e != nil {
				return "err | serr"
			}
			rs := "none"
			data := "-"
			if ret != nil {
				rs = vlib.Hex(ret)
				data = vlib.Hex(ret)
			}
			return fmt.Sprintf("%d %s %d | %d %s %d", op, rs, n, op, data, len(b)-n)
		})
		cmp("getop", "getop "+vlib.Hex(b), want)
	}
	// delSig against the model; the spec's FindAndDelete is compared where the two are specified to coincide
	for i := 0; i < r.N(400, 20000); i++ {
		sg := g.Bytes(g.Pick(0, 1, 2, 9, 71, 72, 75, 76, 80, 0x4b, 0x4c, 0xff, 0x100, 0x1ff, 0x200, 519, 520))
		var w []byte
		for j := 0; j < 1+g.Intn(6); j++ {
			switch g.Intn(4) {
			case 0:
				w = append(w, pushData(sg)...)
			case 1:
				w = append(w, sg...)
			case 2:
				w = append(w, randPush(g, randItem(g))...)
			default:
				w = append(w, plainOps[g.Intn(len(plainOps))])
			}
		}
		if g.Intn(6) == 0 {
			w = append(w, 0x4c)
		}
		delsigOne(w, sg, "")
	}
	// … and at every edge of the push-opcode ranges (sizes.go), with the result the rule demands
	delsigBoundaries(vlib.NewRng(0xC01D5))
	// signature / key encodings
	k := newKey(g)
	for i := 0; i < r.N(500, 20000); i++ {
		sg := derSig(k.Priv, g.Bytes(32), byte(g.Pick(1, 2, 3, 0x81, 0, 4, 0x80)))
		switch g.Intn(6) {
		case 0:
			sg = flipS(sg)
		case 1:
			sg[g.Intn(len(sg))] ^= byte(1 << uint(g.Intn(8)))
		case 2:
			sg = padDER(sg, 1+g.Intn(3))
		case 3:
			sg = g.Bytes(g.Intn(80))
		case 4:
			sg = sg[:g.Intn(len(sg))]
		}
		fl := randFlags(g)
		want := safeStr("CheckSignatureEncoding", func() string { return b01(script.CheckSignatureEncoding(sg, fl)) })
		cmp("sigenc", fmt.Sprintf("sigenc %d %s", fl, vlib.Hex(sg)), want, 0)
		rep := strings.Fields(o.MustAsk(fmt.Sprintf("sigenc %d %s", fl, vlib.Hex(sg))))
		if len(rep) == 2 && (rep[1] == "OK") != (want == "1") {
			r.TieFail("helper:sigenc-spec", "CheckSignatureEncoding differs from the reference rule", map[string]string{"sig": vlib.Hex(sg), "flags": fmt.Sprint(fl), "spec": rep[1], "impl": want})
		}
		pk := append([]byte(nil), k.Pub...)
		switch g.Intn(6) {
		case 0:
			pk = k.PubU
		case 1:
			pk[0] = byte(g.Intn(8))
		case 2:
			pk = g.Bytes(g.Pick(0, 1, 32, 33, 34, 64, 65, 66))
		case 3:
			pk = append([]byte{byte(4 + g.Intn(4))}, g.Bytes(64)...)
		}
		sv := g.Pick(0, 1, 3)
		want = safeStr("CheckPubKeyEncoding", func() string { return b01(script.CheckPubKeyEncoding(pk, fl, sv)) })
		req := fmt.Sprintf("pkenc %d %d %s", fl, sv, vlib.Hex(pk))
		cmp("pkenc", req, want, 0)
		rep = strings.Fields(o.MustAsk(req))
		if len(rep) == 2 && (rep[1] == "OK") != (want == "1") {
			r.TieFail("helper:pkenc-spec", "CheckPubKeyEncoding differs from the reference rule", map[string]string{"request": req, "spec": rep[1], "impl": want})
		}
		d := randItem(g)
		opc := g.Pick(0, len(d), 0x4c, 0x4d, 0x4e, 0x4f, 0x51, 0x50+int(append(d, 0)[0]))
		w := safeStr("checkMinimalPush", func() string { return b01(script.VerifCheckMinimalPush(d, opc)) })
		cmp("minpush", fmt.Sprintf("minpush %s %d", vlib.Hex(d), opc), w+" "+w)
	}
	// the Lean hash functions against Go's
	for i := 0; i < r.N(60, 2000); i++ {
		b := g.Bytes(g.Pick(0, 1, 55, 56, 63, 64, 65, 119, 120, 200, 521))
		h1 := sha1.Sum(b)
		cmp("sha1", "sha1 "+vlib.Hex(b), vlib.Hex(h1[:]))
		h2 := sha256.Sum256(b)
		cmp("sha256", "sha256 "+vlib.Hex(b), vlib.Hex(h2[:]))
		cmp("ripemd160", "ripemd160 "+vlib.Hex(b), safeStr("ripemd160", func() string {
			rm := ripemd160.New()
			rm.Write(b)
			return vlib.Hex(rm.Sum(nil))
		}))
	}
}

func hexbs(items [][]byte) []HexB {
	out := make([]HexB, len(items))
	for i := range items {
		out[i] = HexB(items[i])
	}
	return out
}

type tmpl func(g *vlib.Rng, fl uint32) *Case

// pickHT: the hash-type byte of an ECDSA signature (legacy and witness v0). Every one of the 256 values is
// meaningful to consensus (without STRICTENC): the low five bits select NONE (2) / SINGLE (3) / otherwise ALL,
// bit 7 is ANYONECANPAY, the whole byte goes into the message. Two draws in three come from `defined` (what wallets
// produce), one in three is any byte, structured so that each field — the two low bits, bits 2..4, bits 5..6,
// bit 7 — varies on its own.
func pickHT(g *vlib.Rng, defined ...int) byte {
	if g.Intn(3) != 0 {
		return byte(g.Pick(defined...))
	}
	ht := byte(g.Intn(4))
	if g.Intn(3) != 0 {
		ht |= byte(g.Intn(8)) << 2
	}
	if g.Intn(4) == 0 {
		ht |= byte(1+g.Intn(3)) << 5
	}
	if g.Intn(3) == 0 {
		ht |= 0x80
	}
	return ht
}

// pickTapHT: the hash-type byte of a Schnorr signature; one draw in six is outside BIP341's seven defined values
// (0 is never appended to the signature, so here it just means "64-byte signature").
func pickTapHT(g *vlib.Rng, defined ...int) byte {
	if g.Intn(6) != 0 {
		return byte(g.Pick(defined...))
	}
	return byte(g.Intn(256))
}

// randShape turns the one-input one-output transaction of base1 into one with 1..4 inputs and 0..3 outputs, the input
// under test at a random position (so SIGHASH_SINGLE meets both a matching output and none), random sequences,
// amounts, version and lock time: everything a signature message commits to (or, depending on the hash type, must
// NOT commit to) takes more than one value.
func randShape(g *vlib.Rng, c *Case) {
	nIns := g.Pick(1, 1, 2, 3, 4)
	nOuts := g.Pick(1, 1, 2, 3, 0)
	idx := g.Intn(nIns)
	own, ownSpent := c.Ins[0], c.Spent[0]
	c.Ins, c.Spent = nil, nil
	for i := 0; i < nIns; i++ {
		if i == idx {
			c.Ins, c.Spent = append(c.Ins, own), append(c.Spent, ownSpent)
			continue
		}
		c.Ins = append(c.Ins, In{PrevHash: g.Bytes(32), Vout: uint32(g.Intn(5)), Sequence: uint32(g.Pick(0, 5, 0x00400005, 0xfffffffe, 0xffffffff))})
		var spk []byte
		switch g.Intn(3) {
		case 0:
			spk = p2wpkh(g.Bytes(33))
		case 1:
			spk = witprog(1, g.Bytes(32))
		default:
			spk = randScript(g, 1+g.Intn(4), 0)
		}
		c.Spent = append(c.Spent, Out{Value: uint64(g.Intn(1e7)), Script: spk})
	}
	c.Idx = idx
	c.Outs = c.Outs[:0]
	for i := 0; i < nOuts; i++ {
		c.Outs = append(c.Outs, Out{Value: uint64(g.Intn(1e6)), Script: HexB(randScript(g, 1+g.Intn(3), 0))})
	}
	c.Version = pickVersion(g) // whole 32-bit range (ctxwords.go): the digests commit to it, CSV reads it
	if g.Intn(3) == 0 {
		c.LockTime = pickLockTime(g)
	}
	if g.Intn(3) == 0 {
		c.Ins[idx].Sequence = pickSequence(g)
	}
}

func templates() []tmpl {
	return []tmpl{
		func(g *vlib.Rng, fl uint32) *Case {
			k := newKey(g)
			pub := k.Pub
			if g.Intn(3) == 0 {
				pub = k.PubU
			}
			c := base1("gen-p2pkh", p2pkh(pub), 5000+uint64(g.Intn(1e6)), fl)
			ht := pickHT(g, 1, 1, 1, 2, 3, 0x81, 0x82, 0x83)
			c.setSig(cat(pushData(signLegacy(c, p2pkh(pub), k, ht)), pushData(pub)))
			return c
		},
		func(g *vlib.Rng, fl uint32) *Case {
			k := newKey(g)
			c := base1("gen-p2pk", p2pk(k.Pub), 5000, fl)
			c.setSig(pushData(signLegacy(c, p2pk(k.Pub), k, pickHT(g, 1))))
			return c
		},
		func(g *vlib.Rng, fl uint32) *Case {
			n := 1 + g.Intn(5)
			m := 1 + g.Intn(n)
			keys := make([]*Key, n)
			pubs := make([][]byte, n)
			for i := range keys {
				keys[i] = newKey(g)
				pubs[i] = keys[i].Pub
			}
			ms := multisigScript(m, pubs)
			wrap := g.Intn(3)
			var c *Case
			switch wrap {
			case 0:
				c = base1("gen-multisig", ms, 7000, fl)
			case 1:
				c = base1("gen-p2sh-multisig", p2sh(ms), 7000, fl)
			default:
				c = base1("gen-p2wsh-multisig", p2wsh(ms), 7000, fl)
			}
			start := g.Intn(n - m + 1)
			var sigs [][]byte
			for i := start; i < start+m; i++ {
				ht := pickHT(g, 1, 1, 1, 2, 3, 0x81) // every signer of a multisig chooses a hash type of his own
				if wrap == 2 {
					sigs = append(sigs, signWitV0(c, ms, keys[i], ht))
				} else {
					sigs = append(sigs, signLegacy(c, ms, keys[i], ht))
				}
			}
			if wrap == 2 {
				c.setWit(append(append([][]byte{{}}, sigs...), ms)...)
			} else {
				s := []byte{0}
				for _, sg := range sigs {
					s = append(s, pushData(sg)...)
				}
				if wrap == 1 {
					s = append(s, pushData(ms)...)
				}
				c.setSig(s)
			}
			return c
		},
		func(g *vlib.Rng, fl uint32) *Case {
			k := newKey(g)
			if g.Bool() {
				c := base1("gen-p2wpkh", p2wpkh(k.Pub), 6000, fl)
				c.setWit(signWitV0(c, p2pkh(k.Pub), k, pickHT(g, 1, 1, 2, 3, 0x81, 0x82, 0x83)), k.Pub)
				return c
			}
			c := base1("gen-p2sh-p2wpkh", p2sh(p2wpkh(k.Pub)), 6000, fl)
			c.setWit(signWitV0(c, p2pkh(k.Pub), k, pickHT(g, 1, 1, 2, 3, 0x81, 0x82, 0x83)), k.Pub)
			c.setSig(pushData(p2wpkh(k.Pub)))
			return c
		},
		func(g *vlib.Rng, fl uint32) *Case {
			tk := newTapKey(g)
			if g.Bool() {
				qx, _, tw := tapOutput(tk.X, nil)
				c := base1("gen-p2tr-key", witprog(1, qx), 6000, fl)
				var annex []byte
				if g.Intn(4) == 0 {
					annex = cat([]byte{0x50}, g.Bytes(g.Intn(5)))
				}
				sg := signTap(c, g, tapTweakPriv(tk.Priv, tw), annex, nil, 0, pickTapHT(g, 0, 0, 1, 2, 3, 0x81, 0x82, 0x83), false)
				if annex != nil {
					c.setWit(sg, annex)
				} else {
					c.setWit(sg)
				}
				return c
			}
			lk := newTapKey(g)
			scr := cat(pushData(lk.X), []byte{0xac})
			if g.Intn(3) == 0 {
				scr = cat([]byte{0x00}, pushData(lk.X), []byte{0xba, 0x51, 0x87})
			}
			lh := tapLeaf(0xc0, scr)
			root := lh
			var path []byte
			for d := g.Intn(3); d > 0; d-- {
				sib := g.Bytes(32)
				path = append(path, sib...)
				root = tapBranch(root, sib)
			}
			qx, par, _ := tapOutput(tk.X, root)
			c0 := byte(0xc0)
			if par {
				c0 |= 1
			}
			c := base1("gen-p2tr-script", witprog(1, qx), 6000, fl)
			c.setWit(signTap(c, g, lk.Priv, nil, lh, 0xffffffff, pickTapHT(g, 0, 1, 2, 3, 0x81, 0x82, 0x83), true), scr, cat([]byte{c0}, tk.X, path))
			return c
		},
		func(g *vlib.Rng, fl uint32) *Case {
			// SEVERAL signature checks in one script with OP_CODESEPARATORs (executed, and inside a branch that is not taken)
			// between them: every signature commits to the script code that starts after the last EXECUTED separator in
			// front of ITS check (tapscript: to that separator's opcode position). One signature in four is made with the
			// script code of another check instead (invalid wherever the two script codes differ).
			wrap := g.Intn(4) // bare, P2SH, P2WSH, tapscript
			tap := wrap == 3
			if wrap < 2 && g.Intn(4) != 0 {
				fl &^= script.VER_CONST_SCRIPTCODE // (policy) rejects OP_CODESEPARATOR in non-segwit scripts outright
			}
			nchk := 2 + g.Intn(3)
			type chk struct {
				keys  []*Key
				tkeys []*TapKey
				multi bool
				m     int // signatures; keys first .. first+m-1 sign
				first int
				start int    // byte offset of the script code of this check
				pos   uint32 // opcode position of the last executed separator in front of it
			}
			var chks []chk
			var scr []byte
			start, pos, nop := 0, uint32(0xffffffff), uint32(0)
			for i := 0; i < nchk; i++ {
				last := i == nchk-1
				if g.Intn(5) == 0 {
					scr = append(scr, 0x00, 0x63, 0xab, 0x68) // 0 IF CODESEPARATOR ENDIF
					nop += 4
				}
				if g.Intn(5) < 3 {
					scr = append(scr, 0xab)
					pos, start = nop, len(scr)
					nop++
				}
				k := chk{m: 1, start: start, pos: pos}
				n := 0 // 0: CHECKSIG(VERIFY)
				if !tap && g.Intn(5) < 3 {
					k.multi = true
					n = 1 + g.Intn(3)
					k.m = 1 + g.Intn(n)
					k.first = g.Intn(n - k.m + 1)
				}
				for j := 0; j < n || j == 0; j++ {
					if tap {
						k.tkeys = append(k.tkeys, newTapKey(g))
					} else {
						k.keys = append(k.keys, newKey(g))
					}
				}
				switch {
				case tap:
					scr = append(scr, pushData(k.tkeys[0].X)...)
					nop++
				case n == 0:
					scr = append(scr, pushData(k.keys[0].Pub)...)
					nop++
				default:
					scr = append(scr, pushNum(int64(k.m))...)
					for _, key := range k.keys {
						scr = append(scr, pushData(key.Pub)...)
					}
					scr = append(scr, pushNum(int64(n))...)
					nop += uint32(n) + 2
				}
				op := byte(0xac) // CHECKSIG
				if n > 0 {
					op = 0xae
				}
				if !last {
					op++ // …VERIFY
				}
				scr = append(scr, op)
				nop++
				chks = append(chks, k)
			}
			var c *Case
			var lh []byte
			var ctl []byte
			switch wrap {
			case 0:
				c = base1("gen-multicheck-bare", scr, 8000, fl)
			case 1:
				c = base1("gen-multicheck-p2sh", p2sh(scr), 8000, fl)
			case 2:
				c = base1("gen-multicheck-p2wsh", p2wsh(scr), 8000, fl)
			default:
				tk := newTapKey(g)
				lh = tapLeaf(0xc0, scr)
				qx, par, _ := tapOutput(tk.X, lh)
				c0 := byte(0xc0)
				if par {
					c0 |= 1
				}
				ctl = cat([]byte{c0}, tk.X)
				c = base1("gen-multicheck-tapscript", witprog(1, qx), 8000, fl)
			}
			ht := pickHT(g, 1, 1, 1, 2, 3, 0x81, 0x83)
			same := g.Bool()
			wrong := -1
			if g.Intn(4) == 0 {
				wrong = g.Intn(nchk)
			}
			items := make([][][]byte, nchk) // per check, bottom first
			for i, k := range chks {
				from := k
				if i == wrong {
					from = chks[(i+1+g.Intn(nchk-1))%nchk]
					c.Kind += ":other-check's-script-code"
				}
				if !same {
					ht = pickHT(g, 1, 1, 2, 3, 0x81, 0x82, 0x83)
				}
				if tap {
					h := ht
					if h&0x7c != 0 && g.Intn(6) != 0 {
						h &= 0x83 // mostly one of BIP341's defined values
					}
					if g.Intn(4) == 0 {
						h = 0
					}
					items[i] = [][]byte{signTap(c, g, k.tkeys[0].Priv, nil, lh, from.pos, h, true)}
					continue
				}
				if k.multi {
					items[i] = append(items[i], []byte{}) // the extra element OP_CHECKMULTISIG pops
				}
				for j := k.first; j < k.first+k.m; j++ {
					if wrap == 2 {
						items[i] = append(items[i], signWitV0(c, scr[from.start:], k.keys[j], ht))
					} else {
						items[i] = append(items[i], signLegacy(c, scr[from.start:], k.keys[j], ht))
					}
				}
			}
			var st [][]byte
			for i := nchk - 1; i >= 0; i-- {
				st = append(st, items[i]...)
			}
			switch wrap {
			case 0, 1:
				var sg []byte
				for _, it := range st {
					sg = append(sg, pushData(it)...)
				}
				if wrap == 1 {
					sg = append(sg, pushData(scr)...)
				}
				c.setSig(sg)
			case 2:
				c.setWit(append(st, scr)...)
			default:
				c.setWit(append(st, scr, ctl)...)
			}
			return c
		},
		func(g *vlib.Rng, fl uint32) *Case {
			// free-form: random pushes in scriptSig, random script in scriptPubKey (ending in OP_1 half of the time)
			var sig []byte
			for i := g.Intn(5); i > 0; i-- {
				sig = append(sig, randPush(g, randItem(g))...)
			}
			pk := randScript(g, 1+g.Intn(10), 0)
			if g.Bool() {
				pk = append(pk, 0x51)
			}
			kind := "gen-free"
			switch g.Intn(5) {
			case 0:
				sig = append(sig, pushData(pk)...)
				pk = p2sh(pk)
				kind = "gen-free-p2sh"
			case 1:
				c := base1("gen-free-p2wsh", p2wsh(pk), 5000, fl)
				w := [][]byte{}
				for i := g.Intn(4); i > 0; i-- {
					w = append(w, randItem(g))
				}
				c.setWit(append(w, pk)...)
				return c
			case 2:
				tk := newTapKey(g)
				lh := tapLeaf(0xc0, pk)
				qx, par, _ := tapOutput(tk.X, lh)
				c0 := byte(0xc0)
				if par {
					c0 |= 1
				}
				c := base1("gen-free-tapscript", witprog(1, qx), 5000, fl)
				w := [][]byte{}
				for i := g.Intn(4); i > 0; i-- {
					w = append(w, randItem(g))
				}
				c.setWit(append(w, pk, cat([]byte{c0}, tk.X))...)
				return c
			}
			c := base1(kind, pk, 5000, fl)
			c.setSig(sig)
			c.LockTime = uint32(g.Pick(0, 100, 500000000))
			c.Ins[c.Idx].Sequence = uint32(g.Pick(0, 5, 0xfffffffe, 0xffffffff, 0x00400005))
			return c
		},
	}
}

func mutate(g *vlib.Rng, c *Case) {
	in := &c.Ins[c.Idx]
	flip := func(b []byte) []byte {
		if len(b) == 0 {
			return []byte{byte(g.Intn(256))}
		}
		nb := append([]byte(nil), b...)
		switch g.Intn(4) {
		case 0:
			nb[g.Intn(len(nb))] ^= byte(1 << uint(g.Intn(8)))
		case 1:
			nb[g.Intn(len(nb))] = byte(g.Intn(256))
		case 2:
			i := g.Intn(len(nb))
			nb = append(nb[:i], nb[i+1:]...)
		default:
			i := g.Intn(len(nb) + 1)
			nb = append(nb[:i], append([]byte{byte(g.Intn(256))}, nb[i:]...)...)
		}
		return nb
	}
	switch g.Intn(13) {
	case 9, 10, 11, 12:
		// the transaction AROUND the input: something a signature commits to under some hash types and not under
		// others (another input's sequence / outpoint / spent output, an output, the output list, the version)
		c.Kind += ":txctx"
		other := g.Intn(len(c.Ins))
		switch g.Intn(8) {
		case 0:
			c.Ins[other].Sequence ^= uint32(1 << uint(g.Intn(32)))
		case 1:
			c.Ins[other].Vout ^= uint32(1 << uint(g.Intn(3)))
		case 2:
			c.Ins[other].PrevHash = flip(append(make([]byte, 0, 32), c.Ins[other].PrevHash...))
			for len(c.Ins[other].PrevHash) < 32 {
				c.Ins[other].PrevHash = append(c.Ins[other].PrevHash, 0)
			}
			c.Ins[other].PrevHash = c.Ins[other].PrevHash[:32]
		case 3:
			if other < len(c.Spent) && other != c.Idx {
				if g.Bool() {
					c.Spent[other].Value++
				} else {
					c.Spent[other].Script = flip(c.Spent[other].Script)
				}
			}
		case 4:
			if len(c.Outs) > 0 {
				c.Outs[g.Intn(len(c.Outs))].Value++
			}
		case 5:
			if len(c.Outs) > 0 {
				j := g.Intn(len(c.Outs))
				c.Outs[j].Script = flip(c.Outs[j].Script)
			}
		case 6:
			if len(c.Outs) > 0 && g.Bool() {
				c.Outs = c.Outs[:len(c.Outs)-1]
			} else {
				c.Outs = append(c.Outs, Out{Value: uint64(g.Intn(1000)), Script: HexB{0x51}})
			}
		default:
			c.Version ^= uint32(1 << uint(g.Intn(32)))
		}
	case 0:
		in.SigScript = flip(in.SigScript)
	case 1:
		c.Spent[c.Idx].Script = flip(c.Spent[c.Idx].Script)
	case 2, 3:
		if len(in.Witness) > 0 {
			i := g.Intn(len(in.Witness))
			in.Witness[i] = flip(in.Witness[i])
		} else {
			in.Witness = []HexB{g.Bytes(g.Intn(3))}
		}
	case 4:
		if len(in.Witness) > 0 {
			i := g.Intn(len(in.Witness))
			if g.Bool() {
				in.Witness = append(in.Witness[:i], in.Witness[i+1:]...)
			} else {
				in.Witness = append(in.Witness[:i+1], in.Witness[i:]...)
			}
		}
	case 5:
		c.Spent[c.Idx].Value++
	case 6:
		in.Sequence ^= uint32(1 << uint(g.Intn(32)))
	case 7:
		c.LockTime = uint32(g.U64())
	default:
		c.Flags = randFlags(g)
	}
	c.Kind += ":mut"
}

// ---------------------------------------------------------------- tapscript validation-weight budget (BIP342)
//
// budget = 50 + serialized size of the COMPLETE input witness (CompactSize(count) + Σ CompactSize(len)+len, the
// tapscript, the control block and the annex included); every executed CHECKSIG / CHECKSIGVERIFY / CHECKSIGADD with a
// NON-EMPTY signature costs 50; the script fails when the budget drops below 0. The cases below put the budget at an
// exact distance (Delta) from 50·k by tuning one length (NOPs in the script, a dropped padding item, the annex).

const (
	tuneNops = iota
	tunePad
	tuneAnnex
	tuneNone
)

var tuneNames = []string{"nops", "pad", "annex", "asis"}

// tapFlags: the flag sets of the taproot corpus (also drawn from by the budget generator).
var tapFlags = []uint32{consensusFlags, script.STANDARD_VERIFY_FLAGS, stdFlags, consensusFlags &^ script.VER_TAPROOT,
	consensusFlags | script.VER_DIS_TAPVER | script.VER_DIS_SUCCESS | script.VER_DIS_PUBKEYTYPE}

type budgetSpec struct {
	Checks  string // one letter per executed check. A/a: real 32-byte key through CHECKSIGVERIFY / CHECKSIGADD, U/u: unknown (33-byte, 0x01…) key type, e: CHECKSIGADD with an EMPTY signature (costs nothing)
	Pick    bool   // false: `<key> (2DUP CHECKSIGVERIFY)×(k-1) CHECKSIG` (Checks all A or all U); true: signatures and keys stay on the stack and are fetched with PICK
	Depth   int    // merkle path length (control block = 33+32·Depth bytes)
	Annex   int    // annex length including the 0x50 tag; 0 = no annex
	Tune    int
	Delta   int // wanted: budget − 50·k, k = number of checks with a non-empty signature
	Ht      byte
	SigULen int // length of the (never verified) signature handed to the unknown key type, ≥ 1
	Flags   uint32
}

func csLen(n int) int { return len(compactSize(n)) }

// witnessSer: the serialized size of a witness stack whose items have the given lengths (negative = item absent).
func witnessSer(lens ...int) int {
	cnt, sz := 0, 0
	for _, l := range lens {
		if l >= 0 {
			cnt++
			sz += csLen(l) + l
		}
	}
	return csLen(cnt) + sz
}

// budgetCase builds the spend; it returns the case, k, and the delta actually reached (== sp.Delta unless the
// target is out of reach for this shape, in which case the untuned spend is returned).
func budgetCase(g *vlib.Rng, tk, kA *TapKey, sp budgetSpec) (*Case, int, int) {
	kU := append([]byte{1}, kA.X...)
	k := 0
	hasU := false
	for _, ch := range sp.Checks {
		if ch != 'e' {
			k++
		}
		if ch == 'U' || ch == 'u' {
			hasU = true
		}
	}
	sigALen := 64
	if sp.Ht != 0 {
		sigALen = 65
	}
	if sp.SigULen < 1 {
		sp.SigULen = 1
	}
	mkScript := func(nops int, pad bool) []byte {
		var s []byte
		if pad {
			s = append(s, 0x75) // DROP the padding item
		}
		s = append(s, rep(0x61, nops)...)
		if !sp.Pick {
			key := kA.X
			if hasU {
				key = kU
			}
			s = append(s, pushData(key)...)
			for i := 1; i < len(sp.Checks); i++ {
				s = append(s, 0x6e, 0xad) // 2DUP CHECKSIGVERIFY
			}
			return append(s, 0xac)
		}
		s = append(s, pushData(kU)...)
		s = append(s, pushData(kA.X)...) // stack: sigU sigA kU kA
		for _, ch := range sp.Checks {
			switch ch {
			case 'A':
				s = append(s, 0x52, 0x79, 0x78, 0xad) // 2 PICK(sigA) OVER(kA) CHECKSIGVERIFY
			case 'U':
				s = append(s, 0x53, 0x79, 0x52, 0x79, 0xad) // 3 PICK(sigU) 2 PICK(kU) CHECKSIGVERIFY
			case 'a':
				s = append(s, 0x52, 0x79, 0x00, 0x52, 0x79, 0xba, 0x69) // 2 PICK(sigA) 0 2 PICK(kA) CHECKSIGADD VERIFY
			case 'u':
				s = append(s, 0x53, 0x79, 0x00, 0x53, 0x79, 0xba, 0x69) // 3 PICK(sigU) 0 3 PICK(kU) CHECKSIGADD VERIFY
			case 'e':
				s = append(s, 0x00, 0x00, 0x52, 0x79, 0xba, 0x75) // <empty sig> 0 2 PICK(kA) CHECKSIGADD DROP
			}
		}
		return append(s, 0x6d, 0x6d, 0x51) // 2DROP 2DROP 1
	}
	ctlLen := 33 + 32*sp.Depth
	ser := func(nops, padLen, annexLen int) int {
		sl := len(mkScript(0, padLen >= 0)) + nops
		if annexLen == 0 {
			annexLen = -1
		}
		if sp.Pick {
			return witnessSer(sp.SigULen, sigALen, padLen, sl, ctlLen, annexLen)
		}
		if hasU {
			return witnessSer(sp.SigULen, padLen, sl, ctlLen, annexLen)
		}
		return witnessSer(sigALen, padLen, sl, ctlLen, annexLen)
	}
	target := 50*k + sp.Delta - 50
	nops, padLen, annexLen, hit := 0, -1, sp.Annex, false
	if sp.Tune != tuneNone {
		switch sp.Tune {
		case tuneNops:
			for n := 0; n <= 8000 && ser(n, -1, sp.Annex) <= target; n++ {
				if ser(n, -1, sp.Annex) == target {
					nops, hit = n, true
				}
			}
		case tunePad:
			for p := 0; p <= 520 && ser(0, p, sp.Annex) <= target; p++ {
				if ser(0, p, sp.Annex) == target {
					padLen, hit = p, true
				}
			}
		case tuneAnnex:
			for a := 1; a <= 8000 && ser(0, -1, a) <= target; a++ {
				if ser(0, -1, a) == target {
					annexLen, hit = a, true
				}
			}
		}
		// the chosen length alone cannot reach the target (CompactSize jumps at 253, the 520-byte element limit, or the
		// untuned witness is already too big): a few NOPs plus a padding item reach every value from the minimum upwards
		for n := 0; n <= 3 && !hit; n++ {
			for p := 0; p <= 520 && ser(n, p, sp.Annex) <= target; p++ {
				if ser(n, p, sp.Annex) == target {
					nops, padLen, annexLen, hit = n, p, sp.Annex, true
				}
			}
		}
		for n := 0; n <= 8000 && !hit && ser(n, 520, sp.Annex) <= target; n++ {
			if ser(n, 520, sp.Annex) == target {
				nops, padLen, annexLen, hit = n, 520, sp.Annex, true
			}
		}
	}
	scr := mkScript(nops, padLen >= 0)
	lh := tapLeaf(0xc0, scr)
	root := lh
	var path []byte
	for d := 0; d < sp.Depth; d++ {
		sib := g.Bytes(32)
		path = append(path, sib...)
		root = tapBranch(root, sib)
	}
	qx, par, _ := tapOutput(tk.X, root)
	c0 := byte(0xc0)
	if par {
		c0 |= 1
	}
	var annex []byte
	if annexLen > 0 {
		annex = cat([]byte{0x50}, g.Bytes(annexLen-1))
	}
	form := "dup"
	if sp.Pick {
		form = "pick"
	}
	c := base1("", witprog(1, qx), 9000, sp.Flags)
	var w [][]byte
	if sp.Pick || hasU {
		w = append(w, rep(0x01, sp.SigULen))
	}
	if sp.Pick || !hasU {
		w = append(w, signTap(c, g, kA.Priv, annex, lh, 0xffffffff, sp.Ht, true))
	}
	if padLen >= 0 {
		w = append(w, rep(9, padLen))
	}
	w = append(w, scr, cat([]byte{c0}, tk.X, path))
	if annex != nil {
		w = append(w, annex)
	}
	c.setWit(w...)
	wl := make([]int, len(w))
	for i := range w {
		wl[i] = len(w[i])
	}
	delta := 50 + witnessSer(wl...) - 50*k
	c.Kind = fmt.Sprintf("tapscript:budget-%s-%s-d%d-%s-delta%+d", form, sp.Checks, sp.Depth, tuneNames[sp.Tune], delta)
	c.Note = fmt.Sprintf("BIP342 budget: 50 + witness size %d = %d against %d checks with a non-empty signature (nops %d, pad %d, annex %d, script %d bytes)",
		witnessSer(wl...), 50+witnessSer(wl...), k, nops, padLen, annexLen, len(scr))
	// the verdict the rules give, from the arithmetic above (the reference semantics must agree with it)
	full := uint32(script.VER_P2SH | script.VER_WITNESS | script.VER_TAPROOT)
	switch {
	case sp.Flags == consensusFlags&^script.VER_TAPROOT:
		c.Expect = "OK" // taproot not active: any witness v1 spend passes
	case sp.Flags&full == full:
		c.Expect = "OK"
		if delta < 0 || (hasU && sp.Flags&script.VER_DIS_PUBKEYTYPE != 0) {
			c.Expect = "ERR"
		}
	}
	return c, k, delta
}

func deltaClass(d int) string {
	switch {
	case d < -1:
		return "short"
	case d > 1:
		return "slack"
	}
	return fmt.Sprintf("%+d", d)
}

// budgetStream: seeded random budget spends.
func budgetStream(g *vlib.Rng, n int) {
	tk, kA := newTapKey(g), newTapKey(g)
	for i := 0; i < n; i++ {
		sp := budgetSpec{Depth: g.Intn(6), Tune: g.Pick(tuneNops, tuneNops, tunePad, tuneAnnex), Ht: byte(g.Pick(0, 0, 0, 1, 0x81, 0x83)),
			SigULen: g.Pick(1, 1, 1, 2, 64, 65), Flags: tapFlags[g.Pick(0, 0, 0, 1, 2, 2, 3, 4)]}
		switch g.Intn(10) {
		case 0, 1, 2, 3:
			sp.Delta = 0
		case 4, 5:
			sp.Delta = -1
		case 6:
			sp.Delta = 1
		case 7:
			sp.Delta = 2 + g.Intn(300)
		case 8:
			sp.Delta = -2 - g.Intn(60)
		default:
			sp.Tune = tuneNone
		}
		if g.Intn(10) < 4 && sp.Tune != tuneAnnex {
			sp.Annex = 1 + g.Intn(40)
			if g.Intn(8) == 0 {
				sp.Annex = g.Pick(252, 253, 254, 521, 600)
			}
		}
		k := 1 + g.Intn(10)
		switch g.Intn(3) {
		case 0:
			sp.Checks = strings.Repeat("A", k)
		case 1:
			sp.Checks = strings.Repeat("U", k)
		default:
			sp.Pick = true
			letters := "AAUUaaue"
			if g.Intn(3) == 0 {
				letters = "Aae" // real signatures only
			}
			b := make([]byte, k)
			for j := range b {
				b[j] = letters[g.Intn(len(letters))]
			}
			sp.Checks = string(b)
		}
		var c *Case
		var delta int
		for try := 0; ; try++ {
			// every attempt draws from its own fork, so the main stream advances by exactly one value per attempt
			gg := vlib.NewRng(g.U64())
			c, _, delta = budgetCase(gg, tk, kA, sp)
			if sp.Tune == tuneNone || delta == sp.Delta || try >= 12 {
				break
			}
			// the untuned witness is already above the target: one more check lowers budget − 50·k
			sp.Checks += sp.Checks[len(sp.Checks)-1:]
		}
		r.Hit("budget:delta-" + deltaClass(delta))
		runCase(c)
	}
}

func generated() {
	g := r.Rng.Fork()
	// ---- per-opcode sweep through evalScript: every opcode byte × stack depth × sigversion × flags
	depths := []int{0, 1, 2, 3, 4, 6, 7}
	rounds := r.N(5, 120)
	for round := 0; round < rounds; round++ {
		for op := 0; op < 256; op++ {
			d := depths[g.Intn(len(depths))]
			e := &EvalCase{Kind: fmt.Sprintf("sweep:op-%02x", op), Flags: randFlags(g), SV: g.Pick(0, 0, 1, 3), Version: pickVersion(g),
				LockTime: pickLockTime(g), Sequence: pickSequence(g),
				Weight: int64(g.Pick(0, 49, 50, 1000))}
			s := []byte{byte(op)}
			if op <= 0x4e {
				s = append(s, g.Bytes(g.Intn(op%80+3))...)
				if g.Bool() {
					s = append(s[:1], append([]byte{byte(g.Intn(3)), 0, 0, 0}, s[1:]...)...)
				}
			}
			if g.Intn(3) == 0 {
				s = append(s, byte(g.Pick(0x51, 0x61, 0x75, 0x87)))
			}
			if g.Intn(5) == 0 { // inside an unexecuted branch
				s = cat([]byte{0x00, 0x63}, s, []byte{0x68})
			}
			e.Script = s
			st := make([][]byte, d)
			for i := range st {
				st[i] = randItem(g)
			}
			// numeric operand shapes for the ops that read counts / indexes
			if d > 0 && g.Bool() {
				st[d-1] = scriptNum(int64(g.Intn(d+2)) - 1)
			}
			e.Stack = hexbs(st)
			e.Leaf = g.Bytes(32)
			runEval(e)
		}
	}
	// ---- grammar-generated scripts through evalScript
	for i := 0; i < r.N(4000, 200000); i++ {
		e := &EvalCase{Kind: "grammar-eval", Flags: randFlags(g), SV: g.Pick(0, 0, 1, 3), Version: pickVersion(g),
			LockTime: pickLockTime(g), Sequence: pickSequence(g), Weight: int64(g.Pick(0, 50, 120, 100000))}
		e.Script = randScript(g, 1+g.Intn(12), 0)
		st := make([][]byte, g.Intn(7))
		for j := range st {
			st[j] = randItem(g)
		}
		e.Stack = hexbs(st)
		e.Leaf = g.Bytes(32)
		if g.Intn(4) == 0 {
			e.Annex = g.Bytes(32)
		}
		runEval(e)
	}
	// ---- grammar-generated spends with real signatures, then mutations
	ts := templates()
	gs := r.Rng.Fork() // transaction shapes and signer mode: a stream of their own
	shapeHook = func(c *Case) {
		if gs.Intn(5) < 3 {
			randShape(gs, c)
		}
	}
	for i := 0; i < r.N(3500, 150000); i++ {
		fl := randFlags(g)
		switch g.Intn(6) {
		case 0, 1, 2: // bias towards flag sets under which the template can succeed
			fl |= script.VER_P2SH | script.VER_WITNESS | script.VER_TAPROOT
			fl &^= script.VER_CLEANSTACK * uint32(g.Intn(2))
		case 3, 4: // the flags blocks are validated with (no policy flag: every hash-type byte, every encoding the consensus rules take)
			fl = consensusFlags
		}
		// one case in four is signed over the digests of the TREE's sighash functions, the others over the reference's
		signWithTree = gs.Intn(4) == 0
		c := ts[g.Intn(len(ts))](g, fl)
		if signWithTree {
			r.Hit("gen-signer:tree's-digest")
		} else {
			r.Hit("gen-signer:reference-digest")
		}
		r.Hit(fmt.Sprintf("gen-shape:%d-in/%d-out", len(c.Ins), len(c.Outs)))
		if g.Intn(10) < 6 {
			mutate(g, c)
			if g.Intn(4) == 0 {
				mutate(g, c)
			}
		}
		runCase(c)
	}
	shapeHook, signWithTree = nil, false
	// ---- tapscript sigop budget at and around its boundary
	budgetStream(r.Rng.Fork(), r.N(160, 6000))
	// ---- CLTV / CSV against version / lock time / sequence words of the whole 32-bit range (ctxwords.go)
	lockStream(r.Rng.Fork(), r.N(1200, 40000))
	// ---- signatures that also sit inside the script code they sign, at the push-encoding size edges (sizes.go)
	fadStream(r.Rng.Fork(), r.N(300, 10000))
	_ = bytes.Equal
}

// scriptDecodes: the real decoder (btc.GetOpcode) walks the whole script without an error
func scriptDecodes(p []byte) (ok bool) {
	defer func() {
		if e := recover(); e != nil {
			ok = false
		}
	}()
	for idx := 0; idx < len(p); {
		_, _, n, e := btc.GetOpcode(p[idx:])
		if e != nil || n <= 0 {
			return false
		}
		idx += n
	}
	return true
}
