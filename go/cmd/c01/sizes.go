package main

// Size boundaries the second audit found unreached (audit2/C01.md §3 a-d):
//
//   - FindAndDelete / delSig with signatures at every edge of the push-opcode ranges: direct push ≤ 0x4b, PUSHDATA1
//     0x4c..0xff, PUSHDATA2 0x100..0xffff (520 is the largest element a script can hold, but the helper is called on
//     its own with 0xffff / 0x10000 too) — as direct delSig calls, as corpus spends whose signature is embedded in the
//     script code (with and without CONST_SCRIPTCODE, canonical and non-canonical push of the embedded copy, CHECKSIG and
//     CHECKMULTISIG, valid lax-DER signatures of up to 258 bytes without DERSIG) and as a template of the generated stream;
//   - tapscript leaves above the 10000-byte limit of base / witness-v0 scripts (BIP342: no script size limit, no opcode
//     limit), VALID spends;
//   - one- and two-byte non-empty signatures under NULLFAIL without DERSIG / STRICTENC.
//
// Every corpus case here carries the verdict the rule demands (Expect), written down independently of the Lean
// reference: a disagreement of the reference is reported under the key spec-vs-corpus-rule.

import (
	"fmt"
	"strings"

	"github.com/piotrnar/gocoin/lib/script"
	"verif/vlib"
)

// pushEdgeSizes: both sides of every edge of the canonical push encoding, and of the 520-byte element limit.
var pushEdgeSizes = []int{0x4a, 0x4b, 0x4c, 0x4d, 0xfe, 0xff, 0x100, 0x101, 0x1ff, 0x200, 519, 520}

// tapWrap: a taproot output whose only leaf is scr (leaf version 0xc0): scriptPubKey, control block, tapleaf hash.
func tapWrap(tk *TapKey, scr []byte) (pk, control, lh []byte) {
	lh = tapLeaf(0xc0, scr)
	qx, par, _ := tapOutput(tk.X, lh)
	c0 := byte(0xc0)
	if par {
		c0 |= 1
	}
	return witprog(1, qx), cat([]byte{c0}, tk.X), lh
}

// garbageSig: n bytes that no DER parser (strict or lax) takes for a signature: the first byte is not 0x30.
func garbageSig(g *vlib.Rng, n int) []byte {
	b := g.Bytes(n)
	if n > 0 {
		b[0] = 0x31
	}
	return b
}

// nonCanonPush: a push of d in a form other than the canonical one (what FindAndDelete does NOT look for).
func nonCanonPush(d []byte) []byte {
	switch n := len(d); {
	case n <= 75:
		return pushForm(d, 1)
	case n <= 255:
		return pushForm(d, 2)
	}
	return pushForm(d, 4)
}

// delsigOne: one delSig call through implementation, model and the reference's FindAndDelete (the body of the
// helper stream). want, when not "", is the result computed by the caller from the opcode list it built.
func delsigOne(w, sg []byte, want string) {
	req := fmt.Sprintf("delsig %s %s", vlib.Hex(w), vlib.Hex(sg))
	impl := safeStr("delSig", func() (s string) {
		quiet(func() {
			res, cnt := script.VerifDelSig(w, sg)
			s = fmt.Sprintf("%s %d", vlib.Hex(res), cnt)
		})
		return
	})
	rep := o.MustAsk(req)
	f := strings.Fields(rep)
	if len(f) != 4 {
		fmt.Println("unexpected oracle reply to delsig:", trunc(rep))
		r.TieFail("helper:delsig", "the oracle did not answer a delsig request with four fields", map[string]string{"request": trunc(req), "oracle": trunc(rep)})
		return
	}
	r.Eval("helper:delsig", req)
	if f[0]+" "+f[1] == impl {
		r.TieOK()
	} else {
		r.TieFail("helper:delsig", fmt.Sprintf("delSig(script of %d bytes, signature of %d bytes): model %s/%s, implementation %s", len(w), len(sg), trunc(f[0]), f[1], trunc(impl)),
			map[string]string{"request": req, "oracle": rep, "impl": impl})
	}
	if f[0] != f[2] || f[1] != f[3] {
		// theorem delSig_eq_findAndDelete: the two coincide on every script WITHOUT a decode error; on a script with a
		// decode error gocoin's byte-wise delSig and Core's opcode-wise FindAndDelete may legitimately differ (such a
		// script fails anyway). The signature-length difference was removed by fix acaf95d6.
		if scriptDecodes(w) {
			r.TieFail("delsig-vs-findanddelete", fmt.Sprintf("script of %d bytes decodes, signature of %d bytes: model delSig %s/%s, Core FindAndDelete %s/%s", len(w), len(sg), trunc(f[0]), f[1], trunc(f[2]), f[3]), map[string]string{"request": req})
		} else {
			r.Hit("delsig:differs-from-FindAndDelete(decode-error)")
		}
	} else {
		r.Hit("delsig:equals-FindAndDelete")
	}
	if want != "" {
		// the rule itself, from the opcode list the script was assembled from: exactly the canonical pushes of the
		// signature disappear
		if impl != want {
			r.PropFail("delsig-vs-rule", fmt.Sprintf("delSig(script of %d bytes, signature of %d bytes) = %s, FindAndDelete of the canonical push gives %s", len(w), len(sg), trunc(impl), trunc(want)), map[string]string{"request": req})
		} else {
			r.Hit("delsig:equals-rule")
		}
		if f[2]+" "+f[3] != want {
			r.TieFail("spec-vs-corpus-rule", fmt.Sprintf("the reference's FindAndDelete(script of %d bytes, signature of %d bytes) = %s/%s, the rule gives %s", len(w), len(sg), trunc(f[2]), f[3], trunc(want)), map[string]string{"request": req})
		}
	}
}

// delsigBoundaries: for every edge size a script assembled from a known opcode list that holds the signature in its
// canonical push (deleted), in every other push form and bare (kept), between other operations.
func delsigBoundaries(g *vlib.Rng) {
	sizes := append([]int{0, 1}, pushEdgeSizes...)
	sizes = append(sizes, 521, 0xffff, 0x10000)
	for _, n := range sizes {
		sg := g.Bytes(n)
		canon := pushData(sg)
		if n == 1 { // pushData turns 01..10 / 81 into OP_N / OP_1NEGATE; "CScript() << vector" does not
			canon = pushForm(sg, 0)
		}
		if n == 0 {
			canon = []byte{0x00}
		}
		forms := [][]byte{canon}
		if n <= 75 {
			forms = append(forms, pushForm(sg, 1))
		}
		if n <= 255 {
			forms = append(forms, pushForm(sg, 2))
		}
		forms = append(forms, pushForm(sg, 4))
		other := g.Bytes(n) // same length, different bytes
		if n > 0 {
			other[n-1] = sg[n-1] ^ 1
		}
		otherPush := pushForm(other, 2)
		if n > 0xffff {
			otherPush = pushForm(other, 4)
		}
		shapes := [][][]byte{
			{canon},
			{{0x76}, canon, {0x75}, canon, {0xac}},
			{forms[len(forms)-1], canon, otherPush},
			{{0x51}, forms[len(forms)-1], {0x61}},
		}
		for _, fm := range forms[1:] {
			shapes = append(shapes, [][]byte{fm, {0x87}, canon, fm})
		}
		if n >= 1 && n <= 0xffff {
			// one byte shorter / longer under the neighbouring length: not the signature
			shapes = append(shapes, [][]byte{pushData(sg[:n-1]), pushData(append(append([]byte{}, sg...), 7)), canon})
		}
		for _, ops := range shapes {
			var w, kept []byte
			cnt := 0
			for _, op := range ops {
				w = append(w, op...)
				if string(op) == string(canon) {
					cnt++
				} else {
					kept = append(kept, op...)
				}
			}
			delsigOne(w, sg, fmt.Sprintf("%s %d", vlib.Hex(kept), cnt))
			r.Hit(fmt.Sprintf("delsig:boundary-size-%d", n))
		}
	}
}

// corpusSizes: the corpus spends of this file (called from corpusHandmade).
func corpusSizes() {
	g := vlib.NewRng(0xC01A2) // fixed: the corpus does not depend on VERIF_SEED
	k1 := newKey(g)
	run := func(c *Case) { runCase(c) }
	const fP2SH, fConst = script.VER_P2SH, script.VER_P2SH | script.VER_CONST_SCRIPTCODE

	// ---- FindAndDelete, signature = a VALID (lax-DER, R padded with zero bytes) signature of an exact total length,
	// embedded in the scriptPubKey it signs: valid without DERSIG exactly because the push of the signature is removed
	// from the script code before hashing. The ECDSA verdict on the padded form is the real btc.EcdsaVerify's (a
	// parameter of this property); up to 130 bytes (sequence length byte < 0x80) every lax parser agrees, so the rule's
	// verdict is written down; above, it is gocoin's parser that decides (the case then exists to pin delSig).
	tail := cat([]byte{0x75}, p2pk(k1.Pub))
	for _, total := range []int{74, 75, 76, 77, 130, 254, 255, 256, 257, 258} {
		for _, fl := range []uint32{0, fP2SH, fConst, fP2SH | script.VER_DERSIG, fP2SH | script.VER_NULLFAIL} {
			for _, canonical := range []bool{true, false} {
				c := base1(fmt.Sprintf("fad:lax-sig-in-script-len%d", total), tail, 7000, fl)
				sg0 := signLegacy(c, tail, k1, 1)
				sg := sg0
				if total > len(sg0) {
					sg = padDER(sg0, total-len(sg0))
				}
				if len(sg) != total {
					r.Hit("fad:lax-sig-length-not-reached")
					continue
				}
				emb := pushData(sg)
				if !canonical {
					// the embedded copy in another push form stays in the script code: the signature (made over the code
					// WITHOUT it) is then invalid
					emb = nonCanonPush(sg)
					c.Kind += "-noncanonical-copy"
				}
				c.Spent[0].Script = cat(emb, tail)
				c.setSig(pushData(sg))
				c.Note = fmt.Sprintf("signature of %d bytes, embedded copy %x…", len(sg), emb[:3])
				if total <= 130 {
					switch {
					case !canonical, fl&script.VER_DERSIG != 0 && total > len(sg0), fl&script.VER_CONST_SCRIPTCODE != 0:
						c.Expect = "ERR"
					default:
						c.Expect = "OK"
					}
				}
				_, _, spec := runCase(c)
				if canonical && (fl == 0 || fl == fP2SH) {
					r.Hit(fmt.Sprintf("fad:lax-sig-len%d:reference-says-%s", total, spec))
				}
			}
		}
	}

	// ---- FindAndDelete, signature = garbage X of an edge size (no parser takes it): `push(X) DROP <pk> CHECKSIG NOT`
	// spent with scriptSig push(X). Without CONST_SCRIPTCODE the check fails, NOT makes it true: valid. With
	// CONST_SCRIPTCODE the canonical push of X in the script code is SIG_FINDANDDELETE: invalid — unless the embedded
	// copy is pushed in another form, which FindAndDelete does not look for. The same through CHECKMULTISIG.
	for _, n := range append(append([]int{}, pushEdgeSizes...), 521) {
		x := garbageSig(g, n)
		for _, multi := range []bool{false, true} {
			for _, canonical := range []bool{true, false} {
				for _, fl := range []uint32{0, fP2SH, fConst} {
					emb := pushData(x)
					name := "canonical"
					if !canonical {
						emb, name = nonCanonPush(x), "noncanonical"
					}
					var pk, sig []byte
					op := "checksig"
					if multi {
						op = "checkmultisig"
						pk = cat(emb, []byte{0x75, 0x51}, pushData(k1.Pub), []byte{0x51, 0xae, 0x91})
						sig = cat([]byte{0x00}, pushData(x))
					} else {
						pk = cat(emb, []byte{0x75}, pushData(k1.Pub), []byte{0xac, 0x91})
						sig = pushData(x)
					}
					c := base1(fmt.Sprintf("fad:garbage-%s-%s-len%d", op, name, n), pk, 7000, fl)
					c.setSig(sig)
					c.Note = fmt.Sprintf("FindAndDelete of a %d-byte element, embedded copy pushed as %x…", n, emb[:1])
					switch {
					case n > 520:
						c.Expect = "ERR" // PUSH_SIZE
					case canonical && fl&script.VER_CONST_SCRIPTCODE != 0:
						c.Expect = "ERR" // SIG_FINDANDDELETE
					default:
						c.Expect = "OK"
					}
					run(c)
				}
			}
		}
	}

	// ---- tapscript leaves around and far above the 10000-byte limit of base / witness-v0 scripts: valid spends
	// (BIP342: "the script size limit of 10000 bytes does not apply", nor does the 201-opcode limit)
	tk, lk := newTapKey(g), newTapKey(g)
	full := uint32(script.VER_P2SH | script.VER_WITNESS | script.VER_TAPROOT)
	leafSizes, leafFlags := []int{10000, 10001, 20000}, []uint32{consensusFlags, script.STANDARD_VERIFY_FLAGS, consensusFlags &^ script.VER_TAPROOT}
	if r.Tier == "thorough" {
		leafSizes, leafFlags = []int{9999, 10000, 10001, 10002, 20000, 100000}, tapFlags
	}
	for _, n := range leafSizes {
		for _, fl := range leafFlags {
			scr := cat(rep(0x61, n-1), []byte{0x51})
			pk, control, _ := tapWrap(tk, scr)
			c := base1(fmt.Sprintf("limit:tapscript-leaf-size-%d", n), pk, 9000, fl)
			c.setWit(scr, control)
			c.Expect = "OK"
			c.Note = fmt.Sprintf("tapscript of %d bytes: %d NOPs, OP_1", n, n-1)
			run(c)
			if n != 10001 && n != 20000 {
				continue
			}
			// with a signature check behind the NOPs
			scr = cat(rep(0x61, n-34), pushData(lk.X), []byte{0xac})
			pk, control, lh := tapWrap(tk, scr)
			c = base1(fmt.Sprintf("limit:tapscript-leaf-size-%d-checksig", n), pk, 9000, fl)
			c.setWit(signTap(c, g, lk.Priv, nil, lh, 0xffffffff, 0, true), scr, control)
			c.Expect = "OK"
			c.Note = fmt.Sprintf("tapscript of %d bytes: NOPs, <key> CHECKSIG", n)
			run(c)
			// the same bytes as a P2WSH witness script: over the limit
			if fl&full == full {
				c = base1(fmt.Sprintf("limit:p2wsh-script-size-%d-nops", n), p2wsh(cat(rep(0x61, n-1), []byte{0x51})), 9000, fl)
				c.setWit(cat(rep(0x61, n-1), []byte{0x51}))
				c.Expect = "ERR"
				c.Note = "witness-v0 script above 10000 bytes"
				run(c)
			}
		}
	}

	// ---- every opcode byte as the first opcode of a tapscript leaf `<op> OP_1`, and behind a push that does not cover
	// it: BIP342's OP_SUCCESSx list (80, 98, 126-129, 131-134, 137-138, 141-142, 149-153, 187-254; written down here, not
	// taken from the code or the reference) makes the spend valid whatever else the script holds, and invalid under the
	// policy flag DISCOURAGE_OP_SUCCESS
	isSuccess := func(op int) bool {
		return op == 80 || op == 98 || (op >= 126 && op <= 129) || (op >= 131 && op <= 134) || op == 137 || op == 138 ||
			op == 141 || op == 142 || (op >= 149 && op <= 153) || (op >= 187 && op <= 254)
	}
	for op := 0; op < 256; op++ {
		for vi, scr := range [][]byte{{byte(op), 0x51}, {0x51, 0x01, 0xff, byte(op), 0x6a}} {
			if vi == 1 && !isSuccess(op) {
				continue
			}
			for _, fl := range []uint32{consensusFlags, consensusFlags | script.VER_DIS_SUCCESS} {
				pk, control, _ := tapWrap(tk, scr)
				c := base1(fmt.Sprintf("opsuccess:op-%02x-v%d", op, vi), pk, 9000, fl)
				c.setWit(scr, control)
				if isSuccess(op) {
					c.Expect, c.Note = "OK", fmt.Sprintf("opcode %d is OP_SUCCESSx", op)
					if fl&script.VER_DIS_SUCCESS != 0 {
						c.Expect = "ERR"
					}
				}
				run(c)
			}
		}
	}

	// ---- NULLFAIL with one- and two-byte non-empty signatures, no DERSIG / STRICTENC / LOW_S (so the encoding check
	// lets them through): a failed check with a NON-EMPTY signature is SIG_NULLFAIL, without the flag it is just false
	// and NOT makes the script true
	k2 := newKey(g)
	for _, sg := range [][]byte{{0x01}, {0x00}, {0x30}, {0xff}, {0x01, 0x01}, {0x00, 0x00}, {0x30, 0x01}, {0x00, 0x01}, {0x81}, {0x02, 0x81}} {
		for _, fl := range []uint32{fP2SH | script.VER_NULLFAIL, fP2SH, script.VER_NULLFAIL, fP2SH | script.VER_WITNESS | script.VER_NULLFAIL | script.VER_NULLDUMMY, fP2SH | script.VER_WITNESS} {
			exp := "OK"
			if fl&script.VER_NULLFAIL != 0 {
				exp = "ERR"
			}
			note := fmt.Sprintf("failed check with the %d-byte signature %x", len(sg), sg)
			scrs := []struct {
				name string
				scr  []byte
				st   [][]byte // bottom first
			}{
				{"checksig-not", cat(pushData(k1.Pub), []byte{0xac, 0x91}), [][]byte{sg}},
				{"checkmultisig-not-1of1", cat([]byte{0x51}, pushData(k1.Pub), []byte{0x51, 0xae, 0x91}), [][]byte{{}, sg}},
				{"checkmultisig-not-2of2-first-empty", cat([]byte{0x52}, pushData(k1.Pub), pushData(k2.Pub), []byte{0x52, 0xae, 0x91}), [][]byte{{}, {}, sg}},
				{"checkmultisig-not-2of2-second-empty", cat([]byte{0x52}, pushData(k1.Pub), pushData(k2.Pub), []byte{0x52, 0xae, 0x91}), [][]byte{{}, sg, {}}},
				{"checkmultisig-not-1of2", cat([]byte{0x51}, pushData(k1.Pub), pushData(k2.Pub), []byte{0x52, 0xae, 0x91}), [][]byte{{}, sg}},
			}
			for _, s := range scrs {
				var ss []byte
				for _, it := range s.st {
					ss = append(ss, pushForm(it, 0)...)
				}
				c := base1(fmt.Sprintf("nullfail:%s-sig%x", s.name, sg), s.scr, 7000, fl)
				c.setSig(ss)
				c.Expect, c.Note = exp, note
				run(c)
				c = base1(fmt.Sprintf("nullfail:p2sh-%s-sig%x", s.name, sg), p2sh(s.scr), 7000, fl)
				c.setSig(cat(ss, pushData(s.scr)))
				c.Expect, c.Note = exp, note
				if fl&script.VER_P2SH == 0 {
					c.Expect = "OK" // P2SH not active: only the hash of the redeem script is compared
				}
				run(c)
				if fl&script.VER_WITNESS != 0 {
					c = base1(fmt.Sprintf("nullfail:p2wsh-%s-sig%x", s.name, sg), p2wsh(s.scr), 7000, fl)
					c.setWit(append(append([][]byte{}, s.st...), s.scr)...)
					c.Expect, c.Note = exp, note
					run(c)
				}
			}
		}
	}
}

// fadTemplate: a generated spend whose signature element also sits, pushed, inside the script code that the check
// hashes: size from the push-encoding edges or anything up to 521, the embedded copy in canonical or other push form,
// CHECKSIG or CHECKMULTISIG, with or without NOT, the element garbage, or (≤ 258 bytes) a real signature over the
// script code with the copy removed, zero-padded to the size.
func fadTemplate(g *vlib.Rng, fl uint32) *Case {
	if g.Intn(3) != 0 {
		fl &^= script.VER_DERSIG | script.VER_STRICTENC | script.VER_LOW_S // otherwise nearly every case ends in the encoding check
	}
	if g.Bool() {
		fl &^= script.VER_CONST_SCRIPTCODE
	}
	k := newKey(g)
	n := pushEdgeSizes[g.Intn(len(pushEdgeSizes))]
	switch g.Intn(4) {
	case 0:
		n = g.Intn(522)
	case 1:
		n = g.Pick(72, 73, 74, 75, 76, 77, 254, 255, 256, 257, 258)
	}
	multi := g.Intn(3) == 0
	not := g.Bool()
	var tail []byte
	if multi {
		tail = cat([]byte{0x75, 0x51}, pushData(k.Pub), []byte{0x51, 0xae})
	} else {
		tail = cat([]byte{0x75}, pushData(k.Pub), []byte{0xac})
	}
	if not {
		tail = append(tail, 0x91)
	}
	// a second copy behind the check (still inside the script code): `X DROP … CHECKSIG [NOT] X DROP`
	second := g.Intn(8) == 0
	signed := tail // the script code with every copy of the push removed
	if second {
		signed = cat(tail, []byte{0x75})
	}
	c := base1("gen-fad", tail, 7000, fl)
	var x []byte
	if n >= 72 && n <= 258 && g.Intn(3) != 0 {
		sg0 := signLegacy(c, signed, k, pickHT(g, 1, 1, 2, 3, 0x81))
		x = sg0
		if n > len(sg0) {
			x = padDER(sg0, n-len(sg0))
		}
		c.Kind += ":real-sig"
	} else {
		x = g.Bytes(n)
	}
	emb := pushData(x)
	if len(x) == 1 {
		emb = pushForm(x, 0)
	}
	if g.Intn(4) == 0 {
		emb = nonCanonPush(x)
		c.Kind += ":noncanonical-copy"
	}
	if second {
		tail = cat(tail, emb, []byte{0x75})
	}
	c.Spent[c.Idx].Script = cat(emb, tail)
	ss := pushData(x)
	if len(x) == 1 {
		ss = pushForm(x, 0)
	}
	if multi {
		ss = cat([]byte{0x00}, ss)
	}
	if g.Intn(3) == 0 { // through P2SH: the redeem script is the script code
		red := c.Spent[c.Idx].Script
		if len(red) <= 520 {
			c.Spent[c.Idx].Script = p2sh(red)
			ss = cat(ss, pushData(red))
			c.Kind += ":p2sh"
		}
	}
	c.setSig(ss)
	r.Hit(fmt.Sprintf("gen-fad:size-%s", sizeClass(len(x))))
	return c
}

func sizeClass(n int) string {
	switch {
	case n <= 0x4b:
		return "direct(≤75)"
	case n <= 0xff:
		return "pushdata1(76..255)"
	case n <= 520:
		return "pushdata2(256..520)"
	}
	return "over-520"
}

// fadStream: fadTemplate spends, two in five in a reshaped transaction, one in four signed over the tree's own
// digest, half of them mutated afterwards.
func fadStream(g *vlib.Rng, n int) {
	shapeHook = func(c *Case) {
		if g.Intn(5) < 2 {
			randShape(g, c)
		}
	}
	for i := 0; i < n; i++ {
		fl := randFlags(g)
		switch g.Intn(4) {
		case 0:
			fl = script.VER_P2SH
		case 1:
			fl = script.VER_P2SH | script.VER_CONST_SCRIPTCODE | uint32(g.Pick(0, int(script.VER_NULLFAIL), int(script.VER_WITNESS)))
		}
		signWithTree = g.Intn(4) == 0
		c := fadTemplate(g, fl)
		if g.Intn(10) < 3 {
			mutate(g, c)
		}
		_, _, spec := runCase(c)
		if spec == "OK" {
			r.Hit("gen-fad:valid")
		} else {
			r.Hit("gen-fad:invalid")
		}
	}
	shapeHook, signWithTree = nil, false
}
