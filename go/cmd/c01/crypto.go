package main

// Script building blocks, keys and signers for the generators. Signing uses gocoin's own signing
// primitives (deterministic: RFC6979 ECDSA nonces, Schnorr aux data from the run's PRNG); what is
// under test is VERIFICATION, whose every crypto answer is checked against model and spec anyway.

import (
	"crypto/sha256"
	"encoding/binary"
	"fmt"
	"math/big"

	"github.com/piotrnar/gocoin/lib/btc"
	"github.com/piotrnar/gocoin/lib/secp256k1"
	"verif/vlib"
)

var curveN, _ = new(big.Int).SetString("FFFFFFFFFFFFFFFFFFFFFFFFFFFFFFFEBAAEDCE6AF48A03BBFD25E8CD0364141", 16)

type Key struct {
	Priv []byte
	Pub  []byte // compressed
	PubU []byte // uncompressed
}

// guard runs f — a call into real gocoin code made by the harness for its OWN purposes (building keys,
// signing, hashing: not the call under test). A panic there is an observation (histogram
// "harness-call-panicked:<site>"), never a crash of the harness; the caller falls back to a neutral value.
func guard(site string, f func()) (ok bool) {
	defer func() {
		if e := recover(); e != nil {
			r.Hit("harness-call-panicked:" + site)
			ok = false
		}
	}()
	f()
	return true
}

func newKey(g *vlib.Rng) *Key {
	for try := 0; try < 64; try++ {
		p := g.Bytes(32)
		p[0] &= 0x7f
		var pub, pubU []byte
		guard("PublicFromPrivate", func() {
			pub = btc.PublicFromPrivate(p, true)
			pubU = btc.PublicFromPrivate(p, false)
		})
		if len(pub) == 33 && len(pubU) == 65 {
			return &Key{Priv: p, Pub: pub, PubU: pubU}
		}
	}
	// key derivation is broken in the tree under test: a syntactically plausible placeholder keeps the run going
	return &Key{Priv: append(make([]byte, 31), 1), Pub: append([]byte{2}, make([]byte, 32)...), PubU: append([]byte{4}, make([]byte, 64)...)}
}

func cat(parts ...[]byte) []byte {
	var out []byte
	for _, p := range parts {
		out = append(out, p...)
	}
	return out
}

// pushData: the canonical (minimal) push of a byte string.
func pushData(d []byte) []byte {
	n := len(d)
	switch {
	case n == 0:
		return []byte{0x00}
	case n == 1 && d[0] >= 1 && d[0] <= 16:
		return []byte{0x50 + d[0]}
	case n == 1 && d[0] == 0x81:
		return []byte{0x4f}
	case n <= 75:
		return cat([]byte{byte(n)}, d)
	case n <= 255:
		return cat([]byte{0x4c, byte(n)}, d)
	case n <= 65535:
		return cat([]byte{0x4d, byte(n), byte(n >> 8)}, d)
	}
	return cat([]byte{0x4e, byte(n), byte(n >> 8), byte(n >> 16), byte(n >> 24)}, d)
}

// pushForm: push with an explicit form 0 = direct length byte (n ≤ 75), 1/2/4 = PUSHDATAn.
func pushForm(d []byte, form int) []byte {
	n := len(d)
	switch form {
	case 1:
		return cat([]byte{0x4c, byte(n)}, d)
	case 2:
		return cat([]byte{0x4d, byte(n), byte(n >> 8)}, d)
	case 4:
		return cat([]byte{0x4e, byte(n), byte(n >> 8), byte(n >> 16), byte(n >> 24)}, d)
	}
	return cat([]byte{byte(n)}, d)
}

// scriptNum: CScriptNum serialisation of v.
func scriptNum(v int64) []byte {
	if v == 0 {
		return nil
	}
	neg := v < 0
	a := uint64(v)
	if neg {
		a = uint64(-v)
	}
	var d []byte
	for a != 0 {
		d = append(d, byte(a))
		a >>= 8
	}
	if d[len(d)-1]&0x80 != 0 {
		if neg {
			d = append(d, 0x80)
		} else {
			d = append(d, 0)
		}
	} else if neg {
		d[len(d)-1] |= 0x80
	}
	return d
}

func pushNum(v int64) []byte { return pushData(scriptNum(v)) }

func hash160(b []byte) []byte {
	var out [20]byte
	guard("RimpHash", func() { btc.RimpHash(b, out[:]) })
	return out[:]
}

func sha2(b []byte) []byte { h := sha256.Sum256(b); return h[:] }

// dummyDER: a well-formed DER signature (r = s = 1) used where the real signer gave nothing.
func dummyDER(ht byte) []byte { return []byte{0x30, 0x06, 0x02, 0x01, 0x01, 0x02, 0x01, 0x01, ht} }

func derSig(priv, hash []byte, ht byte) []byte {
	var out []byte
	guard("EcdsaSign", func() {
		if len(hash) != 32 {
			return // no digest (the sighash function of the tree under test panicked or returned nothing)
		}
		rr, ss, err := btc.EcdsaSign(priv, hash)
		if err != nil || rr == nil || ss == nil {
			return
		}
		var sig secp256k1.Signature
		sig.R.Set(rr)
		sig.S.Set(ss)
		out = append(sig.Bytes(), ht)
	})
	if len(out) < 9 {
		return dummyDER(ht)
	}
	return out
}

// derSigHighS: the same signature with S replaced by n-S (valid ECDSA, fails LOW_S).
func flipS(sigWithHt []byte) []byte {
	out := sigWithHt
	guard("Signature.ParseBytes", func() {
		var sig secp256k1.Signature
		if sig.ParseBytes(sigWithHt) < 0 {
			return
		}
		s := new(big.Int).Sub(curveN, &sig.S.Int)
		sig.S.Set(s)
		out = append(sig.Bytes(), sigWithHt[len(sigWithHt)-1])
	})
	return out
}

// padDER re-encodes a strict DER signature with `pad` extra leading zero bytes in R (lax-DER only).
func padDER(sigWithHt []byte, pad int) []byte {
	if len(sigWithHt) < 9 || 4+int(sigWithHt[3]) > len(sigWithHt)-1 {
		return sigWithHt
	}
	lenR := int(sigWithHt[3])
	r := sigWithHt[4 : 4+lenR]
	rest := sigWithHt[4+lenR : len(sigWithHt)-1] // 02 lenS S
	nr := append(make([]byte, pad), r...)
	body := cat([]byte{0x02, byte(len(nr))}, nr, rest)
	return cat([]byte{0x30, byte(len(body))}, body, sigWithHt[len(sigWithHt)-1:])
}

func p2pkh(pub []byte) []byte   { return cat([]byte{0x76, 0xa9, 20}, hash160(pub), []byte{0x88, 0xac}) }
func p2pk(pub []byte) []byte    { return cat(pushData(pub), []byte{0xac}) }
func p2sh(redeem []byte) []byte { return cat([]byte{0xa9, 20}, hash160(redeem), []byte{0x87}) }
func p2wpkh(pub []byte) []byte  { return cat([]byte{0x00, 20}, hash160(pub)) }
func p2wsh(ws []byte) []byte    { return cat([]byte{0x00, 32}, sha2(ws)) }
func witprog(ver int, prog []byte) []byte {
	v := byte(0)
	if ver > 0 {
		v = byte(0x50 + ver)
	}
	return cat([]byte{v, byte(len(prog))}, prog)
}

func multisigScript(m int, keys [][]byte) []byte {
	s := pushNum(int64(m))
	for _, k := range keys {
		s = append(s, pushData(k)...)
	}
	s = append(s, pushNum(int64(len(keys)))...)
	return append(s, 0xae)
}

// shapeHook, when set (generated stream), reshapes the transaction base1 has just made — more inputs and outputs,
// the input under test somewhere among them — BEFORE the template signs it.
var shapeHook func(c *Case)

// base1: a one-input one-output spend of (amount, pkScr) (reshaped by shapeHook in the generated stream).
func base1(kind string, pkScr []byte, amount uint64, flags uint32) *Case {
	ph := sha2(cat([]byte("c01-prev"), pkScr))
	c := &Case{Kind: kind, Version: 2, LockTime: 0,
		Ins:   []In{{PrevHash: ph, Vout: 0, Sequence: 0xfffffffe}},
		Outs:  []Out{{Value: amount - amount/10, Script: HexB{0x51}}},
		Idx:   0,
		Spent: []Out{{Value: amount, Script: pkScr}},
		Flags: flags}
	if shapeHook != nil {
		shapeHook(c)
	}
	return c
}

func (c *Case) setSig(s []byte) { c.Ins[c.Idx].SigScript = s }
func (c *Case) setWit(items ...[]byte) {
	c.Ins[c.Idx].Witness = nil
	for _, it := range items {
		c.Ins[c.Idx].Witness = append(c.Ins[c.Idx].Witness, HexB(it))
	}
}

// signWithTree selects what the harness's signers sign. false (the default): the digest of the SPECIFICATION's
// message (Lean reference, refDigest) — the signature is then valid by the rules whatever the tree's sighash code
// does, so a tree that hashes something else REJECTS A VALID spend. true: the digest the tree's own sighash
// function returns — a tree that hashes something else then ACCEPTS a signature the rules reject (the reference
// semantics verifies it against its own digest). On the unchanged tree both are the same bytes. The generated
// stream draws the mode per case from the run's PRNG.
var signWithTree bool

func signLegacy(c *Case, scriptCode []byte, k *Key, ht byte) []byte {
	var h []byte
	if !signWithTree {
		if d, ok := refDigest(c, fmt.Sprintf("sigl %s %d", vlib.Hex(scriptCode), ht)); ok {
			return derSig(k.Priv, d, ht)
		}
	}
	guard("SignatureHash", func() { h = buildTx(c).SignatureHash(scriptCode, c.Idx, int32(ht)) })
	return derSig(k.Priv, h, ht)
}

func signWitV0(c *Case, scriptCode []byte, k *Key, ht byte) []byte {
	var h []byte
	if !signWithTree {
		if d, ok := refDigest(c, fmt.Sprintf("sigw %s %d", vlib.Hex(scriptCode), ht)); ok {
			return derSig(k.Priv, d, ht)
		}
	}
	guard("WitnessSigHash", func() { h = buildTx(c).WitnessSigHash(scriptCode, c.Spent[c.Idx].Value, c.Idx, int32(ht)) })
	return derSig(k.Priv, h, ht)
}

// ---------------------------------------------------------------- taproot

func tagged(tag string, parts ...[]byte) []byte {
	th := sha256.Sum256([]byte(tag))
	h := sha256.New()
	h.Write(th[:])
	h.Write(th[:])
	for _, p := range parts {
		h.Write(p)
	}
	return h.Sum(nil)
}

func compactSize(n int) []byte {
	if n < 0xfd {
		return []byte{byte(n)}
	}
	if n < 0x10000 {
		return []byte{0xfd, byte(n), byte(n >> 8)}
	}
	b := make([]byte, 5)
	b[0] = 0xfe
	binary.LittleEndian.PutUint32(b[1:], uint32(n))
	return b
}

type TapKey struct {
	Priv []byte // adjusted so that the public key has even Y
	X    []byte
}

func newTapKey(g *vlib.Rng) *TapKey {
	k := newKey(g)
	priv := k.Priv
	if k.Pub[0] == 3 {
		d := new(big.Int).Sub(curveN, new(big.Int).SetBytes(priv))
		priv = d.FillBytes(make([]byte, 32))
	}
	return &TapKey{Priv: priv, X: k.Pub[1:]}
}

func tapLeaf(ver byte, scr []byte) []byte {
	return tagged("TapLeaf", []byte{ver}, compactSize(len(scr)), scr)
}

func lexLess(a, b []byte) bool {
	for i := 0; i < len(a) && i < len(b); i++ {
		if a[i] != b[i] {
			return a[i] < b[i]
		}
	}
	return len(a) < len(b)
}

func tapBranch(a, b []byte) []byte {
	if lexLess(a, b) {
		return tagged("TapBranch", a, b)
	}
	return tagged("TapBranch", b, a)
}

// tapOutput: output key and parity for internal key X and merkle root (nil = key-path only), plus the tweak.
func tapOutput(internalX, root []byte) (outX []byte, parity bool, tweak []byte) {
	tweak = tagged("TapTweak", internalX, root)
	outX = make([]byte, 32)
	guard("ECPublicTweakAdd", func() {
		var xy secp256k1.XY
		if !xy.ParsePubkey(append([]byte{2}, internalX...)) {
			return
		}
		var t secp256k1.Number
		t.SetBytes(tweak)
		if !xy.ECPublicTweakAdd(&t) {
			return
		}
		xy.X.Normalize()
		xy.Y.Normalize()
		x := make([]byte, 32)
		xy.X.GetB32(x)
		outX, parity = x, xy.Y.IsOdd()
	})
	return outX, parity, tweak
}

func tapTweakPriv(priv, tweak []byte) []byte {
	d := new(big.Int).Add(new(big.Int).SetBytes(priv), new(big.Int).SetBytes(tweak))
	d.Mod(d, curveN)
	return d.FillBytes(make([]byte, 32))
}

// signTap signs the BIP341 message of input c.Idx; where no message exists (undefined hash type,
// SIGHASH_SINGLE without output) the 32-byte zero string is signed (the digest gocoin used to fall back to).
func signTap(c *Case, g *vlib.Rng, priv []byte, annex []byte, leaf []byte, codesep uint32, ht byte, scriptPath bool) []byte {
	var ed btc.ScriptExecutionData
	if annex != nil {
		ed.M_annex_hash = sha2(cat(compactSize(len(annex)), annex))
	}
	ed.M_tapleaf_hash = leaf
	ed.M_codeseparator_pos = codesep
	var h []byte
	if !signWithTree {
		a := "none"
		if annex != nil {
			a = vlib.Hex(annex)
		}
		h, _ = refDigest(c, fmt.Sprintf("sigt %s %s %d %d %s", a, vlib.Hex(leaf), codesep, ht, b01(scriptPath)))
	} else {
		// a panic of the tree's TaprootSigHash here is "no digest" for the SIGNER; the same input then goes through
		// VerifyTxScript in runCase, where an escaping panic is the property failure
		guard("TaprootSigHash", func() { h = buildTx(c).TaprootSigHash(&ed, c.Idx, ht, scriptPath) })
	}
	if len(h) != 32 {
		h = make([]byte, 32)
	}
	aux := g.Bytes(32) // drawn outside the guarded call: the PRNG stream does not depend on the tree under test
	var sig []byte
	guard("SchnorrSign", func() { quiet(func() { sig = secp256k1.SchnorrSign(h, priv, aux) }) })
	if len(sig) != 64 {
		sig = make([]byte, 64)
	}
	if ht != 0 {
		sig = append(sig, ht)
	}
	return sig
}
