package main

// Corpus: (1) the Bitcoin Core vectors shipped in lib/test (run through implementation, model AND spec;
// the spec must give the verdict the vector demands), (2) hand-made boundary cases named in the property's
// quantifier, with real signatures.

import (
	"bytes"
	"encoding/hex"
	"encoding/json"
	"fmt"
	"os"
	"sort"
	"strings"

	"github.com/piotrnar/gocoin/lib/btc"
	"github.com/piotrnar/gocoin/lib/script"
	"verif/vlib"
	"verif/vtrans"
)

var flagNames = map[string]uint32{
	"": 0, "NONE": 0, "P2SH": script.VER_P2SH, "STRICTENC": script.VER_STRICTENC, "DERSIG": script.VER_DERSIG, "LOW_S": script.VER_LOW_S,
	"NULLDUMMY": script.VER_NULLDUMMY, "SIGPUSHONLY": script.VER_SIGPUSHONLY, "MINIMALDATA": script.VER_MINDATA,
	"DISCOURAGE_UPGRADABLE_NOPS": script.VER_BLOCK_OPS, "CLEANSTACK": script.VER_CLEANSTACK, "CHECKLOCKTIMEVERIFY": script.VER_CLTV,
	"CHECKSEQUENCEVERIFY": script.VER_CSV, "WITNESS": script.VER_WITNESS, "DISCOURAGE_UPGRADABLE_WITNESS_PROGRAM": script.VER_WITNESS_PROG,
	"MINIMALIF": script.VER_MINIMALIF, "NULLFAIL": script.VER_NULLFAIL, "WITNESS_PUBKEYTYPE": script.VER_WITNESS_PUBKEY,
	"CONST_SCRIPTCODE": script.VER_CONST_SCRIPTCODE, "TAPROOT": script.VER_TAPROOT,
}

func decodeFlags(s string) (uint32, bool) {
	var fl uint32
	for _, f := range strings.Split(s, ",") {
		v, ok := flagNames[strings.TrimSpace(f)]
		if !ok {
			return 0, false
		}
		fl |= v
	}
	return fl, true
}

func readJSON(rel string) []interface{} {
	dat, err := os.ReadFile(vtrans.RepoRoot() + "/" + rel)
	if err != nil {
		fmt.Fprintln(os.Stderr, "cannot read corpus file:", err)
		os.Exit(3)
	}
	var v []interface{}
	if err := json.Unmarshal(dat, &v); err != nil {
		fmt.Fprintln(os.Stderr, "cannot parse", rel, err)
		os.Exit(3)
	}
	return v
}

// decodeScript: btc.DecodeScript (the repo's own test-vector assembler) with a panic turned into an error.
func decodeScript(s string) (res []byte, err error) {
	if !guard("DecodeScript", func() { res, err = btc.DecodeScript(s) }) {
		return nil, fmt.Errorf("btc.DecodeScript panicked")
	}
	return
}

func corpusVectors() {
	// ---- script_tests.json: [[wit..., amount]?, scriptSig, scriptPubKey, flags, expected, comment]
	n := 0
	for _, rec := range readJSON("lib/test/script_tests.json") {
		mm, ok := rec.([]interface{})
		if !ok || len(mm) < 4 {
			continue
		}
		var wit [][]byte
		var amount uint64
		var strs []string
		bad := false
		for _, f := range mm {
			switch x := f.(type) {
			case []interface{}:
				for _, w := range x {
					switch ww := w.(type) {
					case string:
						b, err := hex.DecodeString(ww)
						if err != nil {
							bad = true
						}
						wit = append(wit, b)
					case float64:
						amount = uint64(1e8*ww + 0.5)
					}
				}
			case string:
				strs = append(strs, x)
			}
		}
		if bad || len(strs) < 4 {
			continue
		}
		sig, e1 := decodeScript(strs[0])
		pk, e2 := decodeScript(strs[1])
		fl, okf := decodeFlags(strs[2])
		if e1 != nil || e2 != nil || !okf {
			r.Hit("script_tests.json:skipped-unparsable")
			continue
		}
		if fl&script.VER_CLEANSTACK != 0 {
			fl |= script.VER_P2SH | script.VER_WITNESS // as Core's and gocoin's test drivers do
		}
		// crediting / spending transactions exactly as the vectors' header describes
		credit := new(btc.Tx)
		credit.Version = 1
		credit.TxIn = []*btc.TxIn{{Input: btc.TxPrevOut{Vout: 0xffffffff}, ScriptSig: []byte{0, 0}, Sequence: 0xffffffff}}
		credit.TxOut = []*btc.TxOut{{Pk_script: pk, Value: amount}}
		var h [32]byte
		guard("Tx.Serialize", func() { h = btc.Sha2Sum(credit.Serialize()) })
		c := &Case{Kind: "vec-script_tests", Version: 1, LockTime: 0,
			Ins:   []In{{PrevHash: h[:], Vout: 0, SigScript: sig, Sequence: 0xffffffff}},
			Outs:  []Out{{Value: amount, Script: nil}},
			Spent: []Out{{Value: amount, Script: pk}},
			Flags: fl, Note: strs[0] + " | " + strs[1] + " | " + strs[2]}
		c.setWit(wit...)
		if strs[3] == "OK" {
			c.Expect = "OK"
		} else {
			c.Expect = "ERR"
		}
		runCase(c)
		n++
	}
	r.Extra["script_tests_vectors"] = n

	// ---- tx_valid.json / tx_invalid.json: [[[prevhash, vout, scriptPubKey, amount?]...], txhex, flags]
	for _, file := range []string{"tx_valid.json", "tx_invalid.json"} {
		valid := file == "tx_valid.json"
		cnt := 0
		for _, rec := range readJSON("lib/test/" + file) {
			vv, ok := rec.([]interface{})
			if !ok || len(vv) != 3 {
				continue
			}
			inps, ok1 := vv[0].([]interface{})
			txhex, ok2 := vv[1].(string)
			fls, ok3 := vv[2].(string)
			if !ok1 || !ok2 || !ok3 {
				continue
			}
			fl, okf := decodeFlags(fls)
			raw, err := hex.DecodeString(txhex)
			if !okf || err != nil {
				r.Hit(file + ":skipped-flags-or-hex")
				continue
			}
			var tx *btc.Tx
			guard("NewTx", func() { tx, _ = btc.NewTx(raw) })
			if tx == nil || len(tx.TxIn) == 0 {
				r.Hit(file + ":skipped-undecodable-tx")
				continue
			}
			type prev struct {
				h     []byte
				vout  uint32
				pk    []byte
				value uint64
			}
			var prevs []prev
			okp := true
			for _, u := range inps {
				uu, ok := u.([]interface{})
				if !ok || len(uu) < 3 {
					okp = false
					break
				}
				var id *btc.Uint256
				guard("NewUint256FromString", func() { id = btc.NewUint256FromString(uu[0].(string)) })
				pk, e := decodeScript(uu[2].(string))
				if id == nil || e != nil {
					okp = false
					break
				}
				p := prev{h: id.Hash[:], vout: uint32(int64(uu[1].(float64))), pk: pk}
				if len(uu) > 3 {
					p.value = uint64(uu[3].(float64))
				}
				prevs = append(prevs, p)
			}
			if !okp {
				r.Hit(file + ":skipped-prevouts")
				continue
			}
			c0 := Case{Version: tx.Version, LockTime: tx.Lock_time, Flags: fl, Note: file + " #" + fmt.Sprint(cnt)}
			matched := true
			for i, ti := range tx.TxIn {
				in := In{PrevHash: append([]byte(nil), ti.Input.Hash[:]...), Vout: ti.Input.Vout, SigScript: ti.ScriptSig, Sequence: ti.Sequence}
				if tx.SegWit != nil {
					for _, w := range tx.SegWit[i] {
						in.Witness = append(in.Witness, HexB(w))
					}
				}
				c0.Ins = append(c0.Ins, in)
				found := false
				for _, p := range prevs {
					if bytes.Equal(p.h, ti.Input.Hash[:]) && p.vout == ti.Input.Vout {
						c0.Spent = append(c0.Spent, Out{Value: p.value, Script: p.pk})
						found = true
						break
					}
				}
				if !found {
					matched = false
				}
			}
			if !matched {
				r.Hit(file + ":skipped-unmatched-input")
				continue
			}
			for _, to := range tx.TxOut {
				c0.Outs = append(c0.Outs, Out{Value: to.Value, Script: to.Pk_script})
			}
			cnt++
			allOK := true
			for i := range c0.Ins {
				c := c0
				c.Idx = i
				c.Kind = "vec-" + strings.TrimSuffix(file, ".json")
				if valid {
					c.Expect = "OK" // every input of a valid transaction must verify
				}
				_, _, spec := runCase(&c)
				if spec != "OK" {
					allOK = false
				}
			}
			if !valid && allOK && flagsOk(fl) {
				// invalid for a reason outside script verification (duplicate inputs, bad amounts, empty vin, …)
				r.Hit("tx_invalid.json:all-inputs-verify(non-script-reason)")
			}
		}
		r.Extra[file+"_transactions"] = cnt
	}
}

const stdFlags = script.STANDARD_VERIFY_FLAGS &^ script.VER_DIS_SUCCESS &^ script.VER_DIS_PUBKEYTYPE
const consensusFlags = script.VER_P2SH | script.VER_DERSIG | script.VER_CLTV | script.VER_CSV | script.VER_WITNESS | script.VER_NULLDUMMY | script.VER_TAPROOT

var flagSets = []uint32{0, script.VER_P2SH, consensusFlags, script.STANDARD_VERIFY_FLAGS, stdFlags,
	script.VER_P2SH | script.VER_WITNESS, script.VER_P2SH | script.VER_WITNESS | script.VER_TAPROOT,
	consensusFlags | script.VER_NULLFAIL | script.VER_MINDATA | script.VER_CLEANSTACK}

func rep(b byte, n int) []byte { return bytes.Repeat([]byte{b}, n) }

// corpusHandmade: the boundaries named in the property's quantifier.
func corpusHandmade() {
	g := vlib.NewRng(0xC01) // fixed: the corpus does not depend on VERIF_SEED
	k1, k2 := newKey(g), newKey(g)
	run := func(c *Case) { runCase(c) }
	forFlags := func(f func(fl uint32)) {
		for _, fl := range flagSets {
			f(fl)
		}
	}

	// ---- limits: script size 10000/10001, 201/202 ops, 1000/1001 stack items, 520/521-byte pushes
	for _, extra := range []int{0, 1} {
		var s []byte
		for i := 0; i < 19; i++ {
			s = append(s, pushForm(rep(0xaa, 520), 2)...)
			s = append(s, 0x75)
		}
		s = append(s, rep(0x61, 10000-len(s)-1+extra)...)
		s = append(s, 0x51)
		forFlags(func(fl uint32) { run(base1(fmt.Sprintf("limit:script-size-%d", len(s)), s, 5000, fl)) })
		// the same script as a P2WSH witness script (limit applies) and as a tapscript (no limit)
		c := base1(fmt.Sprintf("limit:p2wsh-script-size-%d", len(s)), p2wsh(s), 5000, consensusFlags)
		c.setWit(s)
		run(c)
	}
	for _, nops := range []int{200, 201, 202} {
		s := append(rep(0x61, nops), 0x51)
		forFlags(func(fl uint32) { run(base1(fmt.Sprintf("limit:ops-%d", nops), s, 5000, fl)) })
	}
	for _, n := range []int{999, 1000, 1001} {
		s := rep(0x51, n)
		run(base1(fmt.Sprintf("limit:stack-%d", n), s, 5000, script.VER_P2SH))
		// half of it on the altstack
		s2 := cat(rep(0x51, n-1), rep(0x6b, n/2), []byte{0x51})
		run(base1(fmt.Sprintf("limit:stack+alt-%d", n), s2, 5000, 0))
		// multisig key count towards the op limit: 181 NOPs + 20-key CHECKMULTISIG = 202 > 201
	}
	for _, nops := range []int{179, 180, 181} {
		keys := make([][]byte, 20)
		for i := range keys {
			keys[i] = k1.Pub
		}
		s := cat(rep(0x61, nops), []byte{0x00, 0x00}, multisigScript(0, keys)[1:])
		run(base1(fmt.Sprintf("limit:ops-multisig-%d+1+20", nops), s, 5000, script.VER_P2SH))
	}
	for _, n := range []int{520, 521} {
		s := cat(pushForm(rep(0x11, n), 2), []byte{0x75, 0x51})
		forFlags(func(fl uint32) { run(base1(fmt.Sprintf("limit:push-%d", n), s, 5000, fl)) })
		// unexecuted branch: the size check still applies
		s2 := cat([]byte{0x00, 0x63}, pushForm(rep(0x11, n), 2), []byte{0x68, 0x51})
		run(base1(fmt.Sprintf("limit:push-unexecuted-%d", n), s2, 5000, 0))
	}

	// ---- P2PK / P2PKH with every hash type, high S, padded DER, hybrid keys
	for _, ht := range []byte{1, 2, 3, 0x81, 0x82, 0x83, 0, 4, 0x80, 0xff} {
		forFlags(func(fl uint32) {
			c := base1(fmt.Sprintf("p2pkh:ht-%02x", ht), p2pkh(k1.Pub), 7000, fl)
			sg := signLegacy(c, p2pkh(k1.Pub), k1, ht)
			c.setSig(cat(pushData(sg), pushData(k1.Pub)))
			run(c)
		})
	}
	forFlags(func(fl uint32) {
		c := base1("p2pk:high-s", p2pk(k1.PubU), 7000, fl)
		c.setSig(pushData(flipS(signLegacy(c, p2pk(k1.PubU), k1, 1))))
		run(c)
		c = base1("p2pk:padded-der", p2pk(k1.Pub), 7000, fl)
		c.setSig(pushData(padDER(signLegacy(c, p2pk(k1.Pub), k1, 1), 2)))
		run(c)
		hyb := append([]byte(nil), k1.PubU...)
		hyb[0] = 6 + (hyb[64] & 1)
		c = base1("p2pk:hybrid-key", p2pk(hyb), 7000, fl)
		c.setSig(pushData(signLegacy(c, p2pk(hyb), k1, 1)))
		run(c)
		// CHECKSIG NOT with a wrong / empty signature (NULLFAIL)
		pk := cat(p2pk(k1.Pub), []byte{0x91})
		c = base1("p2pk:not-wrong-sig", pk, 7000, fl)
		c.setSig(pushData(signLegacy(c, pk, k2, 1)))
		run(c)
		c = base1("p2pk:not-empty-sig", pk, 7000, fl)
		c.setSig([]byte{0x00})
		run(c)
	})

	// ---- FindAndDelete: signature pushed inside the scriptPubKey; ≥76-byte (lax DER) signatures
	for _, pad := range []int{0, 4, 5, 6, 20} {
		for _, fl := range []uint32{0, script.VER_P2SH, script.VER_P2SH | script.VER_CONST_SCRIPTCODE, script.VER_P2SH | script.VER_DERSIG} {
			// scriptPubKey = <sig> DROP <pk> CHECKSIG where sig signs the script WITHOUT its own push
			tail := cat([]byte{0x75}, p2pk(k1.Pub))
			c := base1(fmt.Sprintf("fad:sig-in-script-pad%d", pad), tail, 7000, fl)
			sg := padDER(signLegacy(c, tail, k1, 1), pad)
			if pad == 0 {
				sg = signLegacy(c, tail, k1, 1)
			}
			c.Spent[0].Script = cat(pushData(sg), tail)
			c.setSig(pushData(sg))
			c.Note = fmt.Sprintf("signature of %d bytes", len(sg))
			run(c)
		}
	}

	corpusSizes() // sizes.go: FindAndDelete at the push-encoding edges, tapscript leaves above 10000 bytes, NULLFAIL with 1..2-byte signatures

	// ---- bare multisig m-of-n, n = 0..20 (+21), signature order, NULLDUMMY, NULLFAIL
	for n := 0; n <= 21; n++ {
		keys := make([]*Key, n)
		pubs := make([][]byte, n)
		for i := range keys {
			keys[i] = newKey(g)
			pubs[i] = keys[i].Pub
		}
		m := 0
		if n > 0 {
			m = 1 + g.Intn(n)
		}
		ms := multisigScript(m, pubs)
		for variant := 0; variant < 4; variant++ {
			fl := flagSets[g.Intn(len(flagSets))]
			c := base1(fmt.Sprintf("multisig:%d-of-%d-v%d", m, n, variant), ms, 9000, fl)
			sigs := [][]byte{}
			// choose m keys in order
			pick := map[int]bool{}
			for len(pick) < m {
				pick[g.Intn(n)] = true
			}
			for i := 0; i < n; i++ {
				if pick[i] {
					sigs = append(sigs, signLegacy(c, ms, keys[i], 1))
				}
			}
			dummy := []byte{0x00}
			switch variant {
			case 1: // reversed order
				for i, j := 0, len(sigs)-1; i < j; i, j = i+1, j-1 {
					sigs[i], sigs[j] = sigs[j], sigs[i]
				}
			case 2: // non-null dummy
				dummy = []byte{0x51}
			case 3: // one signature emptied
				if len(sigs) > 0 {
					sigs[g.Intn(len(sigs))] = nil
				}
			}
			s := dummy
			for _, sg := range sigs {
				s = append(s, pushData(sg)...)
			}
			c.setSig(s)
			run(c)
			// the same inside P2SH and P2WSH
			c2 := base1(fmt.Sprintf("p2sh-multisig:%d-of-%d-v%d", m, n, variant), p2sh(ms), 9000, fl|script.VER_P2SH)
			c2.setSig(cat(s, pushData(ms)))
			if len(ms) <= 520 {
				// signatures cover the redeem script
				s2 := append([]byte(nil), dummy...)
				for i := range sigs {
					if sigs[i] != nil {
						s2 = append(s2, pushData(sigs[i])...)
					} else {
						s2 = append(s2, 0)
					}
				}
				c2.setSig(cat(s2, pushData(ms)))
				run(c2)
			}
			c3 := base1(fmt.Sprintf("p2wsh-multisig:%d-of-%d-v%d", m, n, variant), p2wsh(ms), 9000, fl|script.VER_P2SH|script.VER_WITNESS)
			w := [][]byte{{}}
			if variant == 2 {
				w = [][]byte{{1}}
			}
			for i := 0; i < n; i++ {
				if pick[i] {
					w = append(w, signWitV0(c3, ms, keys[i], 1))
				}
			}
			if variant == 1 && len(w) > 2 {
				w[1], w[len(w)-1] = w[len(w)-1], w[1]
			}
			w = append(w, ms)
			c3.setWit(w...)
			run(c3)
		}
	}

	// ---- CLTV / CSV operands of 0..6 bytes, against several lock times / sequences / versions
	operands := [][]byte{{}, {0}, {1}, {0x7f}, {0x80}, {0xff, 0}, {0xff, 0x7f}, {0, 0, 1}, {0xff, 0xff, 0xff, 0x7f}, {0, 0, 0, 0x80}, {0, 0, 0, 0x80, 0},
		{0xff, 0xff, 0xff, 0xff, 0x7f}, {0, 0x65, 0xcd, 0x1d}, {0xff, 0x64, 0xcd, 0x1d}, {0, 0, 0x40, 0}, {0, 0, 0, 0, 0, 1}, {1, 0}, {0, 0, 0, 0, 0x80}, {0x81}}
	for _, opc := range []byte{0xb1, 0xb2} {
		for _, opnd := range operands {
			for _, lt := range []uint32{0, 1, 499999999, 500000000, 0xffffffff} {
				for _, sq := range []uint32{0, 1, 0x0000ffff, 0x00400000, 0x00400001, 0x80000000, 0xfffffffe, 0xffffffff} {
					if g.Intn(4) != 0 {
						continue
					}
					for _, fl := range []uint32{script.VER_CLTV | script.VER_CSV, script.VER_CLTV | script.VER_CSV | script.VER_MINDATA, 0, script.VER_BLOCK_OPS} {
						s := cat(pushForm(opnd, 0), []byte{opc, 0x75, 0x51})
						c := base1(fmt.Sprintf("locktime:%02x-len%d", opc, len(opnd)), s, 5000, fl)
						c.LockTime = lt
						c.Ins[0].Sequence = sq
						c.Version = uint32(1 + g.Intn(2))
						if g.Bool() { // BIP68/112 read the version as an UNSIGNED 32-bit number: 0 and 1 fail CSV, everything else does not
							c.Version = []uint32{0, 1, 2, 3, 0x7fffffff, 0x80000000, 0x80000001, 0x80000002, 0xfffffffe, 0xffffffff}[g.Intn(10)]
						}
						run(c)
					}
				}
			}
		}
	}

	// ---- segwit v0: P2WPKH, P2SH-P2WPKH, P2WSH; malleation, wrong lengths, uncompressed keys, versions 0..16
	forFlags(func(fl uint32) {
		c := base1("p2wpkh:valid", p2wpkh(k1.Pub), 8000, fl)
		c.setWit(signWitV0(c, p2pkh(k1.Pub), k1, 1), k1.Pub)
		run(c)
		c = base1("p2wpkh:uncompressed", p2wpkh(k1.PubU), 8000, fl)
		c.setWit(signWitV0(c, p2pkh(k1.PubU), k1, 1), k1.PubU)
		run(c)
		c = base1("p2wpkh:sigscript-not-empty", p2wpkh(k1.Pub), 8000, fl)
		c.setWit(signWitV0(c, p2pkh(k1.Pub), k1, 1), k1.Pub)
		c.setSig([]byte{0x00})
		run(c)
		c = base1("p2wpkh:three-items", p2wpkh(k1.Pub), 8000, fl)
		c.setWit([]byte{}, signWitV0(c, p2pkh(k1.Pub), k1, 1), k1.Pub)
		run(c)
		red := p2wpkh(k1.Pub)
		c = base1("p2sh-p2wpkh:valid", p2sh(red), 8000, fl)
		c.setWit(signWitV0(c, p2pkh(k1.Pub), k1, 1), k1.Pub)
		c.setSig(pushData(red))
		run(c)
		c = base1("p2sh-p2wpkh:malleated-push", p2sh(red), 8000, fl)
		c.setWit(signWitV0(c, p2pkh(k1.Pub), k1, 1), k1.Pub)
		c.setSig(pushForm(red, 1))
		run(c)
		c = base1("p2sh-p2wpkh:extra-push", p2sh(red), 8000, fl)
		c.setWit(signWitV0(c, p2pkh(k1.Pub), k1, 1), k1.Pub)
		c.setSig(cat([]byte{0x51}, pushData(red)))
		run(c)
		c = base1("witness:unexpected", p2pkh(k1.Pub), 8000, fl)
		c.setSig(cat(pushData(signLegacy(c, p2pkh(k1.Pub), k1, 1)), pushData(k1.Pub)))
		c.setWit([]byte{1})
		run(c)
		ws := cat(p2pk(k1.Pub))
		c = base1("p2wsh:valid", p2wsh(ws), 8000, fl)
		c.setWit(signWitV0(c, ws, k1, 1), ws)
		run(c)
		c = base1("p2wsh:empty-witness", p2wsh(ws), 8000, fl)
		run(c)
		c = base1("p2wsh:mismatch", p2wsh(ws), 8000, fl)
		c.setWit(signWitV0(c, ws, k1, 1), append(ws, 0x61))
		run(c)
		c = base1("p2wsh:not-clean", p2wsh(cat([]byte{0x51}, ws)), 8000, fl)
		c.setWit(signWitV0(c, cat([]byte{0x51}, ws), k1, 1), cat([]byte{0x51}, ws))
		run(c)
		c = base1("p2wsh:521-byte-item", p2wsh([]byte{0x75, 0x51}), 8000, fl)
		c.setWit(rep(1, 521), []byte{0x75, 0x51})
		run(c)
		c = base1("p2wsh:minimalif", p2wsh([]byte{0x63, 0x51, 0x67, 0x51, 0x68}), 8000, fl)
		c.setWit([]byte{2}, []byte{0x63, 0x51, 0x67, 0x51, 0x68})
		run(c)
		red2 := p2wsh(ws)
		c = base1("p2sh-p2wsh:valid", p2sh(red2), 8000, fl)
		c.setWit(signWitV0(c, ws, k1, 1), ws)
		c.setSig(pushData(red2))
		run(c)
	})
	for ver := 0; ver <= 16; ver++ {
		for _, plen := range []int{1, 2, 20, 21, 32, 33, 40, 41} {
			for _, fl := range []uint32{script.VER_P2SH | script.VER_WITNESS, script.VER_P2SH | script.VER_WITNESS | script.VER_WITNESS_PROG, consensusFlags, script.VER_P2SH} {
				prog := witprog(ver, g.Bytes(plen))
				c := base1(fmt.Sprintf("witver:%d-len%d", ver, plen), prog, 8000, fl)
				if g.Bool() {
					c.setWit(g.Bytes(3))
				}
				run(c)
				c = base1(fmt.Sprintf("p2sh-witver:%d-len%d", ver, plen), p2sh(prog), 8000, fl)
				c.setSig(pushData(prog))
				c.setWit(g.Bytes(2))
				run(c)
			}
		}
	}

	// ---- taproot
	tk := newTapKey(g)
	leafKey := newTapKey(g)
	// multi: nIns inputs (all spending pk), nOuts outputs, input idx under test
	multi := func(kind string, pk []byte, fl uint32, nIns, nOuts, idx int) *Case {
		c := base1(kind, pk, 9000, fl)
		for i := 1; i < nIns; i++ {
			c.Ins = append(c.Ins, In{PrevHash: sha2([]byte(fmt.Sprint("input-", i))), Vout: uint32(i), Sequence: 0xffffffff})
			c.Spent = append(c.Spent, Out{Value: 9000, Script: pk})
		}
		for i := 1; i < nOuts; i++ {
			c.Outs = append(c.Outs, Out{Value: 1000 + uint64(i), Script: HexB{0x51, byte(i)}})
		}
		c.Idx = idx
		return c
	}
	// SIGHASH_SINGLE against the number of outputs: the last input WITH a matching output (valid), the first one
	// without (idx == #outputs) and one further (idx > #outputs): BIP341 defines no message there, the spend is invalid
	singleShapes := []struct {
		name             string
		nIns, nOuts, idx int
	}{{"single-last-output", 3, 2, 1}, {"single-no-output", 2, 1, 1}, {"single-idx-gt-outputs", 3, 1, 2}, {"single-idx-gt-outputs+2", 5, 2, 4}}
	for _, fl := range tapFlags {
		outX, _, tweak := tapOutput(tk.X, nil)
		pk := witprog(1, outX)
		dpriv := tapTweakPriv(tk.Priv, tweak)
		for _, ht := range []byte{0, 1, 2, 3, 0x81, 0x82, 0x83, 4, 0x80, 0x84, 0xff, 0x7f} {
			c := base1(fmt.Sprintf("p2tr-key:ht-%02x", ht), pk, 9000, fl)
			c.setWit(signTap(c, g, dpriv, nil, nil, 0, ht, false))
			run(c)
		}
		for _, sh := range singleShapes {
			for _, ht := range []byte{3, 0x83, 1, 2} {
				c := multi(fmt.Sprintf("p2tr-key:%s-%02x", sh.name, ht), pk, fl, sh.nIns, sh.nOuts, sh.idx)
				c.setWit(signTap(c, g, dpriv, nil, nil, 0, ht, false))
				run(c)
			}
		}
		c := base1("p2tr-key:annex", pk, 9000, fl)
		annex := cat([]byte{0x50}, g.Bytes(7))
		c.setWit(signTap(c, g, dpriv, annex, nil, 0, 0, false), annex)
		run(c)
		c = base1("p2tr-key:annex-unsigned", pk, 9000, fl)
		c.setWit(signTap(c, g, dpriv, nil, nil, 0, 0, false), annex)
		run(c)
		c = base1("p2tr-key:only-annex", pk, 9000, fl)
		c.setWit(annex)
		run(c)
		c = base1("p2tr-key:explicit-default-byte", pk, 9000, fl)
		c.setWit(append(signTap(c, g, dpriv, nil, nil, 0, 0, false), 0))
		run(c)
		c = base1("p2tr-key:63-bytes", pk, 9000, fl)
		c.setWit(signTap(c, g, dpriv, nil, nil, 0, 0, false)[:63])
		run(c)
		c = base1("p2tr-key:wrong-key", pk, 9000, fl)
		c.setWit(signTap(c, g, tk.Priv, nil, nil, 0, 0, false))
		run(c)
		c = base1("p2tr-key:empty-witness", pk, 9000, fl)
		run(c)
		c = base1("p2sh-p2tr", p2sh(pk), 9000, fl)
		c.setSig(pushData(pk))
		c.setWit(signTap(c, g, dpriv, nil, nil, 0, 0, false))
		run(c)

		// script path: leaf = <leafKey> CHECKSIG, tree of depth 0, 1, 2
		leafScr := cat(pushData(leafKey.X), []byte{0xac})
		{ // the SIGHASH_SINGLE shapes on the script path (tapscript <key> CHECKSIG leaf)
			lh := tapLeaf(0xc0, leafScr)
			qx, par, _ := tapOutput(tk.X, lh)
			ctl0 := byte(0xc0)
			if par {
				ctl0 |= 1
			}
			for _, sh := range singleShapes {
				for _, ht := range []byte{3, 0x83, 1} {
					c := multi(fmt.Sprintf("p2tr-script:%s-%02x", sh.name, ht), witprog(1, qx), fl, sh.nIns, sh.nOuts, sh.idx)
					c.setWit(signTap(c, g, leafKey.Priv, nil, lh, 0xffffffff, ht, true), leafScr, cat([]byte{ctl0}, tk.X))
					run(c)
				}
			}
		}
		for _, depth := range []int{0, 1, 2, 127, 128, 129} {
			lh := tapLeaf(0xc0, leafScr)
			root := lh
			var path []byte
			for d := 0; d < depth; d++ {
				sib := g.Bytes(32)
				path = append(path, sib...)
				root = tapBranch(root, sib)
			}
			qx, par, _ := tapOutput(tk.X, root)
			pk := witprog(1, qx)
			ctl0 := byte(0xc0)
			if par {
				ctl0 |= 1
			}
			control := cat([]byte{ctl0}, tk.X, path)
			mk := func(kind string) *Case {
				return base1(fmt.Sprintf("p2tr-script:%s-depth%d", kind, depth), pk, 9000, fl)
			}
			c := mk("valid")
			c.setWit(signTap(c, g, leafKey.Priv, nil, lh, 0xffffffff, 0, true), leafScr, control)
			run(c)
			c = mk("valid-annex")
			c.setWit(signTap(c, g, leafKey.Priv, annex, lh, 0xffffffff, 1, true), leafScr, control, annex)
			run(c)
			if depth > 2 {
				continue // deep trees: only the commitment-valid spends (control block of 33+32*depth bytes)
			}
			c = mk("wrong-parity")
			c.setWit(signTap(c, g, leafKey.Priv, nil, lh, 0xffffffff, 0, true), leafScr, cat([]byte{ctl0 ^ 1}, tk.X, path))
			run(c)
			c = mk("empty-sig")
			c.setWit([]byte{}, leafScr, control)
			run(c)
			c = mk("undefined-hashtype")
			c.setWit(signTap(c, g, leafKey.Priv, nil, lh, 0xffffffff, 5, true), leafScr, control)
			run(c)
			for _, clen := range []int{0, 1, 32, 33, 34, 64, 65, 66, 33 + 32*128, 33 + 32*129, 33 + 32*128 + 1} {
				c = mk(fmt.Sprintf("control-len-%d", clen))
				ctl := append([]byte(nil), control...)
				for len(ctl) < clen {
					ctl = append(ctl, g.Bytes(32)...)
				}
				c.setWit(signTap(c, g, leafKey.Priv, nil, lh, 0xffffffff, 0, true), leafScr, ctl[:clen])
				run(c)
			}
		}
		// unknown leaf version, OP_SUCCESS at every position, internal keys that are not on the curve
		for _, lv := range []byte{0xc2, 0x50, 0xfe, 0x00} {
			scr := []byte{0x6a}
			lh := tapLeaf(lv, scr)
			qx, par, _ := tapOutput(tk.X, lh)
			c0 := lv
			if par {
				c0 |= 1
			}
			c := base1(fmt.Sprintf("p2tr-script:leaf-version-%02x", lv), witprog(1, qx), 9000, fl)
			c.setWit(scr, cat([]byte{c0}, tk.X))
			run(c)
		}
		for _, op := range []byte{0x50, 0x62, 0x7e, 0x89, 0x8d, 0x95, 0xbb, 0xfe, 0xff, 0xba, 0x65} {
			for pos, scr := range [][]byte{{op}, {0x51, op}, {0x00, 0x63, op, 0x68, 0x51}, {0x6a, op}, {op, 0x4c}, {0x4c, op}, {0x02, op, op, 0x51}, {0x51, 0x4d, 0xff, op}} {
				lh := tapLeaf(0xc0, scr)
				qx, par, _ := tapOutput(tk.X, lh)
				c0 := byte(0xc0)
				if par {
					c0 |= 1
				}
				c := base1(fmt.Sprintf("p2tr-script:opsuccess-%02x-pos%d", op, pos), witprog(1, qx), 9000, fl)
				c.setWit(rep(7, 600), scr, cat([]byte{c0}, tk.X)) // 600-byte item: OP_SUCCESS overrides the element size limit
				run(c)
			}
		}
		for i, bad := range [][]byte{rep(0xff, 32), cat(rep(0xff, 27), []byte{0xfe, 0xff, 0xff, 0xfc, 0x2f}), cat(rep(0, 31), []byte{5}), rep(0, 32), cat(rep(0, 31), []byte{7})} {
			scr := []byte{0x51}
			lh := tapLeaf(0xc0, scr)
			qx, par, _ := tapOutput(bad, lh)
			c0 := byte(0xc0)
			if par {
				c0 |= 1
			}
			c := base1(fmt.Sprintf("p2tr-script:internal-key-not-liftable-%d", i), witprog(1, qx), 9000, fl)
			c.setWit(scr, cat([]byte{c0}, bad))
			run(c)
			c = base1(fmt.Sprintf("p2tr-script:internal-key-not-liftable-%d-q=p", i), witprog(1, bad), 9000, fl)
			c.setWit(scr, cat([]byte{c0}, bad))
			run(c)
		}
		// tapscript specifics: CHECKSIGADD 2-of-3, CHECKMULTISIG, MINIMALIF, 1000/1001 initial items, sigop budget, key types
		kA, kB, kC := newTapKey(g), newTapKey(g), newTapKey(g)
		tscripts := map[string][]byte{
			"csa-2of3":       cat(pushData(kA.X), []byte{0xac}, pushData(kB.X), []byte{0xba}, pushData(kC.X), []byte{0xba, 0x52, 0x87}),
			"checkmultisig":  cat([]byte{0x00, 0x00, 0x00, 0xae}),
			"minimalif":      {0x63, 0x51, 0x67, 0x51, 0x68},
			"budget":         cat(pushData(kA.X), rep(0x6e, 6), rep(0xad, 6), []byte{0xac}),
			"unknown-key-33": cat(pushData(append([]byte{1}, kA.X...)), []byte{0xac}),
			"empty-key":      cat([]byte{0x00, 0xac}),
			"codesep":        cat([]byte{0xab}, pushData(kA.X), []byte{0xad, 0xab}, pushData(kB.X), []byte{0xac}),
			"big-script":     cat(rep(0x61, 10500), []byte{0x51}),
		}
		tnames := make([]string, 0, len(tscripts))
		for name := range tscripts {
			tnames = append(tnames, name)
		}
		sort.Strings(tnames) // map order is random; the PRNG stream (signature aux data) must not depend on it
		for _, name := range tnames {
			scr := tscripts[name]
			lh := tapLeaf(0xc0, scr)
			qx, par, _ := tapOutput(tk.X, lh)
			c0 := byte(0xc0)
			if par {
				c0 |= 1
			}
			control := cat([]byte{c0}, tk.X)
			mk := func(v string) *Case { return base1("tapscript:"+name+"-"+v, witprog(1, qx), 9000, fl) }
			switch name {
			case "csa-2of3":
				for v, who := range [][3]bool{{true, true, false}, {true, false, true}, {false, true, true}, {true, false, false}, {true, true, true}} {
					c := mk(fmt.Sprint(v))
					w := [][]byte{}
					for i, k := range []*TapKey{kC, kB, kA} { // witness order: last key's signature first
						if who[2-i] {
							w = append(w, signTap(c, g, k.Priv, nil, lh, 0xffffffff, 0, true))
						} else {
							w = append(w, []byte{})
						}
					}
					c.setWit(append(w, scr, control)...)
					run(c)
				}
			case "minimalif":
				for _, arg := range [][]byte{{}, {1}, {2}, {1, 0}, {0}} {
					c := mk(hex.EncodeToString(arg))
					c.setWit(arg, scr, control)
					run(c)
				}
			case "budget":
				for _, padlen := range []int{0, 100, 250, 300} {
					c := mk(fmt.Sprint(padlen))
					// a padding item raises the budget; drop it first
					scr2 := scr
					if padlen > 0 {
						scr2 = cat([]byte{0x75}, scr)
					}
					lh2 := tapLeaf(0xc0, scr2)
					qx2, par2, _ := tapOutput(tk.X, lh2)
					c02 := byte(0xc0)
					if par2 {
						c02 |= 1
					}
					c.Spent[0].Script = witprog(1, qx2)
					w := [][]byte{signTap(c, g, kA.Priv, nil, lh2, 0xffffffff, 0, true)}
					if padlen > 0 {
						w = append(w, rep(9, padlen))
					}
					c.setWit(append(w, scr2, cat([]byte{c02}, tk.X))...)
					run(c)
				}
			case "codesep":
				c := mk("0")
				s2 := signTap(c, g, kB.Priv, nil, lh, 3, 0, true)
				s1 := signTap(c, g, kA.Priv, nil, lh, 0, 0, true)
				c.setWit(s2, s1, scr, control)
				run(c)
				c = mk("wrong-pos")
				c.setWit(signTap(c, g, kB.Priv, nil, lh, 0, 0, true), s1, scr, control)
				run(c)
			default:
				c := mk("0")
				c.setWit(signTap(c, g, kA.Priv, nil, lh, 0xffffffff, 0, true), scr, control)
				run(c)
				c = mk("empty-sig")
				c.setWit([]byte{}, scr, control)
				run(c)
			}
		}
		for _, n := range []int{999, 1000, 1001} {
			scr := rep(0x75, n-1)
			lh := tapLeaf(0xc0, scr)
			qx, par, _ := tapOutput(tk.X, lh)
			c0 := byte(0xc0)
			if par {
				c0 |= 1
			}
			c := base1(fmt.Sprintf("tapscript:initial-stack-%d", n), witprog(1, qx), 9000, fl)
			w := make([][]byte, n)
			for i := range w {
				w[i] = []byte{1}
			}
			c.setWit(append(w, scr, cat([]byte{c0}, tk.X))...)
			run(c)
		}
	}

	// ---- tapscript sigop budget: 50 + size of the WHOLE witness against 50 per check with a non-empty signature,
	// exactly at the boundary (accepted), one below (rejected), one above; the slack supplied by NOPs in the script,
	// by a dropped padding item, by the annex, by a deeper control block
	{
		bt, bA := newTapKey(g), newTapKey(g)
		brun := func(sp budgetSpec) {
			c, _, delta := budgetCase(g, bt, bA, sp)
			r.Hit("budget:delta-" + deltaClass(delta))
			run(c)
		}
		dis := uint32(consensusFlags | script.VER_DIS_PUBKEYTYPE)
		for _, kind := range []string{"A", "U"} {
			// below these k the untuned witness already exceeds 50·k: slack only (the whole-witness rule is what makes them valid)
			for k := 1; k <= 3; k++ {
				for _, fl := range []uint32{consensusFlags, stdFlags, dis} {
					brun(budgetSpec{Checks: strings.Repeat(kind, k), Tune: tuneNone, Flags: fl})
					brun(budgetSpec{Checks: strings.Repeat(kind, k), Tune: tuneNone, Flags: fl, Annex: 9, Depth: 1, Ht: 1})
				}
			}
			ks := []int{4, 5, 7, 10}
			if kind == "U" {
				ks = []int{3, 4, 6, 9}
			}
			for _, k := range ks {
				checks := strings.Repeat(kind, k)
				for _, delta := range []int{0, -1, 1} {
					for _, tune := range []int{tuneNops, tunePad, tuneAnnex} {
						brun(budgetSpec{Checks: checks, Tune: tune, Delta: delta, Flags: consensusFlags})
					}
					// the deepest control block that still leaves room, fine-tuned by NOPs / by the annex; one level deeper overshoots
					room := 50*k - (50 + map[string]int{"A": 135, "U": 73}[kind] + 2*(k-1))
					if d := room / 32; d >= 1 {
						if d > 4 {
							d = 4
						}
						brun(budgetSpec{Checks: checks, Tune: tuneNops, Delta: delta, Depth: d, Flags: consensusFlags})
						brun(budgetSpec{Checks: checks, Tune: tuneAnnex, Delta: delta, Depth: d, Flags: consensusFlags, Ht: 1})
						brun(budgetSpec{Checks: checks, Tune: tunePad, Delta: delta, Depth: 1, Annex: 3, Flags: consensusFlags})
					}
				}
				// the other flag sets at the boundary and just below it
				for _, fl := range []uint32{script.STANDARD_VERIFY_FLAGS, stdFlags, consensusFlags &^ script.VER_TAPROOT, dis} {
					brun(budgetSpec{Checks: checks, Tune: tuneNops, Delta: 0, Flags: fl})
					brun(budgetSpec{Checks: checks, Tune: tuneNops, Delta: -1, Flags: fl})
				}
			}
		}
		// the depth of the control block alone decides (no NOPs, no padding, no annex): 7 real-key checks need 350, the
		// witness gives 197+32·depth (valid from depth 5); 6 unknown-key checks need 300, the witness gives 133+32·depth (from 6)
		for d := 3; d <= 7; d++ {
			brun(budgetSpec{Checks: "AAAAAAA", Tune: tuneNone, Depth: d, Flags: consensusFlags})
			brun(budgetSpec{Checks: "UUUUUU", Tune: tuneNone, Depth: d, Flags: consensusFlags})
		}
		// mixed key kinds, CHECKSIGADD, empty signatures (free of charge) in between
		for _, checks := range []string{"AaUue", "eeeAaAaAe", "UuUuUuUu", "aaaaaaaaaa", "AUeaueAUeau"} {
			for _, delta := range []int{0, -1, 1} {
				for _, tune := range []int{tuneNops, tunePad, tuneAnnex} {
					brun(budgetSpec{Checks: checks, Pick: true, Tune: tune, Delta: delta, Flags: consensusFlags, SigULen: 1 + delta + 1})
				}
			}
			brun(budgetSpec{Checks: checks, Pick: true, Tune: tuneNops, Delta: 0, Flags: dis})
			brun(budgetSpec{Checks: checks, Pick: true, Tune: tuneNops, Delta: 0, Flags: stdFlags, Depth: 2, Annex: 260})
		}
	}

	// ---- panic paths of VerifyTxScript: flag sets outside FlagsOk
	for _, fl := range []uint32{script.VER_CLEANSTACK, script.VER_WITNESS, script.VER_CLEANSTACK | script.VER_WITNESS, script.VER_TAPROOT, script.VER_TAPROOT | script.VER_P2SH, script.VER_CLEANSTACK | script.VER_P2SH} {
		run(base1("badflags:op1", []byte{0x51}, 1000, fl))
		run(base1("badflags:op0", []byte{0x00}, 1000, fl))
		c := base1("badflags:p2wpkh", p2wpkh(k1.Pub), 8000, fl)
		c.setWit(signWitV0(c, p2pkh(k1.Pub), k1, 1), k1.Pub)
		run(c)
	}
	// P2SH with an empty scriptSig (the stack.pop() of the P2SH branch must not be reached)
	forFlags(func(fl uint32) {
		run(base1("p2sh:empty-sigscript", p2sh([]byte{0x51}), 1000, fl))
		c := base1("p2sh:op1", p2sh([]byte{0x51}), 1000, fl)
		c.setSig(pushData([]byte{0x51}))
		run(c)
		c = base1("p2sh:non-push-sigscript", p2sh([]byte{0x51}), 1000, fl)
		c.setSig(cat([]byte{0x61}, pushForm([]byte{0x51}, 0)))
		run(c)
		c = base1("p2sh:redeem-false", p2sh([]byte{0x00}), 1000, fl)
		c.setSig(pushForm([]byte{0x00}, 0))
		run(c)
	})

	// ---- the hash-type byte of an ECDSA signature, ALL 256 values (consensus flags: no STRICTENC, so none is refused):
	// bits 0..4 select NONE (2) / SINGLE (3) / ALL (everything else), bit 7 ANYONECANPAY, bits 5..6 only enter the
	// message. Each spend form × two transaction shapes (input under test WITH and WITHOUT an output of its index),
	// signed over the reference digest: valid. Then the same spend with a part of the transaction changed AFTER signing;
	// whether it stays valid is the rule "what does this hash type commit to", written down here independently:
	//   output 0 changed       — still valid iff NONE, or SINGLE and the input's own output is not output 0
	//   input 0's sequence changed (not the input under test) — still valid iff ANYONECANPAY, NONE or SINGLE
	type htForm struct {
		name string
		pk   []byte
		sign func(c *Case, ht byte)
	}
	wsScr := cat(pushData(k2.Pub), []byte{0xac})
	forms := []htForm{
		{"p2pkh", p2pkh(k1.Pub), func(c *Case, ht byte) {
			c.setSig(cat(pushData(signLegacy(c, p2pkh(k1.Pub), k1, ht)), pushData(k1.Pub)))
		}},
		{"p2wpkh", p2wpkh(k1.Pub), func(c *Case, ht byte) { c.setWit(signWitV0(c, p2pkh(k1.Pub), k1, ht), k1.Pub) }},
		{"p2wsh-checksig", p2wsh(wsScr), func(c *Case, ht byte) { c.setWit(signWitV0(c, wsScr, k2, ht), wsScr) }},
	}
	shapes := []struct{ nIns, nOuts, idx int }{{2, 2, 1}, {3, 1, 2}}
	for _, f := range forms {
		for si, sh := range shapes {
			for h := 0; h < 256; h++ {
				ht := byte(h)
				if r.Tier != "thorough" && si == 1 && h%32 > 4 && h%32 < 30 {
					continue // quick: the second shape only around the boundaries of the five-bit field
				}
				mk := func(variant string) *Case {
					c := multi(fmt.Sprintf("hashtype:%s-%din%dout-%s", f.name, sh.nIns, sh.nOuts, variant), f.pk, consensusFlags, sh.nIns, sh.nOuts, sh.idx)
					c.Ins[sh.idx].Sequence = 0xfffffffe
					c.Ins[0].Sequence = 0xfffffffd
					c.Note = fmt.Sprintf("hash type %#02x", ht)
					f.sign(c, ht)
					return c
				}
				c := mk("signed")
				c.Expect = "OK"
				run(c)
				base := ht & 0x1f
				c = mk("output0-changed")
				c.Outs[0].Value++
				c.Expect = "ERR"
				if base == 2 || (base == 3 && sh.idx != 0) {
					c.Expect = "OK"
				}
				run(c)
				c = mk("other-sequence-changed")
				c.Ins[0].Sequence ^= 1
				c.Expect = "ERR"
				if ht&0x80 != 0 || base == 2 || base == 3 {
					c.Expect = "OK"
				}
				run(c)
			}
		}
	}
}
