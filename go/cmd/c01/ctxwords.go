package main

// The fixed-width words of the spending transaction that script evaluation READS (not only hashes): the 32-bit
// version, the 32-bit lock time, the 32-bit sequence of the input under test. The rules interpret every one of them
// as an UNSIGNED 32-bit quantity (BIP68/112: static_cast<uint32_t>(nVersion) < 2; BIP65: nLockTime against the
// 500000000 threshold; sequence masks and the 0xffffffff "final" value), so an implementation that goes through a
// signed type, a narrower type or a wrong mask differs only on words near 2^31 / 2^32 or around a mask bit. The
// generators of this file draw these words over their WHOLE width with the signedness and mask edges over-weighted,
// and lockStream builds OP_CHECKLOCKTIMEVERIFY / OP_CHECKSEQUENCEVERIFY spends whose operand sits at / next to the
// value the context satisfies, so that the opcode's verdict is decided by the context words and nothing else.

import (
	"fmt"

	"github.com/piotrnar/gocoin/lib/script"
	"verif/vlib"
)

// ctxWord: a 32-bit word - edges of the unsigned / signed ranges, the given field-specific edges, a small value with
// the top bit set, or any 32-bit value.
func ctxWord(g *vlib.Rng, edges ...uint32) uint32 {
	switch g.Intn(8) {
	case 0, 1:
		return uint32(g.Intn(4))
	case 2:
		return []uint32{0x7ffffffe, 0x7fffffff, 0x80000000, 0x80000001, 0x80000002, 0x80000003, 0xfffffffe, 0xffffffff}[g.Intn(8)]
	case 3, 4:
		if len(edges) > 0 {
			return edges[g.Intn(len(edges))]
		}
		return uint32(g.Intn(4))
	case 5:
		return 0x80000000 | uint32(g.Intn(1<<16))
	case 6:
		return uint32(g.Intn(1 << 24))
	}
	return uint32(g.U64())
}

// pickVersion: transaction version. 1 and 2 (what wallets make) half of the time, else the whole 32-bit range.
func pickVersion(g *vlib.Rng) uint32 {
	if g.Bool() {
		return uint32(1 + g.Intn(2))
	}
	return ctxWord(g, 1, 2, 3, 4)
}

func pickLockTime(g *vlib.Rng) uint32 {
	return ctxWord(g, 0, 100, 499999999, 500000000, 500000001, 500000100, 0x7fffffff, 0x80000000)
}

func pickSequence(g *vlib.Rng) uint32 {
	return ctxWord(g, 0, 5, 0xffff, 0x10000, 0x00400000, 0x00400005, 0x0040ffff, 0x00410005, 0x80000005, 0x80400005, 0xffbfffff, 0xfffffffe, 0xffffffff)
}

func wordClass(v uint32) string {
	switch {
	case v < 2:
		return fmt.Sprint(v)
	case v < 4:
		return "2..3"
	case v < 0x80000000:
		return "4..2^31-1"
	}
	return ">=2^31"
}

const seqTypeFlag, seqMask, seqDisable = uint32(1 << 22), uint32(0x0000ffff), uint32(1 << 31)

// lockOperand: the number an OP_CHECKLOCKTIMEVERIFY (cltv) / OP_CHECKSEQUENCEVERIFY spend puts in front of the
// opcode, chosen relative to the word of the context it is compared with: equal, one off, the other lock type,
// disable bit, negative, beyond 32 bits, anything.
func lockOperand(g *vlib.Rng, cltv bool, lock, seq uint32) (n int64, how string) {
	var base int64
	if cltv {
		base = int64(lock)
	} else {
		base = int64(seq & (seqTypeFlag | seqMask))
	}
	switch g.Intn(12) {
	case 0, 1, 2, 3:
		return base, "equal"
	case 4:
		return base - 1, "minus1"
	case 5:
		return base + 1, "plus1"
	case 6: // the other lock type
		if cltv {
			if base < 500000000 {
				return base + 500000000, "other-type"
			}
			return base - 500000000, "other-type"
		}
		return base ^ int64(seqTypeFlag), "other-type"
	case 7:
		if cltv {
			return 0, "zero"
		}
		return base | int64(seqDisable), "disable-bit"
	case 8:
		if cltv {
			return base, "equal"
		}
		return int64(seq), "raw-sequence" // unmasked bits set in the operand
	case 9:
		return -base - int64(g.Intn(2)), "negative"
	case 10:
		return base + (int64(1+g.Intn(255)) << 32), "above-32-bits"
	}
	return int64(g.U64() >> uint(24+g.Intn(40))), "random"
}

// lockStream: the context-word family. Every case is `<n> OP_CLTV|OP_CSV` followed by DROP 1 (or nothing, or VERIFY-
// style garbage), in bare / P2SH / P2WSH / tapscript form or as a direct evalScript call, in a transaction whose
// version, lock time and sequence are ctxWords.
func lockStream(g *vlib.Rng, n int) {
	tk := newTapKey(g)
	for i := 0; i < n; i++ {
		cltv := g.Bool()
		opc, name := byte(0xb2), "csv"
		if cltv {
			opc, name = 0xb1, "cltv"
		}
		ver, lock, seq := pickVersion(g), pickLockTime(g), pickSequence(g)
		if g.Intn(3) == 0 { // the plainly satisfiable context
			ver = uint32(g.Pick(2, 2, 3))
			if g.Intn(3) == 0 {
				ver |= 1 << 31
			}
		}
		num, how := lockOperand(g, cltv, lock, seq)
		opnd := scriptNum(num)
		form := 0
		switch g.Intn(10) {
		case 0: // non-minimal number: one more zero byte (MINIMALDATA decides; may also pass 5 bytes)
			if len(opnd) > 0 && opnd[len(opnd)-1]&0x80 == 0 {
				opnd = append(opnd, 0)
			} else if len(opnd) == 0 {
				opnd = []byte{0}
			}
			r.Hit("lock:operand-form-padded-number")
		case 1:
			form = 1 // PUSHDATA1 of a short item: non-minimal push
			r.Hit("lock:operand-form-pushdata1")
		}
		var push []byte
		if form == 0 && g.Intn(4) != 0 {
			push = pushData(opnd)
		} else {
			push = pushForm(opnd, form)
		}
		tail := [][]byte{{0x75, 0x51}, {0x75, 0x51}, {0x75, 0x51}, {}, {0x69, 0x51}, {0x75, 0x00}}[g.Intn(6)]
		s := cat(push, []byte{opc}, tail)
		var fl uint32
		switch g.Intn(6) {
		case 0:
			fl = randFlags(g)
		case 1:
			fl = consensusFlags | script.VER_MINDATA
		case 2:
			fl = consensusFlags &^ (script.VER_CLTV | script.VER_CSV) // both opcodes are NOPs
		default:
			fl = consensusFlags
		}
		r.Hit("lock:" + name + "-operand-" + how)
		r.Hit("lock:version-" + wordClass(ver))
		wrap := g.Intn(6)
		if wrap == 5 {
			e := &EvalCase{Kind: "lock-eval:" + name, Flags: fl, SV: g.Pick(0, 1, 3), Version: ver, LockTime: lock, Sequence: seq,
				Weight: 1000, Script: s, Leaf: g.Bytes(32)}
			runEval(e)
			continue
		}
		var c *Case
		switch wrap {
		case 0, 1:
			c = base1("lock:"+name+"-bare", s, 5000, fl)
		case 2:
			c = base1("lock:"+name+"-p2sh", p2sh(s), 5000, fl)
			c.setSig(pushData(s))
		case 3:
			c = base1("lock:"+name+"-p2wsh", p2wsh(s), 5000, fl)
			c.setWit(s)
		default:
			lh := tapLeaf(0xc0, s)
			qx, par, _ := tapOutput(tk.X, lh)
			c0 := byte(0xc0)
			if par {
				c0 |= 1
			}
			c = base1("lock:"+name+"-tapscript", witprog(1, qx), 5000, fl)
			c.setWit(s, cat([]byte{c0}, tk.X))
		}
		c.Version, c.LockTime = ver, lock
		c.Ins[c.Idx].Sequence = seq
		_, _, spec := runCase(c)
		if spec == "OK" {
			r.Hit("lock:" + name + "-valid-by-the-rules:version-" + wordClass(ver))
		} else {
			r.Hit("lock:" + name + "-invalid-by-the-rules")
		}
	}
}
