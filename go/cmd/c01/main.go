// c01 — correspondence harness + property search for C01 (script verification = Bitcoin consensus rules).
//
//	real code : script.VerifyTxScript (with recover: an escaping panic is a property failure) and, through
//	            lib/script/verif_export.go, the unexported evalScript / delSig / scriptnum helpers
//	model     : lean oracle_c01 `verify` / `eval` / helper requests (Model/Script*.lean)
//	spec      : the same oracle runs Spec/Script.lean (Core-shaped reference) on every request
//
// Crypto is resolved here, lazily: the oracle answers `need <query>` and the harness computes the answer with
// the real gocoin function (see Oracle/C01.lean). Compared per case:
//
//	tie      : implementation verdict (ok|fail|panic) == model verdict         (all flag sets)
//	property : FlagsOk(flags) ⇒ implementation verdict == spec verdict, no panic; and (history.go) the verdict of a
//	           (input, flags) pair on a Tx object that was verified before == its verdict on a fresh object
package main

import (
	"encoding/hex"
	"encoding/json"
	"fmt"
	"os"
	"strconv"
	"strings"
	"time"

	"github.com/piotrnar/gocoin/lib/btc"
	"github.com/piotrnar/gocoin/lib/script"
	"verif/vlib"
)

var r *vlib.Run
var o *vlib.Oracle
var devnull *os.File
var oracleTime = map[string]time.Duration{}

// HexB is a byte string that is hex in JSON (replay files must be readable).
type HexB []byte

func (h HexB) MarshalJSON() ([]byte, error) { return json.Marshal(hex.EncodeToString(h)) }
func (h *HexB) UnmarshalJSON(b []byte) error {
	var s string
	if err := json.Unmarshal(b, &s); err != nil {
		return err
	}
	d, err := hex.DecodeString(s)
	*h = d
	return err
}

type In struct {
	PrevHash  HexB   `json:"prev_hash"`
	Vout      uint32 `json:"vout"`
	SigScript HexB   `json:"sig_script"`
	Sequence  uint32 `json:"sequence"`
	Witness   []HexB `json:"witness"`
}
type Out struct {
	Value  uint64 `json:"value"`
	Script HexB   `json:"script"`
}

// Case is one input of the property: (scriptSig, scriptPubKey, witness, amount, tx, idx, flags).
type Case struct {
	Kind     string `json:"kind"`
	Version  uint32 `json:"version"`
	LockTime uint32 `json:"lock_time"`
	Ins      []In   `json:"ins"`
	Outs     []Out  `json:"outs"`
	Idx      int    `json:"idx"`
	Spent    []Out  `json:"spent"` // the outputs spent by each input; Spent[Idx] is (amount, scriptPubKey)
	Flags    uint32 `json:"flags"`
	Expect   string `json:"expect,omitempty"` // "OK" / "ERR": verdict demanded by a Bitcoin Core test vector
	Note     string `json:"note,omitempty"`
}

// EvalCase is one call of evalScript on an explicit stack.
type EvalCase struct {
	Kind     string `json:"kind"`
	Flags    uint32 `json:"flags"`
	SV       int    `json:"sigversion"`
	Version  uint32 `json:"version"`
	LockTime uint32 `json:"lock_time"`
	Sequence uint32 `json:"sequence"`
	Script   HexB   `json:"script"`
	Stack    []HexB `json:"stack"` // bottom first
	Annex    HexB   `json:"annex_hash"`
	Leaf     HexB   `json:"tapleaf_hash"`
	Weight   int64  `json:"weight_left"`
}

func flagsOk(f uint32) bool {
	if f&script.VER_WITNESS != 0 && f&script.VER_P2SH == 0 {
		return false
	}
	if f&script.VER_CLEANSTACK != 0 && (f&script.VER_P2SH == 0 || f&script.VER_WITNESS == 0) {
		return false
	}
	if f&script.VER_TAPROOT != 0 && f&script.VER_WITNESS == 0 {
		return false
	}
	return true
}

func buildTx(c *Case) *btc.Tx {
	tx := new(btc.Tx)
	tx.Version = c.Version
	tx.Lock_time = c.LockTime
	anyWit := false
	for _, in := range c.Ins {
		ti := &btc.TxIn{ScriptSig: []byte(in.SigScript), Sequence: in.Sequence}
		copy(ti.Input.Hash[:], in.PrevHash)
		ti.Input.Vout = in.Vout
		tx.TxIn = append(tx.TxIn, ti)
		if len(in.Witness) > 0 {
			anyWit = true
		}
	}
	for _, out := range c.Outs {
		tx.TxOut = append(tx.TxOut, &btc.TxOut{Value: out.Value, Pk_script: []byte(out.Script)})
	}
	if anyWit {
		tx.SegWit = make([][][]byte, len(c.Ins))
		for i, in := range c.Ins {
			// as btc.NewTx allocates it: len == cap (a stack aliasing this slice writes into it on its first push after a pop)
			tx.SegWit[i] = make([][]byte, len(in.Witness))
			for j, w := range in.Witness {
				tx.SegWit[i][j] = []byte(w)
			}
			if len(in.Witness) == 0 {
				tx.SegWit[i] = nil
			}
		}
	}
	guard("Tx.AllocVerVars", func() { tx.AllocVerVars() })
	for _, s := range c.Spent {
		tx.Spent_outputs = append(tx.Spent_outputs, &btc.TxOut{Value: s.Value, Pk_script: []byte(s.Script)})
	}
	guard("Tx.SetHash", func() { tx.SetHash(tx.Serialize()) })
	return tx
}

func quiet(f func()) {
	saved := os.Stdout
	os.Stdout = devnull
	defer func() { os.Stdout = saved }()
	f()
}

// implVerify runs the real VerifyTxScript: "ok" | "fail" | "panic".
func implVerify(c *Case, tx *btc.Tx) (res string) {
	quiet(func() {
		defer func() {
			if e := recover(); e != nil {
				res = "panic"
			}
		}()
		pk := []byte(c.Spent[c.Idx].Script)
		if script.VerifyTxScript(pk, &script.SigChecker{Tx: tx, Idx: c.Idx, Amount: c.Spent[c.Idx].Value}, c.Flags) {
			res = "ok"
		} else {
			res = "fail"
		}
	})
	return
}

func optHex(s string) []byte {
	if s == "none" {
		return nil
	}
	return vlib.UnHex(s)
}

func b01(b bool) string {
	if b {
		return "1"
	}
	return "0"
}

// answer computes one crypto query with the real gocoin functions. c is the case the transaction was built
// from: after a panic inside a query the Tx object is rebuilt (the panic may have left tx.hashLock held, the
// next query on the same object would then block for ever).
func answer(c *Case, txp **btc.Tx, idx int, amount uint64, q string) string {
	t := strings.Fields(q)
	res := "-"
	tx := *txp
	quiet(func() {
		defer func() {
			if e := recover(); e != nil {
				r.Hit("crypto-query-panicked:" + t[0])
				*txp = buildTx(c)
				if t[0] == "ecdsa" || t[0] == "schnorr" || t[0] == "tweak" {
					res = "0"
				} else {
					res = "-"
				}
			}
		}()
		switch t[0] {
		case "sigl":
			ht, _ := strconv.ParseUint(t[2], 10, 32)
			res = vlib.Hex(tx.SignatureHash(vlib.UnHex(t[1]), idx, int32(ht)))
		case "sigw":
			ht, _ := strconv.ParseUint(t[2], 10, 32)
			res = vlib.Hex(tx.WitnessSigHash(vlib.UnHex(t[1]), amount, idx, int32(ht)))
		case "sigt":
			var ed btc.ScriptExecutionData
			ed.M_annex_hash = optHex(t[1])
			ed.M_tapleaf_hash = vlib.UnHex(t[2])
			csp, _ := strconv.ParseUint(t[3], 10, 32)
			ed.M_codeseparator_pos = uint32(csp)
			ht, _ := strconv.ParseUint(t[4], 10, 8)
			res = vlib.Hex(tx.TaprootSigHash(&ed, idx, byte(ht), t[5] == "1"))
		case "ecdsa":
			res = b01(btc.EcdsaVerify(vlib.UnHex(t[1]), vlib.UnHex(t[2]), vlib.UnHex(t[3])))
		case "schnorr":
			res = b01(btc.SchnorrVerify(vlib.UnHex(t[1]), vlib.UnHex(t[2]), vlib.UnHex(t[3])))
		case "tweak":
			res = b01(btc.CheckPayToContract(vlib.UnHex(t[1]), vlib.UnHex(t[2]), vlib.UnHex(t[3]), t[4] == "1"))
		default:
			fmt.Fprintln(os.Stderr, "unknown query from the oracle:", q)
			os.Exit(3)
		}
	})
	r.Hit("crypto-query:" + t[0])
	if t[0] == "sigl" || t[0] == "sigw" || t[0] == "sigt" {
		checkDigest(c, t, res)
	}
	if t[0] == "sigt" {
		// hypothesis TapSigHashOk of the Lean theorems (Props/C01.lean): Tx.TaprootSigHash answers nil exactly where
		// BIP341 defines no signature message (undefined hash type; SIGHASH_SINGLE without a matching output)
		ht, _ := strconv.ParseUint(t[4], 10, 8)
		defined := (ht <= 3 || (ht >= 0x81 && ht <= 0x83)) && !(ht%4 == 3 && idx >= len((*txp).TxOut))
		if (res != "-") != defined {
			var rep interface{} = q
			if c != nil {
				rep = c
			}
			r.TieFail("taproot-sighash-definedness", fmt.Sprintf("Tx.TaprootSigHash(hash type %#x, input %d of a transaction with %d outputs) returned nil=%v, BIP341 defines a digest=%v (hypothesis TapSigHashOk of script_equiv)", ht, idx, len((*txp).TxOut), res == "-", defined), rep)
		} else {
			r.Hit("tapsighash-definedness-ok")
		}
	}
	return res
}

// txLine hands the whole spending transaction of the case to the oracle: the reference semantics computes the
// legacy / BIP143 / BIP341 digests of it BY ITSELF (Spec/ScriptSigRef.lean) instead of taking the answers of the
// tree's sighash functions. scriptSigs and witnesses are left out: none of the three messages contains them.
func txLine(c *Case) string {
	var sb strings.Builder
	fmt.Fprintf(&sb, "tx %d %d %d %d", c.Idx, c.Version, c.LockTime, len(c.Ins))
	for i, in := range c.Ins {
		var ph [32]byte
		copy(ph[:], in.PrevHash)
		var sp Out
		if i < len(c.Spent) {
			sp = c.Spent[i]
		}
		fmt.Fprintf(&sb, " %s %d %d %d %s", vlib.Hex(ph[:]), in.Vout, in.Sequence, sp.Value, vlib.Hex(sp.Script))
	}
	fmt.Fprintf(&sb, " %d", len(c.Outs))
	for _, out := range c.Outs {
		fmt.Fprintf(&sb, " %d %s", out.Value, vlib.Hex(out.Script))
	}
	return sb.String()
}

func setOracleTx(c *Case) {
	if d := o.MustAsk(txLine(c)); d != "ok" {
		fmt.Fprintln(os.Stderr, "oracle refused the transaction of the case:", d)
		os.Exit(3)
	}
}

// refDigest asks the Lean reference (the specification's own message, hashed in Lean) for one digest of case c.
// q is `sigl <sc> <ht>` | `sigw <sc> <ht>` | `sigt <annex:opt, the annex itself> <leaf> <codesep> <ht> <0|1>`.
// Returns the digest, or nil with defined=true where the rules define no message (BIP341: undefined hash type,
// SIGHASH_SINGLE without output), or defined=false where the reference says nothing (legacy: script code that
// does not decode).
func refDigest(c *Case, q string) (d []byte, defined bool) {
	setOracleTx(c)
	rep := o.MustAsk("refsig " + q)
	switch rep {
	case "undef":
		return nil, false
	case "-":
		return nil, true
	case "bad-op":
		fmt.Fprintln(os.Stderr, "oracle refused refsig", q)
		os.Exit(3)
	}
	return vlib.UnHex(rep), true
}

// annexOfWitness: BIP341 — the last of at least two witness elements when its first byte is 0x50
func annexOfWitness(w []HexB) []byte {
	if len(w) >= 2 && len(w[len(w)-1]) > 0 && w[len(w)-1][0] == 0x50 {
		return []byte(w[len(w)-1])
	}
	return nil
}

// checkDigest compares the answer of the tree's sighash function to one crypto query with the reference digest.
// The OBSERVABLE of the property is the verdict (compared in runCase, where the reference semantics runs on the
// reference digests); this comparison only names the cause and catches differences no generated spend turned
// into a different verdict.
func checkDigest(c *Case, t []string, res string) {
	if c == nil {
		return
	}
	q := strings.Join(t, " ")
	if t[0] == "sigt" {
		annex := annexOfWitness(c.Ins[c.Idx].Witness)
		have := "none"
		if annex != nil {
			have = vlib.Hex(sha2(cat(compactSize(len(annex)), annex)))
		}
		if have != t[1] {
			r.Hit("sighash-vs-reference:skipped(annex hash not of this witness)")
			return
		}
		a := "none"
		if annex != nil {
			a = vlib.Hex(annex)
		}
		q = "sigt " + a + " " + strings.Join(t[2:], " ")
	}
	d, defined := refDigest(c, q)
	if !defined {
		r.Hit("sighash-vs-reference:skipped(reference undefined)")
		return
	}
	if vlib.Hex(d) != res {
		r.TieFail("sighash-vs-reference:"+t[0], fmt.Sprintf("the tree's signature-hash function answers %s to `%s`, the specification's message hashes to %s (input %d of a %d-in/%d-out transaction)", res, trunc(strings.Join(t, " ")), vlib.Hex(d), c.Idx, len(c.Ins), len(c.Outs)), c)
	} else {
		r.Hit("sighash-vs-reference:agree:" + t[0])
	}
}

// dialogue sends a request and serves the oracle's `need` replies until a `res` line arrives.
func dialogue(line string, c *Case, tx *btc.Tx, idx int, amount uint64) map[string]string {
	o.MustAsk("reset")
	setOracleTx(c)
	for round := 0; round < 400; round++ {
		rep := o.MustAsk(line)
		if strings.HasPrefix(rep, "need ") {
			q := rep[5:]
			if d := o.MustAsk("def " + q + " " + answer(c, &tx, idx, amount, q)); d != "ok" {
				fmt.Fprintln(os.Stderr, "oracle refused def:", q, d)
				os.Exit(3)
			}
			continue
		}
		if !strings.HasPrefix(rep, "res ") {
			fmt.Fprintln(os.Stderr, "unexpected oracle reply:", rep, "to", line[:min(len(line), 200)])
			os.Exit(3)
		}
		m := map[string]string{}
		for _, f := range strings.Fields(rep[4:]) {
			if i := strings.IndexByte(f, '='); i > 0 {
				m[f[:i]] = f[i+1:]
			}
		}
		return m
	}
	fmt.Fprintln(os.Stderr, "oracle dialogue did not terminate")
	os.Exit(3)
	return nil
}

func min(a, b int) int {
	if a < b {
		return a
	}
	return b
}

func verifyLine(c *Case) string {
	in := c.Ins[c.Idx]
	var sb strings.Builder
	fmt.Fprintf(&sb, "verify %d %d %d %d %d %d %s %s %d", c.Flags, c.Version, c.LockTime, in.Sequence, c.Idx, len(c.Outs),
		vlib.Hex(in.SigScript), vlib.Hex(c.Spent[c.Idx].Script), len(in.Witness))
	for _, w := range in.Witness {
		sb.WriteByte(' ')
		sb.WriteString(vlib.Hex(w))
	}
	return sb.String()
}

var knownClass = map[string]bool{"cltv-csv-discouraged-nop": true, "taproot-undefined-hashtype": true, "taproot-nonliftable-internal-key": true}

func family(kind string) string {
	if i := strings.IndexByte(kind, ':'); i > 0 {
		return kind[:i]
	}
	return kind
}

// runCase evaluates one case on implementation, model and spec and records the comparison.
func runCase(c *Case) (impl, model, spec string) {
	tx := buildTx(c)
	impl = implVerify(c, tx)
	if impl == "panic" {
		tx = buildTx(c) // the panic may have left a lock of the Tx object held
	} else if !historyCheck(c, tx, impl) { // history.go: the verdict repeats on the same object, whatever was verified before
		tx = buildTx(c)
	}
	t0 := time.Now()
	m := dialogue(verifyLine(c), c, tx, c.Idx, c.Spent[c.Idx].Value)
	oracleTime[family(c.Kind)] += time.Since(t0)
	model, spec = m["model"], m["spec"]
	class := m["class"]
	ok := flagsOk(c.Flags)
	dk := ""
	if len(c.Ins[c.Idx].SigScript)+len(c.Spent[c.Idx].Script)+len(c.Ins[c.Idx].Witness) > 1 {
		dk = verifyLine(c)
	}
	r.Eval(family(c.Kind), dk)
	r.Hit("impl:" + impl)
	r.Hit("spec:" + spec)
	if strings.HasPrefix(c.Kind, "gen-multicheck") {
		v := "valid"
		if spec != "OK" {
			v = "invalid"
		}
		r.Hit(family(c.Kind) + ":" + v) // how many of the several-checks-per-script spends are valid by the reference
	}
	if !ok {
		r.Hit("flags-not-FlagsOk")
	}
	r.Sample(map[string]interface{}{"kind": c.Kind, "flags": c.Flags, "sig_script": hex.EncodeToString(c.Ins[c.Idx].SigScript),
		"pk_script": trunc(hex.EncodeToString(c.Spent[c.Idx].Script)), "witness_items": len(c.Ins[c.Idx].Witness), "impl": impl, "model": model, "spec": spec})
	specOK := spec == "OK"
	// Spec-vs-Core-vector check
	if c.Expect != "" && ok {
		key, src := "spec-vs-core-vector", "the Bitcoin Core vector"
		if strings.HasPrefix(c.Kind, "tapscript:budget") {
			key, src = "spec-vs-budget-arithmetic", "the harness's own BIP342 budget arithmetic"
		}
		if strings.HasPrefix(c.Kind, "hashtype:") {
			key, src = "spec-vs-hashtype-rule", "the rule what a hash type commits to (every byte is a valid ECDSA hash type without STRICTENC; bits 0..4: NONE / SINGLE / else ALL; bit 7: ANYONECANPAY)"
		}
		if strings.HasPrefix(c.Kind, "fad:") || strings.HasPrefix(c.Kind, "limit:") || strings.HasPrefix(c.Kind, "nullfail:") || strings.HasPrefix(c.Kind, "opsuccess:") {
			key, src = "spec-vs-corpus-rule", "the rule written down next to this corpus case (go/cmd/c01/sizes.go: FindAndDelete removes exactly the canonical push; no script-size limit in tapscript; BIP342's OP_SUCCESSx list; NULLFAIL = a failed check with a non-empty signature)"
		}
		if (c.Expect == "OK") != specOK {
			r.TieFail(key, fmt.Sprintf("the reference semantics gives %s where %s demands %s (%s)", spec, src, c.Expect, c.Note), c)
		} else {
			r.Hit(strings.Replace(key, "spec-vs-", "spec-agrees-with-", 1))
		}
	}
	tieOK := impl == model
	if tieOK {
		r.TieOK()
	}
	propOK := true
	what := ""
	key := ""
	if ok {
		if impl == "panic" {
			propOK, key, what = false, "panic-escapes-VerifyTxScript", "VerifyTxScript panics (no verdict) on a consistent flag set"
		} else if (impl == "ok") != specOK {
			propOK = false
			if impl == "ok" {
				key, what = "accepts:"+spec, fmt.Sprintf("VerifyTxScript accepts a spend the script rules reject (%s), case kind %s", spec, c.Kind)
			} else {
				key, what = "rejects-valid:"+family(c.Kind), fmt.Sprintf("VerifyTxScript rejects a spend the script rules accept, case kind %s", c.Kind)
			}
			if tieOK && knownClass[class] {
				key = class
			}
		}
	}
	if !propOK {
		r.PropFail(key, what, c)
	}
	if !tieOK {
		r.TieFail("model-vs-impl:"+family(c.Kind), fmt.Sprintf("model verdict %s, implementation verdict %s (kind %s)", model, impl, c.Kind), c)
	}
	return
}

func trunc(s string) string {
	if len(s) > 160 {
		return s[:160] + fmt.Sprintf("…(%d hex chars)", len(s))
	}
	return s
}

func stackStr(ok bool, st [][]byte) string {
	if !ok {
		return "fail"
	}
	parts := make([]string, len(st))
	for i, b := range st {
		parts[i] = vlib.Hex(b)
	}
	return fmt.Sprintf("ok:%d:%s", len(st), strings.Join(parts, ","))
}

// runEval compares evalScript (through the verif hook) with the model's and the spec's EvalScript.
func runEval(e *EvalCase) {
	c := &Case{Version: e.Version, LockTime: e.LockTime,
		Ins:   []In{{PrevHash: make([]byte, 32), Sequence: e.Sequence}},
		Outs:  []Out{{Value: 1000, Script: HexB{0x51}}},
		Spent: []Out{{Value: 2000, Script: HexB{0x51}}}}
	tx := buildTx(c)
	var impl string
	quiet(func() {
		defer func() {
			if x := recover(); x != nil {
				impl = "panic"
			}
		}()
		ed := btc.ScriptExecutionData{M_tapleaf_hash: []byte(e.Leaf), M_validation_weight_left: e.Weight, M_validation_weight_left_init: true}
		if len(e.Annex) > 0 {
			ed.M_annex_hash = []byte(e.Annex)
		}
		st := make([][]byte, len(e.Stack))
		for i := range e.Stack {
			st[i] = []byte(e.Stack[i])
		}
		okv, out := script.VerifEvalScript([]byte(e.Script), st, &script.SigChecker{Tx: tx, Idx: 0, Amount: 2000}, e.Flags, e.SV, &ed)
		impl = stackStr(okv, out)
	})
	var sb strings.Builder
	annex := "none"
	if len(e.Annex) > 0 {
		annex = vlib.Hex(e.Annex)
	}
	fmt.Fprintf(&sb, "eval %d %d %d %d %d 0 1 %s %s %s %d %d", e.Flags, e.SV, e.Version, e.LockTime, e.Sequence,
		vlib.Hex(e.Script), annex, vlib.Hex(e.Leaf), e.Weight, len(e.Stack))
	for _, it := range e.Stack {
		sb.WriteByte(' ')
		sb.WriteString(vlib.Hex(it))
	}
	t0 := time.Now()
	if impl == "panic" {
		tx = buildTx(c)
	}
	m := dialogue(sb.String(), c, tx, 0, 2000)
	oracleTime[family(e.Kind)] += time.Since(t0)
	model, spec := m["model"], m["spec"]
	if m["class"] == "" || model == "" || spec == "" {
		fmt.Fprintln(os.Stderr, "oracle reply to eval lacks model/spec/class:", m)
		os.Exit(3)
	}
	r.Eval(family(e.Kind), sb.String())
	if strings.HasPrefix(impl, "ok") {
		r.Hit("eval-impl:ok")
	} else {
		r.Hit("eval-impl:" + impl)
	}
	if impl == model {
		r.TieOK()
	} else {
		r.TieFail("model-vs-impl-eval:"+family(e.Kind), fmt.Sprintf("evalScript: model %s, implementation %s", trunc(model), trunc(impl)), e)
	}
	// the spec names its errors; compare success/stack only
	specN := spec
	if !strings.HasPrefix(spec, "ok:") {
		specN = "fail"
		r.Hit("eval-spec:" + spec)
	}
	if impl != specN {
		// not the observable of the property (the verdict of VerifyTxScript is), so a difference here is reported
		// through the tie channel unless it is the documented CLTV/CSV policy difference. The class is the ORACLE's
		// (Oracle/C01.lean doEval: the reference re-run with the single quirk `discourageCltvCsv` gives exactly the
		// model's = implementation's result), not a guess from the script bytes
		if impl == model && knownClass[m["class"]] && m["class"] == "cltv-csv-discouraged-nop" {
			r.PropFail("cltv-csv-discouraged-nop", "OP_CHECKLOCKTIMEVERIFY/OP_CHECKSEQUENCEVERIFY with their flag off and DISCOURAGE_UPGRADABLE_NOPS on: gocoin fails the script, current Bitcoin Core treats them as NOPs (policy-only flag)", e)
		} else {
			r.TieFail("spec-vs-impl-eval:"+family(e.Kind), fmt.Sprintf("evalScript: reference semantics %s, implementation %s", trunc(spec), trunc(impl)), e)
		}
	}
}

func replay(path string) {
	b, err := os.ReadFile(path)
	if err != nil {
		fmt.Fprintln(os.Stderr, err)
		os.Exit(3)
	}
	var doc struct {
		Replay json.RawMessage `json:"replay"`
	}
	if err := json.Unmarshal(b, &doc); err != nil {
		fmt.Fprintln(os.Stderr, err)
		os.Exit(3)
	}
	var probe map[string]interface{}
	json.Unmarshal(doc.Replay, &probe)
	if _, isEval := probe["sigversion"]; isEval {
		var e EvalCase
		if err := json.Unmarshal(doc.Replay, &e); err != nil {
			fmt.Fprintln(os.Stderr, err)
			os.Exit(3)
		}
		runEval(&e)
	} else if _, isCase := probe["ins"]; isCase {
		var c Case
		if err := json.Unmarshal(doc.Replay, &c); err != nil {
			fmt.Fprintln(os.Stderr, err)
			os.Exit(3)
		}
		impl, model, spec := runCase(&c)
		fmt.Printf("replay: impl=%s model=%s spec=%s\n", impl, model, spec)
	} else {
		fmt.Println("replay file holds no re-runnable case (proof / build breakage): re-run ./check C01 quick")
	}
}

func main() {
	r = vlib.NewRun("C01")
	var err error
	devnull, err = os.OpenFile(os.DevNull, os.O_WRONLY, 0)
	if err != nil {
		fmt.Fprintln(os.Stderr, err)
		os.Exit(3)
	}
	script.DBG_ERR = false
	btc.EcdsaSignWithRFC6979 = true
	o, err = vlib.StartOracle("c01")
	if err != nil {
		fmt.Fprintln(os.Stderr, "cannot start oracle:", err)
		os.Exit(3)
	}
	defer o.Close()
	r.Assume = []string{
		"the Tx object handed to VerifyTxScript is well formed: Idx < len(TxIn), SegWit is nil or has one entry per input, Spent_outputs holds every spent output (as chain.commitTxs / txpool prepare it)",
		"HookVerifyTxScript is nil; btc.EC_Verify / btc.Schnorr_Verify / btc.Check_PayToContract are nil (pure-Go cryptography; client/speedups would replace all three answers)",
		"the taproot / tapscript rules of the reference (BIP341/342) have no external vector in this tree (script_tests / tx_valid / tx_invalid carry none, lib/test/bip341_script_tests.json is empty): for them the run shows code = model = reference, the reference itself is validated by reading only",
		"ECDSA / Schnorr verification is whatever the real btc functions answer (property C03); the signature digests of the REFERENCE side are the Lean specification's own (legacy / BIP143 / BIP341 messages of the whole transaction, Spec/SigHash.lean + Spec/ScriptSigRef.lean), those of the model side are the answers of the tree's Tx.SignatureHash / WitnessSigHash / TaprootSigHash, and the two are compared on every query; SHA-256 / RIPEMD-160 / SHA-1 are the Lean implementations, cross-checked here",
		"reference semantics = Bitcoin Core interpreter.cpp as written down in lean/GocoinV/Spec/Script.lean (spec decisions listed there)",
	}
	if r.Replay != "" {
		replay(r.Replay)
	} else {
		helperStreams()
		corpusVectors()
		corpusHandmade()
		generated()
	}
	ot := map[string]float64{}
	for k, v := range oracleTime {
		ot[k] = float64(int(v.Seconds()*100)) / 100
	}
	r.Extra["oracle_seconds_by_kind"] = ot
	r.Finish("a case is one (scriptSig, scriptPubKey, witness, amount, tx, idx, flags) tuple run through script.VerifyTxScript, the Lean model and the Lean reference semantics, or one evalScript call on an explicit stack; distinct = different oracle request line, non-trivial = at least two script/witness bytes",
		"corpus (script_tests.json, tx_valid.json, tx_invalid.json, hand-made boundary cases with real signatures) first, then grammar-generated scripts and spends with flag sets from the FlagsOk lattice (plus some inconsistent ones for the panic paths), then byte-level mutations; verdicts of implementation, model and spec compared per case, helper functions compared directly; every spend case is followed by a short history of further verifications on the same Tx object (same pair again, other inputs, neighbouring flag sets) whose verdicts must equal those on a fresh object, and the Tx fields must come out unchanged (history.go)")
}
