// history.go — the verdict is a FUNCTION of (scriptSig, scriptPubKey, witness, amount, tx, idx, flags).
//
// The property equates the verdict of VerifyTxScript with the verdict of the script rules, and the rules' verdict
// depends on the tuple only. The node, however, hands ONE btc.Tx object to VerifyTxScript many times: once per
// input, again from the mempool / the block path / the web UI, under the flag set of the day. Whatever the
// verification leaves behind in that object (a buffer of the transaction aliased by the interpreter's working
// stack, a cache inside the Tx filled under one flag set or one input and read under another, a witness slot, a
// scriptSig) is invisible in a single first-time call on a fresh object - every vector of the test suite is one -
// and shows up as a verdict that depends on what was verified BEFORE.
//
// Two checks, both on every case that reaches runCase (corpus, generated, mutated, replayed):
//
//	reverify : the same (idx, flags) once more on the object that has just been judged; the verdict must repeat.
//	history  : a short schedule of (input index, flag set) pairs on that one shared object - the case's own pair
//	           repeated, the other inputs of the transaction, the case's input under neighbouring flag sets -
//	           each verdict compared with the verdict of the same pair on a FRESH object (which is the one the
//	           reference semantics is compared with when the pair is the case's own).
//
// A differing verdict is the property failing on a concrete, replayable input (key verdict-depends-on-history:*).
// Afterwards every field of the Tx that is an argument of the verdict is compared with a fresh object's: a
// verification that writes into its arguments without any verdict having moved yet is reported through the tie
// channel (key verify-modifies-tx). The schedule is a function of the case's own bytes (no draw from the run's
// PRNG streams), so a replay walks the same history.
package main

import (
	"fmt"
	"hash/fnv"
	"strings"

	"github.com/piotrnar/gocoin/lib/btc"
	"github.com/piotrnar/gocoin/lib/script"
)

// txArgs renders everything of the Tx object that the verdict may depend on.
func txArgs(tx *btc.Tx) string {
	var sb strings.Builder
	fmt.Fprintf(&sb, "v%d l%d", tx.Version, tx.Lock_time)
	for _, in := range tx.TxIn {
		fmt.Fprintf(&sb, " in(%x:%d %x %d)", in.Input.Hash[:], in.Input.Vout, in.ScriptSig, in.Sequence)
	}
	for _, out := range tx.TxOut {
		fmt.Fprintf(&sb, " out(%d %x)", out.Value, out.Pk_script)
	}
	if tx.SegWit == nil {
		sb.WriteString(" nowit")
	}
	for i, w := range tx.SegWit {
		fmt.Fprintf(&sb, " wit%d[%d]", i, len(w))
		for _, it := range w {
			fmt.Fprintf(&sb, "(%x)", it)
		}
	}
	for _, s := range tx.Spent_outputs {
		if s == nil {
			sb.WriteString(" spent(nil)")
		} else {
			fmt.Fprintf(&sb, " spent(%d %x)", s.Value, s.Pk_script)
		}
	}
	return sb.String()
}

// verifyAt is implVerify for an arbitrary (idx, flags) of the case's transaction.
func verifyAt(c *Case, tx *btc.Tx, idx int, flags uint32) string {
	cc := *c
	cc.Idx, cc.Flags = idx, flags
	return implVerify(&cc, tx)
}

type histStep struct {
	idx   int
	flags uint32
}

// historySchedule derives the schedule from the case itself.
func historySchedule(c *Case) []histStep {
	h := fnv.New64a()
	h.Write([]byte(verifyLine(c)))
	fmt.Fprintf(h, "|%d|%d|%d", c.Version, c.LockTime, len(c.Ins))
	x := h.Sum64() | 1
	next := func(n int) int {
		x ^= x << 13
		x ^= x >> 7
		x ^= x << 17
		return int((x >> 11) % uint64(n))
	}
	nIdx := len(c.Ins)
	if len(c.Spent) < nIdx {
		nIdx = len(c.Spent)
	}
	steps := []histStep{{c.Idx, c.Flags}}
	n := 2 + next(3)
	for i := 0; i < n; i++ {
		s := histStep{c.Idx, c.Flags}
		if nIdx > 1 && next(2) == 0 {
			s.idx = next(nIdx)
		}
		switch next(4) {
		case 0: // one flag toggled, repaired into the FlagsOk lattice
			f := c.Flags ^ (1 << uint(next(21)))
			if f&script.VER_CLEANSTACK != 0 {
				f |= script.VER_P2SH | script.VER_WITNESS
			}
			if f&script.VER_TAPROOT != 0 {
				f |= script.VER_WITNESS
			}
			if f&script.VER_WITNESS != 0 {
				f |= script.VER_P2SH
			}
			s.flags = f
		case 1:
			s.flags = flagSets[next(len(flagSets))]
		}
		if !flagsOk(s.flags) {
			s.flags = c.Flags
		}
		steps = append(steps, s)
	}
	return append(steps, histStep{c.Idx, c.Flags})
}

// historyCheck runs after the first verdict `first` of the case was taken on `tx`. It reports whether the Tx object
// can still be used (no panic inside, arguments intact).
func historyCheck(c *Case, tx *btc.Tx, first string) (usable bool) {
	if first == "panic" || !flagsOk(c.Flags) {
		return true
	}
	fresh := map[histStep]string{{c.Idx, c.Flags}: first}
	bad := false
	for n, s := range historySchedule(c) {
		got := verifyAt(c, tx, s.idx, s.flags)
		want, seen := fresh[s]
		if !seen {
			want = verifyAt(c, buildTx(c), s.idx, s.flags)
			fresh[s] = want
		}
		kind := "reverify"
		if s.idx != c.Idx {
			kind = "other-input"
		} else if s.flags != c.Flags {
			kind = "other-flags"
		}
		r.Hit("history-step:" + kind)
		if got == "panic" || want == "panic" {
			// a panic under the case's own consistent pair is reported by runCase; the object may hold a lock now
			r.Hit("history-step:panicked")
			return false
		}
		if got != want {
			how := fmt.Sprintf("input %d under flags %#x on a Tx object that was used for other verifications of the same transaction before", s.idx, s.flags)
			if kind == "reverify" && n == 0 {
				how = "the same (input, flags) verified once more on the same Tx object"
			} else if kind == "reverify" {
				how = "the case's own (input, flags) verified again on the same Tx object after other inputs / flag sets of the same transaction"
			}
			key := "verdict-depends-on-history:" + want + "-then-" + got
			r.PropFail(key, fmt.Sprintf("VerifyTxScript's verdict is not a function of its arguments: %s gives %q, a fresh Tx object with the same fields gives %q (history step %d, case kind %s)", how, got, want, n, c.Kind), c)
			bad = true
			break
		}
	}
	if a, b := txArgs(tx), txArgs(buildTx(c)); a != b {
		r.Hit("history:tx-arguments-modified")
		if !bad {
			r.TieFail("verify-modifies-tx", fmt.Sprintf("VerifyTxScript wrote into the transaction it judges (fields the verdict depends on differ from a fresh object's after the history; first difference at byte %d of the rendering), no verdict changed in this history (case kind %s)", firstDiff(a, b), c.Kind), c)
		}
		return false
	}
	if !bad {
		r.Hit("history:verdicts-repeat")
	}
	return !bad
}

func firstDiff(a, b string) int {
	n := len(a)
	if len(b) < n {
		n = len(b)
	}
	for i := 0; i < n; i++ {
		if a[i] != b[i] {
			return i
		}
	}
	return n
}
