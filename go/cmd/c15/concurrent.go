// concurrent.go — stream 11 of the C15 harness: several callers at the same time, NOTHING shared between them.
//
// The property quantifies over inputs; the client reaches the encoders/decoders from many goroutines at once
// (one per web-UI request, wallet balance workers, RPC), each with its own scripts / strings / objects. All the
// Lean models of C15 are FUNCTIONS of the arguments — which is the code's behaviour only as long as the codec
// keeps no writable package-level state (scratch values, caches, pooled buffers). Model/Base58Sched.lean states
// that assumption for Encodeb58 at step level (theorem encode_schedule_independent, needs the regenerated fact
// `encodeRemShared = false`), gen_c15 re-derives "no package-level variable is written by a codec function" from
// the source, and this stream looks for the concrete failing input:
//
//	every job is a complete encode -> decode (or decode -> re-encode) chain on inputs owned by one goroutine;
//	its expected observable ("want") is computed by the independent reference of main.go/wif.go, i.e. it is
//	the property's own predicate (encoded string = the reference string, decoding it gives back the script /
//	bytes / fields). W goroutines (2..16) run their own job lists for R rounds after a common start signal.
//	A result that differs from `want` while the same job run ALONE (before and after) gives `want` is a
//	property failure that needs the other callers: PropFail key concurrent-<op>, the whole scenario is the replay.
//
// Job forms (tokens): pk <script> <testnet> | obj <ver> <hash160> | addr <string hex> | b58 <bytes> |
// seg <hrp> <ver> <prog> | b32 <hrp> <data> <m> | wif <ver> <key32> <compr> |
// rej addr|b58|b32|wif <string hex> | rej seg <hrp> <string hex>   (REFUSAL paths: a string the reference calls invalid -
// 1..4 edits or one non-ASCII alias of a character of an accepted string - must be refused by the decoder also while
// other goroutines run their own accept and refuse jobs; family "refuse", and one in seven jobs of "mixed").
package main

import (
	"fmt"
	"runtime"
	"strconv"
	"strings"
	"sync"
	"time"

	"github.com/piotrnar/gocoin/lib/btc"
	"github.com/piotrnar/gocoin/lib/others/bech32"
	"verif/vlib"
)

type concJob []string

func unhexTok(s string) []byte {
	if s == "-" {
		return nil
	}
	return vlib.UnHex(s)
}

func hexTok(b []byte) string {
	if len(b) == 0 {
		return "-"
	}
	return vlib.Hex(b)
}

// concRun: the real code on one job; every object it touches is created here. Returns a canonical line.
func concRun(j concJob) (line string) {
	defer func() {
		if x := recover(); x != nil {
			line = fmt.Sprint("PANIC ", x)
		}
	}()
	switch j[0] {
	case "pk": // script -> address string -> address -> script
		a := btc.NewAddrFromPkScript(unhexTok(j[1]), j[2] == "1")
		if a == nil {
			return "s=<nil>"
		}
		s := a.String()
		b, e := btc.NewAddrFromString(s)
		if e != nil || b == nil {
			return "s=" + s + " back=err:" + errClass(e)
		}
		return "s=" + s + " back=" + hexTok(b.OutScript())
	case "obj": // (version, hash) -> string -> (version, hash)
		ver, _ := strconv.Atoi(j[1])
		a := btc.NewAddrFromHash160(unhexTok(j[2]), byte(ver))
		s := a.String()
		b, e := btc.NewAddrFromString(s)
		if e != nil || b == nil {
			return "s=" + s + " back=err:" + errClass(e)
		}
		return fmt.Sprintf("s=%s back=%d:%x", s, b.Version, b.Hash160[:])
	case "addr": // typed string -> address -> script, and re-encoded from the decoded fields
		im := implAddr(string(unhexTok(j[1])))
		return im.line
	case "b58":
		s := btc.Encodeb58(unhexTok(j[1]))
		return "s=" + s + " back=" + hexTok(btc.Decodeb58(s))
	case "seg":
		ver, _ := strconv.Atoi(j[2])
		s := bech32.SegwitEncode(j[1], ver, unhexTok(j[3]))
		v, p, e := bech32.SegwitDecode(j[1], s)
		if e != nil {
			return "s=" + s + " back=err:" + errClass(e)
		}
		return fmt.Sprintf("s=%s back=%d:%s", s, v, hexTok(p))
	case "b32":
		s := bech32.Encode(j[1], unhexTok(j[2]), j[3] == "1")
		h, d, m := bech32.Decode(s)
		return fmt.Sprintf("s=%s back=%s:%s:%s", s, h, hexTok(d), b2s(m))
	case "rej":
		s := string(unhexTok(j[len(j)-1]))
		switch j[1] {
		case "addr":
			if im := implAddr(s); im.ok || im.panicked {
				return im.line
			}
		case "b58":
			if d := btc.Decodeb58(s); d != nil {
				return "accepted " + vlib.Hex(d)
			}
		case "b32":
			if h, d, m := bech32.Decode(s); h != "" || d != nil {
				return fmt.Sprintf("accepted %s:%s:%s", h, hexTok(d), b2s(m))
			}
		case "seg":
			if v, p, e := bech32.SegwitDecode(j[2], s); e == nil {
				return fmt.Sprintf("accepted %d:%s", v, hexTok(p))
			}
		case "wif":
			if b, e := btc.DecodePrivateAddr(s); e == nil {
				return fmt.Sprintf("accepted %d:%x:%s", b.Version, b.Key, b2s(b.IsCompressed()))
			}
		default:
			return "bad-job"
		}
		return "refused"
	case "wif":
		ver, _ := strconv.Atoi(j[1])
		pa := btc.NewPrivateAddr(unhexTok(j[2]), byte(ver), j[3] == "1")
		s := pa.String()
		b, e := btc.DecodePrivateAddr(s)
		if e != nil || b == nil {
			return "s=" + s + " back=err:" + fmt.Sprint(e)
		}
		return fmt.Sprintf("s=%s back=%d:%x:%s", s, b.Version, b.Key, b2s(b.IsCompressed()))
	}
	return "bad-job"
}

// concWant: the same line from the independent reference only (BIP173/350, Base58Check, WIF as in main.go/wif.go).
func concWant(j concJob) string {
	switch j[0] {
	case "pk":
		scr, tn := unhexTok(j[1]), j[2] == "1"
		if w, ok := refP2pk(scr, tn); ok { // "ok <addr hex> <outscript hex>"
			f := strings.Fields(w)
			return "s=" + string(vlib.UnHex(f[1])) + " back=" + f[2]
		}
		switch {
		case len(scr) == 25 && scr[0] == 0x76:
			return "s=" + mkB58Addr(map[bool]byte{false: 0, true: 111}[tn], scr[3:23]) + " back=" + vlib.Hex(scr)
		case len(scr) == 23 && scr[0] == 0xa9:
			return "s=" + mkB58Addr(map[bool]byte{false: 5, true: 196}[tn], scr[2:22]) + " back=" + vlib.Hex(scr)
		}
		ver := int(scr[0])
		if ver > 0 {
			ver -= 0x50
		}
		hrp := map[bool]string{false: "bc", true: "tb"}[tn]
		return "s=" + encodeRaw(hrp, append([]int{ver}, to5(scr[2:], true)...), ver != 0) + " back=" + vlib.Hex(scr)
	case "obj":
		ver, _ := strconv.Atoi(j[1])
		return fmt.Sprintf("s=%s back=%d:%s", mkB58Addr(byte(ver), unhexTok(j[2])), ver, j[2])
	case "addr":
		s := string(unhexTok(j[1]))
		kind, ver, payload, canon := "", 0, []byte(nil), s
		if p := strings.ToLower(s[:3]); p == "bc1" || p == "tb1" {
			_, v, prog := refSegwitValid(p[:2], s)
			kind, ver, payload, canon = "segwit", v, prog, strings.ToLower(s)
		} else {
			_, v, h := refB58CheckValid(s)
			kind, ver, payload = "b58", int(v), h
		}
		os := "panic"
		if w := refOutScript(kind, ver, payload); w != nil {
			os = vlib.Hex(w)
		}
		return fmt.Sprintf("ok %s %d %s %s %s", kind, ver, vlib.Hex(payload), os, vlib.Hex([]byte(canon)))
	case "b58":
		return "s=" + refB58Encode(unhexTok(j[1])) + " back=" + j[1]
	case "seg":
		ver, _ := strconv.Atoi(j[2])
		return fmt.Sprintf("s=%s back=%d:%s", encodeRaw(j[1], append([]int{ver}, to5(unhexTok(j[3]), true)...), ver != 0), ver, j[3])
	case "b32":
		var d5 []int
		for _, d := range unhexTok(j[2]) {
			d5 = append(d5, int(d))
		}
		return fmt.Sprintf("s=%s back=%s:%s:%s", encodeRaw(j[1], d5, j[3] == "1"), j[1], j[2], j[3])
	case "rej":
		return "refused" // the generator only emits strings the reference calls invalid (refInvalid)
	case "wif":
		ver, _ := strconv.Atoi(j[1])
		pl := append([]byte{byte(ver)}, unhexTok(j[2])...)
		if j[3] == "1" {
			pl = append(pl, 1)
		}
		return fmt.Sprintf("s=%s back=%d:%s:%s", mkWif(pl), ver, j[2], j[3])
	}
	return "bad-job"
}

func concDescribe(j concJob) string {
	switch j[0] {
	case "pk":
		return "NewAddrFromPkScript(" + j[1] + ").String() -> NewAddrFromString -> OutScript()"
	case "obj":
		return "NewAddrFromHash160(" + j[2] + ", " + j[1] + ").String() -> NewAddrFromString"
	case "addr":
		return fmt.Sprintf("NewAddrFromString(%q) -> OutScript() / String() of its fields", string(unhexTok(j[1])))
	case "b58":
		return "Decodeb58(Encodeb58(" + j[1] + "))"
	case "seg":
		return "SegwitDecode(SegwitEncode(" + j[1] + ", " + j[2] + ", " + j[3] + "))"
	case "b32":
		return "bech32.Decode(Encode(" + j[1] + ", " + j[2] + ", m=" + j[3] + "))"
	case "wif":
		return "DecodePrivateAddr(NewPrivateAddr(" + j[2] + ", " + j[1] + ", compr=" + j[3] + ").String())"
	case "rej":
		fn := map[string]string{"addr": "NewAddrFromString", "b58": "Decodeb58", "b32": "bech32.Decode", "seg": "SegwitDecode", "wif": "DecodePrivateAddr"}[j[1]]
		return fmt.Sprintf("%s(%q) [invalid by the reference: must be refused]", fn, string(unhexTok(j[len(j)-1])))
	}
	return strings.Join(j, " ")
}

// ---------------------------------------------------------------- job generators (destinations the statement supports)

func concScript(g *vlib.Rng, form int) []byte {
	switch form {
	case 0:
		return append(append([]byte{0x76, 0xa9, 0x14}, concHash(g)...), 0x88, 0xac)
	case 1:
		return append(append([]byte{0xa9, 0x14}, concHash(g)...), 0x87)
	}
	return nil
}

// concHash: 20 bytes, sometimes with leading zero bytes (short big.Int, leading '1' digits)
func concHash(g *vlib.Rng) []byte {
	h := g.Bytes(20)
	if g.Chance(1, 6) {
		for i := 0; i < 1+g.Intn(5); i++ {
			h[i] = 0
		}
	}
	return h
}

func concWitScript(g *vlib.Rng) []byte {
	if g.Bool() {
		l := g.Pick(20, 32)
		return append([]byte{0, byte(l)}, g.Bytes(l)...)
	}
	l := 2 + g.Intn(39)
	if g.Bool() {
		l = 32
	}
	return append([]byte{byte(0x51 + g.Intn(16)), byte(l)}, g.Bytes(l)...)
}

// refInvalid: does the independent reference refuse s at decoder `what` (hrp only for "seg")?
func refInvalid(what, hrp, s string) bool {
	switch what {
	case "addr":
		if len(s) >= 4 {
			if p := strings.ToLower(s[:3]); p == "bc1" || p == "tb1" {
				ok, _, _ := refSegwitValid(p[:2], s)
				return !ok
			}
			ok, _, _ := refB58CheckValid(s)
			return !ok
		}
		return true
	case "b58":
		return len(refB58Decode(s)) == 0
	case "b32":
		ok, _, _, _ := refB32Decode(s)
		return !ok
	case "seg":
		ok, _, _ := refSegwitValid(hrp, s)
		return !ok
	case "wif":
		rw := refWif(s)
		return !rw.ok
	}
	return false
}

// concReject: a refusal job. Base = an accepted string of the decoder; damaged by 1..4 ordinary edits or by one
// non-ASCII alias of one character (byte c|0x80, or the 2-byte code point c+256); kept only when the reference refuses it.
func concReject(g *vlib.Rng, valid []string) concJob {
	for try := 0; try < 20; try++ {
		what := []string{"addr", "addr", "b58", "b32", "seg", "wif"}[g.Intn(6)]
		hrp, base := "", ""
		switch what {
		case "addr":
			base = valid[g.Intn(len(valid))]
		case "b58":
			base = refB58Encode(g.Bytes(1 + g.Intn(40)))
		case "b32":
			d := make([]int, g.Intn(40))
			for i := range d {
				d[i] = g.Intn(32)
			}
			base = encodeRaw([]string{"bc", "a", "ltc"}[g.Intn(3)], d, g.Bool())
		case "seg":
			for base == "" || !(strings.HasPrefix(base, "bc1") || strings.HasPrefix(base, "tb1")) {
				base = valid[g.Intn(len(valid))]
			}
			hrp = base[:2]
		case "wif":
			pl := append([]byte{byte(g.Pick(0x80, 0xef))}, wifKey(g)...)
			if g.Bool() {
				pl = append(pl, 1)
			}
			base = mkWif(pl)
		}
		var s string
		if g.Chance(1, 3) && len(base) > 0 {
			b := []byte(base)
			i := g.Intn(len(b))
			c := b[i]
			var alias []byte
			if g.Bool() {
				alias = []byte{c | 0x80}
			} else {
				alias = []byte(string(rune(int(c) + 256)))
			}
			s = string(b[:i]) + string(alias) + string(b[i+1:])
		} else {
			s, _ = mutate(g, base)
		}
		if what == "b58" && g.Chance(1, 2) { // Base58 has no checksum: force a character outside the alphabet
			i := g.Intn(len(s) + 1)
			s = s[:i] + string("0OIl _"[g.Intn(6)]) + s[i:]
		}
		if !refInvalid(what, hrp, s) {
			continue
		}
		if what == "seg" {
			return concJob{"rej", what, hrp, hexTok([]byte(s))}
		}
		return concJob{"rej", what, hexTok([]byte(s))}
	}
	return concJob{"rej", "addr", vlib.Hex([]byte("bc1qw508d6qejxtdg4y5r3zarvary0c5xw7kv8f3t5"))}
}

func concJobOf(g *vlib.Rng, family string, valid []string) concJob {
	tn := b2s(g.Bool())
	pick := family
	if family == "mixed" {
		pick = []string{"b58addr", "b58addr", "segwit", "decode", "raw58", "wif", "refuse"}[g.Intn(7)]
	}
	if family == "refuse" && g.Chance(1, 4) { // refusals next to acceptances of the same decoders
		pick = []string{"decode", "raw58", "segwit"}[g.Intn(3)]
	}
	switch pick {
	case "refuse":
		return concReject(g, valid)
	case "b58addr":
		switch g.Intn(5) {
		case 0:
			return concJob{"pk", vlib.Hex(concScript(g, 0)), tn}
		case 1:
			return concJob{"pk", vlib.Hex(concScript(g, 1)), tn}
		case 2:
			n := g.Pick(33, 65)
			return concJob{"pk", vlib.Hex(append(append([]byte{byte(n)}, g.Bytes(n)...), 0xac)), tn}
		default:
			return concJob{"obj", itoa(g.Pick(0, 5, 111, 196, 48, g.Intn(256))), vlib.Hex(concHash(g))}
		}
	case "segwit":
		switch g.Intn(3) {
		case 0:
			return concJob{"pk", vlib.Hex(concWitScript(g)), tn}
		case 1:
			w := concWitScript(g)
			ver := int(w[0])
			if ver > 0 {
				ver -= 0x50
			}
			return concJob{"seg", []string{"bc", "tb"}[g.Intn(2)], itoa(ver), vlib.Hex(w[2:])}
		default:
			d := make([]byte, g.Intn(60))
			for i := range d {
				d[i] = byte(g.Intn(32))
			}
			hrp := []string{"bc", "tb", "a", "ltc", "x9"}[g.Intn(5)]
			return concJob{"b32", hrp, hexTok(d), b2s(g.Bool())}
		}
	case "decode":
		s := valid[g.Intn(len(valid))]
		if strings.HasPrefix(s, "bc1") || strings.HasPrefix(s, "tb1") {
			if g.Chance(1, 4) {
				s = strings.ToUpper(s)
			}
		}
		return concJob{"addr", vlib.Hex([]byte(s))}
	case "raw58":
		n := 1 + g.Intn(70)
		b := g.Bytes(n)
		for i := 0; i < g.Intn(4) && i < n; i++ {
			b[i] = 0
		}
		return concJob{"b58", vlib.Hex(b)}
	case "wif":
		return concJob{"wif", itoa(g.Pick(0x80, 0xef, 0xb0, g.Intn(256))), vlib.Hex(wifKey(g)), b2s(g.Bool())}
	}
	return concJob{"b58", "00"}
}

// ---------------------------------------------------------------- one scenario

type concBad struct {
	worker, job, round int
	line               string
}

// concParallel runs every worker's list `rounds` times, all workers released together; returns the first few
// results that differ from want (per worker) and the number of job runs.
func concParallel(lists [][]concJob, want [][]string, rounds int, deadline time.Time) (bad []concBad, runs int) {
	if p := runtime.GOMAXPROCS(0); p < 4 {
		defer runtime.GOMAXPROCS(runtime.GOMAXPROCS(4))
	}
	var wg sync.WaitGroup
	start := make(chan struct{})
	perBad := make([][]concBad, len(lists))
	perRuns := make([]int, len(lists))
	for w := range lists {
		wg.Add(1)
		go func(w int) {
			defer wg.Done()
			<-start
			for rd := 0; rd < rounds; rd++ {
				for n, j := range lists[w] {
					l := concRun(j)
					perRuns[w]++
					if l != want[w][n] && len(perBad[w]) < 2 {
						perBad[w] = append(perBad[w], concBad{w, n, rd, l})
					}
				}
				if len(perBad[w]) >= 2 || (!deadline.IsZero() && rd&7 == 7 && time.Now().After(deadline)) {
					return
				}
			}
		}(w)
	}
	close(start)
	wg.Wait()
	for w := range lists {
		bad = append(bad, perBad[w]...)
		runs += perRuns[w]
	}
	return
}

// checkConc: one scenario. `kind` = family name or "replay".
func checkConc(kind string, lists [][]concJob, rounds int) {
	rep := map[string]interface{}{"op": "conc", "family": kind, "rounds": rounds, "workers": lists}
	want := make([][]string, len(lists))
	// alone first: the job's chain is the property's predicate; a failure here does not need the other callers
	for w := range lists {
		for _, j := range lists[w] {
			r.Eval("conc/"+kind+"/"+j[0], "conc:"+strings.Join(j, " "))
			wl := concWant(j)
			want[w] = append(want[w], wl)
			if l := concRun(j); l != wl {
				r.PropFail("conc-alone-"+j[0], fmt.Sprintf("%s = %q, the reference gives %q (single caller)", concDescribe(j), l, wl),
					map[string]interface{}{"op": "conc", "family": kind, "rounds": 1, "workers": [][]concJob{{j}}})
				return
			}
		}
	}
	var deadline time.Time
	if kind == "replay" {
		deadline = time.Now().Add(20 * time.Second)
	}
	bad, runs := concParallel(lists, want, rounds, deadline)
	r.Hit(fmt.Sprintf("conc-goroutines/%d", len(lists)))
	r.Extra["concurrent_job_runs"] = extraInt("concurrent_job_runs") + runs
	if len(bad) == 0 {
		r.TieOK() // all results of the scenario = the function of the arguments the models describe
		return
	}
	seen := map[string]bool{}
	for _, b := range bad {
		j := lists[b.worker][b.job]
		if seen[j[0]] {
			continue
		}
		seen[j[0]] = true
		after := concRun(j)
		alone := "run alone again afterwards it gives the reference value"
		if after != want[b.worker][b.job] {
			alone = fmt.Sprintf("run alone again afterwards it gives %q (state damaged for good)", after)
		}
		r.PropFail("concurrent-"+j[0], fmt.Sprintf("%d goroutines, each on its own inputs and objects (family %s, round %d): %s = %q, the reference (and the same call made alone) gives %q; %s",
			len(lists), kind, b.round, concDescribe(j), b.line, want[b.worker][b.job], alone), rep)
	}
}

func extraInt(k string) int {
	v, _ := r.Extra[k].(int)
	return v
}

func concStreams(g *vlib.Rng, valid []string) {
	t0 := time.Now()
	type sc struct {
		family          string
		workers, rounds int
	}
	var plan []sc
	for _, f := range []string{"b58addr", "segwit", "decode", "raw58", "refuse", "mixed"} {
		for _, w := range []int{2, 8} {
			plan = append(plan, sc{f, w, r.N(120, 1500)})
		}
	}
	plan = append(plan, sc{"b58addr", 4, r.N(120, 1500)}, sc{"b58addr", 16, r.N(120, 1500)}, sc{"mixed", 16, r.N(120, 1500)},
		sc{"wif", 2, r.N(6, 60)}, sc{"wif", 8, r.N(6, 60)})
	for i, p := range plan {
		lists := make([][]concJob, p.workers)
		for w := range lists {
			for n := 0; n < 24; n++ {
				lists[w] = append(lists[w], concJobOf(g, p.family, valid))
			}
		}
		checkConc(p.family, lists, p.rounds)
		if p.family == "raw58" || p.family == "mixed" {
			tieSched(g, lists)
		}
		if i == 0 {
			r.Sample(map[string]interface{}{"op": "conc", "family": p.family, "goroutines": p.workers, "rounds": p.rounds, "first_job": lists[0][0]})
		}
	}
	r.Extra["concurrent_stream_ms"] = time.Since(t0).Milliseconds()
}

// tieSched: the step-level Lean model of Encodeb58 (Base58Sched, variant selected by the regenerated fact
// encodeRemShared) under a random interleaving of the callers' digit-loop steps, against the strings the real
// callers produce (= the reference strings when checkConc found no difference). One b58 job per goroutine.
func tieSched(g *vlib.Rng, lists [][]concJob) {
	var args, want []string
	for _, l := range lists {
		for _, j := range l {
			if j[0] == "b58" {
				args = append(args, j[1])
				want = append(want, vlib.Hex([]byte(refB58Encode(unhexTok(j[1])))))
				break
			}
		}
	}
	if len(args) < 2 {
		return
	}
	var sched []string
	for n := g.Intn(400); n > 0; n-- {
		k := g.Intn(len(args))
		for b := 1 + g.Intn(3); b > 0; b-- { // short bursts: both "div,put" kept together and torn apart
			sched = append(sched, itoa(k))
		}
	}
	sc := "-"
	if len(sched) > 0 {
		sc = strings.Join(sched, ",")
	}
	r.Eval("conc/b58sched", "b58sched:"+sc+":"+strings.Join(args, " "))
	mo := o.MustAsk("b58sched " + sc + " " + strings.Join(args, " "))
	if exp := "ok " + strings.Join(want, " "); mo != exp {
		r.TieFail("tie-b58sched", fmt.Sprintf("step-level model of Encodeb58 under the interleaving %s of %d callers gives %q, the real callers (and the reference) give %q", sc, len(args), mo, exp),
			map[string]interface{}{"op": "b58sched", "sched": sc, "args": args})
		return
	}
	r.TieOK()
}

func replayConc(doc map[string]interface{}) {
	var lists [][]concJob
	ws, _ := doc["workers"].([]interface{})
	for _, w := range ws {
		var l []concJob
		js, _ := w.([]interface{})
		for _, j := range js {
			var job concJob
			ts, _ := j.([]interface{})
			for _, t := range ts {
				s, _ := t.(string)
				job = append(job, s)
			}
			l = append(l, job)
		}
		lists = append(lists, l)
	}
	rounds, _ := doc["rounds"].(float64)
	// a schedule cannot be recorded; the replay runs the same scenario for up to 50x the rounds (20 s at most)
	checkConc("replay", lists, int(rounds)*50)
}
