// boundary.go — independent BIP173/BIP350 reference for RAW bech32 strings (no segwit layer) and a boundary
// stream around the 90-character limit. Added after the self-test edit "len(input) > 91" in bech32.Decode was
// missed: segwit addresses never come near 90 characters, so only raw codec inputs can see that limit.
package main

import (
	"strconv"
	"strings"

	"github.com/piotrnar/gocoin/lib/others/bech32"
	"verif/vlib"
)

// refB32Decode: BIP173 decoding of a raw bech32/bech32m string. ok=false: invalid.
func refB32Decode(s string) (ok bool, hrp string, data []byte, m bool) {
	if len(s) > 90 || len(s) < 8 {
		return
	}
	lower, upper := false, false
	for i := 0; i < len(s); i++ {
		c := s[i]
		if c < 33 || c > 126 {
			return
		}
		if c >= 'a' && c <= 'z' {
			lower = true
		}
		if c >= 'A' && c <= 'Z' {
			upper = true
		}
	}
	if lower && upper {
		return
	}
	s = strings.ToLower(s)
	pos := strings.LastIndexByte(s, '1')
	if pos < 1 || pos+7 > len(s) {
		return
	}
	var vals []int
	for i := 0; i < pos; i++ {
		vals = append(vals, int(s[i]>>5))
	}
	vals = append(vals, 0)
	for i := 0; i < pos; i++ {
		vals = append(vals, int(s[i]&31))
	}
	d := []byte{}
	for i := pos + 1; i < len(s); i++ {
		x := strings.IndexByte(refCharset, s[i])
		if x < 0 {
			return
		}
		vals = append(vals, x)
		d = append(d, byte(x))
	}
	switch refPolymod(vals) {
	case 1:
		m = false
	case 0x2bc830a3:
		m = true
	default:
		return
	}
	return true, s[:pos], d[:len(d)-6], m
}

// boundaryB32 feeds checksummed raw strings of total length 86..93 (both variants, also upper-cased, also with
// a one-character edit) to bech32.Decode / model / reference.
func boundaryB32(g *vlib.Rng) {
	for _, hl := range []int{1, 2, 3, 10, 40, 82, 83, 84} {
		for total := 86; total <= 93; total++ {
			dl := total - hl - 1 - 6
			if dl < 0 {
				continue
			}
			hrp := make([]byte, hl)
			for j := range hrp {
				hrp[j] = "abcdefghijklmnopqrstuvwxyz023456789"[g.Intn(35)]
			}
			data := make([]int, dl)
			for j := range data {
				data[j] = g.Intn(32)
			}
			for _, m := range []bool{false, true} {
				s := encodeRaw(string(hrp), data, m)
				r.Hit("b32dec-boundary")
				checkB32Dec(s)
				checkB32Dec(strings.ToUpper(s))
				mu, _ := mutate(g, s)
				checkB32Dec(mu)
			}
		}
	}
	// shortest strings: hrp of 1 char, no data (8 chars), and one shorter
	for _, m := range []bool{false, true} {
		s := encodeRaw("a", nil, m)
		checkB32Dec(s)
		checkB32Dec(s[1:])
		checkB32Dec("1" + s[2:])
	}
}

// checkSegDec: bech32.SegwitDecode(hrp, s) called directly with a caller-chosen hrp (NewAddrFromString always
// passes the string's own first two characters, so a dropped HRP comparison is only visible here or on strings
// whose real hrp is longer than two characters). Added after the self-test edit "skip hrp != hrp_actual" was missed.
func checkSegDec(hrp, s string) {
	r.Eval("segdec", "segdec:"+hrp+":"+s)
	il := ""
	func() {
		defer func() {
			if x := recover(); x != nil {
				il = "PANIC"
			}
		}()
		v, p, e := bech32.SegwitDecode(hrp, s)
		if e != nil {
			il = "err " + strings.TrimPrefix(errClass(e), "segwit")
		} else {
			il = "ok " + itoa(v) + " " + vlib.Hex(p)
		}
	}()
	mo := o.MustAsk("segdec " + vlib.Hex([]byte(hrp)) + " " + vlib.Hex([]byte(s)))
	rep := map[string]interface{}{"op": "segdec", "hrp": hrp, "string_hex": vlib.Hex([]byte(s)), "impl": il, "model": mo}
	if il == "PANIC" {
		r.PropFail("segdec-panic", "SegwitDecode panics on "+hrp+" / "+s, rep)
		return
	}
	refOK, rv, rp := refSegwitValid(hrp, s)
	implOK := strings.HasPrefix(il, "ok ")
	if implOK != refOK {
		what := "accepted although invalid by BIP173/BIP350 for hrp " + hrp
		if refOK {
			what = "refused although valid by BIP173/BIP350 for hrp " + hrp
		}
		r.PropFail("segdec-accept", "SegwitDecode("+hrp+", "+s+") "+what, rep)
		return
	}
	if refOK && il != "ok "+itoa(rv)+" "+vlib.Hex(rp) {
		r.PropFail("segdec-decode", "SegwitDecode("+hrp+", "+s+") = "+il+", reference says "+itoa(rv)+" "+vlib.Hex(rp), rep)
		return
	}
	if il != mo {
		r.TieFail("tie-segdec", "model/impl differ on SegwitDecode("+hrp+", "+s+"): impl="+il+" model="+mo, rep)
		return
	}
	r.Hit("segdec-result/" + strings.SplitN(il, " ", 3)[0] + "-" + firstWord(il, 1))
	r.TieOK()
}

func itoa(v int) string { return strconv.Itoa(v) }

// hrpConfusion: perfectly checksummed segwit payloads under a human-readable part that is NOT the one asked for:
// (a) SegwitDecode("bc", <tb address>) and vice versa, other hrps; (b) through NewAddrFromString: strings that
// begin with "bc1"/"tb1" but whose real hrp (up to the LAST '1') is longer: "bc1", "tb1", "bc1x", "bc11" ...
func hrpConfusion(g *vlib.Rng) {
	hrps := []string{"bc", "tb", "bc1", "tb1", "bc1x", "tb11", "bc1bc", "b", "bcc", "ltc", "BC"}
	for _, real := range hrps {
		for ver := 0; ver <= 16; ver += 1 {
			l := []int{20, 32}[g.Intn(2)]
			if ver != 0 && g.Chance(1, 2) {
				l = 2 + g.Intn(39)
			}
			d := append([]int{ver}, to5(g.Bytes(l), true)...)
			s := encodeRaw(strings.ToLower(real), d, ver != 0)
			if real == "BC" {
				s = strings.ToUpper(s)
			}
			for _, asked := range []string{"bc", "tb", strings.ToLower(real)} {
				checkSegDec(asked, s)
			}
			r.Hit("hrp-confusion")
			checkAddr("hrp-confusion", s)
		}
	}
}

// b58Lengths: Base58 strings whose payload has a CORRECT checksum over the first 21 bytes but the wrong total
// length (26..28 bytes: trailing garbage after the checksum; 24 bytes: one checksum byte missing), and payloads
// of the right length whose checksum is correct only in its first 3 bytes. Added after the self-test edit
// "len(dec) >= 25" produced only model/impl differences and no concrete failing input.
func b58Lengths(g *vlib.Rng) {
	for _, ver := range []byte{0, 5, 111, 196, 48, 1, 255} {
		for k := 0; k < 4; k++ {
			h := g.Bytes(20)
			p := append([]byte{ver}, h...)
			p = append(p, dsha(p)[:4]...)
			for extra := 1; extra <= 3; extra++ {
				q := append(append([]byte{}, p...), g.Bytes(extra)...)
				r.Hit("b58-overlong")
				checkAddr("b58-overlong", refB58Encode(q))
			}
			checkAddr("b58-truncated", refB58Encode(p[:24]))
			q := append([]byte{}, p...)
			q[24] ^= byte(1 + g.Intn(255))
			checkAddr("b58-cksum-lastbyte", refB58Encode(q))
			q = append([]byte{}, p...)
			q[21] ^= byte(1 + g.Intn(255))
			checkAddr("b58-cksum-firstbyte", refB58Encode(q))
		}
	}
}

// notAddresses: well-formed Base58Check objects that are NOT 25-byte addresses, offered to NewAddrFromString:
// (a) version ‖ 20-byte hash ‖ 1..15 further bytes ‖ checksum over ALL of it (26..40 bytes; b58Lengths above has a
// checksum over the first 21 bytes only, followed by garbage), for the version bytes in use and random ones;
// (b) a complete valid address payload (25 bytes) wrapped once more (‖ extra ‖ new checksum); (c) valid WIF private
// keys, compressed and not, main/test/other versions; (d) extended-key sized objects (78+4 bytes); (e) checksummed
// objects shorter than an address. All must be refused (reference: exactly 25 bytes). Added after the seeded change
// "shared b58check() helper, the 'payload must be exactly 25 bytes' branch lost" gave only model/impl differences.
func notAddresses(g *vlib.Rng) {
	ck := func(p []byte) string { return refB58Encode(append(append([]byte{}, p...), dsha(p)[:4]...)) }
	vers := []byte{0, 5, 111, 196, 48, 128, 239, 176}
	for total := 26; total <= 40; total++ {
		for _, v := range append(append([]byte{}, vers...), byte(g.U64()), byte(g.U64())) {
			p := append([]byte{v}, g.Bytes(total-5)...)
			r.Hit("b58-long-checksummed")
			checkAddr("b58-long-checksummed", ck(p))
		}
	}
	for i := 0; i < r.N(600, 20000); i++ {
		v := vers[g.Intn(len(vers))]
		if g.Chance(1, 4) {
			v = byte(g.U64())
		}
		switch g.Intn(5) {
		case 0:
			checkAddr("b58-long-checksummed", ck(append([]byte{v}, g.Bytes(21+g.Intn(15))...)))
		case 1: // a valid address payload wrapped once more
			p := append([]byte{v}, g.Bytes(20)...)
			p = append(p, dsha(p)[:4]...)
			checkAddr("b58-address-wrapped", ck(append(p, g.Bytes(g.Intn(8))...)))
		case 2: // WIF private key
			pl := append([]byte{byte(g.Pick(0x80, 0x80, 0xef, 0xb0, int(v)))}, wifKey(g)...)
			if g.Bool() {
				pl = append(pl, 1)
			}
			r.Hit("wif-as-address")
			checkAddr("wif-as-address", mkWif(pl))
		case 3: // extended-key sized
			checkAddr("b58-xkey-sized", ck(append([]byte{4, 0x88, byte(g.Pick(0xb2, 0xad)), byte(g.Pick(0x1e, 0xe4))}, g.Bytes(74)...)))
		case 4: // shorter than an address
			checkAddr("b58-short-checksummed", ck(append([]byte{v}, g.Bytes(g.Intn(20))...)))
		}
	}
}

// refHrpOK: BIP173 - the human-readable part has 1 to 83 characters in 33..126; an encoder does not emit upper case.
func refHrpOK(hrp string) bool {
	if len(hrp) < 1 || len(hrp) > 83 {
		return false
	}
	for i := 0; i < len(hrp); i++ {
		if hrp[i] < 33 || hrp[i] > 126 || (hrp[i] >= 'A' && hrp[i] <= 'Z') {
			return false
		}
	}
	return true
}

// hrpStream: bech32.Encode / SegwitEncode with every kind of human-readable part. Added after the second audit: the
// general stream only produced 1..10 bytes in 33..126, so the guard `ch < 33 || ch > 126`, the empty hrp (finding
// bech32-encode-empty-hrp, fixed by aaaa0fae) and the `range`-over-code-points loops of Encode with its length test
// on the LOOP VARIABLE were never reached. Every case goes through checkB32 (Encode = BIP173 reference string exactly
// when encodable, else ""; model; loops-as-written model) or checkSegEnc.
func hrpStream(g *vlib.Rng) {
	rd := func(n int) []byte {
		d := make([]byte, n)
		for j := range d {
			d[j] = byte(g.Intn(32))
		}
		return d
	}
	hit := func(k string) { r.Hit("b32-hrp/" + k) }
	// the empty hrp (witness of the fixed finding) with several data lengths, both variants; SegwitEncode / SegwitProg
	for _, dl := range []int{0, 1, 3, 33, 52, 82, 83, 84} {
		for _, m := range []bool{false, true} {
			hit("empty")
			checkB32("", rd(dl), m)
		}
	}
	checkB32("", []byte{0, 1, 2}, false) // was "1qpzceglat"
	checkSegEnc("", 0, make([]byte, 20))
	checkSegEnc("", 1, g.Bytes(32))
	checkSegEnc("", 16, g.Bytes(2))
	// every byte value alone and inside an otherwise valid hrp (guards 33 / 126 / upper case / 0x80..0xff)
	for b := 0; b < 256; b++ {
		hit("byte")
		checkB32(string([]byte{byte(b)}), rd(g.Intn(6)), g.Bool())
		checkB32("a"+string([]byte{byte(b)})+"z", rd(g.Intn(6)), g.Bool())
		if b%8 == 0 || b < 34 || (b > 124 && b < 132) {
			checkSegEnc("b"+string([]byte{byte(b)}), g.Pick(0, 1), g.Bytes(20))
		}
	}
	// code points of 2, 3 and 4 bytes, aliases of ASCII letters, invalid and truncated sequences, at every position
	cps := []string{"\u00e9", "\u0161", "\u0162", "\u0263", "\u20ac", "\uff42", "\uff43", "\u212a", "\u017f", "\U00010062", "\U0001f600", "\u0080", "\u07ff", "\u0800", "\uffff",
		"\xc3", "\xe2\x82", "\xf0\x9f\x98", "\xc0\xa2", "\xe0\x80\xa2", "\xed\xa0\x80", "\xf4\x90\x80\x80", "\xa2", "\xff", "\xc3\x28"}
	for _, cp := range cps {
		for _, frame := range [][2]string{{"", ""}, {"b", ""}, {"", "c"}, {"b", "c"}, {"bc", "tb"}} {
			hit("utf8")
			checkB32(frame[0]+cp+frame[1], rd(g.Intn(8)), g.Bool())
		}
		checkSegEnc("b"+cp, 0, g.Bytes(20))
	}
	// the 90-character limit seen from Encode: hrp + 7 + data around 90, hrp valid; and the same lengths with ONE invalid
	// or multi-byte character at the first / last position (the loop variable then differs from len(hrp))
	for _, hl := range []int{1, 2, 3, 10, 40, 82, 83, 84, 85, 90, 120} {
		for total := 88; total <= 92; total++ {
			dl := total - hl - 7
			if dl < 0 {
				if total != 90 {
					continue
				}
				dl = 0
			}
			hrp := make([]byte, hl)
			for j := range hrp {
				hrp[j] = "abcdefghijklmnopqrstuvwxyz023456789-_~!"[g.Intn(39)]
			}
			hit("limit")
			checkB32(string(hrp), rd(dl), g.Bool())
			bad := append([]byte{}, hrp...)
			pos := g.Pick(0, hl-1, g.Intn(hl))
			bad[pos] = byte(g.Pick(0x20, 0x7f, 0x80, 0xc3, 0xe2, 0xff, 'Q'))
			checkB32(string(bad), rd(dl), g.Bool())
			if hl >= 3 {
				two := string(hrp[:hl-2]) + "\u00e9" // same byte length, last code point 2 bytes wide
				checkB32(two, rd(dl), g.Bool())
			}
		}
	}
	// random hrps over ALL byte values, mostly-valid ones with one odd byte, upper case
	for i := 0; i < r.N(600, 20000); i++ {
		hl := g.Intn(12)
		hrp := make([]byte, hl)
		for j := range hrp {
			switch g.Intn(10) {
			case 0:
				hrp[j] = byte(g.U64())
			case 1:
				hrp[j] = byte(g.Pick(32, 33, 126, 127, 128, 'A', 'Z', '1'))
			default:
				hrp[j] = "abcdefghijklmnopqrstuvwxyz0123456789"[g.Intn(36)]
			}
		}
		hit("random")
		checkB32(string(hrp), rd(g.Intn(20)), g.Bool())
	}
}
