// unicode.go — typed strings that contain characters outside ASCII.
//
// A Go string is a byte string, but the language and the standard library offer a second reading of it: `range` over a
// string, []rune(s), utf8.DecodeRune*, strings.ToLower/ToUpper/EqualFold/Map/Fields/TrimSpace work on CODE POINTS. A
// decoder that is (re)written with one of these meets, for the first time, characters that are not one byte: a code
// point narrowed to 8 or 7 bits, case-folded, "normalised" or skipped can turn a character that is in no alphabet into
// one that is. All models of C15 (and the references in this harness) read a typed string byte by byte, so every
// string with a byte >= 0x80 is outside every alphabet: it must be refused by every decoder.
//
// The stream takes accepted strings of every decoder of the property (Base58Check addresses, segwit addresses, raw
// Base58 / Bech32 strings, WIF keys) and replaces 1..4 characters, every occurrence of one character, or all
// characters by a non-ASCII ALIAS of the same character, family by family:
//
//	mod256-2/-3/-4  code point = c + 256*k, encoded in 2, 3, 4 bytes (byte(r), uint8(r), r&0xff give c back)
//	mod128          code point = c + 128*(2k+1) (r&0x7f gives c back; bit 7 is set)
//	hibit           the single byte c|0x80 (not UTF-8: `range` yields U+FFFD for it; b&0x7f gives c back)
//	overlong        the 2- and 3-byte over-long UTF-8 forms of c (a lenient UTF-8 decoder reads c)
//	fullwidth       U+FF00+(c-0x20), the East-Asian full-width form (NFKC / width folding gives c back)
//	fold            every code point that unicode.ToLower / ToUpper / SimpleFold relates to c (U+212A KELVIN SIGN,
//	                U+017F LONG S, U+0130, U+0131: strings.ToLower / EqualFold give c back)
//	invisible       (an insertion, not a substitution) zero-width and blank code points before a character (a decoder
//	                that trims or skips what is not printable gives the original string back)
//
// and offers the result to NewAddrFromString, Decodeb58, bech32.Decode, SegwitDecode and DecodePrivateAddr through the
// ordinary check functions (reference: refused; model: refused; real code: must refuse).
package main

import (
	"fmt"
	"strings"
	"unicode"
	"unicode/utf8"

	"verif/vlib"
)

var aliasFamilies = []string{"mod256-2", "mod256-3", "mod256-4", "mod128", "hibit", "overlong", "fullwidth", "fold", "invisible"}

// foldTab[c] = the non-ASCII code points that Unicode's simple case mappings relate to the ASCII character c
var foldTab = func() (t [128][]rune) {
	for r := rune(0x80); r < 0x20000; r++ {
		seen := map[rune]bool{}
		for _, x := range []rune{unicode.ToLower(r), unicode.ToUpper(r), unicode.ToTitle(r), unicode.SimpleFold(r)} {
			if x < 0x80 && !seen[x] {
				seen[x] = true
				t[x] = append(t[x], r)
			}
		}
	}
	return
}()

var invisibles = []string{"\u200b", "\ufeff", "\u00a0", "\u200e", "\u0301", "\u2060", "\u00ad", "\u3000"}

func encRune(r rune) string {
	var b [4]byte
	return string(b[:utf8.EncodeRune(b[:], r)])
}

// aliasOf returns a non-ASCII spelling of the ASCII character c in the given family ("" when the family has none
// for c); for "invisible" the result ends with c itself.
func aliasOf(g *vlib.Rng, fam string, c byte) string {
	pick := func(lo, hi int) rune { // code point c + 256*k inside [lo, hi], never a surrogate
		for {
			k := (lo + 255) / 256
			k += g.Intn((hi-int(c))/256 - k + 1)
			r := rune(int(c) + 256*k)
			if r >= rune(lo) && r <= rune(hi) && (r < 0xd800 || r > 0xdfff) {
				return r
			}
		}
	}
	switch fam {
	case "mod256-2":
		return encRune(pick(0x100, 0x7ff))
	case "mod256-3":
		return encRune(pick(0x800, 0xffff))
	case "mod256-4":
		return encRune(pick(0x10000, 0x10ffff))
	case "mod128":
		for {
			r := rune(int(c&0x7f) + 128*(2*g.Intn(0x1000)+1))
			if r < 0xd800 || r > 0xdfff {
				return encRune(r)
			}
		}
	case "hibit":
		return string([]byte{c | 0x80})
	case "overlong":
		if g.Bool() {
			return string([]byte{0xc0 | c>>6, 0x80 | c&0x3f})
		}
		return string([]byte{0xe0, 0x80 | c>>6, 0x80 | c&0x3f})
	case "fullwidth":
		if c > 0x20 && c < 0x7f {
			return encRune(0xff00 + rune(c) - 0x20)
		}
	case "fold":
		if c < 128 && len(foldTab[c]) > 0 {
			return encRune(foldTab[c][g.Intn(len(foldTab[c]))])
		}
	case "invisible":
		return invisibles[g.Intn(len(invisibles))] + string([]byte{c})
	}
	return ""
}

// aliasString replaces characters of s (how = "one", "few" [2..4 positions], "letter" [every occurrence of one
// character], "all") by aliases of family fam. ok = false when nothing could be replaced.
func aliasString(g *vlib.Rng, s, fam, how string) (string, bool) {
	if len(s) == 0 {
		return s, false
	}
	sel := make([]bool, len(s))
	switch how {
	case "one":
		sel[g.Intn(len(s))] = true
	case "few":
		for k := 2 + g.Intn(3); k > 0; k-- {
			sel[g.Intn(len(s))] = true
		}
	case "letter":
		c := s[g.Intn(len(s))]
		for i := range sel {
			sel[i] = s[i] == c
		}
	case "all":
		for i := range sel {
			sel[i] = true
		}
	}
	var out []byte
	changed := false
	for i := 0; i < len(s); i++ {
		if sel[i] && s[i] < 0x80 {
			if a := aliasOf(g, fam, s[i]); a != "" {
				out = append(out, a...)
				changed = true
				continue
			}
		}
		out = append(out, s[i])
	}
	return string(out), changed
}

var aliasHows = []string{"one", "one", "few", "letter", "all"}

// aliasPlacements: the deterministic part — first, second, middle, last character, every occurrence of one letter, all
// characters — for every family, so that each family reaches each decoder on every run whatever the seed.
func aliasPlacements(g *vlib.Rng, s string, emit func(kind, t string)) {
	for _, fam := range aliasFamilies {
		for _, i := range []int{0, 1, len(s) / 2, len(s) - 1} {
			if i < 0 || i >= len(s) || s[i] >= 0x80 {
				continue
			}
			if a := aliasOf(g, fam, s[i]); a != "" {
				emit("uni-"+fam, s[:i]+a+s[i+1:])
			}
		}
		for _, how := range []string{"letter", "all"} {
			if t, ok := aliasString(g, s, fam, how); ok {
				emit("uni-"+fam+"-"+how, t)
			}
		}
	}
}

// checkRunes: the model of Go's `range` over a string (Base58Str.runes: positions and code points, invalid bytes as
// U+FFFD of width 1) against the language itself.
func checkRunes(s string) {
	r.Eval("runes", "runes:"+s)
	toks := []string{"ok"}
	for i, c := range s {
		toks = append(toks, fmt.Sprintf("%d:%d", i, c))
	}
	il := strings.Join(toks, " ")
	mo := o.MustAsk("runes " + vlib.Hex([]byte(s)))
	if il != mo {
		r.TieFail("tie-runes", fmt.Sprintf("model of range-over-string differs from Go on %q: go=%q model=%q", s, il, mo),
			map[string]interface{}{"op": "runes", "string_hex": vlib.Hex([]byte(s)), "impl": il, "model": mo})
		return
	}
	r.TieOK()
}

// utf8Boundaries: first and last code point of every encoded length, the surrogate gap, over-long forms, values above
// U+10FFFF, truncated sequences, stray continuation bytes, bytes that never occur in UTF-8
var utf8Boundaries = []string{"", "\x00", "\x7f", "\x80", "\xbf", "\xc0\x80", "\xc1\xbf", "\xc2\x80", "\xdf\xbf", "\xc2", "\xc2\x7f", "\xc2\xc0",
	"\xe0\x80\x80", "\xe0\x9f\xbf", "\xe0\xa0\x80", "\xef\xbf\xbf", "\xed\x9f\xbf", "\xed\xa0\x80", "\xed\xbf\xbf", "\xee\x80\x80",
	"\xe1\x80", "\xe1", "\xe1\x80\x7f", "\xf0\x80\x80\x80", "\xf0\x8f\xbf\xbf", "\xf0\x90\x80\x80", "\xf4\x8f\xbf\xbf", "\xf4\x90\x80\x80",
	"\xf5\x80\x80\x80", "\xf1\x80\x80", "\xf1\x80", "\xf1", "\xf8\x88\x80\x80\x80", "\xfe", "\xff", "\xef\xbf\xbd", "a\xc5\x86b", "\xe2\x84\xaa"}

func runeStreams(g *vlib.Rng) {
	for _, s := range utf8Boundaries {
		checkRunes(s)
		checkRunes("1" + s + "z")
		checkB58Dec("2" + s)
		checkB58Dec(s + "2")
	}
	for i := 0; i < r.N(600, 30000); i++ {
		var b []byte
		for j := g.Intn(8); j >= 0; j-- {
			switch g.Intn(5) {
			case 0:
				b = append(b, byte(g.U64()))
			case 1:
				b = append(b, refB58[g.Intn(58)])
			case 2: // a valid code point of any length
				b = append(b, encRune(rune(g.Pick(g.Intn(0x80), 0x80+g.Intn(0x780), 0x800+g.Intn(0xf800), 0x10000+g.Intn(0x100000))))...)
			case 3: // a lead byte with the wrong number of / out-of-range continuation bytes
				b = append(b, byte(0xc0+g.Intn(0x40)))
				for k := g.Intn(4); k > 0; k-- {
					b = append(b, byte(g.Pick(0x80+g.Intn(0x40), 0x80, 0x8f, 0x90, 0x9f, 0xa0, 0xbf, g.Intn(256))))
				}
			case 4:
				b = append(b, byte(0x80+g.Intn(0x40)))
			}
		}
		checkRunes(string(b))
	}
}

func unicodeStreams(g *vlib.Rng, valid []string) {
	runeStreams(g)
	var b58, seg []string
	for _, s := range valid {
		if len(s) > 3 && (s[:3] == "bc1" || s[:3] == "tb1") {
			seg = append(seg, s)
		} else {
			b58 = append(b58, s)
		}
	}
	addr := func(kind, t string) { checkAddr(kind, t) }
	wif := func(kind, t string) { checkWifDec(kind, t) }
	segdec := func(s string) func(kind, t string) {
		return func(kind, t string) { checkSegDec(s[:2], t) }
	}
	// every family at fixed places of one accepted string of every decoder
	one := make([]byte, 32)
	one[31] = 1
	aliasPlacements(g, "1A1zP1eP5QGefi2DMPTfTL5SLmv7DivfNa", addr)
	aliasPlacements(g, "3J98t1WpEZ73CNmQviecrnyiWrnqRhWNLy", addr)
	aliasPlacements(g, "bc1qw508d6qejxtdg4y5r3zarvary0c5xw7kv8f3t4", addr)
	aliasPlacements(g, "BC1SW50QGDZ25J", addr)
	aliasPlacements(g, "tb1pqqqqp399et2xygdj5xreqhjjvcmzhxw4aywxecjdzew6hylgvsesf3hn0c", addr)
	aliasPlacements(g, "bc1qw508d6qejxtdg4y5r3zarvary0c5xw7kv8f3t4", segdec("bc"))
	aliasPlacements(g, "bc1qw508d6qejxtdg4y5r3zarvary0c5xw7kv8f3t4", func(kind, t string) { checkB32Dec(t) })
	aliasPlacements(g, "A1zP1eP5QGefi2DMPTfTL5SLmv7DivfNa", func(kind, t string) { checkB58Dec(t) })
	aliasPlacements(g, mkWif(append([]byte{0x80}, one...)), wif)
	aliasPlacements(g, mkWif(append(append([]byte{0xef}, one...), 1)), wif)

	// random: base string x family x placement
	n := r.N(2500, 120000)
	for i := 0; i < n; i++ {
		fam := aliasFamilies[g.Intn(len(aliasFamilies))]
		how := aliasHows[g.Intn(len(aliasHows))]
		switch g.Intn(6) {
		case 0, 1:
			if t, ok := aliasString(g, b58[g.Intn(len(b58))], fam, how); ok {
				checkAddr("uni-"+fam, t)
			}
		case 2:
			s := seg[g.Intn(len(seg))]
			if g.Chance(1, 4) {
				s = upperASCII(s)
			}
			if t, ok := aliasString(g, s, fam, how); ok {
				checkAddr("uni-"+fam, t)
				if g.Chance(1, 3) {
					checkSegDec(lowerASCII(s[:2]), t)
					checkB32Dec(t)
				}
			}
		case 3:
			key := wifKey(g)
			pl := append([]byte{byte(g.Pick(0x80, 0xef, g.Intn(256)))}, key...)
			if g.Bool() {
				pl = append(pl, 1)
			}
			if t, ok := aliasString(g, mkWif(pl), fam, how); ok {
				checkWifDec("uni-"+fam, t)
			}
		case 4:
			b := g.Bytes(1 + g.Intn(40))
			if g.Chance(1, 3) {
				b[0] = 0
			}
			if t, ok := aliasString(g, refB58Encode(b), fam, how); ok {
				checkB58Dec(t)
			}
		case 5: // an accepted address with ONE further edit of the ordinary kind next to the aliases
			s, _ := mutate(g, valid[g.Intn(len(valid))])
			if t, ok := aliasString(g, s, fam, "one"); ok {
				checkAddr("uni-mut-"+fam, t)
			}
		}
	}
}

func lowerASCII(s string) string {
	b := []byte(s)
	for i, c := range b {
		if c >= 'A' && c <= 'Z' {
			b[i] = c + 32
		}
	}
	return string(b)
}

func upperASCII(s string) string {
	b := []byte(s)
	for i, c := range b {
		if c >= 'a' && c <= 'z' {
			b[i] = c - 32
		}
	}
	return string(b)
}
