// wif.go — private-key (WIF) strings: btc.DecodePrivateAddr / (*PrivateAddr).String against the Lean model
// (AddrWif.decode / AddrWif.encode, oracle ops wifdec / wifenc) and an independent Base58Check reference
// (refWif: 0x?? ‖ 32-byte key [‖ 01] ‖ 4-byte double-SHA256 — the rule Bitcoin Core's DecodeSecret applies).
package main

import (
	"bytes"
	"fmt"
	"math/big"
	"strings"

	"github.com/piotrnar/gocoin/lib/btc"
	"verif/vlib"
)

type refWifRes struct {
	ok      bool
	nearOK  bool // everything valid except that byte 33 of a 38-byte payload is not 01
	ver     byte
	key     []byte
	compr   bool
	payload []byte
}

func refWif(s string) (res refWifRes) {
	p := refB58Decode(s)
	res.payload = p
	if len(p) != 37 && len(p) != 38 {
		return
	}
	n := len(p) - 4
	if !bytes.Equal(dsha(p[:n])[:4], p[n:]) {
		return
	}
	res.ver, res.key = p[0], p[1:33]
	if len(p) == 38 {
		if p[33] != 1 {
			res.nearOK = true
			return
		}
		res.compr = true
	}
	res.ok = true
	return
}

var secpN, _ = new(big.Int).SetString("FFFFFFFFFFFFFFFFFFFFFFFFFFFFFFFEBAAEDCE6AF48A03BBFD25E8CD0364141", 16)

func mkWif(payload []byte) string {
	return refB58Encode(append(append([]byte{}, payload...), dsha(payload)[:4]...))
}

func b2s(b bool) string {
	if b {
		return "1"
	}
	return "0"
}

// checkWifDec: one string through DecodePrivateAddr, the model and the reference.
func checkWifDec(kind, s string) {
	r.Eval("wifdec-"+kind, "wifdec:"+s)
	rep := map[string]interface{}{"op": "wifdec", "string_hex": vlib.Hex([]byte(s))}
	var pa *btc.PrivateAddr
	var err error
	pan, restr := "", ""
	func() {
		defer func() {
			if x := recover(); x != nil {
				pan = fmt.Sprint(x)
			}
		}()
		pa, err = btc.DecodePrivateAddr(s)
		if err == nil && pa != nil {
			restr = pa.String()
		}
	}()
	ref := refWif(s)
	il := ""
	switch {
	case pan != "":
		il = "panic"
	case err != nil:
		cls := "other:" + err.Error() // an error text this harness does not know is never mapped to a known class
		switch {
		case err.Error() == "Decodeb58 failed":
			cls = "b58"
		case strings.Contains(err.Error(), "short"):
			cls = "short"
		case strings.Contains(err.Error(), "long"):
			cls = "long"
		case strings.Contains(err.Error(), "checksum"):
			cls = "checksum"
		case strings.Contains(err.Error(), "flag"):
			cls = "flag"
		}
		il = "err " + cls
		r.Hit("wifdec-err-" + cls)
	default:
		il = fmt.Sprintf("ok %d %x %s", pa.Version, pa.Key, b2s(pa.IsCompressed()))
		r.Hit("wifdec-ok")
	}
	rep["impl"] = il
	// property predicate on the real code
	if pan != "" {
		// NewPrivateAddr may panic ("PublicFromPrivate error") for a key that is 0 or >= the group order; the string
		// codec itself is fine. Only THAT panic on THAT kind of key is tolerated: any other message, or this one for a
		// key inside 1..n-1, is a failure of the decoder on a string the reference calls valid.
		kv := new(big.Int).SetBytes(ref.key)
		outOfRange := len(ref.key) == 32 && (kv.Sign() == 0 || kv.Cmp(secpN) >= 0)
		if (ref.ok || ref.nearOK) && outOfRange && strings.Contains(pan, "PublicFromPrivate error") {
			r.Hit("wifdec-key-out-of-range")
		} else {
			r.PropFail("wif-panic", fmt.Sprintf("DecodePrivateAddr(%q) panics: %s", s, pan), rep)
		}
		return
	}
	accepted := err == nil
	switch {
	case accepted && ref.nearOK && (pa.IsCompressed() || pa.Version != ref.ver || !bytes.Equal(pa.Key, ref.key)):
		r.PropFail("wif-flag-fields", fmt.Sprintf("DecodePrivateAddr(%q) (38-byte payload, flag byte %#02x) = (%d,%x,compressed=%v)", s, ref.payload[33], pa.Version, pa.Key, pa.IsCompressed()), rep)
		return
	case accepted && ref.nearOK:
		// finding wif-flag-byte-unchecked (fixed in lib/btc/wallet.go: a 38-byte payload must have byte 33 = 01);
		// the corpus keeps the witnesses, so this fires again if the guard is lost
		r.PropFail("wif-flag-byte-unchecked", fmt.Sprintf("DecodePrivateAddr(%q) accepts a 38-byte payload whose compression flag byte is %#02x (not 01) as an uncompressed key; String() of the result is %q, a different string", s, ref.payload[33], restr), rep)
	case accepted != ref.ok:
		r.PropFail("wif-accept", fmt.Sprintf("DecodePrivateAddr(%q): accepted=%v but Base58Check/WIF validity is %v", s, accepted, ref.ok), rep)
		return
	case accepted:
		if pa.Version != ref.ver || !bytes.Equal(pa.Key, ref.key) || pa.IsCompressed() != ref.compr {
			r.PropFail("wif-fields", fmt.Sprintf("DecodePrivateAddr(%q) = (%d,%x,%v), the string denotes (%d,%x,%v)", s, pa.Version, pa.Key, pa.IsCompressed(), ref.ver, ref.key, ref.compr), rep)
			return
		}
		if restr != s {
			r.PropFail("wif-reencode", fmt.Sprintf("DecodePrivateAddr(%q).String() = %q", s, restr), rep)
			return
		}
	}
	// tie
	mo := o.MustAsk("wifdec " + vlib.Hex([]byte(s)))
	rep["model"] = mo
	mf := strings.Fields(mo)
	if len(mf) == 5 && mf[0] == "ok" {
		// the model also says whether the flag byte is canonical; it must agree with the reference
		if (mf[4] == "1") != ref.ok {
			r.TieFail("tie-wif-canonical", fmt.Sprintf("model canonical flag %s vs reference %v on %q", mf[4], ref.ok, s), rep)
			return
		}
		mo = strings.Join(mf[:4], " ")
	}
	if (mo == "err flag" && il == "err checksum") || (mo == "err checksum" && il == "err flag") {
		// wrong checksum AND wrong flag byte: both refusals apply, which one is reported first is not behaviour
		if pl := ref.payload; len(pl) == 38 && pl[33] != 1 && !bytes.Equal(dsha(pl[:34])[:4], pl[34:]) {
			mo = il
		}
	}
	if mo != il {
		r.TieFail("tie-wifdec", fmt.Sprintf("model/impl differ on DecodePrivateAddr(%q): impl=%q model=%q", s, il, mo), rep)
		return
	}
	r.TieOK()
}

// checkWifEnc: (version, key, compressed) through NewPrivateAddr.String, the model, the reference, and back.
func checkWifEnc(ver byte, key []byte, compr bool) string {
	r.Eval("wifenc", fmt.Sprintf("wifenc:%d:%x:%v", ver, key, compr))
	rep := map[string]interface{}{"op": "wifenc", "ver": float64(ver), "key": vlib.Hex(key), "compr": compr}
	s, pan := "", ""
	var back *btc.PrivateAddr
	var err error
	func() {
		defer func() {
			if x := recover(); x != nil {
				pan = fmt.Sprint(x)
			}
		}()
		pa := btc.NewPrivateAddr(append([]byte{}, key...), ver, compr)
		s = pa.String()
		back, err = btc.DecodePrivateAddr(s)
	}()
	if pan != "" {
		r.Hit("wifenc-key-out-of-range")
		return ""
	}
	pl := append([]byte{ver}, key...)
	if compr {
		pl = append(pl, 1)
	}
	if want := mkWif(pl); s != want {
		r.PropFail("wif-encode", fmt.Sprintf("PrivateAddr.String() = %q, Base58Check(ver‖key‖[01]) = %q", s, want), rep)
		return s
	}
	if err != nil || back.Version != ver || !bytes.Equal(back.Key, key) || back.IsCompressed() != compr {
		r.PropFail("wif-roundtrip", fmt.Sprintf("DecodePrivateAddr(String()) of (%d,%x,%v) gives %v", ver, key, compr, err), rep)
		return s
	}
	mo := o.MustAsk(fmt.Sprintf("wifenc %d %s %s", ver, vlib.Hex(key), b2s(compr)))
	if mo != "ok "+vlib.Hex([]byte(s)) {
		rep["model"] = mo
		r.TieFail("tie-wifenc", fmt.Sprintf("model/impl differ on PrivateAddr.String of (%d,%x,%v): impl=%q model=%q", ver, key, compr, s, mo), rep)
		return s
	}
	r.TieOK()
	return s
}

func wifKey(g *vlib.Rng) []byte {
	k := g.Bytes(32)
	switch g.Intn(8) {
	case 0:
		copy(k, make([]byte, 1+g.Intn(31))) // leading zero bytes
	case 1:
		k[0] = 0xff // may be >= n only with 2^-128 probability after the next byte; keep below n
		k[1] = 0xfe & k[1]
	}
	k[31] |= 1 // never zero
	return k
}

func wifStreams(g *vlib.Rng) {
	vers := []byte{0x80, 0xef, 0xb0, 0x00, 0xff}
	// corpus: boundaries of the two length tests and of the flag byte, for main and test net
	one := make([]byte, 32)
	one[31] = 1
	for _, v := range []byte{0x80, 0xef} {
		for _, c := range []bool{false, true} {
			checkWifDec("corpus", checkWifEnc(v, one, c))
		}
		base := append([]byte{v}, one...)
		checkWifDec("corpus", mkWif(base[:32]))                               // 36-byte payload: too short
		checkWifDec("corpus", mkWif(append(append([]byte{}, base...), 1, 1))) // 39: too long
		for _, f := range []byte{0, 2, 0x80, 0xff} {                          // 38 bytes, flag byte not 01
			checkWifDec("corpus-flag", mkWif(append(append([]byte{}, base...), f)))
		}
		bad := []byte(mkWif(append(append([]byte{}, base...), 1)))
		bad[len(bad)-1] = refB58[(strings.IndexByte(refB58, bad[len(bad)-1])+1)%58]
		checkWifDec("corpus", string(bad)) // wrong checksum
	}
	// witness of the fixed finding wif-flag-byte-unchecked (80 ‖ 00..01 ‖ 00, valid checksum) and the string it
	// used to be re-encoded to (the compressed spelling of the same key is in the loop above)
	checkWifDec("corpus-flag", "KwDiBf89QgGbjEhKnhXJuH7LrciVrZi3qYjgd9M7rFU73sMvhksF")
	checkWifDec("corpus", "5HpHagT65TZzG1PH3CSu63k8DbpvD8s5ip4nEB3kEsreAnchuDf")
	checkWifDec("corpus", "")
	checkWifDec("corpus", "1")
	checkWifDec("corpus", strings.Repeat("1", 37))
	checkWifDec("corpus", strings.Repeat("1", 38))
	n := r.N(700, 30000)
	for i := 0; i < n; i++ {
		ver := vers[g.Intn(len(vers))]
		if g.Chance(1, 4) {
			ver = byte(g.U64())
		}
		key := wifKey(g)
		compr := g.Chance(1, 2)
		s := checkWifEnc(ver, key, compr)
		if s == "" {
			continue
		}
		switch g.Intn(8) {
		case 0, 1: // the valid string, and its edits
			checkWifDec("valid", s)
			m, k := mutate(g, s)
			checkWifDec(k, m)
		case 2: // wrong flag byte under a valid checksum
			f := byte(g.Pick(0, 2, 3, 0x81, 0xff, g.Intn(256)))
			checkWifDec("flag", mkWif(append(append([]byte{ver}, key...), f)))
		case 3: // wrong payload length under a valid checksum
			l := g.Pick(0, 1, 20, 31, 32, 35, 36, 37, 38, 40, 64)
			checkWifDec("len", mkWif(append([]byte{ver}, g.Bytes(l)...)))
		case 4: // wrong checksum: one checksum byte changed
			pl := append([]byte{ver}, key...)
			if compr {
				pl = append(pl, 1)
			}
			full := append(append([]byte{}, pl...), dsha(pl)[:4]...)
			full[len(pl)+g.Intn(4)] ^= byte(1 << uint(g.Intn(8)))
			checkWifDec("checksum", refB58Encode(full))
		case 5: // one payload byte changed, checksum kept
			pl := append([]byte{ver}, key...)
			if compr {
				pl = append(pl, 1)
			}
			full := append(append([]byte{}, pl...), dsha(pl)[:4]...)
			full[g.Intn(len(pl))] ^= byte(1 << uint(g.Intn(8)))
			checkWifDec("payload-bit", refB58Encode(full))
		case 6: // invalid characters standing for a digit
			b := []byte(s)
			b[g.Intn(len(b))] = []byte{'0', 'O', 'I', 'l', ' ', 0x80, 0xff}[g.Intn(7)]
			checkWifDec("badchar", string(b))
		case 7: // extra leading '1' (zero byte) / trailing garbage
			if g.Bool() {
				checkWifDec("lead1", "1"+s)
			} else {
				checkWifDec("trail", s+string(refB58[g.Intn(58)]))
			}
		}
	}
}
