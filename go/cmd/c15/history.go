// history.go — ONE btc.BtcAddr object used over time. client/usif/textui/wallet.go (list_unspent) and tools/tap2old
// build one address and then re-point it: `ad.Enc58str = ""; ad.SegwitProg = &btc.SegwitProg{…}` between calls of
// OutScript()/String(). The property speaks about what these methods return, so it must hold for such an object too.
//
// A history is a list of tokens applied to one object:
//   K:str:<hex> | K:h160:<ver>:<hex> | K:pub:<ver>:<hex> | K:scr:<tn>:<hex>   construct (first token only; default new(BtcAddr))
//   S:<hrp hex>:<ver>:<prog hex>   a.SegwitProg = &btc.SegwitProg{…}      N   a.SegwitProg = nil
//   E:<hex>   a.Enc58str = …        C:<hex>|C:nil   a.Checksum = …          V:<n>   a.Version = n      H:<hex>   a.Hash160 = …
//   s   a.String()                  o   a.OutScript()
// At every call three things are compared:
//  (1) the same call on a NEW object built from the re-used object's exported fields (String/OutScript are functions of
//      the exported fields: nothing a caller cannot see or reset may influence them)             -> PropFail reuse-*
//  (2) when the caches are coherent (empty, or what the reference encoder gives for the other fields — the state the
//      callers' idiom maintains, Lean: Obj.Coherent): the reference string / the denoted script, and the round trips
//      NewAddrFromString(String()).OutScript() = OutScript(), NewAddrFromPkScript(OutScript()).String() = String()
//                                                                                               -> PropFail reuse-*
//  (3) the Lean model Obj.trace (oracle op `hist`), including the final Enc58str / Checksum     -> TieFail tie-hist
// Added after the seeded change "OutScript() memoises its result in an unexported field" was missed: single-shot
// round trips never see state that survives a re-pointing.
package main

import (
	"bytes"
	"crypto/sha256"
	"fmt"
	"strconv"
	"strings"

	"github.com/piotrnar/gocoin/lib/btc"
	"github.com/piotrnar/gocoin/lib/others/ripemd160"
	"verif/vlib"
)

// cloneExported: a new object carrying copies of all exported fields (keyed literal: compiles whatever else the struct has).
func cloneExported(a *btc.BtcAddr) *btc.BtcAddr {
	f := &btc.BtcAddr{Enc58str: a.Enc58str, Version: a.Version, Hash160: a.Hash160, Extra: a.Extra}
	if a.SegwitProg != nil {
		f.SegwitProg = &btc.SegwitProg{HRP: a.SegwitProg.HRP, Version: a.SegwitProg.Version}
		if a.SegwitProg.Program != nil {
			f.SegwitProg.Program = append([]byte{}, a.SegwitProg.Program...)
		}
	}
	if a.Checksum != nil {
		f.Checksum = append([]byte{}, a.Checksum...)
	}
	if a.Pubkey != nil {
		f.Pubkey = append([]byte{}, a.Pubkey...)
	}
	return f
}

func histCall(a *btc.BtcAddr, which string) (res string) {
	defer func() {
		if x := recover(); x != nil {
			res = which + "=panic"
		}
	}()
	if which == "s" {
		return "s=" + vlib.Hex([]byte(a.String()))
	}
	return "o=" + vlib.Hex(a.OutScript())
}

func cksumTok(c []byte) string {
	if c == nil {
		return "nil"
	}
	return vlib.Hex(c)
}

// fieldToks: the assignments that bring new(BtcAddr) to a's exported state (for the model, after a constructor).
func fieldToks(a *btc.BtcAddr) []string {
	t := []string{"V:" + strconv.Itoa(int(a.Version)), "H:" + vlib.Hex(a.Hash160[:]), "C:" + cksumTok(a.Checksum), "E:" + vlib.Hex([]byte(a.Enc58str))}
	if a.SegwitProg != nil {
		t = append(t, fmt.Sprintf("S:%s:%d:%s", vlib.Hex([]byte(a.SegwitProg.HRP)), a.SegwitProg.Version, vlib.Hex(a.SegwitProg.Program)))
	}
	return t
}

// refObjString: what the exported fields denote, written with the reference encoders ("" = no string form).
func refObjString(a *btc.BtcAddr) string {
	if sw := a.SegwitProg; sw != nil {
		l := len(sw.Program)
		if sw.Version < 0 || sw.Version > 16 || l < 2 || l > 40 || (sw.Version == 0 && l != 20 && l != 32) || len(sw.HRP) == 0 {
			return ""
		}
		for i := 0; i < len(sw.HRP); i++ {
			if c := sw.HRP[i]; c < 33 || c > 126 || (c >= 'A' && c <= 'Z') {
				return ""
			}
		}
		d := append([]int{sw.Version}, to5(sw.Program, true)...)
		if len(sw.HRP)+7+len(d) > 90 {
			return ""
		}
		return encodeRaw(sw.HRP, d, sw.Version != 0)
	}
	return mkB58Addr(a.Version, a.Hash160[:])
}

// refObjScript: the denoted script; nil = none defined (OutScript panics).
func refObjScript(a *btc.BtcAddr) []byte {
	if sw := a.SegwitProg; sw != nil {
		if sw.Version < 0 || sw.Version > 16 {
			return nil
		}
		return refOutScript("segwit", sw.Version, sw.Program)
	}
	return refOutScript("b58", int(a.Version), a.Hash160[:])
}

func objCoherent(a *btc.BtcAddr) bool {
	if a.Enc58str != "" && a.Enc58str != refObjString(a) {
		return false
	}
	if a.Checksum != nil && !bytes.Equal(a.Checksum, dsha(append([]byte{a.Version}, a.Hash160[:]...))[:4]) {
		return false
	}
	return true
}

func checkHist(kind string, toks []string) {
	r.Eval("hist/"+kind, "hist:"+strings.Join(toks, " "))
	rep := map[string]interface{}{"op": "hist", "toks": toks}
	a := new(btc.BtcAddr)
	var mtoks, results []string
	bad := func(t string) {
		r.TieFail("hist-bad-token", "harness bug: bad history token "+t, rep)
	}
	for i, t := range toks {
		f := strings.Split(t, ":")
		switch {
		case f[0] == "K" && i == 0 && len(f) >= 3:
			var c *btc.BtcAddr
			func() {
				defer func() { recover() }()
				switch f[1] {
				case "str":
					c, _ = btc.NewAddrFromString(string(vlib.UnHex(f[2])))
				case "h160":
					v, _ := strconv.Atoi(f[2])
					c = btc.NewAddrFromHash160(vlib.UnHex(f[3]), byte(v))
				case "pub":
					v, _ := strconv.Atoi(f[2])
					c = btc.NewAddrFromPubkey(vlib.UnHex(f[3]), byte(v))
				case "scr":
					c = btc.NewAddrFromPkScript(vlib.UnHex(f[3]), f[2] == "1")
				}
			}()
			if c == nil {
				r.Hit("hist-constructor-nil")
				return
			}
			a = c
			mtoks = append(mtoks, fieldToks(a)...)
			continue
		case f[0] == "S" && len(f) == 4:
			v, _ := strconv.Atoi(f[2])
			a.SegwitProg = &btc.SegwitProg{HRP: string(vlib.UnHex(f[1])), Version: v, Program: vlib.UnHex(f[3])}
		case t == "N":
			a.SegwitProg = nil
		case f[0] == "E" && len(f) == 2:
			a.Enc58str = string(vlib.UnHex(f[1]))
		case t == "C:nil":
			a.Checksum = nil
		case f[0] == "C" && len(f) == 2:
			a.Checksum = append([]byte{}, vlib.UnHex(f[1])...)
		case f[0] == "V" && len(f) == 2:
			v, _ := strconv.Atoi(f[1])
			a.Version = byte(v)
		case f[0] == "H" && len(f) == 2 && len(f[1]) == 40:
			copy(a.Hash160[:], vlib.UnHex(f[1]))
		case t == "s" || t == "o":
			name := map[string]string{"s": "String", "o": "OutScript"}[t]
			r.Hit("hist-call-" + name)
			fresh := cloneExported(a)
			coh := objCoherent(a)
			wantStr, wantScr := refObjString(a), refObjScript(a)
			got := histCall(a, t)
			want := histCall(fresh, t)
			rep["step"], rep["reused"], rep["fresh"] = i, got, want
			if got != want {
				r.PropFail("reuse-"+name, fmt.Sprintf("step %d of history %v: %s() on the re-used BtcAddr gives %s, on a new BtcAddr with the same exported fields %s", i, toks, name, got, want), rep)
				return
			}
			if coh {
				r.Hit("hist-coherent-call")
				ref := "s=" + vlib.Hex([]byte(wantStr))
				if t == "o" {
					ref = "o=panic"
					if wantScr != nil {
						ref = "o=" + vlib.Hex(wantScr)
					}
				}
				if got != ref {
					r.PropFail("reuse-denotes-"+name, fmt.Sprintf("step %d of history %v: %s() gives %s, the destination the fields denote is %s", i, toks, name, got, ref), rep)
					return
				}
				if !histRoundTrips(a, t, got, wantStr, wantScr, i, toks, rep) {
					return
				}
			}
			results = append(results, got)
		default:
			bad(t)
			return
		}
		mtoks = append(mtoks, t)
	}
	il := strings.Join(append(append([]string{"ok"}, results...), "fin", vlib.Hex([]byte(a.Enc58str)), cksumTok(a.Checksum)), " ")
	mo := o.MustAsk("hist " + strings.Join(mtoks, " "))
	if il != mo {
		rep["impl"], rep["model"] = il, mo
		r.TieFail("tie-hist", fmt.Sprintf("model/impl differ on object history %v: impl=%q model=%q", toks, il, mo), rep)
		return
	}
	r.TieOK()
}

// histRoundTrips: on a coherent re-used object, the result `got` of the call just made (t = "s" or "o") against the
// other direction computed from scratch: String() must be what NewAddrFromPkScript gives for the denoted script,
// OutScript() must be what NewAddrFromString gives for the denoted string.
func histRoundTrips(a *btc.BtcAddr, t, got, wantStr string, wantScr []byte, i int, toks []string, rep map[string]interface{}) bool {
	if wantStr == "" || wantScr == nil {
		return true
	}
	tn := false
	if sw := a.SegwitProg; sw != nil {
		if sw.HRP != "bc" && sw.HRP != "tb" {
			return true
		}
		tn = sw.HRP == "tb"
	} else {
		tn = a.Version == 111 || a.Version == 196
	}
	if t == "o" {
		back := "<nil>"
		func() {
			defer func() {
				if recover() != nil {
					back = "o=panic"
				}
			}()
			if b, _ := btc.NewAddrFromString(wantStr); b != nil {
				back = "o=" + vlib.Hex(b.OutScript())
			}
		}()
		if back != got {
			r.PropFail("reuse-string-roundtrip", fmt.Sprintf("step %d of history %v: the object's fields spell %q, which NewAddrFromString reads as %s, but OutScript() of the object is %s", i, toks, wantStr, back, got), rep)
			return false
		}
		return true
	}
	if a.SegwitProg != nil || a.Version != 48 {
		back := "<nil>"
		func() {
			defer func() { recover() }()
			if c := btc.NewAddrFromPkScript(wantScr, tn); c != nil {
				back = "s=" + vlib.Hex([]byte(c.String()))
			}
		}()
		if back != got {
			r.PropFail("reuse-script-roundtrip", fmt.Sprintf("step %d of history %v: the denoted script %x maps back to %s, the object prints %s", i, toks, wantScr, back, got), rep)
			return false
		}
	}
	return true
}

func hash160(b []byte) []byte {
	h1 := sha256.Sum256(b)
	rh := ripemd160.New()
	rh.Write(h1[:])
	return rh.Sum(nil)
}

func segTok(hrp string, ver int, prog []byte) string {
	return fmt.Sprintf("S:%s:%d:%s", vlib.Hex([]byte(hrp)), ver, vlib.Hex(prog))
}

func randCalls(g *vlib.Rng) []string {
	return [][]string{{}, {"o"}, {"s"}, {"o", "s"}, {"s", "o"}, {"o", "o"}, {"s", "s", "o"}, {"o", "s", "o"}}[g.Intn(8)]
}

// randSeg: mostly encodable witness programs, sometimes not (version 17..20, odd lengths, other hrps).
func randSeg(g *vlib.Rng) string {
	hrp := []string{"bc", "tb", "bc", "tb", "ltc", "bcrt", "BC"}[g.Intn(7)]
	ver := g.Pick(0, 0, 1, 1, 2, 16, g.Intn(21))
	l := g.Pick(20, 32, 32, 2, 40, g.Intn(43))
	if ver == 0 && g.Chance(3, 4) {
		l = g.Pick(20, 32)
	}
	return segTok(hrp, ver, g.Bytes(l))
}

func randVer(g *vlib.Rng) int { return g.Pick(0, 5, 111, 196, 48, 0, 5, 128, g.Intn(256)) }

func randConstructor(g *vlib.Rng, valid []string) []string {
	switch g.Intn(6) {
	case 0:
		return nil // new(BtcAddr)
	case 1:
		return []string{fmt.Sprintf("K:h160:%d:%s", randVer(g), vlib.Hex(g.Bytes(20)))}
	case 2:
		pk := g.Bytes(33)
		pk[0] = byte(2 + g.Intn(2))
		if g.Chance(1, 4) {
			pk = g.Bytes(65)
			pk[0] = 4
		}
		return []string{fmt.Sprintf("K:pub:%d:%s", g.Pick(0, 111), vlib.Hex(pk))}
	case 3:
		return []string{"K:str:" + vlib.Hex([]byte(valid[g.Intn(len(valid))]))}
	case 4:
		scr := [][]byte{append(append([]byte{0x76, 0xa9, 0x14}, g.Bytes(20)...), 0x88, 0xac), append(append([]byte{0xa9, 0x14}, g.Bytes(20)...), 0x87),
			append([]byte{0, 20}, g.Bytes(20)...), append([]byte{0, 32}, g.Bytes(32)...), append([]byte{0x51, 32}, g.Bytes(32)...),
			append(append([]byte{0x21}, g.Bytes(33)...), 0xac)}[g.Intn(6)]
		return []string{fmt.Sprintf("K:scr:%d:%s", g.Intn(2), vlib.Hex(scr))}
	}
	return []string{"K:str:" + vlib.Hex([]byte(strings.ToUpper(valid[g.Intn(len(valid))])))}
}

func histStreams(g *vlib.Rng, valid []string) {
	// (a) the callers' own sequences: list_unspent (OutScript of the P2PKH form, then P2TR, then P2WPKH on the same
	// object) and tap2old (prints the three forms), with the calls in every order the code or a reader of it might use
	for i := 0; i < r.N(40, 2000); i++ {
		pk := g.Bytes(33)
		pk[0] = byte(2 + g.Intn(2))
		tn := g.Bool()
		ver, hrp := 0, "bc"
		if tn {
			ver, hrp = 111, "tb"
		}
		t := []string{fmt.Sprintf("K:pub:%d:%s", ver, vlib.Hex(pk))}
		t = append(t, [][]string{{"o"}, {"s"}, {"o", "s"}, {"s", "o"}, {}}[i%5]...)
		t = append(t, "E:-", segTok(hrp, 1, pk[1:]))
		t = append(t, [][]string{{"o"}, {"s", "o"}, {"o", "s"}, {"s"}}[(i/5)%4]...)
		t = append(t, "E:-", segTok(hrp, 0, hash160(pk)))
		t = append(t, [][]string{{"o"}, {"s", "o"}, {"o", "s"}}[(i/20)%3]...)
		if g.Chance(1, 3) { // and back to the Base58 form the object still carries
			t = append(t, "E:-", "N", "o", "s")
		}
		checkHist("caller-idiom", t)
		if i == 0 {
			r.Sample(map[string]interface{}{"op": "hist", "toks": t})
		}
	}
	// (b) random histories in the idiom (every re-pointing resets the caches it invalidates)
	for i := 0; i < r.N(2500, 80000); i++ {
		t := randConstructor(g, valid)
		t = append(t, randCalls(g)...)
		for k := 0; k < 1+g.Intn(6); k++ {
			switch g.Intn(5) {
			case 0, 1:
				t = append(t, "E:-", randSeg(g))
			case 2:
				t = append(t, "E:-", "C:nil", "N", fmt.Sprintf("V:%d", randVer(g)), "H:"+vlib.Hex(g.Bytes(20)))
			case 3:
				t = append(t, "E:-", "N")
			case 4:
				t = append(t, "E:-", "C:nil", fmt.Sprintf("V:%d", randVer(g)))
			}
			t = append(t, randCalls(g)...)
		}
		checkHist("idiom", t)
	}
	// (c) raw histories: assignments without the resets, odd Checksum lengths, typed Enc58str
	for i := 0; i < r.N(1500, 50000); i++ {
		t := randConstructor(g, valid)
		for k := 0; k < 2+g.Intn(8); k++ {
			switch g.Intn(9) {
			case 0:
				t = append(t, randSeg(g))
			case 1:
				t = append(t, "N")
			case 2:
				t = append(t, fmt.Sprintf("V:%d", randVer(g)))
			case 3:
				t = append(t, "H:"+vlib.Hex(g.Bytes(20)))
			case 4:
				t = append(t, "E:-")
			case 5:
				t = append(t, "E:"+vlib.Hex([]byte(valid[g.Intn(len(valid))])))
			case 6:
				t = append(t, "C:"+[]string{"nil", "nil", "-", vlib.Hex(g.Bytes(4)), vlib.Hex(g.Bytes(1+g.Intn(7)))}[g.Intn(5)])
			default:
				t = append(t, randCalls(g)...)
			}
		}
		t = append(t, randCalls(g)...)
		checkHist("raw", t)
	}
}
