// callers.go — the CALLERS that turn a typed address into the script a payment goes to, and that keep the typed
// address across calls. The last sentence of C15 ("the script a payment is sent to is always the one the typed
// address denotes") is about them: a decoder that is right is of no use when the caller does not ask it.
//
// Driven here, all on the real code:
//   - client/usif/textui  `minadr <string>`  (do_minaddr through the hook VerifUiCommand: validates the string with
//     btc.NewAddrFromString, stores it in rpcapi.COINBASE_ADDRESS, displays the address in force)
//   - client/rpcapi       make_coinbase_tx   (hook VerifMakeCoinbaseTx: the coinbase of a getwork template; output 0
//     must pay the script of the address in force)
//   - client/rpcapi       ValidateAddress    (rpc validateaddress: isvalid / scriptPubKey of a typed string)
//
// A case is a HISTORY of such steps in ONE FRESH PROCESS (this binary re-executed as `c15 payout-child <steps>`): the
// node starts with its built-in payout address, the operator types addresses, miners ask for templates, in any order.
// One process per history makes every report replayable on its own, whatever the code keeps between two steps (a
// cached script, a cached address object, a flag "already decoded").
//
// Predicate, evaluated with the independent reference decoder (refSegwitValid / refB58CheckValid / refOutScript):
//   address in force = last typed string that is non-empty and valid by the reference, else the built-in one;
//   `minadr` displays the address in force; every template pays refOutScript(address in force);
//   validateaddress says valid iff the reference does and reports the reference script.
// Tie: the same history through Addr.Payout.run (oracle op `payout`) = what the process printed
// (theorems payout_pays_address_in_force / payout_shows_address_in_force / payout_script_is_denoted).
package main

import (
	"bytes"
	"fmt"
	"os"
	"os/exec"
	"strings"
	"sync"
	"time"

	"github.com/piotrnar/gocoin/client/rpcapi"
	"github.com/piotrnar/gocoin/client/usif/textui"
	"github.com/piotrnar/gocoin/lib/btc"
	"verif/vlib"
)

// ---------------------------------------------------------------- child: one history on the real code

// payoutChild runs the steps (T:<hex> | G | V:<hex>) and prints "ok c=<built-in address> <out> ..." on the real stdout.
func payoutChild(toks []string) {
	out := os.Stdout
	if null, err := os.OpenFile(os.DevNull, os.O_WRONLY, 0); err == nil {
		os.Stdout, os.Stderr = null, null // the handlers print for the operator; the result line goes to `out`
	}
	res := []string{"ok", "c=" + hexTok([]byte(rpcapi.COINBASE_ADDRESS))}
	height := uint32(1000)
	for _, t := range toks {
		switch {
		case strings.HasPrefix(t, "T:"):
			s := string(unhexTok(t[2:]))
			func() {
				defer func() {
					if x := recover(); x != nil {
						res = append(res, "t=PANIC")
					}
				}()
				if !textui.VerifUiCommand("minadr", s) {
					res = append(res, "t=NOCOMMAND")
					return
				}
				res = append(res, "t="+hexTok([]byte(rpcapi.COINBASE_ADDRESS)))
			}()
		case t == "G":
			height++
			func() {
				defer func() {
					if x := recover(); x != nil {
						res = append(res, "g=panic")
					}
				}()
				tx := rpcapi.VerifMakeCoinbaseTx(height)
				if tx == nil || len(tx.TxOut) == 0 || tx.TxOut[0] == nil {
					res = append(res, "g=NOOUTPUT")
					return
				}
				res = append(res, "g="+hexTok(tx.TxOut[0].Pk_script))
			}()
		case strings.HasPrefix(t, "V:"):
			s := string(unhexTok(t[2:]))
			func() {
				defer func() {
					if x := recover(); x != nil {
						res = append(res, "v=panic")
					}
				}()
				switch v := rpcapi.ValidateAddress(s).(type) {
				case *rpcapi.ValidAddressResponse:
					if !v.IsValid || v.Address != s {
						res = append(res, "v=INCONSISTENT")
					} else if v.ScriptPubKey == "" {
						res = append(res, "v=-")
					} else {
						res = append(res, "v="+v.ScriptPubKey)
					}
				case *rpcapi.InvalidAddressResponse:
					if v.IsValid {
						res = append(res, "v=INCONSISTENT")
					} else {
						res = append(res, "v=invalid")
					}
				default:
					res = append(res, "v=UNKNOWNTYPE")
				}
			}()
		default:
			res = append(res, "BADTOKEN")
		}
	}
	fmt.Fprintln(out, strings.Join(res, " "))
}

func runPayoutChild(toks []string) string {
	exe, err := os.Executable()
	if err != nil {
		return "CHILD-ERROR " + err.Error()
	}
	cmd := exec.Command(exe, append([]string{"payout-child"}, toks...)...)
	var ob bytes.Buffer
	cmd.Stdout = &ob
	done := make(chan error, 1)
	if err := cmd.Start(); err != nil {
		return "CHILD-ERROR " + err.Error()
	}
	go func() { done <- cmd.Wait() }()
	select {
	case err = <-done:
	case <-time.After(60 * time.Second):
		cmd.Process.Kill()
		<-done
		return "CHILD-TIMEOUT"
	}
	line := strings.TrimSpace(ob.String())
	if err != nil || !strings.HasPrefix(line, "ok c=") {
		return fmt.Sprintf("CHILD-ERROR %v %q", err, line)
	}
	return line
}

// ---------------------------------------------------------------- reference

// refAddr: what a typed string denotes by BIP173/BIP350/Base58Check (the same reference checkAddr uses).
func refAddr(s string) (ok bool, kind string, ver int, payload []byte) {
	if len(s) >= 4 {
		p := strings.ToLower(s[:3])
		if p == "bc1" || p == "tb1" {
			if ok, v, prog := refSegwitValid(p[:2], s); ok {
				return true, "segwit", v, prog
			}
		} else if ok, v, h := refB58CheckValid(s); ok {
			return true, "b58", int(v), h
		}
	}
	return false, "", 0, nil
}

// canonAddr: an accepted segwit address in lower case ("the same string up to Bech32 case"): a caller that stores or
// displays the typed address in its canonical spelling is as good as one that keeps the typed spelling.
func canonAddr(s string) string {
	if ok, k, _, _ := refAddr(s); ok && k == "segwit" {
		return strings.ToLower(s)
	}
	return s
}

// canonShown canonicalises the displayed addresses (t=..., and the start value c=...) of a result line.
func canonShown(outs []string) []string {
	res := append([]string{}, outs...)
	for i, t := range res {
		if (strings.HasPrefix(t, "t=") || strings.HasPrefix(t, "c=")) && len(t) > 2 && !strings.ContainsAny(t[2:], "GHIJKLMNOPQRSTUVWXYZ") {
			res[i] = t[:2] + hexTok([]byte(canonAddr(string(unhexTok(t[2:])))))
		}
	}
	return res
}

func scriptName(scr []byte) string {
	name := "<no address form>"
	func() {
		defer func() { recover() }()
		for _, tn := range []bool{true, false} {
			if a := btc.NewAddrFromPkScript(scr, tn); a != nil {
				name = a.String()
				return
			}
		}
	}()
	return name
}

// ---------------------------------------------------------------- one history: property + tie

func checkPayout(kind string, toks []string, line string) {
	r.Eval("payout/"+kind, "payout:"+strings.Join(toks, " "))
	rep := map[string]interface{}{"op": "payout", "toks": toks, "impl": line}
	if !strings.HasPrefix(line, "ok c=") {
		r.TieFail("payout-child:"+kind, "the history could not be run on the real code: "+line, rep)
		return
	}
	outs := canonShown(strings.Fields(line)[1:])
	start := string(unhexTok(outs[0][2:]))
	outs = outs[1:]
	if len(outs) != len(toks) {
		r.TieFail("payout-child:"+kind, "the real code answered "+itoa(len(outs))+" of "+itoa(len(toks))+" steps: "+line, rep)
		return
	}
	rep["start"] = start
	inForce, changed, templates := start, false, 0
	var story []string
	for i, t := range toks {
		got := outs[i]
		switch {
		case strings.HasPrefix(t, "T:"):
			s := string(unhexTok(t[2:]))
			if ok, _, _, _ := refAddr(s); ok && s != "" {
				if s != inForce {
					changed = true
				}
				inForce = s
				r.Hit("payout-step/typed-accepted")
				if templates > 0 {
					r.Hit("payout-step/typed-accepted-after-template")
				}
			} else {
				r.Hit("payout-step/typed-refused")
			}
			story = append(story, fmt.Sprintf("minadr %q", s))
			if want := "t=" + hexTok([]byte(canonAddr(inForce))); got != want {
				r.PropFail("payout-shown:"+kind, fmt.Sprintf("after %s the text UI shows payout address %q, the address in force is %q",
					strings.Join(story, "; "), string(unhexTok(strings.TrimPrefix(got, "t="))), inForce), rep)
				return
			}
		case t == "G":
			templates++
			story = append(story, "template")
			ok, k, ver, payload := refAddr(inForce)
			var want []byte
			if ok {
				want = refOutScript(k, ver, payload)
			}
			if want == nil {
				// the built-in string is not an address, or a Base58 version byte without script form: no denoted script
				r.Hit("payout-step/template-no-script-form")
				break
			}
			if changed {
				r.Hit("payout-step/template-after-change")
			} else {
				r.Hit("payout-step/template-built-in")
			}
			if got != "g="+hexTok(want) {
				paid := strings.TrimPrefix(got, "g=")
				name := paid
				if paid != "panic" {
					name = paid + " = " + scriptName(unhexTok(paid))
				}
				r.PropFail("payout-script:"+kind, fmt.Sprintf("after %s the payout address in force is %q (script %x) but the block template pays %s",
					strings.Join(story, "; "), inForce, want, name), rep)
				return
			}
		case strings.HasPrefix(t, "V:"):
			s := string(unhexTok(t[2:]))
			story = append(story, fmt.Sprintf("validateaddress %q", s))
			ok, k, ver, payload := refAddr(s)
			if ok != (got != "v=invalid") {
				what := "valid although invalid by BIP173/BIP350/Base58Check"
				if ok {
					what = "invalid although valid by BIP173/BIP350/Base58Check"
				}
				r.PropFail("rpc-validate-accept:"+kind, fmt.Sprintf("after %s: validateaddress reports %q %s (%s)", strings.Join(story, "; "), s, what, got), rep)
				return
			}
			if ok {
				r.Hit("payout-step/validate-valid")
				if want := refOutScript(k, ver, payload); want != nil && got != "v="+hexTok(want) {
					r.PropFail("rpc-validate-script:"+kind, fmt.Sprintf("after %s: validateaddress %q reports scriptPubKey %s, the address denotes %x",
						strings.Join(story, "; "), s, strings.TrimPrefix(got, "v="), want), rep)
					return
				}
			} else {
				r.Hit("payout-step/validate-invalid")
			}
		}
	}
	mo := o.MustAsk("payout " + hexTok([]byte(start)) + " " + strings.Join(toks, " "))
	rep["model"] = mo
	mo = strings.Join(canonShown(strings.Fields(mo)), " ")
	if want := "ok " + strings.Join(outs, " "); mo != want {
		r.TieFail("tie-payout:"+kind, fmt.Sprintf("model/impl differ on the history %s: impl=%q model=%q", strings.Join(story, "; "), want, mo), rep)
		return
	}
	r.TieOK()
}

// ---------------------------------------------------------------- generators

// typedString: what an operator may type - mostly an acceptable address of a form that has a script, sometimes a
// string that must be refused (1..4 edits, empty, blanks around, a key instead of an address), sometimes a Base58
// version byte without script form.
func typedString(g *vlib.Rng, valid, scripted []string) string {
	switch g.Intn(20) {
	case 0:
		return ""
	case 1, 2, 3:
		s, _ := mutate(g, scripted[g.Intn(len(scripted))])
		return s
	case 4:
		return []string{" ", ""}[g.Intn(2)] + scripted[g.Intn(len(scripted))] + []string{" ", "\t", "  x"}[g.Intn(3)]
	case 5:
		return valid[g.Intn(len(valid))] // any version byte / witness version
	case 6:
		return mkWif(append([]byte{byte(g.Pick(0x80, 0xef))}, append(g.Bytes(32), 1)...))
	case 7, 8:
		s := scripted[g.Intn(len(scripted))]
		if len(s) > 3 && (s[:3] == "bc1" || s[:3] == "tb1") {
			return strings.ToUpper(s)
		}
		return s
	}
	return scripted[g.Intn(len(scripted))]
}

func payoutHistory(g *vlib.Rng, shape string, valid, scripted []string) []string {
	T := func() string { return "T:" + hexTok([]byte(typedString(g, valid, scripted))) }
	TV := func() string { return "T:" + hexTok([]byte(scripted[g.Intn(len(scripted))])) }
	V := func() string { return "V:" + hexTok([]byte(typedString(g, valid, scripted))) }
	var toks []string
	switch shape {
	case "first-template": // nothing typed
		toks = []string{"G"}
	case "typed-then-template":
		toks = []string{TV(), "G"}
	case "template-typed-template": // an address change between two templates
		toks = []string{"G", TV(), "G"}
	case "alternating":
		for i, n := 0, 2+g.Intn(4); i < n; i++ {
			toks = append(toks, TV(), "G")
			if g.Chance(1, 3) {
				toks = append(toks, "G")
			}
		}
	case "refused-in-between": // a refused string must leave the address in force alone, before and after templates
		s, _ := mutate(g, scripted[g.Intn(len(scripted))])
		toks = []string{TV(), "G", "T:" + hexTok([]byte(s)), "G", TV(), "G"}
	case "retyped-same": // the same address typed again, in another case for segwit
		a := scripted[g.Intn(len(scripted))]
		toks = []string{"T:" + hexTok([]byte(a)), "G", "T:" + hexTok([]byte(a)), "G", TV(), "G"}
	case "validate-mixed": // validateaddress of OTHER strings between the steps must not leak into the payout
		toks = []string{V(), "G", TV(), V(), "G", V(), TV(), V(), "G"}
	default: // random
		for i, n := 0, 1+g.Intn(12); i < n; i++ {
			switch x := g.Intn(20); {
			case x < 9:
				toks = append(toks, T())
			case x < 17:
				toks = append(toks, "G")
			default:
				toks = append(toks, V())
			}
		}
	}
	return toks
}

var payoutShapes = []string{"first-template", "typed-then-template", "template-typed-template", "alternating",
	"refused-in-between", "retyped-same", "validate-mixed", "random", "random", "random"}

func payoutStreams(g *vlib.Rng, valid []string) {
	// addresses of the five forms that have a script (what an operator would type)
	var scripted []string
	for _, s := range valid {
		if ok, k, v, p := refAddr(s); ok && refOutScript(k, v, p) != nil {
			scripted = append(scripted, s)
		}
	}
	n := r.N(160, 2400)
	type job struct {
		kind string
		toks []string
		line string
	}
	jobs := make([]job, n)
	for i := range jobs {
		shape := payoutShapes[i%len(payoutShapes)]
		jobs[i] = job{kind: shape, toks: payoutHistory(g, shape, valid, scripted)}
	}
	// fresh process per history, a few at a time; results are evaluated in generation order (deterministic for a seed)
	var wg sync.WaitGroup
	sem := make(chan struct{}, 8)
	for i := range jobs {
		wg.Add(1)
		sem <- struct{}{}
		go func(j *job) {
			defer wg.Done()
			j.line = runPayoutChild(j.toks)
			<-sem
		}(&jobs[i])
	}
	wg.Wait()
	for i, j := range jobs {
		checkPayout(j.kind, j.toks, j.line)
		if i == 3 {
			r.Sample(map[string]interface{}{"op": "payout", "toks": j.toks, "impl": j.line})
		}
	}
}

func replayPayout(doc map[string]interface{}) {
	var toks []string
	if l, ok := doc["toks"].([]interface{}); ok {
		for _, x := range l {
			s, _ := x.(string)
			toks = append(toks, s)
		}
	}
	checkPayout("replay", toks, runPayoutChild(toks))
}
