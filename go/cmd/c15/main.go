// c15 — correspondence harness + property search for C15 (address encodings).
// Real code: btc.NewAddrFromString / String / OutScript / NewAddrFromPkScript, bech32.*, Encodeb58/Decodeb58.
// Model: lean oracle_c15. Independent reference (Spec side, for the property predicate):
// refBech32 / refB58Check below, written from BIP173/BIP350 and the Base58Check definition.
package main

import (
	"bytes"
	"crypto/sha256"
	"encoding/json"
	"fmt"
	"math/big"
	"os"
	"strings"

	"github.com/piotrnar/gocoin/lib/btc"
	"github.com/piotrnar/gocoin/lib/others/bech32"
	"github.com/piotrnar/gocoin/lib/others/ripemd160"
	"verif/vlib"
)

var r *vlib.Run
var o *vlib.Oracle

// ---------------------------------------------------------------- independent reference
const refCharset = "qpzry9x8gf2tvdw0s3jn54khce6mua7l"

func refPolymod(values []int) uint32 {
	gen := []uint32{0x3b6a57b2, 0x26508e6d, 0x1ea119fa, 0x3d4233dd, 0x2a1462b3}
	chk := uint32(1)
	for _, v := range values {
		top := chk >> 25
		chk = (chk&0x1ffffff)<<5 ^ uint32(v)
		for i := 0; i < 5; i++ {
			if (top>>uint(i))&1 == 1 {
				chk ^= gen[i]
			}
		}
	}
	return chk
}

// refSegwitValid: BIP173/BIP350 decode of a segwit address for the given hrp.
func refSegwitValid(hrp, s string) (ok bool, ver int, prog []byte) {
	if len(s) > 90 || len(s) < 8 {
		return
	}
	lower, upper := false, false
	for i := 0; i < len(s); i++ {
		c := s[i]
		if c < 33 || c > 126 {
			return
		}
		if c >= 'a' && c <= 'z' {
			lower = true
		}
		if c >= 'A' && c <= 'Z' {
			upper = true
		}
	}
	if lower && upper {
		return
	}
	s = strings.ToLower(s)
	pos := strings.LastIndexByte(s, '1')
	if pos < 1 || pos+7 > len(s) {
		return
	}
	if s[:pos] != hrp {
		return
	}
	var vals []int
	for i := 0; i < pos; i++ {
		vals = append(vals, int(s[i]>>5))
	}
	vals = append(vals, 0)
	for i := 0; i < pos; i++ {
		vals = append(vals, int(s[i]&31))
	}
	var data []int
	for i := pos + 1; i < len(s); i++ {
		d := strings.IndexByte(refCharset, s[i])
		if d < 0 {
			return
		}
		data = append(data, d)
	}
	vals = append(vals, data...)
	pm := refPolymod(vals)
	data = data[:len(data)-6]
	if len(data) < 1 {
		return
	}
	v := data[0]
	if v > 16 {
		return
	}
	if v == 0 && pm != 1 {
		return
	}
	if v != 0 && pm != 0x2bc830a3 {
		return
	}
	// 5→8 without padding
	acc, bits := 0, 0
	var out []byte
	for _, d := range data[1:] {
		acc = (acc << 5) | d
		bits += 5
		for bits >= 8 {
			bits -= 8
			out = append(out, byte(acc>>uint(bits)))
			acc &= (1 << uint(bits)) - 1
		}
	}
	if bits >= 5 || acc != 0 {
		return
	}
	if len(out) < 2 || len(out) > 40 {
		return
	}
	if v == 0 && len(out) != 20 && len(out) != 32 {
		return
	}
	return true, v, out
}

const refB58 = "123456789ABCDEFGHJKLMNPQRSTUVWXYZabcdefghijkmnopqrstuvwxyz"

func refB58Decode(s string) []byte {
	n := new(big.Int)
	for i := 0; i < len(s); i++ {
		d := strings.IndexByte(refB58, s[i])
		if d < 0 {
			return nil
		}
		n.Mul(n, big.NewInt(58))
		n.Add(n, big.NewInt(int64(d)))
	}
	z := 0
	for z < len(s) && s[z] == '1' {
		z++
	}
	return append(make([]byte, z), n.Bytes()...)
}

func refB58Encode(b []byte) string {
	n := new(big.Int).SetBytes(b)
	var out []byte
	m := new(big.Int)
	for n.Sign() != 0 {
		n.DivMod(n, big.NewInt(58), m)
		out = append([]byte{refB58[m.Int64()]}, out...)
	}
	for i := 0; i < len(b) && b[i] == 0; i++ {
		out = append([]byte{'1'}, out...)
	}
	return string(out)
}

func dsha(b []byte) []byte {
	a := sha256.Sum256(b)
	c := sha256.Sum256(a[:])
	return c[:]
}

// refB58CheckValid: 25-byte payload with a correct double-SHA256 checksum.
func refB58CheckValid(s string) (ok bool, ver byte, h []byte) {
	d := refB58Decode(s)
	if len(d) != 25 {
		return
	}
	if !bytes.Equal(dsha(d[:21])[:4], d[21:]) {
		return
	}
	return true, d[0], d[1:21]
}

func refOutScript(kind string, ver int, payload []byte) []byte {
	if kind == "segwit" {
		op := byte(0)
		if ver > 0 {
			op = byte(0x50 + ver)
		}
		return append([]byte{op, byte(len(payload))}, payload...)
	}
	switch ver {
	case 0, 111, 48:
		return append(append([]byte{0x76, 0xa9, 20}, payload...), 0x88, 0xac)
	case 5, 196:
		return append(append([]byte{0xa9, 20}, payload...), 0x87)
	}
	return nil // no script form defined for this version byte
}

// ---------------------------------------------------------------- real-code wrappers
type addrRes struct {
	line      string // canonical line, same format as the oracle's
	ok        bool
	kind      string
	ver       int
	payload   []byte
	outscript []byte
	panicked  bool
	restr     string
}

func implAddr(s string) (res addrRes) {
	defer func() {
		if x := recover(); x != nil {
			res.line = fmt.Sprint("PANIC ", x)
			res.panicked = true
		}
	}()
	a, e := btc.NewAddrFromString(s)
	if a == nil || e != nil {
		res.line = "err " + errClass(e)
		return
	}
	res.ok = true
	var fresh *btc.BtcAddr
	if a.SegwitProg != nil {
		res.kind, res.ver, res.payload = "segwit", a.SegwitProg.Version, a.SegwitProg.Program
		fresh = &btc.BtcAddr{SegwitProg: &btc.SegwitProg{HRP: a.SegwitProg.HRP, Version: a.SegwitProg.Version, Program: a.SegwitProg.Program}}
	} else {
		res.kind, res.ver, res.payload = "b58", int(a.Version), a.Hash160[:]
		fresh = btc.NewAddrFromHash160(a.Hash160[:], a.Version)
	}
	os := "panic"
	func() {
		defer func() {
			if recover() != nil {
				res.outscript = nil
			}
		}()
		res.outscript = a.OutScript()
		os = vlib.Hex(res.outscript)
	}()
	res.restr = fresh.String()
	re := "none"
	if res.restr != "" {
		re = vlib.Hex([]byte(res.restr))
	}
	res.line = fmt.Sprintf("ok %s %d %s %s %s", res.kind, res.ver, vlib.Hex(res.payload), os, re)
	return
}

func errClass(e error) string {
	if e == nil {
		return "nil-without-error"
	}
	m := e.Error()
	switch {
	case strings.Contains(m, "is too short"):
		return "short"
	case m == "BECH32 decode error":
		return "segwit1"
	case m == "HRP mismatch":
		return "segwit2"
	case m == "WITNESS Version too high":
		return "segwit3"
	case m == "WITNESS using M for Version 0":
		return "segwit4"
	case m == "WITNESS not using M when needed":
		return "segwit5"
	case m == "ERROR from convert_bits":
		return "segwit6"
	case m == "WITNESS data length error":
		return "segwit7"
	case m == "WITNESS Version 0 data length error":
		return "segwit8"
	case strings.HasPrefix(m, "Cannot decode b58"):
		return "b58decode"
	case strings.HasPrefix(m, "Address too short"):
		return "b58short"
	case strings.HasPrefix(m, "CHECKSUM"):
		return "checksum"
	case strings.HasPrefix(m, "Unrecognized address payload"):
		return "payload"
	}
	return "other:" + m
}

// ---------------------------------------------------------------- checks

// checkAddr: one string through impl, model and reference.
func checkAddr(kind, s string) {
	r.Eval("addr/"+kind, "addr:"+s)
	im := implAddr(s)
	mo := o.MustAsk("addr " + vlib.Hex([]byte(s)))
	rep := map[string]interface{}{"op": "addr", "string": s, "string_hex": vlib.Hex([]byte(s)), "impl": im.line, "model": mo}
	if im.panicked {
		r.PropFail("addr-panic:"+vlib.ShortHash([]byte(s)), "NewAddrFromString panics on "+fmt.Sprintf("%q", s), rep)
		return
	}
	r.Hit("addr-result/" + strings.SplitN(im.line, " ", 3)[0] + "-" + firstWord(im.line, 1))
	// property: accepted <=> valid by the independent reference; script is the denoted one
	refOK, refKind, refVer, refPayload := false, "", 0, []byte(nil)
	if len(s) >= 4 {
		p := strings.ToLower(s[:3])
		if p == "bc1" || p == "tb1" {
			if ok, v, prog := refSegwitValid(p[:2], s); ok {
				refOK, refKind, refVer, refPayload = true, "segwit", v, prog
			}
		} else if ok, v, h := refB58CheckValid(s); ok {
			refOK, refKind, refVer, refPayload = true, "b58", int(v), h
		}
	}
	if im.ok != refOK {
		what := "accepted although invalid by BIP173/BIP350/Base58Check"
		if refOK {
			what = "refused although valid by BIP173/BIP350/Base58Check"
		}
		r.PropFail("addr-accept:"+kind, fmt.Sprintf("address %q %s", s, what), rep)
		return
	}
	if im.ok {
		if im.kind != refKind || im.ver != refVer || !bytes.Equal(im.payload, refPayload) {
			r.PropFail("addr-decode:"+kind, fmt.Sprintf("address %q decodes to %s/%d/%x, reference says %s/%d/%x", s, im.kind, im.ver, im.payload, refKind, refVer, refPayload), rep)
			return
		}
		want := refOutScript(refKind, refVer, refPayload)
		if want != nil && !bytes.Equal(want, im.outscript) {
			r.PropFail("addr-script:"+kind, fmt.Sprintf("address %q: OutScript %x, denoted script %x", s, im.outscript, want), rep)
			return
		}
		canon := s
		if im.kind == "segwit" {
			canon = strings.ToLower(s)
		}
		if im.restr != canon {
			r.PropFail("addr-reencode:"+kind, fmt.Sprintf("address %q re-encodes to %q", s, im.restr), rep)
			return
		}
		if want != nil {
			tn := refVer == 111 || refVer == 196 || (refKind == "segwit" && strings.ToLower(s[:2]) == "tb")
			if refKind == "segwit" || refVer != 48 {
				back := btc.NewAddrFromPkScript(want, tn)
				if back == nil || back.String() != canon {
					got := "<nil>"
					if back != nil {
						got = back.String()
					}
					r.PropFail("addr-fromscript:"+kind, fmt.Sprintf("script %x of %q maps back to %q", want, s, got), rep)
					return
				}
			}
		}
	}
	if im.line != mo {
		r.TieFail("tie-addr:"+kind, fmt.Sprintf("model/impl differ on address %q: impl=%q model=%q", s, im.line, mo), rep)
		return
	}
	r.TieOK()
}

func firstWord(l string, i int) string {
	f := strings.Fields(l)
	if i < len(f) {
		return f[i]
	}
	return ""
}

func checkSegEnc(hrp string, ver int, prog []byte) string {
	r.Eval("segenc", fmt.Sprintf("segenc:%s:%d:%x", hrp, ver, prog))
	s := bech32.SegwitEncode(hrp, ver, prog)
	il := "none"
	if s != "" {
		il = "ok " + vlib.Hex([]byte(s))
	}
	mo := o.MustAsk(fmt.Sprintf("segenc %s %d %s", vlib.Hex([]byte(hrp)), ver, vlib.Hex(prog)))
	rep := map[string]interface{}{"op": "segenc", "hrp": hrp, "hrp_hex": vlib.Hex([]byte(hrp)), "ver": ver, "prog": vlib.Hex(prog), "impl": il, "model": mo}
	valid := ver <= 16 && len(prog) >= 2 && len(prog) <= 40 && (ver != 0 || len(prog) == 20 || len(prog) == 32) &&
		refHrpOK(hrp) && len(hrp)+7+1+(len(prog)*8+4)/5 <= 90
	if valid != (s != "") {
		r.PropFail("segenc-accept", fmt.Sprintf("SegwitEncode(%s,%d,%x) = %q, validity by BIP141/173 is %v", hrp, ver, prog, s, valid), rep)
		return s
	}
	if s != "" {
		if ok, v, p := refSegwitValid(hrp, s); !ok || v != ver || !bytes.Equal(p, prog) {
			r.PropFail("segenc-wrong", fmt.Sprintf("SegwitEncode(%s,%d,%x) = %q which the reference decoder reads as ok=%v %d %x", hrp, ver, prog, s, ok, v, p), rep)
			return s
		}
	}
	if il != mo {
		r.TieFail("tie-segenc", fmt.Sprintf("model/impl differ on SegwitEncode(%s,%d,%x): impl=%q model=%q", hrp, ver, prog, il, mo), rep)
		return s
	}
	r.TieOK()
	return s
}

func checkB58(b []byte) {
	r.Eval("b58", "b58:"+string(b))
	var s string
	var back []byte
	pan := ""
	func() {
		defer func() {
			if x := recover(); x != nil {
				pan = fmt.Sprint(x)
			}
		}()
		s = btc.Encodeb58(b)
		back = btc.Decodeb58(s)
	}()
	rep := map[string]interface{}{"op": "b58", "bytes": vlib.Hex(b), "impl_str": s, "impl_back": vlib.Hex(back)}
	if pan != "" {
		r.PropFail("b58-panic", fmt.Sprintf("Encodeb58/Decodeb58 panics on %x: %s", b, pan), rep)
		return
	}
	if s != refB58Encode(b) {
		r.PropFail("b58-encode", fmt.Sprintf("Encodeb58(%x) = %q, Base58 definition gives %q", b, s, refB58Encode(b)), rep)
		return
	}
	if !bytes.Equal(back, b) {
		r.PropFail("b58-roundtrip", fmt.Sprintf("Decodeb58(Encodeb58(%x)) = %x", b, back), rep)
		return
	}
	m1 := o.MustAsk("b58enc " + vlib.Hex(b))
	m2 := o.MustAsk("b58dec " + vlib.Hex([]byte(s)))
	e2 := "none"
	if back != nil {
		e2 = "ok " + vlib.Hex(back)
	}
	if m1 != "ok "+vlib.Hex([]byte(s)) || m2 != e2 {
		rep["model_enc"], rep["model_dec"] = m1, m2
		r.TieFail("tie-b58", fmt.Sprintf("model/impl differ on base58 of %x", b), rep)
		return
	}
	r.TieOK()
}

func checkB58Dec(s string) {
	r.Eval("b58dec", "b58dec:"+s)
	d := btc.Decodeb58(s)
	il := "none"
	if d != nil {
		il = "ok " + vlib.Hex(d)
	}
	ref := refB58Decode(s)
	if (d == nil) != (len(ref) == 0) || (d != nil && !bytes.Equal(d, ref)) {
		r.PropFail("b58-decode", fmt.Sprintf("Decodeb58(%q) = %x, Base58 definition gives %x", s, d, ref),
			map[string]interface{}{"op": "b58dec", "string": s, "string_hex": vlib.Hex([]byte(s))})
		return
	}
	mo := o.MustAsk("b58dec " + vlib.Hex([]byte(s)))
	if mo != il {
		r.TieFail("tie-b58dec", fmt.Sprintf("model/impl differ on Decodeb58(%q): impl=%q model=%q", s, il, mo),
			map[string]interface{}{"op": "b58dec", "string": s, "string_hex": vlib.Hex([]byte(s)), "impl": il, "model": mo})
		return
	}
	// the digit loop as written (range over the code points, Model/Base58Str.lean) is the code's loop
	if ms := o.MustAsk("b58src " + vlib.Hex([]byte(s))); ms != il {
		r.TieFail("tie-b58src", fmt.Sprintf("loop-as-written model and impl differ on Decodeb58(%q): impl=%q model=%q", s, il, ms),
			map[string]interface{}{"op": "b58dec", "string": s, "string_hex": vlib.Hex([]byte(s)), "impl": il, "model": ms})
		return
	}
	r.TieOK()
}

func checkPk(scr []byte, testnet bool) {
	r.Eval("pk", fmt.Sprintf("pk:%x:%v", scr, testnet))
	il := "none"
	pan := ""
	func() {
		defer func() {
			if x := recover(); x != nil {
				pan = fmt.Sprint(x)
			}
		}()
		a := btc.NewAddrFromPkScript(scr, testnet)
		if a != nil {
			str := a.String()
			os := "panic"
			func() {
				defer func() { recover() }()
				os = vlib.Hex(a.OutScript())
			}()
			sh := "none"
			if str != "" {
				sh = vlib.Hex([]byte(str))
			}
			il = "ok " + sh + " " + os
		}
	}()
	tn := "0"
	if testnet {
		tn = "1"
	}
	mo := o.MustAsk("pk " + vlib.Hex(scr) + " " + tn)
	rep := map[string]interface{}{"op": "pk", "script": vlib.Hex(scr), "testnet": testnet, "impl": il, "model": mo}
	if pan != "" {
		r.PropFail("pk-panic", fmt.Sprintf("NewAddrFromPkScript panics on %x: %s", scr, pan), rep)
		return
	}
	if want, isPk := refP2pk(scr, testnet); isPk {
		r.Hit("pk-form-p2pk")
		if il != want {
			r.PropFail("pk-p2pk", fmt.Sprintf("NewAddrFromPkScript(%x) = %q; a P2PK script denotes the P2PKH address of HASH160(key): %q", scr, il, want), rep)
			return
		}
	} else if len(scr) > 0 && (scr[0] >= 0x20 && scr[0] <= 0x22 || scr[0] >= 0x40 && scr[0] <= 0x42) && il != "none" {
		// a near-P2PK script (wrong push length / wrong final opcode / wrong total length) must not be recognised
		r.PropFail("pk-near-p2pk", fmt.Sprintf("NewAddrFromPkScript(%x) recognises a script that is not push33/push65 OP_CHECKSIG: %q", scr, il), rep)
		return
	}
	if il != mo {
		r.TieFail("tie-pk", fmt.Sprintf("model/impl differ on NewAddrFromPkScript(%x): impl=%q model=%q", scr, il, mo), rep)
		return
	}
	r.TieOK()
}

// refP2pk: is scr exactly <push 33|65> OP_CHECKSIG, and if so the expected "ok <addr> <outscript>" line:
// address = Base58Check(ver ‖ RIPEMD160(SHA256(key))), OutScript = the P2PKH script of that hash.
func refP2pk(scr []byte, testnet bool) (string, bool) {
	if !(len(scr) == 35 && scr[0] == 0x21 || len(scr) == 67 && scr[0] == 0x41) || scr[len(scr)-1] != 0xac {
		return "", false
	}
	h1 := sha256.Sum256(scr[1 : len(scr)-1])
	rh := ripemd160.New()
	rh.Write(h1[:])
	h := rh.Sum(nil)
	ver := byte(0)
	if testnet {
		ver = 111
	}
	os := append(append([]byte{0x76, 0xa9, 0x14}, h...), 0x88, 0xac)
	return "ok " + vlib.Hex([]byte(mkB58Addr(ver, h))) + " " + vlib.Hex(os), true
}

func checkB32(hrp string, data []byte, m bool) {
	r.Eval("b32", fmt.Sprintf("b32:%s:%x:%v", hrp, data, m))
	s := bech32.Encode(hrp, data, m)
	il := "none"
	if s != "" {
		il = "ok " + vlib.Hex([]byte(s))
	}
	ms := "0"
	if m {
		ms = "1"
	}
	mo := o.MustAsk(fmt.Sprintf("b32enc %s %s %s", vlib.Hex([]byte(hrp)), vlib.Hex(data), ms))
	rep := map[string]interface{}{"op": "b32enc", "hrp": hrp, "hrp_hex": vlib.Hex([]byte(hrp)), "data": vlib.Hex(data), "m": m, "impl": il, "model": mo}
	if s != "" {
		h2, d2, m2 := bech32.Decode(s)
		if h2 != hrp || !bytes.Equal(d2, data) || m2 != m {
			r.PropFail("b32-roundtrip", fmt.Sprintf("bech32.Decode(Encode(%q,%x,%v)) = (%q,%x,%v)", hrp, data, m, h2, d2, m2), rep)
			return
		}
	}
	// property predicate: Encode produces the BIP173/350 string exactly when the arguments are encodable
	want := ""
	encodable := len(hrp) >= 1 && len(hrp)+7+len(data) <= 90
	for i := 0; i < len(hrp); i++ {
		if hrp[i] < 33 || hrp[i] > 126 || (hrp[i] >= 'A' && hrp[i] <= 'Z') {
			encodable = false
		}
	}
	var d5 []int
	for _, d := range data {
		if d > 31 {
			encodable = false
		}
		d5 = append(d5, int(d&31))
	}
	if encodable {
		want = encodeRaw(hrp, d5, m)
	}
	if s != want {
		r.PropFail("b32enc-vs-bip173", fmt.Sprintf("bech32.Encode(%q,%x,%v) = %q, BIP173/350 reference gives %q", hrp, data, m, s, want), rep)
		return
	}
	if il != mo {
		r.TieFail("tie-b32enc", fmt.Sprintf("model/impl differ on bech32.Encode(%q,%x,%v)", hrp, data, m), rep)
		return
	}
	// the two hrp loops as written (range over the code points, length test on the loop variable: Model/Bech32Str.lean)
	if ms2 := o.MustAsk(fmt.Sprintf("b32src %s %s %s", vlib.Hex([]byte(hrp)), vlib.Hex(data), ms)); ms2 != il {
		rep["model_src"] = ms2
		r.TieFail("tie-b32src", fmt.Sprintf("loops-as-written model and impl differ on bech32.Encode(%q,%x,%v): impl=%q model=%q", hrp, data, m, il, ms2), rep)
		return
	}
	r.TieOK()
}

func checkB32Dec(s string) {
	r.Eval("b32dec", "b32dec:"+s)
	h, d, m := bech32.Decode(s)
	il := "none"
	if h != "" || d != nil {
		ms := "0"
		if m {
			ms = "1"
		}
		il = fmt.Sprintf("ok %s %s %s", vlib.Hex([]byte(h)), vlib.Hex(d), ms)
	}
	mo := o.MustAsk("b32dec " + vlib.Hex([]byte(s)))
	// property predicate on the real code: accepted iff BIP173/350 says valid, with the same (hrp, data, variant)
	rl := "none"
	if ok, rh, rd, rm := refB32Decode(s); ok {
		ms := "0"
		if rm {
			ms = "1"
		}
		rl = fmt.Sprintf("ok %s %s %s", vlib.Hex([]byte(rh)), vlib.Hex(rd), ms)
		r.Hit("b32dec-valid")
	}
	if il != rl {
		r.PropFail("b32dec-vs-bip173", fmt.Sprintf("bech32.Decode(%q) = %q but BIP173/350 reference says %q", s, il, rl),
			map[string]interface{}{"op": "b32dec", "string": s, "string_hex": vlib.Hex([]byte(s)), "impl": il, "model": mo, "ref": rl})
		return
	}
	if il != mo {
		r.TieFail("tie-b32dec", fmt.Sprintf("model/impl differ on bech32.Decode(%q): impl=%q model=%q", s, il, mo),
			map[string]interface{}{"op": "b32dec", "string": s, "string_hex": vlib.Hex([]byte(s)), "impl": il, "model": mo})
		return
	}
	r.TieOK()
}

// ---------------------------------------------------------------- generators

func mutate(g *vlib.Rng, s string) (string, string) {
	b := []byte(s)
	n := 1 + g.Intn(4)
	kind := ""
	for k := 0; k < n && len(b) > 0; k++ {
		i := g.Intn(len(b))
		switch g.Intn(7) {
		case 0: // substitution within the alphabet
			b[i] = refCharset[g.Intn(32)]
			kind += "s"
		case 1: // substitution base58 alphabet
			b[i] = refB58[g.Intn(58)]
			kind += "S"
		case 2: // arbitrary byte
			b[i] = byte(g.U64())
			kind += "x"
		case 3: // insertion
			c := refCharset[g.Intn(32)]
			b = append(b[:i], append([]byte{c}, b[i:]...)...)
			kind += "i"
		case 4: // deletion
			b = append(b[:i], b[i+1:]...)
			kind += "d"
		case 5: // case flip
			if b[i] >= 'a' && b[i] <= 'z' {
				b[i] -= 32
			} else if b[i] >= 'A' && b[i] <= 'Z' {
				b[i] += 32
			}
			kind += "c"
		case 6: // swap neighbours
			if i+1 < len(b) {
				b[i], b[i+1] = b[i+1], b[i]
			}
			kind += "w"
		}
	}
	return string(b), "mut-" + kind[:1]
}

func mkB58Addr(ver byte, h []byte) string {
	p := append([]byte{ver}, h...)
	p = append(p, dsha(p)[:4]...)
	return refB58Encode(p)
}

// encodeRaw builds a bech32/bech32m string from arbitrary 5-bit data with the reference
// algorithm (so that invalid-but-checksummed addresses can be produced).
func encodeRaw(hrp string, data []int, m bool) string {
	var vals []int
	for i := 0; i < len(hrp); i++ {
		vals = append(vals, int(hrp[i]>>5))
	}
	vals = append(vals, 0)
	for i := 0; i < len(hrp); i++ {
		vals = append(vals, int(hrp[i]&31))
	}
	vals = append(vals, data...)
	c := uint32(1)
	if m {
		c = 0x2bc830a3
	}
	pm := refPolymod(append(append([]int{}, vals...), 0, 0, 0, 0, 0, 0)) ^ c
	out := hrp + "1"
	for _, d := range data {
		out += string(refCharset[d])
	}
	for i := 0; i < 6; i++ {
		out += string(refCharset[(pm>>uint(5*(5-i)))&31])
	}
	return out
}

func to5(prog []byte, pad bool) []int {
	acc, bits := 0, 0
	var out []int
	for _, b := range prog {
		acc = (acc << 8) | int(b)
		bits += 8
		for bits >= 5 {
			bits -= 5
			out = append(out, (acc>>uint(bits))&31)
		}
	}
	if pad && bits > 0 {
		out = append(out, (acc<<uint(5-bits))&31)
	}
	return out
}

var corpus = []string{
	// BIP173 / BIP350 valid segwit addresses
	"BC1QW508D6QEJXTDG4Y5R3ZARVARY0C5XW7KV8F3T4", "tb1qrp33g0q5c5txsp9arysrx4k6zdkfs4nce4xj0gdcccefvpysxf3q0sl5k7",
	"bc1pw508d6qejxtdg4y5r3zarvary0c5xw7kw508d6qejxtdg4y5r3zarvary0c5xw7kt5nd6y", "BC1SW50QGDZ25J", "bc1zw508d6qejxtdg4y5r3zarvaryvaxxpcs",
	"tb1qqqqqp399et2xygdj5xreqhjjvcmzhxw4aywxecjdzew6hylgvsesrxh6hy", "tb1pqqqqp399et2xygdj5xreqhjjvcmzhxw4aywxecjdzew6hylgvsesf3hn0c",
	"bc1p0xlxvlhemja6c4dqv22uapctqupfhlxm9h8z3k2e72q4k9hcz7vqzk5jj0",
	// BIP173/350 invalid ones
	"tc1qw508d6qejxtdg4y5r3zarvary0c5xw7kg3g4ty", "bc1qw508d6qejxtdg4y5r3zarvary0c5xw7kv8f3t5", "BC13W508D6QEJXTDG4Y5R3ZARVARY0C5XW7KN40WF2",
	"bc1rw5uspcuh", "bc10w508d6qejxtdg4y5r3zarvary0c5xw7kw508d6qejxtdg4y5r3zarvary0c5xw7kw5rljs90", "BC1QR508D6QEJXTDG4Y5R3ZARVARYV98GJ9P",
	"tb1qrp33g0q5c5txsp9arysrx4k6zdkfs4nce4xj0gdcccefvpysxf3q0sL5k7", "bc1zw508d6qejxtdg4y5r3zarvaryvqyzf3du", "tb1qrp33g0q5c5txsp9arysrx4k6zdkfs4nce4xj0gdcccefvpysxf3pjxtptv",
	"bc1gmk9yu", "bc1p0xlxvlhemja6c4dqv22uapctqupfhlxm9h8z3k2e72q4k9hcz7vqh2y7hd", "tb1z0xlxvlhemja6c4dqv22uapctqupfhlxm9h8z3k2e72q4k9hcz7vqglt7rf",
	"BC1S0XLXVLHEMJA6C4DQV22UAPCTQUPFHLXM9H8Z3K2E72Q4K9HCZ7VQ54WELL", "bc1qw508d6qejxtdg4y5r3zarvary0c5xw7kemeawh", "tb1q0xlxvlhemja6c4dqv22uapctqupfhlxm9h8z3k2e72q4k9hcz7vq24jc47",
	"bc1p38j9r5y49hruaue7wxjce0updqjuyyx0kh56v8s25huc6995vvpql3jow4", "BC130XLXVLHEMJA6C4DQV22UAPCTQUPFHLXM9H8Z3K2E72Q4K9HCZ7VQ7ZWS8R", "bc1pw5dgrnzv",
	"bc1p0xlxvlhemja6c4dqv22uapctqupfhlxm9h8z3k2e72q4k9hcz7v8n0nx0muaewav253zgeav", "BC1QR508D6QEJXTDG4Y5R3ZARVARYV98GJ9P", "tb1p0xlxvlhemja6c4dqv22uapctqupfhlxm9h8z3k2e72q4k9hcz7vq47Zagq",
	"bc1p0xlxvlhemja6c4dqv22uapctqupfhlxm9h8z3k2e72q4k9hcz7v07qwwzcrf", "tb1p0xlxvlhemja6c4dqv22uapctqupfhlxm9h8z3k2e72q4k9hcz7vpggkg4j", "bc1gmk9yu",
	// base58
	"1A1zP1eP5QGefi2DMPTfTL5SLmv7DivfNa", "3J98t1WpEZ73CNmQviecrnyiWrnqRhWNLy", "1111111111111111111114oLvT2", "mipcBbFg9gMiCh81Kj8tqqdgoZub1ZJRfn",
	"1A1zP1eP5QGefi2DMPTfTL5SLmv7DivfNb", "1A1zP1eP5QGefi2DMPTfTL5SLmv7DivfN", "0A1zP1eP5QGefi2DMPTfTL5SLmv7DivfNa", "", "1", "bc1", "tb1q", "bc1\x80abcdefg", "1111",
}

func main() {
	if len(os.Args) > 1 && os.Args[1] == "payout-child" { // callers.go: one history of the payout-address callers, fresh process
		payoutChild(os.Args[2:])
		return
	}
	r = vlib.NewRun("C15")
	var err error
	o, err = vlib.StartOracle("c15")
	if err != nil {
		fmt.Println("cannot start oracle:", err)
		os.Exit(3)
	}
	defer o.Close()

	if r.Replay != "" {
		replay(r.Replay)
		r.Finish("replay of one recorded case", "replay")
	}
	g := r.Rng

	// 1. corpus first
	for _, s := range corpus {
		checkAddr("corpus", s)
	}
	r.Sample(map[string]string{"op": "addr", "string": corpus[0]})

	// 2. exhaustive grid: versions 0..16 (and 17) x lengths 0..41 x hrp
	var valid []string
	for _, hrp := range []string{"bc", "tb"} {
		for ver := 0; ver <= 17; ver++ {
			for l := 0; l <= 41; l++ {
				prog := g.Bytes(l)
				s := checkSegEnc(hrp, ver, prog)
				if s != "" {
					valid = append(valid, s)
					checkAddr("valid-segwit", s)
					if g.Chance(1, 4) {
						checkAddr("valid-segwit-upper", strings.ToUpper(s))
					}
				}
				// checksummed but semantically invalid (wrong variant / bad length / bad padding / version)
				if ver <= 31 {
					d := append([]int{ver}, to5(prog, true)...)
					if s == "" && len(hrp)+7+len(d) <= 90 {
						// the RIGHT checksum variant for this version, so only the program length (0, 1, 41; v0: not
						// 20/32) or the version (17) is wrong: the "out-of-range program length" clause
						k := "checksummed-bad-length"
						if ver > 16 {
							k = "checksummed-bad-version"
						} else if ver == 0 && l >= 2 && l <= 40 {
							k = "checksummed-bad-length-v0"
						}
						bs := encodeRaw(hrp, d, ver != 0)
						checkAddr(k, bs)
						if g.Chance(1, 4) {
							checkAddr(k+"-upper", strings.ToUpper(bs))
						}
					}
					if len(hrp)+7+len(d) <= 90 {
						checkAddr("checksummed-wrong-variant", encodeRaw(hrp, d, ver == 0))
						if l > 0 && g.Chance(1, 2) {
							d2 := append([]int{}, d...)
							d2[len(d2)-1] |= 1 + g.Intn(2) // disturb padding bits
							checkAddr("checksummed-padding", encodeRaw(hrp, d2, ver != 0))
							d3 := append(append([]int{}, d...), 0) // extra zero symbol: ≥5 padding bits possible
							if len(hrp)+7+len(d3) <= 90 {
								checkAddr("checksummed-extra-symbol", encodeRaw(hrp, d3, ver != 0))
							}
						}
					}
				}
			}
		}
	}
	r.Sample(map[string]string{"op": "addr", "string": valid[len(valid)/2]})

	// 3. base58 addresses: all 256 version bytes, hashes with leading zeros
	for v := 0; v < 256; v++ {
		h := g.Bytes(20)
		if v%5 == 0 {
			for i := 0; i < g.Intn(4); i++ {
				h[i] = 0
			}
		}
		s := mkB58Addr(byte(v), h)
		valid = append(valid, s)
		checkAddr("valid-b58", s)
	}
	checkAddr("valid-b58-zero", mkB58Addr(0, make([]byte, 20)))

	// 4. mutations of valid addresses (≤4 edits)
	nm := r.N(6000, 300000)
	for i := 0; i < nm; i++ {
		base := valid[g.Intn(len(valid))]
		s, k := mutate(g, base)
		checkAddr(k, s)
		if i == 7 {
			r.Sample(map[string]string{"op": "addr", "base": base, "mutated": s})
		}
	}
	// 5. arbitrary short strings
	for i := 0; i < r.N(1500, 60000); i++ {
		n := g.Intn(12)
		var b []byte
		switch g.Intn(3) {
		case 0:
			b = g.Bytes(n)
		case 1:
			for j := 0; j < n; j++ {
				b = append(b, refB58[g.Intn(58)])
			}
		case 2:
			b = []byte([]string{"bc1", "tb1", "BC1", "Tb1"}[g.Intn(4)])
			for j := 0; j < n; j++ {
				b = append(b, refCharset[g.Intn(32)])
			}
		}
		checkAddr("short", string(b))
	}
	// 6. raw base58 and bech32 codecs
	for i := 0; i < r.N(1500, 50000); i++ {
		n := g.Intn(70)
		b := g.Bytes(n)
		for j := 0; j < g.Intn(4) && j < n; j++ {
			b[j] = 0
		}
		checkB58(b)
		var sb []byte
		for j := 0; j < g.Intn(50); j++ {
			if g.Chance(1, 20) {
				sb = append(sb, byte(g.U64()))
			} else {
				sb = append(sb, refB58[g.Intn(58)])
			}
		}
		checkB58Dec(string(sb))
	}
	for i := 0; i < r.N(1500, 50000); i++ {
		hl := 1 + g.Intn(10)
		hrp := make([]byte, hl)
		for j := range hrp {
			hrp[j] = byte(33 + g.Intn(94))
			if g.Chance(9, 10) {
				hrp[j] = "abcdefghijklmnopqrstuvwxyz0123456789"[g.Intn(36)]
			}
		}
		dl := g.Intn(85)
		data := make([]byte, dl)
		for j := range data {
			data[j] = byte(g.Intn(32))
			if g.Chance(1, 300) {
				data[j] = byte(g.U64())
			}
		}
		checkB32(string(hrp), data, g.Bool())
		if s := bech32.Encode(string(hrp), data, g.Bool()); s != "" {
			m, _ := mutate(g, s)
			checkB32Dec(m)
			checkB32Dec(s)
		}
	}
	boundaryB32(g)
	hrpStream(g)
	b58Lengths(g)
	hrpConfusion(g)
	for _, s := range valid {
		if len(s) > 3 && (s[:3] == "bc1" || s[:3] == "tb1") && g.Chance(1, 3) {
			checkSegDec(s[:2], s)
			checkSegDec(map[string]string{"bc": "tb", "tb": "bc"}[s[:2]], s)
		}
	}
	// 7. scripts -> addresses
	for i := 0; i < r.N(1500, 50000); i++ {
		var scr []byte
		switch g.Intn(8) {
		case 0:
			scr = append(append([]byte{0x76, 0xa9, 0x14}, g.Bytes(20)...), 0x88, 0xac)
		case 1:
			scr = append(append([]byte{0xa9, 0x14}, g.Bytes(20)...), 0x87)
		case 2:
			scr = append(append([]byte{0x41}, g.Bytes(65)...), 0xac)
		case 3:
			scr = append(append([]byte{0x21}, g.Bytes(33)...), 0xac)
		case 4:
			l := g.Intn(44)
			op := byte(0)
			if g.Bool() {
				op = byte(0x50 + g.Intn(18))
			}
			scr = append([]byte{op, byte(l)}, g.Bytes(l)...)
		case 5:
			scr = g.Bytes(g.Intn(70))
		default:
			base := [][]byte{append(append([]byte{0x76, 0xa9, 0x14}, g.Bytes(20)...), 0x88, 0xac), append(append([]byte{0xa9, 0x14}, g.Bytes(20)...), 0x87),
				append([]byte{0, 20}, g.Bytes(20)...), append([]byte{0x51, 32}, g.Bytes(32)...),
				append(append([]byte{0x21}, g.Bytes(33)...), 0xac), append(append([]byte{0x41}, g.Bytes(65)...), 0xac)}[g.Intn(6)]
			scr = append([]byte{}, base...)
			switch g.Intn(3) {
			case 0:
				scr[g.Intn(len(scr))] ^= byte(1 << uint(g.Intn(8)))
			case 1:
				scr = scr[:len(scr)-1]
			case 2:
				scr = append(scr, byte(g.U64()))
			}
		}
		checkPk(scr, g.Bool())
	}
	// 7b. pay-to-pubkey boundaries: push length, total length and final opcode one off, both nets
	for _, n := range []int{33, 65} {
		for _, tn := range []bool{false, true} {
			key := g.Bytes(n)
			key[0] = byte(g.Pick(2, 3, 4, 0, 0xff)) // the code does not look at the prefix
			checkPk(append(append([]byte{byte(n)}, key...), 0xac), tn)
			checkPk(append(append([]byte{byte(n - 1)}, key...), 0xac), tn)
			checkPk(append(append([]byte{byte(n + 1)}, key...), 0xac), tn)
			checkPk(append(append([]byte{byte(n)}, key...), 0xab), tn)
			checkPk(append(append([]byte{byte(n)}, key...), 0xad), tn)
			checkPk(append(append([]byte{byte(n)}, key[1:]...), 0xac), tn)
			checkPk(append(append(append([]byte{byte(n)}, key...), 0), 0xac), tn)
			checkPk(append(append([]byte{byte(n)}, key...), 0xac, 0xac), tn)
		}
	}
	// 8. WIF private-key strings
	wifStreams(g.Fork())
	// 9. Base58Check objects that are not addresses, offered as addresses
	notAddresses(g.Fork())
	// 10. one BtcAddr object re-used over time (history.go)
	histStreams(g.Fork(), valid)
	// 11. several callers at once, nothing shared (concurrent.go)
	concStreams(g.Fork(), valid)
	// 12. typed strings with characters outside ASCII: aliases of alphabet characters (unicode.go)
	unicodeStreams(g.Fork(), valid)
	// 13. the callers that keep a typed address across calls: minadr / block templates / validateaddress (callers.go)
	payoutStreams(g.Fork(), valid)

	r.Assume = []string{
		"SHA-256 and RIPEMD-160 are modelled (Lean executable versions validated here against Go's), theorems are parametric in them",
		"the independent reference decoder in this harness (refSegwitValid/refB58CheckValid) states BIP173/BIP350/Base58Check",
	}
	r.Finish("corpus of BIP173/350 vectors; exhaustive grid hrp{bc,tb} x version 0..17 x program length 0..41 (valid ones also upper-cased, plus checksummed strings with wrong variant / disturbed padding / extra symbol); all 256 Base58 version bytes; 1..4 random edits (substitution, insertion, deletion, case flip, swap, raw byte) of valid addresses; arbitrary short strings; raw base58/bech32 codec inputs; bech32.Encode / SegwitEncode with every kind of human-readable part (boundary.go hrpStream: empty, every byte value, multi-byte / over-long / invalid UTF-8, upper case, hrp+7+data around 90 with valid and with one invalid or multi-byte character, random over all bytes); script->address forms (P2PKH, P2SH, P2PK 33/65, witness) and their one-edit neighbours; WIF strings: valid compressed/uncompressed for several version bytes, 1..4 random edits, wrong flag byte / wrong payload length / wrong checksum / flipped payload bit / invalid character / extra leading or trailing character; Base58Check objects that are not addresses offered as addresses (checksummed 26..40-byte payloads, wrapped address payloads, valid WIF keys, extended-key sized, too short); one BtcAddr object re-used over time (history.go: the callers' list_unspent/tap2old sequences, random idiom histories, raw histories; 2..30 steps per object, objects from all four constructors); several callers at once with nothing shared (concurrent.go: 2/4/8/16 goroutines, each with its own 24 encode->decode / decode->re-encode chains - P2PKH/P2SH/P2PK scripts, (version,hash) objects incl. leading-zero hashes, witness scripts, SegwitEncode/bech32.Encode inputs, typed valid addresses, raw Base58 byte strings, WIF keys - families b58addr/segwit/decode/raw58/wif/refuse/mixed (refuse: strings invalid by the reference - 1..4 edits or one non-ASCII alias of a character of an accepted string - must be refused by NewAddrFromString / Decodeb58 / bech32.Decode / SegwitDecode / DecodePrivateAddr while other goroutines run their own jobs), run for 120 (thorough 1500) rounds after a common start signal; plus the step-level Lean model of Encodeb58 under a random interleaving, oracle op b58sched); typed strings outside ASCII (unicode.go: accepted Base58Check / segwit / raw Base58 / Bech32 / WIF strings with 1, 2..4, every occurrence of one letter, or all characters replaced by a non-ASCII alias of the same character - code points congruent to it mod 256 in 2/3/4-byte encodings, mod 128, the byte c|0x80, over-long forms, full-width forms, Unicode case-fold relatives, inserted zero-width / blank code points - offered to every decoder; Go's range-over-string against its Lean model on UTF-8 boundary strings). distinct = distinct (operation,input) pairs; every generated case is non-trivial in that it reaches a decoder/encoder",
		"each case is run through the real gocoin functions, the Lean model (oracle_c15) and an independent reference; the property predicate (accepted iff valid; decoded script = denoted script; re-encoding = input up to Bech32 case; script->address->script; P2PK script -> P2PKH address of HASH160(key); WIF accepted iff Base58Check(ver‖key32[‖01]) and String() = input; every String()/OutScript() on a re-used object = the same call on a new object with the same exported fields, and = the denoted destination when the caches are coherent; every result a goroutine obtains while other goroutines run their own, unrelated calls = the reference value for its own arguments) is evaluated on the real code, model/impl equality is the tie for the Lean theorems in Props/C15.lean")
}

func replay(path string) {
	b, err := os.ReadFile(path)
	if err != nil {
		fmt.Println("cannot read replay:", err)
		os.Exit(3)
	}
	var doc struct {
		Replay map[string]interface{} `json:"replay"`
	}
	json.Unmarshal(b, &doc)
	str := func(k string) string { s, _ := doc.Replay[k].(string); return s }
	switch str("op") {
	case "addr":
		checkAddr("replay", string(vlib.UnHex(str("string_hex"))))
	case "segenc":
		v, _ := doc.Replay["ver"].(float64)
		hrp := str("hrp")
		if _, ok := doc.Replay["hrp_hex"].(string); ok {
			hrp = string(vlib.UnHex(str("hrp_hex")))
		}
		checkSegEnc(hrp, int(v), vlib.UnHex(str("prog")))
	case "b58":
		checkB58(vlib.UnHex(str("bytes")))
	case "b58dec":
		if h, ok := doc.Replay["string_hex"].(string); ok {
			checkB58Dec(string(vlib.UnHex(h)))
		} else {
			checkB58Dec(str("string"))
		}
	case "pk":
		tn, _ := doc.Replay["testnet"].(bool)
		checkPk(vlib.UnHex(str("script")), tn)
	case "hist":
		var toks []string
		if l, ok := doc.Replay["toks"].([]interface{}); ok {
			for _, x := range l {
				s, _ := x.(string)
				toks = append(toks, s)
			}
		}
		checkHist("replay", toks)
	case "conc":
		replayConc(doc.Replay)
	case "payout":
		replayPayout(doc.Replay)
	case "b58sched":
		var args []string
		if l, ok := doc.Replay["args"].([]interface{}); ok {
			for _, x := range l {
				s, _ := x.(string)
				args = append(args, s)
			}
		}
		mo := o.MustAsk("b58sched " + str("sched") + " " + strings.Join(args, " "))
		var want []string
		for _, a := range args {
			want = append(want, vlib.Hex([]byte(btc.Encodeb58(vlib.UnHex(a)))))
		}
		if exp := "ok " + strings.Join(want, " "); mo != exp {
			r.TieFail("tie-b58sched", fmt.Sprintf("step-level model gives %q, Encodeb58 gives %q", mo, exp), doc.Replay)
		} else {
			r.TieOK()
		}
	case "wifdec":
		checkWifDec("replay", string(vlib.UnHex(str("string_hex"))))
	case "wifenc":
		v, _ := doc.Replay["ver"].(float64)
		c, _ := doc.Replay["compr"].(bool)
		checkWifEnc(byte(v), vlib.UnHex(str("key")), c)
	case "runes":
		checkRunes(string(vlib.UnHex(str("string_hex"))))
	case "b32enc":
		m, _ := doc.Replay["m"].(bool)
		hrp := str("hrp")
		if _, ok := doc.Replay["hrp_hex"].(string); ok { // JSON cannot carry a non-UTF-8 hrp
			hrp = string(vlib.UnHex(str("hrp_hex")))
		}
		checkB32(hrp, vlib.UnHex(str("data")), m)
	case "segdec":
		checkSegDec(str("hrp"), string(vlib.UnHex(str("string_hex"))))
	case "b32dec":
		if h := str("string_hex"); h != "" {
			checkB32Dec(string(vlib.UnHex(h)))
		} else {
			checkB32Dec(str("string"))
		}
	default:
		fmt.Println("replay: nothing to re-run for this file (proof-level violation); see its 'broken' field")
	}
}
