package main

import (
	"bytes"
	"fmt"
	"strings"

	"github.com/piotrnar/gocoin/lib/others/bip39"
	"verif/vlib"
)

func bipErrClass(err error) string {
	switch {
	case err == nil:
		return ""
	case err == bip39.ErrEntropyLengthInvalid:
		return "entropylen"
	case err == bip39.ErrInvalidMnemonic:
		return "invalid"
	case err == bip39.ErrChecksumIncorrect:
		return "checksum"
	case strings.Contains(err.Error(), "not found"):
		return "notfound"
	}
	return "other:" + err.Error()
}

// asciiFields: the reference's notion of "the words of the sentence"
func asciiFields(s string) []string { return strings.Fields(s) }

// caseMnem: A = entropy. NewMnemonic vs model vs reference; round trip through EntropyFromMnemonic /
// MnemonicToByteArray; every other last word with the same entropy bits must be rejected.
func caseMnem(o *vlib.Oracle, c *rec, cs Case) {
	e := unhx(cs.A[0])
	c.Eval("new-mnemonic", cs.A[0])
	m, err := bip39.NewMnemonic(append([]byte{}, e...))
	got := o.MustAsk("mnem " + hx(e))
	words := bip39.GetWordList()
	want, ok := refMnemonic(words, e)
	if err != nil {
		c.Hit("mnem-err-" + bipErrClass(err))
		if ok {
			c.PropFail("bip39-encode", "NewMnemonic refuses a valid entropy length", cs)
		}
		if got != "err "+bipErrClass(err) {
			c.TieFail("mnem", "NewMnemonic error, model: "+got, cs)
		} else {
			c.TieOK()
		}
		return
	}
	c.Hit("mnem-ok-" + itoa(len(e)))
	if !ok || m != want {
		c.PropFail("bip39-encode", "NewMnemonic differs from the BIP39 encoding", cs)
	}
	if got != "ok "+hx([]byte(m)) {
		c.TieFail("mnem", "model newMnemonic differs: "+got, cs)
	} else {
		c.TieOK()
	}
	back, err := bip39.EntropyFromMnemonic(m)
	if err != nil || !bytes.Equal(back, e) {
		c.PropFail("bip39-roundtrip", "EntropyFromMnemonic(NewMnemonic(e)) != e", cs)
	}
	raw, err := bip39.MnemonicToByteArray(m, true)
	if err != nil || !bytes.Equal(raw, e) {
		c.PropFail("bip39-roundtrip", "MnemonicToByteArray(NewMnemonic(e), raw) != e", cs)
	}
	if g := o.MustAsk("entropy " + hx([]byte(m))); g != "ok "+hx(e) {
		c.TieFail("entropy", "model entropyFromMnemonic(newMnemonic e) = "+g, cs)
	} else {
		c.TieOK()
	}
}

// caseEntropy: A = mnemonic text. EntropyFromMnemonic + MnemonicToByteArray(raw) vs model vs reference.
func caseEntropy(o *vlib.Oracle, c *rec, cs Case) {
	m := string(unhx(cs.A[0]))
	c.Eval("entropy-from-mnemonic:"+cs.Tag, cs.A[0])
	e, err := bip39.EntropyFromMnemonic(m)
	got := o.MustAsk("entropy " + hx([]byte(m)))
	re, rok := refEntropy(bip39.GetWordList(), asciiFields(m))
	if err != nil {
		c.Hit("entropy-err-" + bipErrClass(err))
		if rok {
			c.PropFail("bip39-decode", "EntropyFromMnemonic rejects a valid mnemonic", cs)
		}
		if got != "err "+bipErrClass(err) {
			c.TieFail("entropy", "EntropyFromMnemonic error "+bipErrClass(err)+", model: "+got, cs)
		} else {
			c.TieOK()
		}
	} else {
		c.Hit("entropy-ok")
		if !rok || !bytes.Equal(re, e) {
			c.PropFail("bip39-checksum-detects", "EntropyFromMnemonic accepts a mnemonic that BIP39 rejects (or decodes it differently)", cs)
		}
		if got != "ok "+hx(e) {
			c.TieFail("entropy", "model entropyFromMnemonic differs: "+got, cs)
		} else {
			c.TieOK()
		}
	}
	// MnemonicToByteArray is only compared on single-space sentences: with other white space it indexes a Go map
	// with "" (Split vs Fields), which is outside what the wallet feeds it (the wallet normalises first).
	if strings.Join(asciiFields(m), " ") == m {
		b, err2 := bip39.MnemonicToByteArray(m, true)
		g2 := o.MustAsk("m2b " + hx([]byte(m)) + " 1")
		if err2 != nil {
			if g2 != "err "+bipErrClass(err2) {
				c.TieFail("m2b", "MnemonicToByteArray error "+bipErrClass(err2)+", model: "+g2, cs)
			} else {
				c.TieOK()
			}
			if rok {
				c.PropFail("bip39-decode", "MnemonicToByteArray rejects a valid mnemonic", cs)
			}
		} else {
			if g2 != "ok "+hx(b) {
				c.TieFail("m2b", "model mnemonicToByteArray differs: "+g2, cs)
			} else {
				c.TieOK()
			}
			if !rok || !bytes.Equal(b, re) {
				c.PropFail("bip39-checksum-detects", "MnemonicToByteArray accepts what BIP39 rejects", cs)
			}
		}
	}
}

// caseSeed: A = mnemonic, passphrase [, expected seed]
func caseSeed(o *vlib.Oracle, c *rec, cs Case) {
	m, pw := string(unhx(cs.A[0])), string(unhx(cs.A[1]))
	c.Eval("bip39-seed", cs.A[0]+cs.A[1])
	s, err := bip39.NewSeedWithErrorChecking(m, pw)
	got := o.MustAsk("seed " + hx([]byte(m)) + " " + hx([]byte(pw)))
	if err != nil {
		c.Hit("seed-err-" + bipErrClass(err))
		if got != "err "+bipErrClass(err) {
			c.TieFail("seed", "NewSeedWithErrorChecking error, model: "+got, cs)
		} else {
			c.TieOK()
		}
		return
	}
	c.Hit("seed-ok")
	if !bytes.Equal(s, refSeed(m, pw)) {
		c.PropFail("bip39-seed", "seed differs from PBKDF2-HMAC-SHA512(mnemonic, \"mnemonic\"+passphrase, 2048, 64)", cs)
	}
	if len(cs.A) > 2 && hx(s) != cs.A[2] {
		c.PropFail("bip39-vector", "seed differs from the BIP39 test vector", cs)
	}
	if got != "ok "+hx(s) {
		c.TieFail("seed", "model seed differs: "+got, cs)
		return
	}
	c.TieOK()
}

// caseSeedNfkd: A = mnemonic, passphrase as typed, NFKD form of that passphrase (DATA: computed offline with Unicode
// 14 tables - Go's standard library has no normaliser; the pairs are in corpusCases). BIP39: "the mnemonic sentence
// (in UTF-8 NFKD) used as the password and the string "mnemonic" + passphrase (again in UTF-8 NFKD) used as the salt".
// gocoin (and therefore the model, which mirrors it) hashes the bytes as typed.
func caseSeedNfkd(o *vlib.Oracle, c *rec, cs Case) {
	m, pw, nf := string(unhx(cs.A[0])), string(unhx(cs.A[1])), string(unhx(cs.A[2]))
	c.Eval("bip39-seed-nfkd", cs.A[0]+cs.A[1])
	s, err := bip39.NewSeedWithErrorChecking(m, pw)
	got := o.MustAsk("seed " + hx([]byte(m)) + " " + hx([]byte(pw)))
	if err != nil {
		c.TieFail("seed-nfkd", "NewSeedWithErrorChecking refuses a corpus mnemonic: "+err.Error(), cs)
		return
	}
	if got != "ok "+hx(s) {
		c.TieFail("seed", "model seed differs: "+got, cs)
	} else {
		c.TieOK()
	}
	want := refSeed(m, nf) // BIP39's seed: from the NFKD form
	if pw == nf {
		c.Hit("seed-passphrase-already-nfkd")
		if !bytes.Equal(s, want) {
			c.PropFail("bip39-seed", "seed differs from PBKDF2-HMAC-SHA512(mnemonic, \"mnemonic\"+passphrase, 2048, 64)", cs)
		}
		return
	}
	c.Hit("seed-passphrase-not-nfkd")
	if !bytes.Equal(s, want) {
		// known finding bip39-passphrase-not-nfkd — but ONLY the exact defect: the seed must be the one of the bytes as
		// typed; any other wrong seed is a different failure and is reported under its own key
		if !bytes.Equal(s, refSeed(m, pw)) {
			c.PropFail("bip39-seed", fmt.Sprintf("seed %x.. is neither BIP39's (NFKD passphrase) %x.. nor PBKDF2 over the passphrase as typed %x..", s[:8], want[:8], refSeed(m, pw)[:8]), cs)
			return
		}
		c.PropFail("bip39-passphrase-not-nfkd", fmt.Sprintf("bip39.NewSeed hashes the passphrase bytes as typed (%x) instead of their NFKD form (%x): the seed %x.. is not BIP39's %x.. - the same passphrase typed on a system that composes characters differently derives another wallet", pw, nf, s[:8], want[:8]), cs)
	}
}

func itoa(n int) string {
	if n == 0 {
		return "0"
	}
	neg := n < 0
	if neg {
		n = -n
	}
	var b []byte
	for n > 0 {
		b = append([]byte{byte('0' + n%10)}, b...)
		n /= 10
	}
	if neg {
		return "-" + string(b)
	}
	return string(b)
}
