package main

import (
	"encoding/hex"
	"fmt"
	"os"
	"runtime"
	"sync"

	"verif/vlib"
)

var r *vlib.Run

// Case is one replayable case. Kind selects the runner, A are its (hex / text) arguments.
type Case struct {
	Kind string       `json:"kind"`
	Tag  string       `json:"tag,omitempty"`
	A    []string     `json:"a,omitempty"`
	W    *walletCase  `json:"w,omitempty"`
	S    *sessionCase `json:"s,omitempty"` // kind "session": what one invocation does with its key store (session.go)
}

// rec collects the reporting actions of one case so that they are applied in case order
// (the cases themselves run in parallel on a pool of oracle processes).
type rec struct{ acts []func() }

func (c *rec) Eval(kind, key string) { c.acts = append(c.acts, func() { r.Eval(kind, key) }) }
func (c *rec) Hit(kind string)       { c.acts = append(c.acts, func() { r.Hit(kind) }) }
func (c *rec) TieOK()                { c.acts = append(c.acts, func() { r.TieOK() }) }
func (c *rec) Sample(v interface{})  { c.acts = append(c.acts, func() { r.Sample(v) }) }
func (c *rec) PropFail(key, what string, cs Case) {
	c.acts = append(c.acts, func() { r.PropFail(key, what, cs) })
}
func (c *rec) TieFail(key, what string, cs Case) {
	c.acts = append(c.acts, func() { r.TieFail(key, what, cs) })
}

func workers() int {
	n := runtime.NumCPU()
	if n > 8 {
		n = 8
	}
	if n < 1 {
		n = 1
	}
	return n
}

func runCases(cases []Case) {
	nw := workers()
	if len(cases) < nw {
		nw = len(cases)
	}
	if nw == 0 {
		return
	}
	res := make([]*rec, len(cases))
	ch := make(chan int)
	var wg sync.WaitGroup
	for w := 0; w < nw; w++ {
		o, err := vlib.StartOracle("c14")
		if err != nil {
			fmt.Fprintln(os.Stderr, "cannot start oracle:", err)
			os.Exit(3)
		}
		wg.Add(1)
		go func(o *vlib.Oracle) {
			defer wg.Done()
			defer o.Close()
			for i := range ch {
				c := &rec{}
				func() {
					// safety net: a panic of the code under test inside a case is an observation about that input
					// (no keys are produced for it), not a crash of the harness
					defer func() {
						if x := recover(); x != nil {
							c.PropFail("panic-"+cases[i].Kind, fmt.Sprint("the code under test panics on this input: ", x), cases[i])
						}
					}()
					runCase(o, c, cases[i])
				}()
				res[i] = c
			}
		}(o)
	}
	for i := range cases {
		ch <- i
	}
	close(ch)
	wg.Wait()
	for _, c := range res {
		for _, f := range c.acts {
			f()
		}
	}
}

func hx(b []byte) string { return vlib.Hex(b) }
func unhx(s string) []byte {
	if s == "-" || s == "" {
		return nil
	}
	b, err := hex.DecodeString(s)
	if err != nil {
		return nil
	}
	return b
}
func b2s(b bool) string {
	if b {
		return "1"
	}
	return "0"
}

func runCase(o *vlib.Oracle, c *rec, cs Case) {
	switch cs.Kind {
	case "prim":
		casePrim(o, c, cs)
	case "master":
		caseMaster(o, c, cs)
	case "child":
		caseChild(o, c, cs)
	case "vec32":
		caseVec32(o, c, cs)
	case "dnpriv":
		caseDnPriv(o, c, cs)
	case "dnpub":
		caseDnPub(o, c, cs)
	case "parse":
		caseParse(o, c, cs)
	case "wif":
		caseWif(o, c, cs)
	case "wifdec":
		caseWifDec(o, c, cs)
	case "mnem":
		caseMnem(o, c, cs)
	case "entropy":
		caseEntropy(o, c, cs)
	case "seed":
		caseSeed(o, c, cs)
	case "seednfkd":
		caseSeedNfkd(o, c, cs)
	case "wallet":
		caseWallet(o, c, cs)
	case "session":
		caseSession(o, c, cs)
	default:
		c.TieFail("bad-case", "unknown case kind "+cs.Kind, cs)
	}
}
