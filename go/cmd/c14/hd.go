package main

import (
	"bytes"
	"crypto/hmac"
	"crypto/sha256"
	"crypto/sha512"
	"fmt"
	"math/big"
	"strconv"
	"strings"

	"github.com/piotrnar/gocoin/lib/btc"
	"verif/vlib"
)

// ---------------------------------------------------------------- primitives (validates the "modelled" hashes)
func casePrim(o *vlib.Oracle, c *rec, cs Case) {
	fn := cs.A[0]
	a := unhx(cs.A[1])
	var b []byte
	if len(cs.A) > 2 {
		b = unhx(cs.A[2])
	}
	var want []byte
	var req string
	switch fn {
	case "sha512":
		h := sha512.Sum512(a)
		want, req = h[:], "sha512 "+hx(a)
	case "sha256":
		h := sha256.Sum256(a)
		want, req = h[:], "sha256 "+hx(a)
	case "h160":
		want, req = refHash160(a), "h160 "+hx(a)
	case "hmac512":
		m := hmac.New(sha512.New, a)
		m.Write(b)
		want, req = m.Sum(nil), "hmac512 "+hx(a)+" "+hx(b)
	case "pbkdf2":
		want, req = refPbkdf2Sha512(a, b, 2048, 64), "pbkdf2 "+hx(a)+" "+hx(b)
	}
	c.Eval("prim-"+fn, req)
	got := o.MustAsk(req)
	if got != "ok "+hx(want) {
		c.TieFail("prim-"+fn, fmt.Sprintf("Lean %s differs from Go's: %s vs %s", fn, got, hx(want)), cs)
		return
	}
	c.TieOK()
}

// ---------------------------------------------------------------- HDWallet helpers
func wTok(w *btc.HDWallet) string {
	return fmt.Sprintf("%d %d %s %d %s %s", w.Prefix, w.Depth, hx(w.Checksum[:]), w.I, hx(w.ChCode), hx(w.Key))
}

func wFromTok(t []string) *btc.HDWallet {
	p, _ := strconv.ParseUint(t[0], 10, 32)
	d, _ := strconv.ParseUint(t[1], 10, 8)
	i, _ := strconv.ParseUint(t[3], 10, 32)
	w := &btc.HDWallet{Prefix: uint32(p), Depth: byte(d), I: uint32(i), ChCode: unhx(t[4]), Key: unhx(t[5])}
	copy(w.Checksum[:], unhx(t[2]))
	return w
}

func cloneW(w *btc.HDWallet) *btc.HDWallet {
	r := *w
	r.ChCode = append([]byte{}, w.ChCode...)
	r.Key = append([]byte{}, w.Key...)
	return &r
}

func sameW(a, b *btc.HDWallet) bool {
	return a.Prefix == b.Prefix && a.Depth == b.Depth && a.I == b.I && a.Checksum == b.Checksum &&
		bytes.Equal(a.ChCode, b.ChCode) && bytes.Equal(a.Key, b.Key)
}

func safeChild(w *btc.HDWallet, i uint32) (res *btc.HDWallet, panicked bool) {
	defer func() {
		if recover() != nil {
			res, panicked = nil, true
		}
	}()
	return cloneW(w).Child(i), false
}

func safeStr(f func() string) (s string) {
	defer func() {
		if x := recover(); x != nil {
			s = fmt.Sprint("PANIC ", x)
		}
	}()
	return f()
}

func toRef(w *btc.HDWallet) *refXKey {
	x := &refXKey{version: w.Prefix, depth: w.Depth, child: w.I, chain: w.ChCode, key: w.Key}
	x.fp = w.Checksum
	return x
}

func sameRef(w *btc.HDWallet, x *refXKey) bool {
	return w.Prefix == x.version && w.Depth == x.depth && w.I == x.child && w.Checksum == x.fp &&
		bytes.Equal(w.ChCode, x.chain) && bytes.Equal(w.Key, x.key)
}

func keyInRange(k []byte) bool {
	v := new(big.Int).SetBytes(k)
	return v.Sign() > 0 && v.Cmp(refN) < 0
}

// refAddrOfPub: the address PubAddr must give for this version
func refAddrOfXKey(version uint32, pub []byte) string {
	test := false
	switch version {
	case btc.TestPublic, btc.TestPrivate, btc.TestPublicY, btc.TestPrivateY, btc.TestPublicZ, btc.TestPrivateZ:
		test = true
	}
	h := refHash160(pub)
	switch version {
	case btc.PrivateZ, btc.PublicZ, btc.TestPrivateZ, btc.TestPublicZ:
		if test {
			return refSegwitEncode("tb", 0, h)
		}
		return refSegwitEncode("bc", 0, h)
	case btc.PrivateY, btc.PublicY, btc.TestPrivateY, btc.TestPublicY:
		v := byte(5)
		if test {
			v = 196
		}
		return refB58Check(append([]byte{v}, refHash160(append([]byte{0, 20}, h...))...))
	}
	v := byte(0)
	if test {
		v = 111
	}
	return refB58Check(append([]byte{v}, h...))
}

func caseMaster(o *vlib.Oracle, c *rec, cs Case) {
	seed := unhx(cs.A[0])
	tn := cs.A[1] == "1"
	c.Eval("master", cs.A[0]+cs.A[1])
	w := btc.MasterKey(append([]byte{}, seed...), tn)
	got := o.MustAsk("master " + hx(seed) + " " + b2s(tn))
	ver := uint32(btc.Private)
	if tn {
		ver = btc.TestPrivate
	}
	if !sameRef(w, refMaster(seed, ver)) {
		c.PropFail("master-spec", "btc.MasterKey differs from BIP32 master key generation", cs)
		return
	}
	if got != "ok "+wTok(w) {
		c.TieFail("master", "model masterKey differs from btc.MasterKey: "+got+" vs "+wTok(w), cs)
		return
	}
	c.TieOK()
}

// caseChild: A = six wallet tokens + index. Compares Child / Pub / String / StringWallet / PubAddr with the model
// and evaluates the property predicates (BIP32 reference, pub_commutes, serialize round trip) on the real code.
func caseChild(o *vlib.Oracle, c *rec, cs Case) {
	w := wFromTok(cs.A[:6])
	i64, _ := strconv.ParseUint(cs.A[6], 10, 32)
	i := uint32(i64)
	priv := btc.IsPrivateHDPrefix(w.Prefix)
	kind := "child-pub"
	if priv {
		kind = "child-priv"
	}
	if i >= 0x80000000 {
		kind += "-hard"
	}
	c.Eval(kind, strings.Join(cs.A, " "))
	ch, panicked := safeChild(w, i)
	got := o.MustAsk("child " + strings.Join(cs.A[:6], " ") + " " + cs.A[6])
	// "outside" = the model does not describe the VALUE gocoin returns here (stale coordinates of the point at
	// infinity, keys of the wrong length). The real code has been run all the same and is judged below by the
	// property's own predicate wherever BIP32 says what must come back; only the tie is skipped.
	outside := got == "outside"
	if outside {
		c.Hit("outside-model")
	}
	// ---- BIP32 reference, independent of the model. refState:
	//   defined      BIP32 defines the child: the real code must return exactly it
	//   skip         BIP32 calls the index invalid (I_L >= n / key 0 / infinity): observation, see child_priv_never_skips
	//   must-refuse  nothing may be derived: hardened index on a public key, unknown version bytes, or a public key
	//                that is no curve point (first byte not 02/03, x >= p, x^3+7 no square)
	//   parent-invalid  private parent outside 1..n-1 or of the wrong length (documented junk region)
	var x *refXKey
	refState := "parent-invalid"
	if priv {
		if len(w.Key) == 33 && keyInRange(w.Key[1:]) {
			var err error
			if x, err = refCKDpriv(toRef(w), i); err != nil {
				refState = "skip"
				c.Hit("bip32-skip-case")
			} else {
				refState = "defined"
			}
		} else {
			c.Hit("child-priv-parent-outside-1..n-1")
		}
	} else if !btc.IsPublicHDPrefix(w.Prefix) {
		refState = "must-refuse"
	} else {
		var err error
		x, err = refCKDpub(toRef(w), i)
		switch {
		case err == nil:
			refState = "defined"
		case err == errRefSkip:
			refState = "skip"
			c.Hit("bip32-skip-case")
		default:
			refState = "must-refuse"
			if i < 0x80000000 {
				c.Hit("child-pub-parent-not-a-point")
			}
		}
	}
	if panicked {
		c.Hit("child-panic")
		if refState == "defined" {
			c.PropFail("child-panics-on-valid", "HDWallet.Child panics although BIP32 defines this child", cs)
			return
		}
		if !outside {
			if got != "panic" {
				c.TieFail("child", "real Child panics, model says "+got, cs)
			} else {
				c.TieOK()
			}
		}
		return
	}
	if refState == "must-refuse" {
		// finding xpub-noncanonical-x (fixed): Child on 02||(p+1) returned 33 zero bytes without any error
		c.PropFail("child-of-invalid-xpub", "HDWallet.Child returns a key ("+hx(ch.Key)+") where BIP32 derives nothing (hardened index on a public key, or a public key that is no curve point)", cs)
		return
	}
	if refState == "defined" && !sameRef(ch, x) {
		if priv {
			c.PropFail("ckd-priv-spec", "HDWallet.Child (private) differs from BIP32 CKDpriv", cs)
		} else {
			c.PropFail("ckd-pub-spec", "HDWallet.Child (public) differs from BIP32 CKDpub", cs)
		}
	}
	if outside {
		c.Hit("outside-model-real-code-judged-" + refState)
		return
	}
	str := safeStr(ch.String)
	if got != "ok "+wTok(ch)+" "+hx([]byte(str)) {
		c.TieFail("child", "model child differs from HDWallet.Child: "+got+" vs "+wTok(ch), cs)
	} else {
		c.TieOK()
	}
	if len(ch.Key) == 33 && ch.Key[0] == 0 && ch.Key[1] == 0 {
		c.Hit("child-key-leading-zero")
	}
	// serialization round trip on the real code
	back, err := btc.StringWallet(str)
	if err != nil || !sameW(back, ch) {
		c.PropFail("serialize-roundtrip", fmt.Sprint("StringWallet(w.String()) != w: ", err), cs)
	}
	if x := toRef(ch); x.String() != str {
		c.PropFail("serialize-spec", "HDWallet.String differs from the BIP32 serialization", cs)
	}
	pg := o.MustAsk("parse " + hx([]byte(str)))
	if pg != "ok "+wTok(ch) {
		c.TieFail("parse", "model stringWallet differs: "+pg, cs)
	} else {
		c.TieOK()
	}
	// Pub and pub_commutes
	if priv && keyInRange(ch.Key[1:]) && keyInRange(w.Key[1:]) {
		pc := cloneW(ch).Pub()
		pgot := o.MustAsk("pub " + wTok(ch))
		if pgot != "ok "+wTok(pc)+" "+hx([]byte(pc.String())) {
			c.TieFail("pub", "model pub differs from HDWallet.Pub: "+pgot, cs)
		} else {
			c.TieOK()
		}
		if !sameRef(pc, refNeuter(toRef(ch))) {
			c.PropFail("neuter-spec", "HDWallet.Pub differs from BIP32 N()", cs)
		}
		if i < 0x80000000 {
			cp, pp := safeChild(cloneW(w).Pub(), i)
			if pp || !sameW(cp, pc) {
				c.PropFail("pub-commutes", "Pub(Child(w,i)) != Child(Pub(w),i)", cs)
			}
			c.Hit("pub-commutes-checked")
		}
	}
	// PubAddr
	var pubk []byte
	if priv {
		if !keyInRange(ch.Key[1:]) {
			return
		}
		pubk = refPub(ch.Key[1:])
	} else {
		pubk = ch.Key
	}
	ad := safeStr(func() string { return cloneW(ch).PubAddr().String() })
	ag := o.MustAsk("pubaddr " + wTok(ch))
	if ag != "ok "+hx([]byte(ad)) {
		c.TieFail("pubaddr", "model pubAddr differs from HDWallet.PubAddr: "+ag+" vs "+ad, cs)
	} else {
		c.TieOK()
	}
	if ad != refAddrOfXKey(ch.Prefix, pubk) {
		c.PropFail("pubaddr-spec", "PubAddr is not the address of the key: "+ad, cs)
	}
}

// caseVec32: A = seed hex, path ("0p/1/2p"), expected xprv, expected xpub — the BIP32 vectors of wallethd_test.go
func caseVec32(o *vlib.Oracle, c *rec, cs Case) {
	c.Eval("bip32-vector", strings.Join(cs.A, " "))
	w := btc.MasterKey(unhx(cs.A[0]), false)
	x := refMaster(unhx(cs.A[0]), btc.Private)
	tok := strings.Fields(strings.TrimPrefix(o.MustAsk("master "+cs.A[0]+" 0"), "ok "))
	if cs.A[1] != "" {
		for _, el := range strings.Split(cs.A[1], "/") {
			hard := strings.HasSuffix(el, "p")
			v, _ := strconv.ParseUint(strings.TrimSuffix(el, "p"), 10, 32)
			i := uint32(v)
			if hard {
				i |= 0x80000000
			}
			w = w.Child(i)
			var err error
			x, err = refCKDpriv(x, i)
			if err != nil {
				c.TieFail("vec32", "reference refuses a BIP32 test vector", cs)
				return
			}
			rep := o.MustAsk("child " + strings.Join(tok[:6], " ") + " " + fmt.Sprint(i))
			if !strings.HasPrefix(rep, "ok ") {
				c.TieFail("vec32", "model refuses a BIP32 test vector: "+rep, cs)
				return
			}
			tok = strings.Fields(rep[3:])
		}
	}
	mw := wFromTok(tok[:6])
	if w.String() != cs.A[2] || w.Pub().String() != cs.A[3] {
		c.PropFail("bip32-vector", "real code fails BIP32 test vector "+cs.A[1], cs)
	}
	if x.String() != cs.A[2] || refNeuter(x).String() != cs.A[3] {
		c.TieFail("vec32-ref", "the harness's BIP32 reference fails test vector "+cs.A[1], cs)
		return
	}
	if mw.String() != cs.A[2] {
		c.TieFail("vec32", "model fails BIP32 test vector "+cs.A[1], cs)
		return
	}
	c.TieOK()
}

func caseDnPriv(o *vlib.Oracle, c *rec, cs Case) {
	p, s := unhx(cs.A[0]), unhx(cs.A[1])
	c.Eval("derive-next-private", cs.A[0]+cs.A[1])
	var real []byte
	pan := ""
	func() {
		defer func() {
			if x := recover(); x != nil {
				pan = fmt.Sprint(x)
			}
		}()
		real = btc.DeriveNextPrivate(append([]byte{}, p...), append([]byte{}, s...))
	}()
	pv, sv := new(big.Int).SetBytes(p), new(big.Int).SetBytes(s)
	sum := new(big.Int).Add(pv, sv)
	// which region of the quantifier ("IL >= n", parent key >= n, sum >= 2n) this pair lies in
	if pv.Cmp(refN) >= 0 || sv.Cmp(refN) >= 0 {
		c.Hit("dnpriv-operand-ge-n")
	}
	if sum.Cmp(new(big.Int).Lsh(refN, 1)) >= 0 {
		c.Hit("dnpriv-sum-ge-2n")
	} else if sum.Cmp(refN) >= 0 {
		c.Hit("dnpriv-sum-ge-n")
	}
	sum.Mod(sum, refN)
	want := make([]byte, 32)
	sum.FillBytes(want)
	if pan != "" {
		c.PropFail("derive-next-private", "DeriveNextPrivate panics ("+pan+"); (p+s) mod n = "+hx(want), cs)
		return
	}
	if !bytes.Equal(real, want) {
		c.PropFail("derive-next-private", "DeriveNextPrivate = "+hx(real)+" != (p+s) mod n as 32 bytes = "+hx(want), cs)
		return
	}
	if real[0] == 0 {
		c.Hit("dnpriv-leading-zero")
	}
	if got := o.MustAsk("dnpriv " + hx(p) + " " + hx(s)); got != "ok "+hx(real) {
		c.TieFail("dnpriv", "model deriveNextPrivate differs: "+got, cs)
		return
	}
	c.TieOK()
}

func caseDnPub(o *vlib.Oracle, c *rec, cs Case) {
	p, s := unhx(cs.A[0]), unhx(cs.A[1])
	c.Eval("derive-next-public", cs.A[0]+cs.A[1])
	got := o.MustAsk("dnpub " + hx(p) + " " + hx(s))
	outside := got == "outside"
	if outside {
		c.Hit("outside-model") // the real code is run and judged all the same
	}
	var real []byte
	pan := ""
	func() {
		defer func() {
			if x := recover(); x != nil {
				pan = fmt.Sprint(x)
			}
		}()
		real = btc.DeriveNextPublic(append([]byte{}, p...), append([]byte{}, s...))
	}()
	P, ok := refParse(p)
	if pan != "" {
		c.Hit("dnpub-panic")
		if ok {
			c.PropFail("derive-next-public", "DeriveNextPublic panics on a valid point: "+pan, cs)
		} else if !outside {
			c.TieFail("dnpub", "DeriveNextPublic panics ("+pan+"), model: "+got, cs)
		}
		return
	}
	if ok {
		want := refSer(refAdd(refMul(new(big.Int).SetBytes(s), refPt{refGx, refGy}), P))
		if want == nil {
			// secret*G + P is the point at infinity: BaseMultiplyAdd reports false (fix for C08's api-basemultiplyadd-identity),
			// DeriveNextPublic ignores that and returns the zero-filled buffer - no point, so nothing that reads as one
			c.Hit("dnpub-sum-infinity")
			if _, isPt := refParse(real); isPt {
				c.PropFail("derive-next-public-infinity", "DeriveNextPublic returns the valid-looking key "+hx(real)+" although secret*G + P is the point at infinity", cs)
				return
			}
		} else if !bytes.Equal(real, want) {
			c.PropFail("derive-next-public", "DeriveNextPublic != secret*G + P", cs)
		}
	} else {
		c.Hit("dnpub-unparsable")
		// no point goes in, so no point may come out: whatever is returned must not read as a public key
		if _, isPt := refParse(real); isPt {
			c.PropFail("derive-next-public-invalid", "DeriveNextPublic returns a valid-looking key "+hx(real)+" for an input that is no curve point", cs)
		}
	}
	if outside {
		return
	}
	if got != "ok "+hx(real) {
		c.TieFail("dnpub", "model deriveNextPublic differs: "+got+" vs "+hx(real), cs)
		return
	}
	c.TieOK()
}

// caseParse: StringWallet on an arbitrary string (valid / mutated)
func caseParse(o *vlib.Oracle, c *rec, cs Case) {
	s := string(unhx(cs.A[0]))
	c.Eval("string-wallet", cs.A[0])
	var w *btc.HDWallet
	var err error
	pan := false
	func() {
		defer func() {
			if recover() != nil {
				pan = true
			}
		}()
		w, err = btc.StringWallet(s)
	}()
	got := o.MustAsk("parse " + hx([]byte(s)))
	switch {
	case pan:
		c.TieFail("parse", "StringWallet panics; model: "+got, cs)
	case err != nil:
		cls := "length"
		switch {
		case strings.Contains(err.Error(), "Prefix"):
			cls = "prefix"
		case strings.Contains(err.Error(), "public key"):
			cls = "pubkey"
		case strings.Contains(err.Error(), "checksum"):
			cls = "checksum"
		}
		c.Hit("parse-err-" + cls)
		if got != "err "+cls {
			c.TieFail("parse", "StringWallet error "+cls+", model: "+got, cs)
		} else {
			c.TieOK()
		}
	default:
		c.Hit("parse-ok")
		if got != "ok "+wTok(w) {
			c.TieFail("parse", "StringWallet ok, model: "+got, cs)
		} else {
			c.TieOK()
		}
		// accepted ⇒ re-serialises to the same string unless the input was non-canonical base58
		if w.String() != s && string(refB58Encode(refB58Decode(s))) == s {
			c.PropFail("parse-reserialize", "accepted extended key does not re-serialise to itself", cs)
		}
		if btc.IsPublicHDPrefix(w.Prefix) {
			// BIP32: "verify whether the X coordinate in the public key data corresponds to a point on the curve".
			// Finding xpub-noncanonical-x (fixed): ByteCheck ignored ParsePubkey's verdict, 02||(p+1) was accepted.
			if _, isPt := refParse(w.Key); !isPt {
				c.PropFail("xpub-noncanonical-x", "StringWallet accepts an extended PUBLIC key whose key bytes "+hx(w.Key)+" are no curve point (x >= p, x^3+7 no square, or first byte not 02/03)", cs)
				return
			}
			// an accepted xpub derives its non-hardened children, and each child's own string re-imports to it
			c.Hit("parse-ok-xpub-child-checked")
			for _, ci := range []uint32{0, 0x7fffffff} {
				ch, pn := safeChild(w, ci)
				x, err := refCKDpub(toRef(w), ci)
				if err != nil {
					continue // BIP32 skip case
				}
				if pn || !sameRef(ch, x) {
					c.PropFail("xpub-child", fmt.Sprintf("child %d of an accepted extended public key is not BIP32 CKDpub (panic=%v)", ci, pn), cs)
					break
				}
				back, err := btc.StringWallet(ch.String())
				if err != nil || !sameW(back, ch) {
					c.PropFail("xpub-child-reimport", fmt.Sprintf("child %d of an accepted extended public key does not re-import: %v", ci, err), cs)
					break
				}
			}
		} else if len(w.Key) == 33 && (w.Key[0] != 0 || !keyInRange(w.Key[1:])) {
			// BIP32 test vector 5 calls such xprv strings invalid; gocoin imports them (mirrored by the model)
			c.Hit("parse-ok-xprv-key-outside-1..n-1")
		}
	}
}

// caseWif: A = key, version, compressed. NewPrivateAddr + String + DecodePrivateAddr.
func caseWif(o *vlib.Oracle, c *rec, cs Case) {
	key := unhx(cs.A[0])
	ver, _ := strconv.Atoi(cs.A[1])
	compr := cs.A[2] == "1"
	c.Eval("wif", strings.Join(cs.A, " "))
	got := o.MustAsk("wifenc " + hx(key) + " " + cs.A[1] + " " + cs.A[2])
	var pa *btc.PrivateAddr
	pan := ""
	func() {
		defer func() {
			if x := recover(); x != nil {
				pan = fmt.Sprint(x)
			}
		}()
		pa = btc.NewPrivateAddr(append([]byte{}, key...), byte(ver), compr)
	}()
	if pan != "" {
		// key = 0 mod n: key*G is the point at infinity, BaseMultiply reports false (fix for C08's api-basemultiply-identity),
		// PublicFromPrivate returns nil and NewPrivateAddr panics "PublicFromPrivate error" - model: panic. Any other panic,
		// or this one for a key that has a public key, is a failure.
		c.Hit("wif-panic")
		if refPub(key) != nil || !strings.Contains(pan, "PublicFromPrivate error") {
			c.PropFail("panic-wif", "NewPrivateAddr panics on a private key that has a public key: "+pan, cs)
		} else if got != "panic" {
			c.TieFail("wif", "NewPrivateAddr panics ("+pan+"), model: "+got, cs)
		} else {
			c.Hit("wif-key-zero-mod-n-refused")
			c.TieOK()
		}
		return
	}
	if refPub(key) == nil {
		// the witness of C08's finding api-basemultiply-identity seen through btc: a "public key" for the scalar 0 / n
		c.PropFail("wif-key-zero-mod-n-accepted", "NewPrivateAddr hands out the public key "+hx(pa.Pubkey)+" for a private key = 0 mod n (its public key is the point at infinity)", cs)
		return
	}
	s := pa.String()
	want := fmt.Sprintf("ok %s %s %s %d", hx([]byte(s)), hx(pa.Pubkey), hx(pa.Hash160[:]), pa.BtcAddr.Version)
	if got != want {
		c.TieFail("wif", "model WIF encoding differs: "+got+" vs "+want, cs)
	} else {
		c.TieOK()
	}
	// spec: Base58Check(ver || key || [01])
	pl := append([]byte{byte(ver)}, key...)
	if compr {
		pl = append(pl, 1)
	}
	if s != refB58Check(pl) {
		c.PropFail("wif-spec", "PrivateAddr.String is not Base58Check(ver||key||[01])", cs)
	}
	if rp := refPub(key); compr && !bytes.Equal(pa.Pubkey, rp) {
		c.PropFail("pubkey-spec", "public key of a private key differs from the reference curve", cs)
	}
	back, err := btc.DecodePrivateAddr(s)
	if err != nil || !bytes.Equal(back.Key, key) || back.Version != byte(ver) || !bytes.Equal(back.Pubkey, pa.Pubkey) ||
		back.BtcAddr.String() != pa.BtcAddr.String() {
		c.PropFail("wif-roundtrip", fmt.Sprint("DecodePrivateAddr(String()) gives a different key: ", err), cs)
	}
}

func caseWifDec(o *vlib.Oracle, c *rec, cs Case) {
	s := string(unhx(cs.A[0]))
	c.Eval("wif-decode", cs.A[0])
	got := o.MustAsk("wifdec " + hx([]byte(s)))
	var pa *btc.PrivateAddr
	var err error
	pan := ""
	func() {
		defer func() {
			if x := recover(); x != nil {
				pan = fmt.Sprint(x)
			}
		}()
		pa, err = btc.DecodePrivateAddr(s)
	}()
	switch {
	case pan != "":
		// a well-formed WIF string of a key = 0 mod n: NewPrivateAddr panics "PublicFromPrivate error" (BaseMultiply
		// reports false at the point at infinity since the fix for C08's api-basemultiply-identity) - model: panic
		c.Hit("wifdec-panic")
		pl := refB58Decode(s)
		if len(pl) < 33 || refPub(pl[1:33]) != nil || !strings.Contains(pan, "PublicFromPrivate error") {
			c.PropFail("panic-wifdec", "DecodePrivateAddr panics on a string whose key has a public key: "+pan, cs)
		} else if got != "panic" {
			c.TieFail("wifdec", "DecodePrivateAddr panics ("+pan+"); model: "+got, cs)
		} else {
			c.Hit("wifdec-key-zero-mod-n-refused")
			c.TieOK()
		}
	case err != nil:
		cls := "b58"
		switch {
		case strings.Contains(err.Error(), "short"):
			cls = "short"
		case strings.Contains(err.Error(), "long"):
			cls = "long"
		case strings.Contains(err.Error(), "checksum"):
			cls = "checksum"
		case strings.Contains(err.Error(), "flag"):
			cls = "flag"
		}
		c.Hit("wifdec-err-" + cls)
		// a payload with a wrong checksum AND a wrong flag byte fails both tests: which one is reported is an
		// ordering detail of two independent refusals, not behaviour
		if (cls == "flag" && got == "err checksum") || (cls == "checksum" && got == "err flag") {
			if pl := refB58Decode(s); len(pl) == 38 && pl[33] != 1 && !bytes.Equal(refDsha(pl[:34])[:4], pl[34:]) {
				got = "err " + cls
			}
		}
		if got != "err "+cls {
			c.TieFail("wifdec", "DecodePrivateAddr error "+cls+", model: "+got, cs)
		} else {
			c.TieOK()
		}
	default:
		c.Hit("wifdec-ok")
		// re-import clause, import direction (Props.C14.wif_import_is_export): an accepted string is the export of
		// the record it imports to - two strings never denote one key record (finding wif-flag-byte-unchecked, fixed)
		if back := pa.String(); back != s {
			c.PropFail("wif-import-not-export", fmt.Sprintf("DecodePrivateAddr(%q) is accepted but String() of the result is %q: two strings import to one key", s, back), cs)
			return
		}
		want := fmt.Sprintf("ok %s %d %s %s %d", hx(pa.Key), pa.Version, hx(pa.Pubkey), hx(pa.Hash160[:]), pa.BtcAddr.Version)
		if refPub(pa.Key) == nil {
			c.PropFail("wif-key-zero-mod-n-accepted", "DecodePrivateAddr imports a private key = 0 mod n with the public key "+hx(pa.Pubkey)+" (its public key is the point at infinity)", cs)
			return
		}
		if got != want {
			c.TieFail("wifdec", "model decodePrivateAddr differs: "+got+" vs "+want, cs)
		} else {
			c.TieOK()
		}
	}
}
