// Independent reference (the Spec side of the property predicate), written from BIP32 / BIP39 / BIP173 / BIP350
// and the Base58Check definition with math/big and Go's standard hashes only. It shares no code with gocoin's
// btc / secp256k1 / bip39 / bech32 packages (RIPEMD-160 is the repository's copy of x/crypto's — a hash
// primitive, "modelled not verified" on both sides).
package main

import (
	"bytes"
	"crypto/hmac"
	"crypto/sha256"
	"crypto/sha512"
	"encoding/binary"
	"errors"
	"math/big"
	"strings"

	"github.com/piotrnar/gocoin/lib/others/ripemd160"
)

var (
	refP, _  = new(big.Int).SetString("FFFFFFFFFFFFFFFFFFFFFFFFFFFFFFFFFFFFFFFFFFFFFFFFFFFFFFFEFFFFFC2F", 16)
	refN, _  = new(big.Int).SetString("FFFFFFFFFFFFFFFFFFFFFFFFFFFFFFFEBAAEDCE6AF48A03BBFD25E8CD0364141", 16)
	refGx, _ = new(big.Int).SetString("79BE667EF9DCBBAC55A06295CE870B07029BFCDB2DCE28D959F2815B16F81798", 16)
	refGy, _ = new(big.Int).SetString("483ADA7726A3C4655DA4FBFC0E1108A8FD17B448A68554199C47D08FFB10D4B8", 16)
)

type refPt struct{ x, y *big.Int } // nil x = infinity

func refAdd(a, b refPt) refPt {
	if a.x == nil {
		return b
	}
	if b.x == nil {
		return a
	}
	var l *big.Int
	if a.x.Cmp(b.x) == 0 {
		if a.y.Cmp(b.y) != 0 || a.y.Sign() == 0 {
			return refPt{}
		}
		num := new(big.Int).Mul(a.x, a.x)
		num.Mul(num, big.NewInt(3))
		den := new(big.Int).Lsh(a.y, 1)
		l = num.Mul(num, den.ModInverse(den, refP))
	} else {
		num := new(big.Int).Sub(b.y, a.y)
		den := new(big.Int).Sub(b.x, a.x)
		den.Mod(den, refP)
		l = num.Mul(num, den.ModInverse(den, refP))
	}
	l.Mod(l, refP)
	x3 := new(big.Int).Mul(l, l)
	x3.Sub(x3, a.x).Sub(x3, b.x).Mod(x3, refP)
	y3 := new(big.Int).Sub(a.x, x3)
	y3.Mul(y3, l).Sub(y3, a.y).Mod(y3, refP)
	return refPt{x3, y3}
}

func refMul(k *big.Int, p refPt) refPt {
	r := refPt{}
	for i := k.BitLen() - 1; i >= 0; i-- {
		r = refAdd(r, r)
		if k.Bit(i) == 1 {
			r = refAdd(r, p)
		}
	}
	return r
}

func refSer(p refPt) []byte {
	if p.x == nil {
		return nil
	}
	out := make([]byte, 33)
	out[0] = 2 + byte(p.y.Bit(0))
	p.x.FillBytes(out[1:])
	return out
}

func refParse(b []byte) (refPt, bool) {
	if len(b) != 33 || (b[0] != 2 && b[0] != 3) {
		return refPt{}, false
	}
	x := new(big.Int).SetBytes(b[1:])
	if x.Cmp(refP) >= 0 {
		return refPt{}, false
	}
	y2 := new(big.Int).Exp(x, big.NewInt(3), refP)
	y2.Add(y2, big.NewInt(7)).Mod(y2, refP)
	y := new(big.Int).ModSqrt(y2, refP)
	if y == nil {
		return refPt{}, false
	}
	if y.Bit(0) != uint(b[0]&1) {
		y.Sub(refP, y)
	}
	return refPt{x, y}, true
}

func refPub(priv []byte) []byte {
	return refSer(refMul(new(big.Int).SetBytes(priv), refPt{refGx, refGy}))
}

func refHash160(b []byte) []byte {
	s := sha256.Sum256(b)
	r := ripemd160.New()
	r.Write(s[:])
	return r.Sum(nil)
}

func refDsha(b []byte) []byte {
	a := sha256.Sum256(b)
	c := sha256.Sum256(a[:])
	return c[:]
}

const refB58 = "123456789ABCDEFGHJKLMNPQRSTUVWXYZabcdefghijkmnopqrstuvwxyz"

func refB58Encode(b []byte) string {
	n := new(big.Int).SetBytes(b)
	var out []byte
	m := new(big.Int)
	for n.Sign() != 0 {
		n.DivMod(n, big.NewInt(58), m)
		out = append([]byte{refB58[m.Int64()]}, out...)
	}
	for i := 0; i < len(b) && b[i] == 0; i++ {
		out = append([]byte{'1'}, out...)
	}
	return string(out)
}

func refB58Decode(s string) []byte {
	n := new(big.Int)
	for i := 0; i < len(s); i++ {
		d := strings.IndexByte(refB58, s[i])
		if d < 0 {
			return nil
		}
		n.Mul(n, big.NewInt(58))
		n.Add(n, big.NewInt(int64(d)))
	}
	z := 0
	for z < len(s) && s[z] == '1' {
		z++
	}
	return append(make([]byte, z), n.Bytes()...)
}

func refB58Check(payload []byte) string {
	return refB58Encode(append(append([]byte{}, payload...), refDsha(payload)[:4]...))
}

const refCharset = "qpzry9x8gf2tvdw0s3jn54khce6mua7l"

func refPolymod(values []int) uint32 {
	gen := []uint32{0x3b6a57b2, 0x26508e6d, 0x1ea119fa, 0x3d4233dd, 0x2a1462b3}
	chk := uint32(1)
	for _, v := range values {
		top := chk >> 25
		chk = (chk&0x1ffffff)<<5 ^ uint32(v)
		for i := 0; i < 5; i++ {
			if (top>>uint(i))&1 == 1 {
				chk ^= gen[i]
			}
		}
	}
	return chk
}

func refSegwitEncode(hrp string, ver int, prog []byte) string {
	data := []int{ver}
	acc, bits := 0, 0
	for _, b := range prog {
		acc = acc<<8 | int(b)
		bits += 8
		for bits >= 5 {
			bits -= 5
			data = append(data, (acc>>uint(bits))&31)
		}
	}
	if bits > 0 {
		data = append(data, (acc<<uint(5-bits))&31)
	}
	var vals []int
	for i := 0; i < len(hrp); i++ {
		vals = append(vals, int(hrp[i]>>5))
	}
	vals = append(vals, 0)
	for i := 0; i < len(hrp); i++ {
		vals = append(vals, int(hrp[i]&31))
	}
	vals = append(vals, data...)
	c := uint32(1)
	if ver != 0 {
		c = 0x2bc830a3
	}
	pm := refPolymod(append(append([]int{}, vals...), 0, 0, 0, 0, 0, 0)) ^ c
	out := hrp + "1"
	for _, d := range data {
		out += string(refCharset[d])
	}
	for i := 0; i < 6; i++ {
		out += string(refCharset[(pm>>uint(5*(5-i)))&31])
	}
	return out
}

// ---------------------------------------------------------------- BIP32
type refXKey struct {
	version uint32
	depth   byte
	fp      [4]byte
	child   uint32
	chain   []byte
	key     []byte // 33 bytes: 00||k or compressed point
}

func refHmac512(key, msg []byte) []byte {
	m := hmac.New(sha512.New, key)
	m.Write(msg)
	return m.Sum(nil)
}

func refMaster(seed []byte, version uint32) *refXKey {
	I := refHmac512([]byte("Bitcoin seed"), seed)
	return &refXKey{version: version, chain: I[32:], key: append([]byte{0}, I[:32]...)}
}

var errRefSkip = errors.New("BIP32: I_L >= n or derived key invalid (index must be skipped)")

// refCKDpriv is BIP32 CKDpriv: ((k_par, c_par), i) -> (k_i, c_i)
func refCKDpriv(x *refXKey, i uint32) (*refXKey, error) {
	kpar := new(big.Int).SetBytes(x.key[1:])
	ppub := refSer(refMul(kpar, refPt{refGx, refGy}))
	var data []byte
	if i >= 0x80000000 {
		data = append(data, x.key...)
	} else {
		data = append(data, ppub...)
	}
	var ib [4]byte
	binary.BigEndian.PutUint32(ib[:], i)
	data = append(data, ib[:]...)
	I := refHmac512(x.chain, data)
	il := new(big.Int).SetBytes(I[:32])
	if il.Cmp(refN) >= 0 {
		return nil, errRefSkip
	}
	k := il.Add(il, kpar)
	k.Mod(k, refN)
	if k.Sign() == 0 {
		return nil, errRefSkip
	}
	r := &refXKey{version: x.version, depth: x.depth + 1, child: i, chain: I[32:], key: make([]byte, 33)}
	k.FillBytes(r.key[1:])
	copy(r.fp[:], refHash160(ppub)[:4])
	return r, nil
}

// refCKDpub is BIP32 CKDpub: ((K_par, c_par), i) -> (K_i, c_i), i < 2^31
func refCKDpub(x *refXKey, i uint32) (*refXKey, error) {
	if i >= 0x80000000 {
		return nil, errors.New("hardened child of a public key")
	}
	K, ok := refParse(x.key)
	if !ok {
		return nil, errors.New("bad parent point")
	}
	var ib [4]byte
	binary.BigEndian.PutUint32(ib[:], i)
	I := refHmac512(x.chain, append(append([]byte{}, x.key...), ib[:]...))
	il := new(big.Int).SetBytes(I[:32])
	if il.Cmp(refN) >= 0 {
		return nil, errRefSkip
	}
	P := refAdd(refMul(il, refPt{refGx, refGy}), K)
	if P.x == nil {
		return nil, errRefSkip
	}
	r := &refXKey{version: x.version, depth: x.depth + 1, child: i, chain: I[32:], key: refSer(P)}
	copy(r.fp[:], refHash160(x.key)[:4])
	return r, nil
}

var refPubVersion = map[uint32]uint32{0x0488ADE4: 0x0488B21E, 0x049d7878: 0x049d7cb2, 0x04b2430c: 0x04b24746,
	0x04358394: 0x043587cf, 0x044a4e28: 0x044a5262, 0x045f18bc: 0x045f1cf6}

// refN_ is BIP32 N((k, c)) -> (K, c)
func refNeuter(x *refXKey) *refXKey {
	r := *x
	r.version = refPubVersion[x.version]
	r.key = refPub(x.key[1:])
	return &r
}

func (x *refXKey) String() string {
	b := make([]byte, 0, 82)
	var t [4]byte
	binary.BigEndian.PutUint32(t[:], x.version)
	b = append(b, t[:]...)
	b = append(b, x.depth)
	b = append(b, x.fp[:]...)
	binary.BigEndian.PutUint32(t[:], x.child)
	b = append(b, t[:]...)
	b = append(b, x.chain...)
	b = append(b, x.key...)
	return refB58Check(b)
}

// ---------------------------------------------------------------- BIP39 (bit-string formulation)
func refBits(b []byte) []byte {
	out := make([]byte, 0, len(b)*8)
	for _, x := range b {
		for i := 7; i >= 0; i-- {
			out = append(out, (x>>uint(i))&1)
		}
	}
	return out
}

func refMnemonic(words []string, ent []byte) (string, bool) {
	if len(ent) < 16 || len(ent) > 32 || len(ent)%4 != 0 {
		return "", false
	}
	h := sha256.Sum256(ent)
	bits := append(refBits(ent), refBits(h[:])[:len(ent)/4]...)
	var ws []string
	for i := 0; i+11 <= len(bits); i += 11 {
		v := 0
		for _, b := range bits[i : i+11] {
			v = v<<1 | int(b)
		}
		ws = append(ws, words[v])
	}
	return strings.Join(ws, " "), true
}

// refEntropy decodes a list of words: ok iff 12..24 words (multiple of 3), all in the list, checksum bits match.
func refEntropy(words []string, ws []string) ([]byte, bool) {
	if len(ws)%3 != 0 || len(ws) < 12 || len(ws) > 24 {
		return nil, false
	}
	var bits []byte
	for _, w := range ws {
		idx := -1
		for i, x := range words {
			if x == w {
				idx = i
				break
			}
		}
		if idx < 0 {
			return nil, false
		}
		for i := 10; i >= 0; i-- {
			bits = append(bits, byte(idx>>uint(i))&1)
		}
	}
	cs := len(bits) / 33
	ent := make([]byte, (len(bits)-cs)/8)
	for i := range ent {
		for j := 0; j < 8; j++ {
			ent[i] = ent[i]<<1 | bits[i*8+j]
		}
	}
	h := sha256.Sum256(ent)
	if !bytes.Equal(refBits(h[:])[:cs], bits[len(bits)-cs:]) {
		return nil, false
	}
	return ent, true
}

func refPbkdf2Sha512(pw, salt []byte, iter, keyLen int) []byte {
	var out []byte
	for blk := 1; len(out) < keyLen; blk++ {
		var ib [4]byte
		binary.BigEndian.PutUint32(ib[:], uint32(blk))
		u := refHmac512(pw, append(append([]byte{}, salt...), ib[:]...))
		t := append([]byte{}, u...)
		for n := 2; n <= iter; n++ {
			u = refHmac512(pw, u)
			for i := range t {
				t[i] ^= u[i]
			}
		}
		out = append(out, t...)
	}
	return out[:keyLen]
}

func refSeed(mnemonic, passphrase string) []byte {
	return refPbkdf2Sha512([]byte(mnemonic), []byte("mnemonic"+passphrase), 2048, 64)
}
