// typed.go — the interactive branch of wallet/stuff.go:getpass, driven through pipes.
//
// The wallet reads a typed password with ONE os.Stdin.Read (sys.getline) and the yes/no answer with a fresh
// bufio reader; it needs no terminal (`stty -echo` simply fails on a pipe). So the harness feeds stdin one
// line at a time, each only after the corresponding prompt has appeared on stdout — exactly what a terminal
// in line mode delivers. Scenario (property: "the same seed password and configuration produce the same
// ordered list of keys on every run"): no seed file, `seed=` prefix in wallet.cfg, password typed in
// generation mode (-l / -xprv), answer to "Save the password on disk" y or n, then further runs that find
// (or do not find) the saved file.
package main

import (
	"bytes"
	"fmt"
	"os"
	"os/exec"
	"path/filepath"
	"strings"
	"sync"
	"time"

	"verif/vlib"
)

const (
	promptEnter   = "Enter your wallet's seed password: "
	promptReenter = "Re-enter the seed password (to be sure): "
	promptSave    = "Save the password on disk, so you won't be asked for it later? (y/n) : "
)

type typedStep struct {
	prompt string
	answer []byte
}

// runWalletTyped starts the wallet with pipes and plays the steps. sawAll=false: the process ended (or 20 s
// passed) before one of the prompts appeared.
func runWalletTyped(dir string, w *walletCase, steps []typedStep, extra ...string) (res walRun, sawAll bool) {
	_, args := w.args()
	args = append(args, extra...)
	cmd := exec.Command(walletBin, args...)
	cmd.Dir = dir
	in, err := cmd.StdinPipe()
	if err != nil {
		return walRun{code: -2}, false
	}
	pr, pw, err := os.Pipe()
	if err != nil {
		return walRun{code: -2}, false
	}
	var se bytes.Buffer
	cmd.Stdout, cmd.Stderr = pw, &se
	if err := cmd.Start(); err != nil {
		pr.Close()
		pw.Close()
		return walRun{code: -2}, false
	}
	pw.Close()
	var mu sync.Mutex
	var so []byte
	eof := make(chan struct{})
	go func() {
		buf := make([]byte, 4096)
		for {
			n, e := pr.Read(buf)
			if n > 0 {
				mu.Lock()
				so = append(so, buf[:n]...)
				mu.Unlock()
			}
			if e != nil {
				close(eof)
				return
			}
		}
	}()
	sawAll = true
	cursor := 0
	for _, st := range steps {
		deadline := time.Now().Add(20 * time.Second)
		found := false
		for !found {
			mu.Lock()
			j := bytes.Index(so[cursor:], []byte(st.prompt))
			if j >= 0 {
				cursor += j + len(st.prompt)
				found = true
			}
			mu.Unlock()
			if found {
				break
			}
			select {
			case <-eof:
				mu.Lock()
				j := bytes.Index(so[cursor:], []byte(st.prompt))
				mu.Unlock()
				if j < 0 {
					sawAll = false
				}
			case <-time.After(2 * time.Millisecond):
			}
			if !sawAll || time.Now().After(deadline) {
				sawAll = false
				break
			}
		}
		if !sawAll {
			break
		}
		in.Write(st.answer) // one write = one read of the wallet (well below PIPE_BUF)
	}
	in.Close()
	done := make(chan error, 1)
	go func() { done <- cmd.Wait() }()
	select {
	case err = <-done:
	case <-time.After(120 * time.Second):
		cmd.Process.Kill()
		err = <-done
	}
	<-eof
	pr.Close()
	code := 0
	if err != nil {
		code = -1
		if ee, ok := err.(*exec.ExitError); ok {
			code = ee.ExitCode()
		}
	}
	mu.Lock()
	defer mu.Unlock()
	return walRun{string(so), se.String(), code}, sawAll
}

// typedPhase plays the interactive run of an Ask case. It returns the `-l` run whose wallet.txt the rest of
// caseWallet examines and leaves a seed file behind for the later (non-interactive) runs. ok=false: the case
// is finished (refused session, or a failure has been recorded).
//
// Ask: 1 = `-l`, password typed twice, answer y   2 = `-l -1`, typed once, answer y
//
//	3 = `-l`, typed twice, answer n            4 = `-xprv` (type 4), typed twice, answer y; `-l` then reads the file
//	5 = `-l -p`: typed twice, never offered to save
func typedPhase(o *vlib.Oracle, c *rec, cs Case, dir string, cfgRefused bool) (lst walRun, ok bool) {
	w := cs.W
	p := unhx(w.File)
	term := unhx(w.Term)
	if len(term) == 0 {
		term = []byte{'\n'}
	}
	first := append(append([]byte{}, p...), term...)
	second := first
	if w.Second != "" {
		second = append(unhx(w.Second), '\n')
	}
	single, askp, save := w.Ask == 2, w.Ask == 5, w.Ask != 3 && w.Ask != 5
	mode := "-l"
	if w.Ask == 4 {
		mode = "-xprv"
	}
	c.Hit(fmt.Sprintf("wallet-typed-ask%d", w.Ask))
	steps := []typedStep{{promptEnter, first}}
	if !single {
		steps = append(steps, typedStep{promptReenter, second})
	}
	if !askp {
		ans := "n\n"
		if save {
			ans = "y\n"
			if len(p)%2 == 1 {
				ans = "Y\n"
			}
		}
		steps = append(steps, typedStep{promptSave, []byte(ans)})
	}
	extra := []string{mode}
	if single {
		extra = append(extra, "-1")
	}
	if askp {
		extra = append(extra, "-p")
	}
	secret := filepath.Join(dir, ".secret")
	run1, sawAll := runWalletTyped(dir, w, steps, extra...)
	saved, serr := os.ReadFile(secret)
	// the model's account of the session
	mo := o.MustAsk(fmt.Sprintf("typed %s %s %s %s 1 %s %s", hx(unhx(w.Seed)), hx(first), hx(second), b2s(single), b2s(askp), b2s(save)))
	mf := strings.Fields(mo)
	if len(mf) < 2 {
		c.TieFail("typed-oracle", "oracle refused the request: "+mo, cs)
		return run1, false
	}
	if mf[0] == "err" {
		c.Hit("wallet-typed-refused-" + mf[1])
		// a refused session derives nothing and must not leave a seed file behind
		if serr == nil {
			c.PropFail("typed-refused-saved", "the password session was refused ("+mf[1]+") but a seed file was written", cs)
			return run1, false
		}
		if !strings.Contains(run1.stderr, "Error reading seed password") {
			// the configuration may have been refused before the password was asked for: then no prompt was seen
			if sawAll {
				c.TieFail("typed-refuse", "model refuses the typed session ("+mf[1]+"), the wallet does not: "+strings.TrimSpace(run1.stderr), cs)
				return run1, false
			}
			c.Hit("wallet-typed-config-refused-first")
		}
		c.TieOK()
		return run1, false
	}
	if !sawAll {
		// the wallet stopped before asking (configuration refused before getpass): nothing typed, nothing saved
		if serr == nil {
			c.PropFail("typed-refused-saved", "the wallet ended before all prompts but wrote a seed file", cs)
			return run1, false
		}
		if !cfgRefused {
			// the model accepts configuration and session, but the wallet did not go through the prompts
			c.TieFail("typed-session", "the wallet ended (or hung) before all prompts of a session the model accepts: "+strings.TrimSpace(run1.stderr), cs)
			return run1, false
		}
		c.Hit("wallet-typed-config-refused-first")
		os.WriteFile(secret, p, 0600)
		lst = runWallet(dir, w, "-l") // let the ordinary path compare the refusal with the model
		return lst, true
	}
	// PROPERTY, first: what the saved file makes the next run derive
	if save {
		if serr != nil {
			c.PropFail("typed-not-saved", "the user asked to save the password but no seed file was written", cs)
			return run1, false
		}
	} else if serr == nil {
		c.PropFail("typed-saved-unasked", "a seed file was written although the user declined / -p was given", cs)
		return run1, false
	}
	if !save {
		os.WriteFile(secret, p, 0600) // later runs of this case read the password from a file the harness writes
	}
	var first1 []byte
	if mode == "-l" {
		lst = run1
		first1, _ = os.ReadFile(filepath.Join(dir, "wallet.txt"))
	}
	// second run, from the seed file
	lst2 := runWallet(dir, w, "-l")
	w2, _ := os.ReadFile(filepath.Join(dir, "wallet.txt"))
	if mode == "-l" {
		if run1.code == 0 && !bytes.Equal(first1, w2) {
			what := "the run that reads the SAVED password lists different keys than the run in which it was typed"
			if !save {
				what = "a run from a seed file holding the typed password lists different keys than the run in which it was typed"
			}
			c.PropFail("deterministic-saved-password", fmt.Sprintf("%s (seed file holds %q, typed %q, seed= prefix %q)", what, saved, p, unhx(w.Seed)), cs)
			return run1, false
		}
		// the rest of the case examines the TYPED run's wallet.txt and stdout; put the file back as that run left it
		os.WriteFile(filepath.Join(dir, "wallet.txt"), first1, 0600)
	} else {
		lst = lst2
		xp2 := runWallet(dir, w, "-xprv")
		if run1.code == 0 && (lineAfter(run1.stdout, "Root:") != lineAfter(xp2.stdout, "Root:") || lineAfter(run1.stdout, "Leaf:") != lineAfter(xp2.stdout, "Leaf:")) {
			c.PropFail("deterministic-saved-password", fmt.Sprintf("wallet -xprv from the SAVED password prints other keys than the run in which it was typed (seed file holds %q, typed %q, seed= prefix %q)", saved, p, unhx(w.Seed)), cs)
			return run1, false
		}
	}
	// tie: the saved bytes are the model's
	if save {
		if mf[2] != hx(saved) {
			c.TieFail("typed-saved", "seed file written by the wallet differs from the model's: "+hx(saved)+" vs "+mf[2], cs)
			return run1, false
		}
	} else if mf[2] != "none" {
		c.TieFail("typed-saved", "model saves a seed file, the wallet does not", cs)
		return run1, false
	}
	if want := hx(append(append([]byte{}, unhx(w.Seed)...), p...)); mf[1] != want {
		// p carries no trailing control bytes by construction, so the model's password must be seed= ‖ p
		c.TieFail("typed-pass", "model's typed password is "+mf[1]+", expected "+want, cs)
		return run1, false
	}
	c.TieOK()
	return lst, true
}
