// c14 — correspondence harness + property search for C14 (wallet keys: BIP32 / BIP39 / determinism).
// Real code: btc.HDWallet API, btc.PrivateAddr, bip39.*, and the REAL wallet binary (built from <repo>/wallet).
// Model: lean oracle_c14 (pool of processes). Independent reference for the property predicate: ref.go.
package main

import (
	"encoding/json"
	"fmt"
	"math/big"
	"os"
	"regexp"
	"strings"

	"github.com/piotrnar/gocoin/lib/btc"
	"github.com/piotrnar/gocoin/lib/others/bip39"
	"github.com/piotrnar/gocoin/lib/script"
	"verif/vlib"
	"verif/vtrans"
)

var privPrefixes = []uint32{btc.Private, btc.PrivateY, btc.PrivateZ, btc.TestPrivate, btc.TestPrivateY, btc.TestPrivateZ}

func edgeIndex(g *vlib.Rng) uint32 {
	switch g.Intn(10) {
	case 0:
		return uint32(g.Pick(0, 1, 2))
	case 1:
		return 0x7fffffff - uint32(g.Intn(2))
	case 2:
		return 0x80000000 + uint32(g.Intn(2))
	case 3:
		return 0xffffffff - uint32(g.Intn(2))
	case 4, 5:
		return uint32(g.U64()) | 0x80000000
	}
	return uint32(g.U64()) & 0x7fffffff
}

func genChildCases(g *vlib.Rng, n int) []Case {
	var out []Case
	nBytes := refN.Bytes()
	for len(out) < n {
		seed := g.Bytes(16 + g.Intn(49))
		w := btc.MasterKey(seed, false)
		w.Prefix = privPrefixes[g.Intn(len(privPrefixes))]
		switch g.Intn(12) { // crafted keys
		case 0:
			k := new(big.Int).Sub(refN, big.NewInt(int64(1+g.Intn(3))))
			w.Key = append([]byte{0}, k.FillBytes(make([]byte, 32))...)
		case 1:
			w.Key = make([]byte, 33)
			w.Key[32] = byte(1 + g.Intn(3))
		case 2:
			copy(w.Key[1:], make([]byte, 1+g.Intn(4))) // leading zero bytes
		case 3: // key ≥ n (not reduced by the code): n+1 … 2^256-1
			if g.Bool() {
				k := new(big.Int).Add(refN, big.NewInt(int64(1+g.Intn(5))))
				w.Key = append([]byte{0}, k.FillBytes(make([]byte, 32))...)
			} else {
				w.Key = append([]byte{0}, g.Bytes(32)...)
				copy(w.Key[1:], nBytes[:16])
				w.Key[17] |= 0xc0
			}
		}
		w.Depth = byte(g.Pick(0, 0, 0, 1, 5, 254, 255))
		steps := 1 + g.Intn(3)
		for s := 0; s < steps && len(out) < n; s++ {
			i := edgeIndex(g)
			usePub := g.Chance(1, 3)
			var tw *btc.HDWallet = w
			if usePub {
				if !keyInRange(w.Key[1:]) {
					usePub = false
				} else {
					tw = cloneW(w).Pub()
					if g.Chance(4, 5) {
						i &= 0x7fffffff
					}
				}
			}
			out = append(out, Case{Kind: "child", A: append(strings.Fields(wTok(tw)), fmt.Sprint(i))})
			nw, pn := safeChild(w, i)
			if pn || !keyInRange(nw.Key[1:]) {
				break
			}
			w = nw
		}
	}
	return out
}

type badKey struct {
	tag string
	key []byte
}

// badPubKeys: 33-byte strings that are NOT the compressed encoding of a curve point
func badPubKeys() []badKey {
	pk := func(first byte, x *big.Int) []byte { return append([]byte{first}, x.FillBytes(make([]byte, 32))...) }
	pd := func(d int64) *big.Int { return new(big.Int).Add(refP, big.NewInt(d)) }
	max := new(big.Int).Sub(new(big.Int).Lsh(big.NewInt(1), 256), big.NewInt(1))
	G := refPub([]byte{1})
	out := []badKey{
		{"x=p+1", pk(2, pd(1))}, {"x=p+1-odd", pk(3, pd(1))}, {"x=p+2", pk(2, pd(2))}, {"x=2^256-1", pk(2, max)}, {"x=2^256-1-odd", pk(3, max)},
		{"x=p", pk(2, pd(0))}, {"x=p+5-nonresidue", pk(2, pd(5))}, {"x=5-nonresidue", pk(2, big.NewInt(5))}, {"x=5-nonresidue-odd", pk(3, big.NewInt(5))},
		{"x=0", pk(2, big.NewInt(0))}, {"first-byte-00", append([]byte{0}, G[1:]...)}, {"first-byte-04", append([]byte{4}, G[1:]...)}, {"first-byte-05", append([]byte{5}, G[1:]...)},
	}
	for _, b := range out {
		if _, ok := refParse(b.key); ok {
			panic("badPubKeys: " + b.tag + " is a curve point")
		}
	}
	return out
}

// randBadPubKey: x >= p (about half of them with x mod p liftable, the class gocoin used to accept) or x < p off the curve
func randBadPubKey(g *vlib.Rng) []byte {
	for {
		var x *big.Int
		if g.Bool() {
			span := new(big.Int).Sub(new(big.Int).Lsh(big.NewInt(1), 256), refP)
			x = new(big.Int).Mod(new(big.Int).SetBytes(g.Bytes(8)), span)
			x.Add(x, refP)
		} else {
			x = new(big.Int).Mod(new(big.Int).SetBytes(g.Bytes(40)), refP)
		}
		k := append([]byte{byte(2 + g.Intn(2))}, x.FillBytes(make([]byte, 32))...)
		if _, ok := refParse(k); !ok {
			return k
		}
	}
}

var reVar = regexp.MustCompile(`(?m)^\s*(m[_0-9p]*)_(pub|prv)(\d)\s+string\s*=\s*"([^"]+)"`)
var reSeed = regexp.MustCompile(`(?m)^\s*masterhex(\d)\s+string\s*=\s*"([0-9a-f]+)"`)
var reBip = regexp.MustCompile(`entropy:\s*"([0-9a-f]+)",\s*mnemonic:\s*"([a-z ]+)",\s*seed:\s*"([0-9a-f]+)"`)
var reBad = regexp.MustCompile(`\{mnemonic:\s*"([^"]+)"\}`)

func corpusCases(g *vlib.Rng) []Case {
	var out []Case
	// BIP32 vectors of the repository's own test file
	if src, err := os.ReadFile(vtrans.RepoRoot() + "/lib/btc/wallethd_test.go"); err == nil {
		seeds := map[string]string{}
		for _, m := range reSeed.FindAllStringSubmatch(string(src), -1) {
			seeds[m[1]] = m[2]
		}
		type pp struct{ prv, pub string }
		vec := map[string]*pp{}
		var order []string
		for _, m := range reVar.FindAllStringSubmatch(string(src), -1) {
			k := m[3] + "|" + strings.TrimPrefix(strings.TrimPrefix(m[1], "m"), "_")
			if vec[k] == nil {
				vec[k] = &pp{}
				order = append(order, k)
			}
			if m[2] == "pub" {
				vec[k].pub = m[4]
			} else {
				vec[k].prv = m[4]
			}
		}
		for _, k := range order {
			f := strings.SplitN(k, "|", 2)
			if seeds[f[0]] != "" && vec[k].prv != "" && vec[k].pub != "" {
				out = append(out, Case{Kind: "vec32", A: []string{seeds[f[0]], strings.ReplaceAll(f[1], "_", "/"), vec[k].prv, vec[k].pub}})
				out = append(out, Case{Kind: "parse", Tag: "vector", A: []string{hx([]byte(vec[k].prv))}})
				out = append(out, Case{Kind: "parse", Tag: "vector", A: []string{hx([]byte(vec[k].pub))}})
			}
		}
	}
	// BIP39 vectors (passphrase TREZOR) and the bad sentences of bip39_test.go
	if src, err := os.ReadFile(vtrans.RepoRoot() + "/lib/others/bip39/bip39_test.go"); err == nil {
		vs := reBip.FindAllStringSubmatch(string(src), -1)
		for i, m := range vs {
			out = append(out, Case{Kind: "mnem", A: []string{m[1]}})
			out = append(out, Case{Kind: "entropy", Tag: "vector", A: []string{hx([]byte(m[2]))}})
			if i < r.N(4, len(vs)) {
				out = append(out, Case{Kind: "seed", A: []string{hx([]byte(m[2])), hx([]byte("TREZOR")), m[3]}})
			}
		}
		for _, m := range reBad.FindAllStringSubmatch(string(src), -1) {
			out = append(out, Case{Kind: "entropy", Tag: "bad-vector", A: []string{hx([]byte(m[1]))}})
		}
	}
	// BIP39 passphrases that are / are not in NFKD form: (as typed, NFKD form) - the second column is DATA from Unicode
	// 14 (python3 unicodedata.normalize('NFKD', s)); known finding bip39-passphrase-not-nfkd
	vm := hx([]byte("legal winner thank year wave sausage worth useful legal winner thank yellow"))
	for _, pr := range [][2]string{
		{"636166c3a9", "63616665cc81"},                       // "café" composed -> e + U+0301
		{"63616665cc81", "63616665cc81"},                     // already decomposed
		{"c3856e67737472c3b66d", "41cc8a6e677374726fcc886d"}, // "Ångström"
		{"efbdb6efac81", "e382ab6669"},                       // half-width katakana KA, ligature fi (compatibility mappings)
		{"c78620c2bd", "647acc8c2031e2818432"},               // U+01C6 dž, U+00BD one half
		{"ed959c", "e18492e185a1e186ab"},                     // Hangul syllable -> jamo
		{"e1ba9bcca3", "73cca3cc87"},                         // long s with dot above + dot below: reordering
		{"c39f", "c39f"},                                     // sharp s: unchanged by NFKD
		{"5452455a4f52", "5452455a4f52"},                     // TREZOR
	} {
		out = append(out, Case{Kind: "seednfkd", A: []string{vm, pr[0], pr[1]}})
	}
	// hand-made edges
	for _, l := range []int{0, 1, 12, 15, 16, 17, 20, 24, 28, 31, 32, 33, 36, 40, 64} {
		for _, fill := range []byte{0x00, 0xff, 0x80} {
			e := make([]byte, l)
			for i := range e {
				e[i] = fill
			}
			out = append(out, Case{Kind: "mnem", A: []string{hx(e)}})
		}
	}
	one := make([]byte, 32)
	one[31] = 1
	nm1 := new(big.Int).Sub(refN, big.NewInt(1)).FillBytes(make([]byte, 32))
	ff := make([]byte, 32)
	for i := range ff {
		ff[i] = 0xff
	}
	for _, ps := range [][2][]byte{{one, one}, {nm1, one}, {nm1, nm1}, {ff, ff}, {ff, one}, {one, new(big.Int).Sub(refN, big.NewInt(2)).FillBytes(make([]byte, 32))}, {make([]byte, 32), one}} {
		out = append(out, Case{Kind: "dnpriv", A: []string{hx(ps[0]), hx(ps[1])}})
	}
	// operands >= n ("IL >= n" of the property's quantifier; a parent key >= n is not refused by the code either)
	// with sums on both sides of n, 2n and 3n: one reduction step is not enough from 2n on
	nb := func(d int64) []byte { return new(big.Int).Add(refN, big.NewInt(d)).FillBytes(make([]byte, 32)) }
	for _, ps := range [][2][]byte{{nb(0), nb(0)}, {nb(1), nb(-1)}, {nb(-1), nb(1)}, {nb(3), nb(-4)}, {nb(-4), nb(3)}, {nb(9), nb(-2)},
		{nb(2), nb(11)}, {ff, nm1}, {nm1, ff}, {ff, nb(0)}, {nb(0), ff}, {ff, nb(5)}, {nb(0), one}, {one, nb(0)}, {nb(0), make([]byte, 32)}} {
		out = append(out, Case{Kind: "dnpriv", A: []string{hx(ps[0]), hx(ps[1])}})
	}
	G := refPub(one)
	out = append(out, Case{Kind: "dnpub", A: []string{hx(G), hx(one)}})                           // doubling
	out = append(out, Case{Kind: "dnpub", A: []string{hx(G), hx(make([]byte, 32))}})              // + 0·G
	out = append(out, Case{Kind: "dnpub", A: []string{hx(append([]byte{5}, G[1:]...)), hx(one)}}) // bad first byte
	out = append(out, Case{Kind: "dnpub", A: []string{hx(append([]byte{4}, G[1:]...)), hx(one)}})
	out = append(out, Case{Kind: "dnpub", A: []string{hx(G), hx(ff)}})
	// extended PUBLIC keys whose key bytes are no curve point — finding xpub-noncanonical-x (fixed): ByteCheck ignored
	// ParsePubkey's verdict and asked IsValid() of the point built from x mod p, so 02||(p+1) was imported, its Child(0)
	// had a key of 33 zero bytes (no error) and that child's own xpub string was refused. Witnesses: x = p+1 (02 and
	// 03), p+2, 2^256-1 and further x >= p with x mod p liftable; plus x >= p not liftable, x < p with x^3+7 a
	// non-residue (5), x = p, first bytes 00/04/05, for all six public versions; as xpub strings (parse), as
	// HDWallet values handed to Child, and as DeriveNextPublic operands.
	for _, bk := range badPubKeys() {
		for vi, ver := range privPrefixes {
			if vi > 0 && bk.tag != "x=p+1" {
				continue
			}
			x := &refXKey{version: refPubVersion[ver], depth: 1, child: 7, chain: make([]byte, 32), key: bk.key}
			out = append(out, Case{Kind: "parse", Tag: "xpub-" + bk.tag, A: []string{hx([]byte(x.String()))}})
			hw := &btc.HDWallet{Prefix: refPubVersion[ver], Depth: 1, I: 7, ChCode: make([]byte, 32), Key: bk.key}
			for _, ci := range []uint32{0, 1, 0x7fffffff} {
				out = append(out, Case{Kind: "child", Tag: "xpub-" + bk.tag, A: append(strings.Fields(wTok(hw)), fmt.Sprint(ci))})
			}
		}
		out = append(out, Case{Kind: "dnpub", Tag: bk.tag, A: []string{hx(bk.key), hx(one)}})
	}
	// the point at infinity, reached on purpose: G + (n-1)G = infinity (DeriveNextPublic must return the zero buffer, not
	// a key - BaseMultiplyAdd reports false there since the fix for C08's api-basemultiplyadd-identity); keys 0 and n
	// (NewPrivateAddr / DecodePrivateAddr must panic "PublicFromPrivate error", not hand out BaseMultiply's stale bytes)
	out = append(out, Case{Kind: "dnpub", Tag: "infinity", A: []string{hx(G), hx(nm1)}})
	out = append(out, Case{Kind: "wif", Tag: "key-0", A: []string{hx(make([]byte, 32)), "128", "1"}})
	out = append(out, Case{Kind: "wif", Tag: "key-n", A: []string{hx(nb(0)), "128", "1"}})
	out = append(out, Case{Kind: "wifdec", Tag: "key-0", A: []string{hx([]byte(refB58Check(append(append([]byte{0x80}, make([]byte, 32)...), 1))))}})
	out = append(out, Case{Kind: "wifdec", Tag: "key-n", A: []string{hx([]byte(refB58Check(append([]byte{0x80}, nb(0)...))))}})
	out = append(out, Case{Kind: "wif", Tag: "key-0-uncompressed", A: []string{hx(make([]byte, 32)), "239", "0"}})
	for _, kk := range [][]byte{make([]byte, 32), nb(0)} {
		hw := &btc.HDWallet{Prefix: btc.Private, ChCode: make([]byte, 32), Key: append([]byte{0}, kk...)}
		out = append(out, Case{Kind: "child", Tag: "priv-key-0-mod-n", A: append(strings.Fields(wTok(hw)), "0")})
		out = append(out, Case{Kind: "child", Tag: "priv-key-0-mod-n", A: append(strings.Fields(wTok(hw)), "2147483648")})
	}
	for _, v := range []int{0x80, 0xef, 0xb0, 0, 255} {
		out = append(out, Case{Kind: "wif", A: []string{hx(one), fmt.Sprint(v), "1"}})
		out = append(out, Case{Kind: "wif", A: []string{hx(nm1), fmt.Sprint(v), "0"}})
	}
	// witness of the fixed finding wif-flag-byte-unchecked: 80 || 00..01 || 00 with a valid checksum was imported as
	// the uncompressed key 1 (whose export is 5HpHagT65TZz...); plus flag bytes 02/ff and the testnet version
	out = append(out, Case{Kind: "wifdec", A: []string{hx([]byte("KwDiBf89QgGbjEhKnhXJuH7LrciVrZi3qYjgd9M7rFU73sMvhksF"))}})
	out = append(out, Case{Kind: "wifdec", A: []string{hx([]byte("5HpHagT65TZzG1PH3CSu63k8DbpvD8s5ip4nEB3kEsreAnchuDf"))}})
	for _, v := range []byte{0x80, 0xef} {
		for _, f := range []byte{0, 1, 2, 0xff} {
			out = append(out, Case{Kind: "wifdec", A: []string{hx([]byte(refB58Check(append(append([]byte{v}, nm1...), f))))}})
		}
	}
	// wallet corpus: the configurations of wallet_test.go + boundary ones
	pw := hx([]byte("qwerty12345"))
	for _, w := range []walletCase{
		{Type: 3, KeyCnt: 3, AType: "p2kh", File: pw, HdPath: "m/0'", HdSubs: 1},
		{Type: 3, KeyCnt: 2, AType: "p2kh", File: pw, HdPath: "m/0'", HdSubs: 1, Testnet: true},
		{Type: 4, KeyCnt: 2, AType: "p2kh", File: pw, HdPath: "m/0'", HdSubs: 1},
		{Type: 4, KeyCnt: 2, AType: "p2kh", File: pw, HdPath: "m/0/0", HdSubs: 2, Twice: true},
		{Type: 4, KeyCnt: 2, AType: "p2kh", File: pw, HdPath: "m/0/0", HdSubs: 1, Bip39: 12},
		{Type: 4, KeyCnt: 1, AType: "p2kh", File: pw, HdPath: "m/0/0", HdSubs: 1, Bip39: 24},
		{Type: 4, KeyCnt: 2, AType: "bech32", File: pw, HdPath: "m/84'/0'/0'/0/0", HdSubs: 2, Bip39: 12},
		{Type: 4, KeyCnt: 2, AType: "segwit", File: pw, HdPath: "m/49'/0'/0'/0/0", HdSubs: 2, Bip39: 15, Ltc: true},
		{Type: 4, KeyCnt: 2, AType: "tap", File: pw, HdPath: "m/86'/1'/0'/0/0", HdSubs: 1, Bip39: 18, Testnet: true},
		{Type: 4, KeyCnt: 2, AType: "pks", File: pw, HdPath: "m/44'/0'/0'/0", HdSubs: 1, Seed: hx([]byte("pre fix"))},
		{Type: 4, KeyCnt: 2, AType: "p2kh", File: pw, HdPath: "m/0/2147483646'", HdSubs: 1},
		{Type: 4, KeyCnt: 1, AType: "p2kh", File: hx([]byte("legal winner thank year wave sausage worth useful legal winner thank yellow")), HdPath: "m/0'/0", HdSubs: 1, Bip39: -1},
		{Type: 4, KeyCnt: 1, AType: "p2kh", File: hx([]byte("Legal, WINNER thank\tyear wave sausage worth useful legal winner thank yellow\n")), HdPath: "m/0'/0", HdSubs: 1, Bip39: -1},
		{Type: 4, KeyCnt: 1, AType: "p2kh", File: hx([]byte("legal winner thank year wave sausage worth useful legal winner thank year")), HdPath: "m/0'/0", HdSubs: 1, Bip39: -1},
		// observation (not a finding): the key index runs past 2^31-1 and silently turns hardened / wraps to 0
		{Type: 4, KeyCnt: 2, AType: "p2kh", File: pw, HdPath: "m/0/2147483647", HdSubs: 1},
		{Type: 4, KeyCnt: 2, AType: "p2kh", File: pw, HdPath: "m/0/2147483647'", HdSubs: 1},
		{Type: 4, KeyCnt: 1, AType: "p2kh", File: pw, HdPath: "m/2147483647'/0", HdSubs: 2},
		{Type: 4, KeyCnt: 1, AType: "p2kh", File: pw, HdPath: "m", HdSubs: 1},
		{Type: 4, KeyCnt: 1, AType: "p2kh", File: pw, HdPath: "m/2147483648", HdSubs: 1},
		{Type: 4, KeyCnt: 1, AType: "p2kh", File: pw, HdPath: "m/-0/+7'", HdSubs: 1},
		{Type: 4, KeyCnt: 1, AType: "p2kh", File: pw, HdPath: "m/0''", HdSubs: 1},
		{Type: 2, KeyCnt: 1, AType: "p2kh", File: pw, HdPath: "m/0'", HdSubs: 1},
		{Type: 3, KeyCnt: 2, AType: "p2kh", File: pw, HdPath: "m/0'", HdSubs: 1, Scrypt: 2},
		{Type: 3, KeyCnt: 2, AType: "tap", File: pw, HdPath: "m/0'", HdSubs: 1},
		{Type: 3, KeyCnt: 2, AType: "segwit", File: pw, HdPath: "m/0'", HdSubs: 1, Testnet: true},
		{Type: 3, KeyCnt: 1, AType: "bech32", File: pw, HdPath: "m/0'", HdSubs: 1, Ltc: true},
		// the password is typed (no seed file); with and without a seed= prefix; saved (y), declined (n), -1, -xprv, -p;
		// re-entered differently; nothing typed. After "y" the next run reads the saved file: same keys.
		{Type: 4, KeyCnt: 2, AType: "p2kh", File: pw, HdPath: "m/0'/0", HdSubs: 1, Seed: hx([]byte("cfg-PREFIX:")), Ask: 1},
		{Type: 4, KeyCnt: 2, AType: "bech32", File: pw, HdPath: "m/84'/0'/0'/0/0", HdSubs: 2, Bip39: 12, Seed: hx([]byte("S")), Ask: 2, Term: "0d0a"},
		{Type: 3, KeyCnt: 2, AType: "p2kh", File: pw, HdPath: "m/0'", HdSubs: 1, Seed: hx([]byte("pre fix")), Ask: 1, Term: "090a"},
		{Type: 4, KeyCnt: 1, AType: "segwit", File: pw, HdPath: "m/0'/0", HdSubs: 1, Seed: hx([]byte("zz")), Ask: 3},
		{Type: 4, KeyCnt: 1, AType: "tap", File: pw, HdPath: "m/0'/0", HdSubs: 1, Seed: hx([]byte("zz")), Ask: 4, Testnet: true},
		{Type: 4, KeyCnt: 1, AType: "p2kh", File: pw, HdPath: "m/0'/0", HdSubs: 1, Seed: hx([]byte("zz")), Ask: 5},
		{Type: 4, KeyCnt: 1, AType: "p2kh", File: pw, HdPath: "m/0'/0", HdSubs: 1, Ask: 1},
		{Type: 4, KeyCnt: 1, AType: "p2kh", File: pw, HdPath: "m/0'/0", HdSubs: 1, Seed: hx([]byte("zz")), Ask: 1, Second: hx([]byte("qwerty12346"))},
		{Type: 4, KeyCnt: 1, AType: "p2kh", File: "", HdPath: "m/0'/0", HdSubs: 1, Seed: hx([]byte("zz")), Ask: 1},
		{Type: 4, KeyCnt: 1, AType: "p2kh", File: pw, HdPath: "m/0''", HdSubs: 1, Seed: hx([]byte("zz")), Ask: 1},
		{Type: 4, KeyCnt: 1, AType: "p2kh", File: pw, HdPath: "m/0'/0", HdSubs: 1, Seed: hx([]byte("zz")), Ask: 1, Scrypt: 1, Bip39: 15},
		{Type: 3, KeyCnt: 1, AType: "p2kh", File: hx(append([]byte{0xff, 0x00, 0x80, 0xc3, 0xa9, 0x0a}, make([]byte, 1100)...)), HdPath: "m/0'", HdSubs: 1},
	} {
		w := w
		out = append(out, Case{Kind: "wallet", Tag: "corpus", W: &w})
	}
	return out
}

func genPrim(g *vlib.Rng, n int) []Case {
	var out []Case
	lens := []int{0, 1, 55, 56, 63, 64, 65, 111, 112, 113, 127, 128, 129, 239, 240, 256, 300}
	for i := 0; i < n; i++ {
		l := lens[g.Intn(len(lens))]
		if g.Bool() {
			l = g.Intn(300)
		}
		switch g.Intn(4) {
		case 0:
			out = append(out, Case{Kind: "prim", A: []string{"sha512", hx(g.Bytes(l))}})
		case 1:
			out = append(out, Case{Kind: "prim", A: []string{"hmac512", hx(g.Bytes(lens[g.Intn(len(lens))])), hx(g.Bytes(l))}})
		case 2:
			out = append(out, Case{Kind: "prim", A: []string{"sha256", hx(g.Bytes(l))}})
		case 3:
			out = append(out, Case{Kind: "prim", A: []string{"h160", hx(g.Bytes(l))}})
		}
	}
	out = append(out, Case{Kind: "prim", A: []string{"pbkdf2", hx(g.Bytes(g.Intn(200))), hx(g.Bytes(g.Intn(40)))}})
	return out
}

func mutateStr(g *vlib.Rng, s string) string {
	b := []byte(s)
	if len(b) == 0 {
		return "1"
	}
	switch g.Intn(5) {
	case 0:
		b[g.Intn(len(b))] = refB58[g.Intn(58)]
	case 1:
		b = b[:g.Intn(len(b))]
	case 2:
		b = append(b, refB58[g.Intn(58)])
	case 3:
		i := g.Intn(len(b))
		b[i] = "0OIl+/ "[g.Intn(7)]
	case 4:
		i, j := g.Intn(len(b)), g.Intn(len(b))
		b[i], b[j] = b[j], b[i]
	}
	return string(b)
}

func genParseWif(g *vlib.Rng, n int) []Case {
	var out []Case
	for i := 0; i < n; i++ {
		switch g.Intn(6) {
		case 0, 1: // extended keys with arbitrary (also unknown) prefixes, re-checksummed
			x := &refXKey{version: privPrefixes[g.Intn(6)], depth: byte(g.Intn(256)), child: uint32(g.U64()), chain: g.Bytes(32), key: append([]byte{0}, g.Bytes(32)...)}
			copy(x.fp[:], g.Bytes(4))
			switch g.Intn(5) {
			case 0:
				x = refNeuter(x)
			case 1:
				x.version = uint32(g.U64())
			case 2: // public prefix with a first byte that is not 02/03 or an x that is no curve point (x < p)
				x.version = refPubVersion[x.version]
				x.key = append([]byte{byte(g.Pick(2, 3, 4, 0))}, g.Bytes(32)...)
				x.key[1] &= 0x7f
			case 3: // public prefix, x >= p (liftable mod p or not) or x < p off the curve; sometimes a real point
				x.version = refPubVersion[x.version]
				if g.Chance(1, 4) {
					x.key = refPub(g.Bytes(32))
				} else {
					x.key = randBadPubKey(g)
				}
			}
			s := x.String()
			if g.Chance(1, 3) {
				s = mutateStr(g, s)
			}
			out = append(out, Case{Kind: "parse", A: []string{hx([]byte(s))}})
		case 2, 3:
			key := g.Bytes(32)
			if g.Chance(1, 4) {
				copy(key, make([]byte, 1+g.Intn(3)))
			}
			out = append(out, Case{Kind: "wif", A: []string{hx(key), fmt.Sprint(g.Pick(0x80, 0xef, 0xb0, g.Intn(256))), b2s(g.Chance(3, 4))}})
		case 4, 5:
			pl := append([]byte{byte(g.Pick(0x80, 0xef, 0xb0))}, g.Bytes(32)...)
			switch g.Intn(5) {
			case 0:
				pl = append(pl, 1)
			case 1:
				pl = append(pl, byte(g.Intn(256)))
			case 2:
				pl = append(pl, 1, 1)
			case 3:
				pl = pl[:len(pl)-1]
			}
			s := refB58Check(pl)
			if g.Chance(1, 3) {
				s = mutateStr(g, s)
			}
			out = append(out, Case{Kind: "wifdec", A: []string{hx([]byte(s))}})
		}
	}
	return out
}

func genBip39(g *vlib.Rng, n int) []Case {
	var out []Case
	words := bip39.GetWordList()
	for i := 0; i < n; i++ {
		l := g.Pick(16, 20, 24, 28, 32)
		e := g.Bytes(l)
		if g.Chance(1, 5) {
			copy(e, make([]byte, 1+g.Intn(3)))
		}
		switch g.Intn(8) {
		case 0:
			out = append(out, Case{Kind: "mnem", A: []string{hx(g.Bytes(g.Intn(40)))}})
		case 1, 2:
			out = append(out, Case{Kind: "mnem", A: []string{hx(e)}})
		default:
			m, _ := refMnemonic(words, e)
			ws := strings.Split(m, " ")
			tag := "valid"
			switch g.Intn(9) {
			case 0: // another last word with the same entropy bits (only the checksum bits differ)
				tag = "checksum-sibling"
				idx := 0
				for j, x := range words {
					if x == ws[len(ws)-1] {
						idx = j
					}
				}
				cs := uint(l / 4)
				idx = idx&^(1<<cs-1) | g.Intn(1<<cs)
				ws[len(ws)-1] = words[idx]
			case 1:
				tag = "word-replaced"
				ws[g.Intn(len(ws))] = words[g.Intn(2048)]
			case 2:
				tag = "words-swapped"
				a, b := g.Intn(len(ws)), g.Intn(len(ws))
				ws[a], ws[b] = ws[b], ws[a]
			case 3:
				tag = "word-count"
				if g.Bool() {
					ws = ws[:g.Intn(len(ws))]
				} else {
					ws = append(ws, words[g.Intn(2048)])
				}
			case 4:
				tag = "unknown-word"
				ws[g.Intn(len(ws))] = []string{"abandonn", "zo", "", "Zoo", "about.", "ab0ut"}[g.Intn(6)]
			}
			s := strings.Join(ws, " ")
			if g.Chance(1, 6) {
				tag += "+whitespace"
				s = strings.Replace(s, " ", []string{"  ", "\t", "\n", " \r\n"}[g.Intn(4)], 1+g.Intn(2))
				if g.Bool() {
					s = " " + s + "\n"
				}
			}
			out = append(out, Case{Kind: "entropy", Tag: tag, A: []string{hx([]byte(s))}})
		}
	}
	return out
}

func genPath(g *vlib.Rng) string {
	d := 1 + g.Intn(6)
	p := "m"
	for i := 0; i < d; i++ {
		var v int
		switch g.Intn(6) {
		case 0:
			v = g.Pick(0, 1, 2)
		case 1:
			v = g.Pick(44, 49, 84, 86)
		case 2:
			v = 0x7fffffff - 8 - g.Intn(100) // near the top, but leaving room for keycnt / hdsubs
		case 3:
			v = 1000000000
		default:
			v = int(g.U64() & 0x3fffffff)
		}
		p += fmt.Sprint("/", v)
		if g.Bool() {
			p += "'"
		}
	}
	return p
}

func genWallets(g *vlib.Rng, n int) []Case {
	var out []Case
	words := bip39.GetWordList()
	for i := 0; i < n; i++ {
		w := &walletCase{Type: g.Pick(3, 4, 4, 4), HdPath: "m/0'", HdSubs: 1, KeyCnt: 1 + g.Intn(3), AType: []string{"p2kh", "segwit", "bech32", "tap", "pks"}[g.Intn(5)]}
		w.Testnet = g.Chance(1, 3)
		w.Ltc = g.Chance(1, 5)
		w.Flags = int(g.U64() & 0x1ff)
		w.Stdin = g.Chance(1, 4)
		w.Twice = g.Chance(1, 8)
		pl := 1 + g.Intn(40)
		pass := g.Bytes(pl)
		switch g.Intn(4) {
		case 0: // printable
			for j := range pass {
				pass[j] = byte(32 + int(pass[j])%95)
			}
		case 1: // with trailing newline as an editor leaves it
			for j := range pass {
				pass[j] = byte(32 + int(pass[j])%95)
			}
			pass = append(pass, '\n')
		}
		if !w.Stdin && g.Chance(1, 25) {
			pass = append(pass, g.Bytes(1000+g.Intn(200))...) // around the 1024-byte read of the seed file
		}
		if g.Chance(1, 4) {
			s := g.Bytes(1 + g.Intn(12))
			for j := range s { // no line breaks, no leading/trailing blanks (the config parser trims them)
				if s[j] == '\n' || s[j] == '\r' || s[j] == ' ' || s[j] == '\t' {
					s[j] = 'x'
				}
			}
			w.Seed = hx(s)
		}
		if w.Type == 4 {
			w.HdPath = genPath(g)
			w.HdSubs = g.Pick(1, 1, 2, 3)
			w.Bip39 = g.Pick(0, 0, 0, 12, 15, 18, 21, 24, -1)
			if g.Chance(1, 12) {
				w.HdPath = []string{"m", "m/", "x/0", "m//1", "m/a", "m/-1", "m/2147483648", "m/0''", "m/+5/-0'", "m/0'/", "M/0", "m/1e3", "m/0x10", "m/ 1", "m/99999999999999999999"}[g.Intn(15)]
			}
			if w.Bip39 == -1 {
				w.Seed = ""
				e := g.Bytes(g.Pick(16, 20, 24, 28, 32))
				m, _ := refMnemonic(words, e)
				ws := strings.Split(m, " ")
				if g.Chance(1, 5) {
					ws[g.Intn(len(ws))] = words[g.Intn(2048)]
				}
				sep := []string{" ", "  ", ", ", "\n", " 1. ", "-"}[g.Intn(6)]
				m = strings.Join(ws, sep)
				if g.Chance(1, 3) {
					k := g.Intn(len(m))
					m = strings.ToUpper(m[:k]) + m[k:]
				}
				if g.Bool() {
					m += "\n"
				}
				pass = []byte(m)
			}
		} else if g.Chance(1, 10) {
			w.Bip39 = 12
		}
		if g.Chance(1, 10) && w.Bip39 != -1 {
			w.Scrypt = 1 + g.Intn(r.N(4, 10))
		}
		if g.Chance(1, 40) {
			w.Type = g.Pick(1, 2)
		}
		if w.Stdin && len(pass) > 1024 {
			pass = pass[:1024]
		}
		if g.Chance(1, 5) {
			// the password is TYPED (no seed file, no -stdin): one line, so no line feed inside, and no trailing
			// control byte (sys.getline drops those - they come back as the typed terminator instead)
			w.Stdin = false
			w.Ask = g.Pick(1, 1, 2, 3, 4, 5)
			if w.Ask == 4 && w.Type != 4 {
				w.Ask = 1
			}
			if len(pass) > 200 {
				pass = pass[:200]
			}
			for j := range pass {
				if pass[j] == '\n' {
					pass[j] = ' '
				}
			}
			for len(pass) > 0 && pass[len(pass)-1] < ' ' {
				pass = pass[:len(pass)-1]
			}
			if len(pass) == 0 && !g.Chance(1, 3) {
				pass = []byte("x")
			}
			w.Term = []string{"0a", "0a", "0d0a", "090a", "000a", "1b0d0a"}[g.Intn(6)]
			if w.Ask != 2 && g.Chance(1, 8) {
				o := append([]byte{}, pass...)
				switch g.Intn(3) {
				case 0:
					o = append(o, '!')
				case 1:
					if len(o) > 0 {
						o[g.Intn(len(o))] ^= 0x20
					}
				case 2:
					o = append([]byte(" "), o...)
				}
				w.Second = hx(o)
			}
			if w.Seed == "" && w.Bip39 != -1 && g.Chance(3, 4) {
				sd := g.Bytes(1 + g.Intn(10))
				for j := range sd {
					sd[j] = byte(33 + int(sd[j])%94)
				}
				w.Seed = hx(sd)
			}
		}
		w.File = hx(pass)
		out = append(out, Case{Kind: "wallet", W: w})
	}
	return out
}

func main() {
	r = vlib.NewRun("C14")
	script.DBG_ERR = false // the interpreter's diagnostics of a failing input (sessions verify what the wallet signed)
	r.Assume = []string{
		"SHA-256, SHA-512, RIPEMD-160, HMAC, PBKDF2 are modelled, not verified (Lean implementations compared with Go's on every run); scrypt is opaque (computed by the repository's package and handed to the model)",
		"the elliptic curve in model and theorems is the reference curve of Base/Secp.lean; gocoin's limb arithmetic is tied to it by this run only (and is the subject of C08)",
		"the reference-curve facts used by pub_commutes / ckd_pub_spec / derive_is_bip32 ((a+k mod n)G = aG + kG, parse∘serP = id on curve points, jG finite for 0<j<n) are no longer assumed: they are derived in Proofs/C14Curve.lean from C03's reference_curve_group_law / generator_order / parsePubkey_ser33 (Mathlib's Weierstrass group law; p, n prime by C08_Primes); serialize/WIF round trips import C15's Base58 decode∘encode = id",
		"outside the model (answer `outside`): private EXTENDED keys ≡ 0 mod n (PublicFromPrivate returns nil and Child / Pub / PubAddr go on with the nil key) - the real code is RUN there all the same; the point at infinity is not serialised any more (fix for C08's api-*-identity findings): NewPrivateAddr / DecodePrivateAddr of a key ≡ 0 mod n panic, public Child with I_L·G + P = ∞ panics, DeriveNextPublic returns the zero buffer - code and model alike (corpus key-0 / key-n / infinity, keys wif-key-zero-mod-n-accepted, derive-next-public-infinity). In the outside region the code is judged by the BIP32 reference wherever that defines a result or demands a refusal; only the junk value is uncompared. Public keys with x ≥ p or x off the curve are NOT outside any more: code (since fix 54b4684a/e70a8ce2) and model refuse them / panic, corpus badPubKeys",
		"sessions judge a transaction signature with the repository's own interpreter (script.VerifyTxScript, standard flags - the subject of C01/C03) plus an independent comparison of the public key the input carries; message / hash signatures are verified with an independent math/big ECDSA. The store model takes the list of functions that write stored keys, and the template dispatch of pkscr_to_key_idx, from the source (Gen/WalletKeyStoreFacts.lean: a syntactic, conservative analysis - names, aliases, helper parameters and results to a fixpoint; key bytes or a record handed to any callee outside a fixed reader allow-list count as written). NOT seen by those facts, guarded by the sessions only: writes inside an allow-listed reader or in another package (lib/btc, lib/secp256k1), reflection / unsafe, key bytes passed through channels, maps, package variables or non-record struct fields, goroutines, and the conditions inside the lookup loops (only their first-match shape is checked)",
		"not covered: a typed password in a combined -sign .. -send run (asked for twice), P2PK / multisig outputs and foreign-form ADDRESSES given to -sign in sessions, non-ASCII white space in mnemonics, typed passwords longer than one 1024-byte terminal read, .others imports inside SESSIONS (the wallet cases import compressed and uncompressed keys and judge every line of the list and -dump <address> for every line; the Lean model describes the derived keys only, the imported lines are judged by the reference), the -p39 prompt (passphrases at the API level only; NFKD: known finding bip39-passphrase-not-nfkd), -encrypt/-decrypt",
	}
	r.Extra["observations"] = []string{
		"HDWallet.Child never skips an index: BIP32 says I_L >= n or k_i = 0 makes index i invalid; Child reduces mod n and returns a key (theorem child_priv_never_skips; probability about 2^-127 per index; ckd_priv_spec / ckd_pub_spec are stated under exactly the guard 'CKD is defined')",
		"make_wallet adds the key number to hdpath_last in uint32 arithmetic: a last path element within keycnt of 2^31-1 silently turns hardened (non-hardened last) or wraps to index 0 (hardened last) while the label keeps counting (m/0/2147483648); prvidx + hdsub likewise. The wallet accepts such configurations, the model mirrors them (corpus cases), BIP32 has no such path; histogram key wallet-accepted-outside-spec",
		"btc.DeriveNextPublic ignores BaseMultiplyAdd's verdict: for a key that does not parse and for a sum equal to the point at infinity it returns the zero-filled buffer without an error (mirrored by the model; callers must check the result themselves)",
		"bip39.MnemonicToByteArray splits on single spaces while its validity check uses strings.Fields: with tabs / double spaces it indexes the word map with \"\" (index 0) and reports a checksum error for a sentence EntropyFromMnemonic accepts; the wallet normalises white space before calling it",
		"wallet -stdin with more than 1024 password bytes panics in getpass (pass[:n] on a [1024]byte array); the seed-file path reads at most 1024 bytes",
		"atype=tap lists OP_1 <x-only internal key> without the BIP341/BIP86 tweak (gocoin's own convention; outside this property)",
		"StringWallet imports xprv strings whose key byte 0 is not 00 or whose scalar is 0 / >= n (BIP32 test vector 5 calls them invalid); the model mirrors it (histogram parse-ok-xprv-key-outside-1..n-1)",
		"make_wallet() never resets keys[] / hd_wallet_xtra: in a combined run `wallet -sign A -msg M -send X=1` main() calls it twice and every record (and every '# ...' line) is in the list twice; the first-match lookups keep answering with the first copy (theorem session_signs_with_listed_key), and with -l added the same run prints and writes the whole list twice (histogram session-list-printed-2x; deterministic, every line still the address of its key)",
		"DeriveNextPublic still returns the zero-filled buffer for an operand that is no curve point (only HDWallet.Child was changed to panic); the harness requires that what comes back does not read as a public key",
	}
	if err := buildWallet(); err != nil {
		fmt.Fprintln(os.Stderr, err)
		r.TieFail("wallet-build", "the wallet binary does not build: "+err.Error(), nil)
		r.Finish("none", "wallet binary could not be built")
	}
	defer os.RemoveAll(walletTmp)
	if r.Replay != "" {
		b, err := os.ReadFile(r.Replay)
		var doc struct {
			Replay Case `json:"replay"`
		}
		if err != nil || json.Unmarshal(b, &doc) != nil || doc.Replay.Kind == "" {
			fmt.Fprintln(os.Stderr, "cannot read replay file", r.Replay)
			os.RemoveAll(walletTmp)
			os.Exit(3)
		}
		runCases([]Case{doc.Replay})
		os.RemoveAll(walletTmp)
		r.Finish("replay of one recorded case", "replay")
	}
	g := r.Rng
	var cases []Case
	cases = append(cases, corpusCases(g.Fork())...)
	cases = append(cases, genPrim(g.Fork(), r.N(120, 3000))...)
	gm := g.Fork()
	for i := 0; i < r.N(20, 300); i++ {
		cases = append(cases, Case{Kind: "master", A: []string{hx(gm.Bytes(gm.Pick(0, 1, 16, 32, 64, gm.Intn(200)))), b2s(gm.Bool())}})
	}
	cases = append(cases, genChildCases(g.Fork(), r.N(260, 6000))...)
	gd := g.Fork()
	for i := 0; i < r.N(60, 1500); i++ {
		p, s := gd.Bytes(32), gd.Bytes(32)
		if gd.Chance(1, 3) { // sums around n: wrap-around and leading zero bytes
			t := new(big.Int).Sub(refN, new(big.Int).SetBytes(p))
			t.Add(t, big.NewInt(int64(gd.Intn(5)-2))).Mod(t, new(big.Int).Lsh(big.NewInt(1), 256))
			s = t.FillBytes(make([]byte, 32))
		}
		if gd.Chance(1, 4) {
			// the region above n: IL / key >= n (2^256 - n is about 2^128.3, so random 256-bit values never get there)
			// and sums around 2n, where (p+s) mod n needs two subtractions
			two256 := new(big.Int).Lsh(big.NewInt(1), 256)
			top := func() *big.Int { // uniform-ish in [n-4, 2^256)
				span := new(big.Int).Sub(two256, refN)
				v := new(big.Int).Mod(new(big.Int).SetBytes(gd.Bytes(20)), span)
				if gd.Chance(1, 3) {
					v = big.NewInt(int64(gd.Intn(9)))
				} else if gd.Chance(1, 3) {
					v.Sub(span, big.NewInt(int64(1+gd.Intn(9))))
				}
				return v.Add(v, refN).Sub(v, big.NewInt(4))
			}
			pv := top()
			sv := top()
			if gd.Chance(1, 2) { // sum within 2 of 2n when that fits into 256 bits
				t := new(big.Int).Lsh(refN, 1)
				t.Sub(t, pv).Add(t, big.NewInt(int64(gd.Intn(5)-2)))
				if t.Sign() >= 0 && t.Cmp(two256) < 0 {
					sv = t
				}
			}
			if pv.Cmp(two256) >= 0 {
				pv.Sub(two256, big.NewInt(1))
			}
			if sv.Cmp(two256) >= 0 {
				sv.Sub(two256, big.NewInt(1))
			}
			p, s = pv.FillBytes(make([]byte, 32)), sv.FillBytes(make([]byte, 32))
			if gd.Bool() {
				p, s = s, p
			}
			cases = append(cases, Case{Kind: "dnpriv", A: []string{hx(p), hx(s)}})
			continue
		}
		if gd.Chance(1, 8) { // operands that are no curve point (x >= p, off the curve): as DeriveNextPublic input and as xpub parent
			bk := randBadPubKey(gd)
			cases = append(cases, Case{Kind: "dnpub", Tag: "bad-point", A: []string{hx(bk), hx(s)}})
			hw := &btc.HDWallet{Prefix: refPubVersion[privPrefixes[gd.Intn(6)]], Depth: byte(gd.Intn(256)), I: uint32(gd.U64()), ChCode: gd.Bytes(32), Key: bk}
			cases = append(cases, Case{Kind: "child", Tag: "bad-point", A: append(strings.Fields(wTok(hw)), fmt.Sprint(edgeIndex(gd)&0x7fffffff))})
		} else if gd.Chance(1, 3) {
			cases = append(cases, Case{Kind: "dnpub", A: []string{hx(refPub(p)), hx(s)}})
		} else {
			cases = append(cases, Case{Kind: "dnpriv", A: []string{hx(p), hx(s)}})
		}
	}
	cases = append(cases, genParseWif(g.Fork(), r.N(200, 5000))...)
	cases = append(cases, genBip39(g.Fork(), r.N(300, 6000))...)
	gs := g.Fork()
	for i := 0; i < r.N(6, 150); i++ {
		m, _ := refMnemonic(bip39.GetWordList(), gs.Bytes(gs.Pick(16, 20, 24, 28, 32)))
		pw := gs.Bytes(gs.Intn(12))
		cases = append(cases, Case{Kind: "seed", A: []string{hx([]byte(m)), hx(pw)}})
	}
	cases = append(cases, genWallets(g.Fork(), r.N(70, 900))...)
	// sessions: one invocation doing several things with its key store (-sign … together with -send / -raw / -l)
	cases = append(cases, corpusSessions()...)
	cases = append(cases, genSessions(g.Fork(), r.N(40, 400))...)
	// input classes added after the existing streams (their forks leave the streams above as they were): the -stdin
	// password in several writes, keys imported from .others, seed= prefixes with a second generation in one process
	cases = append(cases, corpusStdinChunked()...)
	cases = append(cases, genStdinChunked(g.Fork(), r.N(10, 120))...)
	cases = append(cases, corpusWalletsOthers()...)
	cases = append(cases, genWalletsOthers(g.Fork(), r.N(12, 150))...)
	cases = append(cases, corpusSessionsPrefix()...)
	cases = append(cases, genSessionsPrefix(g.Fork(), r.N(10, 120))...)
	for _, c := range cases {
		if c.Kind == "wallet" || c.Kind == "child" || c.Kind == "entropy" {
			r.Sample(c)
		}
		if c.Kind == "wallet" && c.Tag == "" {
			break
		}
	}
	runCases(cases)
	os.RemoveAll(walletTmp)
	r.Finish("corpus (BIP32 vectors 1/2 and BIP39 vectors read from the repository's tests, hand-made boundaries) + seeded generators: HD walks over 6 private prefixes and their public counterparts with edge indexes; extended-key / WIF strings valid and mutated; BIP39 entropy of every size, mnemonics valid / checksum siblings / replaced / swapped / wrong count / unknown word / odd white space; wallet binary over types 3/4, paths of depth 1..6, hdsubs 1..3, bip39 0/12..24/-1, 5 address types, testnet/litecoin, seed= prefix, non-ASCII and >1024-byte passwords, -stdin (also with the password arriving in 2..4 writes, the next one only after the wallet has read the previous one), keys imported from .others (compressed / uncompressed / labelled / non-key lines, in front of the derived keys), scrypt; SESSIONS of the wallet binary (one invocation doing several things with its key store): configuration x [-sign <listed or P2KH address of key i> -msg/-hash] x [nothing | -send | -raw | -l] x balance folders paying listed keys in the P2PKH / P2SH-P2WPKH / P2WPKH / P2TR forms x -rfc6979, litecoin included, plus seed= prefixes of 1..70 (corpus: up to 90) bytes with short and ordinary passwords in runs that generate the wallet twice (-sign .. -send .. -l). A case is distinct by its full input.",
		"Lean model (HD.lean, Bip39.lean, WalletKeys.lean) vs btc.HDWallet / PrivateAddr / bip39 API in process and vs the real wallet binary (wallet.txt, -dump *, -xprv, -words), plus the property predicate evaluated on the real output against an independent math/big BIP32/BIP39 reference: keys = CKDpriv along the path, CKDpub∘N = N∘CKDpriv, listed address = address of the dumped key, WIF / xprv / xpub re-import, -dump <address> returns the listed key, two runs identical; sessions: the message signature recovers (independent ECDSA) to the key of the address given to -sign, every input of the transaction written later in the same run carries the public key of the listed address it spends from and verifies under the real interpreter, a list printed in a combined run is the reference list once per make_wallet call, and the store model (Model/WalletKeysStore.lean, oracle op session) names for every operation key bytes that belong to the public key in the real signature.")
}
