package main

import (
	"bytes"
	"crypto/sha256"
	"fmt"
	"os"
	"os/exec"
	"path/filepath"
	"regexp"
	"strconv"
	"strings"

	"github.com/piotrnar/gocoin/lib/btc"
	"github.com/piotrnar/gocoin/lib/others/bip39"
	"github.com/piotrnar/gocoin/lib/others/scrypt"
	"verif/vlib"
	"verif/vtrans"
)

type walletCase struct {
	Type    int        `json:"type"`
	HdPath  string     `json:"hdpath"`
	Bip39   int        `json:"bip39"`
	Scrypt  int        `json:"scrypt"`
	HdSubs  int        `json:"hdsubs"`
	KeyCnt  int        `json:"keycnt"`
	Testnet bool       `json:"testnet"`
	Ltc     bool       `json:"ltc"`
	AType   string     `json:"atype"`
	Seed    string     `json:"seed"`             // hex of the `seed=` config value
	File    string     `json:"file"`             // hex of the .secret file / stdin
	Stdin   bool       `json:"stdin"`            // password through -stdin instead of .secret
	Flags   int        `json:"flags"`            // bit mask: option i goes on the command line instead of wallet.cfg
	Twice   bool       `json:"twice"`            // run -l a second time and compare
	Ask     int        `json:"ask,omitempty"`    // != 0: no seed file, File is TYPED at the prompts (see typed.go)
	Term    string     `json:"term,omitempty"`   // hex of the line terminator typed after the password (default 0a)
	Second  string     `json:"second,omitempty"` // hex: typed at the re-enter prompt instead of the password (mismatch)
	Chunks  []int      `json:"chunks,omitempty"` // -stdin: offsets at which the producer stops writing until the wallet has read (feed.go)
	Others  []otherKey `json:"others,omitempty"` // lines of the .others file: imported keys, in front of the derived ones (feed.go)
}

var walletBin, walletTmp string

func buildWallet() error {
	var err error
	walletTmp, err = os.MkdirTemp("", "vc14")
	if err != nil {
		return err
	}
	walletBin = filepath.Join(walletTmp, "wallet")
	cmd := exec.Command("go", "build", "-o", walletBin, ".")
	cmd.Dir = vtrans.RepoRoot() + "/wallet"
	cmd.Env = append(os.Environ(), "GOFLAGS=-mod=mod", "GOPROXY=off", "GOSUMDB=off", "GOTOOLCHAIN=local")
	out, err := cmd.CombinedOutput()
	if err != nil {
		return fmt.Errorf("go build wallet: %v\n%s", err, out)
	}
	return nil
}

type walRun struct {
	stdout, stderr string
	code           int
}

func (w *walletCase) args() (cfg string, args []string) {
	var sb strings.Builder
	opt := func(bit int, key, flag, val string) {
		if w.Flags&(1<<uint(bit)) != 0 && flag != "" {
			args = append(args, "-"+flag+"="+val)
		} else {
			fmt.Fprintf(&sb, "%s=%s\n", key, val)
		}
	}
	opt(0, "type", "type", strconv.Itoa(w.Type))
	if w.Type == 4 || w.HdPath != "m/0'" {
		opt(1, "hdpath", "hdpath", w.HdPath)
	}
	if w.Bip39 != 0 {
		opt(2, "bip39", "bip39", strconv.Itoa(w.Bip39))
	}
	if w.Scrypt != 0 {
		opt(3, "scrypt", "scrypt", strconv.Itoa(w.Scrypt))
	}
	if w.HdSubs != 1 {
		opt(4, "hdsubs", "hdsubs", strconv.Itoa(w.HdSubs))
	}
	opt(5, "keycnt", "n", strconv.Itoa(w.KeyCnt))
	if w.Testnet {
		opt(6, "testnet", "t", "true")
	}
	if w.Ltc {
		opt(7, "litecoin", "ltc", "true")
	}
	opt(8, "atype", "atype", w.AType)
	if s := unhx(w.Seed); len(s) > 0 {
		fmt.Fprintf(&sb, "seed=%s\n", s)
	}
	return sb.String(), args
}

func runWallet(dir string, w *walletCase, extra ...string) walRun {
	_, args := w.args()
	args = append(args, extra...)
	if w.Stdin {
		args = append(args, "-stdin")
	}
	if w.Stdin && len(w.Chunks) > 0 {
		return runWalletChunked(dir, w, args)
	}
	cmd := exec.Command(walletBin, args...)
	cmd.Dir = dir
	if w.Stdin {
		cmd.Stdin = bytes.NewReader(unhx(w.File))
	}
	var so, se bytes.Buffer
	cmd.Stdout, cmd.Stderr = &so, &se
	err := cmd.Run()
	code := 0
	if err != nil {
		code = -1
		if ee, ok := err.(*exec.ExitError); ok {
			code = ee.ExitCode()
		}
	}
	return walRun{so.String(), se.String(), code}
}

// ---------------------------------------------------------------- reference wallet (spec)
type refKey struct {
	priv                     []byte
	wif, p2kh, listed, label string
}
type refWal struct {
	mnemonic, rootX, leafX string
	keys                   []refKey
}

func refParsePath(p string) ([]uint32, bool) {
	ts := strings.Split(p, "/")
	if len(ts) < 2 || ts[0] != "m" {
		return nil, false
	}
	var out []uint32
	for _, t := range ts[1:] {
		var x uint32
		if strings.HasSuffix(t, "'") {
			x = 0x80000000
			t = t[:len(t)-1]
		}
		body := t
		if strings.HasPrefix(body, "+") || strings.HasPrefix(body, "-") {
			body = body[1:]
		}
		if body == "" || strings.Trim(body, "0123456789") != "" || len(body) > 12 {
			return nil, false
		}
		v, _ := strconv.ParseInt(t, 10, 64)
		if v < 0 || v > 0x7fffffff {
			return nil, false
		}
		out = append(out, x|uint32(v))
	}
	return out, true
}

func refNormalizeMnemonic(pass []byte) string {
	var ws []string
	cur := ""
	for _, b := range pass {
		if b >= 'A' && b <= 'Z' {
			b += 32
		}
		if b >= 'a' && b <= 'z' {
			cur += string(b)
		} else if cur != "" {
			ws = append(ws, cur)
			cur = ""
		}
	}
	if cur != "" {
		ws = append(ws, cur)
	}
	return strings.Join(ws, " ")
}

func (w *walletCase) versions() (pk, sc byte) {
	switch {
	case w.Testnet:
		return 111, 196
	case w.Ltc:
		return 48, 50
	}
	return 0, 5
}

func (w *walletCase) pass() []byte {
	f := unhx(w.File)
	if len(f) > 1024 {
		f = f[:1024]
	}
	return append(append([]byte{}, unhx(w.Seed)...), f...)
}

// refWallet: what the property says the wallet must contain. ok=false: the configuration must be refused.
func refWallet(w *walletCase, scryptOut []byte) (res refWal, ok bool) {
	if w.Type != 3 && w.Type != 4 {
		return
	}
	var path []uint32
	if w.Type == 4 {
		var pok bool
		if path, pok = refParsePath(w.HdPath); !pok {
			return
		}
	}
	if w.Bip39 != 0 && w.Bip39 != -1 && (w.Bip39 < 12 || w.Bip39 > 24 || w.Bip39%3 != 0) {
		return
	}
	if len(unhx(w.File)) == 0 {
		return
	}
	pass := w.pass()
	if w.Scrypt != 0 {
		if w.Bip39 == -1 || len(scryptOut) != 32 {
			return
		}
		pass = scryptOut
	}
	vpk, vsc := w.versions()
	hrp := "bc"
	if w.Testnet {
		hrp = "tb"
	}
	mk := func(priv []byte, label string) refKey {
		pub := refPub(priv)
		h := refHash160(pub)
		k := refKey{priv: priv, label: label}
		k.wif = refB58Check(append(append([]byte{vpk + 0x80}, priv...), 1))
		k.p2kh = refB58Check(append([]byte{vpk}, h...))
		switch w.AType {
		case "p2kh":
			k.listed = k.p2kh
		case "pks":
			k.listed = fmt.Sprintf("%x", pub)
		case "segwit":
			k.listed = refB58Check(append([]byte{vsc}, refHash160(append([]byte{0, 20}, h...))...))
		case "bech32":
			k.listed = refSegwitEncode(hrp, 0, h)
		case "tap":
			k.listed = refSegwitEncode(hrp, 1, pub[1:])
		}
		return k
	}
	if w.Type == 3 {
		seed := refDsha(pass)
		for i := 0; i < w.KeyCnt; i++ {
			res.keys = append(res.keys, mk(refDsha(seed), fmt.Sprint("TypC ", i+1)))
			seed = append(seed, byte(i))
		}
		return res, true
	}
	seed := pass
	if w.Bip39 == -1 {
		res.mnemonic = refNormalizeMnemonic(pass)
		if _, vok := refEntropy(bip39.GetWordList(), strings.Fields(res.mnemonic)); !vok {
			return refWal{}, false
		}
		seed = refSeed(res.mnemonic, "")
	} else if w.Bip39 != 0 {
		h := sha256.New()
		h.Write(pass)
		h.Write([]byte("|gocoin|"))
		h.Write(pass)
		h.Write([]byte{byte(w.Bip39 / 3 * 32)})
		res.mnemonic, _ = refMnemonic(bip39.GetWordList(), h.Sum(nil)[:w.Bip39/3*4])
		seed = refSeed(res.mnemonic, "")
	}
	ver := map[string]uint32{"p2kh": 0x0488ADE4, "pks": 0x0488ADE4, "segwit": 0x049d7878, "bech32": 0x04b2430c, "tap": 0x04b2430c}[w.AType]
	if w.Testnet {
		ver = map[string]uint32{"p2kh": 0x04358394, "pks": 0x04358394, "segwit": 0x044a4e28, "bech32": 0x045f18bc, "tap": 0x045f18bc}[w.AType]
	}
	root := refMaster(seed, ver)
	res.rootX = root.String()
	elemStr := func(x uint32) string {
		if x >= 0x80000000 {
			return fmt.Sprint(x&0x7fffffff, "'")
		}
		return fmt.Sprint(x)
	}
	walk := func(p []uint32) (*refXKey, bool) {
		x := root
		for _, i := range p {
			var err error
			if x, err = refCKDpriv(x, i); err != nil {
				return nil, false
			}
		}
		return x, true
	}
	last := path[len(path)-1]
	subs := w.HdSubs
	if len(path) < 2 {
		subs = 1
	}
	for s := 0; s < subs; s++ {
		par := append([]uint32{}, path[:len(path)-1]...)
		if s > 0 {
			// sub-account s: the element before the last is advanced by s (same hardened flag)
			par[len(par)-1] = par[len(par)-1]&0x80000000 | (par[len(par)-1]+uint32(s))&0x7fffffff
			if (path[len(path)-2]&0x7fffffff)+uint32(s) > 0x7fffffff {
				return refWal{}, false // index overflow: not a BIP32 path (kept out by the generator)
			}
		}
		leaf, lok := walk(par)
		if !lok {
			return refWal{}, false
		}
		if s == 0 {
			res.leafX = leaf.String()
		}
		pre := "m"
		for _, x := range par {
			pre += "/" + elemStr(x)
		}
		for i := 0; i < w.KeyCnt; i++ {
			if (last&0x7fffffff)+uint32(i) > 0x7fffffff {
				return refWal{}, false
			}
			idx := last&0x80000000 | (last&0x7fffffff + uint32(i))
			k, err := refCKDpriv(leaf, idx)
			if err != nil {
				return refWal{}, false
			}
			res.keys = append(res.keys, mk(k.key[1:], pre+"/"+elemStr(idx)))
		}
	}
	return res, true
}

// refusalClass maps what a refusing wallet run printed to the model's refusal classes (Oracle/C14.lean `werr`)
func refusalClass(rn walRun) string {
	e := rn.stderr + "\n" + rn.stdout
	has := func(t string) bool { return strings.Contains(e, t) }
	switch {
	case has("Unsupported wallet type"), has("are no longer supported"):
		return "waltype"
	case has("ERROR: hdpath"):
		return "hdpath"
	case has("Incorrect value for BIP39 words count"):
		return "bip39count"
	case has("Error reading seed password"):
		return "emptyseed"
	case has("Cannot use scrypt function in BIP39 mnemonic mode"):
		return "scryptmnemonic"
	case has("scrypt.Key failed"):
		return "scrypt"
	case has("entropy length must be"):
		return "bip39-entropylen"
	case has("invalid mnenomic"):
		return "bip39-invalid"
	case has("checksum incorrect"):
		return "bip39-checksum"
	case has("not found in reverse map"):
		return "bip39-notfound"
	case has("panic:"), has("goroutine "):
		return "hd-panic"
	}
	return "other:" + strings.TrimSpace(rn.stderr)
}

// ---------------------------------------------------------------- the case
var reWord = regexp.MustCompile(`\b(\d+): ([a-z]+)`)

func stripTimes(s string) string {
	var out []string
	for _, l := range strings.Split(s, "\n") {
		if !strings.HasPrefix(l, "Running scrypt") {
			out = append(out, l)
		}
	}
	return strings.Join(out, "\n")
}

func lineAfter(out, prefix string) string {
	for _, l := range strings.Split(out, "\n") {
		if strings.HasPrefix(l, prefix) {
			return strings.TrimSpace(l[len(prefix):])
		}
	}
	return ""
}

func caseWallet(o *vlib.Oracle, c *rec, cs Case) {
	w := cs.W
	kind := fmt.Sprintf("wallet-type%d-%s", w.Type, w.AType)
	c.Eval(kind, fmt.Sprintf("%+v", *w))
	c.Hit(fmt.Sprintf("wallet-bip39=%d", w.Bip39))
	if w.Scrypt != 0 {
		c.Hit("wallet-scrypt-on")
	}
	if w.Testnet {
		c.Hit("wallet-testnet")
	}
	if w.Ltc {
		c.Hit("wallet-litecoin")
	}
	if len(unhx(w.Seed)) > 0 {
		c.Hit("wallet-secret-seed-prefix")
	}
	for _, b := range unhx(w.File) {
		if b >= 0x80 {
			c.Hit("wallet-nonascii-password")
			break
		}
	}
	if w.Type == 4 {
		c.Hit(fmt.Sprintf("wallet-hdpath-depth%d", strings.Count(w.HdPath, "/")))
		c.Hit(fmt.Sprintf("wallet-hdsubs%d", w.HdSubs))
	}
	dir, err := os.MkdirTemp(walletTmp, "case")
	if err != nil {
		c.TieFail("infra", err.Error(), cs)
		return
	}
	defer os.RemoveAll(dir)
	cfg, _ := w.args()
	os.WriteFile(filepath.Join(dir, "wallet.cfg"), []byte(cfg), 0600)
	if !w.Stdin && w.Ask == 0 {
		os.WriteFile(filepath.Join(dir, ".secret"), unhx(w.File), 0600)
	}
	if len(w.Chunks) > 0 {
		c.Hit(fmt.Sprintf("wallet-stdin-in-%d-writes", len(w.Chunks)+1))
	}
	imp, impLines := refOthers(w)
	if len(w.Others) > 0 {
		os.WriteFile(filepath.Join(dir, ".others"), w.othersFile(), 0600)
		for _, ok := range w.Others {
			switch {
			case ok.Junk != "":
				c.Hit("wallet-others-non-key-line")
			case ok.Unc:
				c.Hit("wallet-others-uncompressed-" + w.AType)
			default:
				c.Hit("wallet-others-compressed")
			}
		}
	}
	var sout []byte
	if w.Scrypt != 0 && len(unhx(w.File)) > 0 && w.Bip39 != -1 {
		sout, _ = scrypt.Key(w.pass(), []byte("Gocoin scrypt password salt"), 1<<uint(w.Scrypt), 8, 1, 32)
	}
	// model
	req := fmt.Sprintf("wallet %d %s %d %d %d %d %s %s %s %s %s %s", w.Type, hx([]byte(w.HdPath)), w.Bip39, w.Scrypt, w.HdSubs,
		w.KeyCnt, b2s(w.Testnet), b2s(w.Ltc), w.AType, hx(unhx(w.Seed)), hx(unhx(w.File)), hx(sout))
	rep := strings.Fields(o.MustAsk(req))
	// spec
	ref, refOK := refWallet(w, sout)
	// real: -l
	var lst walRun
	if w.Ask != 0 {
		var goOn bool
		if lst, goOn = typedPhase(o, c, cs, dir, len(rep) > 0 && rep[0] == "err"); !goOn {
			return
		}
	} else {
		lst = runWallet(dir, w, "-l")
	}
	wtxtAll, werr := os.ReadFile(filepath.Join(dir, "wallet.txt"))
	realOK := werr == nil && lst.code == 0
	// the imported keys come first in the list; the model describes the derived ones: wtxt = the file without them
	wtxt := wtxtAll
	var allLines []string // every key line of wallet.txt (imported ones included)
	if len(imp) > 0 {
		var keep []string
		for _, l := range strings.Split(string(wtxtAll), "\n") {
			if l != "" && !strings.HasPrefix(l, "#") {
				allLines = append(allLines, l)
				if len(allLines) <= len(imp) {
					continue
				}
			}
			keep = append(keep, l)
		}
		wtxt = []byte(strings.Join(keep, "\n"))
	}
	if len(rep) == 0 || rep[0] == "bad-op" {
		c.TieFail("wallet-oracle", "oracle refused the request", cs)
		return
	}
	// "hd-outside": a key on the path is 0 mod n (about 2^-128 per step; gocoin continues with stale coordinates). The
	// model has no key list then, but the real wallet has been run: it is judged by the reference below all the same.
	haveModel := true
	if rep[0] == "err" && rep[1] == "hd-outside" {
		c.Hit("wallet-refused-hd-outside")
		c.Hit("outside-model")
		haveModel = false
		if !realOK {
			if refOK {
				c.PropFail("wallet-refuses-valid", "wallet -l fails on a valid configuration: "+strings.TrimSpace(lst.stderr), cs)
			}
			return
		}
	} else if rep[0] == "err" {
		c.Hit("wallet-refused-" + rep[1])
		if realOK {
			c.TieFail("wallet-accept", "wallet lists keys but the model refuses: "+rep[1], cs)
		} else if rc := refusalClass(lst); rc != rep[1] && !(w.Ask != 0 && rc == "emptyseed") {
			// both refuse, but for different reasons: that is no agreement (e.g. the wallet dies on something the
			// model accepts while the model objects to something the wallet never looked at). A typed session that
			// was refused at the prompts (typedPhase compared it) ends in "Error reading seed password" whatever the
			// configuration's own defect is.
			c.TieFail("wallet-refusal-reason", "the wallet refuses with ["+rc+"] ("+strings.TrimSpace(lst.stderr)+"), the model with ["+rep[1]+"]", cs)
		} else {
			c.Hit("wallet-refusal-reason-agrees")
			c.TieOK()
		}
		if refOK {
			c.PropFail("wallet-refuses-valid", "a valid configuration is refused: "+rep[1]+" / "+strings.TrimSpace(lst.stderr), cs)
		}
		return
	}
	if !realOK {
		if refOK {
			c.PropFail("wallet-refuses-valid", "wallet -l fails on a valid configuration: "+strings.TrimSpace(lst.stderr), cs)
		} else {
			c.TieFail("wallet-accept", "wallet refuses, model accepts", cs)
		}
		return
	}
	// decode the oracle reply
	type mkey struct{ priv, wif, p2kh, listed, listLabel, label, lookup string }
	opt := func(s string) string { return string(unhx(s)) }
	var mMn, mRoot, mLeaf string
	var mx []string
	var mk []mkey
	if haveModel {
		mMn, mRoot, mLeaf = opt(rep[1]), opt(rep[2]), opt(rep[3])
		nx, _ := strconv.Atoi(rep[4])
		p := 5
		for i := 0; i < nx; i++ {
			mx = append(mx, opt(rep[p]))
			p++
		}
		nk, _ := strconv.Atoi(rep[p])
		p++
		for i := 0; i < nk; i++ {
			mk = append(mk, mkey{rep[p], opt(rep[p+1]), opt(rep[p+2]), opt(rep[p+3]), opt(rep[p+4]), opt(rep[p+5]), rep[p+6]})
			p += 7
		}
	}
	// 1. wallet.txt, exactly
	var exp strings.Builder
	fmt.Fprintln(&exp, "# Deterministic Walet Type", w.Type)
	for _, x := range mx {
		fmt.Fprintln(&exp, "#", x)
	}
	for _, k := range mk {
		fmt.Fprintln(&exp, k.listed, k.listLabel)
	}
	tieOK := true
	if haveModel && string(wtxt) != exp.String() {
		tieOK = false
		c.TieFail("wallet-list", "wallet.txt differs from the model's key list", cs)
	}
	// stdout of -l carries the same lines in the same order
	pos := 0
	for _, l := range strings.Split(exp.String(), "\n")[1:] {
		if l == "" || !haveModel {
			continue
		}
		j := strings.Index(lst.stdout[pos:], l+"\n")
		if j < 0 {
			tieOK = false
			c.TieFail("wallet-list-stdout", "stdout of wallet -l lacks line "+l, cs)
			break
		}
		pos += j + len(l) + 1
	}
	// 2. -dump *
	dmp := runWallet(dir, w, "-dump", "*")
	var dl [][]string
	for _, l := range strings.Split(dmp.stdout, "\n") {
		f := strings.SplitN(l, " ", 3)
		if len(f) == 3 && len(f[0]) >= 50 && len(f[0]) <= 53 && refB58Decode(f[0]) != nil && !strings.HasPrefix(l, "Using") {
			dl = append(dl, f)
		}
	}
	dlAll := dl
	if len(imp) > 0 && realOK {
		// PROPERTY for the imported keys: line i of the list and of -dump * is imported key i, with its own address
		bad := ""
		if len(dlAll) < len(imp) || len(allLines) < len(imp) {
			bad = fmt.Sprintf("%d keys imported from .others, the list has %d lines, -dump * %d", len(imp), len(allLines), len(dlAll))
		}
		for i := 0; bad == "" && i < len(imp); i++ {
			k := imp[i]
			switch {
			case dlAll[i][0] != k.wif:
				bad = fmt.Sprintf("key %d of -dump * is not the key imported on line %d of .others", i, i)
			case dlAll[i][1] != k.p2kh:
				bad = fmt.Sprintf("P2KH address %d (%s) is not the address of the imported key (%s)", i, dlAll[i][1], k.p2kh)
			case dlAll[i][2] != k.label:
				bad = fmt.Sprintf("label %d (%s) is not the imported key's (%s)", i, dlAll[i][2], k.label)
			case allLines[i] != impLines[i]:
				bad = fmt.Sprintf("line %d of wallet.txt is [%s], the imported key's %s line is [%s]", i, allLines[i], w.AType, impLines[i])
			}
		}
		if bad != "" {
			c.PropFail("others-listed-address", bad, cs)
			return
		}
		dl = dl[len(imp):]
	}
	if !haveModel {
	} else if len(dl) != len(mk) {
		tieOK = false
		c.TieFail("wallet-dump", fmt.Sprintf("wallet -dump * prints %d keys, model %d", len(dl), len(mk)), cs)
	} else {
		for i, k := range mk {
			if dl[i][0] != k.wif || dl[i][1] != k.p2kh || dl[i][2] != k.label {
				tieOK = false
				c.TieFail("wallet-dump", fmt.Sprintf("key %d of wallet -dump * differs from the model", i), cs)
				break
			}
		}
	}
	// 3. -xprv / -words
	var xRoot, xLeaf, words string
	if w.Type == 4 {
		xp := runWallet(dir, w, "-xprv")
		xRoot, xLeaf = lineAfter(xp.stdout, "Root:"), lineAfter(xp.stdout, "Leaf:")
		if haveModel && (xRoot != mRoot || xLeaf != mLeaf) {
			tieOK = false
			c.TieFail("wallet-xprv", "wallet -xprv differs from the model", cs)
		}
		if w.Bip39 != 0 {
			wd := runWallet(dir, w, "-words")
			var ws []string
			for _, m := range reWord.FindAllStringSubmatch(wd.stdout, -1) {
				ws = append(ws, m[2])
			}
			words = strings.Join(ws, " ")
			if haveModel && words != mMn {
				tieOK = false
				c.TieFail("wallet-words", "wallet -words differs from the model: "+words+" vs "+mMn, cs)
			}
		}
	}
	if tieOK && haveModel {
		c.TieOK()
	}
	// ---------------------------------------------------------------- the property on the real output
	if !refOK {
		// accepted although the spec has no such wallet (index overflow past 2^31-1, BIP32 skip case …)
		c.Hit("wallet-accepted-outside-spec")
	} else {
		bad := ""
		if len(ref.keys) != len(dl) {
			bad = "number of keys"
		}
		lines := strings.Split(strings.TrimRight(string(wtxt), "\n"), "\n")
		var keyLines []string
		for _, l := range lines {
			if !strings.HasPrefix(l, "#") {
				keyLines = append(keyLines, l)
			}
		}
		if bad == "" && len(keyLines) != len(ref.keys) {
			bad = "number of listed addresses"
		}
		for i := 0; bad == "" && i < len(ref.keys); i++ {
			k := ref.keys[i]
			if dl[i][0] != k.wif {
				bad = fmt.Sprintf("private key %d is not the BIP32/type-3 key for this seed and path", i)
			} else if dl[i][1] != k.p2kh {
				bad = fmt.Sprintf("P2KH address %d is not the address of the dumped key", i)
			} else if strings.SplitN(keyLines[i], " ", 2)[0] != k.listed {
				bad = fmt.Sprintf("listed address %d is not the %s address of the dumped key", i, w.AType)
			} else if dl[i][2] != k.label {
				bad = fmt.Sprintf("label %d (%s) is not the derivation path of the key (%s)", i, dl[i][2], k.label)
			}
		}
		if bad == "" && w.Type == 4 && (xRoot != ref.rootX || xLeaf != ref.leafX) {
			bad = "extended private keys differ from BIP32"
		}
		if bad == "" && w.Type == 4 && w.Bip39 != 0 && words != ref.mnemonic {
			bad = "mnemonic differs from BIP39"
		}
		if bad != "" {
			if len(w.Chunks) > 0 {
				bad += fmt.Sprintf(" (the seed password reached -stdin in %d writes; written at once it gives the reference keys)", len(w.Chunks)+1)
			}
			c.PropFail("wallet-spec", bad, cs)
		}
	}
	// re-import of every WIF gives the same key and address
	for i := range dl {
		pa, err := btc.DecodePrivateAddr(dl[i][0])
		if err != nil || pa.BtcAddr.String() != dl[i][1] {
			c.PropFail("wif-reimport", fmt.Sprintf("re-import of exported WIF %d gives another address", i), cs)
			break
		}
	}
	// re-import of the leaf xprv derives the same keys; the listed xpub derives their public halves
	if w.Type == 4 && xLeaf != "" && len(dl) >= w.KeyCnt {
		if path, pok := refParsePath(w.HdPath); pok {
			last := path[len(path)-1]
			if hw, err := btc.StringWallet(xLeaf); err == nil {
				for i := 0; i < w.KeyCnt; i++ {
					ch, pn := safeChild(hw, last+uint32(i))
					d := refB58Decode(dl[i][0])
					if pn || len(d) < 33 || !bytes.Equal(ch.Key[1:], d[1:33]) {
						c.PropFail("xprv-reimport", fmt.Sprintf("re-imported Leaf xprv does not derive key %d", i), cs)
						break
					}
				}
			} else {
				c.PropFail("xprv-reimport", "printed Leaf xprv does not parse: "+err.Error(), cs)
			}
			if xpub := lineAfter(string(wtxt), "# Leaf:"); xpub != "" && last < 0x80000000 {
				c.Hit("wallet-xpub-listed")
				if hw, err := btc.StringWallet(xpub); err == nil {
					for i := 0; i < w.KeyCnt && last+uint32(i) < 0x80000000; i++ {
						ch, pn := safeChild(hw, last+uint32(i))
						d := refB58Decode(dl[i][0])
						if pn || len(d) < 33 || !bytes.Equal(ch.Key, refPub(d[1:33])) {
							c.PropFail("xpub-derives-public", fmt.Sprintf("listed Leaf xpub does not derive the public key of key %d", i), cs)
							break
						}
					}
				} else {
					c.PropFail("xpub-derives-public", "listed Leaf xpub does not parse", cs)
				}
			}
		}
	}
	// the signer's lookup: -dump <listed address> finds the key whose address it is
	if len(dl) > 0 && w.AType != "pks" {
		i := len(dl) - 1
		addr := strings.SplitN(strings.Split(strings.TrimRight(string(wtxt), "\n"), "\n")[len(strings.Split(strings.TrimRight(string(wtxt), "\n"), "\n"))-1], " ", 2)[0]
		one := runWallet(dir, w, "-dump", addr)
		if got := lineAfter(one.stdout, "Private encoded:"); got != dl[i][0] {
			c.PropFail("address-is-signing-key", "wallet -dump "+addr+" does not return the key listed with that address: "+got, cs)
		}
		if haveModel && mk[i].lookup != strconv.Itoa(i) {
			c.Hit("model-lookup-other-index")
		}
	}
	if len(imp) > 0 && w.AType != "pks" && len(allLines) == len(dlAll) {
		// with imported keys in front: EVERY listed address (imported and derived) must lead back to the key of its own line
		for i, l := range allLines {
			addr := strings.SplitN(l, " ", 2)[0]
			if strings.HasPrefix(addr, "-=") {
				c.Hit("wallet-others-no-segwit-address-for-uncompressed")
				addr = dlAll[i][1] // no segwit address: the key answers to its P2KH address only
			}
			one := runWallet(dir, w, "-dump", addr)
			if got := lineAfter(one.stdout, "Private encoded:"); got != dlAll[i][0] {
				c.PropFail("address-is-signing-key", fmt.Sprintf("wallet -dump %s (line %d of the list, %d imported keys in front) returns [%s], the key listed with that address is %s", addr, i, len(imp), got, dlAll[i][0]), cs)
				break
			}
		}
	}
	if w.Twice {
		again := runWallet(dir, w, "-l")
		w2, _ := os.ReadFile(filepath.Join(dir, "wallet.txt"))
		// (the stdout of a typed run carries the prompts as well: compare the key file only)
		if (w.Ask == 0 && stripTimes(again.stdout) != stripTimes(lst.stdout)) || !bytes.Equal(w2, wtxtAll) {
			c.PropFail("deterministic", "two runs with the same seed and configuration give different output", cs)
		}
		c.Hit("wallet-run-twice")
	}
}
