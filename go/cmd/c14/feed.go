package main

// feed.go — three input classes of "the same seed password and configuration produce the same ordered list of keys
// and addresses" / "every listed address is the address of the private key the wallet later signs with" that the
// wallet cases did not reach:
//
//   1. HOW the seed password arrives on -stdin: a pipe delivers what the producer has written so far, so the same
//      password bytes may come in one write or in several. runWalletChunked plays a producer that writes the password
//      in pieces and goes on with the next piece only after the wallet has TAKEN the previous one out of the pipe
//      (FIONREAD on the pipe = 0) - no sleeps, the schedule is the same on every run. The wallet's key list must be
//      the list of the whole password (walletCase.Chunks; the model and the reference see the whole password).
//   2. A seed= prefix in wallet.cfg together with a SECOND key generation in the same process (sessions): prefix
//      lengths over the allocator's size classes x short and ordinary passwords, with `-sign .. -send .. -l`
//      (genSessionsPrefix, corpusSessionsPrefix). The list printed after the second make_wallet must be the list of
//      the first one.
//   3. Keys imported from the .others file (walletCase.Others): compressed and UNCOMPRESSED WIF lines, with and
//      without a label, comment lines and undecodable lines in between. Imported keys sit in front of the derived
//      ones; every line of wallet.txt / -dump * must be the address (in the configured form) of the key listed
//      with it, an uncompressed key has no segwit address (placeholder), and `-dump <listed address>` must return
//      the key of that very line - for EVERY line, the derived ones behind the imports included.

import (
	"bytes"
	"fmt"
	"math/big"
	"os"
	"os/exec"
	"sort"
	"strings"
	"syscall"
	"time"
	"unsafe"

	"verif/vlib"
)

// ---------------------------------------------------------------- 1. -stdin in several writes
func pipeUnread(f *os.File) int {
	var n int32
	_, _, e := syscall.Syscall(syscall.SYS_IOCTL, f.Fd(), uintptr(0x541B) /* FIONREAD */, uintptr(unsafe.Pointer(&n)))
	if e != 0 {
		return -1
	}
	return int(n)
}

// runWalletChunked: the password goes to the wallet's stdin in the pieces given by w.Chunks (offsets into the
// password); each further piece is written only after the previous one has been read out of the pipe.
func runWalletChunked(dir string, w *walletCase, args []string) walRun {
	data := unhx(w.File)
	cmd := exec.Command(walletBin, args...)
	cmd.Dir = dir
	pr, pw, err := os.Pipe()
	if err != nil {
		return walRun{code: -2}
	}
	cmd.Stdin = pr
	var so, se bytes.Buffer
	cmd.Stdout, cmd.Stderr = &so, &se
	if err := cmd.Start(); err != nil {
		pr.Close()
		pw.Close()
		return walRun{code: -2}
	}
	pr.Close()
	done := make(chan struct{})
	var werr error
	go func() { werr = cmd.Wait(); close(done) }()
	drained := func() {
		deadline := time.Now().Add(10 * time.Second)
		for time.Now().Before(deadline) {
			if n := pipeUnread(pw); n <= 0 {
				return
			}
			select {
			case <-done:
				return
			default:
			}
			time.Sleep(100 * time.Microsecond)
		}
	}
	prev := 0
	for _, c := range w.Chunks {
		if c <= prev || c >= len(data) {
			continue
		}
		if _, e := pw.Write(data[prev:c]); e != nil {
			break
		}
		prev = c
		drained()
	}
	pw.Write(data[prev:])
	pw.Close()
	<-done
	code := 0
	if werr != nil {
		code = -1
		if ee, ok := werr.(*exec.ExitError); ok {
			code = ee.ExitCode()
		}
	}
	return walRun{so.String(), se.String(), code}
}

func randCuts(g *vlib.Rng, n int) []int {
	set := map[int]bool{}
	for k := 1 + g.Intn(3); k > 0; k-- {
		set[1+g.Intn(n-1)] = true
	}
	var out []int
	for c := range set {
		out = append(out, c)
	}
	sort.Ints(out)
	return out
}

func genStdinChunked(g *vlib.Rng, n int) []Case {
	var out []Case
	for len(out) < n {
		w := genWallets(g, 1)[0].W
		data := unhx(w.File)
		if w.Ask != 0 || len(data) < 2 || len(data) > 1024 {
			continue
		}
		w.Stdin = true
		w.Chunks = randCuts(g, len(data))
		out = append(out, Case{Kind: "wallet", Tag: "stdin-chunked", W: w})
	}
	return out
}

func corpusStdinChunked() []Case {
	pw := []byte("qwerty12345")
	mn := []byte("legal winner thank year wave sausage worth useful legal winner thank yellow\n")
	long := bytes.Repeat([]byte("0123456789abcdef"), 64) // exactly the 1024 bytes getpass has room for
	var out []Case
	for _, w := range []walletCase{
		{Type: 3, KeyCnt: 2, AType: "p2kh", File: hx(pw), HdPath: "m/0'", HdSubs: 1, Stdin: true, Chunks: []int{1}},
		{Type: 3, KeyCnt: 2, AType: "bech32", File: hx(pw), HdPath: "m/0'", HdSubs: 1, Stdin: true, Chunks: []int{len(pw) - 1}, Seed: hx([]byte("pre fix"))},
		{Type: 4, KeyCnt: 2, AType: "segwit", File: hx(pw), HdPath: "m/49'/0'/0'/0/0", HdSubs: 2, Bip39: 12, Stdin: true, Chunks: []int{3, 4, 9}},
		{Type: 4, KeyCnt: 1, AType: "p2kh", File: hx(mn), HdPath: "m/0'/0", HdSubs: 1, Bip39: -1, Stdin: true, Chunks: []int{8, 40, len(mn) - 1}, Twice: true},
		{Type: 4, KeyCnt: 1, AType: "tap", File: hx(long), HdPath: "m/86'/0'/0'/0/0", HdSubs: 1, Stdin: true, Chunks: []int{512, 1023}},
		{Type: 3, KeyCnt: 1, AType: "p2kh", File: hx(pw), HdPath: "m/0'", HdSubs: 1, Scrypt: 1, Stdin: true, Chunks: []int{6}},
	} {
		w := w
		out = append(out, Case{Kind: "wallet", Tag: "corpus-stdin-chunked", W: &w})
	}
	return out
}

// ---------------------------------------------------------------- 2. seed= prefix and a second generation in one process
func alnum(g *vlib.Rng, n int) []byte {
	const cs = "abcdefghijklmnopqrstuvwxyzABCDEFGHIJKLMNOPQRSTUVWXYZ0123456789-_:."
	b := make([]byte, n)
	for i := range b {
		b[i] = cs[g.Intn(len(cs))]
	}
	return b
}

func signPart(g *vlib.Rng, s *sessionCase, nk int) {
	if s.Sign >= 0 {
		return
	}
	s.Sign = g.Intn(nk)
	s.SignForm = []string{"listed", "p2kh"}[g.Intn(2)]
	s.Msg = string(alnum(g, 1+g.Intn(20)))
}

func genSessionsPrefix(g *vlib.Rng, n int) []Case {
	var out []Case
	for len(out) < n {
		cs := genSessions(g, 1)[0]
		w, s := cs.W, cs.S
		if w.Bip39 == -1 {
			continue
		}
		w.Seed = hx(alnum(g, 1+g.Intn(70)))
		w.File = hx(alnum(g, g.Pick(1, 2, 3, 5, 8, 12, 1+g.Intn(40))))
		if g.Chance(2, 3) { // the second generation becomes visible in the list: -sign .. -send .. -l
			s.Then, s.Utxos, s.UseAll = "list", nil, false
		}
		if s.Then != "" {
			signPart(g, s, w.nKeys()) // without -sign main() generates the wallet once only
		}
		cs.Tag = "seed-prefix"
		out = append(out, cs)
	}
	return out
}

func corpusSessionsPrefix() []Case {
	var out []Case
	// (length of the seed= value, length of the password): prefixes on both sides of the allocator's size classes
	// (8, 16, 24, 32, 48, 64, 96), passwords that do and do not fit into what is left of the class
	for i, lp := range [][2]int{{1, 1}, {1, 6}, {7, 1}, {8, 1}, {15, 1}, {24, 6}, {31, 1}, {36, 6}, {36, 11}, {47, 1}, {57, 6}, {64, 1}, {90, 6}} {
		at := []string{"p2kh", "segwit", "bech32", "tap", "pks"}[i%5]
		w := &walletCase{Type: 3 + i%2, KeyCnt: 2, AType: at, HdPath: "m/0'", HdSubs: 1, Testnet: i%4 == 3,
			Seed: hx(bytes.Repeat([]byte("Seed-Prefix."), 9)[:lp[0]]), File: hx([]byte("pass-word/1")[:lp[1]])}
		if w.Type == 4 {
			w.HdPath = []string{"m/0'/0", "m/84'/0'/0'/0/0"}[(i/2)%2]
			if i%6 == 5 {
				w.Bip39 = 12
			}
		}
		s := &sessionCase{Sign: i % 2, SignForm: []string{"listed", "p2kh"}[(i/2)%2], Msg: fmt.Sprintf("prefix-%d-%d", lp[0], lp[1]), Then: "list", Salt: fmt.Sprintf("5e%02x", i)}
		out = append(out, Case{Kind: "session", Tag: "corpus-seed-prefix", W: w, S: s})
	}
	return out
}

// ---------------------------------------------------------------- 3. keys imported from .others
type otherKey struct {
	Priv  string `json:"priv,omitempty"`  // hex, 32 bytes: a key line
	Unc   bool   `json:"unc,omitempty"`   // exported without the compression flag (old 5../9.. form)
	Label string `json:"label,omitempty"` // "" = no label in the file (the wallet names it "Other <n>")
	Junk  string `json:"junk,omitempty"`  // != "": this line is no key (comment / undecodable): skipped by the wallet
}

func refPubUnc(priv []byte) []byte {
	p := refMul(new(big.Int).SetBytes(priv), refPt{refGx, refGy})
	out := make([]byte, 65)
	out[0] = 4
	p.x.FillBytes(out[1:33])
	p.y.FillBytes(out[33:])
	return out
}

func (w *walletCase) othersFile() []byte {
	vpk, _ := w.versions()
	var sb strings.Builder
	for _, o := range w.Others {
		if o.Junk != "" {
			sb.WriteString(o.Junk + "\n")
			continue
		}
		pl := append([]byte{vpk + 0x80}, unhx(o.Priv)...)
		if !o.Unc {
			pl = append(pl, 1)
		}
		sb.WriteString(refB58Check(pl))
		if o.Label != "" {
			sb.WriteString(" " + o.Label)
		}
		sb.WriteString("\n")
	}
	return []byte(sb.String())
}

// refOthers: what the property says about the imported keys, in file order: WIF as imported, P2KH address of the
// public key in the imported (un)compressed form, the listed address of that key in the configured form
func refOthers(w *walletCase) (out []refKey, lines []string) {
	vpk, vsc := w.versions()
	hrp := "bc"
	if w.Testnet {
		hrp = "tb"
	}
	for _, o := range w.Others {
		if o.Junk != "" {
			continue
		}
		priv := unhx(o.Priv)
		pub := refPub(priv)
		pl := append([]byte{vpk + 0x80}, priv...)
		if o.Unc {
			pub = refPubUnc(priv)
		} else {
			pl = append(pl, 1)
		}
		h := refHash160(pub)
		k := refKey{priv: priv, wif: refB58Check(pl), p2kh: refB58Check(append([]byte{vpk}, h...)), label: o.Label}
		if k.label == "" {
			k.label = fmt.Sprint("Other ", len(out))
		}
		line := ""
		switch w.AType {
		case "p2kh":
			k.listed = k.p2kh
		case "pks":
			k.listed = fmt.Sprintf("%x", pub)
		case "segwit":
			k.listed = refB58Check(append([]byte{vsc}, refHash160(append([]byte{0, 20}, h...))...))
		case "bech32":
			k.listed = refSegwitEncode(hrp, 0, h)
		case "tap":
			k.listed = refSegwitEncode(hrp, 1, pub[1:33])
		}
		if w.AType == "segwit" || w.AType == "bech32" || w.AType == "tap" {
			if o.Unc {
				k.listed = "" // no segwit address for an uncompressed key: the wallet prints a placeholder
				line = "-=CompressedKey=-"
			}
			line += k.listed + " " + k.label + " (" + k.p2kh + ")"
		} else {
			line = k.listed + " " + k.label
		}
		out = append(out, k)
		lines = append(lines, line)
	}
	return
}

func randOthers(g *vlib.Rng) []otherKey {
	var out []otherKey
	unc := false
	n := 1 + g.Intn(3)
	for i := 0; i < n; i++ {
		if g.Chance(1, 5) {
			out = append(out, otherKey{Junk: []string{"# imported keys", "#", "NotAKey some label", "5HpHagT65TZzG1PH3CSu63k8DbpvD8s5ip4nEB3kEsreAnchuDg bad checksum"}[g.Intn(4)]})
		}
		k := otherKey{Priv: hx(g.Bytes(32)), Unc: g.Bool()}
		if g.Chance(1, 8) {
			k.Priv = hx(append(make([]byte, 31), byte(1+g.Intn(200))))
		}
		if g.Bool() {
			k.Label = string(alnum(g, 1+g.Intn(10)))
			if g.Chance(1, 3) {
				k.Label += " " + string(alnum(g, 1+g.Intn(6)))
			}
		}
		unc = unc || k.Unc
		out = append(out, k)
	}
	if !unc && g.Chance(1, 2) { // an old-style key in FRONT of everything else
		out = append([]otherKey{{Priv: hx(g.Bytes(32)), Unc: true}}, out...)
	}
	return out
}

func genWalletsOthers(g *vlib.Rng, n int) []Case {
	var out []Case
	for len(out) < n {
		w := genWallets(g, 1)[0].W
		if w.Ask != 0 || len(unhx(w.File)) == 0 || (w.Type != 3 && w.Type != 4) {
			continue
		}
		w.Others = randOthers(g)
		out = append(out, Case{Kind: "wallet", Tag: "others", W: w})
	}
	return out
}

func corpusWalletsOthers() []Case {
	pw := hx([]byte("qwerty12345"))
	k := func(b byte, unc bool, label string) otherKey {
		return otherKey{Priv: hx(bytes.Repeat([]byte{b}, 32)), Unc: unc, Label: label}
	}
	var out []Case
	i := 0
	for _, at := range []string{"p2kh", "segwit", "bech32", "tap", "pks"} {
		for _, oks := range [][]otherKey{
			{k(0x11, false, "")},
			{k(0x12, true, "old paper wallet")},
			{{Junk: "# cold keys"}, k(0x13, false, "first"), k(0x14, true, ""), k(0x15, false, "")},
			{k(0x16, true, ""), k(0x17, true, "second old one")},
		} {
			w := walletCase{Type: 3 + i%2, KeyCnt: 2, AType: at, File: pw, HdPath: "m/0'", HdSubs: 1, Testnet: i%3 == 2, Ltc: i%7 == 3, Others: oks}
			if w.Type == 4 {
				w.HdPath = []string{"m/0'/0", "m/84'/0'/0'/0/0", "m/44'/0'/1/5"}[i%3]
				w.HdSubs = 1 + i%2
			}
			out = append(out, Case{Kind: "wallet", Tag: "corpus-others", W: &w})
			i++
		}
	}
	return out
}
