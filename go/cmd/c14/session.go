package main

// session.go — SESSIONS: one invocation of the real wallet binary that does several things with its key store.
//
// "Every listed address is the address of the private key the wallet LATER signs with" is a statement about a
// process: keys[] is filled by make_wallet(), and everything main() goes on to do in the same run — sign a message
// (-sign A -msg/-hash), then (with -send) call make_wallet() AGAIN and sign a transaction, or sign a raw transaction,
// or list the addresses — reads the records of that list as they are at that moment. The family generated here:
//
//   wallet configuration (every type / path / bip39 / address type / network the wallet cases use, password from the
//   seed file)  ×  [-sign <address of key i, in its listed or its P2KH form> with -msg or -hash]  ×
//   [nothing | -send (make_signed_tx over a balance folder) | -raw (process_raw_tx) | -l]  ×  a balance folder whose
//   unspent outputs pay listed keys j1, j2, … in any of the script forms the wallet signs  ×  -rfc6979 on/off
//
// and the property is evaluated on what the run leaves behind: the message signature must recover to the public key
// of the address given to -sign, every input of the written transaction must verify (real interpreter, standard flags)
// against the output it spends — an output of a LISTED address —, non-taproot inputs must carry that key's public key,
// and a list printed inside a combined run must be the reference list (repeated once per make_wallet call).
// Tie: Model/WalletKeysStore.lean (oracle op `session`) is asked for the same operations; the key bytes it says each
// operation uses must belong to the public key found in the real signature.

import (
	"bytes"
	"crypto/sha256"
	"encoding/base64"
	"encoding/hex"
	"fmt"
	"math/big"
	"os"
	"path/filepath"
	"strings"

	"github.com/piotrnar/gocoin/lib/btc"
	"github.com/piotrnar/gocoin/lib/others/scrypt"
	"github.com/piotrnar/gocoin/lib/script"
	"verif/vlib"
)

type sessUtxo struct {
	Key   int    `json:"key"`   // index into the listed keys
	Form  string `json:"form"`  // p2pkh | p2sh | p2wpkh | p2tr
	Value uint64 `json:"value"` // satoshis
}

type sessionCase struct {
	Sign     int        `json:"sign"`           // key whose address goes to -sign; -1: no -sign
	SignForm string     `json:"signform"`       // listed | p2kh
	Msg      string     `json:"msg,omitempty"`  // -msg
	Hash     string     `json:"hash,omitempty"` // -hash (hex); "" = message mode
	Then     string     `json:"then"`           // "" | send | raw | list
	Utxos    []sessUtxo `json:"utxos,omitempty"`
	UseAll   bool       `json:"useall,omitempty"`
	Rfc      bool       `json:"rfc6979,omitempty"`
	Salt     string     `json:"salt,omitempty"` // hex: makes the funding transaction's id
}

// ---------------------------------------------------------------- independent ECDSA (math/big, ref.go's curve)
func refEcdsaVerify(pub []byte, z []byte, r, s *big.Int) bool {
	Q, ok := refParse(pub)
	if !ok || r.Sign() <= 0 || s.Sign() <= 0 || r.Cmp(refN) >= 0 || s.Cmp(refN) >= 0 {
		return false
	}
	w := new(big.Int).ModInverse(s, refN)
	u1 := new(big.Int).Mul(new(big.Int).SetBytes(z), w)
	u1.Mod(u1, refN)
	u2 := new(big.Int).Mul(r, w)
	u2.Mod(u2, refN)
	P := refAdd(refMul(u1, refPt{refGx, refGy}), refMul(u2, Q))
	if P.x == nil {
		return false
	}
	return new(big.Int).Mod(P.x, refN).Cmp(r) == 0
}

// refRecover: the public key a compact signature (recid 0/1, x = r) speaks for
func refRecover(z []byte, r, s *big.Int, recid int) []byte {
	if r.Sign() <= 0 || s.Sign() <= 0 || r.Cmp(refN) >= 0 || s.Cmp(refN) >= 0 {
		return nil
	}
	R, ok := refParse(append([]byte{byte(2 + recid&1)}, r.FillBytes(make([]byte, 32))...))
	if !ok {
		return nil
	}
	ri := new(big.Int).ModInverse(r, refN)
	a := new(big.Int).Mul(s, ri)
	a.Mod(a, refN)
	b := new(big.Int).Mul(new(big.Int).SetBytes(z), ri)
	b.Neg(b).Mod(b, refN)
	return refSer(refAdd(refMul(a, R), refMul(b, refPt{refGx, refGy})))
}

func refVarStr(b []byte) []byte {
	var out []byte
	switch n := len(b); {
	case n < 0xfd:
		out = []byte{byte(n)}
	default:
		out = []byte{0xfd, byte(n), byte(n >> 8)}
	}
	return append(out, b...)
}

func refMsgHash(msg []byte, ltc bool) []byte {
	magic := "Bitcoin Signed Message:\n"
	if ltc {
		magic = "Litecoin Signed Message:\n"
	}
	return refDsha(append(refVarStr([]byte(magic)), refVarStr(msg)...))
}

// ---------------------------------------------------------------- scripts of a key
func sessScript(form string, pub []byte) []byte {
	h := refHash160(pub)
	switch form {
	case "p2pkh":
		return append(append([]byte{0x76, 0xa9, 20}, h...), 0x88, 0xac)
	case "p2sh":
		return append(append([]byte{0xa9, 20}, refHash160(append([]byte{0, 20}, h...))...), 0x87)
	case "p2wpkh":
		return append([]byte{0, 20}, h...)
	case "p2tr":
		return append([]byte{0x51, 32}, pub[1:33]...)
	// ---- FOREIGN forms: scripts that carry one of the wallet's hashes (or the all-zero Hash160 field of a witness
	// program address) under a template that is not the hash's own — nobody's outputs since /repo ebf80672
	case "x-p2sh-pubhash": // a9 14 HASH160(pubkey) 87
		return append(append([]byte{0xa9, 20}, h...), 0x87)
	case "x-p2wpkh-scripthash": // 00 14 <P2SH-P2WPKH script hash>
		return append([]byte{0, 20}, refHash160(append([]byte{0, 20}, h...))...)
	case "x-p2pkh-scripthash": // 76 a9 14 <P2SH-P2WPKH script hash> 88 ac
		return append(append([]byte{0x76, 0xa9, 20}, refHash160(append([]byte{0, 20}, h...))...), 0x88, 0xac)
	case "x-p2sh-zero":
		return append(append([]byte{0xa9, 20}, make([]byte, 20)...), 0x87)
	case "x-p2wpkh-zero":
		return append([]byte{0, 20}, make([]byte, 20)...)
	case "x-p2pkh-zero":
		return append(append([]byte{0x76, 0xa9, 20}, make([]byte, 20)...), 0x88, 0xac)
	case "x-p2sh-nopush": // a9 <not 14> <script hash> 87: 23 bytes, first and last byte of P2SH, no 20-byte push
		return append(append([]byte{0xa9, 0x4c}, refHash160(append([]byte{0, 20}, h...))...), 0x87)
	}
	panic("script form " + form)
}

var foreignForms = []string{"x-p2sh-pubhash", "x-p2wpkh-scripthash", "x-p2pkh-scripthash", "x-p2sh-zero", "x-p2wpkh-zero", "x-p2pkh-zero", "x-p2sh-nopush"}

// isForeign: the wallet does not own an output of this form (pkscr_to_key_idx / sign_tx must find no key for it):
// the x- forms in every mode, and the P2SH-P2WPKH script in bech32 / tap mode (no P2SH slot there)
func isForeign(form, atype string) bool {
	if strings.HasPrefix(form, "x-") {
		return true
	}
	for _, f := range ownedForms(atype) {
		if f == form {
			return false
		}
	}
	return true
}

// listedForm: the script form of the address `wallet -l` prints for this address type
func listedForm(atype string) string {
	switch atype {
	case "segwit":
		return "p2sh"
	case "bech32":
		return "p2wpkh"
	case "tap":
		return "p2tr"
	}
	return "p2pkh"
}

// ownedForms: the script forms pkscr_to_key attributes to a (compressed) key: the P2SH-P2WPKH slot exists only when
// the wallet is not in bech32 mode
func ownedForms(atype string) []string {
	if atype == "bech32" || atype == "tap" {
		return []string{"p2pkh", "p2wpkh", "p2tr"}
	}
	return []string{"p2pkh", "p2sh", "p2wpkh", "p2tr"}
}

// ---------------------------------------------------------------- generators
func validSessionWallet(g *vlib.Rng) *walletCase {
	for {
		w := genWallets(g, 1)[0].W
		if w.Stdin || w.Ask != 0 || (w.Type != 3 && w.Type != 4) || len(unhx(w.File)) == 0 || len(unhx(w.File)) > 1024 {
			continue
		}
		w.Twice = false
		if w.Scrypt > 3 {
			w.Scrypt = 1 + w.Scrypt%3
		}
		var sout []byte
		if w.Scrypt != 0 && w.Bip39 != -1 {
			sout, _ = scrypt.Key(w.pass(), []byte("Gocoin scrypt password salt"), 1<<uint(w.Scrypt), 8, 1, 32)
		}
		if ref, ok := refWallet(w, sout); ok && len(ref.keys) > 0 {
			return w
		}
	}
}

func (w *walletCase) nKeys() int {
	n := w.KeyCnt
	if w.Type == 4 && strings.Count(w.HdPath, "/") >= 2 {
		n *= w.HdSubs
	}
	return n
}

func genSessions(g *vlib.Rng, n int) []Case {
	var out []Case
	for len(out) < n {
		w := validSessionWallet(g)
		nk := w.nKeys()
		s := &sessionCase{Sign: -1, Salt: hx(g.Bytes(8))}
		s.Then = []string{"", "send", "send", "send", "raw", "raw", "list"}[g.Intn(7)]
		if g.Chance(3, 4) || s.Then == "" || s.Then == "list" {
			s.Sign = g.Intn(nk)
			s.SignForm = []string{"listed", "p2kh"}[g.Intn(2)]
			if g.Chance(1, 4) {
				s.Hash = hx(g.Bytes(32))
			} else {
				m := g.Bytes(1 + g.Intn(40))
				for j := range m {
					m[j] = byte(33 + int(m[j])%94) // printable, no blanks: it travels on the command line
				}
				if m[0] == '-' {
					m[0] = 'x'
				}
				s.Msg = string(m)
			}
		}
		if s.Then == "send" || s.Then == "raw" {
			forms := ownedForms(w.AType)
			for k := 1 + g.Intn(3); k > 0; k-- {
				u := sessUtxo{Key: g.Intn(nk), Value: uint64(60000 + g.Intn(400000))}
				if g.Chance(2, 3) {
					u.Form = listedForm(w.AType)
				} else {
					u.Form = forms[g.Intn(len(forms))]
				}
				s.Utxos = append(s.Utxos, u)
			}
			s.UseAll = g.Chance(1, 2)
			if g.Chance(1, 3) { // outputs in forms the wallet does not own, never the first (the spend is sized on it)
				for k := 1 + g.Intn(2); k > 0; k-- {
					u := sessUtxo{Key: g.Intn(nk), Value: uint64(60000 + g.Intn(400000)), Form: foreignForms[g.Intn(len(foreignForms))]}
					if g.Chance(1, 6) {
						u.Form = "p2sh" // foreign in bech32 / tap mode only
					}
					at := 1 + g.Intn(len(s.Utxos))
					s.Utxos = append(s.Utxos[:at], append([]sessUtxo{u}, s.Utxos[at:]...)...)
				}
			}
		}
		s.Rfc = g.Chance(1, 4)
		out = append(out, Case{Kind: "session", W: w, S: s})
	}
	return out
}

// corpusSessions: the grid address type x continuation, each with the signing key also paying one of the outputs and
// with a different key paying another one
func corpusSessions() []Case {
	var out []Case
	pw := hx([]byte("qwerty12345"))
	i := 0
	for _, at := range []string{"p2kh", "segwit", "bech32", "tap", "pks"} {
		for _, then := range []string{"", "send", "raw", "list"} {
			w := &walletCase{Type: 3 + i%2, KeyCnt: 2, AType: at, File: pw, HdPath: "m/0'", HdSubs: 1, Testnet: i%3 == 1}
			if w.Type == 4 {
				w.HdPath = []string{"m/0'/0", "m/84'/0'/0'/0/0", "m/44'/0'/1/5"}[i%3]
				w.HdSubs = 1 + i%2
				w.Bip39 = []int{0, 12, 24}[i%3]
			}
			nk := w.nKeys()
			s := &sessionCase{Sign: i % nk, SignForm: []string{"listed", "p2kh"}[i%2], Msg: "session-" + at + "-" + then, Then: then, Salt: fmt.Sprintf("%02x", i), UseAll: true, Rfc: i%4 == 0}
			if i%5 == 4 {
				s.Msg, s.Hash = "", strings.Repeat(fmt.Sprintf("%02x", 17+i), 32)
			}
			if then == "send" || then == "raw" {
				s.Utxos = []sessUtxo{{Key: (i + 1) % nk, Form: listedForm(at), Value: 150000}, {Key: i % nk, Form: listedForm(at), Value: 90000}}
				for _, f := range ownedForms(at) {
					if f != listedForm(at) {
						s.Utxos = append(s.Utxos, sessUtxo{Key: i % nk, Form: f, Value: 70000})
					}
				}
			}
			out = append(out, Case{Kind: "session", Tag: "corpus", W: w, S: s})
			i++
		}
	}
	// litecoin (mainnet versions 48 / 50): every script form the wallet owns, the listed one first. Witness class of the
	// fixed finding 0ff0ad67 (a P2SH-P2WPKH input was signed as legacy P2SH: ltc.NewAddrFromPkScript kept version 5)
	for j, at := range []string{"segwit", "p2kh", "bech32"} {
		w := &walletCase{Type: 3 + j%2, KeyCnt: 2, AType: at, File: pw, HdPath: []string{"m/0'", "m/49'/2'/0'/0/0"}[j%2], HdSubs: 1, Ltc: true}
		s := &sessionCase{Sign: -1, Then: []string{"send", "raw"}[j%2], Salt: fmt.Sprintf("1c%x", j), UseAll: true}
		if j == 2 {
			s.Sign, s.SignForm, s.Msg = 1, "listed", "litecoin"
		}
		s.Utxos = []sessUtxo{{Key: 1, Form: listedForm(at), Value: 120000}}
		for _, f := range ownedForms(at) {
			s.Utxos = append(s.Utxos, sessUtxo{Key: len(s.Utxos) % 2, Form: f, Value: 80000})
		}
		out = append(out, Case{Kind: "session", Tag: "corpus", W: w, S: s})
	}
	// FOREIGN outputs (witness class of /repo ebf80672, where model and code used to differ): every address type x
	// {-raw: the input must stay unsigned, -send -useallinputs: the output must not be selected} with ALL foreign
	// forms of the signing key in the balance folder, between two outputs the wallet owns
	for j, at := range []string{"p2kh", "segwit", "bech32", "tap"} {
		for t, then := range []string{"raw", "send"} {
			w := &walletCase{Type: 3 + (j+t)%2, KeyCnt: 2, AType: at, File: pw, HdPath: []string{"m/0'", "m/0'/7"}[(j+t)%2], HdSubs: 1, Testnet: j == 1, Ltc: j == 2 && t == 1}
			s := &sessionCase{Sign: -1, Then: then, Salt: fmt.Sprintf("f0%x%x", j, t), UseAll: true}
			if t == 1 {
				s.Sign, s.SignForm, s.Msg = 0, "listed", "foreign-"+at
			}
			s.Utxos = []sessUtxo{{Key: 0, Form: listedForm(at), Value: 200000}}
			for _, f := range foreignForms {
				s.Utxos = append(s.Utxos, sessUtxo{Key: len(s.Utxos) % 2, Form: f, Value: 70000})
			}
			if isForeign("p2sh", at) {
				s.Utxos = append(s.Utxos, sessUtxo{Key: 0, Form: "p2sh", Value: 70000})
			}
			s.Utxos = append(s.Utxos, sessUtxo{Key: 1, Form: "p2pkh", Value: 90000})
			out = append(out, Case{Kind: "session", Tag: "corpus", W: w, S: s})
		}
	}
	// no -sign: the plain spend and the plain raw signature
	for j, then := range []string{"send", "raw"} {
		w := &walletCase{Type: 4, KeyCnt: 2, AType: "bech32", File: pw, HdPath: "m/84'/0'/0'/0/0", HdSubs: 2, Bip39: 12}
		s := &sessionCase{Sign: -1, Then: then, Salt: fmt.Sprintf("f%x", j), UseAll: true,
			Utxos: []sessUtxo{{Key: 3, Form: "p2wpkh", Value: 100000}, {Key: 0, Form: "p2tr", Value: 80000}, {Key: 2, Form: "p2pkh", Value: 75000}}}
		out = append(out, Case{Kind: "session", Tag: "corpus", W: w, S: s})
	}
	return out
}

// ---------------------------------------------------------------- the case
func parseDer(b []byte) (r, s *big.Int, ok bool) {
	if len(b) < 8 || b[0] != 0x30 || int(b[1]) != len(b)-2 || b[2] != 2 {
		return nil, nil, false
	}
	rl := int(b[3])
	if 4+rl+2 > len(b) || b[4+rl] != 2 {
		return nil, nil, false
	}
	sl := int(b[5+rl])
	if 6+rl+sl != len(b) {
		return nil, nil, false
	}
	return new(big.Int).SetBytes(b[4 : 4+rl]), new(big.Int).SetBytes(b[6+rl:]), true
}

func sessVerifyInput(tx *btc.Tx, spent []*btc.TxOut, i int) (ok bool) {
	defer func() {
		if e := recover(); e != nil {
			ok = false
		}
	}()
	if tx.TxVerVars == nil {
		tx.AllocVerVars()
	}
	tx.Spent_outputs = spent
	return script.VerifyTxScript(spent[i].Pk_script, &script.SigChecker{Tx: tx, Idx: i, Amount: spent[i].Value}, script.STANDARD_VERIFY_FLAGS)
}

// lastPush: the last data push of a scriptSig (the public key of a P2PKH input)
func lastPush(scr []byte) []byte {
	var last []byte
	for p := 0; p < len(scr); {
		n := int(scr[p])
		p++
		if n == 0 || n > 75 || p+n > len(scr) {
			return nil
		}
		last = scr[p : p+n]
		p += n
	}
	return last
}

func caseSession(o *vlib.Oracle, c *rec, cs Case) {
	w, s := cs.W, cs.S
	if w == nil || s == nil {
		c.TieFail("bad-case", "session case without wallet / session part", cs)
		return
	}
	then := s.Then
	if then == "" {
		then = "only"
	}
	kind := "session-" + then
	if s.Sign >= 0 {
		kind += "-after-sign"
	}
	c.Eval(kind, fmt.Sprintf("%+v|%+v", *w, *s))
	dir, err := os.MkdirTemp(walletTmp, "sess")
	if err != nil {
		c.TieFail("infra", err.Error(), cs)
		return
	}
	defer os.RemoveAll(dir)
	cfg, _ := w.args()
	os.WriteFile(filepath.Join(dir, "wallet.cfg"), []byte(cfg), 0600)
	os.WriteFile(filepath.Join(dir, ".secret"), unhx(w.File), 0600)
	var sout []byte
	if w.Scrypt != 0 && w.Bip39 != -1 {
		sout, _ = scrypt.Key(w.pass(), []byte("Gocoin scrypt password salt"), 1<<uint(w.Scrypt), 8, 1, 32)
	}
	ref, refOK := refWallet(w, sout)
	if !refOK || len(ref.keys) == 0 || s.Sign >= len(ref.keys) {
		c.Hit("session-config-outside-spec")
		return
	}
	pubs := make([][]byte, len(ref.keys))
	for i, k := range ref.keys {
		pubs[i] = refPub(k.priv)
	}
	whose := func(pub []byte) int {
		for i := range pubs {
			if bytes.Equal(pubs[i], pub) {
				return i
			}
		}
		return -1
	}
	vpk, _ := w.versions()
	dest := refB58Check(append([]byte{vpk}, refHash160([]byte("somebody else "+s.Salt))...))

	// ---- the balance folder: one funding transaction paying the chosen listed keys
	var spentOuts []*btc.TxOut
	var fundID *btc.Uint256
	if len(s.Utxos) > 0 {
		for _, u := range s.Utxos {
			if u.Key >= len(pubs) {
				c.Hit("session-config-outside-spec")
				return
			}
		}
		ftx := &btc.Tx{Version: 1}
		in := &btc.TxIn{Sequence: 0xffffffff, ScriptSig: []byte{0x51}}
		copy(in.Input.Hash[:], refDsha(append([]byte("funding"), unhx(s.Salt)...)))
		ftx.TxIn = []*btc.TxIn{in}
		for _, u := range s.Utxos {
			to := &btc.TxOut{Value: u.Value, Pk_script: sessScript(u.Form, pubs[u.Key])}
			ftx.TxOut = append(ftx.TxOut, to)
			spentOuts = append(spentOuts, to)
		}
		raw := ftx.Serialize()
		ftx.SetHash(raw)
		fundID = &ftx.Hash
		os.MkdirAll(filepath.Join(dir, "balance"), 0700)
		os.WriteFile(filepath.Join(dir, "balance", fundID.String()+".tx"), raw, 0600)
		var ub strings.Builder
		for i := range s.Utxos {
			fmt.Fprintf(&ub, "%s-%03d # output %d\n", fundID.String(), i, i)
		}
		os.WriteFile(filepath.Join(dir, "balance", "unspent.txt"), []byte(ub.String()), 0600)
	}

	// ---- the command line
	var extra []string
	var ops []string // the model's operations, filled in as the run is decoded
	signAddr := ""
	if s.Sign >= 0 {
		signAddr = ref.keys[s.Sign].p2kh
		if s.SignForm == "listed" && w.AType != "pks" {
			signAddr = ref.keys[s.Sign].listed
		}
		extra = append(extra, "-sign", signAddr)
		if s.Hash != "" {
			extra = append(extra, "-hash", s.Hash)
		} else {
			extra = append(extra, "-msg", s.Msg)
		}
		c.Hit("session-sign-" + s.SignForm)
	}
	var total uint64
	for _, u := range s.Utxos {
		total += u.Value
	}
	switch s.Then {
	case "send":
		amt := s.Utxos[0].Value / 2
		extra = append(extra, "-send", fmt.Sprintf("%s=%d.%08d", dest, amt/1e8, amt%1e8), "-fee", "0.0001", "-txfn", "out.txt")
		if s.UseAll {
			extra = append(extra, "-useallinputs")
		}
	case "raw":
		rtx := &btc.Tx{Version: 2}
		for i := range s.Utxos {
			in := &btc.TxIn{Sequence: 0xfffffffd}
			in.Input.Hash = fundID.Hash
			in.Input.Vout = uint32(i)
			rtx.TxIn = append(rtx.TxIn, in)
		}
		da, _ := btc.NewAddrFromString(dest)
		rtx.TxOut = []*btc.TxOut{{Value: total - 10000, Pk_script: da.OutScript()}}
		os.WriteFile(filepath.Join(dir, "raw.txt"), []byte(hex.EncodeToString(rtx.Serialize())), 0600)
		if s.Sign >= 0 {
			extra = append(extra, "-send", dest+"=0.0001") // main() goes on after -sign only when -send is given
		}
		extra = append(extra, "-raw", "raw.txt", "-txfn", "out.txt")
	case "list":
		extra = append(extra, "-send", dest+"=0.0001", "-l")
	}
	if s.Rfc {
		extra = append(extra, "-rfc6979")
	}
	rn := runWallet(dir, w, extra...)
	reported := false
	fail := func(key, what string) {
		reported = true
		c.PropFail(key, what+" [wallet "+strings.Join(extra, " ")+"] stderr: "+strings.TrimSpace(lastLines(rn.stderr, 3)), cs)
	}
	defer func() {
		if rn.code != 0 && !reported {
			fail("session-run-fails", fmt.Sprintf("a valid combined run ends with exit code %d", rn.code))
		}
	}()

	// ---- 1. the message / hash signature
	signer := -1 // the key (index in the reference list) whose public key the real signature speaks for
	if s.Sign >= 0 {
		ops = append(ops, "make", "msg:"+hx([]byte(signAddr)))
		if s.Hash != "" {
			pk := unhx(lineAfter(rn.stdout, "PublicKey:"))
			var der []byte
			for _, l := range strings.Split(rn.stdout, "\n") {
				if b, e := hex.DecodeString(strings.TrimSpace(l)); e == nil && len(b) > 8 && b[0] == 0x30 {
					der = b
				}
			}
			if len(der) > 0 {
				der = der[:len(der)-1] // Signature.Bytes() appends the hash type
			}
			r1, s1, ok := parseDer(der)
			switch {
			case len(pk) == 0 || !ok:
				fail("session-message-key", "wallet -sign "+signAddr+" -hash prints no public key / signature")
			case !bytes.Equal(pk, pubs[s.Sign]):
				fail("session-message-key", "wallet -sign "+signAddr+" -hash signs for public key "+hx(pk)+", the listed address belongs to "+hx(pubs[s.Sign]))
			case !refEcdsaVerify(pk, unhx(s.Hash), r1, s1):
				fail("session-message-key", "the signature printed for -hash does not verify under the public key of the listed address "+signAddr)
			default:
				signer = s.Sign
			}
		} else {
			var sig []byte
			for _, l := range strings.Split(rn.stdout, "\n") {
				if b, e := base64.StdEncoding.DecodeString(strings.TrimSpace(l)); e == nil && len(b) == 65 {
					sig = b
				}
			}
			if sig == nil || sig[0] < 31 || sig[0] > 34 {
				fail("session-message-key", "wallet -sign "+signAddr+" -msg prints no compact signature")
			} else {
				q := refRecover(refMsgHash([]byte(s.Msg), w.Ltc), new(big.Int).SetBytes(sig[1:33]), new(big.Int).SetBytes(sig[33:]), int(sig[0]-31))
				signer = whose(q)
				if !bytes.Equal(q, pubs[s.Sign]) {
					fail("session-message-key", fmt.Sprintf("the message signature made for the listed address %s recovers to %s (key %d of the list), the address belongs to %s", signAddr, hx(q), signer, hx(pubs[s.Sign])))
				}
			}
		}
	}

	// ---- 2. the transaction
	var txKeys []int  // per input: the listed key whose output it spends (-1: a foreign output, left unsigned)
	var txVouts []int // per input: the output of the funding transaction
	txSigned := false
	if s.Then == "send" || s.Then == "raw" {
		ob, _ := os.ReadFile(filepath.Join(dir, "out.txt"))
		raw, _ := hex.DecodeString(strings.TrimSpace(string(ob)))
		tx, n := btc.NewTx(raw)
		if tx == nil || n != len(raw) || len(tx.TxIn) == 0 {
			fail("session-run-fails", "the run writes no transaction")
		} else {
			tx.SetHash(raw)
			spent := make([]*btc.TxOut, len(tx.TxIn))
			okIn := true
			var scrs []string
			for i, in := range tx.TxIn {
				if in.Input.Hash != fundID.Hash || int(in.Input.Vout) >= len(s.Utxos) {
					okIn = false
					break
				}
				spent[i] = spentOuts[in.Input.Vout]
				txKeys = append(txKeys, s.Utxos[in.Input.Vout].Key)
				txVouts = append(txVouts, int(in.Input.Vout))
				scrs = append(scrs, hx(spent[i].Pk_script))
			}
			if !okIn {
				fail("session-signs-with-listed-key", "the transaction spends an output that is not in the balance folder")
			} else {
				txSigned = true
				ops = append(ops, "make", "tx:"+strings.Join(scrs, ","))
				for i := range tx.TxIn {
					u := s.Utxos[tx.TxIn[i].Input.Vout]
					if isForeign(u.Form, w.AType) {
						// an output the wallet does not own: -send must not have selected it; -raw must leave the input unsigned
						unsigned := len(tx.TxIn[i].ScriptSig) == 0 && (tx.SegWit == nil || i >= len(tx.SegWit) || len(tx.SegWit[i]) == 0)
						switch {
						case s.Then == "send":
							fail("session-foreign-script", fmt.Sprintf("-send selected output %d, a script (%s, %s) that only carries a hash of listed key #%d under another template - not an output of any listed address", tx.TxIn[i].Input.Vout, u.Form, hx(spent[i].Pk_script), u.Key))
							txSigned = false
						case !unsigned:
							fail("session-foreign-script", fmt.Sprintf("-raw signed input %d, which spends a script (%s, %s) that only carries a hash of listed key #%d under another template; verifies=%v", i, u.Form, hx(spent[i].Pk_script), u.Key, sessVerifyInput(tx, spent, i)))
							txSigned = false
						default:
							c.Hit("session-foreign-left-unsigned-" + u.Form)
							txKeys[i] = -1
						}
						if !txSigned {
							break
						}
						continue
					}
					c.Hit("session-input-" + u.Form)
					if s.Sign >= 0 && u.Key == s.Sign {
						c.Hit("session-input-of-the-key-that-signed-the-message")
					}
					var carried []byte
					switch u.Form {
					case "p2pkh":
						carried = lastPush(tx.TxIn[i].ScriptSig)
					case "p2sh", "p2wpkh":
						if tx.SegWit != nil && i < len(tx.SegWit) && len(tx.SegWit[i]) == 2 {
							carried = tx.SegWit[i][1]
						}
					}
					if u.Form != "p2tr" && !bytes.Equal(carried, pubs[u.Key]) {
						fail("session-signs-with-listed-key", fmt.Sprintf("input %d spends an output of listed address #%d (%s) but carries public key %s instead of %s", i, u.Key, u.Form, hx(carried), hx(pubs[u.Key])))
						txSigned = false
						break
					}
					if !sessVerifyInput(tx, spent, i) {
						fail("session-signs-with-listed-key", fmt.Sprintf("input %d spends an output of listed address #%d %s (%s): the signature the wallet made does NOT verify - it was not made with the private key of that address", i, u.Key, ref.keys[u.Key].listed, u.Form))
						txSigned = false
						break
					}
				}
			}
		}
	}

	// ---- 2b. -send: which outputs of the balance folder the wallet took for its own (load_balance: pkscr_to_key)
	var ownQuery []string // scripts of the whole folder, for the model's pkscr_to_key_idx (asked only when a foreign form is there)
	if s.Then == "send" && txSigned {
		hasForeign := false
		selected := map[int]bool{}
		for _, k := range txVouts {
			selected[k] = true
		}
		for k, u := range s.Utxos {
			if isForeign(u.Form, w.AType) {
				hasForeign = true
				c.Hit("session-foreign-not-selected-" + u.Form)
			} else if s.UseAll && !selected[k] {
				fail("session-run-fails", fmt.Sprintf("-send -useallinputs leaves out output %d (%s), an output of listed address #%d", k, u.Form, u.Key))
			}
		}
		if hasForeign && s.UseAll {
			for _, to := range spentOuts {
				ownQuery = append(ownQuery, hx(to.Pk_script))
			}
		}
	}

	// ---- 3. a list printed inside the combined run
	listedN := 0
	if s.Then == "list" {
		wtxt, _ := os.ReadFile(filepath.Join(dir, "wallet.txt"))
		var got []string
		for _, l := range strings.Split(strings.TrimRight(string(wtxt), "\n"), "\n") {
			if !strings.HasPrefix(l, "#") && l != "" {
				got = append(got, strings.SplitN(l, " ", 2)[0])
			}
		}
		reps := 0
		listedN = len(got)
		good := len(got) > 0 && len(got)%len(ref.keys) == 0
		for i := 0; good && i < len(got); i++ {
			good = got[i] == ref.keys[i%len(ref.keys)].listed
		}
		if good {
			reps = len(got) / len(ref.keys)
			c.Hit(fmt.Sprintf("session-list-printed-%dx", reps))
			ops = append(ops, "make")
		} else {
			fail("session-list", fmt.Sprintf("wallet -l inside a combined run lists %d addresses that are not the reference list of %d (repeated)", len(got), len(ref.keys)))
		}
	}

	// ---- tie: the store model on the same operations
	if len(ops) == 0 {
		return
	}
	req := fmt.Sprintf("session %d %s %d %d %d %d %s %s %s %s %s %s %s", w.Type, hx([]byte(w.HdPath)), w.Bip39, w.Scrypt, w.HdSubs,
		w.KeyCnt, b2s(w.Testnet), b2s(w.Ltc), w.AType, hx(unhx(w.Seed)), hx(unhx(w.File)), hx(sout), strings.Join(ops, " "))
	rep := strings.Fields(o.MustAsk(req))
	if len(rep) < 2+len(ops) || rep[0] != "ok" {
		if len(rep) >= 2 && rep[0] == "err" && rep[1] == "hd-outside" {
			c.Hit("outside-model")
			return
		}
		c.TieFail("session-oracle", "the store model refuses the session: "+strings.Join(rep, " "), cs)
		return
	}
	used := rep[2:]
	tie := true
	// modelKey: the public key of the key bytes the model says operation `op` uses for its k-th lookup
	modelKey := func(op, k int) (int, []byte) {
		f := strings.Split(used[op], ",")
		if k >= len(f) || f[k] == "none" || f[k] == "-" {
			return -1, nil
		}
		p := strings.SplitN(f[k], ":", 2)
		var idx int
		fmt.Sscan(p[0], &idx)
		return idx, refPub(unhx(p[1]))
	}
	op := 0
	if s.Sign >= 0 {
		idx, mp := modelKey(1, 0)
		if signer >= 0 && !bytes.Equal(mp, pubs[signer]) {
			tie = false
			c.TieFail("session-model", fmt.Sprintf("message signature: the wallet signs with listed key %d, the store model with record %d (public key %s)", signer, idx, hx(mp)), cs)
		}
		op = 2
	}
	if txSigned {
		for i, k := range txKeys {
			idx, mp := modelKey(op+1, i)
			if k < 0 {
				if mp != nil {
					tie = false
					c.TieFail("session-model", fmt.Sprintf("input %d spends a foreign-form script: the wallet finds no key, the store model record %d", i, idx), cs)
					break
				}
				continue
			}
			if !bytes.Equal(mp, pubs[k]) {
				tie = false
				c.TieFail("session-model", fmt.Sprintf("input %d: the wallet signs with listed key %d, the store model with record %d (public key %s)", i, k, idx, hx(mp)), cs)
				break
			}
		}
	}
	if s.Then == "list" {
		var n int
		fmt.Sscan(rep[1], &n)
		if n != listedN {
			tie = false
			c.TieFail("session-model", fmt.Sprintf("the store model holds %d records at the end, the wallet listed %d", n, listedN), cs)
		}
	}
	if len(ownQuery) > 0 {
		// pkscr_to_key_idx over the whole folder (what load_balance asks): the model must own exactly what the wallet selected
		req2 := fmt.Sprintf("session %d %s %d %d %d %d %s %s %s %s %s %s make tx:%s", w.Type, hx([]byte(w.HdPath)), w.Bip39, w.Scrypt, w.HdSubs,
			w.KeyCnt, b2s(w.Testnet), b2s(w.Ltc), w.AType, hx(unhx(w.Seed)), hx(unhx(w.File)), hx(sout), strings.Join(ownQuery, ","))
		rep2 := strings.Fields(o.MustAsk(req2))
		if len(rep2) != 4 || rep2[0] != "ok" || len(strings.Split(rep2[3], ",")) != len(ownQuery) {
			tie = false
			c.TieFail("session-oracle", "the store model refuses the ownership query: "+strings.Join(rep2, " "), cs)
		} else {
			selected := map[int]bool{}
			for _, k := range txVouts {
				selected[k] = true
			}
			for k, f := range strings.Split(rep2[3], ",") {
				if (f != "none") != selected[k] {
					tie = false
					c.TieFail("session-model", fmt.Sprintf("output %d (%s) of the balance folder: selected by the wallet = %v, owned according to the store model = %v", k, s.Utxos[k].Form, selected[k], f != "none"), cs)
					break
				}
			}
		}
	}
	if tie {
		c.TieOK()
	}
}

func lastLines(s string, n int) string {
	l := strings.Split(strings.TrimSpace(s), "\n")
	if len(l) > n {
		l = l[len(l)-n:]
	}
	return strings.Join(l, " | ")
}

var _ = sha256.New
