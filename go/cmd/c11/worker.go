// worker.go — the part of the C11 harness that runs the REAL code. It is compiled twice from this same
// package: without -race (orchestrator, see main.go) and with `go build -race -tags verif` (worker).
// `c11 worker -seed S -tier T -out FILE` generates a scenario sequentially (the reference), replays it
// under perturbed schedules (GOMAXPROCS 1..16, Gosched/sleeps at every vhook.Point, an auxiliary
// goroutine issuing HurryUp/AbortWriting), compares verdict/tip/UTXO dump with the reference, records
// every UTXO.db that becomes visible (header vs content) and the vhook event trace of every replay.
package main

import (
	"encoding/binary"
	"encoding/hex"
	"encoding/json"
	"flag"
	"fmt"
	"io"
	"os"
	"path/filepath"
	"runtime"
	"sort"
	"strings"
	"sync"
	"sync/atomic"
	"syscall"
	"time"

	"github.com/piotrnar/gocoin/lib/btc"
	"github.com/piotrnar/gocoin/lib/chain"
	"github.com/piotrnar/gocoin/lib/others/memory"
	"github.com/piotrnar/gocoin/lib/others/vhook"
	"github.com/piotrnar/gocoin/lib/utxo"
	"verif/chainkit"
	"verif/vlib"
)

type Cfg struct {
	Name    string `json:"name"`
	Procs   int    `json:"procs"`
	Perturb uint64 `json:"perturb"` // 0 = no perturbation
	TargetU int64  `json:"target_us"`
	Aux     bool   `json:"aux"`
	// Alloc: the UTXO records live in gocoin's recycling allocator (lib/others/memory hooked into utxo.Memory_Malloc /
	// Memory_Free exactly as client/common/config.go does by default): a freed record's slot is handed out again at once.
	// The sequential reference always uses the Go heap (where a stale alias of a freed record still reads the old bytes).
	Alloc bool `json:"alloc,omitempty"`
	// UI: the replay plays the main loop of client/main.go with the real text UI (client/usif/textui.MainThread) on a piped
	// keyboard and a seeded operator typing commands, most of them while a block is being committed (operator.go)
	UI bool `json:"ui,omitempty"`
	// AuxAbortOnly: the auxiliary goroutine calls AbortWriting but never HurryUp (job abort: a hurried saver does not look at
	// the abort channel between chunks, so hurrying would turn every abort into "wait for the complete snapshot")
	AuxAbortOnly bool `json:"aux_abort_only,omitempty"`
}

var goHeapMalloc, goHeapFree = utxo.Memory_Malloc, utxo.Memory_Free

// agedAllocator: the allocator of a node that has been running for a while. A fresh allocator serves every size class from the
// untouched rest of its current 1 MB page (about 10000 slots) before it ever looks at its free list, so a short scenario would
// never see a freed slot again; in a running node the pages are full and every allocation pops the most recently freed slot.
// For every small size class: fill the class's page with live slots (they stand for the rest of the UTXO set), then free a
// random third of them (the free-list stock, so that the class does not open a new page during the scenario).
func agedAllocator(seed uint64) *memory.Allocator {
	a := memory.NewAllocator()
	hdr, pg, shl, _, _, slots := memory.VerifConsts()
	g := vlib.NewRng(seed)
	for class, ss := range slots {
		if ss > 320 {
			break
		}
		capn := (pg - hdr) / int(ss)
		size := int(ss) - shl
		live := make([]*[]byte, 0, capn+16)
		for i := 0; i < capn; i++ {
			live = append(live, a.Malloc(size))
		}
		for n := 0; n < 16 && a.VerifClassState(class, 1).Cur != 0; n++ {
			live = append(live, a.Malloc(size))
		}
		for i := capn / 3; i > 0; i-- {
			j := g.Intn(len(live))
			a.Free(live[j])
			live[j] = live[len(live)-1]
			live = live[:len(live)-1]
		}
	}
	return a
}

func useAllocator(on bool, seed uint64) {
	if on {
		a := agedAllocator(seed)
		utxo.Memory_Malloc, utxo.Memory_Free = a.Malloc, a.Free
	} else {
		utxo.Memory_Malloc, utxo.Memory_Free = goHeapMalloc, goHeapFree
	}
}

// undoDigest: the undo file of the tip (what UndoBlockTxs would restore), its records sorted (CommitBlockTxs writes them in
// map order). "" = no such file. It is part of the observable result of a block: nothing reads it until the block is
// disconnected, so a schedule-dependent undo file shows in the UTXO dump only after a reorg - here it shows at once.
func undoDigest(dir string, height uint32) string {
	b, err := os.ReadFile(fmt.Sprint(dir, "undo", string(os.PathSeparator), height))
	if err != nil {
		return ""
	}
	if len(b) < 32 {
		return fmt.Sprintf("short(%d)", len(b))
	}
	lines := []string{hex.EncodeToString(b[:32])}
	off := 32
	for off < len(b) {
		le, n := btc.VLen(b[off:])
		off += n
		if n == 0 || le < 0 || off+le > len(b) {
			lines = append(lines, fmt.Sprintf("garbage at %d", off))
			break
		}
		lines = append(lines, hex.EncodeToString(b[off:off+le]))
		off += le
	}
	sort.Strings(lines[1:])
	return chainkit.DumpHash(lines)
}

type Snap struct {
	Where   string `json:"where"`
	Cfg     string `json:"cfg"`
	Height  uint32 `json:"height"`
	Hash    string `json:"hash"`
	Records int    `json:"records"`
	Dump    string `json:"dump"`
	Want    string `json:"want"`
	WantH   int64  `json:"want_height"`
	Err     string `json:"err,omitempty"`
}

type Diff struct {
	Cfg  string `json:"cfg"`
	Op   int    `json:"op"`
	Note string `json:"note"`
	Ref  Res    `json:"ref"`
	Got  Res    `json:"got"`
}

type Replay struct {
	Cfg    Cfg      `json:"cfg"`
	Events []string `json:"events"`
	Saves  int      `json:"saves"`
	Snaps  int      `json:"snaps"`
	Panic  string   `json:"panic,omitempty"`
}

type WorkerOut struct {
	Seed     uint64         `json:"seed"`
	Scenario string         `json:"scenario"`
	Ops      []string       `json:"ops"` // notes
	Ref      []Res          `json:"ref"`
	Replays  []Replay       `json:"replays"`
	Diffs    []Diff         `json:"diffs"`
	Snaps    []Snap         `json:"snaps"`
	Hist     map[string]int `json:"hist"`
	Commit   []CommitCase   `json:"commit_cases"`
	Fatal    string         `json:"fatal,omitempty"`
	// directed scenario createfail: "ok" or the step that did not return / panicked (+ all goroutine stacks)
	CreateFail       string   `json:"createfail,omitempty"`
	CreateFailStacks string   `json:"createfail_stacks,omitempty"`
	Timing           []string `json:"timing"`
	// replays with the text UI: a typed command never completed / the UI goroutine did not end
	UIStuck string `json:"ui_stuck,omitempty"`
}

// CommitCase: one block whose commitTxs outcome is compared with the Lean fan-out model.
type CommitCase struct {
	Note    string   `json:"note"`
	Verdict string   `json:"verdict"`
	Nins    []int    `json:"nins,omitempty"` // inputs per transaction (coinbase = 0)
	Bad     [][2]int `json:"bad,omitempty"`  // (tx, input) with a corrupted signature
	Early   int      `json:"early"`          // index of the tx at which the main loop returns early, -1 none
	Model   bool     `json:"model"`          // structural data present: compare with the Lean fan-out model
}

// ------------------------------------------------------------------------------------ recorder

type recorder struct {
	mu       sync.Mutex
	events   []string
	ctr      uint64
	seed     uint64
	dir      string
	cfg      string
	snaps    []Snap
	want     map[string]Res    // tip hash -> reference result at that tip
	onPoint  func(name string) // directed scenarios: forced schedule
	operator func(name string) // replays with the text UI: the operator may type a command here
}

func mix(a, b uint64) uint64 {
	z := a*0x9E3779B97F4A7C15 + b
	z = (z ^ (z >> 30)) * 0xBF58476D1CE4E5B9
	z = (z ^ (z >> 27)) * 0x94D049BB133111EB
	return z ^ (z >> 31)
}

var dbgT0 = time.Now()

func (rc *recorder) ev(name string) {
	if os.Getenv("C11_DEBUG") != "" {
		buf := make([]byte, 32)
		buf = buf[:runtime.Stack(buf, false)]
		fmt.Fprintf(os.Stderr, "EV %8.3fms %s %s\n", float64(time.Since(dbgT0).Microseconds())/1000, name, string(buf[:14]))
	}
	rc.mu.Lock()
	rc.events = append(rc.events, name)
	rc.mu.Unlock()
}

func (rc *recorder) hook(name string) {
	if name == "utxo.save.file:renamed" {
		s := readSnapshot(rc.dir + "UTXO.db")
		s.Where = "renamed"
		rc.addSnap(s)
	}
	if name == "utxo.save.file:abort-removed" {
		// the file goroutine of an ABORTED save has just removed its temporary file. save() moved the previous UTXO.db to
		// UTXO.old when it began and the next save() cannot begin before this goroutine reports lastFileClosed: at this point
		// no file may carry the name UTXO.db, and no temporary file may be left
		if _, e := os.Stat(rc.dir + "UTXO.db"); e == nil {
			s := readSnapshot(rc.dir + "UTXO.db")
			s.Where = "after-abort"
			if s.Err == "" {
				s.Err = "a file named UTXO.db exists right after a snapshot was aborted and its temporary file removed"
			}
			rc.addSnap(s)
		}
		m, _ := filepath.Glob(rc.dir + "*.db.tmp")
		left := 0
		for _, f := range m {
			if fi, e := os.Lstat(f); e == nil && !fi.IsDir() { // (scenario createfail blocks a name with a directory)
				left++
			}
		}
		if left > 0 {
			rc.addSnap(Snap{Where: "after-abort", Err: fmt.Sprint("temporary snapshot file still present after utxo.save.file:abort-removed: ", left)})
		}
	}
	rc.ev(name)
	if rc.onPoint != nil {
		rc.onPoint(name)
	}
	if rc.operator != nil {
		rc.operator(name)
	}
	rc.perturb()
}

// perturb: the seeded yield / sleep of one schedule-perturbation point
func (rc *recorder) perturb() {
	if rc.seed != 0 {
		n := atomic.AddUint64(&rc.ctr, 1)
		h := mix(rc.seed, n)
		switch h % 8 {
		case 0, 1, 2:
			runtime.Gosched()
		case 3:
			time.Sleep(time.Duration((h>>8)%300) * time.Microsecond)
		case 4:
			for i := 0; i < int((h>>8)%4); i++ {
				runtime.Gosched()
			}
		}
	}
}

// slowUndoWriter makes the serialisation calls of the undo-writer goroutine of CommitBlockTxs perturbation points too
// (utxo.Serialize is a package-level function variable, and the undo writer is its only caller that passes a buffer): without
// it every point lies in the delete / insert workers and in the main goroutine, i.e. the schedules explored would all have a
// FAST undo writer. Returns the function that restores utxo.Serialize.
func (rc *recorder) slowUndoWriter() func() {
	orig := utxo.Serialize
	var first int32
	utxo.Serialize = func(rec *utxo.UtxoRec, buf []byte) *[]byte {
		if buf != nil {
			if rc.seed != 0 && atomic.AddInt32(&first, 1)%64 == 1 {
				// a writer that starts late: the workers of UnspentDB.commit get ahead of it
				time.Sleep(time.Duration(mix(rc.seed, uint64(atomic.LoadUint64(&rc.ctr)))%1500) * time.Microsecond)
			}
			rc.perturb()
		}
		return orig(rec, buf)
	}
	return func() { utxo.Serialize = orig }
}

func (rc *recorder) addSnap(s Snap) {
	s.Cfg = rc.cfg
	rc.mu.Lock()
	if w, ok := rc.want[s.Hash]; ok {
		s.Want, s.WantH = w.Dump, int64(w.Height)
	} else {
		s.WantH = -1
	}
	rc.snaps = append(rc.snaps, s)
	rc.mu.Unlock()
}

// readSnapshot parses a UTXO.db file independently of NewUnspentDb: header (height, hash, count) and
// the records, rendered exactly like chainkit.UtxoDump.
func readSnapshot(path string) (s Snap) {
	if fi, e := os.Lstat(path); e == nil && fi.Mode()&os.ModeNamedPipe != 0 {
		// directed scenarios that use a FIFO as the temporary file ("slow disk"): reading it here would block for ever
		s.Err = "the file is the FIFO that stood for the temporary file of a snapshot (directed scenario): that temporary file was renamed to " + filepath.Base(path)
		return
	}
	b, err := os.ReadFile(path)
	if err != nil {
		s.Err = "unreadable: " + err.Error()
		return
	}
	return parseSnapshot(b)
}

// parseSnapshot: the bytes of a snapshot file (as they reached the disk)
func parseSnapshot(b []byte) (s Snap) {
	if len(b) < 48 {
		s.Err = fmt.Sprintf("short file (%d bytes)", len(b))
		return
	}
	u64 := binary.LittleEndian.Uint64(b[0:8])
	s.Height = uint32(u64)
	s.Hash = hex.EncodeToString(b[8:40])
	cnt := binary.LittleEndian.Uint64(b[40:48])
	off := 48
	var lines []string
	defer func() {
		if x := recover(); x != nil {
			s.Err = fmt.Sprint("record parse panic: ", x)
		}
	}()
	seen := map[[32]byte]bool{}
	for i := uint64(0); i < cnt; i++ {
		if off >= len(b) {
			s.Err = fmt.Sprintf("truncated: %d of %d records", i, cnt)
			return
		}
		le, n := btc.VLen(b[off:])
		off += n
		if le <= 32 || off+le > len(b) {
			s.Err = fmt.Sprintf("record %d: bad length %d at %d of %d", i, le, off, len(b))
			return
		}
		full := utxo.NewUtxoRec(b[off : off+le])
		off += le
		if seen[full.TxID] {
			s.Err = "duplicate record " + hex.EncodeToString(full.TxID[:8])
			return
		}
		seen[full.TxID] = true
		for vout, o := range full.Outs {
			if o == nil {
				continue
			}
			cb := 0
			if full.Coinbase {
				cb = 1
			}
			lines = append(lines, fmt.Sprintf("%s:%d %d %d %d %s", hex.EncodeToString(full.TxID[:]), vout, o.Value, full.InBlock, cb, hex.EncodeToString(o.PKScr)))
		}
		s.Records++
	}
	if off != len(b) {
		s.Err = fmt.Sprintf("%d trailing bytes after %d records", len(b)-off, cnt)
		return
	}
	sort.Strings(lines)
	s.Dump = chainkit.DumpHash(lines)
	return
}

// ------------------------------------------------------------------------------------ executor

func waitSaved(db *utxo.UnspentDB) {
	for i := 0; i < 200000 && db.WritingInProgress.Get(); i++ {
		time.Sleep(50 * time.Microsecond)
	}
}

func execOp(k *chainkit.Kit, op *Op, rc *recorder, reference bool) (res Res) {
	switch op.Kind {
	case "block":
		if rc != nil {
			rc.ev("h:block-call")
		}
		r := k.Submit(op.Raw)
		res.Verdict = r.String()
		if rc != nil {
			rc.ev("h:block-ret")
		}
	case "idle":
		if rc != nil {
			rc.ev("h:idle-call")
		}
		v := k.Ch.Idle()
		res.Verdict = fmt.Sprint("idle:", v)
		if rc != nil {
			rc.ev(fmt.Sprint("h:idle-ret:", v))
		}
		if reference {
			waitSaved(k.Ch.Unspent)
			res.Verdict = "idle" // whether a save starts depends on DirtyDB only in the reference
		} else {
			res.Verdict = "idle"
		}
	case "savewait":
		waitSaved(k.Ch.Unspent)
		res.Verdict = "savewait"
	case "hurry":
		k.Ch.Unspent.HurryUp()
		res.Verdict = "hurry"
	case "abort":
		k.Ch.Unspent.AbortWriting()
		res.Verdict = "abort"
	}
	res.Tip, res.Height = k.Tip()
	res.Dump = chainkit.DumpHash(chainkit.UtxoDump(k.Ch.Unspent))
	if op.Kind == "block" {
		res.Undo = undoDigest(k.Dir, res.Height)
	}
	return
}

// ------------------------------------------------------------------------------------ scenario generation

type scenario struct {
	name  string
	compr bool // the chain keeps its UTXO records in the compressed format (ChainOpts.CompressUTXO)
	gt    uint32
	ops   []Op
	ref   []Res
	hist  map[string]int
}

func (sc *scenario) want() map[string]Res {
	m := map[string]Res{}
	for _, r := range sc.ref {
		m[r.Tip] = r
	}
	return m
}

// kitOpts: chain options of a scenario (reference run and every replay use the same).
func kitOpts(gt uint32, compr bool) chainkit.Opts {
	o := chainkit.Opts{GenesisTime: gt}
	if compr {
		o.ChainOpts = &chain.NewChanOpts{CompressUTXO: true}
	}
	return o
}

// genScenario: compr selects the compressed-records variant: UTXO records are serialized by SerializeC (shared
// scratch pool under comp_pool_mutex); blocks carry > 32 new transactions (several do_add workers of
// UnspentDB.commit serialize at the same time) which partially spend earlier fan-outs (do_del workers
// re-serialize the remaining outputs) while the undo goroutine serializes the spent records.
func genScenario(seed uint64, thorough bool, gt uint32, compr bool, recycle bool) (*scenario, []CommitCase) {
	runtime.GOMAXPROCS(1)
	vhook.Set(nil)
	utxo.UTXO_WRITING_TIME_TARGET = 0
	g := vlib.NewRng(seed)
	k, err := chainkit.New(kitOpts(gt, compr), g.Fork())
	if err != nil {
		panic(err)
	}
	defer k.Close()
	sc := &scenario{name: "chain", gt: gt, hist: map[string]int{}, compr: compr}
	var cases []CommitCase
	ge := newGen(k, g.Fork())
	ge.cheap = compr
	// unsigned outputs carry their own bytes (0 = plain OP_TRUE): a record that comes back from undo data, or goes into a
	// snapshot, with the bytes of ANOTHER record then differs in the dump
	ge.tagLen = g.Pick(0, 8, 20, 33)
	if recycle {
		// records of one shape (same allocator size class), spent whole and re-created by every block
		sc.name = "recycle"
		ge.tagLen = g.Pick(20, 21, 32, 33, 34, 60)
	}
	if compr {
		sc.name = "compr"
		if !k.Ch.Unspent.ComprssedUTXO {
			panic("the chain did not come up in compressed-UTXO mode")
		}
	}
	do := func(op Op) Res {
		r := execOp(k, &op, nil, true)
		sc.ops = append(sc.ops, op)
		sc.ref = append(sc.ref, r)
		sc.hist["op:"+op.Kind]++
		if op.Kind == "block" {
			// hypothesis Nodup of disjoint_updates_commute on this block: the HashMap keys (first 8 txid bytes) of all records
			// UnspentDB.commit adds (one per transaction) or deletes/rewrites (one per spent txid) are pairwise different
			if bl, e := btc.NewBlock(op.Raw); e == nil && bl.BuildTxList() == nil && len(bl.Txs) > 1 {
				full := map[[32]byte]bool{}
				pref := map[[8]byte]bool{}
				add := func(h []byte) {
					var f [32]byte
					var p [8]byte
					copy(f[:], h)
					copy(p[:], h)
					if !full[f] {
						full[f] = true
						if pref[p] {
							sc.hist["commit:update-keys-COLLIDE"]++
						}
						pref[p] = true
					}
				}
				for i, tx := range bl.Txs {
					add(tx.Hash.Hash[:])
					if i > 0 {
						for _, in := range tx.TxIn {
							add(in.Input.Hash[:])
						}
					}
				}
				sc.hist["commit:update-keys-distinct"]++
			}
		}
		return r
	}
	for i := 0; i < 108; i++ {
		do(Op{Kind: "block", Raw: k.Build(chainkit.BlockSpec{}), Note: "empty"})
	}
	do(Op{Kind: "idle"})
	rounds := 9
	ntx, maxin := 8, 5
	if thorough {
		rounds, ntx, maxin = 28, 14, 8
	}
	kinds := []string{"valid", "valid", "valid", "badsig", "valid", "dblspend", "valid", "unknown", "overspend", "valid", "badsig", "malformed", "side", "sidebad"}
	fixed := []string{"valid", "valid", "badsig", "malformed", "side", "dblspend", "sidebad", "valid"} // corpus part: always present
	if compr {
		rounds, maxin = 8, 2
		if thorough {
			rounds = 20
		}
		kinds = []string{"valid", "valid", "valid", "side", "valid", "badsig", "sidebad", "valid"}
		fixed = []string{"valid", "valid", "valid", "side", "valid", "sidebad", "valid"}
	}
	if recycle {
		// "churn": a block that spends many whole records and creates as many of the same shape (the first one fans out);
		// "side": the tip (a churn block) is disconnected - its undo data is applied and stays visible in the set
		rounds = 11
		if thorough {
			rounds = 24
		}
		kinds = []string{"churn", "churn", "churn", "side", "churn", "sidebad", "valid"}
		fixed = []string{"churn", "churn", "churn", "side", "churn", "churn", "side", "churn", "sidebad", "churn", "side"}
	}
	for round := 0; round < rounds; round++ {
		ge.refresh()
		if compr {
			ntx = 40 + g.Intn(45) // > 32 new records: at least two do_add workers
		}
		kind := kinds[g.Intn(len(kinds))]
		if round < len(fixed) {
			kind = fixed[round]
		}
		switch kind {
		case "side", "sidebad":
			// a side branch from the parent of the tip: first block stored only, second one triggers
			// MoveToBlock (undo tip, apply side). "sidebad": the second block overspends -> reorg fails,
			// the chain moves back (same tip hash reached twice).
			tip := k.Ch.LastBlock()
			if tip.Parent == nil {
				continue
			}
			raw1 := k.Build(chainkit.BlockSpec{Parent: tip.Parent, Time: tip.Timestamp() + 1})
			do(Op{Kind: "block", Raw: raw1, Note: "side-1 (stored, no move)"})
			bl1, _ := btc.NewBlock(raw1)
			n1 := nodeOf(k.Ch, bl1.Hash)
			if n1 == nil {
				continue
			}
			spec := chainkit.BlockSpec{Parent: n1}
			if kind == "sidebad" {
				var c *chainkit.Coin
				for _, x := range ge.coins {
					if x.Kind == "anyone" && x.Height < tip.Height {
						c = x
						break
					}
				}
				if c != nil {
					tx := chainkit.BuildTx(1, []*chainkit.Coin{c}, nil, []chainkit.OutSpec{{Value: c.Value + 777, Script: chainkit.AnyoneScript}}, 0)
					spec.Txs = []*btc.Tx{tx}
				}
			}
			r := do(Op{Kind: "block", Raw: k.Build(spec), Note: kind + "-2 (reorg)"})
			sc.hist["reorg:"+kind]++
			cases = append(cases, CommitCase{Note: kind, Verdict: r.Verdict, Early: -1})
		case "malformed":
			txs, fees, note := ge.blockTxs("valid", ntx+6, maxin)
			raw := k.Build(chainkit.BlockSpec{Txs: txs, Fees: fees})
			cut := len(raw) - 7 - g.Intn(20)
			if cut > 81 {
				raw = raw[:cut]
			}
			r := do(Op{Kind: "block", Raw: raw, Note: "malformed(truncated) " + note})
			sc.hist["block:malformed"]++
			cases = append(cases, CommitCase{Note: "malformed", Verdict: r.Verdict, Early: -1})
		default:
			var txs []*btc.Tx
			var fees uint64
			var note string
			if kind == "churn" {
				txs, fees, note = ge.churnTxs(50 + g.Intn(100))
			} else {
				txs, fees, note = ge.blockTxs(kind, ntx, maxin)
			}
			spec := chainkit.BlockSpec{Txs: txs, Fees: fees}
			if kind != "valid" && kind != "churn" {
				spec.Fees = 0
			}
			r := do(Op{Kind: "block", Raw: k.Build(spec), Note: note})
			sc.hist["block:"+kind]++
			if compr {
				if len(txs) > 32 && r.Verdict == "ok" {
					sc.hist["compr:block-over-32-txs"]++
				} else {
					sc.hist["compr:block-small-or-rejected"]++
				}
			}
			cc := CommitCase{Note: note, Verdict: r.Verdict, Early: -1, Nins: []int{0}}
			for _, tx := range txs {
				cc.Nins = append(cc.Nins, len(tx.TxIn))
			}
			cc.Bad = ge.lastBad
			switch kind {
			case "valid", "badsig", "churn":
				cc.Model = true
			case "dblspend", "unknown":
				cc.Model = true
				cc.Early = len(txs)
			}
			cases = append(cases, cc)
		}
		switch g.Intn(4) {
		case 0, 1:
			do(Op{Kind: "idle"})
		case 2:
			do(Op{Kind: "idle"})
			do(Op{Kind: "savewait"})
		case 3:
			// a commit that arrives right after Save() returned: the block is empty, so nothing but the hand-shake of
			// abortWriting stands between the just started saver and the mutation
			// and the main loop asking twice (a node calls Idle whenever it has nothing else to do): the second call comes
			// while the saver started by the first may not have executed a single statement yet
			do(Op{Kind: "idle"})
			if g.Bool() {
				do(Op{Kind: "idle"})
				sc.hist["op:idle-right-after-idle"]++
			}
			do(Op{Kind: "block", Raw: k.Build(chainkit.BlockSpec{}), Note: "empty-after-idle"})
			sc.hist["block:empty-right-after-idle"]++
		}
		if g.Chance(1, 5) {
			do(Op{Kind: "hurry"})
		}
		if g.Chance(1, 6) {
			do(Op{Kind: "abort"})
		}
	}
	do(Op{Kind: "idle"})
	for k, v := range ge.hist {
		sc.hist[k] = v
	}
	return sc, cases
}

// ------------------------------------------------------------------------------------ replay

func replay(sc *scenario, cfg Cfg, out *WorkerOut) {
	t0 := time.Now()
	defer func() { out.Timing = append(out.Timing, fmt.Sprintf("%s %.1fs", cfg.Name, time.Since(t0).Seconds())) }()
	runtime.GOMAXPROCS(cfg.Procs)
	utxo.UTXO_WRITING_TIME_TARGET = time.Duration(cfg.TargetU) * time.Microsecond
	useAllocator(cfg.Alloc, cfg.Perturb)
	defer useAllocator(false, 0)
	k, err := chainkit.New(kitOpts(sc.gt, sc.compr), vlib.NewRng(1))
	if err != nil {
		panic(err)
	}
	rc := &recorder{seed: cfg.Perturb, dir: k.Dir, cfg: cfg.Name, want: sc.want()}
	vhook.Set(rc.hook)
	defer rc.slowUndoWriter()()
	rp := Replay{Cfg: cfg}
	var ui *uiSession
	if cfg.UI {
		ui = startUI(k.Ch, cfg.Perturb)
		rc.operator = ui.at
	}
	stop := make(chan bool)
	var auxwg sync.WaitGroup
	if cfg.Aux {
		auxwg.Add(1)
		go func() {
			defer auxwg.Done()
			g := vlib.NewRng(cfg.Perturb ^ 0xa5a5)
			db := k.Ch.Unspent
			for {
				select {
				case <-stop:
					return
				default:
				}
				time.Sleep(time.Duration(50+g.Intn(600)) * time.Microsecond)
				c := g.Intn(3)
				if cfg.UI && c == 1 {
					// with the operator's direct Save() on the main goroutine (no db.Mutex) an AbortWriting on ANOTHER goroutine is a
					// combination the node does not have (every call site of AbortWriting is on the main goroutine: generated fact
					// mainOnlyCallSites) - its writingDone.Wait would run concurrently with Save's writingDone.Add
					c = 0
				}
				if cfg.AuxAbortOnly && c == 0 {
					c = 2
				}
				switch c {
				case 0:
					rc.ev("x:hurry")
					db.HurryUp()
				case 1:
					rc.ev("x:abort-call")
					db.AbortWriting()
					rc.ev("x:abort-ret")
				default:
					runtime.Gosched()
				}
			}
		}()
	}
	func() {
		defer func() {
			if x := recover(); x != nil {
				rp.Panic = fmt.Sprint(x)
			}
		}()
		for i := range sc.ops {
			if ui != nil {
				ui.betweenOps(i)
				if sc.ops[i].Kind == "block" {
					atomic.StoreInt32(&ui.inCommit, 1)
				}
			}
			got := execOp(k, &sc.ops[i], rc, false)
			if ui != nil {
				atomic.StoreInt32(&ui.inCommit, 0)
			}
			if got != sc.ref[i] {
				out.Diffs = append(out.Diffs, Diff{Cfg: cfg.Name, Op: i, Note: sc.ops[i].Kind + " " + sc.ops[i].Note, Ref: sc.ref[i], Got: got})
				if len(out.Diffs) > 20 {
					break
				}
			}
		}
	}()
	if ui != nil {
		ui.finish()
		ui.hmu.Lock()
		for k, v := range ui.hist {
			out.Hist[k] += v
		}
		ui.hmu.Unlock()
		if ui.stuck != "" && out.UIStuck == "" {
			out.UIStuck = cfg.Name + ": " + ui.stuck
		}
	}
	close(stop)
	auxwg.Wait()
	tip, _ := k.Tip()
	rc.ev("h:close-call")
	k.Ch.Close()
	rc.ev("h:close-ret")
	k.Ch = nil
	// after Close every file goroutine has finished: the file under the final name must be a snapshot of its header's block
	s := readSnapshot(k.Dir + "UTXO.db")
	s.Where = "final"
	rc.addSnap(s)
	if s.Err == "" && s.Hash != tip {
		// Close saves when dirty, so the final file must describe the tip
		s2 := s
		s2.Where = "final-not-tip"
		s2.Err = "after Close the snapshot is not of the tip " + tip
		rc.addSnap(s2)
	}
	if m, _ := filepath.Glob(k.Dir + "*.db.tmp"); len(m) > 0 {
		rc.addSnap(Snap{Where: "final", Err: fmt.Sprint("temporary snapshot files left after Close: ", len(m))})
	}
	vhook.Set(nil)
	k.Close()
	rp.Events = rc.events
	for _, e := range rc.events {
		if e == "utxo.save:begin" {
			rp.Saves++
		}
	}
	rp.Snaps = len(rc.snaps)
	out.Snaps = append(out.Snaps, rc.snaps...)
	out.Replays = append(out.Replays, rp)
}

// ------------------------------------------------------------------------------------ directed: same tip saved twice

// directedResave forces the schedule "file goroutine of save #1 still writing while the same tip is
// saved again" (tip N saved; block N+1 connected and undone; tip N saved again).
func directedResave(seed uint64, gt uint32, out *WorkerOut) {
	runtime.GOMAXPROCS(4)
	vhook.Set(nil)
	utxo.UTXO_WRITING_TIME_TARGET = 0
	g := vlib.NewRng(seed ^ 0x5151)
	k, err := chainkit.New(chainkit.Opts{GenesisTime: gt}, g.Fork())
	if err != nil {
		panic(err)
	}
	ge := newGen(k, g.Fork())
	for i := 0; i < 103; i++ {
		k.MustExtend(nil, 0)
	}
	ge.refresh()
	// one block with a chain of fan-out transactions carrying large scripts: the snapshot needs several 64 KB chunks
	var txs []*btc.Tx
	var fees uint64
	cur := ge.take(&ge.coins, 1, false)
	for t := 0; t < 700 && len(cur) == 1; t++ {
		tot := cur[0].Value
		nb := 1 + g.Intn(5)
		outs := []chainkit.OutSpec{{Value: tot - uint64(nb)*1000 - 2000, Script: chainkit.AnyoneScript}}
		for i := 0; i < nb; i++ {
			outs = append(outs, chainkit.OutSpec{Value: 1000, Script: append([]byte{0x51}, g.Bytes(70+g.Intn(30))...)})
		}
		tx := chainkit.BuildTx(1, cur, nil, outs, 0)
		fees += 2000
		txs = append(txs, tx)
		cs := chainkit.OutCoins(tx, ge.keys, 104, false)
		cur = []*chainkit.Coin{cs[0]}
	}
	k.MustExtend(txs, fees)
	tipN, hN := k.Tip()
	dumpN := chainkit.DumpHash(chainkit.UtxoDump(k.Ch.Unspent))
	rc := &recorder{dir: k.Dir, cfg: "directed-resave", want: map[string]Res{tipN: {Tip: tipN, Height: hN, Dump: dumpN}}}
	release := make(chan bool)
	var blocked int32
	var renamed int32
	rc.onPoint = func(name string) {
		if name == "utxo.save.file:chunk" && atomic.CompareAndSwapInt32(&blocked, 0, 1) {
			<-release // file goroutine #1 stalls after its first chunk
		}
		if name == "utxo.save.file:renamed" {
			atomic.AddInt32(&renamed, 1)
		}
	}
	vhook.Set(rc.hook)
	rp := Replay{Cfg: Cfg{Name: "directed-resave", Procs: 4}}
	k.Ch.Idle() // save #1 of tip N
	waitSaved(k.Ch.Unspent)
	for t0 := time.Now(); time.Since(t0) < 400*time.Millisecond && atomic.LoadInt32(&blocked) == 0; {
		time.Sleep(200 * time.Microsecond)
	}
	k.MustExtend(nil, 0) // N+1
	k.Ch.UndoLastBlock() // back to N (what a failed reorg does)
	// Idle does not save again at the height already on disk, but Close does (DirtyDB is set by the undo):
	// save #2 of tip N uses the same temporary file name while file goroutine #1 is still alive.
	closed := make(chan bool)
	go func() { k.Ch.Close(); close(closed) }()
	for t0 := time.Now(); time.Since(t0) < 400*time.Millisecond && atomic.LoadInt32(&renamed) == 0; {
		time.Sleep(200 * time.Microsecond)
	}
	rc.ev("h:release")
	close(release)
	<-closed
	k.Ch = nil
	s := readSnapshot(k.Dir + "UTXO.db")
	s.Where = "final"
	rc.addSnap(s)
	vhook.Set(nil)
	k.Close()
	rp.Events = rc.events
	rp.Snaps = len(rc.snaps)
	out.Snaps = append(out.Snaps, rc.snaps...)
	out.Replays = append(out.Replays, rp)
	out.Hist["directed:resave-same-tip"]++
	if atomic.LoadInt32(&blocked) == 0 {
		out.Hist["directed:resave-not-forced"]++
	}
}

// ------------------------------------------------------------------------------------ directed: big set, slow disk

// directedBigSnap: a snapshot of MANY chunks written to a disk that is slower than the serialiser. save() hands its ~64 KB
// chunks to the file goroutine through a bounded channel precisely so that it never waits for the disk; the set here needs more
// chunks than any plausible channel capacity (several hundred KB per record is legal: big output scripts), and the temporary file
// of the snapshot is a FIFO whose reader stalls (seeded: at the start and once more later), so that the file goroutine sits inside
// a Write while save() runs as far ahead as the channel lets it. Every byte that reached the "disk" is then parsed and compared
// with the unspent set of the block named in the header. Under the race detector the same run shows any chunk buffer that the
// serialiser touches again while the file goroutine still owns it.
func directedBigSnap(seed uint64, gt uint32, out *WorkerOut) {
	runtime.GOMAXPROCS(4)
	vhook.Set(nil)
	utxo.UTXO_WRITING_TIME_TARGET = 0 // the unthrottled writer (what HurryUp and Close select)
	g := vlib.NewRng(seed ^ 0xB165A9)
	k, err := chainkit.New(chainkit.Opts{GenesisTime: gt}, g.Fork())
	if err != nil {
		panic(err)
	}
	ge := newGen(k, g.Fork())
	for i := 0; i < 103; i++ {
		k.MustExtend(nil, 0)
	}
	ge.refresh()
	// records of 1..12 KB: a chunk is sent as soon as it holds 64 KB, so it holds less than 64+12 KB and the snapshot needs
	// at least total/(76 KB) chunks whatever the map order - 104..140 here
	const maxRec = 12000
	minChunks := 104 + g.Intn(37)
	want := minChunks * (0x10000 + maxRec + 100)
	total, nrec := 0, 0
	cur := ge.take(&ge.coins, 1, false)
	for total < want && len(cur) == 1 {
		var txs []*btc.Tx
		var fees uint64
		blk := 0
		for blk < 900000 && total < want && len(cur) == 1 {
			size := 1000 + g.Intn(maxRec-1200)
			if blk+size > 950000 {
				break
			}
			var outs []chainkit.OutSpec
			left := size
			for left > 0 {
				n := 500 + g.Intn(4000)
				if n > left {
					n = left
				}
				left -= n
				outs = append(outs, chainkit.OutSpec{Value: 600, Script: append([]byte{0x51}, g.Bytes(n)...)})
			}
			outs = append([]chainkit.OutSpec{{Value: cur[0].Value - uint64(len(outs))*600 - 1000, Script: tagScript(g, 20)}}, outs...)
			tx := chainkit.BuildTx(1, cur, nil, outs, 0)
			fees += 1000
			txs = append(txs, tx)
			_, h := k.Tip()
			cur = []*chainkit.Coin{ge.outCoins(tx, h+1)[0]}
			blk += size
			total += size
			nrec++
		}
		k.MustExtend(txs, fees)
	}
	tip, h := k.Tip()
	dump := chainkit.DumpHash(chainkit.UtxoDump(k.Ch.Unspent))
	rc := &recorder{dir: k.Dir, cfg: "directed-bigsnap", want: map[string]Res{tip: {Tip: tip, Height: h, Dump: dump}}}
	rp := Replay{Cfg: Cfg{Name: "directed-bigsnap", Procs: 4}}
	out.Hist["directed:bigsnap"]++
	out.Hist[fmt.Sprintf("directed:bigsnap:chunks>=%d", minChunks/10*10)]++
	out.Hist["directed:bigsnap:records"] += nrec
	raw, _ := hex.DecodeString(tip)
	fifo := k.Dir + btc.NewUint256(raw).String() + ".db.tmp"
	if e := syscall.Mkfifo(fifo, 0600); e != nil {
		out.Hist["directed:bigsnap:no-fifo"]++
		k.Close()
		return
	}
	type result struct {
		data []byte
		err  error
	}
	done := make(chan result, 1)
	stall1 := time.Duration(150+g.Intn(250)) * time.Millisecond
	stallAt := total/4 + g.Intn(total/2)
	stall2 := time.Duration(50+g.Intn(150)) * time.Millisecond
	go func() {
		f, e := os.Open(fifo) // returns when the file goroutine has opened its end
		if e != nil {
			done <- result{err: e}
			return
		}
		defer f.Close()
		time.Sleep(stall1)
		var data []byte
		buf := make([]byte, 1<<16)
		stalled := false
		for {
			n, e := f.Read(buf)
			data = append(data, buf[:n]...)
			if e != nil {
				if e != io.EOF {
					done <- result{data: data, err: e}
					return
				}
				break
			}
			if !stalled && len(data) >= stallAt {
				stalled = true
				time.Sleep(stall2)
			}
		}
		done <- result{data: data}
	}()
	vhook.Set(func(name string) { rc.ev(name) })
	k.Ch.Idle() // the snapshot
	var res result
	select {
	case res = <-done:
	case <-time.After(60 * time.Second):
		res.err = fmt.Errorf("the snapshot was not completed within 60 s")
	}
	waitSaved(k.Ch.Unspent)
	vhook.Set(nil)
	var s Snap
	if res.err != nil {
		s.Err = "slow disk: " + res.err.Error()
	} else {
		s = parseSnapshot(res.data)
	}
	s.Where = "slow-disk"
	rc.addSnap(s)
	os.Remove(k.Dir + "UTXO.db") // the FIFO, renamed
	os.Remove(fifo)
	k.Close()
	rp.Events = rc.events
	for _, e := range rc.events {
		if e == "utxo.save:begin" {
			rp.Saves++
		}
	}
	rp.Snaps = len(rc.snaps)
	out.Snaps = append(out.Snaps, rc.snaps...)
	out.Replays = append(out.Replays, rp)
}

// ------------------------------------------------------------------------------------ directed: os.Create of the snapshot file fails

// directedCreateFail makes os.Create(<tip hash>.db.tmp) of one snapshot fail (a DIRECTORY of that name is put into the data
// directory - works for root too, unlike chmod; stands for a full disk / permission / too many open files) and then goes on
// like a node does: next block, Idle (next snapshot), next block, Close. Every step must return: a failed snapshot may be
// lost, the node must not wedge. (Before the fix the file goroutine returned without lastFileClosed.Done(): the NEXT save()
// parked in lastFileClosed.Wait() with WritingInProgress set, and the next CommitBlockTxs waited for it holding db.Mutex.)
func directedCreateFail(seed uint64, gt uint32, out *WorkerOut) {
	runtime.GOMAXPROCS(4)
	vhook.Set(nil)
	utxo.UTXO_WRITING_TIME_TARGET = 0
	utxo.UTXO_SKIP_SAVE_BLOCKS = 0
	g := vlib.NewRng(seed ^ 0xC4EA7E)
	k, err := chainkit.New(chainkit.Opts{GenesisTime: gt}, g.Fork())
	if err != nil {
		panic(err)
	}
	for i := 0; i < 103; i++ {
		k.MustExtend(nil, 0)
	}
	rc := &recorder{dir: k.Dir, cfg: "directed-createfail", want: map[string]Res{}}
	note := func(tag string) {
		tip, h := k.Tip()
		res := Res{Tip: tip, Height: h, Dump: chainkit.DumpHash(chainkit.UtxoDump(k.Ch.Unspent))}
		rc.mu.Lock()
		rc.want[tip] = res
		rc.mu.Unlock()
		rc.ev("h:" + tag)
	}
	note("N-1")
	vhook.Set(rc.hook)
	k.Ch.Idle()
	waitSaved(k.Ch.Unspent)
	rp := Replay{Cfg: Cfg{Name: "directed-createfail", Procs: 4}}
	step := func(what string, f func()) bool {
		done := make(chan string, 1)
		go func() {
			defer func() {
				if x := recover(); x != nil {
					done <- fmt.Sprint("panic: ", x)
				}
			}()
			f()
			done <- ""
		}()
		select {
		case e := <-done:
			if e != "" {
				out.CreateFail = what + ": " + e
				return false
			}
			return true
		case <-time.After(8 * time.Second):
			out.CreateFail = what + " did not return within 8 s after os.Create of the previous snapshot's file had failed"
			buf := make([]byte, 1<<16)
			out.CreateFailStacks = string(buf[:runtime.Stack(buf, true)])
			return false
		}
	}
	out.CreateFail = "ok"
	ok := step("block N", func() { k.MustExtend(nil, 0); note("N") })
	if ok {
		tip, _ := k.Tip()
		raw, _ := hex.DecodeString(tip)
		blocker := k.Dir + btc.NewUint256(raw).String() + ".db.tmp"
		if e := os.Mkdir(blocker, 0755); e != nil {
			out.CreateFail = "harness: cannot create the blocking directory: " + e.Error()
			ok = false
		}
		os.WriteFile(blocker+"/x", []byte("x"), 0644) // non-empty: os.Remove / os.Rename onto UTXO.db cannot succeed either
		out.Hist["directed:createfail:tmp-name-blocked"]++
	}
	ok = ok && step("Idle (snapshot whose os.Create fails)", func() { k.Ch.Idle(); waitSaved(k.Ch.Unspent) })
	ok = ok && step("block N+1", func() { k.MustExtend(nil, 0); note("N+1") })
	ok = ok && step("Idle (next snapshot)", func() { k.Ch.Idle() })
	ok = ok && step("block N+2 (CommitBlockTxs -> abortWriting)", func() { k.MustExtend(nil, 0); note("N+2") })
	ok = ok && step("Idle + wait (snapshot of N+2)", func() { k.Ch.Idle(); waitSaved(k.Ch.Unspent) })
	ok = ok && step("Close", func() { k.Ch.Close() })
	if ok {
		vhook.Set(nil)
		k.Ch = nil
		s := readSnapshot(k.Dir + "UTXO.db")
		s.Where = "final"
		rc.addSnap(s)
		k.Close()
	}
	// not ok: the chain is wedged; the worker process exits without closing it
	rp.Events = rc.events
	rp.Snaps = len(rc.snaps)
	out.Snaps = append(out.Snaps, rc.snaps...)
	out.Replays = append(out.Replays, rp)
	out.Hist["directed:createfail"]++
}

// ------------------------------------------------------------------------------------ main of the worker

func workerMain(args []string) {
	fs := flag.NewFlagSet("worker", flag.ExitOnError)
	seed := fs.Uint64("seed", 1, "")
	tier := fs.String("tier", "quick", "")
	outp := fs.String("out", "", "")
	only := fs.String("only", "", "run only these parts (comma list): chain | resave | compr | createfail | recycle | bigsnap | operator | abort | abortfull")
	shard := fs.Int("shard", 0, "")
	fs.Parse(args)
	out := &WorkerOut{Seed: *seed, Hist: map[string]int{}}
	defer func() {
		if x := recover(); x != nil {
			out.Fatal = fmt.Sprint(x)
		}
		b, _ := json.Marshal(out)
		os.WriteFile(*outp, b, 0644)
	}()
	thorough := *tier == "thorough"
	part := func(name string) bool { // -only takes a comma-separated list
		if *only == "" {
			return true
		}
		for _, p := range strings.Split(*only, ",") {
			if p == name {
				return true
			}
		}
		return false
	}
	gt := uint32(time.Now().Unix()) - 400*24*3600
	gt -= gt % 600
	if part("resave") {
		t0 := time.Now()
		directedResave(*seed, gt, out)
		out.Timing = append(out.Timing, fmt.Sprintf("resave %.1fs", time.Since(t0).Seconds()))
	}
	if part("createfail") {
		t0 := time.Now()
		directedCreateFail(*seed, gt, out)
		out.Timing = append(out.Timing, fmt.Sprintf("createfail %.1fs", time.Since(t0).Seconds()))
	}
	if part("bigsnap") {
		t0 := time.Now()
		directedBigSnap(*seed+uint64(*shard)*7919, gt, out)
		out.Timing = append(out.Timing, fmt.Sprintf("bigsnap %.1fs", time.Since(t0).Seconds()))
	}
	if part("chain") {
		t0 := time.Now()
		sc, cases := genScenario(mix(*seed, uint64(*shard)+1), thorough, gt, false, false)
		out.Timing = append(out.Timing, fmt.Sprintf("gen %.1fs", time.Since(t0).Seconds()))
		out.Scenario = sc.name
		out.Ref = sc.ref
		out.Commit = cases
		for _, op := range sc.ops {
			out.Ops = append(out.Ops, op.Kind+" "+op.Note)
		}
		for k, v := range sc.hist {
			out.Hist[k] += v
		}
		g := vlib.NewRng(mix(*seed, 77+uint64(*shard)))
		procs := []int{1, 4, 16}
		if *shard%2 == 1 {
			procs = []int{2, 8, 3}
		}
		n := 3
		if thorough {
			procs = []int{1, 2, 3, 4, 6, 8, 12, 16}
			n = 16
		}
		for i := 0; i < n; i++ {
			cfg := Cfg{Procs: procs[i%len(procs)], Perturb: g.U64() | 1, Aux: i%2 == 1 || i >= 4 || *shard%2 == 1}
			cfg.TargetU = int64(g.Pick(0, 2000, 20000, 200000))
			cfg.Alloc = i%3 == 2
			cfg.Name = fmt.Sprintf("r%d-p%d-t%d-aux%v-alloc%v", i, cfg.Procs, cfg.TargetU, cfg.Aux, cfg.Alloc)
			replay(sc, cfg, out)
			out.Hist[fmt.Sprintf("replay:procs=%d", cfg.Procs)]++
		}
		// the run-to-block schedule: one P, no yields - a goroutine that has been started does not run before its starter
		// parks (the extreme of "the new goroutine is late": Save() has returned, the saver has not executed anything yet)
		replay(sc, Cfg{Name: "u-p1-unperturbed", Procs: 1, TargetU: int64(g.Pick(0, 20000))}, out)
		out.Hist["replay:procs=1-unperturbed"]++
	}
	if part("operator") {
		// the node with its text UI: the main loop serves usif.UiChannel between blocks, the real textui.MainThread dispatches
		// what a seeded operator types (operator.go)
		t0 := time.Now()
		sc, cases := genScenario(mix(*seed, 3000+uint64(*shard)), thorough, gt, false, false)
		out.Timing = append(out.Timing, fmt.Sprintf("operator-gen %.1fs", time.Since(t0).Seconds()))
		if out.Scenario == "" {
			out.Scenario = "operator"
			out.Ref = sc.ref
			out.Commit = cases
			for _, op := range sc.ops {
				out.Ops = append(out.Ops, op.Kind+" "+op.Note)
			}
		}
		for k, v := range sc.hist {
			out.Hist[k] += v
		}
		g := vlib.NewRng(mix(*seed, 3077+uint64(*shard)))
		procs := []int{4, 2, 16}
		n := 3
		if thorough {
			procs = []int{4, 2, 16, 1, 8, 3}
			n = 6
		}
		for i := 0; i < n; i++ {
			cfg := Cfg{Procs: procs[i%len(procs)], Perturb: g.U64() | 1, Aux: i%3 == 2, UI: true}
			cfg.TargetU = int64(g.Pick(0, 2000, 20000))
			cfg.Name = fmt.Sprintf("o%d-p%d-t%d-aux%v-ui", i, cfg.Procs, cfg.TargetU, cfg.Aux)
			replay(sc, cfg, out)
			out.Hist[fmt.Sprintf("replay-operator:procs=%d", cfg.Procs)]++
		}
	}
	if part("recycle") {
		// the client's default memory configuration: UTXO records in the recycling allocator; blocks that free and allocate
		// many records of one size class while the undo goroutine serializes the spent ones; reorgs apply the undo data
		t0 := time.Now()
		sc, cases := genScenario(mix(*seed, 2000+uint64(*shard)), thorough, gt, false, true)
		out.Timing = append(out.Timing, fmt.Sprintf("recycle-gen %.1fs", time.Since(t0).Seconds()))
		if out.Scenario == "" {
			out.Scenario = sc.name
			out.Ref = sc.ref
			out.Commit = cases
			for _, op := range sc.ops {
				out.Ops = append(out.Ops, op.Kind+" "+op.Note)
			}
		}
		for k, v := range sc.hist {
			out.Hist[k] += v
		}
		g := vlib.NewRng(mix(*seed, 2077+uint64(*shard)))
		procs := []int{4, 16, 2, 8}
		n := 4
		if thorough {
			procs = []int{2, 4, 8, 16, 3, 12, 6, 5}
			n = 7
		}
		for i := 0; i < n; i++ {
			cfg := Cfg{Procs: procs[i%len(procs)], Perturb: g.U64() | 1, Aux: i%3 == 2, Alloc: true}
			cfg.TargetU = int64(g.Pick(0, 2000, 20000))
			cfg.Name = fmt.Sprintf("a%d-p%d-t%d-aux%v-alloc", i, cfg.Procs, cfg.TargetU, cfg.Aux)
			replay(sc, cfg, out)
			out.Hist[fmt.Sprintf("replay-recycle:procs=%d", cfg.Procs)]++
		}
	}
	if part("abort") {
		abortJob(*seed, *shard, thorough, gt, out)
	}
	if part("abortfull") {
		t0 := time.Now()
		directedAbortFull(*seed+uint64(*shard)*104729, gt, out)
		out.Timing = append(out.Timing, fmt.Sprintf("abortfull %.1fs", time.Since(t0).Seconds()))
	}
	if part("compr") {
		// compressed-records mode: SerializeC's shared scratch pool with several serializations in flight
		t0 := time.Now()
		sc, _ := genScenario(mix(*seed, 1000+uint64(*shard)), thorough, gt, true, false)
		out.Timing = append(out.Timing, fmt.Sprintf("compr-gen %.1fs", time.Since(t0).Seconds()))
		if out.Scenario == "" {
			out.Scenario = sc.name
			out.Ref = sc.ref
			for _, op := range sc.ops {
				out.Ops = append(out.Ops, op.Kind+" "+op.Note)
			}
		}
		for k, v := range sc.hist {
			out.Hist[k] += v
		}
		g := vlib.NewRng(mix(*seed, 1077+uint64(*shard)))
		procs := []int{4, 16, 8}
		n := 3
		if thorough {
			procs = []int{2, 4, 8, 16, 3, 12}
			n = 6
		}
		for i := 0; i < n; i++ {
			cfg := Cfg{Procs: procs[i%len(procs)], Perturb: g.U64() | 1, Aux: i%2 == 1}
			cfg.TargetU = int64(g.Pick(0, 2000, 20000))
			cfg.Name = fmt.Sprintf("c%d-p%d-t%d-aux%v-compr", i, cfg.Procs, cfg.TargetU, cfg.Aux)
			replay(sc, cfg, out)
			out.Hist[fmt.Sprintf("replay-compr:procs=%d", cfg.Procs)]++
		}
	}
}
