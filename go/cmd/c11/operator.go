// operator.go — the node's TEXT UI as a second source of operations (worker side).
//
// In the client a snapshot is not only started by the main loop's idle timer: the operator types `s` / `saveutxo`, looks at the
// UTXO statistics, defragments the maps … The real dispatcher (client/usif/textui.MainThread, its command table and handlers)
// runs in its own goroutine and decides per command whether the UI goroutine executes the handler itself or queues it to the
// main goroutine through usif.UiChannel. The snapshot protocol of UnspentDB is only sound when everything that starts a save
// or mutates the maps is executed by the goroutine that commits the blocks (Props.C11.committer_started_saves_atomic /
// foreign_save_counterexample), so WHICH goroutine a command runs on is part of the property.
//
// A replay with Cfg.UI plays the main loop of client/main.go: blocks and Idle as in every replay, and between two operations it
// serves usif.UiChannel (`cmd.Handler(cmd.Param); cmd.Done.Done()`) like the select loop there. The real textui.MainThread reads
// a pipe that stands for the keyboard; a seeded operator types state-preserving commands of the real table at
// schedule-perturbation points - most of them while a block is being committed or disconnected (after its abortWriting), the
// moment at which a command executed by the wrong goroutine is not excluded by anything. Everything observed in a replay is
// observed here too: result of every op vs the sequential reference (which has no operator: the commands typed do not change
// the unspent set), every UTXO.db that becomes visible (header vs content), the vhook trace (Lean monitor), race reports.
package main

import (
	"fmt"
	"os"
	"strings"
	"sync"
	"sync/atomic"
	"time"

	"github.com/piotrnar/gocoin/client/common"
	"github.com/piotrnar/gocoin/client/usif"
	"github.com/piotrnar/gocoin/client/usif/textui"
	"github.com/piotrnar/gocoin/lib/chain"
)

// commands of the real table that leave the unspent set and the chain as they are (so the operator-free sequential reference
// stays the reference); `s`/`saveutxo` is the one that starts a snapshot, the others read or reorganise the maps
var operatorCmds = []string{"s", "saveutxo", "s", "u", "utxodb", "b", "def map", "um", "s", "web", "nosuchcommand", ""}

var (
	promptCnt   int64 // "> " seen on the UI's standard output (one per command completed, one when the UI starts)
	stdoutOnce  sync.Once
	stdoutSaved *os.File
)

// captureStdout: everything the text UI prints goes to a pipe that is drained (and counted) for the rest of the process.
// os.Stdout is replaced ONCE, before any UI goroutine exists, and never restored: late printers of the UI (ExecUiReq's
// "Ready in" goroutines) may still read the variable.
func captureStdout() {
	stdoutOnce.Do(func() {
		r, w, err := os.Pipe()
		if err != nil {
			panic(err)
		}
		stdoutSaved = os.Stdout
		os.Stdout = w
		go func() {
			buf := make([]byte, 1<<16)
			var last byte
			for {
				n, err := r.Read(buf)
				for i := 0; i < n; i++ {
					if last == '>' && buf[i] == ' ' {
						atomic.AddInt64(&promptCnt, 1)
					}
					last = buf[i]
				}
				if err != nil {
					return
				}
			}
		}()
	})
}

type uiSession struct {
	kbd   *os.File
	base  int64 // promptCnt when the session started
	typed int64
	done  chan bool
	seed  uint64
	ctr   uint64
	mu    sync.Mutex
	hmu   sync.Mutex
	hist  map[string]int
	live  int32 // the first block has been connected: before it UnspentDB names no block at all (LastBlockHash == nil; a save
	// then writes a 16-byte file with no block hash - nothing the property speaks about), so the operator waits
	over     int32 // the session has ended: perturbation points of goroutines that are still running type nothing
	inCommit int32
	oldStdin *os.File
	stuck    string
}

// startUI: common.BlockChain is the replay's chain, the keyboard is a pipe, textui.MainThread runs as in client/main.go
func startUI(ch *chain.Chain, seed uint64) *uiSession {
	captureStdout()
	kr, kw, err := os.Pipe()
	if err != nil {
		panic(err)
	}
	u := &uiSession{kbd: kw, base: atomic.LoadInt64(&promptCnt), done: make(chan bool), seed: seed, hist: map[string]int{}, oldStdin: os.Stdin}
	common.BlockChain = ch
	os.Stdin = kr
	usif.Exit_now.Clr()
	go func() {
		textui.MainThread()
		kr.Close()
		close(u.done)
	}()
	// MainThread shows its first prompt after one second
	for t0 := time.Now(); time.Since(t0) < 5*time.Second && atomic.LoadInt64(&promptCnt) == u.base; {
		time.Sleep(5 * time.Millisecond)
	}
	return u
}

// ready: the UI goroutine is (about to be) waiting for a line - one line per read, textui makes a new bufio.Reader per line
func (u *uiSession) ready() bool {
	return atomic.LoadInt64(&promptCnt)-u.base > atomic.LoadInt64(&u.typed)
}

func (u *uiSession) count(k string) {
	u.hmu.Lock()
	u.hist[k]++
	u.hmu.Unlock()
}

func (u *uiSession) typeLine(cmd string) bool {
	u.mu.Lock()
	defer u.mu.Unlock()
	if atomic.LoadInt32(&u.over) != 0 || atomic.LoadInt32(&u.live) == 0 {
		return false
	}
	if !u.ready() {
		u.count("operator:ui-busy")
		return false
	}
	atomic.AddInt64(&u.typed, 1) // every line, also an empty or unknown one, is answered by exactly one prompt
	u.kbd.Write([]byte(cmd + "\n"))
	k := strings.Fields(cmd + " (empty)")[0]
	if atomic.LoadInt32(&u.inCommit) != 0 {
		u.count("operator:typed-during-block:" + k)
	} else {
		u.count("operator:typed-between-ops:" + k)
	}
	return true
}

// at: called at every schedule-perturbation point (any goroutine of the real code)
func (u *uiSession) at(name string) {
	n := atomic.AddUint64(&u.ctr, 1)
	h := mix(u.seed^0x0b5e7a70, n)
	mutating := strings.HasPrefix(name, "utxo.commit") || strings.HasPrefix(name, "utxo.undo") || strings.HasPrefix(name, "chain.commit.worker") ||
		name == "chain.undo:before-utxo" || name == "chain.parse:before-utxo"
	odds := uint64(160)
	if mutating {
		odds = 12
	}
	if h%odds != 0 {
		return
	}
	if u.typeLine(operatorCmds[(h>>16)%uint64(len(operatorCmds))]) {
		// the block keeps this goroutine busy for a little while longer: time for the UI goroutine to read the line
		time.Sleep(time.Duration(300+(h>>24)%2500) * time.Microsecond)
	}
}

// serve: what the select loop of client/main.go does with a queued UI command
func (u *uiSession) serve() {
	for {
		select {
		case cmd := <-usif.UiChannel:
			u.count("operator:served-by-main")
			cmd.Handler(cmd.Param)
			cmd.Done.Done()
		default:
			return
		}
	}
}

// betweenOps: the main loop is back in its select
func (u *uiSession) betweenOps(i int) {
	if i > 0 {
		atomic.StoreInt32(&u.live, 1)
	}
	u.serve()
	if h := mix(u.seed^0x77, uint64(i)); h%9 == 0 {
		if u.typeLine(operatorCmds[(h>>16)%uint64(len(operatorCmds))]) {
			time.Sleep(time.Duration(200+(h>>24)%800) * time.Microsecond)
		}
		u.serve()
	}
}

// finish: every typed command has been dispatched and completed; the UI goroutine ends
func (u *uiSession) finish() {
	t0 := time.Now()
	for atomic.LoadInt64(&promptCnt)-u.base <= atomic.LoadInt64(&u.typed) {
		u.serve()
		if time.Since(t0) > 8*time.Second {
			u.stuck = fmt.Sprintf("%d command lines typed, only %d prompts came back within 8 s", u.typed, atomic.LoadInt64(&promptCnt)-u.base)
			break
		}
		time.Sleep(200 * time.Microsecond)
	}
	u.serve()
	u.mu.Lock()
	atomic.StoreInt32(&u.over, 1)
	u.mu.Unlock()
	usif.Exit_now.Set()
	u.kbd.Write([]byte("\n"))
	select {
	case <-u.done:
	case <-time.After(5 * time.Second):
		if u.stuck == "" {
			u.stuck = "textui.MainThread did not end after Exit_now was set and a line was typed"
		}
	}
	u.serve()
	u.kbd.Close()
	if u.stuck == "" {
		os.Stdin = u.oldStdin
	}
	usif.Exit_now.Clr()
}
