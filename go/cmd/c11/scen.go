// scen.go — scenario generator for the C11 worker: a synthetic chain (chainkit) whose blocks carry many
// transactions with many signed inputs (parallel script checks, shared sighash caches), in-block spends
// (blUnsp marking), invalid blocks that fail early / late, malformed blocks (hashing workers + parse
// error), side branches (undo + re-apply), interleaved with Idle (snapshot) operations.
// The generator runs ONCE, sequentially (GOMAXPROCS=1, no perturbation): what it records is the
// single-threaded reference every perturbed replay is compared with.
package main

import (
	"encoding/hex"
	"fmt"
	"strconv"
	"strings"

	"github.com/piotrnar/gocoin/lib/btc"
	"github.com/piotrnar/gocoin/lib/chain"
	"github.com/piotrnar/gocoin/lib/secp256k1"
	"verif/chainkit"
	"verif/vlib"
)

// Op is one step of a scenario; it is replayed verbatim under every schedule.
type Op struct {
	Kind string `json:"k"`              // block | idle | hurry | abort | savewait
	Raw  []byte `json:"-"`              // block bytes
	Note string `json:"note,omitempty"` // what the generator intended (valid, badsig:3, dblspend, …)
}

// Res is the observable result of an op (the level named in observe_at).
type Res struct {
	Verdict string `json:"v"`
	Tip     string `json:"tip"`
	Height  uint32 `json:"h"`
	Dump    string `json:"dump"`           // chainkit.DumpHash of the whole unspent set after the op
	Undo    string `json:"undo,omitempty"` // after a block: digest of the tip's undo file (records sorted)
}

type gen struct {
	k       *chainkit.Kit
	g       *vlib.Rng
	keys    map[string]*chainkit.Key
	klist   []*chainkit.Key
	coins   []*chainkit.Coin
	hist    map[string]int
	lastBad [][2]int // (tx index incl. coinbase, input) corrupted by the last blockTxs call
	cheap   bool     // compressed-records scenario: mostly unsigned fan-outs so that blocks can carry > 32 new transactions
	tagLen  int      // > 0: unsigned outputs are "tagged" anyone-can-spend scripts of this many distinct bytes (see tagScript)
}

// p2tr: a witness-v1 output whose output key is the key's x coordinate (spent through the taproot KEY path with a BIP340
// signature over Tx.TaprootSigHash - the one sighash that reads the amounts and scripts of ALL inputs' spent outputs).
func p2tr(key *chainkit.Key) []byte { return append([]byte{0x51, 0x20}, key.Pub[1:33]...) }

// tagScript: <push n random bytes> OP_DROP OP_TRUE - spendable with an empty scriptSig like OP_TRUE, but every output has
// its own bytes, so that a record restored from undo data / written to a snapshot with SOMEBODY ELSE's script shows in the dump.
func tagScript(g *vlib.Rng, n int) []byte {
	return append(append([]byte{byte(n)}, g.Bytes(n)...), 0x75, 0x51)
}

func isTagScript(s []byte) bool {
	return len(s) >= 4 && int(s[0]) >= 1 && int(s[0]) <= 75 && len(s) == int(s[0])+3 && s[len(s)-2] == 0x75 && s[len(s)-1] == 0x51
}

// taprootHashTypes: SIGHASH_DEFAULT (64-byte signature), ALL, NONE, ALL|ANYONECANPAY (the last reads only its own spent output)
var taprootHashTypes = []byte{0, 0, 0, 1, 1, 2, 0x81}

// signTaproot adds the key-path witnesses of the inputs that spend p2tr coins (after chainkit.BuildTx signed the others:
// their signatures do not commit to witnesses, and the txid does not change).
func signTaproot(tx *btc.Tx, cs []*chainkit.Coin, g *vlib.Rng) {
	any := false
	for _, c := range cs {
		if c.Kind == "p2tr" {
			any = true
		}
	}
	if !any {
		return
	}
	tx.AllocVerVars()
	tx.Spent_outputs = make([]*btc.TxOut, len(cs))
	for i, c := range cs {
		tx.Spent_outputs[i] = &btc.TxOut{Value: c.Value, Pk_script: c.Script}
	}
	if tx.SegWit == nil {
		tx.SegWit = make([][][]byte, len(cs))
		for i := range tx.SegWit {
			tx.SegWit[i] = [][]byte{}
		}
	}
	for i, c := range cs {
		if c.Kind != "p2tr" {
			continue
		}
		ht := taprootHashTypes[g.Intn(len(taprootHashTypes))]
		sh := tx.TaprootSigHash(&btc.ScriptExecutionData{}, i, ht, false)
		sig := secp256k1.SchnorrSign(sh, c.Key.Priv, g.Bytes(32))
		if len(sig) != 64 {
			panic("SchnorrSign failed")
		}
		if ht != 0 {
			sig = append(sig, ht)
		}
		tx.SegWit[i] = [][]byte{sig}
	}
	tx.Spent_outputs = nil
	tx.Clean()
	chainkit.Finish(tx)
}

// build = chainkit.BuildTx + the taproot key-path signatures
func (ge *gen) build(ver uint32, cs []*chainkit.Coin, outs []chainkit.OutSpec) *btc.Tx {
	tx := chainkit.BuildTx(ver, cs, nil, outs, 0)
	signTaproot(tx, cs, ge.g)
	return tx
}

// outCoins = chainkit.OutCoins + the coin kinds only this harness knows (p2tr, tagged anyone-can-spend)
func (ge *gen) outCoins(tx *btc.Tx, height uint32) []*chainkit.Coin {
	cs := chainkit.OutCoins(tx, ge.keys, height, false)
	for _, c := range cs {
		if c.Kind == "raw" && c.Key != nil && len(c.Script) == 34 {
			c.Kind = "p2tr"
		} else if c.Kind == "raw" && isTagScript(c.Script) {
			c.Kind = "anyone"
		}
	}
	return cs
}

func newGen(k *chainkit.Kit, g *vlib.Rng) *gen {
	ge := &gen{k: k, g: g, keys: map[string]*chainkit.Key{}, hist: map[string]int{}}
	for i := 0; i < 6; i++ {
		key := k.NewKey()
		ge.klist = append(ge.klist, key)
		ge.keys[string(key.P2PKH())] = key
		ge.keys[string(key.P2WPKH())] = key
		ge.keys[string(key.P2SH_P2WPKH())] = key
		ge.keys[string(p2tr(key))] = key
	}
	return ge
}

// refresh rebuilds the spendable-coin list from the real UTXO dump (robust across reorgs).
func (ge *gen) refresh() {
	ge.coins = ge.coins[:0]
	_, tipH := ge.k.Tip()
	for _, l := range chainkit.UtxoDump(ge.k.Ch.Unspent) {
		f := strings.Fields(l)
		if len(f) != 5 {
			continue
		}
		op := strings.Split(f[0], ":")
		txid, _ := hex.DecodeString(op[0])
		vout, _ := strconv.Atoi(op[1])
		val, _ := strconv.ParseUint(f[1], 10, 64)
		h, _ := strconv.Atoi(f[2])
		cb := f[3] == "1"
		scr, _ := hex.DecodeString(f[4])
		if cb && int(tipH)+1-h < 100 {
			continue
		}
		c := &chainkit.Coin{Value: val, Script: scr, Height: uint32(h), Coinbase: cb, Kind: "raw"}
		copy(c.Out.Hash[:], txid)
		c.Out.Vout = uint32(vout)
		if (len(scr) == 1 && scr[0] == 0x51) || isTagScript(scr) {
			c.Kind = "anyone"
		} else if key, ok := ge.keys[string(scr)]; ok {
			c.Key = key
			switch len(scr) {
			case 25:
				c.Kind = "p2pkh"
			case 22:
				c.Kind = "p2wpkh"
			case 23:
				c.Kind = "p2sh-p2wpkh"
			case 34:
				c.Kind = "p2tr"
			}
		} else {
			continue
		}
		ge.coins = append(ge.coins, c)
	}
}

func (ge *gen) anyone() []byte {
	if ge.tagLen > 0 {
		return tagScript(ge.g, ge.tagLen)
	}
	return chainkit.AnyoneScript
}

func (ge *gen) script(kind int) []byte {
	if ge.cheap && ge.g.Chance(1, 2) {
		return ge.anyone()
	}
	key := ge.klist[ge.g.Intn(len(ge.klist))]
	switch kind {
	case 0:
		return key.P2PKH()
	case 1:
		return key.P2WPKH()
	case 2:
		return key.P2SH_P2WPKH()
	case 4, 5:
		return p2tr(key)
	}
	return ge.anyone()
}

// take removes and returns up to n coins (preferring keyed ones when signed is set).
func (ge *gen) take(avail *[]*chainkit.Coin, n int, signed bool) []*chainkit.Coin {
	var res []*chainkit.Coin
	a := *avail
	for pass := 0; pass < 2 && len(res) < n; pass++ {
		for i := 0; i < len(a) && len(res) < n; {
			c := a[i]
			want := (c.Kind != "anyone") == signed
			if pass == 1 {
				want = true
			}
			if want {
				res = append(res, c)
				a[i] = a[len(a)-1]
				a = a[:len(a)-1]
			} else {
				i++
			}
		}
	}
	*avail = a
	return res
}

func sum(cs []*chainkit.Coin) (s uint64) {
	for _, c := range cs {
		s += c.Value
	}
	return
}

// spend builds one transaction from the given coins with nout outputs of mixed kinds.
func (ge *gen) spend(cs []*chainkit.Coin, nout int, fee uint64, bigscripts bool) *btc.Tx {
	tot := sum(cs)
	if tot <= fee+uint64(nout)*1000 {
		fee = 0
		nout = 1
	}
	each := (tot - fee) / uint64(nout)
	var outs []chainkit.OutSpec
	for i := 0; i < nout; i++ {
		v := each
		if i == nout-1 {
			v = tot - fee - each*uint64(nout-1)
		}
		var s []byte
		if bigscripts {
			// unspendable-looking but storable data script: OP_TRUE followed by pushes (keeps records large)
			s = append([]byte{0x51}, ge.g.Bytes(60+ge.g.Intn(40))...) // never spent by the generator
		} else {
			s = ge.script(ge.g.Intn(6))
		}
		outs = append(outs, chainkit.OutSpec{Value: v, Script: s})
	}
	ver := uint32(1 + ge.g.Intn(2))
	return ge.build(ver, cs, outs)
}

// corrupt flips one byte inside the signature of input i; returns false if the input is unsigned.
func corrupt(tx *btc.Tx, i int, c *chainkit.Coin) bool {
	switch c.Kind {
	case "p2pkh":
		if len(tx.TxIn[i].ScriptSig) < 12 {
			return false
		}
		tx.TxIn[i].ScriptSig[9] ^= 0x01
	case "p2wpkh", "p2sh-p2wpkh", "p2tr":
		if tx.SegWit == nil || len(tx.SegWit[i]) < 1 || len(tx.SegWit[i][0]) < 12 {
			return false
		}
		tx.SegWit[i][0][9] ^= 0x01
	default:
		return false
	}
	return true
}

// blockTxs builds the transaction list of one block. kind selects the defect (or "valid").
func (ge *gen) blockTxs(kind string, ntx, maxin int) (txs []*btc.Tx, fees uint64, note string) {
	_, tipH := ge.k.Tip()
	height := tipH + 1
	ge.lastBad = nil
	avail := append([]*chainkit.Coin{}, ge.coins...)
	// deterministic order
	for i := len(avail) - 1; i > 0; i-- {
		j := ge.g.Intn(i + 1)
		avail[i], avail[j] = avail[j], avail[i]
	}
	var lastCoins []*chainkit.Coin
	nsigned, inblock := 0, 0
	for t := 0; t < ntx && len(avail) > 0; t++ {
		var cs []*chainkit.Coin
		var tx *btc.Tx
		fee := uint64(1000 + ge.g.Intn(5000))
		if (ge.cheap && ge.g.Chance(5, 6)) || (!ge.cheap && ge.g.Chance(1, 3)) {
			cs = ge.take(&avail, 1, false) // fan-out of an unsigned coin
			tx = ge.spend(cs, 3+ge.g.Intn(10), fee, false)
		} else {
			cs = ge.take(&avail, 1+ge.g.Intn(maxin), true)
			tx = ge.spend(cs, 1+ge.g.Intn(3), fee, false)
		}
		for _, c := range cs {
			if c.Kind != "anyone" {
				nsigned++
			}
			if c.Height == height {
				inblock++
			}
		}
		fees += sum(cs)
		for _, o := range tx.TxOut {
			fees -= o.Value
		}
		txs = append(txs, tx)
		lastCoins = cs
		// outputs of this tx are spendable by later txs of the same block (in-block spends)
		for _, c := range ge.outCoins(tx, height) {
			if c.Kind != "raw" {
				avail = append(avail, c)
			}
		}
		for j, c := range cs {
			if c.Kind == "p2tr" {
				ge.hist["input:taproot-keypath"]++
				if j < len(cs)-1 {
					ge.hist["input:taproot-not-last-of-its-tx"]++
				}
			}
		}
	}
	// a consolidation: one transaction sweeping several taproot coins (confirmed ones and outputs of this block), sometimes
	// together with a coin of another kind in the LAST or FIRST position - every taproot worker reads the spent outputs of
	// all inputs of its transaction
	if !ge.cheap && ge.g.Chance(3, 4) {
		var cs []*chainkit.Coin
		want := 2 + ge.g.Intn(10)
		for i := 0; i < len(avail) && len(cs) < want; {
			if avail[i].Kind == "p2tr" {
				cs = append(cs, avail[i])
				avail[i] = avail[len(avail)-1]
				avail = avail[:len(avail)-1]
			} else {
				i++
			}
		}
		if len(cs) >= 2 {
			if ge.g.Chance(1, 3) {
				if o := ge.take(&avail, 1, true); len(o) == 1 {
					if ge.g.Bool() {
						cs = append(cs, o[0])
					} else {
						cs = append(o, cs...)
					}
				}
			}
			tx := ge.spend(cs, 1+ge.g.Intn(2), uint64(1000+ge.g.Intn(3000)), false)
			fees += sum(cs)
			for _, o := range tx.TxOut {
				fees -= o.Value
			}
			txs = append(txs, tx)
			lastCoins = cs
			nsigned += len(cs)
			ge.hist["tx:taproot-consolidation"]++
			for j, c := range cs {
				if c.Kind == "p2tr" {
					ge.hist["input:taproot-keypath"]++
					if j < len(cs)-1 {
						ge.hist["input:taproot-not-last-of-its-tx"]++
					}
				}
				if c.Height == height {
					inblock++
				}
			}
		} else {
			avail = append(avail, cs...)
		}
	}
	note = fmt.Sprintf("%s txs=%d signed_inputs=%d inblock_spends=%d", kind, len(txs), nsigned, inblock)
	if len(txs) == 0 {
		return
	}
	switch {
	case strings.HasPrefix(kind, "badsig"):
		want := 1 + ge.g.Intn(4)
		done := 0
		// corrupt signatures spread over the block (workers in flight while the main loop continues)
		for ti := range txs {
			if done >= want {
				break
			}
			tx := txs[ti]
			// need the coins of that tx again: recover from the inputs
			for i := range tx.TxIn {
				if done >= want {
					break
				}
				c := ge.findCoin(&tx.TxIn[i].Input, txs, height)
				if c != nil && c.Kind == "p2pkh" && ti != len(txs)-1 {
					continue // a changed scriptSig changes the txid; later in-block spends would dangle
				}
				if c != nil && ge.g.Chance(2, 3) && corrupt(tx, i, c) {
					ge.lastBad = append(ge.lastBad, [2]int{ti + 1, i})
					done++
				}
			}
			chainkit.Finish(tx)
		}
		if done == 0 {
			kind = "valid"
		}
		// later txs spending outputs of a re-hashed tx would dangle: corrupting a witness keeps the txid,
		// corrupting a scriptSig changes it. Accept either outcome; the reference records what happens.
		note = fmt.Sprintf("badsig:%d %s", done, note)
	case kind == "dblspend":
		// last tx spends a coin that an earlier tx of the block already spent
		first := txs[0]
		c := ge.findCoin(&first.TxIn[0].Input, txs, height)
		if c != nil {
			txs = append(txs, ge.spend([]*chainkit.Coin{c}, 1, 1000, false))
		}
	case kind == "unknown":
		c := *lastCoins[0]
		copy(c.Out.Hash[:], ge.g.Bytes(32))
		c.Kind = "anyone"
		txs = append(txs, ge.spend([]*chainkit.Coin{&c}, 1, 1000, false))
	case kind == "overspend":
		cs := ge.take(&avail, 1, false)
		if len(cs) == 1 {
			tx := ge.spend(cs, 1, 1000, false)
			tx.TxOut[0].Value = cs[0].Value + 12345
			if cs[0].Kind != "anyone" {
				// re-sign: build again with the inflated output
				tx = ge.build(1, cs, []chainkit.OutSpec{{Value: cs[0].Value + 12345, Script: chainkit.AnyoneScript}})
			} else {
				chainkit.Finish(tx)
			}
			txs = append(txs, tx)
		}
	}
	return
}

// churnTxs: the transactions of a "churn" block. Every transaction spends one (sometimes two) WHOLE unsigned outputs and creates
// one (sometimes two) tagged outputs of the scenario's script length: the block deletes m records and inserts m records of the same
// size class, and its undo data holds m records - the delete workers, the insert workers and the undo writer of
// UnspentDB.CommitBlockTxs all run at the same time. While there are fewer than m such coins the block fans a few coins out first
// (records with many outputs, spent piecewise later: the delete workers re-serialize the rest).
func (ge *gen) churnTxs(m int) (txs []*btc.Tx, fees uint64, note string) {
	ge.lastBad = nil
	var avail []*chainkit.Coin
	for _, c := range ge.coins {
		if c.Kind == "anyone" {
			avail = append(avail, c)
		}
	}
	for i := len(avail) - 1; i > 0; i-- {
		j := ge.g.Intn(i + 1)
		avail[i], avail[j] = avail[j], avail[i]
	}
	add := func(cs []*chainkit.Coin, nout int) {
		tot := sum(cs)
		fee := uint64(300 + ge.g.Intn(300))
		if tot < fee+uint64(nout)*600 {
			return
		}
		each := (tot - fee) / uint64(nout)
		var outs []chainkit.OutSpec
		for i := 0; i < nout; i++ {
			v := each
			if i == nout-1 {
				v = tot - fee - each*uint64(nout-1)
			}
			outs = append(outs, chainkit.OutSpec{Value: v, Script: tagScript(ge.g, ge.tagLen)})
		}
		txs = append(txs, chainkit.BuildTx(1+uint32(ge.g.Intn(2)), cs, nil, outs, 0))
		fees += fee
	}
	small := 0
	for _, c := range avail {
		if !c.Coinbase {
			small++
		}
	}
	if small < m {
		// fan out: the biggest coins first
		n := 0
		for _, c := range avail {
			if c.Value >= 1e8 && n < 3 {
				add([]*chainkit.Coin{c}, 40+ge.g.Intn(80))
				n++
			}
		}
		ge.hist["churn:fan-out-block"]++
		note = fmt.Sprintf("churn fanout txs=%d", len(txs))
		return
	}
	var pool []*chainkit.Coin
	for _, c := range avail {
		if !c.Coinbase {
			pool = append(pool, c)
		}
	}
	whole := 0
	for len(txs) < m && len(pool) > 0 {
		nin := 1
		if ge.g.Chance(1, 8) && len(pool) > 1 {
			nin = 2
		}
		nout := 1
		if ge.g.Chance(1, 6) {
			nout = 2
		}
		add(pool[:nin], nout)
		pool = pool[nin:]
		whole += nin
	}
	ge.hist["churn:block"]++
	ge.hist["churn:outputs-spent"] += whole
	note = fmt.Sprintf("churn txs=%d spent=%d taglen=%d", len(txs), whole, ge.tagLen)
	return
}

// findCoin recovers the Coin description of an input (from the confirmed set or from txs of this block).
func (ge *gen) findCoin(in *btc.TxPrevOut, txs []*btc.Tx, height uint32) *chainkit.Coin {
	for _, c := range ge.coins {
		if c.Out == *in {
			return c
		}
	}
	for _, tx := range txs {
		if tx.Hash.Hash == in.Hash {
			cs := ge.outCoins(tx, height)
			if int(in.Vout) < len(cs) {
				return cs[in.Vout]
			}
		}
	}
	return nil
}

func nodeOf(ch *chain.Chain, h *btc.Uint256) *chain.BlockTreeNode {
	ch.BlockIndexAccess.Lock()
	defer ch.BlockIndexAccess.Unlock()
	return ch.BlockIndex[h.BIdx()]
}
