// abort.go — job `abort` of the C11 worker: snapshots that are ABORTED while they are being written.
//
// UnspentDB.save() looks at abortwritingnow only (a) after it has handed a chunk of >= 64 KB to the file goroutine and finds
// itself ahead of UTXO_WRITING_TIME_TARGET, and (b) while data_channel is full. The other scenarios keep their unspent set below
// 64 KB (one chunk per snapshot) or have nothing racing with the big snapshot, so there abortWriting() only ever WAITS for the
// save to finish. Here the set carries a ballast of about 1 MB of records with large scripts (>= 13 chunks), the writer is
// paced (time target 0.15 .. 3 s per snapshot), and the next block / reorg / AbortWriting arrives while the saver sits between
// two chunks: the save is abandoned half way, the file goroutine must close and REMOVE its temporary file, and nothing may
// appear under the name UTXO.db for it (save() has moved the previous UTXO.db to UTXO.old at its start). The hook checks that
// at utxo.save.file:abort-removed; a file that does reach the name UTXO.db is parsed and compared with the unspent set of its
// header's block as in every replay - a truncated file (header announces more records than follow) is snapshot-corrupt.
// A second, directed part (abortfull) drives polling site (b): the temporary file is a FIFO nobody reads, data_channel fills
// up, the saver parks on the full channel and a commit aborts it there.
package main

import (
	"encoding/hex"
	"fmt"
	"os"
	"runtime"
	"sync/atomic"
	"syscall"
	"time"

	"github.com/piotrnar/gocoin/lib/btc"
	"github.com/piotrnar/gocoin/lib/others/vhook"
	"github.com/piotrnar/gocoin/lib/utxo"
	"verif/chainkit"
	"verif/vlib"
)

// ballastTxs: a chain of transactions, each with one change output (tagged, spendable) and outputs with large data scripts
// that nobody spends: records of 2..12 KB. Returns the txs, their fees and the bytes of ballast added.
func ballastTxs(ge *gen, g *vlib.Rng, cur *chainkit.Coin, height uint32, want int) (txs []*btc.Tx, fees uint64, total int, next *chainkit.Coin) {
	const maxRec = 12000
	for total < want && cur != nil {
		size := 2000 + g.Intn(maxRec-2200)
		var outs []chainkit.OutSpec
		left := size
		for left > 0 {
			n := 500 + g.Intn(4000)
			if n > left {
				n = left
			}
			left -= n
			outs = append(outs, chainkit.OutSpec{Value: 600, Script: append([]byte{0x51}, g.Bytes(n)...)})
		}
		need := uint64(len(outs))*600 + 1000
		if cur.Value < need+100000 {
			break
		}
		outs = append([]chainkit.OutSpec{{Value: cur.Value - need, Script: tagScript(g, 20)}}, outs...)
		tx := chainkit.BuildTx(1, []*chainkit.Coin{cur}, nil, outs, 0)
		fees += 1000
		txs = append(txs, tx)
		cur = ge.outCoins(tx, height)[0]
		total += size
	}
	return txs, fees, total, cur
}

// genAbortScenario: the sequential reference of job `abort` (same shape as genScenario: ops + the result of each).
func genAbortScenario(seed uint64, thorough bool, gt uint32) *scenario {
	runtime.GOMAXPROCS(1)
	vhook.Set(nil)
	utxo.UTXO_WRITING_TIME_TARGET = 0
	g := vlib.NewRng(seed)
	k, err := chainkit.New(kitOpts(gt, false), g.Fork())
	if err != nil {
		panic(err)
	}
	defer k.Close()
	sc := &scenario{name: "abort", gt: gt, hist: map[string]int{}}
	ge := newGen(k, g.Fork())
	ge.tagLen = g.Pick(8, 20, 33)
	dirty := false // the set differs from the last complete snapshot: the next Idle starts a save
	do := func(op Op) Res {
		r := execOp(k, &op, nil, true)
		sc.ops = append(sc.ops, op)
		sc.ref = append(sc.ref, r)
		sc.hist["op:"+op.Kind]++
		switch op.Kind {
		case "block":
			dirty = true
		case "savewait":
			dirty = false
		}
		return r
	}
	for i := 0; i < 104; i++ {
		do(Op{Kind: "block", Raw: k.Build(chainkit.BlockSpec{}), Note: "empty"})
	}
	// the ballast: one block (thorough: two) of 450..600 KB of large records
	ge.refresh()
	cs := ge.take(&ge.coins, 1, false)
	if len(cs) != 1 {
		panic("abort scenario: no coin for the ballast")
	}
	cur := cs[0]
	ballast := 0
	nb := 1
	if thorough {
		nb = 2
	}
	for b := 0; b < nb; b++ {
		_, h := k.Tip()
		txs, fees, tot, nx := ballastTxs(ge, g, cur, h+1, 450000+g.Intn(150000))
		cur = nx
		r := do(Op{Kind: "block", Raw: k.Build(chainkit.BlockSpec{Txs: txs, Fees: fees}), Note: fmt.Sprintf("ballast txs=%d bytes=%d", len(txs), tot)})
		if r.Verdict != "ok" {
			panic("abort scenario: ballast block refused: " + r.Verdict)
		}
		ballast += tot
	}
	sc.hist[fmt.Sprintf("abort:ballast-chunks>=%d", ballast/(0x10000+12100))] = 1
	do(Op{Kind: "idle"})
	do(Op{Kind: "hurry"})
	do(Op{Kind: "savewait"})
	rounds := 10
	if thorough {
		rounds = 30
	}
	fixed := []string{"commit", "undo", "abortop", "hurried", "commit", "idle2", "undo", "complete", "commit"}
	kinds := []string{"commit", "commit", "undo", "abortop", "hurried", "idle2", "complete", "undobad"}
	for round := 0; round < rounds; round++ {
		kind := kinds[g.Intn(len(kinds))]
		if round < len(fixed) {
			kind = fixed[round]
		}
		sc.hist["abort-round:"+kind]++
		if !dirty {
			do(Op{Kind: "block", Raw: k.Build(chainkit.BlockSpec{}), Note: "empty (makes the set dirty)"})
		}
		block := func(tag string) {
			ge.refresh()
			txs, fees, note := ge.blockTxs("valid", 3+g.Intn(4), 3)
			do(Op{Kind: "block", Raw: k.Build(chainkit.BlockSpec{Txs: txs, Fees: fees}), Note: tag + " " + note})
		}
		switch kind {
		case "commit": // a block arrives while the snapshot of the previous tip is being written
			do(Op{Kind: "idle"})
			if g.Bool() {
				block("commit-during-save")
			} else {
				do(Op{Kind: "block", Raw: k.Build(chainkit.BlockSpec{}), Note: "empty-during-save"})
			}
		case "idle2":
			do(Op{Kind: "idle"})
			do(Op{Kind: "idle"})
			block("commit-during-save")
		case "hurried": // HurryUp first: the saver stops looking at the abort channel between chunks - the commit waits for a COMPLETE snapshot
			do(Op{Kind: "idle"})
			do(Op{Kind: "hurry"})
			block("commit-after-hurry")
		case "abortop": // AbortWriting with no mutation behind it (what the node does before a long UI operation)
			do(Op{Kind: "idle"})
			do(Op{Kind: "abort"})
			if g.Bool() {
				do(Op{Kind: "idle"})
				do(Op{Kind: "hurry"})
				do(Op{Kind: "savewait"})
			}
		case "complete":
			do(Op{Kind: "idle"})
			do(Op{Kind: "hurry"})
			do(Op{Kind: "savewait"})
		case "undo", "undobad": // the tip is disconnected (UndoBlockTxs) while its snapshot is being written
			block("before-reorg")
			tip := k.Ch.LastBlock()
			if tip.Parent == nil {
				continue
			}
			raw1 := k.Build(chainkit.BlockSpec{Parent: tip.Parent, Time: tip.Timestamp() + 1})
			do(Op{Kind: "block", Raw: raw1, Note: "side-1 (stored, no move)"})
			bl1, _ := btc.NewBlock(raw1)
			n1 := nodeOf(k.Ch, bl1.Hash)
			if n1 == nil {
				continue
			}
			spec := chainkit.BlockSpec{Parent: n1}
			if kind == "undobad" {
				ge.refresh()
				for _, x := range ge.coins {
					if x.Kind == "anyone" && x.Height < tip.Height {
						tx := chainkit.BuildTx(1, []*chainkit.Coin{x}, nil, []chainkit.OutSpec{{Value: x.Value + 777, Script: chainkit.AnyoneScript}}, 0)
						spec.Txs = []*btc.Tx{tx}
						break
					}
				}
			}
			raw2 := k.Build(spec)
			do(Op{Kind: "idle"}) // snapshot of the tip that is about to be disconnected
			do(Op{Kind: "block", Raw: raw2, Note: kind + "-2 (reorg during save)"})
		}
		if g.Chance(1, 4) {
			do(Op{Kind: "idle"})
			do(Op{Kind: "hurry"})
			do(Op{Kind: "savewait"})
		}
	}
	do(Op{Kind: "idle"})
	for k, v := range ge.hist {
		sc.hist[k] += v
	}
	return sc
}

// abortJob: the scenario replayed with a PACED writer. Replays without the auxiliary goroutine (every abort comes from a commit,
// an undo or the scenario's own AbortWriting), and replays whose auxiliary goroutine calls AbortWriting (never HurryUp: a hurried
// saver does not look at the abort channel between chunks).
func abortJob(seed uint64, shard int, thorough bool, gt uint32, out *WorkerOut) {
	t0 := time.Now()
	sc := genAbortScenario(mix(seed, 4000+uint64(shard)), thorough, gt)
	out.Timing = append(out.Timing, fmt.Sprintf("abort-gen %.1fs", time.Since(t0).Seconds()))
	if out.Scenario == "" {
		out.Scenario = sc.name
		out.Ref = sc.ref
		for _, op := range sc.ops {
			out.Ops = append(out.Ops, op.Kind+" "+op.Note)
		}
	}
	for k, v := range sc.hist {
		out.Hist[k] += v
	}
	g := vlib.NewRng(mix(seed, 4077+uint64(shard)))
	procs := []int{4, 2, 16, 1}
	targets := []int64{3000000, 400000, 150000, 1000000}
	n := 3
	if thorough {
		procs = []int{4, 2, 16, 1, 8, 3, 12, 6}
		n = 8
	}
	for i := 0; i < n; i++ {
		cfg := Cfg{Procs: procs[i%len(procs)], Perturb: g.U64() | 1, Aux: i%3 == 2, AuxAbortOnly: true, TargetU: targets[i%len(targets)]}
		cfg.Name = fmt.Sprintf("b%d-p%d-t%d-aux%v-paced", i, cfg.Procs, cfg.TargetU, cfg.Aux)
		replay(sc, cfg, out)
		out.Hist[fmt.Sprintf("replay-abort:procs=%d", cfg.Procs)]++
	}
}

// directedAbortFull: the second place where save() looks at abortwritingnow - while data_channel is full. The temporary file is
// a FIFO whose reader does not read until the abort has been requested; the unthrottled saver (time target 0) fills data_channel
// (100 chunks; the set needs 104..120) and parks on it; then a block is committed: abortWriting must get through, the
// file goroutine must remove the temporary file, nothing may appear as UTXO.db, and the snapshot taken afterwards must be the new
// tip's set.
func directedAbortFull(seed uint64, gt uint32, out *WorkerOut) {
	runtime.GOMAXPROCS(4)
	vhook.Set(nil)
	utxo.UTXO_WRITING_TIME_TARGET = 0
	g := vlib.NewRng(seed ^ 0xABF011)
	k, err := chainkit.New(chainkit.Opts{GenesisTime: gt}, g.Fork())
	if err != nil {
		panic(err)
	}
	ge := newGen(k, g.Fork())
	for i := 0; i < 103; i++ {
		k.MustExtend(nil, 0)
	}
	ge.refresh()
	cs := ge.take(&ge.coins, 1, false)
	cur := cs[0]
	minChunks := 104 + g.Intn(17)
	want := minChunks * (0x10000 + 12100)
	total := 0
	for total < want && cur != nil {
		_, h := k.Tip()
		n := want - total
		if n > 880000 {
			n = 880000
		}
		txs, fees, tot, nx := ballastTxs(ge, g, cur, h+1, n)
		if len(txs) == 0 {
			break
		}
		k.MustExtend(txs, fees)
		cur = nx
		total += tot
	}
	rc := &recorder{dir: k.Dir, cfg: "directed-abortfull", want: map[string]Res{}}
	note := func() {
		tip, h := k.Tip()
		rc.mu.Lock()
		rc.want[tip] = Res{Tip: tip, Height: h, Dump: chainkit.DumpHash(chainkit.UtxoDump(k.Ch.Unspent))}
		rc.mu.Unlock()
	}
	note()
	rp := Replay{Cfg: Cfg{Name: "directed-abortfull", Procs: 4}}
	out.Hist["directed:abortfull"]++
	tip, _ := k.Tip()
	raw, _ := hex.DecodeString(tip)
	fifo := k.Dir + btc.NewUint256(raw).String() + ".db.tmp"
	if e := syscall.Mkfifo(fifo, 0600); e != nil {
		out.Hist["directed:abortfull:no-fifo"]++
		k.Close()
		return
	}
	release := make(chan bool)
	readerDone := make(chan int, 1)
	go func() {
		f, e := os.Open(fifo) // returns when the file goroutine has opened its end
		if e != nil {
			readerDone <- -1
			return
		}
		defer f.Close()
		<-release
		n := 0
		buf := make([]byte, 1<<16)
		for {
			m, e := f.Read(buf)
			n += m
			if e != nil {
				break
			}
		}
		readerDone <- n
	}()
	var chunks int32
	rc.onPoint = func(name string) {
		if name == "utxo.save:chunk" {
			atomic.AddInt32(&chunks, 1)
		}
	}
	vhook.Set(rc.hook)
	fail := func(what string) {
		rc.addSnap(Snap{Where: "abort-full", Err: what})
	}
	k.Ch.Idle()
	// the saver has sent 100 chunks (+1 that the file goroutine holds in its blocked Write) and is parked on the full channel
	for t0 := time.Now(); time.Since(t0) < 20*time.Second && atomic.LoadInt32(&chunks) < 101; {
		time.Sleep(time.Millisecond)
	}
	parked := atomic.LoadInt32(&chunks) >= 101
	if parked {
		out.Hist["directed:abortfull:saver-parked-on-full-channel"]++
	} else {
		out.Hist["directed:abortfull:not-forced"]++
	}
	time.Sleep(5 * time.Millisecond)
	done := make(chan string, 1)
	go func() {
		defer func() {
			if x := recover(); x != nil {
				done <- fmt.Sprint("panic: ", x)
			}
		}()
		rc.ev("h:block-call")
		k.MustExtend(nil, 0) // CommitBlockTxs -> abortWriting
		rc.ev("h:block-ret")
		done <- ""
	}()
	select {
	case e := <-done:
		if e != "" {
			fail("the block committed while the saver was parked on a full data_channel: " + e)
		}
	case <-time.After(20 * time.Second):
		fail("CommitBlockTxs did not return within 20 s while the saver was parked on a full data_channel (abort not taken)")
		close(release)
		out.Snaps = append(out.Snaps, rc.snaps...)
		rp.Events = rc.events
		out.Replays = append(out.Replays, rp)
		return // wedged: the worker exits without closing the chain
	}
	note()
	newTip, _ := k.Tip()
	close(release) // the "disk" comes back: the file goroutine's Write returns, it finds the abort verdict
	select {
	case <-readerDone:
	case <-time.After(20 * time.Second):
		fail("the file goroutine did not close the temporary file within 20 s after the abort")
	}
	closed := make(chan bool)
	go func() { k.Ch.Close(); close(closed) }() // waits for lastFileClosed; saves the new tip
	select {
	case <-closed:
		k.Ch = nil
		s := readSnapshot(k.Dir + "UTXO.db")
		s.Where = "final"
		rc.addSnap(s)
		if s.Err == "" && s.Hash != newTip {
			fail("after Close the snapshot is not of the tip " + newTip)
		}
	case <-time.After(30 * time.Second):
		fail("Close did not return within 30 s after an aborted snapshot")
	}
	if k.Ch == nil { // closed in time: every goroutine of the chain has finished (otherwise some may still be inside a hook)
		vhook.Set(nil)
		k.Close()
	}
	rp.Events = rc.events
	for _, e := range rc.events {
		if e == "utxo.save:begin" {
			rp.Saves++
		}
	}
	rp.Snaps = len(rc.snaps)
	out.Snaps = append(out.Snaps, rc.snaps...)
	out.Replays = append(out.Replays, rp)
}
