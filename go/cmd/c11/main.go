// c11 — harness for C11 (block processing is race-free and schedule independent).
// This binary has two roles (same package, built twice):
//
//	orchestrator (built by ./check without -race): asks the Lean oracle for the source-fact checks, builds
//	  the WORKER with `go build -race -tags verif` (cached under .work), runs it under GORACE with the
//	  race log captured, and judges what the worker observed: schedule-dependent verdict/tip/UTXO dump,
//	  every UTXO.db that became visible (header vs content), data-race reports, and the vhook event traces
//	  (checked by the Lean monitor = the invariants proved for the snapshot-protocol model). It also drives
//	  the Lean models themselves through random schedules (supporting exploration of the model).
//	worker (`c11 worker …`, see worker.go): runs the real code.
package main

import (
	"crypto/sha1"
	"encoding/hex"
	"encoding/json"
	"fmt"
	"os"
	"os/exec"
	"path/filepath"
	"regexp"
	"sort"
	"strings"
	"sync"
	"syscall"
	"time"

	"verif/vlib"
)

type job struct {
	Seed  uint64 `json:"seed"`
	Shard int    `json:"shard"`
	Tier  string `json:"tier"`
	Only  string `json:"only"`
}

var r *vlib.Run

// saves that were aborted half way (event utxo.save.file:abort-removed) over all jobs / over the jobs made to drive them
var abortedSaves, abortedInAbortJobs, abortJobs int

func workDir() string { return vlib.Root() + "/.work" }

func buildWorker() (string, error) {
	suf, modflags := "", []string{}
	if repo := strings.TrimRight(os.Getenv("VERIF_REPO"), "/"); repo != "" && repo != "/repo" {
		h := sha1.Sum([]byte(repo))
		suf = "_" + hex.EncodeToString(h[:])[:8]
		modflags = []string{"-modfile=" + workDir() + "/go" + suf + ".mod"}
	}
	bin := workDir() + "/bin/c11_race" + suf
	args := append([]string{"build"}, modflags...)
	args = append(args, "-race", "-tags", "verif", "-o", bin, "./cmd/c11")
	cmd := exec.Command("go", args...)
	cmd.Dir = vlib.Root() + "/go"
	cmd.Env = append(os.Environ(), "CGO_ENABLED=1")
	out, err := cmd.CombinedOutput()
	if err != nil {
		return "", fmt.Errorf("go build -race failed: %v\n%s", err, string(out))
	}
	return bin, nil
}

const hangMark = "worker did not finish (killed by the watchdog)"

type raceReport struct {
	Key  string
	Text string
}

var frameRe = regexp.MustCompile(`(?m)^  (\S+)\(`)

func parseRaces(dir string) []raceReport {
	files, _ := filepath.Glob(dir + "/race.*")
	var res []raceReport
	for _, f := range files {
		b, _ := os.ReadFile(f)
		for _, blk := range strings.Split(string(b), "==================") {
			if !strings.Contains(blk, "WARNING: DATA RACE") {
				continue
			}
			// the two access stacks are the first two paragraphs
			paras := strings.Split(strings.TrimSpace(blk), "\n\n")
			var fs []string
			for _, p := range paras {
				if len(fs) == 2 {
					break
				}
				if !(strings.Contains(p, " at 0x") || strings.Contains(p, "by goroutine") || strings.Contains(p, "by main goroutine")) || strings.HasPrefix(strings.TrimSpace(p), "Goroutine") {
					continue
				}
				fn := "?"
				for _, m := range frameRe.FindAllStringSubmatch(p, -1) {
					if strings.Contains(m[1], "piotrnar/gocoin") {
						fn = m[1]
						break
					}
					if fn == "?" {
						fn = m[1]
					}
				}
				fn = strings.TrimPrefix(fn, "github.com/piotrnar/gocoin/")
				fs = append(fs, fn)
			}
			sort.Strings(fs)
			t := strings.TrimSpace(blk)
			if len(t) > 6000 {
				t = t[:6000]
			}
			res = append(res, raceReport{Key: "race:" + strings.Join(fs, "|"), Text: t})
		}
	}
	return res
}

func runWorker(bin string, j job, dir string) (*WorkerOut, []raceReport, error) {
	jd := fmt.Sprintf("%s/s%d", dir, j.Shard)
	os.MkdirAll(jd, 0755)
	outp := jd + "/out.json"
	args := []string{"worker", "-seed", fmt.Sprint(j.Seed), "-tier", j.Tier, "-out", outp, "-shard", fmt.Sprint(j.Shard)}
	if j.Only != "" {
		args = append(args, "-only", j.Only)
	}
	cmd := exec.Command(bin, args...)
	cmd.Env = append(os.Environ(), "GORACE=halt_on_error=0 log_path="+jd+"/race", "TMPDIR="+jd)
	lf, _ := os.Create(jd + "/log")
	cmd.Stdout, cmd.Stderr = lf, lf
	// watchdog: a worker normally needs 10-20 s (quick) / 1-3 min (thorough); one that is still running long after
	// that is wedged (a goroutine of the real code waits for ever): ask the runtime for all stacks, then kill it
	limit := 120 * time.Second
	if j.Tier == "thorough" {
		limit = 900 * time.Second
	}
	err := cmd.Start()
	if err == nil {
		done := make(chan error, 1)
		go func() { done <- cmd.Wait() }()
		select {
		case err = <-done:
		case <-time.After(limit):
			cmd.Process.Signal(syscall.SIGQUIT)
			select {
			case <-done:
			case <-time.After(10 * time.Second):
				cmd.Process.Kill()
				<-done
			}
			err = fmt.Errorf("%s after %v", hangMark, limit)
		}
	}
	lf.Close()
	b, rerr := os.ReadFile(outp)
	if rerr != nil {
		lg, _ := os.ReadFile(jd + "/log")
		if len(lg) > 3000 {
			lg = lg[len(lg)-3000:]
		}
		return nil, parseRaces(jd), fmt.Errorf("worker produced no result (%v): %s", err, string(lg))
	}
	var wo WorkerOut
	if e := json.Unmarshal(b, &wo); e != nil {
		return nil, nil, e
	}
	return &wo, parseRaces(jd), nil
}

var evLetter = map[string]byte{
	"utxo.save:begin": 'b', "utxo.save:finito": 'f', "utxo.commit:before-commit": 'm',
	"chain.commit:after-utxo": 'e', "chain.parse:after-utxo": 'e',
	"utxo.undo:before-mutation": 'm', "chain.undo:after-utxo": 'e', // UndoBlockTxs: same monitor events as a commit
	"utxo.save.file:created": 'c', "utxo.save.file:renamed": 'd', "utxo.save.file:abort-removed": 'd',
}

func judge(o *vlib.Oracle, j job, wo *WorkerOut, races []raceReport) {
	rp := map[string]interface{}{"job": j}
	if wo.Fatal != "" {
		r.TieFail("worker-fatal", "the worker could not complete its scenario: "+wo.Fatal, rp)
	}
	for k, v := range wo.Hist {
		for i := 0; i < v; i++ {
			r.Hit(k)
		}
	}
	if n := wo.Hist["commit:update-keys-COLLIDE"]; n > 0 {
		r.TieFail("nodup-hypothesis", fmt.Sprintf("%d block(s) of the scenario create or spend two transactions whose txids share the first 8 bytes: the hypothesis Nodup of disjoint_updates_commute does not hold for them", n), rp)
	}
	for i, op := range wo.Ops {
		if i >= 108 && i < 114 {
			r.Sample(map[string]interface{}{"op": op, "reference": wo.Ref[i]})
		}
	}
	if wo.CreateFail != "" {
		r.Eval("directed:createfail", fmt.Sprint(j.Seed, j.Shard, "createfail"))
		if wo.CreateFail == "ok" {
			r.TieOK()
		} else {
			r.PropFail("snapshot-create-failure-wedges-node", "os.Create of one snapshot's temporary file fails (a directory has its name); later: "+wo.CreateFail,
				map[string]interface{}{"job": j, "stacks": wo.CreateFailStacks})
		}
	}
	if wo.UIStuck != "" {
		r.PropFail("operator-command-never-completes", "with the real text UI driving the node (main loop serving usif.UiChannel between blocks): "+wo.UIStuck, rp)
	}
	for _, d := range wo.Diffs {
		kind := strings.Fields(d.Note + " ?")[0]
		r.PropFail("schedule-dependent:"+kind, fmt.Sprintf("under schedule %s op %d (%s) gave %+v, the sequential reference %+v", d.Cfg, d.Op, d.Note, d.Got, d.Ref),
			map[string]interface{}{"job": j, "diff": d})
	}
	for _, rpl := range wo.Replays {
		if rpl.Panic != "" {
			r.PropFail("panic-under-schedule", "replay "+rpl.Cfg.Name+" panicked: "+rpl.Panic, map[string]interface{}{"job": j, "cfg": rpl.Cfg})
		}
		var sb strings.Builder
		for _, e := range rpl.Events {
			if c, ok := evLetter[e]; ok {
				sb.WriteByte(c)
			}
		}
		line := sb.String()
		if line == "" {
			line = "-"
		}
		rep := o.MustAsk("mon " + line)
		r.Eval("trace:"+fmt.Sprintf("procs=%d", rpl.Cfg.Procs), fmt.Sprint(j.Seed, j.Shard, rpl.Cfg.Name, line))
		if strings.HasPrefix(rep, "ok") {
			r.TieOK()
		} else {
			f := strings.Fields(rep + " ? ?")
			r.PropFail("protocol:"+f[2], "the vhook event trace of replay "+rpl.Cfg.Name+" violates an invariant of the snapshot protocol: "+rep,
				map[string]interface{}{"job": j, "cfg": rpl.Cfg, "trace": line})
		}
		r.Hit(fmt.Sprintf("saves-per-replay:%d", min(rpl.Saves, 9)))
		for _, e := range rpl.Events {
			switch e {
			case "utxo.save.file:abort-removed":
				// a save that was ABANDONED half way: the file goroutine closed and removed the temporary file (the hook checked that
				// nothing carries the name UTXO.db at that moment)
				r.Hit("snapshot:aborted-removed")
				abortedSaves++
				if strings.Contains(j.Only, "abort") {
					abortedInAbortJobs++
				}
			case "utxo.save.file:renamed":
				r.Hit("snapshot:completed-renamed")
			}
		}
	}
	if strings.Contains(j.Only, "abort") {
		abortJobs++
	}
	for _, s := range wo.Snaps {
		key := fmt.Sprint(j.Seed, j.Shard, s.Cfg, s.Where, s.Hash, s.Dump)
		if strings.HasPrefix(s.Err, "unreadable") && s.Where == "renamed" {
			// the hook runs inside the file goroutine right after its rename; the next save() cannot start before that goroutine is
			// done (lastFileClosed), so nothing can have moved the file away - if it is unreadable the tie lost its observation
			r.Hit("snapshot:moved-away-before-read")
			r.TieFail("snapshot-unobserved", fmt.Sprintf("UTXO.db could not be read at utxo.save.file:renamed under schedule %s: %s", s.Cfg, s.Err), map[string]interface{}{"job": j, "snapshot": s})
			continue
		}
		r.Eval("snapshot:"+s.Where, key)
		switch {
		case s.Err != "" && (s.Where == "after-abort" || s.Where == "abort-full"):
			r.PropFail("aborted-snapshot:"+s.Where, fmt.Sprintf("a snapshot was aborted while it was being written (schedule %s): %s (header height %d hash %s)", s.Cfg, s.Err, s.Height, s.Hash),
				map[string]interface{}{"job": j, "snapshot": s})
		case s.Err != "":
			r.PropFail("snapshot-corrupt:"+s.Where, fmt.Sprintf("UTXO.db visible under schedule %s (%s) does not parse as a snapshot: %s (header height %d hash %s)", s.Cfg, s.Where, s.Err, s.Height, s.Hash),
				map[string]interface{}{"job": j, "snapshot": s})
		case s.WantH < 0:
			r.PropFail("snapshot-unknown-block", fmt.Sprintf("UTXO.db under schedule %s names block %s @%d that was never the tip in the reference run", s.Cfg, s.Hash, s.Height),
				map[string]interface{}{"job": j, "snapshot": s})
		case s.Dump != s.Want || int64(s.Height) != s.WantH:
			r.PropFail("snapshot-mismatch", fmt.Sprintf("UTXO.db under schedule %s has header (%d,%s) but its content (dump %s) is not the unspent set of that block (dump %s, height %d)", s.Cfg, s.Height, s.Hash, s.Dump, s.Want, s.WantH),
				map[string]interface{}{"job": j, "snapshot": s})
		default:
			r.TieOK()
		}
	}
	for _, rc := range races {
		r.Hit("race-report")
		r.PropFail(rc.Key, "the Go race detector reported a data race in the real code: "+rc.Key, map[string]interface{}{"job": j, "report": rc.Text})
	}
	// the commitTxs fan-out model against the real verdicts
	g := vlib.NewRng(j.Seed*977 + uint64(j.Shard))
	for _, c := range wo.Commit {
		if !c.Model {
			continue
		}
		var txs []string
		for i, n := range c.Nins {
			e := 0
			if i == c.Early {
				e = 1
			}
			txs = append(txs, fmt.Sprintf("%d.2.%d.-", n, e))
		}
		bad := "-"
		if len(c.Bad) > 0 {
			var bs []string
			for _, b := range c.Bad {
				bs = append(bs, fmt.Sprintf("%d_%d", b[0], b[1]))
			}
			bad = strings.Join(bs, ",")
		}
		// a random fair schedule: main and workers interleaved, then drain
		var labs []string
		tot := 0
		for _, n := range c.Nins {
			tot += n
		}
		for i := 0; i < 3*(len(c.Nins)+tot)+8; i++ {
			if g.Chance(1, 3) {
				labs = append(labs, "M")
			} else {
				labs = append(labs, fmt.Sprint(g.Intn(4)))
			}
		}
		for i := 0; i < tot+len(c.Nins)+4; i++ {
			labs = append(labs, "0", "M")
		}
		rep := o.MustAsk("fan 1 " + strings.Join(txs, ",") + " " + bad + " " + strings.Join(labs, ","))
		f := strings.Fields(rep)
		var want string
		switch {
		case c.Verdict == "ok":
			want = "- 0"
		case strings.Contains(c.Verdict, "VerifyScripts failed"):
			var n int
			fmt.Sscanf(c.Verdict[strings.Index(c.Verdict, "VerifyScripts failed")+len("VerifyScripts failed"):], "%d", &n)
			want = fmt.Sprintf("- %d", n)
		default:
			want = "early"
		}
		got := "?"
		if len(f) == 5 && f[0] == "ok" {
			if f[1] != "-" {
				got = "early"
			} else {
				got = f[1] + " " + f[2]
			}
			if f[1] != f[3] || (f[1] == "-" && f[2] != f[4]) {
				r.TieFail("fan-model-schedule", "the Lean fan-out model gave a schedule-dependent verdict: "+rep, map[string]interface{}{"case": c})
			}
		}
		r.Eval("fan-model:"+strings.Fields(c.Note)[0], fmt.Sprint(j.Seed, j.Shard, c.Note, c.Verdict))
		if got == want {
			r.TieOK()
		} else {
			r.TieFail("fan-model", fmt.Sprintf("commitTxs verdict %q (class %q) but the fan-out model says %q (%s)", c.Verdict, want, got, rep), map[string]interface{}{"job": j, "case": c})
		}
	}
}

// exploreModel drives the Lean snapshot-protocol model through random programs and schedules.
func exploreModel(o *vlib.Oracle, n int) {
	g := r.Rng.Fork()
	mops, xops := "ciahscup", "ha"
	labs := "mmmmxxsssssAHfffE123"
	for i := 0; i < n; i++ {
		var mp, xp, ls strings.Builder
		for k := g.Intn(7); k >= 0; k-- {
			mp.WriteByte(mops[g.Intn(len(mops))])
		}
		if g.Bool() {
			mp.WriteByte('x')
		}
		for k := g.Intn(4); k > 0; k-- {
			xp.WriteByte(xops[g.Intn(len(xops))])
		}
		for k := 20 + g.Intn(200); k > 0; k-- {
			ls.WriteByte(labs[g.Intn(len(labs))])
		}
		// fair suffix so that every run can finish
		for k := 0; k < 60; k++ {
			ls.WriteString("mxs1Hf")
		}
		x := xp.String()
		if x == "" {
			x = "-"
		}
		line := fmt.Sprintf("snap %s %s %d %s", mp.String(), x, 1+g.Intn(3), ls.String())
		rep := o.MustAsk(line)
		f := strings.Fields(rep)
		r.Eval("model-schedule", line)
		if len(f) != 6 || f[0] != "ok" || f[2] != "1" || f[3] != "1" {
			r.TieFail("model-invariant", "the snapshot-protocol model violates its own invariant on an explored schedule: "+rep, map[string]interface{}{"request": line})
		} else if f[4] != "1" && f[5] != "1" {
			r.TieFail("model-deadlock", "the snapshot-protocol model is stuck in a non-final state: "+rep, map[string]interface{}{"request": line})
		} else if f[4] != "1" {
			r.Hit("model-run-not-finished")
		} else {
			r.Hit("model-run-final:visible=" + f[1])
		}
	}
}

func min(a, b int) int {
	if a < b {
		return a
	}
	return b
}

func main() {
	if len(os.Args) > 1 && os.Args[1] == "worker" {
		workerMain(os.Args[2:])
		return
	}
	r = vlib.NewRun("C11")
	o, err := vlib.StartOracle("c11")
	if err != nil {
		fmt.Fprintln(os.Stderr, "cannot start oracle:", err)
		os.Exit(3)
	}
	defer o.Close()
	r.Assume = []string{
		"UnspentDB.Save/Idle/Close/CommitBlockTxs/UndoBlockTxs/PurgeUnspendable/DefragMap/AbortWriting are executed by one goroutine (gocoin's main loop) - no longer a bare assumption: gen_c11 (thread.go) lists every call site of them in the whole client with the goroutines that can reach it (call graph over go/types incl. function values and the text UI's command table with its thread flag) and the kernel decides that none is reachable from another goroutine (source_thread_facts); foreign_save_counterexample shows what one direct Save() on another goroutine does. an operation used as a method value / callback argument (`f := db.Save; go f()`, time.AfterFunc(d, db.AbortWriting)) counts as a site executed by another goroutine. Not resolved by that call graph: calls through interface methods, function values returned from functions, reflection",
		"os.Create of the snapshot file succeeds in the MODEL; on the real code a failing os.Create is exercised by the directed scenario createfail (fix 881f68ff: the file goroutine now drains the channels and reports the file closed; before, the next save() parked in lastFileClosed.Wait and the next CommitBlockTxs hung holding db.Mutex)",
		"UnspentDB.commit: the add/delete workers of one block touch pairwise different map keys - the map key is the first 8 bytes of the txid (UtxoKeyType), so this ASSUMES that no two transactions created or spent by one block share their first 8 txid bytes (hypothesis Nodup of disjoint_updates_commute; a collision needs about 2^32 work; checked on every block of the scenarios run: histogram commit:update-keys-distinct)",
		"memory-level data races are observed only through the Go race detector on the schedules that were run",
		"the generated shape facts are tests on flattened event lists: they do not pin conditions other than the polarity of a negation, the value assigned to commitTxs' wait flag, the loop / exit tests of save() and of its file goroutine (which verdict goes to exit_channel, draining before the rename) or map indices - edits there are left to the race-detector / snapshot runs (job abort drives the abort path: histogram snapshot:aborted-removed)",
		"UTXO records kept in gocoin's recycling allocator (lib/others/memory, the client's default; replays named …alloc) live in mmap'ed memory the race detector does not see: a use of a freed record is observed only through VALUES there (UTXO dump, undo-file digest, snapshot content), under a seeded slow undo writer; the sequential reference always runs on the Go heap",
		"Model/ConcOwn (Ring, Undo, Collect) abstracts a chunk / a record slot / a spent-output entry to one cell; that save(), the allocator and commitTxs refine them is tied by the three regenerated ownership facts (spawnAfterComplete, chunkBuffersOwned, changeSetOwnsScripts) and otherwise correspondence-tested only",
	}
	rep := o.MustAsk("facts")
	if !strings.HasPrefix(rep, "ok 1 1") {
		r.TieFail("source-facts", "the synchronisation facts extracted from the source no longer satisfy the lock-discipline / protocol-shape checks of the model: "+rep, map[string]interface{}{"oracle": rep})
	} else {
		r.TieOK()
	}
	if f := strings.Fields(rep); len(f) != 6 || f[4] != "1" {
		what := map[string]string{
			"spawnAfterComplete":   "a goroutine is started while the goroutine that starts it still writes a field of the same object that the new goroutine reads (a later loop iteration or a later statement stores into it): the reader may see it incomplete",
			"chunkBuffersOwned":    "UnspentDB.save sends a chunk buffer to the file goroutine and touches the same buffer again (a pool smaller than the channel capacity + 2, or one reused buffer): a chunk can be rewritten while it is being written to the file",
			"changeSetOwnsScripts": "commitTxs stores a slice of a stored UTXO record's memory (handed out by UnspentDB) into the change set for CommitBlockTxs instead of a copy: the delete workers free that memory while the undo writer / insert workers still read it",
		}
		bad := "?"
		if len(f) == 6 {
			bad = f[5]
		}
		msg := "ownership facts regenerated from the source do not hold: " + bad
		for _, b := range strings.Split(bad, ",") {
			if w, ok := what[b]; ok {
				msg += "; " + b + ": " + w
			}
		}
		r.TieFail("ownership-facts:"+bad, msg, map[string]interface{}{"oracle": rep})
	} else {
		r.TieOK()
	}
	// which goroutine may start a snapshot / mutate the maps: call sites over the whole client (gen_c11 thread.go)
	if rep := o.MustAsk("tfacts"); rep != "ok 1 -" {
		f := strings.Fields(rep + " ? ?")
		what := "the call graph from main.main no longer reaches the operations on the main goroutine (block path, idle timer, operator's save command, Close)"
		if f[2] != "-" {
			what = "a goroutine other than the main one can execute UnspentDB." + strings.ReplaceAll(f[2], ",", " / ") + " (a `go` statement, an HTTP / timer callback, or a command of the text UI's table that the UI goroutine runs itself): the hand-shake abortWriting-then-mutate of CommitBlockTxs / UndoBlockTxs only excludes saves started by the committing goroutine - a snapshot started elsewhere can read the header of one block and the maps of another (Props.C11.foreign_save_counterexample)"
		}
		r.TieFail("thread-facts:"+f[2], "the thread-affinity facts regenerated from the client's source do not hold: "+what, map[string]interface{}{"oracle": rep})
	} else {
		r.TieOK()
	}
	exploreModel(o, r.N(400, 6000))

	bin, err := buildWorker()
	if err != nil {
		r.TieFail("race-build", err.Error(), nil)
		r.Finish("n/a", "the -race build of the worker failed")
	}
	dir, _ := os.MkdirTemp("", "vc11")
	defer os.RemoveAll(dir)
	var jobs []job
	if r.Replay != "" {
		b, _ := os.ReadFile(r.Replay)
		var doc struct {
			Replay struct {
				Job job `json:"job"`
			} `json:"replay"`
		}
		json.Unmarshal(b, &doc)
		if doc.Replay.Job.Tier == "" {
			doc.Replay.Job = job{Seed: r.Seed, Tier: "quick"}
		}
		jobs = []job{doc.Replay.Job}
	} else if r.Thorough() {
		for s := 0; s < 8; s++ {
			j := job{Seed: r.Seed, Shard: s, Tier: "thorough", Only: "chain"}
			if s == 0 {
				j.Only = ""
			}
			jobs = append(jobs, j)
		}
		for s := 1; s <= 2; s++ {
			jobs = append(jobs, job{Seed: r.Seed, Shard: s, Tier: "thorough", Only: "recycle,bigsnap"})
		}
		for s := 0; s <= 1; s++ {
			jobs = append(jobs, job{Seed: r.Seed, Shard: s, Tier: "thorough", Only: "operator"})
		}
		for s := 0; s <= 1; s++ {
			jobs = append(jobs, job{Seed: r.Seed, Shard: s, Tier: "thorough", Only: "abort,abortfull"})
		}
	} else {
		jobs = []job{{Seed: r.Seed, Shard: 0, Tier: "quick", Only: "recycle"}, {Seed: r.Seed, Shard: 0, Tier: "quick", Only: "chain"},
			{Seed: r.Seed, Shard: 1, Tier: "quick", Only: "chain"}, {Seed: r.Seed, Shard: 0, Tier: "quick", Only: "compr"},
			{Seed: r.Seed, Shard: 0, Tier: "quick", Only: "resave,bigsnap"}, {Seed: r.Seed, Shard: 0, Tier: "quick", Only: "createfail"},
			{Seed: r.Seed, Shard: 0, Tier: "quick", Only: "operator"}, {Seed: r.Seed, Shard: 0, Tier: "quick", Only: "abort,abortfull"}}
	}
	type result struct {
		j     job
		wo    *WorkerOut
		races []raceReport
		err   error
	}
	res := make([]result, len(jobs))
	var wg sync.WaitGroup
	sem := make(chan bool, 4)
	for i := range jobs {
		wg.Add(1)
		go func(i int) {
			defer wg.Done()
			sem <- true
			jd := fmt.Sprintf("%s/j%d", dir, i)
			os.MkdirAll(jd, 0755)
			wo, races, err := runWorker(bin, jobs[i], jd)
			res[i] = result{jobs[i], wo, races, err}
			<-sem
		}(i)
	}
	wg.Wait()
	nrep := 0
	for _, x := range res {
		if x.err != nil {
			msg := x.err.Error()
			if strings.Contains(msg, hangMark) {
				// the real code neither finished nor crashed: some goroutine waits for ever (lost wake-up, a wait
				// for a goroutine that cannot proceed, a spin that nothing ends) — the node would be wedged
				r.PropFail("hang-under-schedule", "the real code did not finish the scenario (Idle/Save/Close/commit waiting for ever): "+msg,
					map[string]interface{}{"job": x.j, "log": msg})
			} else if i := strings.Index(msg, "piotrnar/gocoin/"); i >= 0 && (strings.Contains(msg, "panic:") || strings.Contains(msg, "fatal error:")) {
				// a goroutine of the real code died under a perturbed schedule (the sequential reference of the same
				// scenario did not): not recoverable in-process, observed through the exit of the worker
				r.PropFail("crash-under-schedule", "the real code crashed in a background goroutine while the scenario was replayed under a perturbed schedule: "+msg,
					map[string]interface{}{"job": x.j, "log": msg})
			} else {
				r.TieFail("worker-crash", msg, map[string]interface{}{"job": x.j})
			}
			for _, rc := range x.races {
				r.PropFail(rc.Key, "the Go race detector reported a data race in the real code: "+rc.Key, map[string]interface{}{"job": x.j, "report": rc.Text})
			}
			continue
		}
		judge(o, x.j, x.wo, x.races)
		nrep += len(x.wo.Replays)
	}
	if abortJobs > 0 && abortedInAbortJobs == 0 && r.Replay == "" {
		// the jobs built to abandon snapshots half way (paced writer + ballast of > 64 KB; FIFO with a full data_channel) did not
		// abort a single one: either the real code no longer aborts (abortWriting waits for the complete snapshot - then nothing
		// of the abort path was run), or the scenario lost its grip; in both cases the tie did not observe what it claims
		r.TieFail("abort-path-not-driven", "no snapshot was aborted half way in the jobs abort/abortfull (event utxo.save.file:abort-removed never seen): the abort path of UnspentDB.save and of its file goroutine was not executed", map[string]interface{}{"job": job{Seed: r.Seed, Tier: "quick", Only: "abort,abortfull"}})
	}
	r.Extra["snapshots_aborted_half_way"] = abortedSaves
	r.Extra["race_build"] = "go build -race -tags verif ./cmd/c11 (worker), GORACE=halt_on_error=0"
	r.Extra["replays_under_perturbed_schedules"] = nrep
	r.Finish("cases: (1) every UTXO.db that became visible in a replay of the real code under a perturbed schedule (distinct by schedule, tip, content); "+
		"(2) one vhook event trace per replay, checked by the Lean monitor; (3) commitTxs verdicts compared with the Lean fan-out model under a random schedule; "+
		"(4) random programs x schedules of the Lean snapshot-protocol model (distinct by request; supports the theorems, which cover all of them). Non-trivial: a snapshot file with records, a trace with at least one save, a block with transactions, a model run with at least one step. "+
		"The observable result of a block op includes a digest of the tip's undo file; snapshots written to a stalled FIFO (directed bigsnap, more chunks than data_channel holds) count under snapshot:slow-disk. Snapshots ABANDONED half way (job abort: ballast of > 64 KB, paced writer, the next block / reorg / AbortWriting arriving between two chunks; directed abortfull: saver parked on a full data_channel) are counted in histogram snapshot:aborted-removed and extra.snapshots_aborted_half_way; zero of them in those jobs is a tie failure (abort-path-not-driven).",
		"The synchronisation protocols (snapshot writer vs committer, commitTxs fan-out, BlockDB publish-last, disjoint-key updates, atomic sums, compute-once caches) are modelled as transition systems with an arbitrary scheduler; "+
			"snapshot_atomic, no_deadlock (data_channel capacity >= 1), commit_schedule_independent and the supporting invariants are proved in Lean for ALL programs and interleavings of those systems; the lock discipline and the protocol-shape facts (source_protocol_facts) are decided by the kernel on the synchronisation sequences regenerated from the source on this run. "+
			"What no executable Lean model exhibits — and is therefore only explored, not proved — is the Go memory model itself: word tearing and reordering of unsynchronised accesses, the real goroutine scheduler, map-iteration order, and OS file semantics (two writers on one inode). Those, and the faithfulness of the hand-written transition systems beyond the shape facts, are covered by running the real code under the race detector with GOMAXPROCS 1..16 and pseudo-random yields/sleeps at every vhook point (chain scenarios, the directed same-tip resave, and a compressed-UTXO scenario with several SerializeC calls in flight), which samples schedules and proves nothing about the ones not run. "+
			"Ownership of memory handed to another goroutine (chunk buffers of save(), undo entries vs the recycling record allocator, the start order of the script workers) is modelled in Model/ConcOwn.lean: safety for every schedule is proved for 'fresh buffer or ring of at least capacity+1', 'undo entries own copies', 'workers start after the collection', each with a counterexample for the alternative, and tied to the source by three regenerated facts; the real code is driven into those situations by taproot key-path consolidations (the sighash that reads all spent outputs), churn blocks on an aged recycling allocator with a slow undo writer, a run-to-block replay (one P, no yields) with Idle called twice and a commit right after Idle, and a big snapshot to a stalled disk. "+
			"Which goroutine may start a snapshot: the protocol is proved for saves started by the committing goroutine (committer_started_saves_atomic) and broken by one direct Save() elsewhere (foreign_save_counterexample); that the node calls Save/Idle/Close/CommitBlockTxs/UndoBlockTxs/PurgeUnspendable/DefragMap/AbortWriting on its main goroutine only is regenerated from the whole client (call graph with function values and the text UI's command table) and decided by the kernel (source_thread_facts); job `operator` runs the real textui.MainThread on a piped keyboard next to a main loop that serves usif.UiChannel between blocks, a seeded operator typing saveutxo / utxodb / bchain / defrag map / ... mostly while a block is being committed.")
}
