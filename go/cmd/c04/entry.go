// entry.go — the ways a block OBJECT reaches Chain.CommitBlock (added after the fourth round of seeded changes).
//
// chainkit.Submit = btc.NewBlock(whole block) + Chain.CheckBlock + Chain.AcceptBlock is what tools and the RPC path do.
// A block that arrives from the network takes another road through the client, and the *btc.Block that commitTxs walks
// (its Txs, their hashes, TxOut.WasCoinbase, VerifyFlags, Height …) is built by other code on it:
//
//	"net"    client/network/hdrs.go ProcessNewHeader: btc.NewBlock(80-byte header), Chain.PreCheckBlock, Chain.AcceptHeader
//	         (the node is in the index before the body is known); client/network/data.go netBlockReceived: `bl.Raw = body`,
//	         Chain.PostCheckBlock — on an error Chain.DeleteBranch(node); client/main.go LocalAcceptBlock:
//	         Unspent.AbortWriting, Blocks.BlockAdd(height, bl), bl.LastKnownHeight = <last header>, Chain.CommitBlock(bl, node);
//	"cache"  the same, but between PostCheckBlock and LocalAcceptBlock the block is parked in the client's disk cache
//	         (data.go, while syncing: the raw bytes, a ".hashes" file with wtxid [+ txid for segwit transactions] of every
//	         transaction, and BlockExtraInfo in memory) and the object that reaches CommitBlock is made by
//	         client/main.go get_block_from_disk_cache: btc.NewBlock(file), Block.BuildTxListExt(false) — the list WITHOUT
//	         hashing —, hashes copied back from the file, BlockExtraInfo restored.
//
// The property is about the block's bytes: verdict, tip and unspent set must not depend on the road. Episodes and branch
// walks with opts.Entry = "net" | "cache" send EVERY block (chain-growing ones included) down that road; everything
// else — model, spec, reference, dumps — is judged as usual. The steps below are the client's, statement by statement;
// the client's own functions live in package main / need a peer connection and cannot be called from here.
// LastKnownHeight is the block's own height plus 0..3 (the last header the node knows: at or slightly above the block —
// commitTxs collects undo data only within UnwindBufLen of it).
package main

import (
	"fmt"
	"os"

	"github.com/piotrnar/gocoin/client/txpool"
	"github.com/piotrnar/gocoin/lib/btc"
	"verif/chainkit"
)

// submit sends a block down the road the episode is configured for.
func (e *episode) submit(raw []byte) *chainkit.Result {
	if e.opts.RealPool { // client/main.go LocalAcceptBlock: the pool is told that a commit is in progress; common.Last afterwards
		txpool.BlockCommitInProgress(true)
		defer func() {
			txpool.BlockCommitInProgress(false)
			e.syncTip()
		}()
	}
	switch e.opts.Entry {
	case "net":
		return e.submitNet(raw, false)
	case "cache":
		return e.submitNet(raw, true)
	}
	return e.k.Submit(raw)
}

func (e *episode) submitNet(raw []byte, cached bool) (res *chainkit.Result) {
	res = &chainkit.Result{}
	defer func() {
		if x := recover(); x != nil {
			res.Panic = fmt.Sprint(x)
		}
	}()
	ch := e.k.Ch
	if len(raw) < 81 {
		res.ParseErr = fmt.Errorf("no body")
		return
	}
	// hdrs.go: the header arrives first
	bl, err := btc.NewBlock(raw[:80])
	if err != nil {
		res.ParseErr = err
		return
	}
	res.Block = bl
	ch.BlockIndexAccess.Lock()
	res.Dos, res.Later, res.CheckErr = ch.PreCheckBlock(bl)
	if res.CheckErr != nil {
		ch.BlockIndexAccess.Unlock()
		return
	}
	node := ch.AcceptHeader(bl)
	ch.BlockIndexAccess.Unlock()
	// data.go: the body
	bl.Raw = raw
	if er := ch.PostCheckBlock(bl); er != nil {
		res.Dos, res.CheckErr = true, er
		ch.DeleteBranch(node, nil)
		return
	}
	obj := bl
	if cached {
		dir := e.k.Dir + "tmpblk" + string(os.PathSeparator)
		os.MkdirAll(dir, 0770)
		fname := dir + bl.Hash.String()
		if er := os.WriteFile(fname, bl.Raw, 0600); er != nil {
			panic("c04: " + er.Error())
		}
		buf := make([]byte, 0, 64*len(bl.Txs))
		for _, tx := range bl.Txs {
			buf = append(buf, tx.WTxID().Hash[:]...)
			if tx.SegWit != nil {
				buf = append(buf, tx.Hash.Hash[:]...)
			}
		}
		os.WriteFile(fname+".hashes", buf, 0600)
		bei := bl.BlockExtraInfo
		// main.go get_block_from_disk_cache
		dat, er := os.ReadFile(fname)
		os.Remove(fname)
		if er != nil {
			panic(er.Error())
		}
		nb, er := btc.NewBlock(dat)
		if er != nil {
			panic(er.Error())
		}
		hashes, er := os.ReadFile(fname + ".hashes")
		os.Remove(fname + ".hashes")
		if er != nil {
			panic(er.Error())
		}
		if er = nb.BuildTxListExt(false); er != nil {
			panic(er.Error())
		}
		offs := 0
		for _, tx := range nb.Txs {
			copy(tx.WTxID().Hash[:], hashes[offs:])
			offs += 32
			if tx.SegWit != nil {
				copy(tx.Hash.Hash[:], hashes[offs:])
				offs += 32
			}
		}
		nb.BlockExtraInfo = bei
		obj = nb
		res.Block = nb
		e.r.Hit("entry:block-object-rebuilt-from-disk-cache")
	}
	// main.go LocalAcceptBlock
	ch.Unspent.AbortWriting()
	ch.Blocks.BlockAdd(node.Height, obj)
	obj.LastKnownHeight = node.Height + uint32(len(raw)%4)
	res.AcceptErr = ch.CommitBlock(obj, node)
	return
}
