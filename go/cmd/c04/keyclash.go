package main

// keyClashProbe — what does the real UnspentDB.commit do when a new record's 8-byte key equals the key of a record of
// a DIFFERENT txid?  Real txids with equal first 8 bytes need a 2^32-work birthday collision on SHA-256d, which this
// check cannot (and must not try to) produce; so the probe enters at the layer below hashing: it hands
// UnspentDB.CommitBlockTxs two BlockChanges whose AddList records carry CHOSEN txids.  The observation is recorded in the
// evidence (it is the concrete meaning of the "hash-prefix injectivity" assumption of theorem connect_sound); the
// Lean side of the same fact is Props.C04.connect_sound_needs_prefix_injectivity.  It is an assumption, not a finding.

import (
	"fmt"
	"os"

	"github.com/piotrnar/gocoin/lib/btc"
	"github.com/piotrnar/gocoin/lib/utxo"
)

func keyClashProbe(r *Run) {
	dir, err := os.MkdirTemp("", "vc04k")
	if err != nil {
		return
	}
	defer os.RemoveAll(dir)
	abort := false
	obs := "?"
	func() {
		defer func() {
			if x := recover(); x != nil {
				obs = fmt.Sprint("panic: ", x)
			}
		}()
		db := utxo.NewUnspentDb(&utxo.NewUnspentOpts{Dir: dir + string(os.PathSeparator), VolatimeMode: true, AbortNow: &abort})
		defer db.Close()
		var a, b [32]byte
		for i := range a {
			a[i], b[i] = 0x11, 0x22
		}
		copy(a[:8], []byte{9, 9, 9, 9, 9, 9, 9, 9})
		copy(b[:8], a[:8])
		recA := &utxo.UtxoRec{TxID: a, InBlock: 1, Outs: []*utxo.UtxoTxOut{{Value: 1000, PKScr: []byte{0x51}}, {Value: 2000, PKScr: []byte{0x52}}}}
		recB := &utxo.UtxoRec{TxID: b, InBlock: 2, Outs: []*utxo.UtxoTxOut{{Value: 3000, PKScr: []byte{0x53}}}}
		h1, h2 := make([]byte, 32), make([]byte, 32)
		h1[0], h2[0] = 1, 2
		db.CommitBlockTxs(&utxo.BlockChanges{Height: 1, AddList: []*utxo.UtxoRec{recA}}, h1)
		a0 := db.UnspentGet(&btc.TxPrevOut{Hash: a, Vout: 0})
		db.CommitBlockTxs(&utxo.BlockChanges{Height: 2, AddList: []*utxo.UtxoRec{recB}}, h2)
		a0after := db.UnspentGet(&btc.TxPrevOut{Hash: a, Vout: 0})
		a1after := db.UnspentGet(&btc.TxPrevOut{Hash: a, Vout: 1})
		b0after := db.UnspentGet(&btc.TxPrevOut{Hash: b, Vout: 0})
		n := 0
		for i := range db.HashMap {
			n += len(db.HashMap[i])
		}
		switch {
		case a0 == nil:
			obs = "first record not stored"
		case a0after == nil && a1after == nil && b0after != nil && n == 1:
			obs = "old-record-replaced: after adding txid B (same first 8 bytes as A) the coins (A,0),(A,1) are gone, (B,0) is present, the map holds 1 record"
		case a0after != nil && b0after != nil:
			obs = "both-kept"
		default:
			obs = fmt.Sprintf("other: A0=%v A1=%v B0=%v records=%d", a0after != nil, a1after != nil, b0after != nil, n)
		}
	}()
	r.Extra["hash_prefix_injectivity_probe"] = obs
	r.Hit("keyclash-probe:" + firstWord(obs))
}

func firstWord(s string) string {
	for i, c := range s {
		if c == ':' || c == ' ' {
			return s[:i]
		}
	}
	return s
}
