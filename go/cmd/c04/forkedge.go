// forkedge.go — the real pool across the activation height of a soft fork (found while closing the fourth round's
// misses; KNOWN FINDING pool-verdict-predates-soft-fork).
//
// client/txpool verifies the scripts of a transaction under common.CurrentScriptFlags() — the flags of the TIP at the
// time of admission (common.UpdateScriptFlags(0) = GetBlockFlags(Last.Block.Height, 0)) — and txChecker vouches for it
// for as long as it stays pooled. A block at or above the activation height H of a rule verifies under MORE flags than
// a tip below H did. A transaction admitted at a tip below H whose script passes without the new rule and fails with
// it (a CHECKSEQUENCEVERIFY that is an OP_NOP3 before BIP112) is connected at height >= H without any script check.
// All rules of gocoin's networks were activated long ago and a syncing node passes those heights with an empty pool:
// no block of the real networks can exploit it today; every future rule activated by height would.
//
// One episode kind: CSV activates at H (opts.CSVAt), the chain is grown to tip H-1-d (d = 0: the off-by-one between "flags
// of the tip" and "flags of the next block"; d = 1..2: admitted earlier, still pooled), the spend of a `<n> CSV DROP 1`
// coin that violates the script's lock is offered and pooled, the chain grows to tip H-1 and a block at height H carries
// it. The control at height H-1 (same transaction, rule not active yet) is valid and connected in sibling episodes.
package main

import (
	"fmt"

	"github.com/piotrnar/gocoin/lib/btc"
	"verif/chainkit"
	"verif/vlib"
)

// staleVerdictOnly: the block is invalid ONLY because transactions the pool vouched for fail under the block's flags
// while they verify under the flags in force before the activation height (the cause of the known finding).
func (e *episode) staleVerdictOnly(c *cand) bool {
	if !e.opts.RealPool || e.opts.CSVAt == 0 || c.height < e.opts.CSVAt || c.vouch == nil {
		return false
	}
	old := e.k.Ch.GetBlockFlags(e.opts.CSVAt-1, c.time)
	any := false
	for ti := 1; ti < len(c.txs); ti++ {
		if c.honest(ti) {
			continue
		}
		if !c.vouch[ti] {
			return false // a failing script nobody vouched for: another cause
		}
		for j := range c.txs[ti].TxIn {
			if c.found[ti][j] && !c.scriptOk[ti][j] && !verify(c.txs[ti], j, c.spentOuts[ti], old) {
				return false // fails under the old flags too
			}
		}
		any = true
	}
	return any
}

func runForkEdgeEpisode(r *Run, o *vlib.Oracle, g *vlib.Rng, variant int) {
	H := uint32(112 + g.Intn(4))
	d := uint32(variant % 3)  // admitted at tip H-1-d
	control := variant%4 == 3 // the same transaction mined at H-1: valid
	if control {
		d = 1 + uint32(variant%2)
	}
	opts := epOpts{RealPool: true, CSVAt: H}
	e := newEpisode(r, o, g, opts)
	defer e.close()
	e.grow(101 + g.Intn(3))
	e.fund()
	e.fundSpecial()
	for !e.dead && e.height() < H-d { // tip = H-1-d
		e.grow(1)
	}
	if e.dead || e.height() != H-d {
		r.Hit("fork-edge:no-material")
		return
	}
	sc := e.pickSpecial("csv")
	if sc == nil || sc.Height+2 > e.height() || sc.Value < 10000 {
		r.Hit("fork-edge:no-material")
		return
	}
	// version 2, relative lock one block short of what the script demands: BIP68 is satisfied (the coin is deeper than
	// that), BIP112 is not
	tx := e.buildTx(2, []*wcoin{sc.asInput()}, []uint32{sc.param - 1}, []chainkit.OutSpec{{Value: sc.Value - 3000, Script: anyone}}, 0)
	st := e.offer(tx)
	r.Hit(fmt.Sprintf("fork-edge:offer-at-tip-H-%d:%s", 1+d, st))
	if st != "accepted" {
		return
	}
	if control {
		for !e.dead && e.height() < H-1 {
			e.grow(1)
		}
		if e.height() == H-1 { // still below the activation height: the script is an OP_NOP3
			if oc := e.judge("fork-edge:pooled-csv-violator-mined-below-activation", e.k.Build(chainkit.BlockSpec{Txs: []*btc.Tx{tx}}), true); oc != nil {
				r.Hit("fork-edge:control:" + errClass(oc.real))
			}
		}
		return
	}
	for !e.dead && e.height() < H {
		e.grow(1)
	}
	if e.dead {
		return
	}
	if oc := e.judge(fmt.Sprintf("fork-edge:pooled-%d-below-activation-mined-at-activation", 1+d), e.k.Build(chainkit.BlockSpec{Txs: []*btc.Tx{tx}}), true); oc != nil {
		r.Hit("fork-edge:at-activation:" + errClass(oc.real))
	}
}

func runForkEdgeEpisodes(r *Run, o *vlib.Oracle) {
	n := r.N(2, 12)
	for i := 0; i < n; i++ {
		g := r.Rng.Fork()
		v := i
		if i == 0 {
			v = int(g.U64() % 3) // quick: one of the three admission depths, and the control
		} else if i == 1 {
			v = 3
		}
		runForkEdgeEpisode(r, o, g, v)
	}
}
