// alloc.go — the configuration "UTXO records live in memory handed out by utxo.Memory_Malloc / released by
// utxo.Memory_Free" (added after the fourth round of seeded changes).
//
// lib/utxo keeps every record as a *[]byte obtained from the package-level hook Memory_Malloc and hands it back through
// Memory_Free. Plain library use leaves the defaults (Go heap; Free does nothing) — which is all the harness ran before,
// and under which it does not matter WHEN a record is released. The client installs lib/others/memory
// (client/common/config.go, unless Memory.UseGoHeap): a released slot is handed out again by the next Malloc of its size
// class and its first bytes are overwritten by the free-list links at once. What the property observes then depends on
// an OWNERSHIP discipline inside lib/utxo: NewUtxoRec / NewUtxoRecStatic / OneUtxoRec do not copy scripts — the PKScr
// slices of the view point INTO the record's bytes — so a record may be released only after the last read of every view
// made from it (UnspentDB.del: Serialize(rec) then Memory_Free(v); UndoBlockTxs: merge the outputs that stayed unspent
// out of the old record, Serialize the merged record, THEN release the old one; commitTxs copies the scripts it keeps in
// UndoData and verifies scripts before CommitBlockTxs releases anything).
//
// Episodes and branch walks with opts.Alloc run the real code on an allocator that makes a broken discipline visible
// on the first occasion instead of "when the slot happens to be reused":
//
//	"poison"  Go-heap slices; Free overwrites the whole record with 0xDB at once (and never reuses it). Every allocator
//	          that satisfies the contract "released memory may be overwritten at any time" admits this behaviour.
//	"client"  the client's allocator itself (memory.NewAllocator, Malloc/Free as config.go wires them), with the same
//	          overwrite just before the slot goes back to it; runs in a child process (child.go): a read of a page the
//	          allocator has unmapped kills the process.
//
// Nothing is judged here: verdicts, tips and dumps are compared as in every other episode — the unspent set after a
// re-organisation must be the sequential one whatever the allocator. Releases of something that is not live (a second
// release, a pointer the allocator never handed out) are counted and reported: with the client's allocator they corrupt
// its free lists.
package main

import (
	"fmt"
	"sync"

	"github.com/piotrnar/gocoin/lib/others/memory"
	"github.com/piotrnar/gocoin/lib/utxo"
)

var defaultMalloc, defaultFree = utxo.Memory_Malloc, utxo.Memory_Free

type checkingAlloc struct {
	mu      sync.Mutex
	live    map[*[]byte]bool
	inner   *memory.Allocator // nil: Go heap
	mallocs int
	frees   int
	bogus   int // releases of a pointer that is not live
}

var curAlloc *checkingAlloc

func (a *checkingAlloc) malloc(le int) *[]byte {
	var p *[]byte
	if a.inner != nil {
		p = a.inner.Malloc(le)
	} else {
		b := make([]byte, le)
		p = &b
	}
	a.mu.Lock()
	a.live[p] = true
	a.mallocs++
	a.mu.Unlock()
	return p
}

func (a *checkingAlloc) free(p *[]byte) {
	a.mu.Lock()
	ok := a.live[p]
	delete(a.live, p)
	a.frees++
	if !ok {
		a.bogus++
	}
	a.mu.Unlock()
	if !ok {
		return // never hand an unknown pointer to the real allocator
	}
	b := *p
	for i := range b {
		b[i] = 0xDB
	}
	if a.inner != nil {
		a.inner.Free(p)
	}
}

// installAlloc binds utxo.Memory_Malloc / Memory_Free for the episode that is about to open its chain.
func installAlloc(mode string) {
	curAlloc = nil
	switch mode {
	case "":
		utxo.Memory_Malloc, utxo.Memory_Free = defaultMalloc, defaultFree
		return
	case "poison":
		curAlloc = &checkingAlloc{live: map[*[]byte]bool{}}
	case "client":
		curAlloc = &checkingAlloc{live: map[*[]byte]bool{}, inner: memory.NewAllocator()}
	default:
		panic("c04: unknown allocator mode " + mode)
	}
	utxo.Memory_Malloc, utxo.Memory_Free = curAlloc.malloc, curAlloc.free
}

// closeAlloc: after the episode's chain has been closed. Reports what the allocator saw.
func (e *episode) closeAlloc() {
	a := curAlloc
	if a == nil || e.opts.Alloc == "" {
		return
	}
	utxo.Memory_Malloc, utxo.Memory_Free = defaultMalloc, defaultFree
	curAlloc = nil
	e.r.Hit("alloc:" + e.opts.Alloc + ":episodes")
	if a.frees > 0 {
		e.r.Hit("alloc:" + e.opts.Alloc + ":episodes-with-released-records")
	}
	if a.bogus > 0 {
		e.r.TieFail("utxo-record-released-twice", fmt.Sprintf("allocator %q: %d of %d Memory_Free calls released a record that was not live (released before, or never handed out by Memory_Malloc); the client's allocator would corrupt its free lists", e.opts.Alloc, a.bogus, a.frees),
			replayDoc{Kind: "allocator-accounting", Opts: e.opts, History: append([]string{}, e.history...)})
	}
}
