// c04 — correspondence harness for property C04 (no connected block creates money or spends what is not spendable).
//
// Every candidate block goes through four judges:
//   R  the real code:       btc.NewBlock + Chain.CheckBlock + Chain.AcceptBlock on a chainkit chain (temp dir)
//   M  the Lean model:      Model.Connect.connect (oracle_c04, stateful)
//   S  the Lean spec:       Spec.Connect.connectBlock (same oracle)
//   G  the Go reference:    refConnect (ref.go) — sequential map semantics; THIS is the property predicate
// and after it the tip and the full UTXO dump of R are compared with M, S and G.
// A block that R refuses while G's reason is a failing script is submitted to R again at GOMAXPROCS 1, 4 and 16
// (multi.go: commitTxs verifies every input in a goroutine of its own; the verdict must not depend on the schedule).
// Blocks that reach the active chain through a re-organisation (stored on a side branch, connected by MoveToBlock /
// ParseTillBlock) are judged by R against G only — see reorg.go.
// Configurations (epOpts): chain.TrustedTxChecker installed with the harness as an honest pool (pool.go) or with
// client/txpool itself as the pool and a history of offers / replacements next to the chain's (realpool.go), compressed
// UTXO records + wide transactions (compr.go; those episodes run in a child process, child.go), the record allocator
// behind utxo.Memory_Malloc / Memory_Free (alloc.go), the road of the block object to CommitBlock (entry.go). Multi-step histories
// with several re-organisations: walk.go (R against G's per-node coin maps after every submission).
//   R accepts ∧ G refuses, R refuses but tip/dump changed, R accepts with a dump ≠ G   → property failure (PropFail)
//   R ≠ M (verdict, dump, sigop cost), S ≠ G                                             → broken tie (TieFail)
package main

import (
	"encoding/hex"
	"encoding/json"
	"fmt"
	"os"
	"strings"
	"strconv"
	"runtime/pprof"
	"syscall"
	"time"

	"github.com/piotrnar/gocoin/lib/btc"
	"github.com/piotrnar/gocoin/lib/chain"
	"github.com/piotrnar/gocoin/lib/script"
	"github.com/piotrnar/gocoin/lib/utxo"
	"verif/chainkit"
	"verif/vlib"
)

const genesisTime = 1700000000

type epOpts struct {
	NoCSV    bool `json:"no_csv"`
	NoSegWit bool `json:"no_segwit"`
	// configuration the client chooses (pool.go, compr.go): chain.TrustedTxChecker installed (the harness plays the
	// memory pool's verification cache), UTXO records kept in the compressed format (NewChanOpts.CompressUTXO)
	Pool     bool `json:"pool,omitempty"`
	Compress bool `json:"compress,omitempty"`
	// the road a block object takes to Chain.CommitBlock (entry.go): "" = CheckBlock+AcceptBlock, "net" = header first,
	// "cache" = header first + the client's disk cache (object rebuilt with BuildTxListExt(false) + stored hashes)
	Entry string `json:"entry,omitempty"`
	// the allocator behind utxo.Memory_Malloc / Memory_Free (alloc.go): "" = Go heap (Free is a no-op), "poison" = a
	// checking allocator that overwrites a record the moment it is released, "client" = lib/others/memory as the client installs it
	Alloc string `json:"alloc,omitempty"`
	// client/txpool is the memory pool: its own txChecker is the installed chain.TrustedTxChecker (realpool.go)
	RealPool bool `json:"real_pool,omitempty"`
	// BIP68/112/113 activate at this height instead of 1 (forkedge.go)
	CSVAt uint32 `json:"csv_at,omitempty"`
}

type replayDoc struct {
	Kind      string   `json:"kind"`
	Opts      epOpts   `json:"opts"`
	History   []string `json:"history"`   // accepted blocks (hex), in order, on top of the synthetic genesis
	Candidate string   `json:"candidate"` // the block under test (hex)
	Vouched   []string `json:"vouched,omitempty"` // txids chain.TrustedTxChecker answers true for (pool.go)
	// side-branch scenario (reorg.go): T1..Td extend the last history block P one after the other; B1' is T1's
	// sibling (parent P), B2' extends B1', …; the last side block gives the side branch more work than Td
	MainBranch []string `json:"main_branch,omitempty"` // T1..Td
	SideBranch []string `json:"side_branch,omitempty"` // B1'..B(d+1)'
	Walk       []string `json:"walk,omitempty"`        // branch walk (walk.go): every block submitted after the history, in order
	Real      string   `json:"real"`
	Model     string   `json:"model"`
	Ref       string   `json:"reference"`
}

type wcoin struct {
	*chainkit.Coin
	redeem []byte // for "p2sh-raw": the redeem script; for "p2wsh-raw": the witness script
	mine   string // "" | "p2sh-raw" | "p2wsh-raw"
}

type episode struct {
	r       *Run
	o       *vlib.Oracle
	g       *vlib.Rng
	k       *chainkit.Kit
	opts    epOpts
	ref     utxoMap
	history []string
	keys    map[string]*chainkit.Key
	key     *chainkit.Key
	wallet  []*wcoin // unspent coins we can spend
	spent   []*wcoin // coins spent in earlier blocks
	cbs     map[uint32]*wcoin
	redeems map[string]*wcoin // script hex -> template carrying redeem info
	dead    bool
	rich    []*wcoin // injected coins of out-of-supply values (extra.go)
	idxOff  int      // nodes of the real block index the model has never seen (stored side-branch blocks, reorg.go)
	nblocks int
	special []*scoin // coins with height-gated scripts (reorg.go)
	vouchNext map[[32]byte]bool // replay / dedicated kinds: what the pool vouches for in the next candidate (pool.go)
	ptxs    []*ptx // transactions offered to the real pool so far whose inputs are still unspent (realpool.go)
	focus   *ptx   // realpool.go: the one transaction the next pool candidate is about (nil: any)
	panicSeen string           // watchdog.go: the first panic of the real code recovered in this episode
	lastDoc   func() replayDoc // watchdog.go: the document of the input the real code was given last
}

func newEpisode(r *Run, o *vlib.Oracle, g *vlib.Rng, opts epOpts) *episode {
	var chOpts *chain.NewChanOpts
	if opts.Compress {
		chOpts = &chain.NewChanOpts{CompressUTXO: true} // selects SerializeC / NewUtxoRecOwnC / OneUtxoRecC for the whole package
	}
	if opts.RealPool {
		chOpts = realPoolChainOpts(chOpts) // realpool.go: BlockMinedCB / BlockUndoneCB -> client/txpool
	}
	installAlloc(opts.Alloc) // alloc.go: utxo.Memory_Malloc / Memory_Free for the records of this chain
	k, err := chainkit.New(chainkit.Opts{GenesisTime: genesisTime, CSV: opts.CSVAt, NoCSV: opts.NoCSV, NoSegWit: opts.NoSegWit, NoTaproot: opts.NoSegWit, ChainOpts: chOpts}, g)
	if err != nil {
		fmt.Fprintln(os.Stderr, "chainkit:", err)
		os.Exit(3)
	}
	// NewUnspentDb pre-sizes its 256 maps for 100e3 records each; iterating them (UtxoDump) costs ~25 ms a time.
	// The set is still empty here: swap in small maps (capacity is not behaviour).
	for i := range k.Ch.Unspent.HashMap {
		if len(k.Ch.Unspent.HashMap[i]) == 0 {
			k.Ch.Unspent.HashMap[i] = make(map[utxo.UtxoKeyType]*[]byte)
		}
	}
	if k.Ch.Unspent.ComprssedUTXO != opts.Compress {
		fmt.Fprintln(os.Stderr, "c04: the chain was not opened with the record format the episode asks for")
		os.Exit(3)
	}
	installPool(opts.Pool) // pool.go: chain.TrustedTxChecker = the harness's pool (or nil)
	gen, _ := k.Tip()
	if rep := o.MustAsk("reset " + gen); rep != "ok" {
		fmt.Fprintln(os.Stderr, "oracle reset:", rep)
		os.Exit(3)
	}
	e := &episode{r: r, o: o, g: g, k: k, opts: opts, ref: utxoMap{}, keys: map[string]*chainkit.Key{}, cbs: map[uint32]*wcoin{}, redeems: map[string]*wcoin{}}
	e.key = k.NewKey()
	e.keys[string(e.key.P2PKH())] = e.key
	e.keys[string(e.key.P2WPKH())] = e.key
	e.keys[string(e.key.P2SH_P2WPKH())] = e.key
	if opts.RealPool {
		e.wireRealPool() // realpool.go: the client's globals, an empty pool, chain.TrustedTxChecker = txpool's own
	}
	return e
}

func (e *episode) close() {
	if th := os.Getenv("VERIF_C04_TEST_HANG"); th != "" && e.nblocks > 0 && (th != "child" || e.r.log != nil) {
		select {} // self-test of the stall watchdog (watchdog.go): the main goroutine blocks for ever here
	}
	e.closeGuarded() // watchdog.go: Chain.Close under a deadline (a recovered panic may have left a gocoin mutex locked)
	e.closeAlloc()
	if e.opts.RealPool {
		chain.TrustedTxChecker = nil
	}
}

// parse builds the judge-independent description of a candidate (own parse of the raw bytes).
func (e *episode) parse(raw []byte) *cand { return e.parseOn(raw, e.k.Ch.LastBlock(), e.ref) }

// parseOn: the same for a candidate whose parent is `parent` (not necessarily the tip), against the coin map `ref`
// that describes the state after `parent` (side-branch scenarios, reorg.go).
func (e *episode) parseOn(raw []byte, parent *chain.BlockTreeNode, ref utxoMap) *cand {
	bl, err := btc.NewBlock(raw)
	if err != nil {
		return nil
	}
	if bl.BuildTxList() != nil {
		return nil
	}
	c := &cand{raw: raw, hash: bl.Hash.Hash[:], height: parent.Height + 1, time: bl.BlockTime(), mtp: parent.GetMedianTimePast()}
	c.p2sh = true
	c.wit = !e.opts.NoSegWit
	c.csv = !e.opts.NoCSV && c.height >= e.opts.CSVAt // (CSVAt = 0: active from height 1)
	c.txs = bl.Txs
	flags := e.k.Ch.GetBlockFlags(c.height, c.time)
	// script verdict per input against the coin the sequential semantics names (oracle Bool of model and spec)
	over := map[btc.TxPrevOut]*coin{}
	gone := map[btc.TxPrevOut]bool{}
	c.scriptOk = make([][]bool, len(c.txs))
	c.found = make([][]bool, len(c.txs))
	c.spentOuts = make([][]*btc.TxOut, len(c.txs))
	for ti, tx := range c.txs {
		if ti > 0 {
			oks := make([]bool, len(tx.TxIn))
			spent := make([]*btc.TxOut, len(tx.TxIn))
			found := make([]*coin, len(tx.TxIn))
			for j, in := range tx.TxIn {
				var cn *coin
				if !gone[in.Input] {
					if a, ok := over[in.Input]; ok {
						cn = a
					} else {
						cn = ref[in.Input]
					}
				}
				found[j] = cn
				if cn != nil {
					spent[j] = &btc.TxOut{Value: cn.value, Pk_script: cn.script}
				} else {
					spent[j] = &btc.TxOut{}
				}
			}
			fnd := make([]bool, len(tx.TxIn))
			for j := range tx.TxIn {
				if found[j] != nil {
					fnd[j] = true
					oks[j] = verify(tx, j, spent, flags)
					gone[tx.TxIn[j].Input] = true
				}
			}
			c.scriptOk[ti] = oks
			c.found[ti] = fnd
			c.spentOuts[ti] = spent
		}
		for i, o := range tx.TxOut {
			p := btc.TxPrevOut{Hash: tx.Hash.Hash, Vout: uint32(i)}
			over[p] = &coin{o.Value, o.Pk_script, c.height, ti == 0, c.mtp}
			delete(gone, p)
		}
	}
	return c
}

func verify(tx *btc.Tx, j int, spent []*btc.TxOut, flags uint32) (ok bool) {
	defer func() {
		if recover() != nil {
			ok = false
		}
	}()
	if tx.TxVerVars == nil {
		tx.AllocVerVars()
	}
	tx.Spent_outputs = spent
	return script.VerifyTxScript(spent[j].Pk_script, &script.SigChecker{Amount: spent[j].Value, Idx: j, Tx: tx}, flags)
}

type outcome struct {
	real, model, spec, ref string // "ok" or error class
	accepted              bool
}

// judge runs one candidate through R, M, S, G, compares everything and advances the states.
func (e *episode) judge(kind string, raw []byte, fullDump bool) *outcome {
	r := e.r
	c := e.parse(raw)
	if c == nil {
		r.Hit("unparsable-candidate:" + kind)
		return nil
	}
	doc := func(oc *outcome) replayDoc {
		return replayDoc{Kind: kind, Opts: e.opts, History: append([]string{}, e.history...), Candidate: hex.EncodeToString(raw), Vouched: c.vouchedIDs(), Real: oc.real, Model: oc.model, Ref: oc.ref}
	}
	oc := &outcome{}
	e.vouch(c) // pool.go: what chain.TrustedTxChecker will answer for the transactions of this candidate (nil: no hook)
	tip0, h0 := e.k.Tip()
	if e.inIndex(c.hash) {
		// theorem refuse_unchanged asks for a hash that is not in the index yet (PreCheckBlock's "already in" test, C05)
		r.Hit("candidate-already-in-index:" + kind)
		return nil
	}
	nidx0 := e.indexLen()
	var dump0 []string
	if fullDump {
		dump0 = chainkit.UtxoDump(e.k.Ch.Unspent)
	}
	// G
	gerr, gspent, gadded := refConnect(e.ref, c, "")
	oc.ref = "ok"
	if gerr != "" {
		oc.ref = gerr
	}
	// M + S
	tA := time.Now()
	rep := e.o.MustAsk(c.oracleLine())
	tOracle += time.Since(tA)
	f := strings.Fields(rep)
	if len(f) != 2 || !strings.HasPrefix(f[0], "m=") || !strings.HasPrefix(f[1], "s=") {
		fmt.Fprintln(os.Stderr, "oracle reply:", rep)
		os.Exit(3)
	}
	oc.model, oc.spec = f[0][2:], f[1][2:]
	mok, sok := strings.HasPrefix(oc.model, "ok"), oc.spec == "ok"
	// R
	tA = time.Now()
	setPool(c)
	r.pending(pendingDoc{Kind: kind, Opts: e.opts, Candidate: hex.EncodeToString(raw), Vouched: c.vouchedIDs()})
	e.lastDoc = func() replayDoc { return doc(oc) }
	setDoc(e.lastDoc) // watchdog.go
	res := e.submit(raw)
	if !res.OK() && gerr == "script" {
		// a verdict about scripts must not depend on the schedule of commitTxs' verification goroutines (multi.go)
		res = e.resubmit(raw, res)
	}
	tReal += time.Since(tA)
	oc.real = res.String()
	oc.accepted = res.OK()
	tip1, h1 := e.k.Tip()
	e.nblocks++
	r.Eval("block:"+kind, vlib.ShortHash(raw))
	r.Hit("real:" + errClass(oc.real))
	if strings.HasPrefix(kind, "sigops-") || strings.HasPrefix(kind, "bad-input") || kind == "valid-many-inputs" || strings.HasPrefix(kind, "rich-") || strings.HasPrefix(kind, "cb-script-") {
		r.Hit("verdict:" + kind + "=" + errClass(oc.real))
	}
	r.Hit("ref:" + oc.ref)
	if mok {
		r.Hit("model:ok")
	} else {
		r.Hit("model:" + strings.TrimPrefix(oc.model, "err:"))
	}
	r.Hit("spec:" + strings.TrimPrefix(oc.spec, "err:"))

	bad := false
	// property: accepted ⇒ valid
	if oc.accepted && gerr != "" {
		key := "accepted-invalid:" + gerr
		if gerr == "script" && e.staleVerdictOnly(c) {
			key = "pool-verdict-predates-soft-fork" // forkedge.go
		} else if e1, _, _ := refConnect(e.ref, c, "bip68"); e1 == "" {
			key = "bip68-not-enforced"
		} else if e2, _, _ := refConnect(e.ref, c, "opreturn"); e2 == "" {
			key = "sigops-after-op-return"
		}
		r.PropFail(key, fmt.Sprintf("block of kind %q is connected by Chain.CheckBlock+AcceptBlock but the reference ConnectBlock refuses it (%s)", kind, gerr), doc(oc))
		bad = true
	}
	// property: refused ⇒ unchanged
	if !oc.accepted {
		if tip1 != tip0 || h1 != h0 {
			r.PropFail("refused-tip-changed", fmt.Sprintf("kind %q refused (%s) but the tip moved %s/%d -> %s/%d", kind, oc.real, tip0, h0, tip1, h1), doc(oc))
			bad = true
		}
		if fullDump {
			if d1 := chainkit.UtxoDump(e.k.Ch.Unspent); !sameLines(dump0, d1) {
				r.PropFail("refused-utxo-changed", fmt.Sprintf("kind %q refused (%s) but the unspent set changed: %s", kind, oc.real, firstDiff(dump0, d1)), doc(oc))
				bad = true
			}
		}
	}
	// a panic inside CheckBlock / AcceptBlock (recovered by chainkit.Submit) is never a legitimate way to refuse a block:
	// the node would crash, or — recovered as here — stay with a half-applied block
	if res.Panic != "" {
		e.sawPanic(res.Panic)
		r.PropFail("accept-panic", fmt.Sprintf("kind %q: Chain.CheckBlock+AcceptBlock panicked: %s (reference: %s)", kind, res.Panic, oc.ref), doc(oc))
		bad = true
	}
	// valid block refused: not demanded by the property's "only if", but the model must agree with the code
	if !oc.accepted && gerr == "" {
		r.TieFail("valid-refused:"+errClass(oc.real), fmt.Sprintf("kind %q: valid per reference, refused by the real code (%s)", kind, oc.real), doc(oc))
		bad = true
	}
	// tie: model vs real
	if mok != oc.accepted {
		r.TieFail("model-verdict:"+kind, fmt.Sprintf("kind %q: real=%s model=%s", kind, oc.real, oc.model), doc(oc))
		bad = true
	} else {
		r.TieOK()
	}
	// tie: the REASON of a refusal (model Err constructor vs the real error message)
	if !mok && !oc.accepted && res.Panic == "" {
		mk, rk := strings.TrimPrefix(oc.model, "err:GocoinV.Connect.Err."), realErrKind(oc.real)
		switch {
		case mk == rk:
			r.TieOK()
			r.Hit("errclass-agree:" + mk)
		case contextFree[mk] && contextFree[rk] && e.contextFreeFailures(c) >= 2:
			// CheckTransactions judges every transaction in a goroutine of its own and reports whichever error arrives first
			r.Hit("errclass-race-ambiguous:" + mk + "/" + rk)
		default:
			r.TieFail("model-errclass:"+mk+"/"+rk, fmt.Sprintf("kind %q: both refuse, for different reasons: real=%s (%s) model=%s", kind, oc.real, rk, oc.model), doc(oc))
			bad = true
		}
	}
	// tie: tip and size of the block index after acceptBlock (the model function theorem refuse_unchanged is about)
	if ms := e.o.MustAsk("state"); ms != fmt.Sprintf("%s %d", tip1, e.indexLen()-e.idxOff) {
		r.TieFail("model-state:"+kind, fmt.Sprintf("kind %q (%s): real tip/index size %s %d (of which %d side-branch nodes), model %s", kind, oc.real, tip1, e.indexLen(), e.idxOff, ms), doc(oc))
		bad = true
	} else {
		r.TieOK()
	}
	if !oc.accepted && e.indexLen() != nidx0 {
		r.PropFail("refused-index-changed", fmt.Sprintf("kind %q refused (%s) but the block index went from %d to %d nodes", kind, oc.real, nidx0, e.indexLen()), doc(oc))
		bad = true
	}
	if mok && oc.accepted {
		so := e.k.Ch.LastBlock().SigopsCost
		if fmt.Sprintf("ok:%d", so) != oc.model {
			r.TieFail("model-sigopscost", fmt.Sprintf("kind %q: SigopsCost real=%d model=%s", kind, so, oc.model), doc(oc))
			// the four states still describe the same chain: keep the episode going so that a limit kind can show
			// the property failing
		} else {
			r.TieOK()
		}
	}
	// spec vs reference (two independent statements of the same predicate)
	if sok != (gerr == "") {
		r.TieFail("spec-vs-reference:"+kind, fmt.Sprintf("kind %q: Lean spec=%s Go reference=%s", kind, oc.spec, oc.ref), doc(oc))
		bad = true
	} else {
		r.TieOK()
	}
	// advance G
	if gerr == "" {
		e.ref.apply(gspent, gadded)
	}
	if oc.accepted {
		e.pushHistory(hex.EncodeToString(raw))
		if tip1 != hex.EncodeToString(c.hash) || h1 != c.height {
			r.PropFail("accepted-tip-wrong", fmt.Sprintf("kind %q accepted but tip is %s/%d", kind, tip1, h1), doc(oc))
			bad = true
		}
	}
	if fullDump && oc.accepted {
		d1 := chainkit.UtxoDump(e.k.Ch.Unspent)
		if gerr == "" {
			if gd := e.ref.dump(); !sameLines(d1, gd) {
				r.PropFail("utxo-after-connect", fmt.Sprintf("kind %q connected, but the unspent set differs from sequential ConnectBlock: %s", kind, firstDiff(d1, gd)), doc(oc))
				bad = true
			}
		}
		if mok {
			md, err := parseOracleDump(e.o.MustAsk("dump"))
			if err != nil || !sameLines(d1, md) {
				r.TieFail("model-dump", fmt.Sprintf("kind %q: UTXO dump real vs model: %s", kind, firstDiff(d1, md)), doc(oc))
				bad = true
			} else {
				r.TieOK()
			}
		}
		if sok && gerr == "" {
			sd, err := parseOracleDump(e.o.MustAsk("sdump"))
			if err != nil || !sameLines(e.ref.dump(), sd) {
				r.TieFail("spec-dump", fmt.Sprintf("kind %q: coin map Lean spec vs Go reference: %s", kind, firstDiff(e.ref.dump(), sd)), doc(oc))
				bad = true
			} else {
				r.TieOK()
			}
		}
	}
	if bad || oc.accepted != (gerr == "") || mok != oc.accepted || sok != (gerr == "") {
		e.dead = true // the four states no longer describe the same chain
	}
	if oc.accepted && !e.dead {
		e.track(c)
	}
	c.poolStats(r, kind, oc)
	r.Sample(map[string]string{"kind": kind, "real": errClass(oc.real), "model": oc.model, "spec": oc.spec, "reference": oc.ref, "txs": fmt.Sprint(len(c.txs))})
	return oc
}

func errClass(s string) string {
	switch {
	case s == "ok":
		return "ok"
	case strings.Contains(s, "accept: vout too big"):
		return "inblock-vout-too-big"
	case strings.Contains(s, "RPC_Result:"):
		return s[strings.Index(s, "RPC_Result:")+11:]
	}
	for _, k := range []string{"double spend inside", "Unknown input", "vout already spent", "Vout too big", "tx VOut too big", "own coinbase", "prematured", "more spent", "VerifyScripts failed", "out:", "Coinbase script", "MoveToBlock failed", "panic"} {
		if strings.Contains(s, k) {
			return strings.ReplaceAll(strings.TrimSuffix(k, ":"), " ", "-")
		}
	}
	if len(s) > 24 {
		s = s[:24]
	}
	return s
}

// track updates the wallet after an accepted block.
func (e *episode) track(c *cand) {
	gone := map[btc.TxPrevOut]bool{}
	for _, tx := range c.txs[1:] {
		for _, in := range tx.TxIn {
			gone[in.Input] = true
		}
	}
	var keep []*wcoin
	for _, w := range e.wallet {
		if gone[w.Out] {
			e.r.Hit("spent-coin-kind:" + w.Kind + w.mine)
			if len(e.spent) < 64 {
				e.spent = append(e.spent, w)
			}
		} else {
			keep = append(keep, w)
		}
	}
	e.wallet = keep
	for ti, tx := range c.txs {
		for _, cn := range chainkit.OutCoins(tx, e.keys, c.height, ti == 0) {
			if gone[cn.Out] {
				continue
			}
			w := &wcoin{Coin: cn}
			if t, ok := e.redeems[string(cn.Script)]; ok {
				w.redeem, w.mine = t.redeem, t.mine
			} else if cn.Kind == "raw" {
				continue // not spendable by us (commitments, sigop carriers, …)
			}
			if ti == 0 {
				if _, have := e.cbs[c.height]; !have {
					e.cbs[c.height] = w
				}
			}
			e.wallet = append(e.wallet, w)
		}
	}
}

var restoreStdout = func() {}
var stopProf = func() {}
var tOracle, tReal time.Duration

func main() {
	if d := os.Getenv("VERIF_C04_CHILD"); d != "" {
		childMain(d) // child.go: one episode / replay on behalf of the parent harness
		return
	}
	r := &Run{Run: vlib.NewRun("C04")}
	startWatchdog(r) // watchdog.go: a hang becomes a reported failure with a replay document
	if pf := os.Getenv("VERIF_C04_PROF"); pf != "" {
		f, _ := os.Create(pf)
		pprof.StartCPUProfile(f)
		defer pprof.StopCPUProfile()
		stopProf = pprof.StopCPUProfile
	}
	if os.Getenv("VERIF_C04_VERBOSE") == "" {
		// gocoin println()s every refused input to stderr; keep the run's output readable
		os.MkdirAll(vlib.Root()+"/.work", 0755)
		if f, err := os.OpenFile(vlib.Root()+"/.work/c04.stderr.log", os.O_CREATE|os.O_WRONLY|os.O_TRUNC, 0644); err == nil {
			syscall.Dup2(int(f.Fd()), 2)
			if saved, err := syscall.Dup(1); err == nil { // lib/script prints its debug lines to stdout
				syscall.Dup2(int(f.Fd()), 1)
				defer syscall.Dup2(saved, 1)
				restoreStdout = func() { syscall.Dup2(saved, 1) }
			}
		}
	}
	o, err := vlib.StartOracle("c04")
	if err != nil {
		fmt.Fprintln(os.Stderr, "oracle:", err)
		os.Exit(3)
	}
	defer o.Close()
	r.Assume = []string{
		"script verification (lib/script, property C01) is an oracle Bool per input in the Lean model and spec; the harness computes it with script.VerifyTxScript against the coin the sequential semantics names",
		"wire decoding (C09), header/merkle/commitment rules (C05) and the record serialisation (C10) are outside this check: candidates are well-formed blocks built by chainkit",
		"bl.Trusted is false for every candidate (btc.NewBlock's default; the trusted-block path of commitTxs / PostCheckBlock is not exercised) and utxo.UTXO_PURGE_UNSPENDABLE is false (asserted at start)",
		"chain.TrustedTxChecker, in the episodes where the HARNESS plays the pool (opts.Pool), is an honest pool: it vouches only for transactions none of whose inputs (that the sequential semantics finds) fails script verification under the block's flags (hypothesis hhonest of connect_sound_pool_hook); in the episodes with client/txpool as the pool (opts.RealPool) nothing is assumed about the hook — its answers are client/txpool's own — except the sources of the pool's transactions: untrusted network transactions (HandleNetTx, scripts verified by the pool) and local submissions (SubmitLocalTx, not verified, never vouched for); transactions from TRUSTED peers (pooled unverified AND vouched for: the operator's choice) are not generated, and no soft fork activates between a transaction's admission and the block (the pool verifies under the flags of the tip)",
		"record allocators (opts.Alloc): the checking allocator overwrites a record when utxo.Memory_Free is called — any allocator meeting the contract 'released memory may be overwritten at once' admits that; with the Go-heap default a too-early release cannot be observed at all",
		"the roads 'net' / 'cache' of a block object to Chain.CommitBlock (opts.Entry) are the client's statements (client/network/hdrs.go, data.go, client/main.go get_block_from_disk_cache / LocalAcceptBlock) replayed by the harness — those functions live in package main / need a peer connection; LastKnownHeight is the block's height + 0..3",
		"compressed-record episodes: btc.CompressAmount / script compression are lossless on what a chain can contain (property C10); injected out-of-supply amounts are kept out of them",
		"hash-prefix injectivity: no two different txids among the block's transactions and the records of the UTXO set share their first 8 bytes (a 2^32-work birthday collision on SHA-256d; UnspentDB.commit would file the new record over the old one — observed by keyClashProbe at the record layer, evidence field hash_prefix_injectivity_probe; Lean: connect_sound_needs_prefix_injectivity); only INPUTS naming a colliding txid are generated",
		"reference semantics of Bitcoin written from memory of Bitcoin Core (DESIGN §3.7)",
	}
	if utxo.UTXO_PURGE_UNSPENDABLE {
		fmt.Fprintln(os.Stderr, "c04: utxo.UTXO_PURGE_UNSPENDABLE is true: the modelled configuration is not the one running")
		os.Exit(3)
	}
	if r.Replay != "" {
		runReplay(r, o)
	} else {
		t0 := time.Now()
		if only := os.Getenv("VERIF_C04_ONLY"); only == "" || only == "direct" {
			directStreams(r, o)
			chkTxStream(r, o) // extra.go: Tx.CheckTransaction / Tx.IsFinal against the oracle ops chktx / final
		}
		keyClashProbe(r) // keyclash.go: records what UnspentDB.commit does on an 8-byte key clash (assumption, not a judge)
		r.Extra["direct_streams_s"] = time.Since(t0).Seconds()
		t0 = time.Now()
		if only := os.Getenv("VERIF_C04_ONLY"); only == "" || only == "episodes" {
			runEpisodes(r, o)
		}
		r.Extra["episodes_s"] = time.Since(t0).Seconds()
		t0 = time.Now()
		if only := os.Getenv("VERIF_C04_ONLY"); only == "" || only == "reorg" {
			runReorgEpisodes(r, o)
		}
		r.Extra["reorg_episodes_s"] = time.Since(t0).Seconds()
		t0 = time.Now()
		if only := os.Getenv("VERIF_C04_ONLY"); only == "" || only == "walk" {
			runWalkEpisodes(r, o) // walk.go: multi-step histories with several re-organisations
		}
		if only := os.Getenv("VERIF_C04_ONLY"); only == "" || only == "forkedge" {
			runForkEdgeEpisodes(r, o) // forkedge.go: the real pool across the activation height of a rule
		}
		r.Extra["walk_episodes_s"] = time.Since(t0).Seconds()
		r.Extra["oracle_block_s"] = tOracle.Seconds()
		r.Extra["real_submit_s"] = tReal.Seconds()
	}
	restoreStdout()
	stopProf()
	r.Finish(finishRule, finishExpl) // watchdog.go
}

// runReplay: documents of episodes that run in a child process (child.go) are replayed in one.
func runReplay(r *Run, o *vlib.Oracle) {
	var w struct {
		Replay replayDoc `json:"replay"`
	}
	if b, err := os.ReadFile(r.Replay); err == nil && json.Unmarshal(b, &w) == nil && w.Replay.Candidate != "" && inChild(w.Replay.Opts) {
		// what such a document shows may depend on how the goroutines of UnspentDB.commit are scheduled: up to 25 attempts
		nv, n := r.Violations(), 0
		for n < 25 && r.Violations() == nv {
			n++
			runChild(r, childSpec{Mode: "replay", Replay: r.Replay})
		}
		restoreStdout()
		fmt.Printf("replay (child process): kind=%s attempts: %d new violations: %d\n", w.Replay.Kind, n, r.Violations()-nv)
		return
	}
	runReplayHere(r, o)
}

func runReplayHere(r *Run, o *vlib.Oracle) {
	b, err := os.ReadFile(r.Replay)
	if err != nil {
		fmt.Fprintln(os.Stderr, err)
		os.Exit(3)
	}
	var w struct {
		Replay replayDoc `json:"replay"`
	}
	if json.Unmarshal(b, &w) != nil || w.Replay.Candidate == "" {
		fmt.Fprintln(os.Stderr, "replay file has no C04 block case (proof-level violation?)")
		directStreams(r, o)
		chkTxStream(r, o)
		runEpisodes(r, o)
		runReorgEpisodes(r, o)
		runWalkEpisodes(r, o)
		return
	}
	e := newEpisode(r, o, r.Rng, w.Replay.Opts)
	defer e.close()
	for i, h := range w.Replay.History {
		if strings.HasPrefix(h, "inject:") { // extra.go: a record of out-of-supply values filed directly
			f := strings.Split(h, ":")
			var id [32]byte
			b, _ := hex.DecodeString(f[1])
			copy(id[:], b)
			var vals []uint64
			for _, v := range strings.Split(f[2], ",") {
				x, _ := strconv.ParseUint(v, 10, 64)
				vals = append(vals, x)
			}
			e.injectAs(id, vals)
			continue
		}
		if strings.HasPrefix(h, "offer:") || strings.HasPrefix(h, "offerlocal:") { // realpool.go: a transaction handed to the pool at this point of the history
			k := strings.Index(h, ":")
			if b, err := hex.DecodeString(h[k+1:]); err == nil {
				if tx, _ := btc.NewTx(b); tx != nil {
					tx.Raw = b
					if h[:k] == "offer" {
						fmt.Println("replay: offer ->", e.offer(tx)) // (offer() records it in the history itself)
					} else {
						fmt.Println("replay: local submission ->", e.offerLocal(tx))
					}
				}
			}
			continue
		}
		raw, _ := hex.DecodeString(h)
		e.vouchNext = map[[32]byte]bool{}
		if oc := e.judge("replay-history", raw, i == len(w.Replay.History)-1); oc == nil || !oc.accepted {
			fmt.Println("replay: history block", i, "not accepted:", oc)
		}
	}
	if len(w.Replay.Walk) > 0 {
		nv := r.Violations()
		e.dead = true
		e.replayWalk(w.Replay)
		restoreStdout()
		tip, h := e.k.Tip()
		fmt.Printf("replay: kind=%s %d walk blocks, final tip %s/%d, new violations: %d\n", w.Replay.Kind, len(w.Replay.Walk), tip, h, r.Violations()-nv)
		return
	}
	if len(w.Replay.SideBranch) > 0 {
		e.dead = false
		nv := r.Violations()
		e.replaySide(w.Replay)
		restoreStdout()
		tip, h := e.k.Tip()
		fmt.Printf("replay: kind=%s main=%d side=%d blocks, final tip %s/%d, new violations: %d\n", w.Replay.Kind, len(w.Replay.MainBranch), len(w.Replay.SideBranch), tip, h, r.Violations()-nv)
		return
	}
	raw, _ := hex.DecodeString(w.Replay.Candidate)
	e.dead = false
	e.vouchNext = vouchSet(w.Replay.Vouched)
	oc := e.judge(w.Replay.Kind, raw, true)
	restoreStdout()
	fmt.Printf("replay: kind=%s real=%q model=%s spec=%s reference=%s\n", w.Replay.Kind, oc.real, oc.model, oc.spec, oc.ref)
}
