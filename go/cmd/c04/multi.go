// multi.go — two families of candidate kinds added after the second round of seeded changes:
//
//	(a) "one bad input among several": a transaction with k = 2..8 inputs of mixed types (p2pkh, p2wpkh,
//	    p2sh-p2wpkh, raw P2SH, raw P2WSH, OP_TRUE) in which exactly ONE input, at a chosen position 0..k-1, does not
//	    verify (bad signature / wrong key / wrong script) while every other input does. The reference ConnectBlock
//	    refuses the block ("script"). commitTxs verifies the inputs in one goroutine each, so the verdict of a broken
//	    implementation may depend on the schedule: judge() re-submits a block that was refused for its scripts a few
//	    times with GOMAXPROCS 1 and > 1 (resubmit below) — it must be refused every time.
//	(b) sigop-cost boundary blocks whose count is SPLIT over the places consensus reads: the coinbase INPUT script
//	    (≤ 100 bytes), scriptSigs of ordinary inputs (inside a branch that is not executed), and output scripts of
//	    the coinbase or of another transaction; total exactly 80000, 80004, or "everything else fills the limit and
//	    the part under test alone pushes the block over".
package main

import (
	"bytes"
	"fmt"
	"runtime"

	"github.com/piotrnar/gocoin/lib/btc"
	"verif/chainkit"
)

func typeOf(w *wcoin) string {
	if w.mine != "" {
		return w.mine
	}
	return w.Kind
}

var inputTypes = []string{"p2pkh", "p2wpkh", "p2sh-p2wpkh", "p2sh-raw", "p2wsh-raw", "anyone"}

func signedType(t string) bool { return t == "p2pkh" || t == "p2wpkh" || t == "p2sh-p2wpkh" }

// resubmit: the block was refused and the reference refuses it for a script. Whether commitTxs notices a failing
// script must not depend on how its verification goroutines are scheduled: submit the same bytes again with one
// and with several Ps. Returns the first accepting result, else the original one.
func (e *episode) resubmit(raw []byte, first *chainkit.Result) *chainkit.Result {
	for _, procs := range []int{1, 1, 4, 16} {
		old := runtime.GOMAXPROCS(procs)
		res := e.submit(raw)
		runtime.GOMAXPROCS(old)
		e.r.Hit(fmt.Sprintf("resubmit(gomaxprocs=%d):%s", procs, errClass(res.String())))
		if res.OK() {
			e.r.Hit("resubmit:ACCEPTED-after-refusal")
			return res
		}
	}
	return first
}

// pickMany returns up to n distinct mature wallet coins accepted by pred and not in used (marks them used).
func (e *episode) pickMany(n int, used map[btc.TxPrevOut]bool, pred func(*wcoin) bool) []*wcoin {
	var res []*wcoin
	for len(res) < n {
		c := e.pick(notIn(used, pred))
		if c == nil {
			break
		}
		used[c.Out] = true
		res = append(res, c)
	}
	return res
}

// sigOf returns the slice holding the DER signature (+ hashtype byte) of a signed input.
func sigOf(tx *btc.Tx, pos int, t string) []byte {
	if t == "p2pkh" {
		s := tx.TxIn[pos].ScriptSig
		if len(s) < 10 || int(s[0]) >= len(s) {
			return nil
		}
		return s[1 : 1+int(s[0])]
	}
	if pos < len(tx.SegWit) && len(tx.SegWit[pos]) == 2 {
		return tx.SegWit[pos][0]
	}
	return nil
}

// multiInputBlock builds a block around one k-input transaction. mode: "none" (all inputs good), "sig", "key",
// "script"; pos = index of the bad input; wantType = type of the bad input ("" = any type the mode applies to).
func (e *episode) multiInputBlock(mode string, k, pos int, wantType string) []byte {
	g := e.g
	used := map[btc.TxPrevOut]bool{}
	eligible := func(w *wcoin) bool {
		t := typeOf(w)
		if wantType != "" && t != wantType {
			return false
		}
		switch mode {
		case "sig", "key":
			return signedType(t)
		}
		return t != "raw"
	}
	var badc *wcoin
	if mode != "none" {
		if b := e.pickMany(1, used, eligible); len(b) == 1 {
			badc = b[0]
		} else if wantType != "" {
			wantType = ""
			if b := e.pickMany(1, used, eligible); len(b) == 1 {
				badc = b[0]
			}
		}
		if badc == nil {
			return nil
		}
	}
	// the other inputs: as many different types as the wallet offers, then anything
	var others []*wcoin
	need := k
	if badc != nil {
		need--
	}
	off := g.Intn(len(inputTypes))
	for i := 0; i < len(inputTypes) && len(others) < need; i++ {
		others = append(others, e.pickMany(1, used, isKind(inputTypes[(i+off)%len(inputTypes)]))...)
	}
	others = append(others, e.pickMany(need-len(others), used, func(w *wcoin) bool { return typeOf(w) != "raw" })...)
	for i := len(others) - 1; i > 0; i-- { // shuffle
		j := g.Intn(i + 1)
		others[i], others[j] = others[j], others[i]
	}
	var ins []*wcoin
	if badc == nil {
		ins = others
	} else {
		if len(others) == 0 {
			return nil
		}
		if pos > len(others) {
			pos = len(others)
		}
		ins = append(ins, others[:pos]...)
		ins = append(ins, badc)
		ins = append(ins, others[pos:]...)
	}
	if len(ins) < 2 {
		return nil
	}
	k = len(ins)
	tot := sum(ins)
	fee := uint64(g.Intn(20000))
	if fee+1000 > tot {
		fee = 0
	}
	outs := e.spread(tot-fee, 1+g.Intn(3))
	build := func(ins []*wcoin, outs []chainkit.OutSpec) *btc.Tx { return e.buildTx(1+uint32(g.Intn(2)), ins, nil, outs, 0) }
	var tx *btc.Tx
	t := ""
	if badc != nil {
		t = typeOf(badc)
	}
	how := mode
	switch mode {
	case "none":
		tx = build(ins, outs)
	case "key":
		other := e.k.NewKey()
		cp := *badc
		cc := *badc.Coin
		cc.Key = other
		cp.Coin = &cc
		ins2 := append([]*wcoin{}, ins...)
		ins2[pos] = &cp
		tx = build(ins2, outs)
		if g.Bool() && t != "p2sh-p2wpkh" {
			// the RIGHT public key with a signature made by another key: the hash check passes, CHECKSIG fails
			how = "key:sig-of-other-key"
			if t == "p2pkh" {
				s := tx.TxIn[pos].ScriptSig
				tx.TxIn[pos].ScriptSig = append(append([]byte{}, s[:1+int(s[0])]...), pushData(badc.Key.Pub)...)
			} else {
				tx.SegWit[pos][1] = badc.Key.Pub
			}
		} else {
			how = "key:other-key"
		}
	case "sig":
		tx = build(ins, outs)
		sig := sigOf(tx, pos, t)
		if sig == nil || len(sig) < 40 {
			return nil
		}
		switch g.Intn(3) {
		case 0: // a valid signature of the same key over a DIFFERENT transaction (one satoshi less in output 0)
			how = "sig:of-other-tx"
			outs2 := append([]chainkit.OutSpec{}, outs...)
			if outs2[0].Value == 0 {
				return nil
			}
			outs2[0].Value--
			alt := e.buildTx(tx.Version, ins, nil, outs2, 0)
			if t == "p2pkh" {
				tx.TxIn[pos].ScriptSig = alt.TxIn[pos].ScriptSig
			} else {
				tx.SegWit[pos] = alt.SegWit[pos]
			}
		case 1: // one bit of r or s
			how = "sig:bitflip"
			sig[5+g.Intn(len(sig)-12)] ^= 1 << uint(g.Intn(8))
		default: // hash type byte: signed for ALL, claims NONE / SINGLE / ALL|ANYONECANPAY
			how = "sig:hashtype"
			sig[len(sig)-1] = byte(g.Pick(0x02, 0x03, 0x81))
		}
	case "script":
		tx = build(ins, outs)
		switch t {
		case "anyone": // OP_TRUE cannot fail by itself: a scriptSig that aborts / leaves the script failing
			how = "script:scriptsig-aborts"
			tx.TxIn[pos].ScriptSig = [][]byte{{0x6a}, {0x00, 0x69}, {0x51, 0x00, 0x88}}[g.Intn(3)]
		case "p2sh-raw": // a redeem script that is not the one committed to
			how = "script:other-redeem"
			rd := append([]byte{}, badc.redeem...)
			rd[g.Intn(len(rd))] ^= byte(1 + g.Intn(255))
			tx.TxIn[pos].ScriptSig = pushData(rd)
		case "p2wsh-raw":
			how = "script:other-witness-script"
			ws := append([]byte{}, badc.redeem...)
			ws[g.Intn(len(ws))] ^= byte(1 + g.Intn(255))
			tx.SegWit[pos] = [][]byte{ws}
		case "p2sh-p2wpkh": // redeem script = witness program of another key
			how = "script:other-program"
			p := e.k.NewKey().P2WPKH()
			tx.TxIn[pos].ScriptSig = pushData(p)
		case "p2pkh": // signature only, public key missing
			how = "script:no-pubkey"
			s := tx.TxIn[pos].ScriptSig
			tx.TxIn[pos].ScriptSig = append([]byte{}, s[:1+int(s[0])]...)
		case "p2wpkh": // witness stack of one item
			how = "script:short-witness"
			tx.SegWit[pos] = tx.SegWit[pos][:1]
		default:
			return nil
		}
	}
	chainkit.Finish(tx)
	txs := []*btc.Tx{tx}
	var fees = fee
	// sometimes a valid transaction before and / or after the one under test
	if g.Chance(1, 3) {
		if c := e.pickMany(1, used, nil); len(c) == 1 {
			txs = append([]*btc.Tx{e.simpleSpend(c[0], 700)}, txs...)
			fees += 700
		}
	}
	if g.Chance(1, 3) {
		if c := e.pickMany(2, used, nil); len(c) == 2 {
			txs = append(txs, e.buildTx(2, c, nil, []chainkit.OutSpec{{Value: sum(c) - 900, Script: e.key.P2PKH()}}, 0))
			fees += 900
		}
	}
	where := "middle"
	if pos == 0 {
		where = "first"
	} else if pos == k-1 {
		where = "last"
	}
	if mode == "none" {
		e.r.Hit(fmt.Sprintf("multi-input:valid:k=%d", k))
	} else {
		e.r.Hit(fmt.Sprintf("bad-input:k=%d", k))
		e.r.Hit("bad-input:position=" + where)
		e.r.Hit("bad-input:" + t + ":" + how)
	}
	return e.k.Build(chainkit.BlockSpec{Txs: txs, Fees: fees})
}

func kMultiInput(mode string) kindFn {
	return func(e *episode) []byte {
		k := 2 + e.g.Intn(7)
		pos := e.g.Intn(k)
		if k > 1 && e.g.Chance(3, 4) {
			pos = e.g.Intn(k - 1) // mostly not the last input
		}
		return e.multiInputBlock(mode, k, pos, "")
	}
}

// badInputSweep (corpus episodes): every k = 2..8 × every mode, the bad input at a non-last position, its type cycling
// through all input types; plus once per k at the last position.
func (e *episode) badInputSweep(ep int) {
	modes := []string{"sig", "key", "script"}
	n := 0
	for k := 2; k <= 8; k++ {
		for mi, mode := range modes {
			if e.dead {
				return
			}
			pos := (ep + mi + k) % (k - 1)
			raw := e.multiInputBlock(mode, k, pos, inputTypes[(n+ep)%len(inputTypes)])
			n++
			if raw == nil {
				e.r.Hit("no-material:bad-input-" + mode)
				continue
			}
			e.judge("bad-input-"+mode, raw, true)
		}
		if e.dead {
			return
		}
		if raw := e.multiInputBlock(modes[(k+ep)%3], k, k-1, ""); raw != nil {
			e.judge("bad-input-"+modes[(k+ep)%3], raw, true)
		}
	}
}

// ---- sigop boundary, count split over coinbase scriptSig / input scriptSigs / outputs --------------------------------

// sigopBytes returns a script fragment of at most max bytes made of sigop opcodes (and a few things that must NOT be
// counted: pushes whose data are 0xac bytes), with at least one counted opcode.
func (e *episode) sigopBytes(max int) []byte {
	g := e.g
	n := 1 + g.Intn(max)
	single := false // only opcodes that count 1
	switch g.Intn(4) {
	case 0:
		n = max // fill the room completely (coinbase: the 100-byte boundary)
	case 1:
		n, single = 1+g.Intn(3), true // a handful: cost 4..12
	case 2:
		single = true
	}
	if n > max {
		n = max
	}
	s := []byte{byte(g.Pick(0xac, 0xad, 0xae, 0xaf))}
	if single {
		s[0] = 0xac
	}
	for len(s) < n {
		room := n - len(s)
		x := g.Intn(10)
		if single && x >= 5 && x < 8 {
			x = 0
		}
		switch {
		case x < 5:
			s = append(s, 0xac+byte(g.Intn(2)))
		case x < 7:
			s = append(s, 0xae+byte(g.Intn(2)))
		case x < 8 && room >= 2:
			s = append(s, 0x51+byte(g.Intn(16)), 0xae+byte(g.Intn(2))) // legacy counting: 20, whatever the OP_n
		case x < 9 && room >= 3:
			s = append(s, 0x02, 0xac, 0xae) // a push: its data bytes are not opcodes
		default:
			s = append(s, 0xac)
		}
	}
	return s
}

// carrierFor: an output script with exactly n (legacy-counted) sigops.
func (e *episode) carrierFor(n int) []byte {
	if n == 0 {
		return []byte{0x51}
	}
	if e.g.Bool() {
		return bytes.Repeat([]byte{0xac}, n)
	}
	s := bytes.Repeat([]byte{0xae}, n/20)
	for i := 0; i < n%20; i++ {
		s = append(s, 0xac+byte(e.g.Intn(2)))
	}
	return s
}

// kSigopsSplit: cbPart = sigop opcodes in the coinbase input script; inPart = in the scriptSig of an ordinary input
// (OP_0 OP_IF … OP_ENDIF in front of an OP_TRUE coin); cbOnly = the block has no other transaction and the rest of the
// count sits in an extra coinbase output. over: "0" → total cost 80000, "4" → 80004, "part" → 80000 + the cost of the
// part under test (coinbase scriptSig if cbPart, else the input scriptSig): without that part the block is exactly full.
func kSigopsSplit(cbPart, inPart, cbOnly bool, over string) kindFn {
	return func(e *episode) []byte {
		g := e.g
		h := e.height()
		var extra []byte
		partCost := 0
		if cbPart {
			extra = e.sigopBytes(100 - len(chainkit.HeightPush(h)))
			partCost = 4 * refSigOps(extra, false, false)
		} else {
			extra = append([]byte{4}, g.Bytes(4)...)
			extra[1+g.Intn(4)] = 0xac // inside a push: not a sigop
		}
		var ins []*wcoin
		var inScript []byte
		if !cbOnly {
			used := map[btc.TxPrevOut]bool{}
			ins = e.pickMany(1, used, isKind("anyone"))
			if len(ins) == 0 {
				return nil
			}
			if g.Bool() {
				ins = append(ins, e.pickMany(1, used, isKind("p2sh-raw"))...)
			}
			if g.Bool() {
				ins = append(ins, e.pickMany(1, used, isKind("p2wsh-raw"))...)
			}
			if g.Bool() {
				ins = append(ins, e.pickMany(1, used, isKind("p2pkh"))...)
			}
			if inPart {
				body := e.sigopBytes(1 + g.Intn(80))
				inScript = append(append([]byte{0x00, 0x63}, body...), 0x68)
				if !cbPart {
					partCost = 4 * refSigOps(inScript, false, false)
				}
			}
		} else if inPart {
			return nil
		}
		build := func(carrier []byte) []byte {
			spec := chainkit.BlockSpec{CoinbaseExtra: extra}
			if cbOnly {
				spec.CoinbaseOuts = []chainkit.OutSpec{{Value: btc.GetBlockReward(h), Script: anyone}, {Value: 0, Script: carrier}}
				return e.k.Build(spec)
			}
			outs := []chainkit.OutSpec{{Value: sum(ins), Script: anyone}, {Value: 0, Script: carrier}}
			tx := e.buildTx(1, ins, nil, outs, 0)
			if inScript != nil {
				tx.TxIn[0].ScriptSig = inScript // input 0 is the OP_TRUE coin; signatures do not cover scriptSigs
				chainkit.Finish(tx)
			}
			spec.Txs = []*btc.Tx{tx}
			return e.k.Build(spec)
		}
		target := 80000
		switch over {
		case "4":
			target += 4
		case "part":
			target += partCost
		}
		base := func() (int, bool) { // consensus cost of the block with an empty carrier
			c0 := e.parse(build([]byte{0x51}))
			if c0 == nil {
				return 0, false
			}
			if er, _, _ := refConnect(e.ref, c0, ""); er != "" {
				e.r.Hit("sigops-split-base-invalid:" + er)
				return 0, false
			}
			return lastRefSigops, true
		}
		b0, ok := base()
		if !ok {
			return nil
		}
		if m := (target - b0) % 4; m != 0 && target > b0 {
			// witness sigops cost 1 each: level the remainder with m more P2WPKH inputs, else drop the P2WSH input
			used := map[btc.TxPrevOut]bool{}
			for _, w := range ins {
				used[w.Out] = true
			}
			if add := e.pickMany(m, used, isKind("p2wpkh")); len(add) == m {
				ins = append(ins, add...)
			} else {
				var keep []*wcoin
				for _, w := range ins {
					if typeOf(w) != "p2wsh-raw" {
						keep = append(keep, w)
					}
				}
				ins = keep
			}
			if b0, ok = base(); !ok {
				return nil
			}
		}
		rest := target - b0
		if rest < 0 || rest%4 != 0 {
			e.r.Hit("sigops-split:remainder-not-levelled")
			return nil
		}
		e.r.Hit(fmt.Sprintf("sigops-split:part-cost-%s", bucket(partCost)))
		return build(e.carrierFor(rest / 4))
	}
}

func bucket(n int) string {
	switch {
	case n == 0:
		return "0"
	case n <= 40:
		return "4..40"
	case n <= 400:
		return "44..400"
	}
	return ">400"
}

func moreKinds() []kindEntry {
	return []kindEntry{
		{"valid-many-inputs", kMultiInput("none"), 3, false},
		{"bad-input-sig", kMultiInput("sig"), 3, false},
		{"bad-input-key", kMultiInput("key"), 2, false},
		{"bad-input-script", kMultiInput("script"), 3, false},
		{"sigops-cb-80000", kSigopsSplit(true, false, false, "0"), 2, false},
		{"sigops-cb-80004", kSigopsSplit(true, false, false, "4"), 2, false},
		{"sigops-cb-fill", kSigopsSplit(true, false, false, "part"), 2, false},
		{"sigops-in-80000", kSigopsSplit(false, true, false, "0"), 1, false},
		{"sigops-in-80004", kSigopsSplit(false, true, false, "4"), 1, false},
		{"sigops-in-fill", kSigopsSplit(false, true, false, "part"), 1, false},
		{"sigops-cb+in-80000", kSigopsSplit(true, true, false, "0"), 1, false},
		{"sigops-cb+in-80004", kSigopsSplit(true, true, false, "4"), 1, false},
		{"sigops-cb+in-fill", kSigopsSplit(true, true, false, "part"), 1, false},
		{"sigops-cbonly-80000", kSigopsSplit(true, false, true, "0"), 1, false},
		{"sigops-cbonly-80004", kSigopsSplit(true, false, true, "4"), 1, false},
		{"sigops-cbonly-fill", kSigopsSplit(true, false, true, "part"), 1, false},
	}
}
