// compr.go — the configuration "UTXO records are kept compressed" (NewChanOpts.CompressUTXO: SerializeC /
// NewUtxoRecOwnC / OneUtxoRecC instead of the plain functions) and WIDE transactions (added after the third round of
// seeded changes).
//
// What the property observes — the full dump of Unspent.HashMap decoded with utxo.NewUtxoRec — goes through the record
// functions the chain was opened with; the harness only ever ran the plain ones. Episodes with opts.Compress open the
// chain compressed; every candidate kind runs unchanged (the model, the spec and the reference work on decoded records).
// UnspentDB.CommitBlockTxs serializes records in several goroutines at once: the undo writer (the spent outputs), do_del
// (records that keep some outputs are re-serialized) and do_add (new records). With the usual 1..3-output records each
// serialization is over in well under a microsecond; a WIDE transaction (hundreds to thousands of outputs, pairwise
// different amounts, a mix of compressible and plain scripts) that spends a few outputs of an earlier wide one makes
// all three long and simultaneous. Wide blocks are valid blocks: the judges are the usual four, the observable is the
// dump after the block (every amount where the chain put it).
package main

import (
	"github.com/piotrnar/gocoin/lib/btc"
	"github.com/piotrnar/gocoin/lib/chain"
	"verif/chainkit"
)

var wideIDs = map[[32]byte]bool{} // txids of wide transactions built so far (this process)

// wideOuts: n outputs with pairwise different values that sum to total.
func (e *episode) wideOuts(total uint64, n int) []chainkit.OutSpec {
	g := e.g
	avg := total / uint64(n+1)
	if avg < 4000 {
		return nil
	}
	outs := make([]chainkit.OutSpec, 0, n)
	var used uint64
	pk := e.key.P2PKH()
	for i := 0; i < n-1; i++ {
		v := avg/2 + uint64(g.Intn(int(avg/2))) + uint64(i)*3
		s := anyone
		switch g.Intn(8) {
		case 0:
			s = pk // compressed to 21 bytes by SerializeC
		case 1:
			s = []byte{0x51, 0x51, 0x87} // stays plain
		}
		outs = append(outs, chainkit.OutSpec{Value: v, Script: s})
		used += v
	}
	return append(outs, chainkit.OutSpec{Value: total - used, Script: anyone})
}

// wideCount: number of outputs. Episodes judged by the Lean oracle too stay below 500 (model and spec keep the set in
// association lists: a 3000-output transaction costs them seconds); branch walks (real code vs reference) go to 3000.
func wideCount(e *episode) int {
	if !e.dead { // the oracle is following this episode
		return 120 + e.g.Intn(380)
	}
	switch e.g.Intn(4) {
	case 0:
		return 150 + e.g.Intn(300)
	case 1:
		return 500 + e.g.Intn(1000)
	}
	return 1500 + e.g.Intn(1500)
}

// wideFrom builds a wide transaction from the coins `av` offers, preferring outputs of earlier wide transactions.
func (e *episode) wideFrom(av []*wcoin) (*btc.Tx, uint64) {
	g := e.g
	var fromWide, other []*wcoin
	for _, c := range av {
		if c.Kind != "anyone" {
			continue
		}
		if wideIDs[c.Out.Hash] {
			fromWide = append(fromWide, c)
		} else if c.Value > 100000000 {
			other = append(other, c)
		}
	}
	var ins []*wcoin
	seen := map[btc.TxPrevOut]bool{}
	if len(fromWide) > 0 {
		first := fromWide[g.Intn(len(fromWide))]
		for k := 1 + g.Intn(8); k > 0; k-- { // mostly several outputs of ONE earlier wide transaction
			c := fromWide[g.Intn(len(fromWide))]
			if g.Chance(3, 4) && c.Out.Hash != first.Out.Hash {
				continue
			}
			if !seen[c.Out] {
				seen[c.Out] = true
				ins = append(ins, c)
			}
		}
	}
	if len(other) > 0 && (len(ins) == 0 || sum(ins) < 40000000 || g.Chance(1, 3)) {
		c := other[g.Intn(len(other))]
		ins = append(ins, c)
	}
	if len(ins) == 0 {
		return nil, 0
	}
	n := wideCount(e)
	fee := uint64(g.Intn(3000))
	outs := e.wideOuts(sum(ins)-fee, n)
	for outs == nil && n > 20 {
		n /= 4
		outs = e.wideOuts(sum(ins)-fee, n)
	}
	if outs == nil {
		return nil, 0
	}
	tx := e.buildTx(1, ins, nil, outs, 0)
	wideIDs[tx.Hash.Hash] = true
	return tx, fee
}

func kWide(e *episode) []byte {
	var av []*wcoin
	for _, w := range e.wallet {
		if e.mature(w) && e.unspentRef(w) {
			av = append(av, w)
		}
	}
	tx, fee := e.wideFrom(av)
	if tx == nil {
		return nil
	}
	txs := []*btc.Tx{tx}
	if e.g.Chance(1, 3) { // and an ordinary transaction next to it
		if c := e.pick(func(w *wcoin) bool { return w.Kind == "p2pkh" && !wideIDs[w.Out.Hash] }); c != nil {
			txs = append(txs, e.simpleSpend(c, 0))
		}
	}
	return e.k.Build(chainkit.BlockSpec{Txs: txs, Fees: fee})
}

// widePhase: a run of wide blocks, each (after the first) spending outputs of its predecessors.
func (e *episode) widePhase(n int) {
	for i := 0; i < n && !e.dead; i++ {
		raw := kWide(e)
		if raw == nil {
			e.r.Hit("no-material:wide-outputs")
			return
		}
		e.judge("wide-outputs", raw, true)
	}
}

// wideOn: the same for a block of a branch walk (coins of the parent's map).
func (w *walk) wideOn(parent *bnode, tn *chain.BlockTreeNode, av []*wcoin) []byte {
	tx, fee := w.e.wideFrom(av)
	if tx == nil {
		return nil
	}
	return w.e.k.Build(chainkit.BlockSpec{Parent: tn, Txs: []*btc.Tx{tx}, Fees: fee})
}

func comprKinds() []kindEntry {
	return []kindEntry{{"wide-outputs", kWide, 2, false}}
}
