// walk.go — "branch walks": MULTI-STEP histories with SEVERAL re-organisations (added after the third round of
// seeded changes; reorg.go plays exactly one re-organisation per scenario and stops after an adopted branch).
//
// From a funded chain state `base` the harness grows a block TREE: every step picks a parent among the known blocks
// within 3 of the tip's height (the tip itself, a stored side block, the end of an abandoned branch, the branch it has
// been extending) and builds on it
//	empty      a coinbase-only block (spends no confirmed output),
//	spend      1..3 transactions spending coins of THE PARENT'S coin map — coins that other branches spend at other
//	           heights, coins created on this branch only, in-block chains,
//	wide       (compr.go) a transaction with hundreds of outputs spending outputs of an earlier wide one,
//	invalid    a double spend ACROSS BLOCKS in branch terms: a coin that an ancestor ON THIS BRANCH already spent
//	           (while it is unspent in the set the node holds right now), or a coin created on ANOTHER branch only,
// and submits it (CheckBlock + AcceptBlock). Equal difficulty everywhere: a branch wins by height, so the node
// re-organises back and forth through the same heights, undoing empty and non-empty blocks, replaying stored ones.
//
// Judge = the property predicate on the real code's OBSERVABLE state after every submission (no Lean oracle: the
// model has no undo; which of two equal-work tips the node prefers is C06's subject and is NOT judged here):
//	(1) every block of the active chain above `base` is valid per the Go reference on top of ITS parent's coin map
//	    (maps are kept per tree node) — "a block becomes part of the active chain only if …";
//	(2) the full UTXO dump equals the reference coin map of the block that is the tip — nothing spent twice, nothing
//	    resurrected by an undo, "refused ⇒ set and tip exactly what they were" included (tip unchanged ⇒ same map);
//	(3) no panic inside CheckBlock / AcceptBlock.
package main

import (
	"bytes"
	"encoding/hex"
	"fmt"
	"sort"
	"strings"

	"github.com/piotrnar/gocoin/lib/btc"
	"github.com/piotrnar/gocoin/lib/chain"
	"verif/chainkit"
	"verif/vlib"
)

type bnode struct {
	hash   [32]byte
	parent *bnode
	height uint32
	valid  bool    // valid per reference on the parent's map, and every ancestor above base valid
	why    string  // reference's reason when this very block is invalid ("" when only an ancestor is)
	after  utxoMap // coin map after this block (valid nodes only)
	kind   string
}

type walk struct {
	e      *episode
	base   *bnode
	nodes  map[[32]byte]*bnode
	order  []*bnode // insertion order (deterministic choice)
	raws   []string // every submitted block, in order (replay)
	focus  *bnode   // the block submitted last (branches grow by several steps in a row)
	pool   map[[32]byte]bool
	plan   int  // blocks still to be put on top of focus (an overtake in progress)
	fixed  bool // replay: the pool's content comes from the file
	reorgs int
	stale  int // re-organisations that undid a block at a height where an EARLIER branch had a block too
	seenH  map[uint32]int
}

func (e *episode) newWalk() *walk {
	t := e.k.Ch.LastBlock()
	b := &bnode{hash: t.BlockHash.Hash, height: t.Height, valid: true, after: e.ref.clone(), kind: "base"}
	return &walk{e: e, base: b, nodes: map[[32]byte]*bnode{b.hash: b}, order: []*bnode{b}, focus: b, pool: map[[32]byte]bool{}, seenH: map[uint32]int{}}
}

func (w *walk) doc(kind string) replayDoc {
	return replayDoc{Kind: "branch-walk:" + kind, Opts: w.e.opts, History: append([]string{}, w.e.history...), Candidate: w.raws[len(w.raws)-1], Walk: append([]string{}, w.raws...), Vouched: w.vouchedIDs()}
}

// spendable lists, in a deterministic order, the coins of a map the harness can spend at `height`.
func (w *walk) spendable(m utxoMap, height uint32) []*wcoin {
	e := w.e
	var res []*wcoin
	for p, c := range m {
		if c.cb && height-c.height < 100 {
			continue
		}
		cn := &chainkit.Coin{Out: p, Value: c.value, Script: c.script, Height: c.height, Coinbase: c.cb, Kind: "raw"}
		if bytes.Equal(c.script, anyone) {
			cn.Kind = "anyone"
		} else if k, ok := e.keys[string(c.script)]; ok {
			cn.Key = k
			switch len(c.script) {
			case 25:
				cn.Kind = "p2pkh"
			case 22:
				cn.Kind = "p2wpkh"
			case 23:
				cn.Kind = "p2sh-p2wpkh"
			}
		}
		if cn.Kind == "raw" || (e.opts.NoSegWit && cn.Kind != "anyone" && cn.Kind != "p2pkh") {
			continue
		}
		res = append(res, &wcoin{Coin: cn})
	}
	sort.Slice(res, func(i, j int) bool {
		if c := bytes.Compare(res[i].Out.Hash[:], res[j].Out.Hash[:]); c != 0 {
			return c < 0
		}
		return res[i].Out.Vout < res[j].Out.Vout
	})
	return res
}

// recent first: coins created above base (they exist on some branches only) are what makes branches conflict.
func (w *walk) pickCoins(av []*wcoin, n int, used map[btc.TxPrevOut]bool) []*wcoin {
	g := w.e.g
	var young, old []*wcoin
	for _, c := range av {
		if used[c.Out] || c.Value < 20000 {
			continue
		}
		if c.Height > w.base.height {
			young = append(young, c)
		} else {
			old = append(old, c)
		}
	}
	var res []*wcoin
	for len(res) < n {
		src := old
		if len(young) > 0 && (len(old) == 0 || g.Chance(3, 5)) {
			src = young
		}
		if len(src) == 0 {
			break
		}
		c := src[g.Intn(len(src))]
		if used[c.Out] {
			if len(young)+len(old) <= len(used) {
				break
			}
			continue
		}
		used[c.Out] = true
		res = append(res, c)
	}
	return res
}

func (w *walk) ancestorOf(a, n *bnode) bool {
	for ; n != nil; n = n.parent {
		if n == a {
			return true
		}
	}
	return false
}

// foreignCoin: a coin that is NOT in the parent's map but is (or was) somewhere else in the tree — spent by an ancestor
// on this branch ("spent"), or created on another branch only ("other-branch").
func (w *walk) foreignCoin(parent *bnode) (*wcoin, string) {
	g := w.e.g
	var cands []*wcoin
	var tags []string
	for _, n := range w.order {
		if n.after == nil || n == parent {
			continue
		}
		tag := "other-branch"
		if w.ancestorOf(n, parent) {
			tag = "spent-by-ancestor"
		}
		for _, c := range w.spendable(n.after, parent.height+1) {
			if _, ok := parent.after[c.Out]; !ok {
				cands = append(cands, c)
				tags = append(tags, tag)
			}
		}
		if len(cands) > 200 {
			break
		}
	}
	if len(cands) == 0 {
		return nil, ""
	}
	i := g.Intn(len(cands))
	return cands[i], tags[i]
}

// build makes the next block on `parent`; returns raw bytes and the kind tag.
func (w *walk) build(parent *bnode, tn *chain.BlockTreeNode) ([]byte, string) {
	e, g := w.e, w.e.g
	spec := chainkit.BlockSpec{Parent: tn}
	x := g.Intn(100)
	if parent.after == nil || x < 38 {
		if g.Chance(1, 4) {
			rw := btc.GetBlockReward(parent.height + 1)
			spec.CoinbaseOuts = []chainkit.OutSpec{{Value: rw / 2, Script: anyone}, {Value: rw - rw/2, Script: e.key.P2PKH()}}
		}
		return e.k.Build(spec), "empty"
	}
	av := w.spendable(parent.after, parent.height+1)
	if x < 50 {
		if c, tag := w.foreignCoin(parent); c != nil {
			spec.Txs = []*btc.Tx{e.buildTx(1, []*wcoin{c}, nil, []chainkit.OutSpec{{Value: c.Value, Script: anyone}}, 0)}
			if g.Bool() { // after an ordinary transaction
				if ins := w.pickCoins(av, 1, map[btc.TxPrevOut]bool{}); len(ins) == 1 {
					spec.Txs = append([]*btc.Tx{e.buildTx(1, ins, nil, []chainkit.OutSpec{{Value: ins[0].Value, Script: anyone}}, 0)}, spec.Txs...)
				}
			}
			return e.k.Build(spec), "invalid:" + tag
		}
	}
	if x < 58 || e.opts.Compress && x < 75 {
		if raw := w.wideOn(parent, tn, av); raw != nil { // compr.go
			return raw, "wide"
		}
	}
	used := map[btc.TxPrevOut]bool{}
	var pool []*wcoin
	var fees uint64
	for t, n := 0, 1+g.Intn(3); t < n; t++ {
		var ins []*wcoin
		if len(pool) > 0 && g.Chance(1, 3) {
			i := g.Intn(len(pool))
			ins = append(ins, pool[i])
			pool = append(pool[:i], pool[i+1:]...)
		}
		ins = append(ins, w.pickCoins(av, 1+g.Intn(2), used)...)
		if len(ins) == 0 {
			continue
		}
		fee := uint64(g.Intn(5000))
		var outs []chainkit.OutSpec
		rest := sum(ins) - fee
		for k := 1 + g.Intn(3); k > 1; k-- {
			v := rest / uint64(k+1)
			s := anyone
			if g.Chance(1, 3) {
				s = e.key.P2PKH()
			}
			outs = append(outs, chainkit.OutSpec{Value: v, Script: s})
			rest -= v
		}
		outs = append(outs, chainkit.OutSpec{Value: rest, Script: anyone})
		tx := e.buildTx(1, ins, nil, outs, 0)
		spec.Txs = append(spec.Txs, tx)
		fees += fee
		pool = append(pool, e.outCoins(tx, parent.height+1)...)
	}
	spec.Fees = fees
	if len(spec.Txs) == 0 {
		return e.k.Build(spec), "empty"
	}
	return e.k.Build(spec), "spend"
}

// choose picks the parent of the next block: either the tip (one step), or — an "overtake" — a block d = 1..3 below the
// tip's height on any branch, which is then extended d more times in a row so that its branch passes the tip.
func (w *walk) choose() (*bnode, *chain.BlockTreeNode) {
	e, g := w.e, w.e.g
	tip := e.k.Ch.LastBlock()
	if w.plan > 0 && w.focus != nil {
		if tn := e.nodeOf(btc.NewUint256(w.focus.hash[:])); tn != nil && (w.focus.valid || g.Chance(1, 3)) {
			w.plan--
			return w.focus, tn
		}
		w.plan = 0
	}
	if g.Chance(1, 3) {
		return w.nodes[tip.BlockHash.Hash], tip
	}
	for try := 0; try < 20; try++ {
		d := 1 + g.Intn(3)
		if tip.Height < w.base.height+uint32(d) {
			d = int(tip.Height - w.base.height)
			if d == 0 {
				break
			}
		}
		var at []*bnode
		for _, n := range w.order {
			if n.height+uint32(d) == tip.Height && (n.valid || g.Chance(1, 10)) {
				at = append(at, n)
			}
		}
		if len(at) == 0 {
			continue
		}
		n := at[g.Intn(len(at))]
		if tn := e.nodeOf(btc.NewUint256(n.hash[:])); tn != nil {
			w.plan = d
			return n, tn
		}
	}
	return w.nodes[tip.BlockHash.Hash], tip
}

// submit: reference verdict on the parent's map, then the real code, then the three checks. Returns false when
// the walk must stop (violation, or a state the harness cannot follow).
func (w *walk) submit(raw []byte, kind string) bool {
	e, r := w.e, w.e.r
	bl, err := btc.NewBlock(raw)
	if err != nil {
		return false
	}
	var ph [32]byte
	copy(ph[:], bl.ParentHash())
	parent := w.nodes[ph]
	tn := e.nodeOf(btc.NewUint256(ph[:]))
	if parent == nil || tn == nil {
		r.Hit("walk:parent-unknown")
		return true
	}
	if _, dup := w.nodes[bl.Hash.Hash]; dup {
		return true
	}
	n := &bnode{hash: bl.Hash.Hash, parent: parent, height: parent.height + 1, kind: kind}
	var c *cand
	if parent.valid {
		c = e.parseOn(raw, tn, parent.after)
		if c == nil {
			n.why = "unparsable"
		} else if gerr, sp, ad := refConnect(parent.after, c, ""); gerr != "" {
			n.why = gerr
		} else {
			n.valid = true
			n.after = parent.after.clone()
			n.after.apply(sp, ad)
		}
	}
	if c != nil && e.opts.Pool { // the pool keeps what it has verified: stored blocks are connected later, by a re-organisation
		for ti := 1; ti < len(c.txs); ti++ {
			if !w.fixed && c.honest(ti) && e.g.Bool() {
				w.pool[c.txs[ti].Hash.Hash] = true
			}
		}
		curPool = w.pool
	}
	w.nodes[n.hash] = n
	w.order = append(w.order, n)
	w.raws = append(w.raws, hex.EncodeToString(raw))
	w.focus = n
	tip0 := e.k.Ch.LastBlock()
	r.pending(pendingDoc{Kind: "branch-walk:" + kind, Opts: e.opts, Candidate: hex.EncodeToString(raw), Vouched: w.vouchedIDs(), Walk: true})
	e.lastDoc = func() replayDoc { return w.doc(kind) }
	setDoc(e.lastDoc) // watchdog.go
	res := e.submit(raw)
	if res.Panic != "" {
		e.sawPanic(res.Panic)
	}
	tip1 := e.k.Ch.LastBlock()
	e.nblocks++
	verdict := "valid"
	if !n.valid {
		verdict = "invalid"
	}
	r.Eval("walk-block:"+kind+":"+verdict, vlib.ShortHash(raw))
	r.Hit("walk-submit:" + errClass(res.String()))
	if tip1 != tip0 && tip1.Parent != tip0 {
		w.reorgs++
		r.Hit("walk:reorganisation")
		for t := tip0; t != nil && t.Height > w.base.height && !w.onPath(t, tip1); t = t.Parent {
			if w.seenH[t.Height] > 1 {
				w.stale++
				r.Hit("walk:undid-a-height-an-earlier-branch-had-too")
				break
			}
		}
	}
	w.seenH[n.height]++
	what := func(s string) string {
		return fmt.Sprintf("branch walk, step %d (block kind %q on parent height %d, reference: %s; real: %s; %d re-organisations so far): %s",
			len(w.raws), kind, parent.height, orOK(n.why, n.valid), res.String(), w.reorgs, s)
	}
	if res.Panic != "" {
		r.PropFail("walk-panic", what("Chain.CheckBlock+AcceptBlock panicked: "+res.Panic), w.doc(kind))
		return false
	}
	// (1) the active chain consists of valid blocks
	tnode := w.nodes[tip1.BlockHash.Hash]
	if tnode == nil {
		r.TieFail("walk-tip-unknown", what("the tip is a block the harness never submitted"), w.doc(kind))
		return false
	}
	for a := tnode; a != nil && a != w.base; a = a.parent {
		if !a.valid && a.why != "" {
			r.PropFail("walk-connected-invalid:"+a.why, what(fmt.Sprintf("the active chain contains the block at height %d (kind %q), which the reference ConnectBlock refuses on top of its parent's coin set (%s)", a.height, a.kind, a.why)), w.doc(kind))
			return false
		}
	}
	if !tnode.valid {
		return false
	}
	// (2) the set is the one sequential ConnectBlock gives for the chain that ends in the tip
	d := chainkit.UtxoDump(e.k.Ch.Unspent)
	if gd := tnode.after.dump(); !sameLines(d, gd) {
		key := "walk-utxo-differs"
		if tip1 == tip0 {
			key = "walk-refused-utxo-changed"
		}
		r.PropFail(key, what(fmt.Sprintf("tip %s/%d; the unspent set differs from sequential ConnectBlock over the active chain: %s", hex.EncodeToString(tnode.hash[:8]), tnode.height, firstDiff(d, gd))), w.doc(kind))
		return false
	}
	r.TieOK()
	return true
}

func (w *walk) vouchedIDs() []string {
	var ids []string
	for k := range w.pool {
		ids = append(ids, hex.EncodeToString(k[:]))
	}
	sort.Strings(ids)
	return ids
}

func (w *walk) onPath(t, tip *chain.BlockTreeNode) bool {
	for ; tip != nil && tip.Height >= t.Height; tip = tip.Parent {
		if tip == t {
			return true
		}
	}
	return false
}

func orOK(why string, valid bool) string {
	if valid {
		return "valid"
	}
	if why == "" {
		return "invalid ancestor"
	}
	return why
}

func (w *walk) run(steps int) {
	for s := 0; s < steps; s++ {
		parent, tn := w.choose()
		if parent == nil {
			return
		}
		raw, kind := w.build(parent, tn)
		if raw == nil || !w.submit(raw, kind) {
			return
		}
	}
}

func walkOpts(ep int) epOpts {
	o := epOpts{Pool: ep%2 == 1, Compress: ep%3 == 2, NoSegWit: ep%5 == 4}
	switch { // alloc.go: undoing a block merges and releases records
	case ep%3 == 0:
		o.Alloc = "poison"
	case ep%6 == 5:
		o.Alloc = "client"
	}
	if ep%3 == 1 {
		o.Entry = "cache" // entry.go
	}
	return o
}

func runWalkEpisodes(r *Run, o *vlib.Oracle) {
	nEp := r.N(6, 60)
	for ep := 0; ep < nEp; ep++ {
		g := r.Rng.Fork()
		if inChild(walkOpts(ep)) {
			runChild(r, childSpec{Mode: "walk", Ep: ep, Sub: g.U64()}) // child.go
			continue
		}
		runWalkEpisode(r, o, ep, g)
	}
}

func runWalkEpisode(r *Run, o *vlib.Oracle, ep int, g *vlib.Rng) {
	steps := r.N(60, 90)
	opts := walkOpts(ep)
	e := newEpisode(r, o, g, opts)
	e.grow(101 + g.Intn(5))
	e.fund()
	e.grow(1)
	if !e.dead {
		w := e.newWalk()
		e.dead = true // the Lean oracle does not follow the walk
		w.run(steps)
		r.Hit(fmt.Sprintf("walk-episodes(pool=%v,compress=%v)", opts.Pool, opts.Compress))
		r.Hit(fmt.Sprintf("walk-episodes(entry=%q,alloc=%q)", opts.Entry, opts.Alloc))
		r.Hit("walk:reorganisations-per-episode=" + cntBig(w.reorgs))
	}
	e.close()
}

func cntBig(n int) string {
	switch {
	case n == 0:
		return "0"
	case n < 5:
		return "1..4"
	case n < 15:
		return "5..14"
	}
	return "15+"
}

// replayWalk re-runs a stored walk on an episode whose history has been applied.
func (e *episode) replayWalk(d replayDoc) {
	w := e.newWalk()
	w.fixed, w.pool = true, vouchSet(d.Vouched)
	for _, h := range d.Walk {
		raw, _ := hex.DecodeString(h)
		if !w.submit(raw, strings.TrimPrefix(d.Kind, "branch-walk:")) {
			break
		}
	}
}
