// child.go — episodes that run in a CHILD PROCESS of the harness (the same binary, re-executed).
//
// UnspentDB.commit and CommitBlockTxs do their work in goroutines of their own. A panic there (an index out of range
// in a record serializer, say) cannot be recovered by chainkit.Submit: it takes the whole process down — the node
// would crash while connecting a block. Episodes in which that is a realistic outcome (compressed records + wide
// transactions: compr.go) therefore run in a child; the child reports through files in a private directory:
//
//	result.json   counters, histogram and violations (written at the end and after every violation)
//	hist.log      one line per history entry (accepted block / injected record), appended as the episode goes
//	walk.log      branch walks: every submitted block, appended BEFORE it is submitted
//	pending.json  the candidate about to be submitted (kind, bytes, pool) — rewritten BEFORE every submission
//
// A child that dies is a property failure of the real code on a concrete input: the parent assembles the replay
// document from hist.log + pending.json / walk.log and quotes the panic. Replay files of such episodes are re-run
// in a child as well.
package main

import (
	"encoding/json"
	"fmt"
	"os"
	"os/exec"
	"strings"
	"syscall"
	"time"

	"verif/vlib"
)

// Run wraps vlib.Run so that a child can hand its observations to the parent.
type Run struct {
	*vlib.Run
	log *childLog // non-nil in a child
	dir string
}

type childViol struct {
	Kind, Key, What string
	Replay          json.RawMessage
}

type childLog struct {
	Hits  map[string]int
	Evals [][2]string
	TieOK int
	Viol  []childViol
	Done  bool
	TOrac float64
	TReal float64
}

func (r *Run) Hit(k string) {
	tick() // watchdog.go
	r.Run.Hit(k)
	if r.log != nil {
		r.log.Hits[k]++
	}
}

func (r *Run) Eval(kind, key string) {
	tick()
	r.Run.Eval(kind, key)
	if r.log != nil {
		r.log.Evals = append(r.log.Evals, [2]string{kind, key})
	}
}

func (r *Run) TieOK() {
	tick()
	r.Run.TieOK()
	if r.log != nil {
		r.log.TieOK++
	}
}

func (r *Run) fail(kind, key, what string, replay interface{}) {
	if r.log != nil {
		b, _ := json.Marshal(replay)
		r.log.Viol = append(r.log.Viol, childViol{kind, key, what, b})
		r.flush()
	}
}

func (r *Run) PropFail(key, what string, replay interface{}) {
	r.Run.PropFail(key, what, replay)
	r.fail("prop", key, what, replay)
}

func (r *Run) TieFail(key, what string, replay interface{}) {
	r.Run.TieFail(key, what, replay)
	r.fail("tie", key, what, replay)
}

func (r *Run) flush() {
	b, _ := json.Marshal(r.log)
	os.WriteFile(r.dir+"/result.json.tmp", b, 0644)
	os.Rename(r.dir+"/result.json.tmp", r.dir+"/result.json")
}

// ---- child side ---------------------------------------------------------------------------------------------

type childSpec struct {
	Mode   string `json:"mode"` // "episode" | "walk" | "replay"
	Ep     int    `json:"ep"`
	Sub    uint64 `json:"sub"` // seed of the episode's generator
	Replay string `json:"replay,omitempty"`
}

func appendLine(path, s string) {
	if f, err := os.OpenFile(path, os.O_CREATE|os.O_WRONLY|os.O_APPEND, 0644); err == nil {
		f.WriteString(s + "\n")
		f.Close()
	}
}

// pushHistory records one history entry (and, in a child, persists it at once).
func (e *episode) pushHistory(s string) {
	e.history = append(e.history, s)
	if e.r.log != nil {
		appendLine(e.r.dir+"/hist.log", s)
	}
}

type pendingDoc struct {
	Kind      string   `json:"kind"`
	Opts      epOpts   `json:"opts"`
	Candidate string   `json:"candidate"`
	Vouched   []string `json:"vouched,omitempty"`
	Walk      bool     `json:"walk"`
}

func (r *Run) pending(p pendingDoc) {
	if r.log == nil {
		return
	}
	if p.Walk {
		appendLine(r.dir+"/walk.log", p.Candidate)
	}
	b, _ := json.Marshal(p)
	os.WriteFile(r.dir+"/pending.json", b, 0644)
}

func childMain(dir string) {
	var spec childSpec
	if json.Unmarshal([]byte(os.Getenv("VERIF_C04_CHILD_SPEC")), &spec) != nil {
		os.Exit(3)
	}
	r := &Run{Run: vlib.NewRun("C04"), log: &childLog{Hits: map[string]int{}}, dir: dir}
	if spec.Mode == "replay" {
		r.Run.Replay = spec.Replay
	}
	startWatchdog(r) // watchdog.go: a child that stalls reports the input it was working on and exits
	if f, err := os.OpenFile(dir+"/stdout.log", os.O_CREATE|os.O_WRONLY|os.O_TRUNC, 0644); err == nil {
		syscall.Dup2(int(f.Fd()), 1) // lib/script prints debug lines to stdout
	}
	o, err := vlib.StartOracle("c04")
	if err != nil {
		fmt.Fprintln(os.Stderr, "oracle:", err)
		os.Exit(3)
	}
	switch spec.Mode {
	case "episode":
		runEpisode(r, o, spec.Ep, vlib.NewRng(spec.Sub))
	case "walk":
		runWalkEpisode(r, o, spec.Ep, vlib.NewRng(spec.Sub))
	case "replay":
		r.Run.Replay = spec.Replay
		runReplayHere(r, o)
	}
	o.Close()
	r.log.Done = true
	r.log.TOrac, r.log.TReal = tOracle.Seconds(), tReal.Seconds()
	r.flush()
	os.Exit(0)
}

// ---- parent side ----------------------------------------------------------------------------------------------

func readLines(path string) []string {
	b, err := os.ReadFile(path)
	if err != nil {
		return nil
	}
	var res []string
	for _, l := range strings.Split(string(b), "\n") {
		if l != "" {
			res = append(res, l)
		}
	}
	return res
}

// panicText: the runtime's message and the first frames inside gocoin.
func panicText(log string) string {
	i := strings.Index(log, "panic: ")
	if j := strings.Index(log, "fatal error: "); j >= 0 && (i < 0 || j < i) {
		i = j
	}
	if i < 0 {
		if len(log) > 300 {
			log = log[len(log)-300:]
		}
		return strings.TrimSpace(log)
	}
	lines := strings.Split(log[i:], "\n")
	msg := lines[0]
	n := 0
	for _, l := range lines[1:] {
		if strings.HasPrefix(l, "github.com/piotrnar/gocoin/") && n < 3 {
			if k := strings.Index(l, "("); k > 0 && !strings.HasPrefix(l[k:], "(*") {
				l = l[:k]
			} else if k := strings.LastIndex(l, "("); k > 0 {
				l = l[:k]
			}
			msg += " | " + strings.TrimPrefix(l, "github.com/piotrnar/gocoin/")
			n++
		}
	}
	return msg
}

// firstFrame: the innermost gocoin function of the panic (part of the violation key).
func firstFrame(txt string) string {
	f := strings.Split(txt, " | ")
	if len(f) < 2 {
		return "unknown"
	}
	s := f[1]
	if k := strings.LastIndex(s, "/"); k >= 0 {
		s = s[k+1:]
	}
	return strings.NewReplacer("(", "", ")", "", "*", "").Replace(s)
}

// runChild runs one episode / replay in a child process and merges what it observed.
func runChild(r *Run, spec childSpec) {
	dir, err := os.MkdirTemp("", "vc04child")
	if err != nil {
		fmt.Fprintln(os.Stderr, "c04 child:", err)
		os.Exit(3)
	}
	defer os.RemoveAll(dir)
	sp, _ := json.Marshal(spec)
	cmd := exec.Command(os.Args[0], "-tier", r.Tier, "-evidence", dir+"/evidence.json")
	cmd.Env = append(os.Environ(), "VERIF_C04_CHILD="+dir, "VERIF_C04_CHILD_SPEC="+string(sp), "TMPDIR="+dir)
	lf, _ := os.Create(dir + "/log")
	cmd.Stdout, cmd.Stderr = lf, lf
	limit := 150 * time.Second
	if r.Tier == "thorough" {
		limit = 600 * time.Second
	}
	err = cmd.Start()
	hung := false
	if err == nil {
		done := make(chan error, 1)
		go func() { done <- cmd.Wait() }()
		deadline := time.After(limit)
	wait:
		for {
			select {
			case err = <-done:
				break wait
			case <-time.After(time.Second):
				tick() // watchdog.go: the child has a stall watchdog of its own; `limit` judges this wait
				continue
			case <-deadline:
			}
			hung = true
			cmd.Process.Signal(syscall.SIGQUIT)
			select {
			case err = <-done:
			case <-time.After(10 * time.Second):
				cmd.Process.Kill()
				err = <-done
			}
			break
		}
	}
	lf.Close()
	var res childLog
	if b, e2 := os.ReadFile(dir + "/result.json"); e2 == nil {
		json.Unmarshal(b, &res)
	}
	for k, n := range res.Hits {
		for i := 0; i < n; i++ {
			r.Hit(k)
		}
	}
	for _, ev := range res.Evals {
		r.Eval(ev[0], ev[1])
	}
	for i := 0; i < res.TieOK; i++ {
		r.TieOK()
	}
	tOracle += time.Duration(res.TOrac * float64(time.Second))
	tReal += time.Duration(res.TReal * float64(time.Second))
	for _, v := range res.Viol {
		var doc replayDoc
		json.Unmarshal(v.Replay, &doc)
		if v.Kind == "prop" {
			r.PropFail(v.Key, v.What, doc)
		} else {
			r.TieFail(v.Key, v.What, doc)
		}
	}
	if res.Done && err == nil {
		r.Hit("child-process:" + spec.Mode + ":finished")
		return
	}
	// the child died (or hung): the candidate it was submitting is the failing input
	lg, _ := os.ReadFile(dir + "/log")
	var p pendingDoc
	if b, e2 := os.ReadFile(dir + "/pending.json"); e2 == nil {
		json.Unmarshal(b, &p)
	}
	if p.Candidate == "" {
		tail := string(lg)
		if len(tail) > 400 {
			tail = tail[len(tail)-400:]
		}
		fmt.Fprintf(os.Stderr, "c04: child process (%s) failed before any candidate: %v\n%s\n", string(sp), err, tail)
		os.Exit(3)
	}
	doc := replayDoc{Kind: p.Kind, Opts: p.Opts, History: readLines(dir + "/hist.log"), Candidate: p.Candidate, Vouched: p.Vouched}
	if p.Walk {
		doc.Walk = readLines(dir + "/walk.log")
	}
	txt := panicText(string(lg))
	if hung {
		r.PropFail("connect-hangs", fmt.Sprintf("kind %q (%d history entries): Chain.CheckBlock+AcceptBlock did not return within %v", p.Kind, len(doc.History), limit), doc)
	} else {
		doc.Real = "process died: " + txt
		r.PropFail("connect-crashes-process:"+firstFrame(txt), fmt.Sprintf("kind %q (%d history entries, compressed records=%v): while Chain.CheckBlock+AcceptBlock connected the candidate the process died in a goroutine of the real code — %s", p.Kind, len(doc.History), p.Opts.Compress, txt), doc)
	}
	r.Hit("child-process:" + spec.Mode + ":died")
}
