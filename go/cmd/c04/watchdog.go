// watchdog.go — a check must never hang.
//
// The real code is called in-process and its panics are recovered (chainkit.Submit, submitNet). A panic raised while
// gocoin holds one of its own mutexes (BlockDB.BlockInvalid: "Trusted block cannot be invalid" after db.mutex.Lock(),
// no defer) leaves that mutex locked for ever: the node would have crashed there; the harness, having recovered, blocks
// later — in Chain.Close → BlockDB.writeOne, or in the next call that needs the lock. Two guards turn that into a
// property failure with a replay document instead of a run that never ends:
//
//  1. episode.close() runs Chain.Close under a deadline (closeGuarded). When it does not return, the episode's last
//     document is reported (key close-hangs-after-panic / close-hangs), the stuck goroutine and the chain object are
//     abandoned, the temp dir is removed and the run goes on with a fresh chain.
//  2. a stall watchdog (startWatchdog): every Hit / Eval / TieOK / oracle question is progress; when nothing has
//     happened for stallLimit the document last announced with setDoc is reported (key harness-deadlock), the goroutine
//     stacks go to the stderr log, everything recorded so far is flushed through Run.Finish and the process exits 1.
//     In a child process (child.go) the same watchdog writes result.json and exits; the parent keeps its own hard
//     limit on the child as before and ticks while it waits.
package main

import (
	"fmt"
	"os"
	"runtime"
	"sync"
	"sync/atomic"
	"time"
)

var progress int64 // bumped by every observation (child.go: Hit / Eval / TieOK) and by tick()

func tick() { atomic.AddInt64(&progress, 1) }

var docMu sync.Mutex
var docFn func() replayDoc // the input the real code is working on (or worked on last)

// setDoc announces the document that describes what the real code is given next.
func setDoc(f func() replayDoc) {
	docMu.Lock()
	docFn = f
	docMu.Unlock()
	tick()
}

func lastDoc() (d replayDoc, ok bool) {
	docMu.Lock()
	f := docFn
	docMu.Unlock()
	if f == nil {
		return replayDoc{}, false
	}
	defer func() {
		if recover() != nil {
			ok = false
		}
	}()
	return f(), true
}

const finishRule = "a case is one candidate block judged by real code, Lean model, Lean spec and Go reference on a generated chain state (distinct = distinct block bytes; configurations: plain / pool hook played by the harness / client/txpool as the pool / compressed records / checking and client record allocators / block object built on the network road or rebuilt from the client's disk cache), or one block of a branch walk (a block tree with several re-organisations; real code's active chain and full UTXO dump vs the Go reference's per-node coin maps), or one side-branch scenario (a stored side branch carrying one transaction that breaks / keeps one height-gated script rule overtakes the active chain; real code vs Go reference; distinct = distinct side-branch bytes), or one direct comparison of a sigop counter / GetBlockReward on a generated script / height (distinct = distinct input)"
const finishExpl = "C04: Lean model of commitTxs/CheckTransaction/sigop counters/UnspentGet tied to the real Chain.CheckBlock+AcceptBlock by differential runs on chainkit chains; property predicate = independent sequential ConnectBlock (Go) cross-checked against the Lean spec"

func stallLimit(r *Run) time.Duration {
	if s := os.Getenv("VERIF_C04_STALL_S"); s != "" {
		var n int
		if fmt.Sscan(s, &n); n > 0 {
			return time.Duration(n) * time.Second
		}
	}
	switch {
	case r.Run.Replay != "":
		return 60 * time.Second
	case r.Tier == "thorough":
		return 300 * time.Second
	}
	return 120 * time.Second
}

var closeHangs int // episodes whose Chain.Close did not return so far

// closeLimit: Close takes milliseconds on these chains. After a recovered panic a hang is the expected outcome: wait
// 5 s for the first such episode, 1 s for the following ones (the finding is reported once per key anyway).
func closeLimit(e *episode) time.Duration {
	switch {
	case e.panicSeen != "" && closeHangs > 0:
		return time.Second
	case e.panicSeen != "":
		return 5 * time.Second
	case e.r.Tier == "thorough":
		return 60 * time.Second
	}
	return 20 * time.Second
}

func dumpStacks(why string) {
	buf := make([]byte, 1<<20)
	n := runtime.Stack(buf, true)
	fmt.Fprintf(os.Stderr, "\nc04 watchdog: %s\n%s\n", why, buf[:n])
}

// startWatchdog: see the header. Runs for the life of the process.
func startWatchdog(r *Run) {
	limit := stallLimit(r)
	go func() {
		last, since := atomic.LoadInt64(&progress), time.Now()
		for {
			time.Sleep(500 * time.Millisecond)
			if p := atomic.LoadInt64(&progress); p != last {
				last, since = p, time.Now()
				continue
			}
			if time.Since(since) < limit {
				continue
			}
			why := fmt.Sprintf("no progress for %v: a call into the real code (or a wait on it) does not return", limit)
			dumpStacks(why)
			doc, ok := lastDoc()
			what := why + " — most often a mutex of gocoin left locked by a panic that was recovered earlier in this episode (the node itself would have crashed there); goroutine stacks are in .work/c04.stderr.log"
			if ok {
				r.PropFail("harness-deadlock", fmt.Sprintf("kind %q (%d history entries): %s", doc.Kind, len(doc.History), what), doc)
			} else {
				r.TieFail("harness-deadlock", "outside any episode: "+what, replayDoc{Kind: "harness-deadlock"})
			}
			if r.log != nil { // child: hand everything to the parent
				r.log.Done = true
				r.flush()
				os.Exit(0)
			}
			restoreStdout()
			stopProf()
			r.Finish(finishRule, finishExpl)
		}
	}()
}

// closeGuarded is episode.close's Chain.Close under a deadline.
func (e *episode) closeGuarded() {
	done := make(chan struct{})
	k := e.k
	go func() {
		defer func() {
			recover()
			close(done)
		}()
		k.Close()
	}()
	limit := closeLimit(e)
	t0 := time.Now()
	for {
		select {
		case <-done:
			return
		case <-time.After(500 * time.Millisecond):
			tick() // the deadline below is the judge of this wait, not the stall watchdog
		}
		if time.Since(t0) >= limit {
			break
		}
	}
	if closeHangs == 0 {
		dumpStacks("Chain.Close did not return within " + limit.String())
	}
	closeHangs++
	key := "close-hangs"
	why := "no panic was observed in this episode"
	if e.panicSeen != "" {
		key = "close-hangs-after-panic"
		why = "a panic of the real code was recovered earlier in this episode (" + e.panicSeen + "): it left a mutex of gocoin locked — the node itself would have crashed at that point"
	}
	doc := replayDoc{Kind: "close", Opts: e.opts, History: append([]string{}, e.history...)}
	if e.lastDoc != nil {
		doc = e.lastDoc()
	}
	e.r.PropFail(key, fmt.Sprintf("kind %q (%d history entries): Chain.Close (BlockDB / UnspentDB shutdown) did not return within %v; %s", doc.Kind, len(doc.History), limit, why), doc)
	e.r.Hit("watchdog:" + key)
	// the goroutine stays blocked; the chain object is abandoned and the run goes on with fresh ones
	if k.Dir != "" && !k.Opts.KeepDir {
		os.RemoveAll(k.Dir)
	}
}

// sawPanic notes the first panic of the real code that the harness recovered in this episode.
func (e *episode) sawPanic(msg string) {
	if e.panicSeen == "" {
		if len(msg) > 160 {
			msg = msg[:160]
		}
		e.panicSeen = msg
	}
	e.r.Hit("real-code-panic-recovered")
}
