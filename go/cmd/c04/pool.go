// pool.go — the configuration "chain.TrustedTxChecker is installed" (added after the third round of seeded changes).
//
// The client always installs the hook (txpool's verification cache): commitTxs asks it, per transaction, whether the
// memory pool has verified this very transaction already, and then skips script verification FOR THAT TRANSACTION.
// Plain library use leaves the hook nil, which is all the harness exercised before. In episodes with opts.Pool the
// harness plays the pool: for every candidate it decides which transactions the hook vouches for — an HONEST pool:
// only transactions none of whose (found) inputs fails script verification; the reference never looks at the pool
// (the property says "every input script verifies", whoever verified it) — tells the Lean model the same answers
// (oracle op `blockv`, Model/ConnectTrust.lean) and installs a hook that answers from that set. Every candidate kind of
// gen.go / multi.go / extra.go runs under it with a random honest subset vouched; the kinds below put a transaction
// with a failing script at every position among 2..6 transactions of which some are vouched.
package main

import (
	"encoding/hex"
	"fmt"

	"github.com/piotrnar/gocoin/lib/btc"
	"github.com/piotrnar/gocoin/lib/chain"
	"verif/chainkit"
)

var curPool map[[32]byte]bool // what the installed hook answers true for (set per candidate, read by commitTxs' loop)

func poolHook(tx *btc.Tx) bool { return curPool[tx.Hash.Hash] }

func installPool(on bool) {
	curPool = nil
	if on {
		chain.TrustedTxChecker = poolHook
	} else {
		chain.TrustedTxChecker = nil
	}
}

func setPool(c *cand) {
	curPool = nil
	if c.vouch == nil {
		return
	}
	curPool = map[[32]byte]bool{}
	for ti, v := range c.vouch {
		if v {
			curPool[c.txs[ti].Hash.Hash] = true
		}
	}
}

// honest: the pool may have verified this transaction — no input the sequential semantics finds fails its script
// (an input it does not find was spent or never existed: the pool verified it against the coin it saw back then).
func (c *cand) honest(ti int) bool {
	if ti == 0 {
		return false
	}
	for j := range c.txs[ti].TxIn {
		if c.found[ti][j] && !c.scriptOk[ti][j] {
			return false
		}
	}
	return true
}

// vouch decides the hook's answers for this candidate.
func (e *episode) vouch(c *cand) {
	if e.opts.RealPool { // realpool.go: the answers of client/txpool's own hook
		e.vouchReal(c)
		e.vouchNext = nil
		return
	}
	if !e.opts.Pool {
		e.vouchNext = nil
		return
	}
	c.vouch = make([]bool, len(c.txs))
	for ti := 1; ti < len(c.txs); ti++ {
		if e.vouchNext != nil { // a dedicated kind or a replay file says which
			c.vouch[ti] = e.vouchNext[c.txs[ti].Hash.Hash]
		} else {
			c.vouch[ti] = c.honest(ti) && e.g.Bool()
		}
	}
	e.vouchNext = nil
}

func (c *cand) vouchedIDs() []string {
	var ids []string
	for ti, v := range c.vouch {
		if v {
			ids = append(ids, hex.EncodeToString(c.txs[ti].Hash.Hash[:]))
		}
	}
	return ids
}

func vouchSet(ids []string) map[[32]byte]bool {
	m := map[[32]byte]bool{}
	for _, s := range ids {
		var k [32]byte
		b, _ := hex.DecodeString(s)
		copy(k[:], b)
		m[k] = true
	}
	return m
}

func cnt(n int) string {
	if n >= 3 {
		return "3+"
	}
	return fmt.Sprint(n)
}

// poolStats: input distribution of the pool dimension (evidence histogram).
func (c *cand) poolStats(r *Run, kind string, oc *outcome) {
	if c.vouch == nil {
		return
	}
	nv, firstBad, vouchedBefore := 0, -1, 0
	for ti := 1; ti < len(c.txs); ti++ {
		if c.vouch[ti] {
			nv++
		}
		if firstBad < 0 && !c.honest(ti) {
			firstBad = ti
		}
		if firstBad < 0 && c.vouch[ti] {
			vouchedBefore++
		}
	}
	r.Hit(fmt.Sprintf("pool:vouched=%s-of-%s", cnt(nv), cnt(len(c.txs)-1)))
	if firstBad > 0 {
		r.Hit(fmt.Sprintf("pool:bad-script-tx-after-%s-vouched:%s", cnt(vouchedBefore), errClass(oc.real)))
	}
}

// poolMixedBlock: n ordinary transactions, the one at position `bad` (0-based among the non-coinbase ones; -1: none)
// spends a signed coin with a broken signature; `vouched[i]` says whether the pool knows transaction i. Returns nil
// when the wallet has no material.
func (e *episode) poolMixedBlock(n, bad int, vouched []bool) []byte {
	used := map[btc.TxPrevOut]bool{}
	var txs []*btc.Tx
	var fees uint64
	next := map[[32]byte]bool{}
	for i := 0; i < n; i++ {
		var tx *btc.Tx
		if i == bad {
			c := e.pick(notIn(used, func(w *wcoin) bool {
				return w.mine == "" && (w.Kind == "p2pkh" || (w.Kind == "p2wpkh" && !e.opts.NoSegWit))
			}))
			if c == nil {
				return nil
			}
			used[c.Out] = true
			tx = e.buildTx(1, []*wcoin{c}, nil, []chainkit.OutSpec{{Value: c.Value, Script: e.randOutScript()}}, 0)
			if c.Kind == "p2pkh" {
				tx.TxIn[0].ScriptSig[10+e.g.Intn(20)] ^= 1 << uint(e.g.Intn(8))
			} else {
				tx.SegWit[0][0][10+e.g.Intn(20)] ^= 1 << uint(e.g.Intn(8))
			}
			chainkit.Finish(tx)
		} else {
			k := 1 + e.g.Intn(2)
			ins := e.pickMany(k, used, nil)
			if len(ins) == 0 {
				return nil
			}
			fee := uint64(e.g.Intn(3000))
			if fee > sum(ins) {
				fee = 0
			}
			tx = e.buildTx(1, ins, nil, e.spread(sum(ins)-fee, 1+e.g.Intn(3)), 0)
			fees += fee
			if i < len(vouched) && vouched[i] {
				next[tx.Hash.Hash] = true
			}
		}
		txs = append(txs, tx)
	}
	e.vouchNext = next
	return e.k.Build(chainkit.BlockSpec{Txs: txs, Fees: fees})
}

// kPoolMixed: "bad" — a failing script at a random position among 2..6 transactions, each other one vouched with
// probability 1/2 and (3 times of 4, when there is one) the transaction right before the bad one vouched for sure;
// "good" — the same without the bad one (every subset of a valid block may be pool-known).
func kPoolMixed(withBad bool) kindFn {
	return func(e *episode) []byte {
		if !e.opts.Pool {
			return nil
		}
		n := 2 + e.g.Intn(5)
		bad := -1
		if withBad {
			bad = e.g.Intn(n)
		}
		v := make([]bool, n)
		for i := range v {
			v[i] = e.g.Bool()
		}
		if bad > 0 && e.g.Chance(3, 4) {
			v[bad-1] = true
		}
		return e.poolMixedBlock(n, bad, v)
	}
}

// poolSweep (corpus part of a pool episode): for n = 2..4 every position of the bad transaction × {all others vouched,
// only the ones before it, only the ones after it, none}.
func (e *episode) poolSweep() {
	if !e.opts.Pool {
		return
	}
	for n := 2; n <= 4; n++ {
		for bad := 0; bad < n; bad++ {
			for mode := 0; mode < 4; mode++ {
				if e.dead {
					return
				}
				v := make([]bool, n)
				for i := range v {
					v[i] = mode == 0 || (mode == 1 && i < bad) || (mode == 2 && i > bad)
				}
				raw := e.poolMixedBlock(n, bad, v)
				if raw == nil {
					e.r.Hit("no-material:pool-sweep")
					continue
				}
				e.judge("pool-bad-script-among-known", raw, n == 2)
			}
		}
	}
}

func poolKinds() []kindEntry {
	return []kindEntry{
		{"pool-bad-script-among-known", kPoolMixed(true), 4, false},
		{"pool-valid-some-known", kPoolMixed(false), 3, false},
	}
}
