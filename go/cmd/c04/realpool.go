// realpool.go — the configuration the client really runs: chain.TrustedTxChecker = client/txpool's own txChecker, the
// memory pool = client/txpool itself (added after the fourth round of seeded changes; pool.go lets the HARNESS play an
// honest pool, which says nothing about whether the real one is honest).
//
// commitTxs skips script verification for a transaction the hook vouches for. The property ("every input script
// verifies") therefore rests on the pool's verification cache: it may answer true only for the very transaction —
// witness included — whose scripts it has verified under the flags of the block. The txid does not cover the witness:
// for every segwit spend there are other transactions with the SAME txid (another witness), valid or not.
//
// Episodes with opts.RealPool wire the client's globals the way client/main.go does (common.BlockChain, common.Last,
// BlockMinedCB/BlockUndoneCB -> txpool.BlockMined/BlockUndone, BlockCommitInProgress around the commit) and drive a
// HISTORY OF THE POOL next to the history of the chain:
//
//	offers     transactions handed to txpool.HandleNetTx the way the network thread does (NeedThisTxExt, pending mark,
//	           a fresh object parsed from the bytes): accepted; replaced by a conflicting one that pays more (kept on
//	           the rejected list as REPLACED); refused replacements that pay less (rejected list, RBF_LOWFEE); refused for a
//	           failing script; children of pooled transactions; later: mined, or removed because a block spent their input
//	candidates blocks made of 1..4 transactions drawn from everything ever offered (whatever the pool did with it) and
//	           fresh ones, each in one of the variants  as-is | same txid, another witness that FAILS (a bit of the
//	           signature flipped; the item an OP_DROP OP_1 witness script expects left out) | same txid, another witness
//	           that VERIFIES (OP_DROP OP_1 accepts any item)
//
// Each candidate goes through judge() like any other: the reference never looks at the pool; the Lean model (op blockv)
// is told what the real hook answers for each transaction (asked right before the submission; the pool does not change
// in between). A vouched transaction whose script fails makes real code and model accept what reference and spec
// refuse: property failure `accepted-invalid:script`.
//
// NOT covered here: transactions from TRUSTED sources (TxRcvd.Trusted / SubmitLocalTx: the pool does not verify their
// scripts at all; local ones are never vouched for, trusted remote ones are — the operator's choice); a soft fork that
// activates between the admission of a transaction (verified under the flags of the tip) and the block.
package main

import (
	"bytes"
	"encoding/hex"
	"fmt"
	"time"

	"github.com/piotrnar/gocoin/client/common"
	"github.com/piotrnar/gocoin/client/txpool"
	"github.com/piotrnar/gocoin/lib/btc"
	"github.com/piotrnar/gocoin/lib/chain"
	"github.com/piotrnar/gocoin/lib/script"
	"verif/chainkit"
	"verif/vlib"
)

// what client/txpool's init() installed (package-level variables of main are initialised after the imported packages)
var realTxChecker = chain.TrustedTxChecker

// witness script OP_DROP OP_1: satisfied by ANY single item (clean stack: exactly the 1 is left)
var anyItemScript = []byte{0x75, 0x51}

// ptx: a transaction that was offered to the pool at some point
type ptx struct {
	tx     *btc.Tx
	ins    []*wcoin
	fee    uint64
	result string // what HandleNetTx answered
	parent *ptx   // the offered transaction one of whose outputs this one spends (nil: confirmed coins only)
}

func perm(g *vlib.Rng, n int) []int {
	p := make([]int, n)
	for i := range p {
		p[i] = i
	}
	for i := n - 1; i > 0; i-- {
		j := g.Intn(i + 1)
		p[i], p[j] = p[j], p[i]
	}
	return p
}

func realPoolChainOpts(o *chain.NewChanOpts) *chain.NewChanOpts {
	if o == nil {
		o = &chain.NewChanOpts{}
	}
	o.BlockMinedCB = func(bl *btc.Block) { txpool.BlockMined(bl) }   // client/main.go blockMined (fee statistics left out)
	o.BlockUndoneCB = func(bl *btc.Block) { txpool.BlockUndone(bl) } // client/main.go blockUndone
	return o
}

// wireRealPool: client/init.go + common.Reset, the minimum client/txpool reads (as go/cmd/c12 does).
func (e *episode) wireRealPool() {
	if realTxChecker == nil {
		fmt.Println("c04: client/txpool did not install chain.TrustedTxChecker")
		e.r.TieFail("real-pool-hook-not-installed", "importing client/txpool no longer installs chain.TrustedTxChecker", replayDoc{Kind: "real-pool-wiring", Opts: e.opts})
		return
	}
	common.BlockChain = e.k.Ch
	common.GocoinHomeDir = e.k.Dir
	common.CFG.TXPool.Enabled = true
	common.CFG.TXPool.AllowMemInputs = true
	common.CFG.TXPool.NotFullRBF = false
	common.CFG.TXPool.MaxTxWeight = 400e3
	common.CFG.TXPool.RejectRecCnt = 20000
	common.CFG.TXPool.SaveOnDisk = false
	common.TxExpireAfter = 14 * 24 * time.Hour
	common.MaxRejectedSizeBytes = 1 << 40
	common.MaxNoUtxoSizeBytes = 1 << 40
	common.VerifSetTxPoolLimits(1<<40, 1000)
	txpool.InitMempool()
	txpool.TxMutex.Lock()
	for b := range txpool.TransactionsPending {
		delete(txpool.TransactionsPending, b)
	}
	txpool.TxMutex.Unlock()
	txpool.CurrentFeeAdjustedSPKB = 0
	txpool.SortingDisabled = false
	script.DBG_ERR = false
	chain.TrustedTxChecker = realTxChecker
	e.syncTip()
}

// syncTip is what client/main.go LocalAcceptBlock does after CommitBlock returned.
func (e *episode) syncTip() {
	common.Last.Mutex.Lock()
	common.Last.Block = e.k.Ch.LastBlock()
	common.Last.Time = time.Now()
	common.Last.Mutex.Unlock()
	common.UpdateScriptFlags(0)
}

// offer hands a transaction to the pool as the network thread does; returns HandleNetTx's verdict.
func (e *episode) offer(tx *btc.Tx) string {
	raw := tx.SerializeNew()    // (chainkit leaves the serialization WITHOUT witness in tx.Raw)
	ntx, _ := btc.NewTx(raw) // a fresh object, as parsed from the wire
	if ntx == nil {
		return "unparsable"
	}
	ntx.SetHash(raw)
	e.pushHistory("offer:" + hex.EncodeToString(raw)) // part of the history: a replay hands it to the pool again
	bidx := ntx.Hash.BIdx()
	if why := txpool.NeedThisTxExt(&ntx.Hash, func() { txpool.TransactionsPending[bidx] = true }); why != 0 {
		return fmt.Sprintf("not-requested-%d", why)
	}
	res := "?"
	func() {
		defer func() {
			if x := recover(); x != nil {
				res = "panic"
				e.poolPanic("HandleNetTx", x, raw)
			}
		}()
		rc := &txpool.TxRcvd{Tx: ntx}
		rc.FeedbackCB = func(n *txpool.TxRcvd, _ *txpool.OneTxToSend) {
			if n.Result == 0 {
				res = "accepted"
			} else {
				res = "refused:" + txpool.ReasonToString(n.Result)
			}
		}
		txpool.HandleNetTx(rc)
	}()
	return res
}

// offerLocal is the operator's own submission (client/usif: SubmitLocalTx): the pool does NOT verify its scripts and
// marks the entry Local; txChecker must never vouch for such an entry.
func (e *episode) offerLocal(tx *btc.Tx) string {
	raw := tx.SerializeNew()
	ntx, _ := btc.NewTx(raw)
	if ntx == nil {
		return "unparsable"
	}
	ntx.SetHash(raw)
	e.pushHistory("offerlocal:" + hex.EncodeToString(raw))
	if why := txpool.NeedThisTxExt(&ntx.Hash, nil); why != 0 {
		return fmt.Sprintf("not-needed-%d", why)
	}
	res := "refused"
	func() {
		defer func() {
			if x := recover(); x != nil {
				res = "panic"
				e.poolPanic("SubmitLocalTx", x, raw)
			}
		}()
		if txpool.SubmitLocalTx(ntx, raw) {
			res = "accepted"
		}
	}()
	return res
}

// poolPanic: the pool panicked on a transaction handed to it (the history already names the offer). Not a refusal: the
// client would crash, and — recovered as here — txpool.TxMutex may stay locked (the stall watchdog then ends the run).
func (e *episode) poolPanic(where string, x interface{}, raw []byte) {
	e.sawPanic(fmt.Sprint(x))
	e.r.TieFail("real-pool-panic:"+where, fmt.Sprintf("client/txpool %s panicked on an offered transaction (%d bytes, %d history entries): %v", where, len(raw), len(e.history), x),
		replayDoc{Kind: "realpool:offer-panic", Opts: e.opts, History: append([]string{}, e.history...), Candidate: hex.EncodeToString(e.k.Build(chainkit.BlockSpec{}))})
	e.dead = true
}

// poolState: where the pool holds this txid now.
func poolState(id *btc.Uint256) string {
	txpool.TxMutex.Lock()
	defer txpool.TxMutex.Unlock()
	if t, ok := txpool.TransactionsToSend[id.BIdx()]; ok {
		if t.Local {
			return "pooled-local" // the operator's own submission: scripts NOT verified by the pool
		}
		return "pooled"
	}
	if r, ok := txpool.TransactionsRejected[id.BIdx()]; ok {
		return "rejected:" + txpool.ReasonToString(r.Reason)
	}
	return "unknown"
}

// fundPool: a block that turns mature coins into outputs of the kinds whose spends carry a witness.
func (e *episode) fundPool() {
	if e.opts.NoSegWit {
		return
	}
	ws := p2wshOf(anyItemScript)
	e.redeems[string(ws)] = &wcoin{redeem: anyItemScript, mine: "p2wsh-any"}
	var txs []*btc.Tx
	var fees uint64
	used := map[btc.TxPrevOut]bool{}
	for t := 0; t < 2; t++ {
		c := e.pick(notIn(used, nil))
		if c == nil {
			break
		}
		used[c.Out] = true
		var outs []chainkit.OutSpec
		n := 12
		per := (c.Value - 10000) / uint64(n)
		for i := 0; i < n; i++ {
			s := ws
			switch i % 4 {
			case 1:
				s = e.key.P2WPKH()
			case 2:
				s = e.key.P2SH_P2WPKH()
			}
			outs = append(outs, chainkit.OutSpec{Value: per - uint64(i), Script: s})
		}
		txs = append(txs, e.buildTx(1, []*wcoin{c}, nil, outs, 0))
		fees += c.Value - sumOuts(outs)
	}
	if len(txs) == 0 {
		return
	}
	if oc := e.judge("fund-pool", e.k.Build(chainkit.BlockSpec{Txs: txs, Fees: fees}), true); oc == nil || !oc.accepted {
		e.dead = true
	}
}

func sumOuts(outs []chainkit.OutSpec) (s uint64) {
	for _, o := range outs {
		s += o.Value
	}
	return
}

func segwitSpend(w *wcoin) bool {
	return w.mine == "p2wsh-any" || (w.mine == "" && (w.Kind == "p2wpkh" || w.Kind == "p2sh-p2wpkh"))
}

// poolTx builds a spend of the given coins paying `fee`, replaceable.
func (e *episode) poolTx(ins []*wcoin, fee uint64) *ptx {
	tot := sum(ins)
	if fee+1000 > tot {
		return nil
	}
	seqs := make([]uint32, len(ins))
	for i := range seqs {
		seqs[i] = uint32(e.g.Pick(0xfffffffd, 0xffffffff, 0xfffffffe))
	}
	outs := e.spread(tot-fee, 1+e.g.Intn(2))
	return &ptx{tx: e.buildTx(1, ins, seqs, outs, 0), ins: ins, fee: fee}
}

// offerRound: a few offers; with some of them a conflicting second spend of the same coins (paying more: the first is
// replaced; paying less: the second is refused and remembered), a variant with a failing witness offered first, a child.
func (e *episode) offerRound(n int) {
	g := e.g
	busy := map[btc.TxPrevOut]bool{}
	for _, p := range e.ptxs {
		if hasPrefix(poolState(&p.tx.Hash), "pooled") {
			for _, c := range p.ins {
				busy[c.Out] = true
			}
		}
	}
	for i := 0; i < n; i++ {
		pred := notIn(busy, segwitSpend)
		if e.opts.NoSegWit || g.Chance(1, 5) {
			pred = notIn(busy, nil)
		}
		c := e.pick(pred)
		if c == nil {
			e.r.Hit("realpool:no-coin-to-offer")
			return
		}
		busy[c.Out] = true
		ins := []*wcoin{c}
		if g.Chance(1, 4) {
			if c2 := e.pick(notIn(busy, nil)); c2 != nil {
				busy[c2.Out] = true
				ins = append(ins, c2)
			}
		}
		fee := uint64(2000 + g.Intn(4000))
		p := e.poolTx(ins, fee)
		if p == nil {
			continue
		}
		if g.Chance(1, 6) {
			if bad := e.witnessVariant(p.tx, false); bad != nil { // loaded by the operator: pooled unverified, marked Local
				st := e.offerLocal(bad)
				e.r.Hit("realpool:local-submission-with-failing-witness:" + st)
				if st == "accepted" {
					e.ptxs = append(e.ptxs, &ptx{tx: bad, ins: ins, fee: fee, result: "local"})
					continue
				}
			}
		}
		if g.Chance(1, 5) {
			if bad := e.witnessVariant(p.tx, false); bad != nil { // the pool verifies scripts: it must refuse this one
				st := e.offer(bad)
				e.r.Hit("realpool:offer-failing-witness:" + st)
				if st == "accepted" { // then a block carrying it as it is shows the failure
					e.r.Hit("realpool:POOL-ADMITTED-A-FAILING-SCRIPT")
					e.ptxs = append(e.ptxs, &ptx{tx: bad, ins: ins, fee: fee, result: st})
				}
			}
		}
		if g.Chance(1, 7) { // one the pool never hears of
			p.result = "not-offered"
			e.ptxs = append(e.ptxs, p)
			continue
		}
		p.result = e.offer(p.tx)
		e.r.Hit("realpool:offer:" + p.result)
		e.ptxs = append(e.ptxs, p)
		if p.result != "accepted" {
			continue
		}
		switch g.Intn(5) {
		case 0, 1: // a replacement that pays clearly more
			if q := e.poolTx(ins, 3*fee+5000); q != nil {
				q.result = e.offer(q.tx)
				e.r.Hit("realpool:offer-replacement-higher-fee:" + q.result)
				e.ptxs = append(e.ptxs, q)
			}
		case 2: // one that pays less
			if q := e.poolTx(ins, fee/2); q != nil {
				q.result = e.offer(q.tx)
				e.r.Hit("realpool:offer-replacement-lower-fee:" + q.result)
				e.ptxs = append(e.ptxs, q)
			}
		case 3: // a child spending an output of the pooled transaction
			if kids := e.outCoins(p.tx, e.height()); len(kids) > 0 {
				k := kids[g.Intn(len(kids))]
				if q := e.poolTx([]*wcoin{k}, 1500+uint64(g.Intn(2000))); q != nil {
					q.parent = p
					q.result = e.offer(q.tx)
					e.r.Hit("realpool:offer-child:" + q.result)
					e.ptxs = append(e.ptxs, q)
				}
			}
		}
	}
}

// witnessVariant returns a transaction with the SAME txid and another witness: valid=false — one that fails (a flipped
// signature bit of a P2WPKH / P2SH-P2WPKH input, the missing item of an OP_DROP OP_1 input); valid=true — one that
// verifies as well (another item for OP_DROP OP_1). nil when the transaction has no input of the kind needed.
func (e *episode) witnessVariant(tx *btc.Tx, valid bool) *btc.Tx {
	t2, _ := btc.NewTx(tx.SerializeNew())
	if t2 == nil || t2.SegWit == nil {
		return nil
	}
	var idx []int
	for i, w := range t2.SegWit {
		isAny := len(w) == 2 && string(w[1]) == string(anyItemScript)
		isSig := len(w) == 2 && len(w[1]) == 33 && len(w[0]) > 60
		if (valid && isAny) || (!valid && (isAny || isSig)) {
			idx = append(idx, i)
		}
	}
	if len(idx) == 0 {
		return nil
	}
	i := idx[e.g.Intn(len(idx))]
	w := t2.SegWit[i]
	switch {
	case string(w[1]) == string(anyItemScript) && valid:
		it := e.g.Bytes(1 + e.g.Intn(6))
		if string(it) == string(w[0]) {
			it = append(it, 0x01)
		}
		t2.SegWit[i] = [][]byte{it, w[1]}
	case string(w[1]) == string(anyItemScript):
		t2.SegWit[i] = [][]byte{w[1]} // OP_DROP on an empty stack
	default:
		sig := append([]byte{}, w[0]...)
		sig[5+e.g.Intn(len(sig)-8)] ^= 1 << uint(e.g.Intn(8))
		t2.SegWit[i] = [][]byte{sig, w[1]}
	}
	chainkit.Finish(t2) // txid, sizes (the harness's blocks are serialized from the fields)
	if t2.Hash != tx.Hash || bytes.Equal(t2.SerializeNew(), tx.SerializeNew()) {
		return nil
	}
	return t2
}

// unspentIns: every input of the transaction is still an unspent confirmed coin of the reference.
func (e *episode) unspentIns(p *ptx) bool {
	for _, c := range p.ins {
		if _, ok := e.ref[c.Out]; ok {
			continue
		}
		if p.parent != nil && c.Out.Hash == p.parent.tx.Hash.Hash && e.unspentIns(p.parent) {
			continue
		}
		return false
	}
	return true
}

// poolCandidate: a block of transactions the pool has seen (in any state), each as-is or under another witness; at most
// one of them invalid. want = "" (random) | "as-is" | "bad-witness" | "good-witness"; state = "" | prefix of poolState.
func (e *episode) poolCandidate(want, state string) ([]byte, string) {
	g := e.g
	var live []*ptx
	for _, p := range e.ptxs {
		if e.unspentIns(p) {
			live = append(live, p)
		}
	}
	e.ptxs = live
	used := map[btc.TxPrevOut]bool{}
	var txs []*btc.Tx
	var fees uint64
	tag := ""
	inBlock := map[[32]byte]bool{}
	var add func(p *ptx, variant string) bool
	add = func(p *ptx, variant string) bool {
		for _, c := range p.ins {
			if used[c.Out] {
				return false
			}
		}
		if inBlock[p.tx.Hash.Hash] {
			return false
		}
		if p.parent != nil && !inBlock[p.parent.tx.Hash.Hash] {
			if _, confirmed := e.ref[p.ins[0].Out]; !confirmed && !add(p.parent, "as-is") {
				return false
			}
		}
		tx := p.tx
		switch variant {
		case "bad-witness":
			tx = e.witnessVariant(p.tx, false)
		case "good-witness":
			tx = e.witnessVariant(p.tx, true)
		}
		if tx == nil {
			return false
		}
		for _, c := range p.ins {
			used[c.Out] = true
		}
		txs = append(txs, tx)
		inBlock[p.tx.Hash.Hash] = true
		fees += p.fee
		st := poolState(&p.tx.Hash)
		e.r.Hit("realpool:candidate-tx:" + st + ":" + variant)
		if tag == "" || variant != "as-is" {
			tag = st + ":" + variant
		}
		return true
	}
	// the transaction the candidate is about
	order := perm(g, len(live))
	if want != "" {
		done := false
		for _, i := range order {
			p := live[i]
			if e.focus != nil && p != e.focus {
				continue
			}
			if len(state) > 0 && !hasPrefix(poolState(&p.tx.Hash), state) {
				continue
			}
			if add(p, want) {
				done = true
				break
			}
		}
		if !done {
			return nil, ""
		}
	}
	hadBad := want == "bad-witness"
	for _, i := range order {
		if e.focus != nil {
			break // localSweep: the candidate is about this one transaction alone
		}
		if len(txs) >= 1+g.Intn(4) {
			break
		}
		v := "as-is"
		switch x := g.Intn(10); {
		case x < 3 && !hadBad:
			v = "bad-witness"
		case x < 5:
			v = "good-witness"
		}
		if !add(live[i], v) && v != "as-is" {
			v = "as-is"
			add(live[i], v)
		} else if v == "bad-witness" {
			hadBad = true
		}
	}
	if len(txs) == 0 {
		return nil, ""
	}
	// parents before children
	txs = parentsFirst(txs)
	if e.focus == nil && g.Chance(1, 3) { // and one the pool has never seen
		if c := e.pick(notIn(used, nil)); c != nil {
			used[c.Out] = true
			f := uint64(g.Intn(3000))
			if f < c.Value {
				txs = append(txs, e.buildTx(1, []*wcoin{c}, nil, e.spread(c.Value-f, 1+g.Intn(2)), 0))
				fees += f
			}
		}
	}
	return e.k.Build(chainkit.BlockSpec{Txs: txs, Fees: fees}), tag
}

func hasPrefix(s, p string) bool { return len(s) >= len(p) && s[:len(p)] == p }

func parentsFirst(txs []*btc.Tx) []*btc.Tx {
	pos := map[[32]byte]int{}
	for i, t := range txs {
		pos[t.Hash.Hash] = i
	}
	var out []*btc.Tx
	done := map[[32]byte]bool{}
	var visit func(t *btc.Tx)
	visit = func(t *btc.Tx) {
		if done[t.Hash.Hash] {
			return
		}
		done[t.Hash.Hash] = true
		for _, in := range t.TxIn {
			if j, ok := pos[in.Input.Hash]; ok {
				visit(txs[j])
			}
		}
		out = append(out, t)
	}
	for _, t := range txs {
		visit(t)
	}
	return out
}

// vouchReal: what the installed hook answers for the transactions of this candidate (asked on the harness's own parse
// of the bytes; txChecker only reads the pool).
func (e *episode) vouchReal(c *cand) {
	c.vouch = make([]bool, len(c.txs))
	for ti := 1; ti < len(c.txs); ti++ {
		func() {
			defer func() {
				if x := recover(); x != nil {
					// commitTxs calls the hook on its own goroutine's stack: a panic there is a panic of AcceptBlock (reported by
					// judge as accept-panic when the real run reaches it); here the answer the model is told is unknown
					e.sawPanic(fmt.Sprint(x))
					e.r.Hit("realpool:HOOK-PANICKED")
					e.r.TieFail("real-pool-hook-panic", fmt.Sprintf("client/txpool's txChecker panicked on transaction %d of a candidate: %v", ti, x),
						replayDoc{Kind: "realpool:hook-panic", Opts: e.opts, History: append([]string{}, e.history...), Candidate: hex.EncodeToString(c.raw)})
				}
			}()
			c.vouch[ti] = realTxChecker(c.txs[ti])
		}()
		e.hookTie(c, ti)
		if c.vouch[ti] {
			e.r.Hit("realpool:hook-vouches:" + poolState(&c.txs[ti].Hash))
			if !c.honest(ti) {
				e.r.Hit("realpool:HOOK-VOUCHES-FOR-A-FAILING-SCRIPT")
			}
		}
	}
}

// hookTie compares client/txpool's txChecker with the Lean model of it (Model/ConnectCache.cacheSays — the function the
// theorem real_pool_hook_is_honest is about; oracle op `hook`): the harness reads the pool's own maps for the entry filed
// under the transaction's txid (state, Local, witness hash) and asks the model what the hook says for this transaction.
func (e *episode) hookTie(c *cand, ti int) {
	tx := c.txs[ti]
	state, local := "none", "0"
	var zero [32]byte
	ew := zero[:]
	txpool.TxMutex.Lock()
	if t, ok := txpool.TransactionsToSend[tx.Hash.BIdx()]; ok {
		state = "tosend"
		if t.Local {
			local = "1"
		}
		ew = append([]byte{}, t.WTxID().Hash[:]...)
	} else if r, ok := txpool.TransactionsRejected[tx.Hash.BIdx()]; ok {
		state = "rejected"
		if r.Reason == txpool.TX_REJECTED_REPLACED {
			state = "replaced"
		}
		if r.Tx != nil {
			ew = append([]byte{}, r.Tx.WTxID().Hash[:]...)
		}
	}
	txpool.TxMutex.Unlock()
	tw := tx.WTxID().Hash[:]
	rep := e.o.MustAsk(fmt.Sprintf("hook %s %s %s %s %s", state, local, vlib.Hex(tx.Hash.Hash[:]), vlib.Hex(ew), vlib.Hex(tw)))
	same := "other-witness"
	if bytes.Equal(ew, tw) {
		same = "same-witness"
	}
	e.r.Hit("realpool:hook-tie:" + state + ":local=" + local + ":" + same + "=" + rep)
	if rep != b2i(c.vouch[ti]) {
		e.r.TieFail("model-hook:"+state+":local="+local+":"+same, fmt.Sprintf("client/txpool's txChecker answers %v for a transaction whose txid the pool holds as %s (Local=%s, %s); the Lean model of the hook (cacheSays) answers %s", c.vouch[ti], state, local, same, rep),
			replayDoc{Kind: "realpool:hook-tie", Opts: e.opts, History: append([]string{}, e.history...), Candidate: hex.EncodeToString(c.raw)})
	} else {
		e.r.TieOK()
	}
}

// realPoolSweep (corpus part): for every state the pool can hold a transaction in × every variant, one candidate.
func (e *episode) realPoolSweep() {
	for _, st := range []string{"pooled", "rejected:REPLACED", "rejected", "unknown"} {
		for _, v := range []string{"as-is", "bad-witness", "good-witness"} {
			if e.dead {
				return
			}
			e.offerRound(3)
			raw, tag := e.poolCandidate(v, st)
			if raw == nil {
				e.r.Hit("no-material:realpool-sweep:" + st + ":" + v)
				continue
			}
			e.judge("realpool:"+tag, raw, true)
		}
	}
}

// localSweep (corpus part, deterministic at every seed): the operator's own submissions. SubmitLocalTx pools a
// transaction WITHOUT verifying its scripts and marks the entry Local; txChecker must never vouch for such an entry,
// whatever the witness hash says. Four candidates:
//
//	L1  a Local entry whose witness FAILS, mined exactly as pooled (same wtxid)   → must be refused (scripts run)
//	L2  a Local entry whose witness verifies, mined exactly as pooled             → valid; the hook must still say no
//	L3  the same txid as L2 under a witness that fails                            → refused
//	L4  the same txid as L1 under its good witness (the pooled copy is the bad one) → valid
func (e *episode) localSweep() {
	if e.opts.NoSegWit {
		return
	}
	mk := func() *ptx {
		busy := map[btc.TxPrevOut]bool{}
		for _, p := range e.ptxs {
			for _, c := range p.ins {
				busy[c.Out] = true
			}
		}
		c := e.pick(notIn(busy, func(w *wcoin) bool { return segwitSpend(w) && w.mine != "p2wsh-any" }))
		if c == nil {
			c = e.pick(notIn(busy, segwitSpend))
		}
		if c == nil {
			return nil
		}
		return e.poolTx([]*wcoin{c}, uint64(2000+e.g.Intn(3000)))
	}
	run := func(name string, p *ptx, variant string) {
		if e.dead || p == nil {
			e.r.Hit("no-material:realpool-local-sweep:" + name)
			return
		}
		e.focus = p
		raw, tag := e.poolCandidate(variant, "")
		e.focus = nil
		if raw == nil {
			e.r.Hit("no-material:realpool-local-sweep:" + name)
			return
		}
		e.r.Hit("realpool:local-sweep:" + name + ":" + tag)
		e.judge("realpool:"+tag, raw, true)
	}
	// L1 / L4: the pooled copy carries the failing witness
	if good := mk(); good != nil {
		if bad := e.witnessVariant(good.tx, false); bad != nil {
			st := e.offerLocal(bad)
			e.r.Hit("realpool:local-submission-with-failing-witness:" + st)
			if st == "accepted" && poolState(&bad.Hash) == "pooled-local" {
				p := &ptx{tx: bad, ins: good.ins, fee: good.fee, result: "local"}
				e.ptxs = append(e.ptxs, p)
				// L4 first (it does not confirm the coin when refused … it is valid: mined, the entry leaves the pool) — so L1 first
				run("L1-failing-local-as-pooled", p, "as-is")
				if !e.dead && e.unspentIns(p) {
					q := &ptx{tx: good.tx, ins: good.ins, fee: good.fee, result: "local-good-twin"}
					e.ptxs = append(e.ptxs, q)
					run("L4-good-twin-of-failing-local", q, "as-is")
				}
			}
		}
	}
	// L2 / L3: the pooled copy verifies
	if p := mk(); p != nil {
		st := e.offerLocal(p.tx)
		e.r.Hit("realpool:local-submission:" + st)
		if st == "accepted" && poolState(&p.tx.Hash) == "pooled-local" {
			p.result = "local"
			e.ptxs = append(e.ptxs, p)
			run("L3-valid-local-under-failing-witness", p, "bad-witness")
			if !e.dead && e.unspentIns(p) {
				run("L2-valid-local-as-pooled", p, "as-is")
			}
		}
	}
}

func runRealPoolEpisode(r *Run, o *vlib.Oracle, ep int, g *vlib.Rng, opts epOpts) {
	e := newEpisode(r, o, g, opts)
	defer e.close()
	e.grow(101 + g.Intn(6))
	e.fund()
	e.fundPool()
	e.grow(1)
	e.realPoolSweep()
	e.localSweep()
	ks := kinds()
	for s, steps := 0, r.N(14, 40); s < steps && !e.dead; s++ {
		e.offerRound(1 + g.Intn(3))
		switch x := g.Intn(10); {
		case x < 7:
			raw, tag := e.poolCandidate("", "")
			if raw == nil {
				r.Hit("no-material:realpool-candidate")
				continue
			}
			e.judge("realpool:"+tag, raw, true)
		case x < 9: // an ordinary block: spends coins pooled transactions spend too, or none of them
			if raw := ks[0].fn(e); raw != nil {
				e.judge(ks[0].name, raw, true)
			}
		default:
			e.grow(1)
		}
	}
	txpool.TxMutex.Lock()
	np, nr := len(txpool.TransactionsToSend), len(txpool.TransactionsRejected)
	txpool.TxMutex.Unlock()
	r.Hit(fmt.Sprintf("realpool:at-end pooled=%s rejected=%s", cnt(np), cnt(nr)))
	r.Hit(fmt.Sprintf("episodes(real-pool,segwit=%v,entry=%q)", !opts.NoSegWit, opts.Entry))
}
