// reorg.go — side-branch scenarios: a block reaches the active chain THROUGH A RE-ORGANISATION
// (Chain.CommitBlock → MoveToBlock → UndoLastBlock… → ParseTillBlock), not through the direct tip path.
//
//	P ── T1 ── … ── Td                 the active chain (d = 1 or 2), tip Td
//	 └── B1' ── … ── Bd' ── B(d+1)'    the side branch; one of its blocks carries the transaction under test
//
// B1'…Bd' are stored without running scripts (their parent is not the tip / they do not have more work); B(d+1)'
// gives the side branch more work, so the node undoes Td…T1 and connects the stored blocks with ParseTillBlock.
// The transaction under test violates exactly one script rule that gocoin gates BY HEIGHT (GetBlockFlags: DERSIG,
// CLTV, CSV, WITNESS, NULLDUMMY) — or satisfies it (valid variant) — and is valid in every other respect.
//
// Judge = the property predicate only (Go reference on the coin map of P, script verdicts under the flags of the
// block's TRUE height), against the real code's final tip and full UTXO dump:
//
//	some side block invalid  ⇒ the active chain must not contain it; tip = Td and dump = the dump taken at Td
//	all side blocks valid    ⇒ tip = B(d+1)' and dump = P's coin map + B1' + … + B(d+1)' applied sequentially
//
// The Lean oracle is not consulted for side blocks (it has no undo); after a scenario that ends on the side branch
// the episode is closed. After a refused branch all four states still describe the chain ending in Td.
package main

import (
	"bytes"
	"encoding/hex"
	"fmt"
	"strings"

	"github.com/piotrnar/gocoin/lib/btc"
	"github.com/piotrnar/gocoin/lib/chain"
	"github.com/piotrnar/gocoin/lib/script"
	"verif/chainkit"
	"verif/vlib"
)

// scoin: an output whose script exercises one height-gated rule.
type scoin struct {
	*wcoin
	tag    string // "cltv" | "csv" | "msig"
	p2sh   bool   // script is wrapped in P2SH (script = redeem script) or sits bare in the output
	script []byte // the script that is executed
	param  uint32 // cltv: required lock time; csv: required relative lock (blocks)
}

func (st utxoMap) clone() utxoMap {
	c := make(utxoMap, len(st))
	for k, v := range st {
		c[k] = v
	}
	return c
}

func scriptNum(v uint32) []byte {
	if v == 0 {
		return []byte{0x00}
	}
	var b []byte
	for x := v; x > 0; x >>= 8 {
		b = append(b, byte(x))
	}
	if b[len(b)-1]&0x80 != 0 {
		b = append(b, 0)
	}
	return pushData(b)
}

// fundSpecial mines one ordinary block that creates the coins the scenarios need.
func (e *episode) fundSpecial() {
	if e.dead {
		return
	}
	const per = 300000
	c := e.pick(func(w *wcoin) bool { return w.Value > 40*per })
	if c == nil {
		e.r.Hit("reorg-no-material:funding")
		return
	}
	h := e.height()
	type plan struct {
		tag    string
		p2sh   bool
		script []byte
		param  uint32
	}
	var plans []plan
	for i := 0; i < 2; i++ {
		for _, p2sh := range []bool{false, true} {
			l := h - 1 - uint32(e.g.Intn(60)) // a height in the past: 17 < l < height of every later block
			plans = append(plans, plan{"cltv", p2sh, append(scriptNum(l), 0xb1, 0x75, 0x51), l})
			n := uint32(1 + e.g.Intn(2))
			plans = append(plans, plan{"csv", p2sh, []byte{0x50 + byte(n), 0xb2, 0x75, 0x51}, n})
			ms := append(append([]byte{0x51}, pushData(e.key.Pub)...), 0x51, 0xae) // 1 <pub> 1 CHECKMULTISIG
			plans = append(plans, plan{"msig", p2sh, ms, 0})
		}
	}
	var outs []chainkit.OutSpec
	for _, p := range plans {
		s := p.script
		if p.p2sh {
			s = p2shOf(p.script)
		}
		outs = append(outs, chainkit.OutSpec{Value: per, Script: s})
	}
	nSpecial := len(outs)
	for i := 0; i < 3; i++ {
		outs = append(outs, chainkit.OutSpec{Value: per, Script: e.key.P2PKH()})
		if !e.opts.NoSegWit {
			outs = append(outs, chainkit.OutSpec{Value: per, Script: e.key.P2WPKH()}, chainkit.OutSpec{Value: per, Script: e.key.P2SH_P2WPKH()})
		}
		outs = append(outs, chainkit.OutSpec{Value: per, Script: anyone})
	}
	fee := uint64(e.g.Intn(5000))
	outs = append(outs, chainkit.OutSpec{Value: c.Value - fee - uint64(len(outs))*per, Script: anyone})
	tx := e.buildTx(1, []*wcoin{c}, nil, outs, 0)
	oc := e.judge("fund-special", e.k.Build(chainkit.BlockSpec{Txs: []*btc.Tx{tx}, Fees: fee}), true)
	if oc == nil || !oc.accepted {
		e.dead = true
		return
	}
	for i, p := range plans {
		cn := &chainkit.Coin{Out: btc.TxPrevOut{Hash: tx.Hash.Hash, Vout: uint32(i)}, Value: per, Script: outs[i].Script, Kind: "raw", Height: h}
		e.special = append(e.special, &scoin{wcoin: &wcoin{Coin: cn}, tag: p.tag, p2sh: p.p2sh, script: p.script, param: p.param})
	}
	_ = nSpecial
}

// ---- the transaction under test --------------------------------------------------------------------------

type sideKind struct {
	name string
	bit  uint32 // the height-gated flag the violating form depends on (0: flag-independent control)
	mk   func(e *episode, hmin uint32, violate bool) (tx *btc.Tx, spent *btc.TxOut)
}

func (e *episode) unspentRef(w *wcoin) bool { _, ok := e.ref[w.Out]; return ok }

func (e *episode) pickPlain(kind string) *wcoin {
	return e.pick(func(w *wcoin) bool { return w.mine == "" && w.Kind == kind && !w.Coinbase && e.unspentRef(w) })
}

func (e *episode) pickSpecial(tag string) *scoin {
	var c []*scoin
	for _, s := range e.special {
		if s.tag == tag && e.unspentRef(s.wcoin) {
			c = append(c, s)
		}
	}
	if len(c) == 0 {
		return nil
	}
	return c[e.g.Intn(len(c))]
}

func outOf(w *wcoin) *btc.TxOut { return &btc.TxOut{Value: w.Value, Pk_script: w.Script} }

func (e *episode) payout(w *wcoin) []chainkit.OutSpec {
	fee := uint64(e.g.Intn(2000))
	s := anyone
	if e.g.Chance(1, 3) {
		s = e.key.P2PKH()
	}
	return []chainkit.OutSpec{{Value: w.Value - fee, Script: s}}
}

// (a) native P2WPKH spent with an empty scriptSig and no witness / properly
func kWitnessless(coinKind string) func(e *episode, hmin uint32, violate bool) (*btc.Tx, *btc.TxOut) {
	return func(e *episode, hmin uint32, violate bool) (*btc.Tx, *btc.TxOut) {
		c := e.pickPlain(coinKind)
		if c == nil {
			return nil, nil
		}
		tx := e.buildTx(1+uint32(e.g.Intn(2)), []*wcoin{c}, nil, e.payout(c), 0)
		if violate {
			tx.SegWit = nil // (b) keeps the push of the witness program in the scriptSig: P2SH is satisfied
			chainkit.Finish(tx)
		}
		return tx, outOf(c)
	}
}

// derPad re-encodes <sig> of a P2PKH scriptSig with an unnecessary leading zero in R and/or S (not strict DER,
// same numbers): valid under the pre-BIP66 rules only.
func derPad(g *vlib.Rng, ss []byte) []byte {
	sl := int(ss[0])
	sig, rest := ss[1:1+sl], ss[1+sl:]
	lr := int(sig[3])
	rb := sig[4 : 4+lr]
	ls := int(sig[5+lr])
	sb := sig[6+lr : 6+lr+ls]
	ht := sig[6+lr+ls:]
	padR, padS := true, false
	switch g.Intn(3) {
	case 1:
		padR, padS = false, true
	case 2:
		padS = true
	}
	if padR {
		rb = append([]byte{0}, rb...)
	}
	if padS {
		sb = append([]byte{0}, sb...)
	}
	n := []byte{0x30, byte(4 + len(rb) + len(sb)), 0x02, byte(len(rb))}
	n = append(n, rb...)
	n = append(n, 0x02, byte(len(sb)))
	n = append(n, sb...)
	n = append(n, ht...)
	return append(pushData(n), rest...)
}

// (c) P2PKH with a non-DER signature; (g) P2PKH with a wrong signature
func kP2PKH(how string) func(e *episode, hmin uint32, violate bool) (*btc.Tx, *btc.TxOut) {
	return func(e *episode, hmin uint32, violate bool) (*btc.Tx, *btc.TxOut) {
		c := e.pickPlain("p2pkh")
		if c == nil {
			return nil, nil
		}
		tx := e.buildTx(1+uint32(e.g.Intn(2)), []*wcoin{c}, nil, e.payout(c), 0)
		if violate {
			switch how {
			case "der":
				tx.TxIn[0].ScriptSig = derPad(e.g, tx.TxIn[0].ScriptSig)
			case "bad":
				tx.TxIn[0].ScriptSig[10+e.g.Intn(20)] ^= 1 << uint(e.g.Intn(8))
			}
			chainkit.Finish(tx)
		}
		return tx, outOf(c)
	}
}

func (s *scoin) asInput() *wcoin {
	w := &wcoin{Coin: s.Coin}
	if s.p2sh {
		w.redeem, w.mine = s.script, "p2sh-raw" // buildTx sets scriptSig = push(redeem)
	}
	return w
}

// (d) <L> CHECKLOCKTIMEVERIFY DROP TRUE
func kCLTV(e *episode, hmin uint32, violate bool) (*btc.Tx, *btc.TxOut) {
	s := e.pickSpecial("cltv")
	if s == nil || s.param >= hmin || s.param < 18 {
		return nil, nil
	}
	l := s.param
	lock, seq := l+uint32(e.g.Intn(int(hmin-l))), uint32(0xfffffffe) // l ≤ lock < height: final by height
	if violate {
		switch e.g.Intn(4) {
		case 0:
			lock = l - 1 - uint32(e.g.Intn(3))
		case 1:
			lock = 0
		case 2:
			lock = 500000000 + uint32(e.g.Intn(1000)) // a time, long past: final, but the wrong kind of lock
		case 3:
			seq = 0xffffffff // the input is final: the lock time is not in force
		}
	}
	tx := e.buildTx(1, []*wcoin{s.asInput()}, []uint32{seq}, e.payout(s.wcoin), lock)
	return tx, outOf(s.wcoin)
}

// (e) <N> CHECKSEQUENCEVERIFY DROP TRUE — N blocks, the coin is at least 2 blocks deep, so BIP68 itself is
// satisfied by every sequence used here (kept away from the known finding bip68-not-enforced)
func kCSV(e *episode, hmin uint32, violate bool) (*btc.Tx, *btc.TxOut) {
	s := e.pickSpecial("csv")
	if s == nil || s.Height+2 > hmin {
		return nil, nil
	}
	ver, seq := uint32(2), s.param
	if violate {
		switch e.g.Intn(3) {
		case 0:
			seq = s.param - 1
		case 1:
			ver = 1
		case 2:
			seq |= 1 << 31
		}
	}
	tx := e.buildTx(ver, []*wcoin{s.asInput()}, []uint32{seq}, e.payout(s.wcoin), 0)
	return tx, outOf(s.wcoin)
}

// (f) 1 <pub> 1 CHECKMULTISIG with a dummy element that is / is not null
func kNullDummy(e *episode, hmin uint32, violate bool) (*btc.Tx, *btc.TxOut) {
	s := e.pickSpecial("msig")
	if s == nil {
		return nil, nil
	}
	tx := e.buildTx(1, []*wcoin{{Coin: s.Coin}}, nil, e.payout(s.wcoin), 0)
	tx.Sign(0, s.script, 1, e.key.Pub, e.key.Priv) // leaves <sig> <pub>
	ss := tx.TxIn[0].ScriptSig
	sig := append([]byte{}, ss[1:1+int(ss[0])]...)
	dummy := []byte{0x00}
	if violate {
		dummy = [][]byte{{0x51}, {0x01, 0x00}, {0x01, 0x80}, {0x02, 0x51, 0x52}}[e.g.Intn(4)]
	}
	ns := append(append([]byte{}, dummy...), pushData(sig)...)
	if s.p2sh {
		ns = append(ns, pushData(s.script)...)
	}
	tx.TxIn[0].ScriptSig = ns
	chainkit.Finish(tx)
	return tx, outOf(s.wcoin)
}

func sideKinds() []sideKind {
	return []sideKind{
		{"p2wpkh-no-witness", script.VER_WITNESS, kWitnessless("p2wpkh")},
		{"p2sh-p2wpkh-no-witness", script.VER_WITNESS, kWitnessless("p2sh-p2wpkh")},
		{"non-der-signature", script.VER_DERSIG, kP2PKH("der")},
		{"cltv-unsatisfied", script.VER_CLTV, kCLTV},
		{"csv-unsatisfied", script.VER_CSV, kCSV},
		{"multisig-nonnull-dummy", script.VER_NULLDUMMY, kNullDummy},
		{"wrong-signature", 0, kP2PKH("bad")},
	}
}

// ---- the scenario -------------------------------------------------------------------------------------------

type sideRun struct {
	kind   string
	depth  int                                             // number of main blocks = number of side blocks - 1
	mkMain func(i int) []byte                              // builds Ti on the current tip
	mkSide func(i int, parent *chain.BlockTreeNode) []byte // builds B(i+1)' on `parent`
}

func (e *episode) nodeOf(h *btc.Uint256) *chain.BlockTreeNode {
	e.k.Ch.BlockIndexAccess.Lock()
	defer e.k.Ch.BlockIndexAccess.Unlock()
	return e.k.Ch.BlockIndex[h.BIdx()]
}

// runSide plays one scenario from the current tip P and evaluates the predicate. Returns false when the episode
// cannot be used any further (it is then marked dead).
func (e *episode) runSide(sr sideRun) {
	r := e.r
	P := e.k.Ch.LastBlock()
	refP := e.ref.clone()
	histP := append([]string{}, e.history...)
	var mainHex, sideHex []string
	var realLog []string
	refLog := "ok"
	firstBad := -1
	doc := func() replayDoc {
		cand := ""
		if len(sideHex) > 0 {
			cand = sideHex[0]
			if firstBad >= 0 && firstBad < len(sideHex) {
				cand = sideHex[firstBad]
			}
		}
		return replayDoc{Kind: "side-branch:" + sr.kind, Opts: e.opts, History: histP, Candidate: cand,
			MainBranch: append([]string{}, mainHex...), SideBranch: append([]string{}, sideHex...),
			Real: strings.Join(realLog, " | "), Ref: refLog}
	}
	defer func() { e.lastDoc = doc; setDoc(doc) }() // watchdog.go: what this episode's real chain was given last
	// the active chain grows by T1..Td — ordinary blocks, all four judges
	for i := 0; i < sr.depth; i++ {
		raw := sr.mkMain(i)
		if raw == nil {
			r.Hit("reorg-no-material:main-block")
			return
		}
		oc := e.judge("reorg-main", raw, true)
		if oc == nil || !oc.accepted || e.dead {
			r.Hit("reorg-main-block-not-connected")
			e.dead = true
			return
		}
		mainHex = append(mainHex, hex.EncodeToString(raw))
	}
	tipT, hT := e.k.Tip()
	dumpT := chainkit.UtxoDump(e.k.Ch.Unspent)
	idxBefore := e.indexLen()

	// the side branch: reference first (on the coin map of P), then the real code
	refS := refP.clone()
	parent := P
	var badHash *btc.Uint256
	var lastHash *btc.Uint256
	var firstRaw []byte
	for i := 0; i <= sr.depth; i++ {
		if parent == nil {
			r.Hit("reorg-side-parent-missing")
			break
		}
		raw := sr.mkSide(i, parent)
		if raw == nil {
			r.Hit("reorg-no-material:side-block")
			break
		}
		if i == 0 {
			firstRaw = raw
		}
		sideHex = append(sideHex, hex.EncodeToString(raw))
		bl, err := btc.NewBlock(raw)
		if err != nil {
			r.Hit("reorg-side-unparsable")
			break
		}
		if firstBad < 0 {
			c := e.parseOn(raw, parent, refS)
			if c == nil {
				firstBad, refLog, badHash = i, "unparsable", bl.Hash
			} else if gerr, sp, ad := refConnect(refS, c, ""); gerr != "" {
				firstBad, badHash = i, bl.Hash
				refLog = fmt.Sprintf("side block %d: %s", i+1, gerr)
				if e1, _, _ := refConnect(refS, c, "bip68"); e1 == "" {
					refLog += " (bip68)"
				} else if e2, _, _ := refConnect(refS, c, "opreturn"); e2 == "" {
					refLog += " (opreturn)"
				}
			} else {
				refS.apply(sp, ad)
			}
		}
		e.lastDoc = doc
		setDoc(doc)
		res := e.submit(raw)
		realLog = append(realLog, res.String())
		r.Hit("reorg-side-submit:" + errClass(res.String()))
		if res.Panic != "" {
			// never a legitimate way to refuse a branch: the node would crash (and, recovered as here, may hold a lock for ever)
			e.sawPanic(res.Panic)
			if firstBad < 0 {
				firstBad = i
			}
			r.PropFail("reorg-panic", fmt.Sprintf("side-branch scenario %q (fork depth %d, real: %s; reference: %s): Chain.CheckBlock+AcceptBlock panicked on side block %d: %s", sr.kind, sr.depth, strings.Join(realLog, " | "), refLog, i+1, res.Panic), doc())
			e.dead = true
			return
		}
		lastHash = bl.Hash
		parent = e.nodeOf(bl.Hash)
		if i < sr.depth {
			if t, _ := e.k.Tip(); t != tipT {
				r.Hit("reorg-tip-moved-before-more-work")
			}
		}
	}
	if firstRaw == nil {
		return
	}
	verdict := "valid"
	if firstBad >= 0 {
		verdict = "invalid"
	}
	r.Eval("reorg-script:"+sr.kind+":"+verdict, vlib.ShortHash([]byte(strings.Join(sideHex, ""))))

	tipF, hF := e.k.Tip()
	dumpF := chainkit.UtxoDump(e.k.Ch.Unspent)
	e.idxOff += e.indexLen() - idxBefore // side blocks that stay stored: the model's index does not have them
	what := func(s string) string {
		return fmt.Sprintf("side-branch scenario %q (fork depth %d, real: %s; reference: %s): %s", sr.kind, sr.depth, strings.Join(realLog, " | "), refLog, s)
	}
	if firstBad >= 0 {
		onChain := false
		for n := e.k.Ch.LastBlock(); n != nil && n.Height > P.Height; n = n.Parent {
			if n.BlockHash.Equal(badHash) {
				onChain = true
			}
		}
		switch {
		case onChain:
			key := "reorg-connected-invalid:" + sr.kind
			if strings.HasSuffix(refLog, "(bip68)") {
				key = "bip68-not-enforced"
			} else if strings.HasSuffix(refLog, "(opreturn)") {
				key = "sigops-after-op-return"
			}
			r.PropFail(key, what(fmt.Sprintf("the re-organisation connected side block %d, which the reference ConnectBlock refuses on top of its parent's coin set; tip is now %s/%d", firstBad+1, tipF, hF)), doc())
			e.dead = true
		case tipF != tipT || hF != hT:
			r.PropFail("reorg-refused-tip-changed", what(fmt.Sprintf("the branch was refused but the tip is %s/%d, it was %s/%d", tipF, hF, tipT, hT)), doc())
			e.dead = true
		case !sameLines(dumpT, dumpF):
			r.PropFail("reorg-refused-utxo-changed", what("the branch was refused and the tip restored, but the unspent set differs from the one before: "+firstDiff(dumpT, dumpF)), doc())
			e.dead = true
		default:
			r.Hit("reorg-invalid-branch-refused:" + sr.kind)
		}
		r.Sample(map[string]string{"kind": "side-branch:" + sr.kind, "reference": refLog, "real": strings.Join(realLog, " | "), "tip_restored": fmt.Sprint(tipF == tipT)})
		return
	}
	// every side block is valid
	e.dead = true // the Lean oracle cannot follow a re-organisation: this episode ends here
	if lastHash != nil && tipF == hex.EncodeToString(lastHash.Hash[:]) && hF == hT+1 {
		if gd := refS.dump(); !sameLines(dumpF, gd) {
			r.PropFail("reorg-utxo-after-connect", what("the valid branch was adopted, but the unspent set differs from sequential ConnectBlock over the branch: "+firstDiff(dumpF, gd)), doc())
		} else {
			r.Hit("reorg-valid-branch-adopted:" + sr.kind)
		}
	} else {
		if tipF != tipT || !sameLines(dumpT, dumpF) {
			r.PropFail("reorg-refused-state-changed", what(fmt.Sprintf("the valid branch was not adopted and the state is neither the old one nor the new one: tip %s/%d (was %s/%d) %s", tipF, hF, tipT, hT, firstDiff(dumpT, dumpF))), doc())
		} else {
			r.TieFail("reorg-valid-not-adopted:"+sr.kind, what("valid per reference and with more work, but the node stayed on its old tip"), doc())
		}
	}
	r.Sample(map[string]string{"kind": "side-branch:" + sr.kind, "reference": refLog, "real": strings.Join(realLog, " | "), "adopted": fmt.Sprint(tipF != tipT)})
}

// sideScenario builds the transaction under test on the current state and plays the scenario.
func (e *episode) sideScenario(k sideKind, violate bool, depth, pos int) {
	if e.dead {
		return
	}
	r := e.r
	hmin := e.height() // height of B1' = the lowest height the transaction can be mined at
	tx, spent := k.mk(e, hmin, violate)
	if tx == nil {
		r.Hit("reorg-no-material:" + k.name)
		return
	}
	// generator self-check (not a judge): is the verdict really decided by the one height-gated flag?
	full := e.k.Ch.GetBlockFlags(hmin+uint32(pos), e.k.Ch.LastBlock().Timestamp()+600)
	okFull := verify(tx, 0, []*btc.TxOut{spent}, full)
	okWithout := verify(tx, 0, []*btc.TxOut{spent}, full&^k.bit)
	switch {
	case !violate && okFull:
		r.Hit("reorg-gen:valid-form-verifies:" + k.name)
	case violate && !okFull && okWithout && k.bit != 0 && full&k.bit != 0:
		r.Hit("reorg-gen:fails-only-by-gated-flag:" + k.name)
	case violate && okFull && k.bit != 0 && full&k.bit == 0:
		r.Hit("reorg-gen:rule-not-active-in-this-episode:" + k.name) // e.g. CSV switched off: the form is valid
	case violate && !okFull && !okWithout && k.bit == 0:
		r.Hit("reorg-gen:fails-under-any-flags:" + k.name)
	default:
		r.Hit(fmt.Sprintf("reorg-gen:unexpected(violate=%v,full=%v,without=%v):%s", violate, okFull, okWithout, k.name))
	}
	var fee uint64
	for _, o := range tx.TxOut {
		fee -= o.Value
	}
	fee += spent.Value
	// a second, ordinary transaction in the same block now and then
	var extra *btc.Tx
	if e.g.Chance(1, 3) {
		if c := e.pick(func(w *wcoin) bool { return w.Kind == "anyone" && e.unspentRef(w) }); c != nil {
			extra = e.simpleSpend(c, 0)
		}
	}
	emptyMain := e.g.Bool()
	sr := sideRun{kind: k.name, depth: depth}
	sr.mkMain = func(i int) []byte {
		if emptyMain {
			return e.k.Build(chainkit.BlockSpec{})
		}
		return kValid(e)
	}
	sr.mkSide = func(i int, parent *chain.BlockTreeNode) []byte {
		spec := chainkit.BlockSpec{Parent: parent}
		if i == pos {
			spec.Txs, spec.Fees = []*btc.Tx{tx}, fee
			if extra != nil {
				if e.g.Bool() {
					spec.Txs = []*btc.Tx{extra, tx}
				} else {
					spec.Txs = []*btc.Tx{tx, extra}
				}
			}
		}
		return e.k.Build(spec)
	}
	e.runSide(sr)
}

func runReorgEpisodes(r *Run, o *vlib.Oracle) {
	ks := sideKinds()
	nEp := r.N(2*len(ks), 12*len(ks))
	for ep := 0; ep < nEp; ep++ {
		g := r.Rng.Fork()
		opts := epOpts{NoCSV: ep >= len(ks) && ep%5 == 4}
		e := newEpisode(r, o, g, opts)
		e.grow(101 + g.Intn(6))
		e.fund()
		e.fundSpecial()
		e.grow(1 + g.Intn(2))
		// violating forms first (a refused branch leaves the episode usable), kind number `ep` leading so that
		// every kind opens an episode; then one valid form, which ends the episode on the side branch
		for i := 0; i < len(ks) && !e.dead; i++ {
			k := ks[(ep+i)%len(ks)]
			depth, pos := 1, 0
			if ep >= len(ks) || i > 0 {
				depth = 1 + g.Intn(2)
				pos = g.Intn(depth + 1)
			}
			e.sideScenario(k, true, depth, pos)
			if g.Chance(1, 4) && !e.dead {
				e.grow(1)
			}
		}
		if !e.dead {
			depth := 1 + g.Intn(2)
			e.sideScenario(ks[ep%len(ks)], false, depth, g.Intn(depth+1))
		}
		r.Hit(fmt.Sprintf("reorg-episodes(csv=%v)", !opts.NoCSV))
		e.close()
	}
}

// replaySide re-runs a stored scenario on an episode whose history has been applied.
func (e *episode) replaySide(w replayDoc) {
	mainRaw, sideRaw := [][]byte{}, [][]byte{}
	for _, h := range w.MainBranch {
		b, _ := hex.DecodeString(h)
		mainRaw = append(mainRaw, b)
	}
	for _, h := range w.SideBranch {
		b, _ := hex.DecodeString(h)
		sideRaw = append(sideRaw, b)
	}
	sr := sideRun{kind: strings.TrimPrefix(w.Kind, "side-branch:"), depth: len(mainRaw)}
	sr.mkMain = func(i int) []byte { return mainRaw[i] }
	sr.mkSide = func(i int, parent *chain.BlockTreeNode) []byte {
		if i < len(sideRaw) {
			return sideRaw[i]
		}
		return nil
	}
	e.runSide(sr)
}

var _ = bytes.Equal
