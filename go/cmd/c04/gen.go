// gen.go — chain-state and candidate-block generators (corpus of one-rule violations first, then random mixes)
// and the direct differential streams for GetBlockReward and the sigop counters.
package main

import (
	"bytes"
	"crypto/sha256"
	"fmt"
	"strings"

	"github.com/piotrnar/gocoin/lib/btc"
	"verif/chainkit"
	"verif/vlib"
)

var anyone = chainkit.AnyoneScript

func pushData(b []byte) []byte {
	switch {
	case len(b) < 76:
		return append([]byte{byte(len(b))}, b...)
	case len(b) < 256:
		return append([]byte{0x4c, byte(len(b))}, b...)
	}
	return append([]byte{0x4d, byte(len(b)), byte(len(b) >> 8)}, b...)
}

// redeem / witness scripts that evaluate to true and carry sigops in a branch that is never executed
func sigCarrier(g *vlib.Rng) []byte {
	s := []byte{0x00, 0x63}
	if g.Bool() {
		n := 1 + g.Intn(40)
		for i := 0; i < n; i++ {
			s = append(s, 0xac+byte(g.Intn(2)))
		}
	} else {
		s = append(s, 0x51+byte(g.Intn(16)), 0xae)
		if g.Bool() {
			s = append(s, 0xaf) // no OP_n before it: 20
		}
	}
	return append(s, 0x68, 0x51)
}

func p2shOf(redeem []byte) []byte {
	return append(append([]byte{0xa9, 20}, chainkit.Hash160(redeem)...), 0x87)
}

func p2wshOf(ws []byte) []byte {
	h := sha256.Sum256(ws)
	return append([]byte{0x00, 32}, h[:]...)
}

func (e *episode) buildTx(ver uint32, ins []*wcoin, seqs []uint32, outs []chainkit.OutSpec, lock uint32) *btc.Tx {
	cs := make([]*chainkit.Coin, len(ins))
	for i, w := range ins {
		cs[i] = w.Coin
	}
	tx := chainkit.BuildTx(ver, cs, seqs, outs, lock)
	changed := false
	for i, w := range ins {
		switch w.mine {
		case "p2sh-raw":
			tx.TxIn[i].ScriptSig = pushData(w.redeem)
			changed = true
		case "p2wsh-raw":
			if tx.SegWit == nil {
				tx.SegWit = make([][][]byte, len(ins))
				for k := range tx.SegWit {
					tx.SegWit[k] = [][]byte{}
				}
			}
			tx.SegWit[i] = [][]byte{w.redeem}
			changed = true
		case "p2wsh-any": // realpool.go: OP_DROP OP_1 — any one item satisfies it
			if tx.SegWit == nil {
				tx.SegWit = make([][][]byte, len(ins))
				for k := range tx.SegWit {
					tx.SegWit[k] = [][]byte{}
				}
			}
			tx.SegWit[i] = [][]byte{{0x07}, w.redeem}
			changed = true
		}
	}
	if changed {
		chainkit.Finish(tx)
	}
	return tx
}

// outCoins lists the coins a (not yet mined) transaction creates, as wallet coins.
func (e *episode) outCoins(tx *btc.Tx, height uint32) []*wcoin {
	var res []*wcoin
	for _, cn := range chainkit.OutCoins(tx, e.keys, height, false) {
		w := &wcoin{Coin: cn}
		if t, ok := e.redeems[string(cn.Script)]; ok {
			w.redeem, w.mine = t.redeem, t.mine
		} else if cn.Kind == "raw" {
			continue
		}
		res = append(res, w)
	}
	return res
}

func (e *episode) height() uint32 { return e.k.Ch.LastBlock().Height + 1 }

func (e *episode) mature(w *wcoin) bool { return !w.Coinbase || e.height()-w.Height >= 100 }

// take removes and returns a mature wallet coin accepted by pred (nil if none).
func (e *episode) pick(pred func(*wcoin) bool) *wcoin {
	var idx []int
	for i, w := range e.wallet {
		if e.mature(w) && (pred == nil || pred(w)) {
			idx = append(idx, i)
		}
	}
	if len(idx) == 0 {
		return nil
	}
	return e.wallet[idx[e.g.Intn(len(idx))]]
}

func isKind(k string) func(*wcoin) bool {
	return func(w *wcoin) bool {
		if w.mine != "" {
			return w.mine == k
		}
		return w.Kind == k
	}
}

func notIn(used map[btc.TxPrevOut]bool, p func(*wcoin) bool) func(*wcoin) bool {
	return func(w *wcoin) bool { return !used[w.Out] && (p == nil || p(w)) }
}

func (e *episode) randOutScript() []byte {
	g := e.g
	n := 10
	if e.opts.NoSegWit {
		n = 4
	}
	switch g.Intn(n) {
	case 0, 1:
		return e.key.P2PKH()
	case 2:
		rd := sigCarrier(g)
		s := p2shOf(rd)
		e.redeems[string(s)] = &wcoin{redeem: rd, mine: "p2sh-raw"}
		return s
	case 3:
		return anyone
	case 4, 5:
		return e.key.P2WPKH()
	case 6:
		return e.key.P2SH_P2WPKH()
	case 7:
		ws := sigCarrier(g)
		s := p2wshOf(ws)
		e.redeems[string(s)] = &wcoin{redeem: ws, mine: "p2wsh-raw"}
		return s
	}
	return anyone
}

// spread splits value into n outputs with random scripts.
func (e *episode) spread(value uint64, n int) []chainkit.OutSpec {
	var outs []chainkit.OutSpec
	for i := 0; i < n; i++ {
		v := value / uint64(n-i)
		if i < n-1 && v > 2 {
			v = v/2 + uint64(e.g.U64()%(v/2))
		}
		value -= v
		outs = append(outs, chainkit.OutSpec{Value: v, Script: e.randOutScript()})
	}
	return outs
}

func sum(ins []*wcoin) (s uint64) {
	for _, w := range ins {
		s += w.Value
	}
	return
}

// grow adds n blocks without transactions (coinbase to OP_TRUE, or split over our scripts).
func (e *episode) grow(n int) {
	for i := 0; i < n && !e.dead; i++ {
		spec := chainkit.BlockSpec{}
		if e.g.Chance(1, 4) {
			rw := btc.GetBlockReward(e.height())
			spec.CoinbaseOuts = []chainkit.OutSpec{{Value: rw / 2, Script: anyone}, {Value: rw - rw/2, Script: e.key.P2PKH()}}
		}
		// full dump (real vs reference vs model vs spec) after every block (thorough) / every 2nd and the last (quick)
		oc := e.judge("grow", e.k.Build(spec), i == n-1 || i%e.r.N(2, 1) == 0)
		if oc == nil || !oc.accepted {
			e.dead = true
		}
	}
}

// fund creates coins of every kind from mature coinbases.
func (e *episode) fund() {
	for round := 0; round < 2 && !e.dead; round++ {
		var txs []*btc.Tx
		var fees uint64
		used := map[btc.TxPrevOut]bool{}
		for t := 0; t < 2; t++ {
			c := e.pick(notIn(used, nil))
			if c == nil {
				break
			}
			used[c.Out] = true
			fee := uint64(e.g.Intn(100000))
			txs = append(txs, e.buildTx(1+uint32(e.g.Intn(2)), []*wcoin{c}, nil, e.spread(c.Value-fee, 8+e.g.Intn(6)), 0))
			fees += fee
		}
		oc := e.judge("fund", e.k.Build(chainkit.BlockSpec{Txs: txs, Fees: fees}), true)
		if oc == nil || !oc.accepted {
			e.dead = true
		}
	}
}

// ---- candidate kinds -------------------------------------------------------------------------------------

type kindFn func(e *episode) []byte // returns a raw candidate block or nil when the state offers no material

// validRandom: a block of 1..5 transactions with in-block chains, random fees, coinbase claiming ≤ reward + fees.
func kValid(e *episode) []byte {
	g := e.g
	h := e.height()
	used := map[btc.TxPrevOut]bool{}
	var txs []*btc.Tx
	var pool []*wcoin // outputs of earlier transactions of this block
	var fees uint64
	n := 1 + g.Intn(5)
	for t := 0; t < n; t++ {
		var ins []*wcoin
		for k := 1 + g.Intn(3); k > 0; k-- {
			if len(pool) > 0 && g.Chance(2, 5) {
				i := g.Intn(len(pool))
				ins = append(ins, pool[i])
				pool = append(pool[:i], pool[i+1:]...)
			} else if c := e.pick(notIn(used, nil)); c != nil {
				used[c.Out] = true
				ins = append(ins, c)
			}
		}
		if len(ins) == 0 {
			continue
		}
		tot := sum(ins)
		fee := uint64(g.Intn(50000))
		if fee > tot {
			fee = 0
		}
		if g.Chance(1, 8) {
			fee = 0
		}
		var seqs []uint32
		if g.Chance(1, 4) {
			for range ins {
				seqs = append(seqs, uint32(g.Pick(0xfffffffe, 0xffffffff, 0xfffffffd, 1<<31|1<<22|0xffff, 1<<31|500, 0))) // BIP68-disabled, final, or a zero lock
			}
		}
		tx := e.buildTx(1+uint32(g.Intn(2)), ins, seqs, e.spread(tot-fee, 1+g.Intn(4)), 0)
		txs = append(txs, tx)
		fees += fee
		pool = append(pool, e.outCoins(tx, h)...)
	}
	claim := btc.GetBlockReward(h) + fees
	if g.Chance(1, 3) {
		claim -= uint64(g.Intn(1000))
	}
	return e.k.Build(chainkit.BlockSpec{Txs: txs, CoinbaseOuts: []chainkit.OutSpec{{Value: claim, Script: anyone}}})
}

func (e *episode) simpleSpend(c *wcoin, fee uint64) *btc.Tx {
	return e.buildTx(1, []*wcoin{c}, nil, []chainkit.OutSpec{{Value: c.Value - fee, Script: anyone}}, 0)
}

func kMissingInput(e *episode) []byte {
	c := e.pick(isKind("anyone"))
	if c == nil {
		return nil
	}
	f := *c.Coin
	copy(f.Out.Hash[:], e.g.Bytes(32))
	return e.k.Build(chainkit.BlockSpec{Txs: []*btc.Tx{e.simpleSpend(&wcoin{Coin: &f}, 0)}})
}

func kMissingVout(e *episode) []byte {
	c := e.pick(isKind("anyone"))
	if c == nil {
		return nil
	}
	f := *c.Coin
	f.Out.Vout += 1 + uint32(e.g.Intn(3))*1000
	if _, ok := e.ref[f.Out]; ok {
		return nil
	}
	return e.k.Build(chainkit.BlockSpec{Txs: []*btc.Tx{e.simpleSpend(&wcoin{Coin: &f}, 0)}})
}

func kDoubleInBlock(e *episode) []byte {
	c := e.pick(nil)
	if c == nil {
		return nil
	}
	t1 := e.simpleSpend(c, 1000)
	t2 := e.buildTx(1, []*wcoin{c}, nil, []chainkit.OutSpec{{Value: c.Value - 2000, Script: e.key.P2PKH()}}, 0)
	txs := []*btc.Tx{t1, t2}
	if o := e.pick(notIn(map[btc.TxPrevOut]bool{c.Out: true}, nil)); o != nil && e.g.Bool() {
		txs = []*btc.Tx{t1, e.simpleSpend(o, 0), t2}
	}
	return e.k.Build(chainkit.BlockSpec{Txs: txs, Fees: 3000})
}

func kDoubleInTx(e *episode) []byte {
	c := e.pick(isKind("anyone"))
	if c == nil {
		return nil
	}
	tx := e.buildTx(1, []*wcoin{c, c}, nil, []chainkit.OutSpec{{Value: 2 * c.Value, Script: anyone}}, 0)
	return e.k.Build(chainkit.BlockSpec{Txs: []*btc.Tx{tx}})
}

func kDoubleCrossBlock(e *episode) []byte {
	if len(e.spent) == 0 {
		return nil
	}
	c := e.spent[e.g.Intn(len(e.spent))]
	return e.k.Build(chainkit.BlockSpec{Txs: []*btc.Tx{e.simpleSpend(c, 0)}})
}

// in-block spend in the right / the wrong order
func kChain(later bool) kindFn {
	return func(e *episode) []byte {
		c := e.pick(nil)
		if c == nil {
			return nil
		}
		t1 := e.simpleSpend(c, 500)
		cs := e.outCoins(t1, e.height())
		t2 := e.simpleSpend(cs[0], 500)
		txs := []*btc.Tx{t1, t2}
		if later {
			txs = []*btc.Tx{t2, t1}
		}
		return e.k.Build(chainkit.BlockSpec{Txs: txs, Fees: 1000})
	}
}

// an output created in this block, spent twice in this block
func kDoubleOfInBlockOutput(e *episode) []byte {
	c := e.pick(nil)
	if c == nil {
		return nil
	}
	t1 := e.simpleSpend(c, 0)
	cs := e.outCoins(t1, e.height())
	t2 := e.simpleSpend(cs[0], 0)
	t3 := e.buildTx(2, []*wcoin{cs[0]}, nil, []chainkit.OutSpec{{Value: cs[0].Value, Script: e.key.P2PKH()}}, 0)
	return e.k.Build(chainkit.BlockSpec{Txs: []*btc.Tx{t1, t2, t3}})
}

func kMaturity(depth uint32) kindFn {
	return func(e *episode) []byte {
		h := e.height()
		if h < depth {
			return nil
		}
		c := e.cbs[h-depth]
		if c == nil {
			return nil
		}
		if _, ok := e.ref[c.Out]; !ok {
			return nil
		}
		return e.k.Build(chainkit.BlockSpec{Txs: []*btc.Tx{e.simpleSpend(c, 0)}})
	}
}

func kOwnCoinbase(e *episode) []byte {
	h := e.height()
	spec := chainkit.BlockSpec{CoinbaseExtra: []byte{4, 1, 2, 3, byte(e.g.Intn(256))}, CoinbaseOuts: []chainkit.OutSpec{{Value: btc.GetBlockReward(h), Script: anyone}}}
	probe, err := btc.NewBlock(e.k.Build(spec))
	if err != nil || probe.BuildTxList() != nil {
		return nil
	}
	cb := chainkit.OutCoins(probe.Txs[0], e.keys, h, true)[0]
	spec.Txs = []*btc.Tx{e.simpleSpend(&wcoin{Coin: cb}, 0)}
	return e.k.Build(spec)
}

// amounts: values are the outputs; the input is one ordinary coin
func kAmounts(name string) kindFn {
	return func(e *episode) []byte {
		c := e.pick(isKind("anyone"))
		if c == nil {
			return nil
		}
		x := uint64(e.g.Intn(int(c.Value%1000000) + 1))
		var vals []uint64
		fees := uint64(0)
		switch name {
		case "max+1":
			vals = []uint64{maxMoney + 1}
		case "2^63":
			vals = []uint64{1 << 63}
		case "wrap2":
			vals = []uint64{1 << 63, 1<<63 + x}
			fees = c.Value - x
		case "wrap3":
			vals = []uint64{1 << 63, 1 << 62, 1<<62 + x}
			fees = c.Value - x
		case "wrap-many": // 8785 outputs, each within MAX_MONEY, total = 2^64 + x
			for i := 0; i < 8784; i++ {
				vals = append(vals, maxMoney)
			}
			vals = append(vals, 344073709551616+x) // 2^64 - 8784*MAX_MONEY + x
			fees = c.Value - x
		case "total-over": // each in range, total out of range (and above the input)
			vals = []uint64{maxMoney, 1}
		case "fee-1": // outputs exceed the input by one satoshi
			vals = []uint64{c.Value / 2, c.Value - c.Value/2 + 1}
		case "fee0":
			vals = []uint64{c.Value / 2, c.Value - c.Value/2}
		case "2^64-1":
			vals = []uint64{^uint64(0)}
		}
		var outs []chainkit.OutSpec
		for _, v := range vals {
			outs = append(outs, chainkit.OutSpec{Value: v, Script: anyone})
		}
		tx := e.buildTx(1, []*wcoin{c}, nil, outs, 0)
		return e.k.Build(chainkit.BlockSpec{Txs: []*btc.Tx{tx}, Fees: fees})
	}
}

func kCoinbaseClaim(delta int64, wrap bool) kindFn {
	return func(e *episode) []byte {
		h := e.height()
		var txs []*btc.Tx
		var fees uint64
		if c := e.pick(nil); c != nil && e.g.Bool() {
			fees = uint64(e.g.Intn(100000))
			txs = append(txs, e.simpleSpend(c, fees))
		}
		claim := uint64(int64(btc.GetBlockReward(h)+fees) + delta)
		outs := []chainkit.OutSpec{{Value: claim / 3, Script: anyone}, {Value: claim - claim/3, Script: e.key.P2PKH()}}
		if wrap {
			outs = []chainkit.OutSpec{{Value: 1 << 63, Script: anyone}, {Value: 1<<63 + claim, Script: anyone}}
		}
		return e.k.Build(chainkit.BlockSpec{Txs: txs, CoinbaseOuts: outs})
	}
}

func kScriptFail(e *episode) []byte {
	c := e.pick(func(w *wcoin) bool { return w.mine == "" && (w.Kind == "p2pkh" || w.Kind == "p2wpkh") })
	if c == nil {
		return nil
	}
	tx := e.simpleSpend(c, 0)
	if c.Kind == "p2pkh" {
		tx.TxIn[0].ScriptSig[10] ^= 0x01
	} else {
		tx.SegWit[0][0][10] ^= 0x01
	}
	chainkit.Finish(tx)
	return e.k.Build(chainkit.BlockSpec{Txs: []*btc.Tx{tx}})
}

func kNonFinal(e *episode) []byte {
	c := e.pick(isKind("anyone"))
	if c == nil {
		return nil
	}
	lock := e.height() + uint32(e.g.Intn(3)) // == height or above: not final unless sequences are final
	if e.g.Bool() {
		lock = e.k.Ch.LastBlock().Timestamp() + 5000
	}
	tx := e.buildTx(1, []*wcoin{c}, []uint32{0xfffffffe}, []chainkit.OutSpec{{Value: c.Value, Script: anyone}}, lock)
	return e.k.Build(chainkit.BlockSpec{Txs: []*btc.Tx{tx}})
}

func kFinalLock(e *episode) []byte {
	c := e.pick(isKind("anyone"))
	if c == nil {
		return nil
	}
	tx := e.buildTx(1, []*wcoin{c}, []uint32{0xfffffffe}, []chainkit.OutSpec{{Value: c.Value, Script: anyone}}, e.height()-1)
	return e.k.Build(chainkit.BlockSpec{Txs: []*btc.Tx{tx}})
}

// an input whose txid shares exactly the first 8 bytes with a real coin's txid
func kPrefix(double bool) kindFn {
	return func(e *episode) []byte {
		c := e.pick(isKind("anyone"))
		if c == nil {
			return nil
		}
		f := *c.Coin
		copy(f.Out.Hash[8:], e.g.Bytes(24))
		if f.Out.Hash == c.Out.Hash {
			return nil
		}
		t2 := e.buildTx(1, []*wcoin{{Coin: &f}}, nil, []chainkit.OutSpec{{Value: c.Value, Script: e.key.P2PKH()}}, 0)
		if !double {
			return e.k.Build(chainkit.BlockSpec{Txs: []*btc.Tx{t2}})
		}
		return e.k.Build(chainkit.BlockSpec{Txs: []*btc.Tx{e.simpleSpend(c, 0), t2}})
	}
}

// BIP68. variant: "height-ok" "height-bad" "time-ok" "time-bad" "disabled" "version1"
func kSeqLock(variant string) kindFn {
	return func(e *episode) []byte {
		c := e.pick(func(w *wcoin) bool { return w.Kind == "anyone" && !w.Coinbase })
		if c == nil {
			return nil
		}
		rc := e.ref[c.Out]
		if rc == nil {
			return nil
		}
		h := e.height()
		mtp := e.k.Ch.LastBlock().GetMedianTimePast()
		ver := uint32(2)
		var seq uint32
		switch variant {
		case "height-ok":
			seq = h - rc.height
		case "height-bad":
			seq = h - rc.height + 1 + uint32(e.g.Intn(3))
		case "time-ok":
			seq = 1<<22 | (mtp-rc.mtpPrev)/512
		case "time-bad":
			seq = 1<<22 | ((mtp-rc.mtpPrev)/512 + 1)
		case "disabled":
			seq = 1<<31 | 1<<22 | 0xffff
		case "version1":
			ver, seq = 1, 0xffff
		}
		if seq&0xffff0000&^(1<<22|1<<31) != 0 || (seq&0xffff) > 0xffff {
			return nil
		}
		tx := e.buildTx(ver, []*wcoin{c}, []uint32{seq}, []chainkit.OutSpec{{Value: c.Value, Script: anyone}}, 0)
		return e.k.Build(chainkit.BlockSpec{Txs: []*btc.Tx{tx}})
	}
}

var lastRefSigops int

// sigop cost exactly `target` (by the consensus definition), mixing legacy, P2SH and witness sigops.
// hide > 0 puts that many CHECKSIGs of the carrier AFTER an OP_RETURN.
func kSigops(target int, hide bool) kindFn {
	return func(e *episode) []byte {
		for w := 0; w < 4; w++ {
			used := map[btc.TxPrevOut]bool{}
			var ins []*wcoin
			add := func(p func(*wcoin) bool) bool {
				c := e.pick(notIn(used, p))
				if c == nil {
					return false
				}
				used[c.Out] = true
				ins = append(ins, c)
				return true
			}
			if !add(isKind("anyone")) {
				return nil
			}
			add(isKind("p2sh-raw"))
			add(isKind("p2wsh-raw"))
			add(isKind("p2sh-p2wpkh"))
			okw := true
			for i := 0; i < w; i++ {
				okw = okw && add(isKind("p2wpkh"))
			}
			if !okw {
				continue
			}
			build := func(carrier []byte) []byte {
				outs := []chainkit.OutSpec{{Value: sum(ins), Script: anyone}, {Value: 0, Script: carrier}}
				return e.k.Build(chainkit.BlockSpec{Txs: []*btc.Tx{e.buildTx(1, ins, nil, outs, 0)}})
			}
			c0 := e.parse(build([]byte{0x51}))
			if c0 == nil {
				return nil
			}
			if er, _, _ := refConnect(e.ref, c0, ""); er != "" {
				return nil
			}
			rest := target - lastRefSigops
			if rest < 0 || rest%4 != 0 {
				continue
			}
			carrier := []byte{}
			n := rest / 4
			if hide {
				// 20 of the sigops sit behind an OP_RETURN: consensus cost = target, gocoin counts target-80
				if n < 21 {
					return nil
				}
				carrier = bytes.Repeat([]byte{0xac}, n-20)
				carrier = append(carrier, 0x6a, 0xae)
			} else {
				carrier = bytes.Repeat([]byte{0xac}, n)
			}
			if len(carrier) == 0 {
				carrier = []byte{0x51}
			}
			return build(carrier)
		}
		return nil
	}
}

type kindEntry struct {
	name     string
	fn       kindFn
	weight   int
	terminal bool // may be accepted although invalid (known finding): ends the episode
}

// kManyParents: a block whose inputs come from exactly n DISTINCT confirmed transactions, each of them fully spent by it
// (UnspentDB.commit hands the deleted records to its workers in chunks of OPS_AT_ONCE = 32: n = 32·k is the chunk boundary).
// The n one-output parents are confirmed by a preparatory block first.
func kManyParents(n int) kindFn {
	return func(e *episode) []byte {
		used := map[btc.TxPrevOut]bool{}
		var prep []*btc.Tx
		var coins []*wcoin
		h := e.height()
		for tries := 0; len(coins) < n && tries < 3*n; tries++ {
			c := e.pick(notIn(used, nil))
			if c == nil {
				return nil
			}
			used[c.Out] = true
			tx := e.buildTx(1, []*wcoin{c}, nil, e.spread(c.Value, 1), 0)
			oc := e.outCoins(tx, h)
			if len(oc) != 1 {
				continue
			}
			prep = append(prep, tx)
			coins = append(coins, oc[0])
		}
		if len(coins) != n {
			return nil
		}
		if oc := e.judge("fund", e.k.Build(chainkit.BlockSpec{Txs: prep}), true); oc == nil || !oc.accepted {
			e.dead = true
			return nil
		}
		var txs []*btc.Tx
		for _, c := range coins {
			txs = append(txs, e.buildTx(1, []*wcoin{c}, nil, e.spread(c.Value, 1), 0))
		}
		return e.k.Build(chainkit.BlockSpec{Txs: txs})
	}
}

func kinds() []kindEntry {
	return []kindEntry{
		{"valid-random", kValid, 30, false},
		{"spend-from-32-txs", kManyParents(32), 2, false},
		{"spend-from-33-txs", kManyParents(33), 1, false},
		{"missing-input", kMissingInput, 2, false},
		{"missing-vout", kMissingVout, 2, false},
		{"double-spend-in-block", kDoubleInBlock, 3, false},
		{"double-spend-in-tx", kDoubleInTx, 2, false},
		{"double-spend-cross-block", kDoubleCrossBlock, 3, false},
		{"double-spend-of-inblock-output", kDoubleOfInBlockOutput, 2, false},
		{"chain-in-order", kChain(false), 2, false},
		{"spend-later-output", kChain(true), 3, false},
		{"coinbase-depth-99", kMaturity(99), 3, false},
		{"coinbase-depth-100", kMaturity(100), 3, false},
		{"coinbase-depth-1", kMaturity(1), 1, false},
		{"own-coinbase", kOwnCoinbase, 2, false},
		{"amount-max+1", kAmounts("max+1"), 1, false},
		{"amount-2^63", kAmounts("2^63"), 1, false},
		{"amount-2^64-1", kAmounts("2^64-1"), 1, false},
		{"amount-wrap2", kAmounts("wrap2"), 2, false},
		{"amount-wrap3", kAmounts("wrap3"), 2, false},
		{"amount-total-over", kAmounts("total-over"), 1, false},
		{"amount-wrap-many", kAmounts("wrap-many"), 1, false},
		{"fee-underflow-1", kAmounts("fee-1"), 3, false},
		{"fee-zero", kAmounts("fee0"), 1, false},
		{"coinbase-claim+1", kCoinbaseClaim(1, false), 3, false},
		{"coinbase-claim-exact", kCoinbaseClaim(0, false), 2, false},
		{"coinbase-claim-less", kCoinbaseClaim(-1, false), 1, false},
		{"coinbase-claim-wrap", kCoinbaseClaim(0, true), 2, false},
		{"script-fail", kScriptFail, 3, false},
		{"non-final", kNonFinal, 2, false},
		{"final-locktime", kFinalLock, 1, false},
		{"prefix8-missing", kPrefix(false), 3, false},
		{"prefix8-double-spend", kPrefix(true), 3, false},
		{"seqlock-height-ok", kSeqLock("height-ok"), 2, false},
		{"seqlock-time-ok", kSeqLock("time-ok"), 2, false},
		{"seqlock-disabled", kSeqLock("disabled"), 1, false},
		{"seqlock-version1", kSeqLock("version1"), 1, false},
		{"sigops-79996", kSigops(79996, false), 1, false},
		{"sigops-80000", kSigops(80000, false), 3, false},
		{"sigops-80001", kSigops(80001, false), 2, false},
		{"sigops-80002", kSigops(80002, false), 1, false},
		{"sigops-80003", kSigops(80003, false), 1, false},
		{"sigops-80004", kSigops(80004, false), 2, false},
		{"sigops-hidden-80000", kSigops(80000, true), 1, false},
		// known findings (terminal)
		{"seqlock-height-bad", kSeqLock("height-bad"), 2, true},
		{"seqlock-time-bad", kSeqLock("time-bad"), 2, true},
		{"sigops-hidden-80004", kSigops(80004, true), 2, true},
	}
}

func episodeOpts(ep int) epOpts {
	// every third episode runs with chain.TrustedTxChecker installed (pool.go), the second corpus episode included,
	// and every fourth one with compressed UTXO records (compr.go), the third corpus episode included
	o := epOpts{NoCSV: ep%6 == 4, NoSegWit: ep%7 == 5, Pool: ep%3 == 1, Compress: ep%4 == 2}
	// fourth round: the road of the block object (entry.go), the record allocator (alloc.go), the real pool (realpool.go)
	switch {
	case ep%4 == 3:
		o.Entry = "cache"
	case ep%8 == 1:
		o.Entry = "net"
	}
	switch {
	case ep%4 == 0:
		o.Alloc = "poison" // the first corpus episode included
	case ep%12 == 6:
		o.Alloc = "client"
	}
	if ep%6 == 3 {
		o.RealPool, o.Pool, o.NoSegWit = true, false, false
	}
	return o
}

// inChild: episodes in which a failure of the real code can take the process down (child.go)
func inChild(o epOpts) bool { return o.Compress || o.Alloc == "client" }

func runEpisodes(r *Run, o *vlib.Oracle) {
	nEp := r.N(12, 200)
	for ep := 0; ep < nEp; ep++ {
		g := r.Rng.Fork()
		if inChild(episodeOpts(ep)) {
			// compressed records + wide transactions / the client's allocator: a failure may kill the process → child.go
			runChild(r, childSpec{Mode: "episode", Ep: ep, Sub: g.U64()})
			continue
		}
		runEpisode(r, o, ep, g)
	}
}

func runEpisode(r *Run, o *vlib.Oracle, ep int, g *vlib.Rng) {
	ks := append(append(append(kinds(), moreKinds()...), extraKinds()...), append(poolKinds(), comprKinds()...)...) // multi.go, extra.go, pool.go, compr.go
	totalW := 0
	for _, k := range ks {
		totalW += k.weight
	}
	steps := r.N(45, 70)
	if opts := episodeOpts(ep); opts.RealPool {
		runRealPoolEpisode(r, o, ep, g, opts) // realpool.go
		return
	}
	{
		opts := episodeOpts(ep)
		e := newEpisode(r, o, g, opts)
		e.grow(101 + g.Intn(8))
		e.fund()
		e.grow(1 + g.Intn(3))
		if opts.Compress {
			e.widePhase(r.N(5, 8)) // wide transactions spending outputs of wide transactions: long, simultaneous serializations
		}
		var terminals []kindEntry
		run := func(k kindEntry) {
			if e.dead {
				return
			}
			raw := k.fn(e)
			if raw == nil {
				r.Hit("no-material:" + k.name)
				return
			}
			e.judge(k.name, raw, true)
		}
		if ep < 3 {
			// corpus: every kind once, in order, on three different configurations (plain / pool hook / compressed records)
			for _, k := range ks {
				if k.terminal {
					terminals = append(terminals, k)
					continue
				}
				run(k)
				if strings.HasPrefix(k.name, "valid") || g.Chance(1, 6) {
					run(ks[0])
				}
			}
			e.badInputSweep(ep) // multi.go: k = 2..8 inputs × bad signature / key / script at every kind of position
			e.poolSweep()       // pool.go: a failing script at every position among 2..4 transactions × which of the others the pool knows
			if len(terminals) > 0 {
				run(terminals[ep%len(terminals)])
			}
		} else {
			for s := 0; s < steps && !e.dead; s++ {
				x := g.Intn(totalW)
				var k kindEntry
				for _, k = range ks {
					if x < k.weight {
						break
					}
					x -= k.weight
				}
				if k.terminal && s < steps/2 {
					k = ks[0]
				}
				run(k)
				if g.Chance(1, 10) {
					e.grow(1)
				}
			}
		}
		r.Hit(fmt.Sprintf("episodes(csv=%v,segwit=%v,pool=%v,compress=%v)", !opts.NoCSV, !opts.NoSegWit, opts.Pool, opts.Compress))
		r.Hit(fmt.Sprintf("episodes(entry=%q,alloc=%q)", opts.Entry, opts.Alloc))
		e.close()
	}
}

// ---- direct streams ----------------------------------------------------------------------------------------

func randScript(g *vlib.Rng) []byte {
	var s []byte
	n := g.Intn(12)
	for i := 0; i < n; i++ {
		switch g.Intn(12) {
		case 0, 1:
			d := g.Bytes(g.Intn(40))
			s = append(s, pushData(d)...)
		case 2:
			s = append(s, 0x4c+byte(g.Intn(3)))
			s = append(s, g.Bytes(g.Intn(6))...) // often truncated / inconsistent length
		case 3:
			s = append(s, 0x51+byte(g.Intn(16)))
		case 4, 5:
			s = append(s, 0xac+byte(g.Intn(4)))
		case 6:
			s = append(s, 0x6a)
		case 7:
			s = append(s, 0x00)
		case 8:
			s = append(s, 0x51+byte(g.Intn(16)), 0xae+byte(g.Intn(2)))
		case 9:
			s = append(s, 0x4e, byte(g.Intn(3)), 0, 0, byte(g.Intn(2))*0x80)
		default:
			s = append(s, byte(g.U64()))
		}
	}
	return s
}

func directStreams(r *Run, o *vlib.Oracle) {
	g := r.Rng.Fork()
	// GetBlockReward at and around every halving boundary, and far beyond
	hs := []uint32{0, 1, 0xffffffff, 0xfffffffe, 64 * 210000, 64*210000 - 1, 64*210000 + 1, 13439999, 13440000}
	for k := uint32(0); k < 70; k++ {
		hs = append(hs, k*210000, k*210000+209999, k*210000+1)
	}
	for i := 0; i < r.N(300, 3000); i++ {
		hs = append(hs, uint32(g.U64()))
	}
	for _, h := range hs {
		rep := o.MustAsk(fmt.Sprintf("reward %d", h))
		real := btc.GetBlockReward(h)
		want := fmt.Sprintf("%d %d", real, refSubsidy(h))
		r.Eval("reward", fmt.Sprint("reward", h))
		if real != refSubsidy(h) {
			r.PropFail("subsidy", fmt.Sprintf("GetBlockReward(%d)=%d, subsidy schedule says %d", h, real, refSubsidy(h)), map[string]interface{}{"height": h})
		} else if rep != want {
			r.TieFail("reward-model", fmt.Sprintf("height %d: model/spec %q, real+reference %q", h, rep, want), map[string]interface{}{"height": h})
		} else {
			r.TieOK()
		}
	}
	// sigop counters on generated scripts
	corpus := [][]byte{{}, {0x6a}, {0xac}, {0x6a, 0xac}, {0xac, 0x6a, 0xac}, {0x51, 0xae}, {0x60, 0xae}, {0x00, 0xae}, {0x61, 0xae}, {0x4c}, {0x4d, 1}, {0x4e, 1, 0, 0},
		{0x4e, 0, 0, 0, 0x80, 0xac}, {0x4b}, {0x01}, {0x01, 0xac}, {0x01, 0xac, 0xac}, {0x4c, 0x01, 0xac, 0xae}, {0xaf}, {0xad}, {0x50, 0xae}}
	n := r.N(4000, 60000)
	for i := 0; i < n; i++ {
		var s []byte
		if i < len(corpus) {
			s = corpus[i]
		} else {
			s = randScript(g)
		}
		for _, acc := range []bool{false, true} {
			rep := o.MustAsk(fmt.Sprintf("sigops %s %s", vlib.Hex(s), b2i(acc)))
			want := fmt.Sprintf("%d %d", btc.GetSigOpCount(s, acc), refSigOps(s, acc, false))
			r.Eval("sigops", "s"+string(s)+b2i(acc))
			if rep != want {
				r.TieFail("sigops-model", fmt.Sprintf("script %x accurate=%v: model/spec %q, real/reference %q", s, acc, rep, want), map[string]interface{}{"script": vlib.Hex(s)})
			} else {
				r.TieOK()
			}
		}
		rep := o.MustAsk("p2shsig " + vlib.Hex(s))
		if want := fmt.Sprint(btc.GetP2SHSigOpCount(s)); rep != want {
			r.TieFail("p2shsig-model", fmt.Sprintf("scriptSig %x: model %q real %q", s, rep, want), map[string]interface{}{"script": vlib.Hex(s)})
		} else {
			r.TieOK()
		}
		// CountWitnessSigOps: scriptSig s (or a push of a witness program), pk of several shapes
		var pk, ss []byte
		var wit [][]byte
		switch g.Intn(6) {
		case 0:
			pk, ss = append([]byte{0, 20}, g.Bytes(20)...), nil
		case 1:
			pk, ss = append([]byte{0, 32}, g.Bytes(32)...), nil
			wit = [][]byte{g.Bytes(3), s}
		case 2:
			prog := append([]byte{byte(g.Pick(0, 0, 0x51, 0x60, 0x4f)), 32}, g.Bytes(32)...)
			pk, ss = p2shOf(prog), pushData(prog)
			wit = [][]byte{s}
		case 3:
			pk, ss = p2shOf(s), s
			wit = [][]byte{s}
		case 4:
			pk, ss = append([]byte{byte(0x51 + g.Intn(16)), byte(2 + g.Intn(39))}, g.Bytes(40)...), s
			pk = pk[:2+int(pk[1])]
			wit = [][]byte{s}
		default:
			pk, ss = s, randScript(g)
			wit = [][]byte{randScript(g)}
		}
		tx := &btc.Tx{TxIn: []*btc.TxIn{{ScriptSig: ss}}}
		if wit != nil {
			tx.SegWit = [][][]byte{wit}
		}
		line := fmt.Sprintf("witsig %s %s %d", vlib.Hex(ss), vlib.Hex(pk), len(wit))
		for _, w := range wit {
			line += " " + vlib.Hex(w)
		}
		rep = o.MustAsk(line)
		r.Eval("witsig", "w"+line)
		real := tx.CountWitnessSigOps(0, pk)
		c := &cand{wit: true}
		refv := refInputSigOpCost(c, tx, 0, pk, true) // stop=true reproduces gocoin's counter
		if rep != fmt.Sprint(real) {
			r.TieFail("witsig-model", fmt.Sprintf("%s: model %q real %d", line, rep, real), map[string]interface{}{"line": line})
		} else if int(real) != refv {
			r.TieFail("witsig-reference", fmt.Sprintf("%s: real %d reference(with OP_RETURN stop) %d", line, real, refv), map[string]interface{}{"line": line})
		} else {
			r.TieOK()
		}
	}
}
