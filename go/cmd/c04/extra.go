// extra.go — additions made after the independent audit of C04:
//
//	(a) realErrKind: the real error message of a refused block mapped to the constructor of Model.Connect.Err that stands
//	    for the same statement of the Go code, so that judge() compares the REASON of a refusal and not only the verdict;
//	(b) candidate kinds for the error branches that no generator reached: "tx VOut too big" (an input names an output
//	    index beyond the record of a txid already spent from in this block), "vout too big" (beyond the outputs of an
//	    earlier transaction of the block), coinbase script of 100 / 101 bytes, transactions without outputs, with a
//	    null prevout, a second coinbase, no coinbase, and — on sets that hold coins of out-of-supply values, filed
//	    directly with UnspentDB.CommitBlockTxs / the model's dbAdd — "input values out of range" and "accumulated fee
//	    out of range" with their accepted boundary siblings;
//	(c) chkTxStream: Tx.CheckTransaction and Tx.IsFinal on generated btc.Tx objects (incl. the shapes a serialised block
//	    cannot carry: no inputs, NoWitSize*4 wrapping uint32) against the oracle ops `chktx` / `final`.
package main

import (
	"bytes"
	"encoding/binary"
	"encoding/hex"
	"fmt"
	"strings"

	"github.com/piotrnar/gocoin/lib/btc"
	"github.com/piotrnar/gocoin/lib/utxo"
	"verif/chainkit"
	"verif/vlib"
)

// ---- (a) error classes --------------------------------------------------------------------------------------------------

var realKinds = []struct{ sub, kind string }{
	{"RPC_Result:bad-cb-missing", "cbMissing"},
	{"RPC_Result:bad-cb-multiple", "cbMultiple"},
	{"RPC_Result:bad-txns-vin-empty", "vinEmpty"},
	{"RPC_Result:bad-txns-vout-empty", "voutEmpty"},
	{"RPC_Result:bad-txns-oversize", "oversize"},
	{"RPC_Result:bad-txns-vout-toolarge", "voutTooLarge"},
	{"RPC_Result:bad-txns-txouttotal-toolarge", "txoutTotal"},
	{"RPC_Result:bad-cb-length", "cbLength"},
	{"RPC_Result:bad-txns-prevout-null", "prevoutNull"},
	{"RPC_Result:bad-txns-nonfinal", "nonFinal"},
	{"accept: Coinbase script has a wrong length", "cbScriptLen"},
	{"accept: tx VOut too big", "voutTooBig"},
	{"accept: double spend inside the block", "doubleSpend"},
	{"accept: Unknown input TxID", "unknownInput"},
	{"accept: vout too big", "voutTooBig2"},
	{"accept: vout already spent", "alreadySpent"},
	{"accept: Cannot spend block's own coinbase", "ownCoinbase"},
	{"accept: Trying to spend prematured coinbase", "immature"},
	{"RPC_Result:bad-txns-inputvalues-outofrange", "inputRange"},
	{"accept: more spent (", "moreSpent"},
	{"RPC_Result:bad-txns-accumulated-fee-outofrange", "feeRange"},
	{"accept: VerifyScripts failed", "scripts"},
	{"accept: out:", "cbTooMuch"},
	{"RPC_Result:bad-blk-sigops", "sigops"},
}

// realErrKind names the statement of CheckTransaction / PostCheckBlock / commitTxs that produced the message, by the name
// of the corresponding Model.Connect.Err constructor; messages of rules outside the model (C05's) come back as "outside:…".
func realErrKind(s string) string {
	for _, k := range realKinds {
		if strings.Contains(s, k.sub) {
			return k.kind
		}
	}
	return "outside:" + errClass(s)
}

var contextFree = map[string]bool{"vinEmpty": true, "voutEmpty": true, "oversize": true, "voutTooLarge": true, "txoutTotal": true,
	"cbLength": true, "prevoutNull": true, "nonFinal": true}

// contextFreeFailures: how many transactions of the candidate fail a context-free test (reference's reading).
func (e *episode) contextFreeFailures(c *cand) int {
	cutoff := c.time
	if c.csv {
		cutoff = c.mtp
	}
	n := 0
	for _, tx := range c.txs {
		if er := refCheckTx(tx); (er != "" && er != "dup-input") || !refIsFinal(tx, c.height, cutoff) {
			n++
		}
	}
	return n
}

func (e *episode) indexLen() int {
	e.k.Ch.BlockIndexAccess.Lock()
	defer e.k.Ch.BlockIndexAccess.Unlock()
	return len(e.k.Ch.BlockIndex)
}

func (e *episode) inIndex(hash []byte) bool {
	e.k.Ch.BlockIndexAccess.Lock()
	defer e.k.Ch.BlockIndexAccess.Unlock()
	_, ok := e.k.Ch.BlockIndex[btc.NewUint256(hash).BIdx()]
	return ok
}

// ---- (b) kinds -------------------------------------------------------------------------------------------------------------

func dsha(b []byte) []byte {
	h := btc.Sha2Sum(b)
	return h[:]
}

// rawBlock assembles and mines a block from the given transactions as they are (no coinbase is added).
func (e *episode) rawBlock(txs []*btc.Tx) []byte {
	parent := e.k.Ch.LastBlock()
	ts := parent.Timestamp() + 600
	var hs [][]byte
	for _, t := range txs {
		hs = append(hs, dsha(t.Serialize()))
	}
	hdr := make([]byte, 80)
	binary.LittleEndian.PutUint32(hdr[0:4], 0x20000000)
	copy(hdr[4:36], parent.BlockHash.Hash[:])
	copy(hdr[36:68], chainkit.MerkleRoot(hs))
	binary.LittleEndian.PutUint32(hdr[68:72], ts)
	binary.LittleEndian.PutUint32(hdr[72:76], e.k.Ch.GetNextWorkRequired(parent, ts))
	chainkit.Mine(hdr, false)
	body := new(bytes.Buffer)
	body.Write(hdr)
	var t [9]byte
	body.Write(t[:btc.PutULe(t[:], uint64(len(txs)))])
	for _, tx := range txs {
		body.Write(tx.SerializeNew())
	}
	return body.Bytes()
}

// voutCount of the record that holds a confirmed coin (length of DeledTxs' spent_map)
func (e *episode) voutCount(c *wcoin) (n uint32, ok bool) {
	defer func() {
		if recover() != nil {
			ok = false
		}
	}()
	t := e.k.Ch.Unspent.UnspentGet(&c.Out)
	if t == nil {
		return 0, false
	}
	return t.VoutCount, true
}

// "tx VOut too big": after an input spent (txid, v) of a confirmed record, another input names (txid, w) with w at or
// beyond the record's length. sameTx: both inputs in one transaction.
func kSpentVoutTooBig(sameTx bool) kindFn {
	return func(e *episode) []byte {
		c := e.pick(isKind("anyone"))
		if c == nil {
			return nil
		}
		n, ok := e.voutCount(c)
		if !ok {
			return nil
		}
		f := *c.Coin
		f.Out.Vout = n + uint32(e.g.Pick(0, 0, 1, 1000, 0x7fffffff))
		if n+0x7fffffff < n {
			f.Out.Vout = n
		}
		e.r.Hit(fmt.Sprintf("spent-vout-too-big:beyond=%d", f.Out.Vout-n))
		ghost := &wcoin{Coin: &f}
		if sameTx {
			tx := e.buildTx(1, []*wcoin{c, ghost}, nil, []chainkit.OutSpec{{Value: c.Value, Script: anyone}}, 0)
			return e.k.Build(chainkit.BlockSpec{Txs: []*btc.Tx{tx}})
		}
		return e.k.Build(chainkit.BlockSpec{Txs: []*btc.Tx{e.simpleSpend(c, 0), e.simpleSpend(ghost, 0)}})
	}
}

// "vout too big": an input names output index n (or beyond) of an earlier transaction of the same block that has n outputs.
func kInBlockVoutTooBig(e *episode) []byte {
	c := e.pick(nil)
	if c == nil {
		return nil
	}
	nout := 1 + e.g.Intn(3)
	var outs []chainkit.OutSpec
	for i := 0; i < nout; i++ {
		outs = append(outs, chainkit.OutSpec{Value: c.Value / uint64(nout), Script: anyone})
	}
	t1 := e.buildTx(1, []*wcoin{c}, nil, outs, 0)
	cs := e.outCoins(t1, e.height())
	f := *cs[0].Coin
	f.Out.Vout = uint32(nout) + uint32(e.g.Pick(0, 0, 1, 70000))
	t2 := e.simpleSpend(&wcoin{Coin: &f}, 0)
	return e.k.Build(chainkit.BlockSpec{Txs: []*btc.Tx{t1, t2}, Fees: c.Value - uint64(nout)*(c.Value/uint64(nout))})
}

// coinbase script of exactly n bytes that begins with the BIP34 height push
func kCbScriptLen(n int) kindFn {
	return func(e *episode) []byte {
		s := chainkit.HeightPush(e.height())
		if len(s) > n {
			return nil
		}
		for len(s) < n {
			s = append(s, 0x51)
		}
		return e.k.Build(chainkit.BlockSpec{CoinbaseRaw: s})
	}
}

func kVoutEmpty(e *episode) []byte {
	c := e.pick(isKind("anyone"))
	if c == nil {
		return nil
	}
	tx := e.buildTx(1, []*wcoin{c}, nil, nil, 0)
	return e.k.Build(chainkit.BlockSpec{Txs: []*btc.Tx{tx}, Fees: c.Value})
}

func nullCoin() *wcoin {
	return &wcoin{Coin: &chainkit.Coin{Out: btc.TxPrevOut{Vout: 0xffffffff}, Kind: "anyone", Script: anyone}}
}

// a non-coinbase transaction (two inputs) one of whose prevouts is null
func kPrevoutNull(e *episode) []byte {
	c := e.pick(isKind("anyone"))
	if c == nil {
		return nil
	}
	ins := []*wcoin{c, nullCoin()}
	if e.g.Bool() {
		ins[0], ins[1] = ins[1], ins[0]
	}
	tx := e.buildTx(1, ins, nil, []chainkit.OutSpec{{Value: c.Value, Script: anyone}}, 0)
	return e.k.Build(chainkit.BlockSpec{Txs: []*btc.Tx{tx}})
}

// a second transaction of coinbase shape (one input, null prevout)
func kCbMultiple(e *episode) []byte {
	tx := e.buildTx(1, []*wcoin{nullCoin()}, nil, []chainkit.OutSpec{{Value: 0, Script: anyone}}, 0)
	tx.TxIn[0].ScriptSig = []byte{0x51, 0x51}
	chainkit.Finish(tx)
	txs := []*btc.Tx{tx}
	if c := e.pick(isKind("anyone")); c != nil && e.g.Bool() {
		txs = []*btc.Tx{e.simpleSpend(c, 0), tx}
	}
	return e.k.Build(chainkit.BlockSpec{Txs: txs})
}

// no coinbase at the first position: only ordinary transactions, or the coinbase second
func kCbMissing(e *episode) []byte {
	c := e.pick(isKind("anyone"))
	if c == nil {
		return nil
	}
	sp := e.simpleSpend(c, 0)
	if e.g.Bool() {
		return e.rawBlock([]*btc.Tx{sp})
	}
	probe, err := btc.NewBlock(e.k.Build(chainkit.BlockSpec{}))
	if err != nil || probe.BuildTxList() != nil {
		return nil
	}
	return e.rawBlock([]*btc.Tx{sp, probe.Txs[0]})
}

// inject files a record with the given output values (scripts OP_TRUE, not a coinbase, height = the tip's) into all four
// states: the real set through UnspentDB.CommitBlockTxs (AddList only: do_add), the model through its dbAdd, the spec's
// and the reference's maps. Such coins exceed what any chain can have minted; the model and its theorems quantify over
// arbitrary record maps, and this is how the branches that test values against MAX_MONEY are reached.
func (e *episode) inject(values []uint64) []*wcoin {
	var id [32]byte
	copy(id[:], e.g.Bytes(32))
	return e.injectAs(id, values)
}

// injectAs files the record under a given txid (replay: the history names it as "inject:<txid>:<v>,<v>,…").
func (e *episode) injectAs(id [32]byte, values []uint64) []*wcoin {
	db := e.k.Ch.Unspent
	h := e.k.Ch.LastBlock().Height
	mtp := e.k.Ch.LastBlock().GetMedianTimePast()
	rec := &utxo.UtxoRec{TxID: id, InBlock: h}
	line := fmt.Sprintf("inject %s %d 0 %d %d", hex.EncodeToString(id[:]), h, mtp, len(values))
	var res []*wcoin
	for i, v := range values {
		rec.Outs = append(rec.Outs, &utxo.UtxoTxOut{Value: v, PKScr: anyone})
		line += fmt.Sprintf(" %d %s", v, vlib.Hex(anyone))
		out := btc.TxPrevOut{Hash: id, Vout: uint32(i)}
		e.ref[out] = &coin{v, anyone, h, false, mtp}
		res = append(res, &wcoin{Coin: &chainkit.Coin{Out: out, Value: v, Script: anyone, Kind: "anyone", Height: h}})
	}
	ok := func() (ok bool) {
		defer func() {
			if recover() != nil {
				ok = false
			}
		}()
		return db.CommitBlockTxs(&utxo.BlockChanges{Height: db.LastBlockHeight, LastKnownHeight: db.LastBlockHeight, AddList: []*utxo.UtxoRec{rec}}, append([]byte{}, db.LastBlockHash...)) == nil
	}()
	if !ok || e.o.MustAsk(line) != "ok" {
		e.r.Hit("inject-failed")
		e.dead = true
		return nil
	}
	e.r.Hit("inject:record-filed")
	hs := "inject:" + hex.EncodeToString(id[:]) + ":"
	for i, v := range values {
		if i > 0 {
			hs += ","
		}
		hs += fmt.Sprint(v)
	}
	e.pushHistory(hs)
	return res
}

// kRich: candidates over injected coins. how:
//
//	"input-over"     one input of MAX_MONEY+1                          → input values out of range
//	"input-2^63"     one input of 2^63                                 → the same
//	"input-sum"      two inputs of MAX_MONEY and 1..x                  → running input total out of range
//	"input-wrap"     inputs x ≤ MAX_MONEY and 2^64−x+y (in this order): each running total is in range — x, then y after
//	                 the wrap of the 64-bit sum — only the SECOND COIN'S OWN VALUE is not; outputs ≤ y. Separates the
//	                 disjunct `tout.Value > MAX_MONEY` from `txinsum > MAX_MONEY`          → input values out of range
//	"input-max-ok"   one input of MAX_MONEY, one output of MAX_MONEY   → valid
//	"input-sum-ok"   inputs MAX_MONEY-x and x                          → valid (total exactly MAX_MONEY)
//	"fee-over"       two transactions, fees MAX_MONEY and 1..x         → accumulated fee out of range
//	"fee-max-ok"     one transaction burning MAX_MONEY as fee          → valid (coinbase claims the subsidy only)
func kRich(how string) kindFn {
	return func(e *episode) []byte {
		if e.opts.Compress {
			// btc.CompressAmount is exact on [0, MAX_MONEY] (and far beyond), not on all of uint64: 2^63 does not survive
			// SerializeC. Amounts above MAX_MONEY cannot enter the set through a block (MoneyRange); the injected states
			// are an artefact of the harness and stay with the plain record format.
			return nil
		}
		x := uint64(1 + e.g.Intn(1000000))
		spend := func(ins []*wcoin, out uint64) *btc.Tx {
			return e.buildTx(1, ins, nil, []chainkit.OutSpec{{Value: out, Script: anyone}}, 0)
		}
		var txs []*btc.Tx
		switch how {
		case "input-over":
			cs := e.inject([]uint64{maxMoney + 1})
			if cs == nil {
				return nil
			}
			txs = []*btc.Tx{spend(cs, 1000)}
		case "input-2^63":
			cs := e.inject([]uint64{1 << 63, 1 << 63})
			if cs == nil {
				return nil
			}
			txs = []*btc.Tx{spend(cs, 1000)}
		case "input-sum":
			cs := e.inject([]uint64{maxMoney, x})
			if cs == nil {
				return nil
			}
			if e.g.Bool() {
				cs[0], cs[1] = cs[1], cs[0]
			}
			txs = []*btc.Tx{spend(cs, 1000)}
		case "input-wrap":
			small := []uint64{10000 + x, maxMoney - x, maxMoney}[e.g.Intn(3)]
			y := uint64(1000 + e.g.Intn(5000))               // y < small
			cs := e.inject([]uint64{small, -(small - y)}) // second = 2^64 − small + y > MAX_MONEY; small + second ≡ y (mod 2^64)
			if cs == nil {
				return nil
			}
			txs = []*btc.Tx{spend(cs, uint64(e.g.Pick(0, 1000, int(y))))}
		case "input-max-ok":
			cs := e.inject([]uint64{maxMoney})
			if cs == nil {
				return nil
			}
			txs = []*btc.Tx{spend(cs, maxMoney)}
		case "input-sum-ok":
			cs := e.inject([]uint64{maxMoney - x, x})
			if cs == nil {
				return nil
			}
			txs = []*btc.Tx{spend(cs, maxMoney)}
		case "fee-over":
			cs := e.inject([]uint64{maxMoney, x + 5})
			if cs == nil {
				return nil
			}
			txs = []*btc.Tx{spend(cs[:1], 0), spend(cs[1:], 5)}
			if e.g.Bool() {
				txs[0], txs[1] = txs[1], txs[0]
			}
		case "fee-max-ok":
			cs := e.inject([]uint64{maxMoney, x})
			if cs == nil {
				return nil
			}
			txs = []*btc.Tx{spend(cs[:1], 0), spend(cs[1:], x)}
		}
		return e.k.Build(chainkit.BlockSpec{Txs: txs})
	}
}

func extraKinds() []kindEntry {
	return []kindEntry{
		{"spent-vout-too-big", kSpentVoutTooBig(false), 2, false},
		{"spent-vout-too-big-same-tx", kSpentVoutTooBig(true), 1, false},
		{"inblock-vout-too-big", kInBlockVoutTooBig, 2, false},
		{"cb-script-100", kCbScriptLen(100), 1, false},
		{"cb-script-101", kCbScriptLen(101), 1, false},
		{"vout-empty", kVoutEmpty, 1, false},
		{"prevout-null", kPrevoutNull, 1, false},
		{"cb-multiple", kCbMultiple, 1, false},
		{"cb-missing", kCbMissing, 1, false},
		{"rich-input-over", kRich("input-over"), 1, false},
		{"rich-input-2^63", kRich("input-2^63"), 1, false},
		{"rich-input-sum", kRich("input-sum"), 1, false},
		{"rich-input-wrap", kRich("input-wrap"), 1, false},
		{"rich-input-max-ok", kRich("input-max-ok"), 1, false},
		{"rich-input-sum-ok", kRich("input-sum-ok"), 1, false},
		{"rich-fee-over", kRich("fee-over"), 1, false},
		{"rich-fee-max-ok", kRich("fee-max-ok"), 1, false},
	}
}

// ---- (c) Tx.CheckTransaction / Tx.IsFinal directly -----------------------------------------------------------------------------

var chkTxKinds = map[string]string{"vin-empty": "vinEmpty", "vout-empty": "voutEmpty", "oversize": "oversize", "vout-range": "voutTooLarge",
	"vout-total-range": "txoutTotal", "cb-length": "cbLength", "prevout-null": "prevoutNull", "": "ok"}

func genCheckTx(g *vlib.Rng, i int) *btc.Tx {
	tx := &btc.Tx{Version: uint32(g.Pick(1, 2, 0, 0xffffffff))}
	tx.Hash.Hash = [32]byte{}
	copy(tx.Hash.Hash[:], g.Bytes(32))
	nin := g.Pick(1, 1, 1, 2, 3, 0)
	nout := g.Pick(1, 1, 2, 3, 4, 0)
	cbLens := []int{0, 1, 2, 3, 50, 99, 100, 101, 102, 200}
	for j := 0; j < nin; j++ {
		in := &btc.TxIn{Sequence: uint32(g.Pick(0xffffffff, 0xffffffff, 0xfffffffe, 0, 1<<31))}
		if g.Chance(1, 3) {
			in.Input.Vout = 0xffffffff // null prevout
			if g.Chance(1, 8) {
				in.Input.Hash[g.Intn(32)] = 1 // … not quite
			}
		} else {
			copy(in.Input.Hash[:], g.Bytes(32))
			in.Input.Vout = uint32(g.Pick(0, 1, 0xffffffff, 0xfffffffe))
		}
		l := cbLens[(i+j)%len(cbLens)]
		if g.Chance(1, 3) {
			l = g.Intn(120)
		}
		in.ScriptSig = g.Bytes(l)
		tx.TxIn = append(tx.TxIn, in)
	}
	vals := []uint64{0, 1, maxMoney, maxMoney + 1, maxMoney - 1, 1 << 63, ^uint64(0), ^uint64(0) - maxMoney + 1, maxMoney / 2, maxMoney/2 + 1, 50 * 100000000}
	for j := 0; j < nout; j++ {
		v := vals[g.Intn(len(vals))]
		if g.Bool() {
			v = uint64(g.Intn(1000000))
		}
		tx.TxOut = append(tx.TxOut, &btc.TxOut{Value: v, Pk_script: g.Bytes(g.Intn(4))})
	}
	sizes := []uint32{60, 1000000, 1000001, 999999, 1 << 30, 1<<30 + 1000000, 1<<30 + 1000001, 1 << 31, 1<<31 + 1000001, 0xffffffff, 0}
	tx.NoWitSize = sizes[i%len(sizes)]
	if g.Bool() {
		tx.NoWitSize = uint32(60 + g.Intn(2000))
	}
	tx.Lock_time = uint32(g.Pick(0, 0, 1, 99, 100, 101, 499999999, 500000000, 500000001, 1700000000, 1700000001, 0xffffffff))
	return tx
}

func chkTxStream(r *Run, o *vlib.Oracle) {
	g := r.Rng.Fork()
	n := r.N(3000, 40000)
	for i := 0; i < n; i++ {
		tx := genCheckTx(g, i)
		var sb strings.Builder
		txTokens(&sb, tx, nil)
		// CheckTransaction
		real := "panic"
		func() {
			defer func() { recover() }()
			if er := tx.CheckTransaction(); er != nil {
				real = realErrKind(er.Error())
			} else {
				real = "ok"
			}
		}()
		rep := strings.TrimPrefix(o.MustAsk("chktx"+sb.String()), "err:GocoinV.Connect.Err.")
		r.Eval("chktx", "c"+sb.String())
		r.Hit("chktx:real=" + real)
		doc := map[string]interface{}{"chktx": sb.String()}
		want, known := chkTxKinds[refCheckTx(tx)]
		switch {
		case real == "panic":
			r.PropFail("checktransaction-panic", "Tx.CheckTransaction panicked on"+sb.String(), doc)
		case rep != real:
			r.TieFail("chktx-model:"+rep+"/"+real, fmt.Sprintf("Tx.CheckTransaction: real %s, model %s on%s", real, rep, sb.String()), doc)
		case tx.NoWitSize >= 1<<30:
			// NoWitSize*4 wraps uint32 in the code (and in the model); a transaction of a gigabyte cannot reach it (C05: weight)
			r.Hit("chktx:nowitsize-wraps")
			r.TieOK()
		case known && want != real && !(refCheckTx(tx) == "dup-input"):
			r.PropFail("checktransaction-vs-reference", fmt.Sprintf("Tx.CheckTransaction says %s, the reference's context-free rules say %s on%s", real, want, sb.String()), doc)
		default:
			r.TieOK()
		}
		// IsFinal
		h := uint32(g.Pick(0, 1, 99, 100, 101, 102, 499999999, 500000000, 0xffffffff))
		ts := uint32(g.Pick(0, 499999999, 500000000, 500000001, 1700000000, 1700000001, 1700000002, 0xffffffff))
		fin := false
		func() {
			defer func() { recover() }()
			fin = tx.IsFinal(h, ts)
		}()
		rep = o.MustAsk(fmt.Sprintf("final %d %d%s", h, ts, sb.String()))
		r.Eval("isfinal", fmt.Sprint("f", h, ts, sb.String()))
		if rep != b2i(fin) {
			r.TieFail("isfinal-model", fmt.Sprintf("Tx.IsFinal(%d,%d): real %v, model %s on%s", h, ts, fin, rep, sb.String()), doc)
		} else if fin != refIsFinal(tx, h, ts) {
			r.PropFail("isfinal-vs-reference", fmt.Sprintf("Tx.IsFinal(%d,%d) = %v, IsFinalTx says %v on%s", h, ts, fin, !fin, sb.String()), doc)
		} else {
			r.TieOK()
		}
	}
}
