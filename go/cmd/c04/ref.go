// ref.go — the property predicate of C04, written independently of gocoin and of the Lean files:
// Bitcoin's ConnectBlock over a plain Go map in sequential form (after Bitcoin Core's CheckTransaction,
// CheckTxInputs, IsFinalTx, CalculateSequenceLocks/EvaluateSequenceLocks, GetTransactionSigOpCost, ConnectBlock).
package main

import (
	"bytes"
	"encoding/hex"
	"fmt"
	"sort"
	"strings"

	"github.com/piotrnar/gocoin/lib/btc"
	"verif/vlib"
)

const maxMoney = uint64(2100000000000000)

type coin struct {
	value   uint64
	script  []byte
	height  uint32
	cb      bool
	mtpPrev uint32 // median time past of the block before the creating one
}

type utxoMap map[btc.TxPrevOut]*coin

// cand is a parsed candidate block plus its context.
type cand struct {
	raw            []byte // the candidate's bytes
	hash           []byte
	height         uint32
	time, mtp      uint32
	p2sh, wit, csv bool
	txs            []*btc.Tx
	scriptOk       [][]bool // per tx, per input (nil for the coinbase)
	found          [][]bool // per tx, per input: the sequential semantics finds a coin for this input
	vouch          []bool   // per tx: chain.TrustedTxChecker answers true (nil: the hook is not installed) — pool.go
	spentOuts      [][]*btc.TxOut // per tx, per input: the coin the sequential semantics names (empty TxOut when none)
}

// ---- script tokeniser and sigop counting as Bitcoin Core defines them (no OP_RETURN exception) ----

func nextOp(s []byte, pc int) (op int, data []byte, npc int, ok bool) {
	if pc >= len(s) {
		return 0, nil, pc, false
	}
	op = int(s[pc])
	pc++
	if op > 0x4e {
		return op, nil, pc, true
	}
	n := 0
	switch {
	case op < 0x4c:
		n = op
	case op == 0x4c:
		if len(s)-pc < 1 {
			return 0, nil, pc, false
		}
		n = int(s[pc])
		pc++
	case op == 0x4d:
		if len(s)-pc < 2 {
			return 0, nil, pc, false
		}
		n = int(s[pc]) | int(s[pc+1])<<8
		pc += 2
	default:
		if len(s)-pc < 4 {
			return 0, nil, pc, false
		}
		n = int(s[pc]) | int(s[pc+1])<<8 | int(s[pc+2])<<16 | int(s[pc+3])<<24
		pc += 4
	}
	if n < 0 || len(s)-pc < n {
		return 0, nil, pc, false
	}
	return op, s[pc : pc+n], pc + n, true
}

// refSigOps: CScript::GetSigOpCount(fAccurate). stopAtReturn reproduces gocoin's deliberate deviation (only used
// to CLASSIFY a failure as the known finding, never as the predicate).
func refSigOps(s []byte, accurate, stopAtReturn bool) int {
	n, last, pc := 0, 0xff, 0
	for pc < len(s) {
		op, _, npc, ok := nextOp(s, pc)
		if !ok {
			break
		}
		if stopAtReturn && op == 0x6a {
			break
		}
		pc = npc
		switch op {
		case 0xac, 0xad:
			n++
		case 0xae, 0xaf:
			if accurate && last >= 0x51 && last <= 0x60 {
				n += last - 0x50
			} else {
				n += 20
			}
		}
		last = op
	}
	return n
}

func refIsP2SH(s []byte) bool {
	return len(s) == 23 && s[0] == 0xa9 && s[1] == 0x14 && s[22] == 0x87
}

// lastPushOnly returns the data pushed by the final opcode of a push-only script.
func lastPushOnly(s []byte) (data []byte, ok bool) {
	pc := 0
	for pc < len(s) {
		op, d, npc, good := nextOp(s, pc)
		if !good || op > 0x60 {
			return nil, false
		}
		data, pc = d, npc
	}
	return data, true
}

func refWitnessProgram(s []byte) (ver int, prog []byte, ok bool) {
	if len(s) < 4 || len(s) > 42 {
		return
	}
	if s[0] != 0 && (s[0] < 0x51 || s[0] > 0x60) {
		return
	}
	if int(s[1])+2 != len(s) {
		return
	}
	if s[0] != 0 {
		ver = int(s[0]) - 0x50
	}
	return ver, s[2:], true
}

func refWitProgSigOps(ver int, prog []byte, wit [][]byte, stop bool) int {
	if ver == 0 && len(prog) == 20 {
		return 1
	}
	if ver == 0 && len(prog) == 32 && len(wit) > 0 {
		return refSigOps(wit[len(wit)-1], true, stop)
	}
	return 0
}

func refInputSigOpCost(c *cand, tx *btc.Tx, j int, pk []byte, stop bool) int {
	cost := 0
	ss := tx.TxIn[j].ScriptSig
	if c.p2sh && refIsP2SH(pk) {
		if d, ok := lastPushOnly(ss); ok {
			cost += 4 * refSigOps(d, true, stop)
		}
	}
	if c.wit {
		var wit [][]byte
		if j < len(tx.SegWit) {
			wit = tx.SegWit[j]
		}
		if v, p, ok := refWitnessProgram(pk); ok {
			cost += refWitProgSigOps(v, p, wit, stop)
		} else if refIsP2SH(pk) {
			if d, ok := lastPushOnly(ss); ok {
				if v, p, ok := refWitnessProgram(d); ok {
					cost += refWitProgSigOps(v, p, wit, stop)
				}
			}
		}
	}
	return cost
}

func refLegacySigOps(tx *btc.Tx, stop bool) int {
	n := 0
	for _, in := range tx.TxIn {
		n += refSigOps(in.ScriptSig, false, stop)
	}
	for _, o := range tx.TxOut {
		n += refSigOps(o.Pk_script, false, stop)
	}
	return n
}

func refSubsidy(h uint32) uint64 {
	halvings := h / 210000
	if halvings >= 64 {
		return 0
	}
	v := uint64(5000000000)
	for i := uint32(0); i < halvings; i++ {
		v /= 2
	}
	return v
}

func nullOut(p *btc.TxPrevOut) bool {
	for _, b := range p.Hash {
		if b != 0 {
			return false
		}
	}
	return p.Vout == 0xffffffff
}

func refIsCoinbase(tx *btc.Tx) bool { return len(tx.TxIn) == 1 && nullOut(&tx.TxIn[0].Input) }

// refCheckTx: context-free rules. "" = ok.
func refCheckTx(tx *btc.Tx) string {
	if len(tx.TxIn) == 0 {
		return "vin-empty"
	}
	if len(tx.TxOut) == 0 {
		return "vout-empty"
	}
	if uint64(tx.NoWitSize)*4 > 4000000 {
		return "oversize"
	}
	var tot uint64
	for _, o := range tx.TxOut {
		if o.Value > maxMoney {
			return "vout-range"
		}
		tot += o.Value // both ≤ maxMoney: no wrap
		if tot > maxMoney {
			return "vout-total-range"
		}
	}
	seen := map[btc.TxPrevOut]bool{}
	for _, in := range tx.TxIn {
		if seen[in.Input] {
			return "dup-input"
		}
		seen[in.Input] = true
	}
	if refIsCoinbase(tx) {
		if l := len(tx.TxIn[0].ScriptSig); l < 2 || l > 100 {
			return "cb-length"
		}
	} else {
		for _, in := range tx.TxIn {
			if nullOut(&in.Input) {
				return "prevout-null"
			}
		}
	}
	return ""
}

func refIsFinal(tx *btc.Tx, height uint32, cutoff uint32) bool {
	if tx.Lock_time == 0 {
		return true
	}
	lim := uint64(cutoff)
	if tx.Lock_time < 500000000 {
		lim = uint64(height)
	}
	if uint64(tx.Lock_time) < lim {
		return true
	}
	for _, in := range tx.TxIn {
		if in.Sequence != 0xffffffff {
			return false
		}
	}
	return true
}

// relax: "" = the full predicate; "bip68" = without relative lock-times; "opreturn" = sigop counting that stops at
// OP_RETURN. The relaxed forms only serve to name the known finding a failure belongs to.
func refConnect(st utxoMap, c *cand, relax string) (errc string, spent []btc.TxPrevOut, added map[btc.TxPrevOut]*coin) {
	stop := relax == "opreturn"
	if len(c.txs) == 0 || !refIsCoinbase(c.txs[0]) {
		return "no-coinbase", nil, nil
	}
	for _, tx := range c.txs[1:] {
		if refIsCoinbase(tx) {
			return "multiple-coinbase", nil, nil
		}
	}
	cutoff := c.time
	if c.csv {
		cutoff = c.mtp
	}
	for _, tx := range c.txs {
		if e := refCheckTx(tx); e != "" {
			return e, nil, nil
		}
		if !refIsFinal(tx, c.height, cutoff) {
			return "non-final", nil, nil
		}
	}
	added = map[btc.TxPrevOut]*coin{}
	gone := map[btc.TxPrevOut]bool{}
	get := func(p btc.TxPrevOut) *coin {
		if gone[p] {
			return nil
		}
		if a, ok := added[p]; ok {
			return a
		}
		return st[p]
	}
	addOuts := func(tx *btc.Tx, cb bool) {
		for i, o := range tx.TxOut {
			p := btc.TxPrevOut{Hash: tx.Hash.Hash, Vout: uint32(i)}
			added[p] = &coin{o.Value, o.Pk_script, c.height, cb, c.mtp}
			delete(gone, p)
		}
	}
	addOuts(c.txs[0], true)
	sigops := 4 * refLegacySigOps(c.txs[0], stop)
	var fees uint64
	for ti, tx := range c.txs[1:] {
		var valueIn uint64
		for j, in := range tx.TxIn {
			cn := get(in.Input)
			if cn == nil {
				return "missing-input", nil, nil
			}
			if cn.cb && c.height-cn.height < 100 {
				return "immature", nil, nil
			}
			if cn.value > maxMoney || valueIn+cn.value > maxMoney {
				return "input-range", nil, nil
			}
			if relax != "bip68" && c.csv && tx.Version >= 2 && in.Sequence&(1<<31) == 0 {
				v := uint64(in.Sequence & 0xffff)
				if in.Sequence&(1<<22) != 0 {
					if uint64(cn.mtpPrev)+v*512 > uint64(c.mtp) { // coinMTP + v*512 - 1 >= mtp  ⇒ locked
						return "seq-lock-time", nil, nil
					}
				} else if uint64(cn.height)+v > uint64(c.height) {
					return "seq-lock-height", nil, nil
				}
			}
			if !c.scriptOk[ti+1][j] {
				return "script", nil, nil
			}
			valueIn += cn.value
			sigops += refInputSigOpCost(c, tx, j, cn.script, stop)
			gone[in.Input] = true
			spent = append(spent, in.Input)
		}
		var out uint64
		for _, o := range tx.TxOut {
			out += o.Value
		}
		if valueIn < out {
			return "in-below-out", nil, nil
		}
		fees += valueIn - out
		if fees > maxMoney {
			return "fee-range", nil, nil
		}
		sigops += 4 * refLegacySigOps(tx, stop)
		addOuts(tx, false)
	}
	lastRefSigops = sigops
	if sigops > 80000 {
		return "sigops", nil, nil
	}
	var cbout uint64
	for _, o := range c.txs[0].TxOut {
		cbout += o.Value
	}
	if cbout > refSubsidy(c.height)+fees {
		return "cb-amount", nil, nil
	}
	// outputs created and spent inside the block never reach the map
	for p := range gone {
		delete(added, p)
	}
	return "", spent, added
}

func (st utxoMap) apply(spent []btc.TxPrevOut, added map[btc.TxPrevOut]*coin) {
	for _, p := range spent {
		delete(st, p)
	}
	for p, c := range added {
		st[p] = c
	}
}

func (st utxoMap) dump() []string {
	lines := make([]string, 0, len(st))
	for p, c := range st {
		cb := 0
		if c.cb {
			cb = 1
		}
		lines = append(lines, fmt.Sprintf("%s:%d %d %d %d %s", hex.EncodeToString(p.Hash[:]), p.Vout, c.value, c.height, cb, hex.EncodeToString(c.script)))
	}
	sort.Strings(lines)
	return lines
}

// ---- oracle encoding ----

func b2i(b bool) string {
	if b {
		return "1"
	}
	return "0"
}

func txTokens(sb *strings.Builder, tx *btc.Tx, ok []bool) {
	fmt.Fprintf(sb, " %s %d %d %d %d %d", hex.EncodeToString(tx.Hash.Hash[:]), tx.Version, tx.Lock_time, tx.NoWitSize, len(tx.TxIn), len(tx.TxOut))
	for j, in := range tx.TxIn {
		good := j < len(ok) && ok[j]
		var wit [][]byte
		if j < len(tx.SegWit) {
			wit = tx.SegWit[j]
		}
		fmt.Fprintf(sb, " %s %d %s %d %s %d", hex.EncodeToString(in.Input.Hash[:]), in.Input.Vout, vlib.Hex(in.ScriptSig), in.Sequence, b2i(good), len(wit))
		for _, w := range wit {
			sb.WriteString(" " + vlib.Hex(w))
		}
	}
	for _, o := range tx.TxOut {
		fmt.Fprintf(sb, " %d %s", o.Value, vlib.Hex(o.Pk_script))
	}
}

func (c *cand) oracleLine() string {
	var sb strings.Builder
	op := "block"
	if c.vouch != nil { // the hook is installed: its answers are part of the model's input (Model/ConnectTrust.lean)
		op = "blockv "
		for _, v := range c.vouch {
			op += b2i(v)
		}
	}
	fmt.Fprintf(&sb, op+" %s %d %d %d %s %s %s %d", hex.EncodeToString(c.hash), c.height, c.time, c.mtp, b2i(c.p2sh), b2i(c.wit), b2i(c.csv), len(c.txs))
	for i, tx := range c.txs {
		txTokens(&sb, tx, c.scriptOk[i])
	}
	return sb.String()
}

// parseOracleDump turns "n e|e|…" (e = txid:vout,value,height,cb,script) into chainkit.UtxoDump's line format.
func parseOracleDump(rep string) ([]string, error) {
	sp := strings.SplitN(rep, " ", 2)
	if len(sp) != 2 {
		return nil, fmt.Errorf("bad dump reply %q", rep)
	}
	var out []string
	if sp[1] != "" {
		for _, e := range strings.Split(sp[1], "|") {
			f := strings.Split(e, ",")
			if len(f) != 5 {
				return nil, fmt.Errorf("bad dump entry %q", e)
			}
			out = append(out, fmt.Sprintf("%s %s %s %s %s", f[0], f[1], f[2], f[3], f[4]))
		}
	}
	sort.Strings(out)
	return out, nil
}

func sameLines(a, b []string) bool {
	if len(a) != len(b) {
		return false
	}
	for i := range a {
		if a[i] != b[i] {
			return false
		}
	}
	return true
}

func firstDiff(a, b []string) string {
	ma := map[string]bool{}
	for _, l := range a {
		ma[l] = true
	}
	mb := map[string]bool{}
	for _, l := range b {
		mb[l] = true
	}
	var onlyA, onlyB []string
	for _, l := range a {
		if !mb[l] {
			onlyA = append(onlyA, l)
		}
	}
	for _, l := range b {
		if !ma[l] {
			onlyB = append(onlyB, l)
		}
	}
	cut := func(x []string) []string {
		if len(x) > 3 {
			return x[:3]
		}
		return x
	}
	return fmt.Sprintf("only-left(%d)=%v only-right(%d)=%v", len(onlyA), cut(onlyA), len(onlyB), cut(onlyB))
}

var _ = bytes.Equal
