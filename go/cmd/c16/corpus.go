package main

import (
	"crypto/sha1"
	"encoding/hex"
)

func sha1Hex8(s string) string {
	h := sha1.Sum([]byte(s))
	return hex.EncodeToString(h[:])[:8]
}

func blk(seed uint64, n int, kind string) BlockSpec {
	return BlockSpec{Seed: seed, Len: n, Kind: kind, Height: uint32(1000 + seed), TxCount: uint32(1 + seed%7)}
}

func op(o string, b int) OpRec          { return OpRec{Op: o, B: b} }
func opf(o string, b int, f bool) OpRec { return OpRec{Op: o, B: b, Flag: f} }
func reopen(o Opts) OpRec               { return OpRec{Op: "reopen", Opts: &o} }

// builtinHistories are the hand-made edge histories (run before the generated ones).
func builtinHistories(thorough bool) []*History {
	var hs []*History
	add := func(name string, blocks []BlockSpec, ops ...OpRec) {
		hs = append(hs, &History{Name: name, Blocks: blocks, Ops: ops})
	}
	abc := []BlockSpec{blk(1, 100, "rep"), blk(2, 200, "mixed"), blk(3, 300, "rand"), blk(4, 81, "rand")}
	for _, c := range []bool{false, true} {
		o := Opts{MaxCached: 2, Compress: c}
		// F5 (DESIGN §7): invalid-flagged record, restart, append, restart
		add("F5-append-after-invalid", abc, reopen(o), op("add", 0), op("add", 1), op("idle", 0), op("invalid", 0), op("close", 0),
			reopen(o), op("add", 2), op("close", 0), reopen(o), op("get", 1), op("get", 2), op("get", 0), op("close", 0))
		// F5, second symptom: the flag update after the restart hits the wrong record
		add("F5-flag-after-invalid", abc, reopen(o), op("add", 0), op("add", 1), op("add", 2), op("idle", 0), op("invalid", 0), op("close", 0),
			reopen(o), op("trusted", 2), op("get", 2), op("close", 0), reopen(o), op("get", 1), op("get", 2), op("close", 0))
		add("F5-two-invalid-then-invalid", abc, reopen(o), op("add", 0), op("add", 1), op("add", 2), op("add", 3), op("idle", 0), op("invalid", 0), op("invalid", 1), op("close", 0),
			reopen(o), op("invalid", 2), op("close", 0), reopen(o), op("get", 3), op("get", 2), op("close", 0))
		// BlockLength of a queued block and of a written block that is still cached
		add("length-queued-and-cached", abc, reopen(o), op("add", 0), opf("len", 0, true), opf("len", 0, false), op("idle", 0), opf("len", 0, true), opf("len", 0, false),
			op("add", 1), op("add", 2), op("idle", 0), op("get", 0), opf("len", 0, true), op("close", 0), reopen(o), opf("len", 1, true), opf("len", 1, false), op("close", 0))
		// flag updates of queued / written records
		add("trusted-queued-written", abc, reopen(o), op("add", 0), op("trusted", 0), op("add", 1), op("idle", 0), op("trusted", 1), opf("add", 2, false), opf("add", 2, true), op("get", 2),
			op("idle", 0), opf("add", 3, false), op("idle", 0), opf("add", 3, true), op("get", 3), op("close", 0), reopen(o), op("get", 0), op("get", 1), op("get", 2), op("get", 3), op("close", 0))
		// invalid while queued: never written; re-add; invalid when written; re-add
		add("invalid-queued-readd", abc, reopen(o), op("add", 0), op("invalid", 0), op("get", 0), op("add", 0), op("add", 1), op("idle", 0), op("get", 0), op("invalid", 1), op("add", 1), op("get", 1),
			op("close", 0), reopen(o), op("get", 0), op("get", 1), op("add", 1), op("close", 0), reopen(o), op("get", 1), op("close", 0))
		// panics: invalid on a trusted block; second invalid on a written block
		add("invalid-on-trusted-panics", abc, reopen(o), opf("add", 0, true), op("invalid", 0))
		// a second BlockInvalid of a written block used to panic with db.mutex held (setBlockFlag set `trusted` for either flag)
		add("invalid-twice", abc, reopen(o), op("add", 0), op("add", 1), op("idle", 0), op("invalid", 0), op("get", 0), op("invalid", 0), op("get", 1), op("trusted", 0), op("get", 0),
			op("close", 0), reopen(o), op("get", 1), op("get", 0), op("close", 0))
		// marked invalid while queued, then the same hash is stored again with other bytes / height / txcount: the stale
		// queue entry used to be written in place of the new block
		{
			x1 := BlockSpec{Seed: 21, Len: 150, Kind: "rand", Height: 700, TxCount: 3, HdrSeed: 77}
			x2 := BlockSpec{Seed: 22, Len: 190, Kind: "mixed", Height: 701, TxCount: 5, HdrSeed: 77}
			add("readd-after-queued-invalid", []BlockSpec{x1, x2, blk(3, 300, "rand")}, reopen(o), op("add", 0), op("invalid", 0), op("get", 0), op("add", 1), op("get", 1), op("add", 2),
				op("idle", 0), op("get", 1), op("close", 0), reopen(o), op("get", 1), opf("len", 1, true), op("get", 2), op("close", 0))
			add("queued-invalid-never-written", []BlockSpec{x1, blk(3, 300, "rand")}, reopen(o), op("add", 0), op("add", 1), op("invalid", 0), op("idle", 0), op("get", 0),
				op("close", 0), reopen(o), op("get", 0), op("get", 1), op("close", 0))
		}
		// the read entry points in every pairing (BlockGet / BlockGetExt / the one-pass BlockGetInternal(hash, true)), on a block
		// that is queued (the cache holds the only copy), written and cached, written and not cached (cache of one entry),
		// and after a restart: whoever reads first, the next reader gets the stored bytes
		for _, r1 := range []string{"get", "getext", "getnc"} {
			for _, r2 := range []string{"get", "getext", "getnc"} {
				o1 := Opts{MaxCached: 1, Compress: c}
				add("read-pairs-"+r1+"-"+r2, abc, reopen(o1), op("add", 0), op("add", 1), op(r1, 0), op(r2, 0), op(r1, 1), op("idle", 0), op(r1, 1), op(r2, 1),
					op(r1, 0), op(r2, 0), op("add", 2), op(r1, 2), op(r2, 2), opf("len", 2, true), op("add", 3), op(r2, 3), op(r1, 3), op("close", 0),
					reopen(o1), op(r1, 0), op(r2, 0), op(r2, 2), op(r1, 2), op("close", 0))
			}
		}
		add("unknown-hash", abc, reopen(o), op("get", -1), op("getnc", -1), op("getext", -1), opf("len", -1, true), op("trusted", -1), op("invalid", -1), op("idle", 0), op("close", 0))
		// cache of one entry, unwritten blocks are never evicted
		o1 := Opts{MaxCached: 1, Compress: c}
		add("cache-1", abc, reopen(o1), op("add", 0), op("add", 1), op("add", 2), op("get", 0), op("idle", 0), op("get", 1), op("get", 0), op("get", 2), op("add", 3), op("get", 0), op("close", 0))
		// roll-over edges: file size exactly full / one byte short; keep and backup
		for _, mf := range []uint64{199, 200, 201, 1} {
			for _, keep := range []uint32{0, 1, 2} {
				for _, bk := range []bool{false, true} {
					if c && mf != 200 {
						continue
					}
					b6 := []BlockSpec{blk(11, 200, "rand"), blk(12, 200, "rand"), blk(13, 200, "rand"), blk(14, 100, "rand"), blk(15, 100, "rand"), blk(16, 200, "rand")}
					or := Opts{MaxCached: 1, MaxFile: mf, Keep: keep, Backup: bk, Compress: c}
					add("rollover", b6, reopen(or), op("add", 0), op("add", 1), op("idle", 0), op("add", 2), op("add", 3), op("add", 4), op("idle", 0), op("get", 0), op("get", 1), op("add", 5), op("idle", 0),
						op("get", 0), op("get", 2), op("get", 3), op("close", 0), reopen(or), op("get", 0), op("get", 1), op("get", 2), op("get", 3), op("get", 4), op("get", 5), op("close", 0))
				}
			}
		}
	}
	// every block of the newer data files is invalid at the restart: LoadBlockIndex falls back to a data file number that
	// was already moved to oldat/ (backup) — the block kept there must stay readable
	{
		b3 := []BlockSpec{blk(31, 200, "rand"), blk(32, 200, "rand"), blk(33, 200, "rand"), blk(34, 150, "rand")}
		ob := Opts{MaxCached: 1, MaxFile: 200, Keep: 1, Backup: true}
		add("backup-fallback-after-invalid", b3, reopen(ob), op("add", 0), op("add", 1), op("add", 2), op("idle", 0), op("get", 0), op("invalid", 1), op("invalid", 2), op("close", 0),
			reopen(ob), op("get", 0), op("add", 3), op("idle", 0), op("get", 0), op("get", 3), op("close", 0), reopen(ob), op("get", 0), op("get", 3), op("close", 0))
	}
	// options changed across a restart (compression toggled, keep introduced)
	add("options-change", abc, reopen(Opts{MaxCached: 1, Compress: true, MaxFile: 150}), op("add", 0), op("add", 1), op("close", 0),
		reopen(Opts{MaxCached: 1, Compress: false, MaxFile: 400, Keep: 1}), op("add", 2), op("add", 3), op("get", 0), op("close", 0),
		reopen(Opts{MaxCached: 3, Compress: true, Keep: 1, Backup: true, MaxFile: 100}), op("get", 0), op("get", 1), op("get", 2), op("get", 3), op("close", 0))

	// flush threshold: MAX_BLOCKS_TO_WRITE queued blocks
	{
		n := 1024
		var bs []BlockSpec
		ops := []OpRec{reopen(Opts{MaxCached: 3000, Compress: true, MaxFile: 20000, Keep: 2})}
		for i := 0; i < n+1; i++ {
			bs = append(bs, blk(uint64(100+i), 81+i%5, "rand"))
			ops = append(ops, op("add", i))
			if i == 1022 || i == 1023 {
				ops = append(ops, op("get", 0), op("get", i))
			}
		}
		ops = append(ops, op("get", 1024), op("close", 0), reopen(Opts{MaxCached: 3, Compress: true, MaxFile: 20000, Keep: 2}), op("get", 0), op("get", 1000), op("get", 1024), op("close", 0))
		add("threshold-1024-blocks", bs, ops...)
	}
	// flush threshold: MAX_DATA_WRITE bytes queued (4 × 4 MiB exactly reaches it; one byte less does not)
	{
		sizes := [][]int{{4194304, 4194304, 4194304, 4194304, 81}}
		if thorough {
			sizes = append(sizes, []int{4194304, 4194304, 4194304, 4194303, 81}, []int{4000000, 4000000, 4000000, 4000000, 777216, 81})
		}
		for vi, sz := range sizes {
			var bs []BlockSpec
			o := Opts{MaxCached: 2, Compress: thorough && vi == 2, MaxFile: 9000000}
			ops := []OpRec{reopen(o)}
			for i, n := range sz {
				bs = append(bs, blk(uint64(5000+i), n, "zero"))
				ops = append(ops, op("add", i))
			}
			ops = append(ops, op("get", len(sz)-1), op("close", 0), reopen(o), op("get", len(sz)-1), opf("len", 3, true), op("close", 0))
			add("threshold-16MiB", bs, ops...)
		}
	}
	return hs
}
