//go:build !noasm

package main

// pureGo reports whether this binary was built with -tags noasm (snappy's encode_other.go /
// decode_other.go instead of the amd64 assembly).
const pureGo = false
