// c16 — correspondence harness for property C16 (the block store returns exactly the blocks that were stored).
//
// Three parties per history: the real chain.BlockDB on a temp dir, the Lean model (oracle_c16), and a plain
// Go map (the property's own predicate: what was stored must come back, nothing else may be listed).
// Plus the snappy tie: snappy.Encode/Decode (amd64 assembly in this binary, the pure-Go encode_other.go /
// decode_other.go in a second binary built with -tags noasm) against Model/Snappy.lean.
package main

import (
	"bytes"
	"encoding/hex"
	"encoding/json"
	"errors"
	"flag"
	"fmt"
	"io"
	"os"
	"os/exec"
	"path/filepath"
	"sort"
	"strings"
	"syscall"
	"time"

	"github.com/piotrnar/gocoin/lib/btc"
	"github.com/piotrnar/gocoin/lib/chain"
	"github.com/piotrnar/gocoin/lib/others/snappy"

	"verif/vlib"
	"verif/vtrans"
)

type failure struct {
	Kind string `json:"kind"` // prop | tie
	Key  string `json:"key"`
	What string `json:"what"`
}

type refEnt struct {
	data    []byte
	trusted bool
	tainted bool // was marked invalid after it had been written: no further claims about this hash
	flushed bool // the real store's write queue was seen empty since this block was added
	readded bool // BlockAdd was called for this hash again after it was (last) marked invalid on disk
	spec    BlockSpec
}

type runner struct {
	r *vlib.Run
	o *vlib.Oracle
	// failure classes already reported in this run (kind+key): a class is shrunk and reported once; the search goes on
	// after model/implementation disagreements until a concrete property failure is found
	reported  map[string]bool
	propFound int // property failures outside the known finding
}

var realStdout = os.Stdout

func fnv(b []byte) uint64 {
	h := uint64(0xcbf29ce484222325)
	for _, x := range b {
		h = (h ^ uint64(x)) * 0x100000001b3
	}
	return h
}

func errKind(e error) string {
	if e == nil {
		return ""
	}
	s := e.Error()
	switch {
	case s == "block not in the index":
		return "notinindex"
	case strings.HasPrefix(s, "block not written yet"):
		return "notwritten"
	case s == "block purged from disk":
		return "purged"
	case strings.HasPrefix(s, "snappy"):
		return "snappy"
	case errors.Is(e, io.ErrUnexpectedEOF) || errors.Is(e, io.EOF):
		return "shortread"
	}
	var pe *os.PathError
	if errors.As(e, &pe) {
		if pe.Op == "open" {
			return "nofile"
		}
		return "fileerr"
	}
	return "other:" + s
}

func b01(b bool) string {
	if b {
		return "1"
	}
	return "0"
}

// dirFiles lists the store's directory in the oracle's `files` format.
func dirFiles(dir string) string {
	type ent struct {
		cls string
		idx uint64
		s   string
	}
	var es []ent
	scan := func(d, cls string) {
		l, _ := os.ReadDir(d)
		for _, e := range l {
			if e.IsDir() {
				continue
			}
			b, _ := os.ReadFile(filepath.Join(d, e.Name()))
			n := e.Name()
			var idx uint64
			var ok bool
			switch {
			case n == "blockchain.new" && cls == "dat":
				es = append(es, ent{"idx", 0, fmt.Sprintf("idx:%d:%d", len(b), fnv(b))})
				continue
			case n == "blockchain.dat":
				idx, ok = 0, true
			case strings.HasPrefix(n, "blockchain-") && strings.HasSuffix(n, ".dat"):
				_, e := fmt.Sscanf(n, "blockchain-%08x.dat", &idx)
				ok = e == nil
			case strings.HasPrefix(n, "bl") && strings.HasSuffix(n, ".dat"):
				_, e := fmt.Sscanf(n, "bl%08d.dat", &idx)
				ok = e == nil
			}
			if !ok {
				es = append(es, ent{"zz", 0, "unexpected:" + cls + ":" + n})
				continue
			}
			es = append(es, ent{cls, idx, fmt.Sprintf("%s%d:%d:%d", cls, idx, len(b), fnv(b))})
		}
	}
	scan(dir, "dat")
	scan(filepath.Join(dir, "oldat"), "old")
	sort.Slice(es, func(i, j int) bool {
		if es[i].cls != es[j].cls {
			order := map[string]int{"idx": 0, "dat": 1, "old": 2, "zz": 3}
			return order[es[i].cls] < order[es[j].cls]
		}
		return es[i].idx < es[j].idx
	})
	out := []string{"files"}
	for _, e := range es {
		out = append(out, e.s)
	}
	return strings.Join(out, " ")
}

func short(s string) string {
	if len(s) > 160 {
		return s[:80] + "…" + s[len(s)-60:] + fmt.Sprintf(" (%d chars)", len(s))
	}
	return s
}

// runHistory executes one history on the three parties; returns the failures seen (first of each key).
func (x *runner) runHistory(h *History, count bool) (fails []failure) {
	r := x.r
	seen := map[string]bool{}
	fail := func(kind, key, what string) {
		if !seen[kind+key] {
			seen[kind+key] = true
			fails = append(fails, failure{kind, key, what})
		}
	}
	reached := map[string]bool{}
	hit := func(k string) {
		reached[k] = true
		if count {
			r.Hit(k)
		}
	}
	// a corpus history names the branches it exists for: not reaching one of them (a skipped poke / stash, a changed
	// layout) is reported instead of silently lowering a counter
	defer func() {
		for _, k := range h.Expect {
			if !reached[k] {
				fail("tie", "corpus-expectation-not-reached", fmt.Sprintf("history %q no longer reaches %q", h.Name, k))
			}
		}
	}()
	dir, err := os.MkdirTemp("", "vc16")
	if err != nil {
		fmt.Fprintln(os.Stderr, "mkdirtemp:", err)
		os.Exit(3)
	}
	defer os.RemoveAll(dir)
	if rep := x.o.MustAsk("reset"); rep != "ok" {
		fail("tie", "oracle-reset", rep)
		return
	}
	datas := make([][]byte, len(h.Blocks))
	hashes := make([][32]byte, len(h.Blocks))
	for i, s := range h.Blocks {
		datas[i] = s.Data()
		hashes[i] = sha2(datas[i][:80])
	}
	unknown := sha2([]byte("a hash that was never added"))
	hashOf := func(b int) [32]byte {
		if b < 0 || b >= len(hashes) {
			return unknown
		}
		return hashes[b]
	}
	ref := map[[32]byte]*refEnt{}
	// hashes marked invalid while their block was still queued: the store forgets them ("never write it"); the same
	// hash may be stored again later and is then a new block of the reference map
	removedQ := map[[32]byte]bool{}
	removedQ2 := map[[32]byte]bool{} // hashes stored again after they had been forgotten that way
	poked := false                   // a `poke` operation damaged a file: no property claims afterwards, tie only
	stashed := map[uint64]int64{}    // (value: the file's size)  // data files a `stash` operation moved into oldat/ and that were not seen back in the main directory yet
	allAdds := map[[32]byte][]int{} // every block number ever handed to BlockAdd under a hash
	var db *chain.BlockDB
	var cur Opts
	retention := false // some configuration of this history lets data files fall out of retention

	// retention, decided on the real directory only: data files that disappeared from the main directory without
	// being moved to oldat/, and the data-file number stored in the real index record of a block
	maxSeen := uint64(0)
	minKeep := uint32(0) // smallest non-zero DataFilesKeep of the history's sessions
	removed := map[uint64]bool{}
	scanDir := func() {
		now := map[uint64]bool{}
		l, _ := os.ReadDir(dir)
		for _, e := range l {
			var idx uint64
			n := e.Name()
			if n == "blockchain.dat" {
				now[0] = true
			} else if _, err := fmt.Sscanf(n, "blockchain-%08x.dat", &idx); err == nil {
				now[idx] = true
			} else if _, err := fmt.Sscanf(n, "bl%08d.dat", &idx); err == nil {
				now[idx] = true
			}
		}
		// data files are created with consecutive numbers: one that is absent below the highest number seen
		// (and is not in oldat/) was removed — possibly created and removed within one operation
		for idx := range now {
			if idx > maxSeen {
				maxSeen = idx
			}
		}
		for idx := uint64(0); idx < maxSeen; idx++ {
			if !now[idx] {
				if _, err := os.Stat(filepath.Join(dir, "oldat", fmt.Sprintf("bl%08d.dat", idx))); err != nil {
					removed[idx] = true
				}
			}
		}
	}
	// tie of the model's ghost `FS.lost` (the data-file numbers whose bytes left the configured retention or were shadowed —
	// what `store_refines_map` of Props/C16.lean excludes) to the REAL directory tree, after every operation:
	//   * a number below the highest one ever seen that is in neither the main directory nor oldat/ is lost;
	//   * a file that was in the main directory before the operation (or was created during it) and is gone now, in a
	//     session without backup, is lost even if a stale copy from an earlier backup session sits in oldat/;
	//   * a file that LoadBlockIndex created in the main directory while a file of that number still sits in oldat/ is lost
	//     (shadowed — the former finding backup-shadowed-by-new-file; the repaired code moves the backup back instead).
	// The union over the history must equal the model's list, and the file names of both directories must agree.
	realLost := map[uint64]bool{}
	prevMain, prevOld := map[uint64]bool{}, map[uint64]bool{}
	prevMax := int64(-1)
	listDir := func(d string) map[uint64]bool {
		now := map[uint64]bool{}
		l, _ := os.ReadDir(d)
		for _, e := range l {
			var idx uint64
			n := e.Name()
			if e.IsDir() {
				continue
			}
			if n == "blockchain.dat" {
				now[0] = true
			} else if _, err := fmt.Sscanf(n, "blockchain-%08x.dat", &idx); err == nil {
				now[idx] = true
			} else if _, err := fmt.Sscanf(n, "bl%08d.dat", &idx); err == nil {
				now[idx] = true
			}
		}
		return now
	}
	tieLost := func(where string, isReopen bool) {
		nowMain, nowOld := listDir(dir), listDir(filepath.Join(dir, "oldat"))
		nowMax := prevMax
		for idx := range nowMain {
			if int64(idx) > nowMax {
				nowMax = int64(idx)
			}
		}
		for idx := int64(0); idx <= nowMax; idx++ {
			u := uint64(idx)
			if nowMain[u] {
				if isReopen && !prevMain[u] && prevOld[u] && nowOld[u] {
					realLost[u] = true // created over the backup, which is still in oldat/: shadowed
				}
				continue
			}
			if !nowOld[u] {
				realLost[u] = true // missing from the directory tree
			} else if !cur.Backup && (prevMain[u] || idx > prevMax) {
				realLost[u] = true // removed without backup; the file in oldat/ is a stale copy of an earlier session
			}
		}
		prevMain, prevOld, prevMax = nowMain, nowOld, nowMax
		var rl []string
		for idx := int64(0); idx <= nowMax; idx++ {
			if realLost[uint64(idx)] {
				rl = append(rl, fmt.Sprint(idx))
			}
		}
		rs := strings.Join(append([]string{"lost"}, rl...), " ")
		if ms := x.o.MustAsk("lost"); ms != rs {
			fail("tie", "lost-set", fmt.Sprintf("%s: data files out of retention / shadowed: real directory %q, model %q", where, rs, ms))
		} else if count {
			r.TieOK()
			if len(rl) > 0 {
				hit("lost:nonempty")
			}
		}
		var nm []string
		for idx := int64(0); idx <= nowMax; idx++ {
			if nowMain[uint64(idx)] {
				nm = append(nm, fmt.Sprintf("dat%d", idx))
			}
		}
		for idx := int64(0); idx <= nowMax; idx++ {
			if nowOld[uint64(idx)] {
				nm = append(nm, fmt.Sprintf("old%d", idx))
			}
		}
		rn := strings.Join(append([]string{"names"}, nm...), " ")
		if mn := x.o.MustAsk("names"); mn != rn {
			fail("tie", "file-names", fmt.Sprintf("%s: data files present: real directory %q, model %q", where, rn, mn))
		} else if count {
			r.TieOK()
		}
	}
	outOfRetention := func(b int) bool {
		if !retention || b < 0 || b >= len(datas) {
			return false
		}
		ix, _ := os.ReadFile(filepath.Join(dir, "blockchain.new"))
		found := false
		for p := 0; p+136 <= len(ix); p += 136 {
			if bytes.Equal(ix[p+56:p+136], datas[b][:80]) && ix[p]&2 == 0 {
				if removed[uint64(ix[p+28])|uint64(ix[p+29])<<8|uint64(ix[p+30])<<16|uint64(ix[p+31])<<24] {
					found = true
				}
			}
		}
		return found
	}

	// the configured retention, decided independently of what the store removed: with DataFilesKeep = k a roll-over to file
	// m+1 removes file m-k and LoadBlockIndex removes files below max-k, so a file whose number is at least (highest number
	// ever seen) - (smallest non-zero k of the history) must never be removed
	withinKeep := func(b int) bool {
		if minKeep == 0 || b < 0 || b >= len(datas) {
			return false
		}
		ix, _ := os.ReadFile(filepath.Join(dir, "blockchain.new"))
		for p := 0; p+136 <= len(ix); p += 136 {
			if bytes.Equal(ix[p+56:p+136], datas[b][:80]) && ix[p]&2 == 0 {
				f := uint64(ix[p+28]) | uint64(ix[p+29])<<8 | uint64(ix[p+30])<<16 | uint64(ix[p+31])<<24
				if f+uint64(minKeep) >= maxSeen {
					return true
				}
			}
		}
		return false
	}

	for opi, op := range h.Ops {
		hs := hashOf(op.B)
		hx := hex.EncodeToString(hs[:])
		var line, real string
		panicked := false
		call := func(f func()) {
			defer func() {
				if e := recover(); e != nil {
					panicked = true
				}
			}()
			f()
		}
		where := fmt.Sprintf("op %d (%s b=%d)", opi, op.Op, op.B)
		if op.Op == "poke" {
			// somebody else overwrites bytes of a file while the store is closed (a legacy record, damaged data): applied
			// to the real directory and to the model's file system alike; no property claim is made afterwards
			if db != nil {
				fail("tie", "corpus-op-skipped", where+": poke on an open store is skipped")
				continue
			}
			raw, err := hex.DecodeString(op.Hex)
			fn := filepath.Join(dir, "blockchain.new")
			pl := fmt.Sprintf("poke idx %d %s", op.Pos, vlib.Hex(raw))
			if op.File == "dat" {
				fn = filepath.Join(dir, fmt.Sprintf("bl%08d.dat", op.B))
				pl = fmt.Sprintf("poke dat %d %d %s", op.B, op.Pos, vlib.Hex(raw))
			}
			f, e2 := os.OpenFile(fn, os.O_RDWR, 0)
			if err != nil || e2 != nil {
				fail("tie", "corpus-op-skipped", fmt.Sprintf("%s: poke skipped: %v %v", where, err, e2))
				continue
			}
			f.WriteAt(raw, op.Pos)
			f.Close()
			if rep := x.o.MustAsk(pl); rep != "ok" {
				fail("tie", "oracle-rejects-op", where+": the model does not cover this poke: "+rep)
				return
			}
			poked = true
			for _, e := range ref {
				e.tainted = true
			}
			hit("op:poke")
			continue
		}
		if op.Op == "stash" {
			// somebody moves data file number B from the main directory into oldat/ while the store is closed (what
			// removeDatFile does with DataFilesBackup, here applied to any file — e.g. the CURRENT one, which the store itself
			// never moves): the real directory and the model's file system alike. No taint: every stored block must still come
			// back — LoadBlockIndex has to bring the current file back from oldat/ instead of creating an empty one over it
			// (repair ab43e6b0), BlockGet falls back to oldat/ for the others.
			fn := fmt.Sprintf("bl%08d.dat", op.B)
			_, e2 := os.Stat(filepath.Join(dir, "oldat", fn))
			fi, e1 := os.Stat(filepath.Join(dir, fn))
			if db != nil || e1 != nil || e2 == nil {
				fail("tie", "corpus-op-skipped", fmt.Sprintf("%s: stash skipped (store open: %v, main: %v, oldat present: %v)", where, db != nil, e1, e2 == nil))
				continue
			}
			os.MkdirAll(filepath.Join(dir, "oldat"), 0770)
			if e := os.Rename(filepath.Join(dir, fn), filepath.Join(dir, "oldat", fn)); e != nil {
				fail("tie", "corpus-op-skipped", fmt.Sprintf("%s: stash: %v", where, e))
				continue
			}
			if rep := x.o.MustAsk(fmt.Sprintf("stash %d", op.B)); rep != "ok" {
				fail("tie", "oracle-rejects-op", where+": the model does not cover this stash: "+rep)
				return
			}
			prevMain, prevOld = listDir(dir), listDir(filepath.Join(dir, "oldat"))
			stashed[uint64(op.B)] = fi.Size()
			hit("op:stash")
			continue
		}
		if db == nil && op.Op != "reopen" {
			continue // malformed history (e.g. after shrinking): skip operations on a closed store
		}
		hit("op:" + op.Op)
		switch op.Op {
		case "reopen":
			if db != nil || op.Opts == nil {
				continue
			}
			cur = *op.Opts
			if cur.Keep != 0 && !cur.Backup {
				retention = true
			}
			if cur.Keep != 0 && (minKeep == 0 || cur.Keep < minKeep) {
				minKeep = cur.Keep
			}
			line = fmt.Sprintf("reopen %d %d %d %s %s", cur.MaxCached, cur.MaxFile, cur.Keep, b01(cur.Backup), b01(cur.Compress))
			var walked []string
			type wrec struct {
				hash              [32]byte
				height, blen, txs uint32
			}
			var wl []wrec
			call(func() {
				db = chain.NewBlockDBExt(dir, &chain.BlockDBOpts{MaxCachedBlocks: cur.MaxCached, MaxDataFileSize: cur.MaxFile,
					DataFilesKeep: cur.Keep, DataFilesBackup: cur.Backup, CompressOnDisk: cur.Compress})
				db.LoadBlockIndex(nil, func(ch *chain.Chain, hash, hdr []byte, height, blen, txs uint32) {
					walked = append(walked, fmt.Sprintf("%x,%x,%d,%d,%d", hash, hdr, height, blen, txs))
					var w wrec
					copy(w.hash[:], hash)
					w.height, w.blen, w.txs = height, blen, txs
					wl = append(wl, w)
				})
			})
			real = strings.Join(append([]string{"walk"}, walked...), " ")
			if panicked {
				real = "panic"
				db = nil
			}
			// property: the index lists exactly the stored, non-invalid blocks, each once, with their fields
			listed := map[[32]byte]int{}
			if poked {
				wl = nil // a damaged / legacy index: model = implementation only
			}
			for _, w := range wl {
				listed[w.hash]++
				e := ref[w.hash]
				if e == nil && removedQ[w.hash] {
					fail("prop", "reopen-lists-removed-block", fmt.Sprintf("%s: LoadBlockIndex lists %x, which was marked invalid before it was written and not stored again", where, w.hash[:8]))
					continue
				}
				if e == nil {
					fail("prop", "reopen-lists-unknown-block", fmt.Sprintf("%s: LoadBlockIndex lists %x which was never added", where, w.hash[:8]))
					continue
				}
				if e.tainted && !e.readded {
					fail("prop", "reopen-lists-invalid-block", fmt.Sprintf("%s: LoadBlockIndex lists %x, which was marked invalid after it had been written and was not handed to BlockAdd again since", where, w.hash[:8]))
					continue
				}
				if listed[w.hash] > 1 && !e.tainted {
					fail("prop", "reopen-lists-twice", fmt.Sprintf("%s: %x listed twice", where, w.hash[:8]))
				}
				match := w.height == e.spec.Height && int(w.blen) == len(e.data) && w.txs == e.spec.TxCount
				if e.tainted {
					// no claim about which of the blocks stored under a hash that was marked invalid on disk is listed
					for _, b := range allAdds[w.hash] {
						if w.height == h.Blocks[b].Height && int(w.blen) == len(datas[b]) && w.txs == h.Blocks[b].TxCount {
							match = true
						}
					}
				}
				if !match {
					fail("prop", "reopen-wrong-fields", fmt.Sprintf("%s: %x listed with height=%d size=%d txs=%d, stored %d/%d/%d",
						where, w.hash[:8], w.height, w.blen, w.txs, e.spec.Height, len(e.data), e.spec.TxCount))
				}
			}
			for hh, e := range ref {
				if !e.tainted && listed[hh] == 0 {
					fail("prop", "reopen-lost-block", fmt.Sprintf("%s: stored block %x (height %d) is not listed after the restart", where, hh[:8], e.spec.Height))
				}
				if e.tainted && !e.readded && !poked && !panicked {
					hit("reopen:invalidated-block-not-listed")
				}
			}
			// a data file that was moved into oldat/ while the store was closed (`stash`): if it is the file LoadBlockIndex
			// appends to, it must be back in the main directory with its bytes — not an empty file created over it
			for idx, size := range stashed {
				fn := fmt.Sprintf("bl%08d.dat", idx)
				fm, em := os.Stat(filepath.Join(dir, fn))
				_, eo := os.Stat(filepath.Join(dir, "oldat", fn))
				switch {
				case panicked:
				case em == nil && eo == nil:
					fail("prop", "backup-shadowed-by-new-file", fmt.Sprintf("%s: LoadBlockIndex created data file %d in the main directory while the file with the stored blocks sits in oldat/", where, idx))
				case em == nil && fm.Size() < size:
					fail("prop", "current-data-file-replaced", fmt.Sprintf("%s: data file %d (%d bytes, moved into oldat/ while the store was closed) is a %d-byte file in the main directory after LoadBlockIndex and gone from oldat/", where, idx, size, fm.Size()))
				case em == nil:
					hit("reopen:restored-from-oldat")
					delete(stashed, idx)
				default:
					hit("reopen:stashed-stays-in-oldat")
				}
			}
		case "add":
			if op.B < 0 || op.B >= len(datas) {
				continue
			}
			bl := new(btc.Block)
			bl.Raw = datas[op.B]
			bl.Hash = btc.NewUint256(hs[:])
			bl.TxCount = int(h.Blocks[op.B].TxCount)
			if op.Flag {
				bl.Trusted.Set()
			}
			line = fmt.Sprintf("add %s %d %d %s %s", hx, h.Blocks[op.B].Height, h.Blocks[op.B].TxCount, b01(op.Flag), vlib.Hex(datas[op.B]))
			call(func() { db.BlockAdd(h.Blocks[op.B].Height, bl) })
			allAdds[hs] = append(allAdds[hs], op.B)
			if removedQ[hs] {
				hit("add:same-hash-after-queued-invalid")
				removedQ2[hs] = true
			}
			real = "ok"
			if e := ref[hs]; e == nil {
				ref[hs] = &refEnt{data: datas[op.B], trusted: op.Flag, spec: h.Blocks[op.B]}
				delete(removedQ, hs)
			} else {
				if op.Flag {
					e.trusted = true
				}
				if e.tainted {
					e.readded = true
				}
			}
		case "get", "getext", "getnc":
			// the three read entry points: BlockGet, BlockGetExt (both BlockGetInternal(hash, false)) and the one-pass read
			// BlockGetInternal(hash, true) of Chain.ParseTillBlock / Chain.UndoLastBlock / the rescan loop. The property's
			// predicate is the same for all of them: the stored bytes come back.
			line = "get " + hx
			if op.Op == "getnc" {
				line = "getnc " + hx
			}
			var bl []byte
			var tr bool
			var e error
			fn := map[string]string{"get": "BlockGet", "getext": "BlockGetExt", "getnc": "BlockGetInternal(do_not_cache=true)"}[op.Op]
			switch op.Op {
			case "get":
				call(func() { bl, tr, e = db.BlockGet(btc.NewUint256(hs[:])) })
			default:
				call(func() {
					var cr *chain.BlckCachRec
					if op.Op == "getext" {
						cr, tr, e = db.BlockGetExt(btc.NewUint256(hs[:]))
					} else {
						cr, tr, e = db.BlockGetInternal(btc.NewUint256(hs[:]), true)
					}
					if cr != nil {
						bl = cr.Data
					}
				})
			}
			if e != nil {
				real = "err " + errKind(e) + " " + b01(tr)
				hit(op.Op + ":" + errKind(e))
			} else {
				real = "data " + b01(tr) + " " + vlib.Hex(bl)
				hit(op.Op + ":ok")
			}
			if re := ref[hs]; re == nil {
				if e == nil && !poked {
					fail("prop", "get-unknown-returns-data", where+": "+fn+" of a hash that was never added (or was marked invalid before it was written) returned data")
				}
			} else if !re.tainted && !panicked {
				if e != nil {
					if !outOfRetention(op.B) {
						fail("prop", "get-stored-fails", fmt.Sprintf("%s: "+fn+" of stored block %x fails: %v", where, hs[:8], e))
					} else if withinKeep(op.B) {
						fail("prop", "removed-within-retention", fmt.Sprintf("%s: "+fn+" of stored block %x fails (%v): its data file was removed although it is within the configured retention (DataFilesKeep >= %d, highest data file %d)", where, hs[:8], e, minKeep, maxSeen))
					} else {
						hit("get:out-of-retention")
						hit("get:out-of-retention:" + errKind(e))
					}
				} else {
					if !bytes.Equal(bl, re.data) && outOfRetention(op.B) {
						// the block's data file left the retention: an error is the answer the property allows; bytes that
						// are not the stored block are not
						fail("prop", "out-of-retention-read-returns-other-bytes", fmt.Sprintf("%s: "+fn+" of %x, whose data file was removed (out of retention), returns %d bytes without error that are not the stored block (%d bytes): the data-file number was used again", where, hs[:8], len(bl), len(re.data)))
					} else if !bytes.Equal(bl, re.data) {
						fail("prop", "get-wrong-bytes", fmt.Sprintf("%s: "+fn+" of %x returns %d bytes that differ from the %d stored", where, hs[:8], len(bl), len(re.data)))
					}
					if tr != re.trusted {
						fail("prop", "get-wrong-trusted", fmt.Sprintf("%s: "+fn+" of %x returns trusted=%v, latest flag is %v", where, hs[:8], tr, re.trusted))
					}
				}
			}
		case "len":
			line = "len " + hx + " " + b01(op.Flag)
			var l uint32
			var e error
			call(func() { l, e = db.BlockLength(btc.NewUint256(hs[:]), op.Flag) })
			if e != nil {
				real = "lenerr"
			} else {
				real = fmt.Sprintf("len %d", l)
			}
			if re := ref[hs]; re != nil && !re.tainted && !panicked {
				// every record this code writes carries the uncompressed size (BLOCK_LENGTH), so the answer does not depend on
				// decode_if_needed; an error is allowed only when the block's data file left the retention
				if e == nil && int(l) != len(re.data) {
					fail("prop", "blocklength-wrong", fmt.Sprintf("%s: BlockLength(%x, decode_if_needed=%v) = %d, stored block has %d bytes", where, hs[:8], op.Flag, l, len(re.data)))
				} else if e != nil && !outOfRetention(op.B) {
					fail("prop", "blocklength-stored-fails", fmt.Sprintf("%s: BlockLength(%x, decode_if_needed=%v) of a stored block fails: %v", where, hs[:8], op.Flag, e))
				} else if e == nil {
					hit("len:ok:decode=" + b01(op.Flag))
				}
			}
		case "trusted":
			line = "trusted " + hx
			call(func() { db.BlockTrusted(hs[:]) })
			real = "ok"
			if e := ref[hs]; e != nil {
				e.trusted = true
			}
		case "invalid":
			line = "invalid " + hx
			call(func() { db.BlockInvalid(hs[:]) })
			real = "ok"
			if e := ref[hs]; e != nil && e.tainted {
				hit("invalid:again-on-written-block")
			}
			if e := ref[hs]; e != nil && !panicked {
				if e.flushed {
					e.tainted = true
					e.readded = false
				} else {
					delete(ref, hs)
					removedQ[hs] = true
				}
			}
		case "idle":
			line = "idle"
			call(func() { db.Idle() })
			real = "ok"
		case "close":
			line = "close"
			call(func() { db.Close() })
			real = "ok"
		default:
			continue
		}
		if panicked && real != "panic" {
			real = "panic"
		}
		// the only panic the store's contract has is BlockInvalid of a block that was marked trusted; any other one
		// leaves db.mutex locked: nothing that was stored can be read back any more
		if panicked {
			if e := ref[hs]; op.Op != "invalid" {
				fail("prop", "op-panics", fmt.Sprintf("%s: the operation panics; the store is unusable afterwards", where))
			} else if e == nil || !e.trusted {
				fail("prop", "invalid-panics-on-untrusted-block", fmt.Sprintf("%s: BlockInvalid of %x, which was never marked trusted, panics with db.mutex held; nothing stored can be read back afterwards", where, hs[:8]))
			}
		}
		model := x.o.MustAsk(line)
		if model == "bad-op" || model == "bad" {
			fail("tie", "oracle-rejects-op", where+": the model does not cover this operation: "+short(line))
			break
		}
		if model != real {
			fail("tie", "out:"+op.Op, fmt.Sprintf("%s: real %q, model %q", where, short(real), short(model)))
		} else if count {
			r.TieOK()
		}
		// the oracle runs the durable-map specification next to the model: the model's own reply must satisfy the
		// retention-aware claim (Props/C16.lean `store_refines_map`, proved for every history and option combination): a
		// "violated" here means the oracle no longer runs the definitions the theorem is about
		isGet := op.Op == "get" || op.Op == "getext" || op.Op == "getnc"
		if isGet || op.Op == "len" {
			if c := x.o.MustAsk("claim"); c != "ok" {
				fail("tie", "model-violates-retention-claim", fmt.Sprintf("%s: the model's reply %q does not satisfy the durable-map claim within retention (%s)", where, short(model), c))
			} else if count {
				hit("claimR:ok")
			}
			// the Lean specification must not claim less than the reference map: where the Go map demands the stored
			// bytes (entry present, not tainted, data file not removed), `claimR` must demand them too
			ck := x.o.MustAsk("claimkind")
			if count {
				hit("claimR:" + op.Op + ":" + ck)
			}
			if re := ref[hs]; isGet && re != nil && !re.tainted && !poked && !panicked && !outOfRetention(op.B) {
				if ck != "data" {
					fail("tie", "spec-claims-less-than-reference", fmt.Sprintf("%s: the reference map demands the stored bytes of %x, the Lean specification (claimR) claims %q", where, hs[:8], ck))
				} else if count {
					r.TieOK()
					if removedQ2[hs] {
						hit("claimR:data-for-block-stored-again-after-queued-invalid")
					}
				}
			}
		}
		if panicked {
			hit("panic:" + op.Op)
			// the real store holds db.mutex forever after this panic: the history ends here
			db = nil
			return
		}
		if op.Op == "close" {
			for _, e := range ref {
				e.flushed = true
			}
			db = nil
			scanDir()
			tieLost(where, false)
			rf := dirFiles(dir)
			mf := x.o.MustAsk("files")
			if rf != mf {
				fail("tie", "files-after-close", fmt.Sprintf("%s: directory %q, model %q", where, short(rf), short(mf)))
			} else if count {
				r.TieOK()
			}
		} else if db != nil {
			db.VerifWaitDataFiles()
			scanDir()
			tieLost(where, op.Op == "reopen")
			a, b, c, q, cc := db.VerifPositions()
			rp := fmt.Sprintf("pos %d %d %d %d %d", a, b, c, q, cc)
			mp := x.o.MustAsk("pos")
			if rp != mp {
				fail("tie", "positions", fmt.Sprintf("%s: real %q, model %q (maxidxfilepos maxdatfilepos maxdatfileidx queued cached)", where, rp, mp))
			} else if count {
				r.TieOK()
			}
			if c > 0 {
				hit("state:rolled-over")
			}
			if q > 0 {
				hit("state:writes-queued")
			} else {
				for _, e := range ref {
					e.flushed = true
				}
			}
		}
	}
	if db != nil {
		func() {
			defer func() { recover() }()
			db.Close()
		}()
	}
	return
}

// shrink removes operations while the same failure key is still reported.
func (x *runner) shrink(h *History, key string) *History {
	has := func(c *History) bool {
		for _, f := range x.runHistory(c, false) {
			if f.Key == key {
				return true
			}
		}
		return false
	}
	cur := h
	budget := 150
	for changed := true; changed && budget > 0; {
		changed = false
		for i := len(cur.Ops) - 1; i >= 1 && budget > 0; i-- {
			c := &History{Name: cur.Name, Blocks: cur.Blocks}
			c.Ops = append(append([]OpRec{}, cur.Ops[:i]...), cur.Ops[i+1:]...)
			budget--
			if has(c) {
				cur = c
				changed = true
			}
		}
	}
	return cur
}

func (x *runner) doHistory(h *History) {
	r := x.r
	fails := x.runHistory(h, true)
	nb := 0
	for _, b := range h.Blocks {
		nb += b.Len
	}
	key := ""
	if len(h.Ops) > 2 {
		js, _ := json.Marshal(h)
		key = string(js)
	}
	r.Eval("history", key)
	if len(h.Ops) > 0 && h.Ops[0].Opts != nil {
		o := h.Ops[0].Opts
		r.Hit(fmt.Sprintf("opts:compress=%v", o.Compress))
		r.Hit(fmt.Sprintf("opts:cache=%d", o.MaxCached))
		r.Hit(fmt.Sprintf("opts:keep=%d,backup=%v", o.Keep, o.Backup))
		if o.MaxFile == 0 {
			r.Hit("opts:maxfile=0")
		} else {
			r.Hit("opts:maxfile>0")
		}
	}
	for _, b := range h.Blocks {
		switch {
		case b.Len < 200:
			r.Hit("blocksize:<200")
		case b.Len < 65536:
			r.Hit("blocksize:<64K")
		case b.Len < 1<<20:
			r.Hit("blocksize:<1M")
		default:
			r.Hit("blocksize:>=1M")
		}
		r.Hit("blockkind:" + b.Kind)
	}
	for _, f := range fails {
		if x.reported[f.Kind+f.Key] {
			continue
		}
		x.reported[f.Kind+f.Key] = true
		hh := h
		if len(h.Ops) <= 80 && nb < 1<<20 {
			hh = x.shrink(h, f.Key)
		}
		rep := map[string]interface{}{"history": hh}
		if f.Kind == "prop" {
			x.propFound++
		}
		if f.Kind == "prop" {
			r.PropFail(f.Key, f.What, rep)
		} else {
			r.TieFail(f.Key, f.What, rep)
		}
	}
}

// ---------------------------------------------------------------------------------------------
// snappy

type snappyCase struct {
	Name string `json:"name"`
	Src  string `json:"src,omitempty"` // hex: input of Encode
	Enc  string `json:"enc,omitempty"` // hex: input of Decode
}

func safeDecode(b []byte) (out []byte, ok bool) {
	defer func() {
		if e := recover(); e != nil {
			out, ok = nil, false
		}
	}()
	d, err := snappy.Decode(nil, b)
	return d, err == nil
}

// snappyRoundTrip: Encode on the real code, the model's encoder, both decoders on both outputs.
func snappyRoundTrip(o *vlib.Oracle, name string, src []byte, fail func(kind, key, what string, c snappyCase), ok func(), hit func(string)) {
	c := snappyCase{Name: name, Src: hex.EncodeToString(src)}
	var enc []byte
	func() {
		defer func() {
			if e := recover(); e != nil {
				fail("prop", "snappy-encode-panics", fmt.Sprintf("snappy.Encode panics on %d bytes (%s): %v", len(src), name, e), c)
			}
		}()
		enc = snappy.Encode(nil, src)
	}()
	if enc == nil {
		return
	}
	dec, dok := safeDecode(enc)
	if !dok || !bytes.Equal(dec, src) {
		fail("prop", "snappy-roundtrip", fmt.Sprintf("snappy.Decode(snappy.Encode(x)) != x for %d bytes (%s), ok=%v", len(src), name, dok), c)
	}
	menc := o.MustAsk("senc " + vlib.Hex(src))
	if menc != "ok "+vlib.Hex(enc) {
		fail("tie", "snappy-encode-output", fmt.Sprintf("snappy.Encode output differs from the model for %d bytes (%s): real %s model %s", len(src), name, short(vlib.Hex(enc)), short(menc)), c)
	} else {
		ok()
	}
	mdec := o.MustAsk("sdec " + vlib.Hex(enc))
	if mdec != "ok "+vlib.Hex(src) {
		fail("tie", "snappy-model-decode", fmt.Sprintf("model decode of the real encoder's output is not the source (%d bytes, %s): %s", len(src), name, short(mdec)), c)
	} else {
		ok()
	}
	if len(enc) < len(src) {
		hit("snappy:compressed")
	} else {
		hit("snappy:not-compressed")
	}
}

func snappyDecodeCase(o *vlib.Oracle, name string, enc []byte, fail func(kind, key, what string, c snappyCase), ok func(), hit func(string)) {
	c := snappyCase{Name: name, Enc: hex.EncodeToString(enc)}
	dec, dok := safeDecode(enc)
	real := "err"
	if dok {
		real = "ok " + vlib.Hex(dec)
		hit("sdec:ok")
	} else {
		hit("sdec:err")
	}
	m := o.MustAsk("sdec " + vlib.Hex(enc))
	if m != real {
		fail("tie", "snappy-decode", fmt.Sprintf("snappy.Decode differs from the model on %d bytes (%s): real %s model %s", len(enc), name, short(real), short(m)), c)
	} else {
		ok()
	}
}

func snappySizes(thorough bool) []int {
	var s []int
	for i := 0; i <= 70; i++ {
		s = append(s, i)
	}
	s = append(s, 255, 256, 257, 300, 1000, 2047, 2048, 2049, 4096, 16383, 16384, 16385, 65535-15, 65535, 65536, 65537, 65536+14, 65536+15, 65536+16, 65536+17, 65536+18, 131072, 131073, 200000)
	if thorough {
		s = append(s, 65536*3+5, 1<<20, 4000000)
	}
	return s
}

type childResult struct {
	Evals int            `json:"evals"`
	OK    int            `json:"ok"`
	Hits  map[string]int `json:"hits"`
	Fails []struct {
		Kind, Key, What string
		Case            snappyCase
	} `json:"fails"`
}

// snappyStream runs the snappy tie; used by the parent (assembly) and by the noasm child (pure Go).
func snappyStream(o *vlib.Oracle, g *vlib.Rng, thorough bool, nrand int, fail func(kind, key, what string, c snappyCase), ok func(), hit func(string), eval func(kind, key string)) {
	for _, n := range snappySizes(thorough) {
		for _, k := range []string{"rand", "zero", "rep", "text", "mixed", "far"} {
			if n > 300000 && (k == "text" || k == "rep") {
				continue
			}
			b := make([]byte, n)
			genBody(g, b, k)
			snappyRoundTrip(o, fmt.Sprintf("%s-%d", k, n), b, fail, ok, hit)
			eval("snappy-roundtrip", fmt.Sprintf("%s-%d-%x", k, n, fnv(b)))
		}
	}
	// directed: periodic data with period P (matches at offset exactly P) broken every few bytes, so that copies
	// of every length 4..11 (2-byte tag iff offset < 2048) and longer (3-byte tags, 64/60 splitting) are emitted
	for _, P := range []int{1, 2, 3, 4, 5, 7, 8, 9, 255, 256, 257, 1023, 1024, 2040, 2046, 2047, 2048, 2049, 2050, 4095, 4096, 16383, 16384, 32768, 60000, 65000} {
		for _, gap := range []int{0, 6, 9, 13, 30, 70, 140} {
			n := P + 2500
			if n > 65536 {
				n = 65536
			}
			b := make([]byte, n)
			copy(b, g.Bytes(min(P, n)))
			next := P + 4 + g.Intn(8)
			for i := P; i < n; i++ {
				b[i] = b[i-P]
				if gap > 0 && i == next {
					b[i] ^= byte(1 + g.Intn(255))
					next = i + 5 + g.Intn(gap)
				}
			}
			snappyRoundTrip(o, fmt.Sprintf("period-%d-gap-%d", P, gap), b, fail, ok, hit)
			eval("snappy-roundtrip", fmt.Sprintf("period-%d-%d-%x", P, gap, fnv(b)))
		}
	}
	for i := 0; i < nrand; i++ {
		n := g.Intn(3000)
		if g.Chance(1, 10) {
			n = 60000 + g.Intn(80000)
		}
		k := kinds[g.Intn(len(kinds))]
		b := make([]byte, n)
		genBody(g, b, k)
		snappyRoundTrip(o, fmt.Sprintf("%s-%d", k, n), b, fail, ok, hit)
		eval("snappy-roundtrip", fmt.Sprintf("%s-%d-%x", k, n, fnv(b)))
		// malformed stream: mutate a valid encoding / truncate / random bytes
		enc := snappy.Encode(nil, b)
		if len(enc) > 4000 {
			enc = enc[:4000]
		}
		m := append([]byte{}, enc...)
		switch g.Intn(5) {
		case 0:
			if len(m) > 0 {
				m[g.Intn(len(m))] ^= byte(1 << uint(g.Intn(8)))
			}
		case 1:
			if len(m) > 0 {
				m = m[:g.Intn(len(m))]
			}
		case 2:
			m = g.Bytes(g.Intn(40))
		case 3:
			if len(m) > 0 {
				m[0] = byte(g.U64()) // length header
			}
		default:
			if len(m) > 2 {
				p := g.Intn(len(m))
				m = append(append(append([]byte{}, m[:p]...), g.Bytes(1+g.Intn(4))...), m[p:]...)
			}
		}
		snappyDecodeCase(o, "mutated", m, fail, ok, hit)
		eval("snappy-decode-malformed", fmt.Sprintf("%x", m))
	}
}

var snappyCorpusDec = []string{
	"", "00", "01", "0100", "010041", "0500", "03080102", "0308010203", "04000141", // truncated literals
	"0a0061" + "0900", "0a0061" + "2100", "0a0061" + "0500", // copy1: offset 0 → corrupt
	"0a0061" + "0501", "0a0061" + "1d01", "0a0061" + "0502", // copy1 ok / offset beyond start
	"0a0061" + "220100", "0a0061" + "22000000", "0a0061" + "230100000000", // copy2, copy4
	"0a0061" + "2301", "0a0061" + "22", "0af0", "0af400", "0af80000", "0afc000000", // truncated headers
	"05f00461626364" + "65", "05f404006162636465", "05f8040000" + "6162636465", "05fc04000000" + "6162636465",
	"ffffffff0f00", "ffffffff1f00", "8080808080808080808001", "80808080808080808080", "808080808000", // length headers
	"020061", "000061", "0161", // wrong declared length
}

func main() {
	child := flag.Bool("snappychild", false, "internal: run only the snappy stream and print a JSON result")
	r := vlib.NewRun("C16")
	o, err := vlib.StartOracle("c16")
	if err != nil {
		fmt.Fprintln(os.Stderr, "cannot start oracle:", err)
		os.Exit(3)
	}
	defer o.Close()

	if *child {
		runChild(r, o)
		return
	}

	// gocoin prints with println (stderr) and fmt.Println (stdout): keep both out of the report
	os.MkdirAll(vlib.Root()+"/.work", 0755)
	if f, err := os.OpenFile(vlib.Root()+"/.work/c16.stderr.log", os.O_CREATE|os.O_TRUNC|os.O_WRONLY, 0644); err == nil {
		syscall.Dup2(int(f.Fd()), 2)
	}
	if dn, err := os.OpenFile(os.DevNull, os.O_WRONLY, 0); err == nil {
		os.Stdout = dn
	}
	finish := func(rule, expl string) {
		os.Stdout = realStdout
		r.Finish(rule, expl)
	}

	x := &runner{r: r, o: o, reported: map[string]bool{}}
	r.Assume = []string{
		"block hash = double-SHA256 of the first 80 bytes (as LoadBlockIndex recomputes it); no two stored blocks share the first 8 hash bytes (BIdx)",
		"flush points are the ones the code has: BlockAdd thresholds (1024 blocks / 16 MiB queued), Idle, Close; the removeDatFile goroutine is awaited after every operation",
		"file system: completed writes are visible to later opens; nobody else touches the directory; legacy file names bl%08d.dat are the ones dat_fname produces for files it creates itself",
		"gzip-compressed records of old gocoin versions are not generated; AbortNow is false; no crash (C07 covers crashes)",
		"snappy: Go int is 64 bit; inputs ≤ 4 MB",
	}
	rule := "a history = option grid point + 8..58 operations (add/get/len/trusted/invalid/idle/close/reopen) + final restart and read-back of every block; distinct = distinct JSON of the history with more than 2 operations; snappy cases distinct by (kind,size,content hash)"

	if r.Replay != "" {
		b, err := os.ReadFile(r.Replay)
		if err != nil {
			fmt.Fprintln(os.Stderr, err)
			os.Exit(3)
		}
		var doc struct {
			Replay struct {
				History *History    `json:"history"`
				Snappy  *snappyCase `json:"snappy"`
			} `json:"replay"`
		}
		if err := json.Unmarshal(b, &doc); err != nil {
			fmt.Fprintln(os.Stderr, err)
			os.Exit(3)
		}
		if doc.Replay.History != nil {
			x.doHistory(doc.Replay.History)
		}
		if doc.Replay.Snappy != nil {
			x.replaySnappy(doc.Replay.Snappy)
			if !pureGo {
				x.runNoasmChild()
			}
		}
		finish(rule, "replay of "+r.Replay)
		return
	}

	phase := map[string]float64{}
	r.Extra["phase_seconds"] = phase
	t0 := time.Now()
	lap := func(name string) {
		phase[name] = float64(int(time.Since(t0).Seconds()*100)) / 100
		t0 = time.Now()
	}
	// 1. corpus: hand-made histories (corpus/C16/*.json) — F5 witness, thresholds, roll-over edges
	files, _ := filepath.Glob(vlib.Root() + "/corpus/C16/*.json")
	sort.Strings(files)
	for _, f := range files {
		b, err := os.ReadFile(f)
		if err != nil {
			continue
		}
		var h History
		if json.Unmarshal(b, &h) != nil || len(h.Ops) == 0 {
			r.TieFail("corpus-unreadable", "cannot parse "+f, f)
			continue
		}
		if strings.Contains(filepath.Base(f), "thorough") && !r.Thorough() {
			continue
		}
		x.doHistory(&h)
		r.Hit("corpus-history")
	}
	for _, h := range builtinHistories(r.Thorough()) {
		th := time.Now()
		x.doHistory(h)
		if d := time.Since(th).Seconds(); d > 1 {
			phase["corpus:"+h.Name] += float64(int(d*100)) / 100
		}
		r.Hit("corpus-history")
	}

	lap("corpus_histories")
	// 2. generated histories
	g := r.Rng
	n := r.N(260, 6000)
	for i := 0; i < n; i++ {
		big := i%10 == 0
		h := genHistory(g.Fork(), fmt.Sprintf("gen-%d", i), big)
		x.doHistory(h)
		if i < 3 {
			r.Sample(h)
		}
		// a model/implementation disagreement alone does not end the search: go on until the property itself is seen
		// to fail on the real code (the Go map decides that), then stop early
		if x.propFound >= 2 {
			break
		}
	}

	lap("generated_histories")
	// 3. snappy: corpus of malformed inputs, size/kind grid, random + mutated stream (assembly build)
	failS := func(kind, key, what string, c snappyCase) {
		rep := map[string]interface{}{"snappy": c}
		if kind == "prop" {
			r.PropFail(key, what, rep)
		} else {
			r.TieFail(key, what, rep)
		}
	}
	for _, hx := range snappyCorpusDec {
		b, _ := hex.DecodeString(hx)
		snappyDecodeCase(o, "corpus", b, failS, r.TieOK, r.Hit)
		r.Eval("snappy-decode-malformed", "c"+hx)
	}
	snappyStream(o, g.Fork(), r.Thorough(), r.N(80, 3000), failS, r.TieOK, r.Hit, r.Eval)
	r.Sample(map[string]string{"snappy": "Encode/Decode on kinds rand/zero/rep/text/mixed/far × sizes 0..70, 255..257, 2047..2049, 16383..16385, 65520..65554, 131072.., 200000"})

	lap("snappy_asm")
	// 4. the same snappy stream on the pure-Go encoder/decoder (encode_other.go, decode_other.go): -tags noasm
	if !pureGo {
		x.runNoasmChild()
	}
	lap("snappy_purego_child")
	r.Extra["snappy_variants"] = "amd64 assembly (this binary) and pure Go (child built with -tags noasm)"

	finish(rule, "Every operation's observable result (BlockGet bytes+trusted / error class, BlockLength, LoadBlockIndex walk list) is compared between the real chain.BlockDB and the Lean model, the append positions / queue / cache sizes after every operation, and the directory contents (index + every data file, main and oldat) after every Close; independently a plain Go map decides the property itself (stored bytes come back with the latest trusted flag unless marked invalid or out of configured retention — then an error, never other bytes; after a restart exactly the stored non-invalid blocks are listed once with height/size/txcount, and no block that was marked invalid on disk and not added again; BlockLength of a stored block is its size for both values of decode_if_needed). Corpus-only operations outside the store: poke (overwrite bytes of a closed store's file; tie only afterwards) and stash (move a data file of the closed store, e.g. the current one, into oldat/: LoadBlockIndex must bring it back, every stored block must still be returned). snappy.Encode output is compared byte-for-byte with the model's encoder, both decoders run on both outputs and on mutated encodings.")
}

func (x *runner) replaySnappy(c *snappyCase) {
	failS := func(kind, key, what string, c snappyCase) {
		rep := map[string]interface{}{"snappy": c}
		if kind == "prop" {
			x.r.PropFail(key, what, rep)
		} else {
			x.r.TieFail(key, what, rep)
		}
	}
	if c.Enc != "" || c.Src == "" && c.Name == "mutated" {
		b, _ := hex.DecodeString(c.Enc)
		snappyDecodeCase(x.o, c.Name, b, failS, x.r.TieOK, x.r.Hit)
	} else {
		b, _ := hex.DecodeString(c.Src)
		snappyRoundTrip(x.o, c.Name, b, failS, x.r.TieOK, x.r.Hit)
	}
	x.r.Eval("snappy-replay", c.Name)
}

func runChild(r *vlib.Run, o *vlib.Oracle) {
	res := childResult{Hits: map[string]int{}}
	fail := func(kind, key, what string, c snappyCase) {
		if len(res.Fails) < 8 {
			res.Fails = append(res.Fails, struct {
				Kind, Key, What string
				Case            snappyCase
			}{kind, key + "-purego", what + " [pure-Go build, -tags noasm]", c})
		}
	}
	if r.Replay != "" {
		var doc struct {
			Replay struct {
				Snappy *snappyCase `json:"snappy"`
			} `json:"replay"`
		}
		if b, err := os.ReadFile(r.Replay); err == nil && json.Unmarshal(b, &doc) == nil && doc.Replay.Snappy != nil {
			c := doc.Replay.Snappy
			if c.Enc != "" {
				b, _ := hex.DecodeString(c.Enc)
				snappyDecodeCase(o, c.Name, b, fail, func() { res.OK++ }, func(k string) { res.Hits[k]++ })
			} else {
				b, _ := hex.DecodeString(c.Src)
				snappyRoundTrip(o, c.Name, b, fail, func() { res.OK++ }, func(k string) { res.Hits[k]++ })
			}
			res.Evals++
		}
		js, _ := json.Marshal(res)
		fmt.Println(string(js))
		return
	}
	for _, hx := range snappyCorpusDec {
		b, _ := hex.DecodeString(hx)
		snappyDecodeCase(o, "corpus", b, fail, func() { res.OK++ }, func(k string) { res.Hits[k]++ })
		res.Evals++
	}
	snappyStream(o, r.Rng.Fork(), r.Thorough(), r.N(80, 3000), fail, func() { res.OK++ }, func(k string) { res.Hits[k]++ },
		func(kind, key string) { res.Evals++ })
	js, _ := json.Marshal(res)
	fmt.Println(string(js))
}

func (x *runner) runNoasmChild() {
	r := x.r
	root := vlib.Root()
	repo := strings.TrimRight(vtrans.RepoRoot(), "/")
	suf := ""
	args := []string{"build"}
	if repo != "/repo" {
		suf = "_" + sha1Hex8(repo)
		mf := root + "/.work/go" + suf + ".mod"
		if _, err := os.Stat(mf); err == nil {
			args = append(args, "-modfile="+mf)
		}
	}
	bin := fmt.Sprintf("%s/.work/bin/c16_noasm%s.%d", root, suf, os.Getpid())
	defer os.Remove(bin)
	args = append(args, "-tags", "verif noasm", "-o", bin, "./cmd/c16")
	cmd := exec.Command("go", args...)
	cmd.Dir = root + "/go"
	cmd.Env = append(os.Environ(), "GOFLAGS=-mod=mod", "GOPROXY=off", "GOSUMDB=off", "GOTOOLCHAIN=local")
	if out, err := cmd.CombinedOutput(); err != nil {
		r.TieFail("noasm-build", "the pure-Go (noasm) variant of the harness does not build: "+short(string(out)), "go "+strings.Join(args, " "))
		return
	}
	cargs := []string{"-snappychild", "-tier", r.Tier}
	if r.Replay != "" {
		cargs = append(cargs, "-replay", r.Replay)
	}
	c := exec.Command(bin, cargs...)
	c.Env = os.Environ()
	out, err := c.Output()
	var res childResult
	if err != nil || json.Unmarshal(bytes.TrimSpace(out), &res) != nil {
		r.TieFail("noasm-run", fmt.Sprintf("the pure-Go snappy run failed: %v %s", err, short(string(out))), bin)
		return
	}
	for k, v := range res.Hits {
		for i := 0; i < v; i++ {
			r.Hit("purego:" + k)
		}
	}
	for i := 0; i < res.OK; i++ {
		r.TieOK()
	}
	r.Extra["purego_snappy_evaluations"] = res.Evals
	for _, f := range res.Fails {
		rep := map[string]interface{}{"snappy": f.Case, "build": "-tags noasm"}
		if f.Kind == "prop" {
			r.PropFail(f.Key, f.What, rep)
		} else {
			r.TieFail(f.Key, f.What, rep)
		}
	}
}
