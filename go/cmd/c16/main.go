package main

import (
	"fmt"
	"os"

	"github.com/piotrnar/gocoin/lib/btc"
	"github.com/piotrnar/gocoin/lib/chain"
)

func mk(seed byte, n int) *btc.Block {
	raw := make([]byte, n)
	for i := range raw {
		raw[i] = seed + byte(i%7)
	}
	bl := new(btc.Block)
	bl.Raw = raw
	bl.Hash = btc.NewSha2Hash(raw[:80])
	bl.TxCount = 1
	return bl
}

func open(dir string, o *chain.BlockDBOpts) *chain.BlockDB {
	db := chain.NewBlockDBExt(dir, o)
	db.LoadBlockIndex(nil, func(ch *chain.Chain, hash, hdr []byte, height, blen, txs uint32) {
		fmt.Printf("  walk %x h=%d blen=%d txs=%d\n", hash[:4], height, blen, txs)
	})
	return db
}

func main() {
	dir, _ := os.MkdirTemp("", "vc16")
	defer os.RemoveAll(dir)
	o := &chain.BlockDBOpts{MaxCachedBlocks: 2, CompressOnDisk: true}
	db := open(dir, o)
	A, B, C := mk(1, 100), mk(2, 200), mk(3, 300)
	db.BlockAdd(1, A)
	l, e := db.BlockLength(A.Hash, true)
	fmt.Println("len queued A", l, e)
	db.BlockAdd(2, B)
	db.Idle()
	l, e = db.BlockLength(A.Hash, true)
	fmt.Println("len written cached A (decode_if_needed)", l, e)
	l, e = db.BlockLength(A.Hash, false)
	fmt.Println("len written cached A (no decode)", l, e)
	db.BlockInvalid(A.Hash.Hash[:])
	db.Close()
	db = open(dir, o)
	db.BlockAdd(3, C)
	db.Close()
	db = open(dir, o)
	_, _, e = db.BlockGet(B.Hash)
	fmt.Println("get B:", e)
	db.Close()
	es, _ := os.ReadDir(dir)
	for _, x := range es {
		fi, _ := x.Info()
		fmt.Println(x.Name(), fi.Size())
	}
}
