//go:build noasm

package main

const pureGo = true
