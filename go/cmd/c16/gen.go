package main

import (
	"crypto/sha256"

	"verif/vlib"
)

// Opts mirrors chain.BlockDBOpts.
type Opts struct {
	MaxCached int    `json:"max_cached"`
	MaxFile   uint64 `json:"max_file"`
	Keep      uint32 `json:"keep"`
	Backup    bool   `json:"backup"`
	Compress  bool   `json:"compress"`
}

// BlockSpec describes a block deterministically (replay files stay small).
type BlockSpec struct {
	Seed    uint64 `json:"seed"`
	Len     int    `json:"len"`
	Kind    string `json:"kind"`
	Height  uint32 `json:"height"`
	TxCount uint32 `json:"txcount"`
	// HdrSeed != 0: the 80-byte header comes from this seed, so that two specs can share a header (= the same
	// block hash) and differ in everything else
	HdrSeed uint64 `json:"hdr_seed,omitempty"`
}

type OpRec struct {
	Op   string `json:"op"` // add get getext getnc len trusted invalid idle close reopen (getext = BlockGetExt, getnc = BlockGetInternal(hash, true))
	B    int    `json:"b"`  // block number; -1 = a hash that was never added
	Flag bool   `json:"flag,omitempty"`
	Opts *Opts  `json:"opts,omitempty"`
	// poke (closed store only): overwrite bytes of the index file (File = "idx") or of data file number B (File = "dat")
	// stash (closed store only): move data file number B from the main directory into oldat/
	File string `json:"file,omitempty"`
	Pos  int64  `json:"pos,omitempty"`
	Hex  string `json:"hex,omitempty"`
}

type History struct {
	Name   string      `json:"name"`
	Blocks []BlockSpec `json:"blocks"`
	Ops    []OpRec     `json:"ops"`
	// Expect (corpus histories): histogram keys that running this history MUST reach (e.g. "get:snappy",
	// "reopen:restored-from-oldat"); a corpus file that silently stops reaching its branch is reported
	Expect []string `json:"expect,omitempty"`
}

var kinds = []string{"rand", "zero", "rep", "text", "mixed", "mixed", "far"}

// genBody fills b with data of the given kind.
func genBody(g *vlib.Rng, b []byte, kind string) {
	n := len(b)
	switch kind {
	case "rand":
		copy(b, g.Bytes(n))
	case "zero":
	case "rep":
		p := g.Bytes(1 + g.Intn(40))
		for i := range b {
			b[i] = p[i%len(p)]
		}
	case "text":
		words := [][]byte{[]byte("tx"), []byte("input"), []byte("OP_CHECKSIG "), []byte("0000"), []byte("output-script"), {0xff, 0xff, 0xff, 0xff}}
		for i := 0; i < n; {
			w := words[g.Intn(len(words))]
			i += copy(b[i:], w)
		}
	case "far":
		// a random stretch, then copies from far behind (offsets beyond 2048 and beyond one 64 KiB block)
		first := n / 2
		if first > 70000 {
			first = 70000
		}
		copy(b, g.Bytes(first))
		for i := first; i < n; i++ {
			b[i] = b[i-first]
		}
	default: // mixed
		i := 0
		for i < n {
			switch g.Intn(4) {
			case 0:
				i += copy(b[i:], g.Bytes(1+g.Intn(300)))
			case 1:
				if i == 0 {
					continue
				}
				off := 1 + g.Intn(i)
				if g.Bool() && i > 4 {
					off = 1 + g.Intn(min(i, 70))
				}
				l := 1 + g.Intn(400)
				for k := 0; k < l && i < n; k++ {
					b[i] = b[i-off]
					i++
				}
			case 2:
				c := byte(g.U64())
				l := 1 + g.Intn(200)
				for k := 0; k < l && i < n; k++ {
					b[i] = c
					i++
				}
			default:
				i += copy(b[i:], g.Bytes(1+g.Intn(8)))
			}
		}
	}
}

// genData materialises a block: a unique pseudo-random 80-byte header followed by the body.
func (s BlockSpec) Data() []byte {
	g := vlib.NewRng(s.Seed)
	b := make([]byte, s.Len)
	hl := 80
	if hl > s.Len {
		hl = s.Len
	}
	copy(b, g.Bytes(hl))
	if s.HdrSeed != 0 {
		copy(b, vlib.NewRng(s.HdrSeed).Bytes(hl))
	}
	if s.Len > 80 {
		genBody(g, b[80:], s.Kind)
	}
	return b
}

func sha2(b []byte) [32]byte {
	a := sha256.Sum256(b)
	return sha256.Sum256(a[:])
}

func min(a, b int) int {
	if a < b {
		return a
	}
	return b
}

func genLen(g *vlib.Rng, big bool) int {
	switch g.Intn(20) {
	case 0:
		return 81
	case 1:
		return 81 + g.Intn(16)
	case 2, 3:
		return 90 + g.Intn(200)
	case 4:
		if big {
			return 65536 + 80 - 20 + g.Intn(40) // body around one snappy block
		}
		return 3000 + g.Intn(3000)
	case 5:
		if big {
			return 60000 + g.Intn(150000)
		}
		return 1000 + g.Intn(9000)
	default:
		return 81 + g.Intn(2500)
	}
}

func genOpts(g *vlib.Rng) *Opts {
	o := &Opts{Compress: g.Bool(), Backup: g.Chance(1, 3)}
	o.MaxCached = g.Pick(0, 1, 1, 2, 3, 5, 8)
	o.MaxFile = uint64(g.Pick(0, 0, 1, 200, 700, 2000, 6000, 50000))
	o.Keep = uint32(g.Pick(0, 0, 1, 1, 2, 3))
	return o
}

// readOp picks one of the store's read entry points.
func readOp(g *vlib.Rng) string {
	return []string{"get", "get", "get", "getnc", "getnc", "getext"}[g.Intn(6)]
}

// genHistory builds one structured, mostly-valid history.
func genHistory(g *vlib.Rng, name string, big bool) *History {
	h := &History{Name: name}
	opts := genOpts(g)
	h.Ops = append(h.Ops, OpRec{Op: "reopen", Opts: opts})
	nops := 8 + g.Intn(50)
	trusted := map[int]bool{}
	tainted := map[int]bool{}
	queued := map[int]bool{}   // added and no flush point (idle / close) since: generated histories stay below the thresholds
	removed := map[int]bool{}  // marked invalid while queued: the store forgets the block, the same hash may be stored again
	added := []int{}
	open := true
	newBlock := func() int {
		kind := kinds[g.Intn(len(kinds))]
		h.Blocks = append(h.Blocks, BlockSpec{Seed: g.U64(), Len: genLen(g, big), Kind: kind,
			Height: uint32(g.Intn(900000)), TxCount: uint32(1 + g.Intn(4000))})
		return len(h.Blocks) - 1
	}
	pick := func() int {
		if len(added) == 0 || g.Chance(1, 12) {
			return -1
		}
		if g.Chance(1, 3) { // recency bias: the blocks whose writes may still be queued
			return added[len(added)-1-g.Intn(min(len(added), 3))]
		}
		return added[g.Intn(len(added))]
	}
	for i := 0; i < nops; i++ {
		if !open {
			if g.Chance(1, 3) {
				opts = genOpts(g)
			}
			h.Ops = append(h.Ops, OpRec{Op: "reopen", Opts: opts})
			open = true
			continue
		}
		switch x := g.Intn(100); {
		case x < 34:
			b := -1
			var rem []int
			for _, a := range added {
				if removed[a] {
					rem = append(rem, a)
				}
			}
			if len(rem) > 0 && g.Chance(1, 2) {
				// the hash of a block that was marked invalid while queued is stored again, with other bytes / height / txcount
				old := rem[g.Intn(len(rem))]
				removed[old] = false
				hs := h.Blocks[old].HdrSeed
				if hs == 0 {
					hs = h.Blocks[old].Seed | 1
					h.Blocks[old].HdrSeed = hs
				}
				b = newBlock()
				h.Blocks[b].HdrSeed = hs
				added = append(added, b)
				queued[b] = true
			} else if len(added) > 0 && g.Chance(1, 5) {
				b = added[g.Intn(len(added))]
			} else {
				b = newBlock()
				added = append(added, b)
				queued[b] = true
			}
			t := g.Chance(1, 4)
			if t {
				trusted[b] = true
			}
			h.Ops = append(h.Ops, OpRec{Op: "add", B: b, Flag: t})
		case x < 60:
			// the three read entry points; the one-pass read (do_not_cache) is what the block parser / undo / rescan use,
			// typically on the blocks added last (still queued) and then read again by somebody else
			b := pick()
			h.Ops = append(h.Ops, OpRec{Op: readOp(g), B: b})
			if g.Chance(1, 4) {
				h.Ops = append(h.Ops, OpRec{Op: readOp(g), B: b})
			}
		case x < 68:
			h.Ops = append(h.Ops, OpRec{Op: "len", B: pick(), Flag: g.Bool()})
		case x < 75:
			b := pick()
			if b >= 0 {
				trusted[b] = true
			}
			h.Ops = append(h.Ops, OpRec{Op: "trusted", B: b})
		case x < 82:
			b := pick()
			// BlockInvalid on a trusted block panics with db.mutex held: generated on purpose only rarely, and it
			// ends the history. A second BlockInvalid of the same block is an ordinary operation.
			if b >= 0 && trusted[b] && !g.Chance(1, 15) {
				continue
			}
			h.Ops = append(h.Ops, OpRec{Op: "invalid", B: b})
			if b >= 0 && !trusted[b] {
				tainted[b] = true
				if queued[b] {
					removed[b] = true
					queued[b] = false
				}
			}
		case x < 91:
			h.Ops = append(h.Ops, OpRec{Op: "idle"})
			queued = map[int]bool{}
		default:
			h.Ops = append(h.Ops, OpRec{Op: "close"})
			queued = map[int]bool{}
			open = false
		}
	}
	// final restart and full read-back
	if open {
		h.Ops = append(h.Ops, OpRec{Op: "close"})
	}
	h.Ops = append(h.Ops, OpRec{Op: "reopen", Opts: opts})
	for _, b := range added {
		h.Ops = append(h.Ops, OpRec{Op: readOp(g), B: b})
		if g.Chance(1, 3) {
			h.Ops = append(h.Ops, OpRec{Op: "len", B: b, Flag: true})
		}
	}
	h.Ops = append(h.Ops, OpRec{Op: "close"})
	return h
}
